(* ReaderDerivE2E.v — C04 end to end: the LIBRARY route (Compile.v: the engine run on the registry's own
   meta-grammar, then the visitor) returns, whenever it accepts, exactly what the SPEC route (Registry.v:
   the spec reader of AbnfRead.v, then define_rule(s)) returns — for every registry that still contains
   the boot rules unchanged.  Built on ReaderDeriv.v (every derivation agrees with the spec reader),
   EngineSound.v (the engine's trees are derivations), Restrict.v (only the 40 boot rules matter) and
   VisitorProps.v (the visitor is "compile after abstraction"). *)
From Coq Require Import String Ascii List NArith Arith Bool Lia Permutation.
Import ListNotations.
From ABNF Require Import Base Engine Spec EngineSound Checks AbnfRead Registry RegistryProps RegistryView
     GenTypes Loader Bundled RfcSpec Tables Visit Visitor VisitorProps Restrict Compile
     ReaderDeriv1 ReaderDeriv.
Local Open Scope list_scope.

(* ------------------------------------------------------------------------------------------ *)
(** * The hypothesis on the registry *)
Definition boot_ids : list rid := map fst l_meta.

Definition boot_ok (R : reg) : Prop :=
  (forall r, In r boot_ids -> grammar_of R r = of_list l_meta r) /\
  meta_rule R "rulelist" = Some (N.to_nat (rid_meta "rulelist")) /\
  meta_rule R "rule" = Some (N.to_nat (rid_meta "rule")).

(* ------------------------------------------------------------------------------------------ *)
(** * Facts about the boot grammar (computed) *)
Lemma boot_closed : closed_under boot_ids (of_list l_meta).
Proof. apply closed_under_check_sound. vm_compute. reflexivity. Qed.
Lemma rulelist_in_boot : In (rid_meta "rulelist") boot_ids.
Proof. apply (proj1 (memr_In _ _)). vm_compute. reflexivity. Qed.
Lemma rule_in_boot : In (rid_meta "rule") boot_ids.
Proof. apply (proj1 (memr_In _ _)). vm_compute. reflexivity. Qed.
Lemma sh_id_perm : perm_oracle sh_id.
Proof. intros l. apply Permutation_refl. Qed.

(* parse / parse_all return at most one match *)
Lemma parse_single sh G f r s i ms : parse sh G f r s i = Ok ms -> exists m, ms = [m].
Proof.
  unfold parse. destruct (lparse sh G f (ERef r) s i) as [l| | |]; try discriminate.
  destruct (next_longest sh (set_of l)) as [|m rest]; [discriminate|].
  intros H. injection H as <-. eauto.
Qed.
Lemma parse_all_single sh G f r s ms : parse_all sh G f r s = Ok ms -> exists m, ms = [m].
Proof.
  unfold parse_all. destruct (parse sh G f r s 0) as [ps| | |] eqn:E; try discriminate.
  destruct ps as [|m0 rest].
  - apply parse_single in E. destruct E as [m E]. discriminate E.
  - destruct (Nat.ltb (mend m0) (length s)); [discriminate|]. intros H. injection H as <-. eauto.
Qed.

Section Transfer.
  Variable R : reg.
  Hypothesis HB : boot_ok R.

  Lemma boot_agree : agree_on boot_ids (grammar_of R) (of_list l_meta).
  Proof. intros r Hr. apply (proj1 HB r Hr). Qed.
  Lemma boot_closed_R : closed_under boot_ids (grammar_of R).
  Proof. apply (closed_under_agree boot_ids (of_list l_meta)); [apply agree_on_sym, boot_agree|exact boot_closed]. Qed.
End Transfer.

(* ------------------------------------------------------------------------------------------ *)
(** * The two end-to-end theorems *)
Theorem lib_load_grammar_is_spec : forall fuel c text strict R R',
  boot_ok R -> lib_load_grammar fuel c text strict R = LOk R' -> load_grammar c text strict R = Some R'.
Proof.
  intros fuel c text strict R R' HB H. pose proof HB as (_ & Hrl & _).
  unfold lib_load_grammar in H. unfold load_grammar. rewrite Hrl, N2Nat.id in H.
  set (src := if strict then normalise text else text) in *.
  rewrite (parse_all_restrict sh_id (grammar_of R) (of_list l_meta) boot_ids (boot_agree R HB)
             (boot_closed_R R HB) fuel _ src rulelist_in_boot) in H.
  destruct (parse_all sh_id (of_list l_meta) fuel (rid_meta "rulelist") src) as [[|m rest]| | |] eqn:E;
    try discriminate H.
  destruct (parse_all_single _ _ _ _ _ _ E) as [m' Em]. injection Em as <- ->.
  destruct (nodes m) as [|t [|t2 tl]] eqn:En; try discriminate H.
  destruct (v_rulelist c t R) as [R1|] eqn:Ev; [|discriminate H]. injection H as ->.
  destruct (parse_all_sound sh_id (of_list l_meta) sh_id_perm meta_WBG fuel _ src m E) as [HD _].
  rewrite En in HD.
  destruct (reader_agrees_with_every_derivation src t HD) as (rs & A & Rd).
  rewrite Rd. rewrite <- (v_rulelist_define c t R rs A). exact Ev.
Qed.

Theorem lib_create_is_spec : forall fuel c text R R',
  boot_ok R -> lib_create fuel c text R = LOk R' -> create c text R = Some R'.
Proof.
  intros fuel c text R R' HB H. pose proof HB as (_ & _ & Hru).
  unfold lib_create in H. unfold create. rewrite Hru, N2Nat.id in H.
  set (src := ensure_crlf text) in *.
  rewrite (parse_restrict sh_id (grammar_of R) (of_list l_meta) boot_ids (boot_agree R HB)
             (boot_closed_R R HB) fuel _ src 0 rule_in_boot) in H.
  destruct (parse sh_id (of_list l_meta) fuel (rid_meta "rule") src 0) as [[|m rest]| | |] eqn:E;
    try discriminate H.
  destruct (parse_single _ _ _ _ _ _ _ E) as [m' Em]. injection Em as <- ->.
  destruct (Nat.ltb (mend m) (length src)) eqn:Elt; [discriminate H|]. apply Nat.ltb_ge in Elt.
  destruct (nodes m) as [|t [|t2 tl]] eqn:En; try discriminate H.
  destruct (v_rule c t R) as [R1|] eqn:Ev; [|discriminate H]. injection H as ->.
  pose proof (parse_sound sh_id (of_list l_meta) sh_id_perm meta_WBG fuel _ src 0 m E (Nat.le_0_l _)) as HD.
  pose proof (D_bounds _ _ _ _ _ _ HD) as [_ Hle].
  assert (Hend : mend m = length src) by lia. rewrite Hend, En in HD.
  destruct (reader_agrees_rule src t HD) as (a & A & Rd).
  rewrite Rd. rewrite <- (v_rule_arule c t R a A). exact Ev.
Qed.

(* ------------------------------------------------------------------------------------------ *)
(** * Registries that satisfy the hypothesis *)
(* a sufficient, structural condition: the boot objects and the boot definition objects are still in place *)
Definition boot_reg (R : reg) : Prop :=
  (forall j o, nth_error (objs (r_boot tt)) j = Some o -> nth_error (objs R) j = Some o) /\
  (forall d e, nth_error (defs (r_boot tt)) d = Some e -> nth_error (defs R) d = Some e).

(* computed facts about the boot registry: every object is of class 0 (core) or 1 (meta) and its definition
   index is valid *)
Definition boot_shape_ok : bool :=
  forallb (fun o => (N.eqb (ocls o) 0 || N.eqb (ocls o) 1) &&
                    match odef o with Some d => Nat.ltb d (length (defs (r_boot tt))) | None => true end)
          (objs (r_boot tt)).
Lemma boot_shape : boot_shape_ok = true.
Proof. vm_compute. reflexivity. Qed.
Lemma boot_meta_rulelist : meta_rule (r_boot tt) "rulelist" = Some (N.to_nat (rid_meta "rulelist")).
Proof. vm_compute. reflexivity. Qed.
Lemma boot_meta_rule : meta_rule (r_boot tt) "rule" = Some (N.to_nat (rid_meta "rule")).
Proof. vm_compute. reflexivity. Qed.
Lemma l_meta_eq : l_meta = grammar_list (r_boot tt).
Proof. vm_compute. reflexivity. Qed.

Lemma boot_obj j o : nth_error (objs (r_boot tt)) j = Some o ->
  (ocls o = 0%N \/ ocls o = 1%N) /\
  forall d, odef o = Some d -> exists e, nth_error (defs (r_boot tt)) d = Some e.
Proof.
  intros Hj. pose proof boot_shape as H. unfold boot_shape_ok in H. rewrite forallb_forall in H.
  specialize (H o (nth_error_In _ _ Hj)). apply andb_true_iff in H. destruct H as [H1 H2]. split.
  - apply orb_true_iff in H1. destruct H1 as [H1|H1]; apply N.eqb_eq in H1; auto.
  - intros d Hd. rewrite Hd in H2. apply Nat.ltb_lt in H2.
    destruct (nth_error (defs (r_boot tt)) d) as [e|] eqn:E; [eauto|].
    apply nth_error_None in E. lia.
Qed.

Lemma of_list_in l r : In r (map fst l) -> exists ru, of_list l r = Some ru.
Proof.
  unfold of_list. induction l as [|p l IH]; intros H; [contradiction|]. cbn [find]. cbv beta.
  match goal with |- context [if ?b then _ else _] => destruct b eqn:E end; [eexists; reflexivity|]. apply IH. destruct H as [H|H]; [|exact H].
  apply N.eqb_neq in E. contradiction.
Qed.

Lemma find_obj_prefix c k : forall l0 l n m,
  (forall j o, nth_error l0 j = Some o -> nth_error l j = Some o) ->
  find_obj c k l0 n = Some m -> find_obj c k l n = Some m.
Proof.
  induction l0 as [|o0 l0 IH]; intros l n m Hp H; [discriminate H|].
  pose proof (Hp 0 o0 eq_refl) as H0. destruct l as [|o l]; [discriminate H0|]. injection H0 as ->.
  cbn [find_obj] in *. destruct (N.eqb (ocls o0) c && str_eqb (okey o0) k); [exact H|].
  apply (IH l (S n) m); [|exact H]. intros j o Hj. apply (Hp (S j) o Hj).
Qed.

(* generic in the base registry B: nothing about the (big, computed) boot registry is unfolded here *)
Section Prefix.
  Variables B R : reg.
  Hypothesis HshapeB : forall j o, nth_error (objs B) j = Some o ->
    forall d, odef o = Some d -> exists e, nth_error (defs B) d = Some e.
  Hypothesis HO : forall j o, nth_error (objs B) j = Some o -> nth_error (objs R) j = Some o.
  Hypothesis HDf : forall d e, nth_error (defs B) d = Some e -> nth_error (defs R) d = Some e.

  Lemma prefix_grammar r : In r (map fst (grammar_list B)) -> grammar_of R r = of_list (grammar_list B) r.
  Proof.
    intros Hr. rewrite <- grammar_of_list.
    assert (exists ru, grammar_of B r = Some ru) as [ru Hru].
    { rewrite grammar_of_list. apply of_list_in. exact Hr. }
    unfold grammar_of in *.
    destruct (nth_error (objs B) (N.to_nat r)) as [o|] eqn:Eo; [|discriminate Hru].
    rewrite (HO _ _ Eo).
    assert (Hd : match odef o with Some d => nth_error (defs R) d | None => None end =
                 match odef o with Some d => nth_error (defs B) d | None => None end).
    { destruct (odef o) as [d|] eqn:Ed; [|reflexivity].
      destruct (HshapeB _ _ Eo d Ed) as [e He]. rewrite He. apply HDf. exact He. }
    rewrite Hd. reflexivity.
  Qed.
  Lemma prefix_meta nm k : meta_rule B nm = Some k -> meta_rule R nm = Some k.
  Proof. unfold meta_rule. apply find_obj_prefix. exact HO. Qed.
End Prefix.

Lemma boot_reg_grammar R : boot_reg R -> forall r, In r boot_ids -> grammar_of R r = of_list l_meta r.
Proof.
  intros [HO HDf] r.
  pose proof (fun j o H => proj2 (boot_obj j o H)) as Hshape.
  pose proof (prefix_grammar (r_boot tt) R Hshape HO HDf r) as HP.
  unfold boot_ids. rewrite l_meta_eq. exact HP.
Qed.
Lemma boot_reg_meta R nm k : boot_reg R -> meta_rule (r_boot tt) nm = Some k -> meta_rule R nm = Some k.
Proof. intros [HO _]. exact (prefix_meta (r_boot tt) R HO nm k). Qed.

Theorem boot_reg_ok : forall R, boot_reg R -> boot_ok R.
Proof.
  intros R HR. split; [|split].
  - exact (boot_reg_grammar R HR).
  - exact (boot_reg_meta R _ _ HR boot_meta_rulelist).
  - exact (boot_reg_meta R _ _ HR boot_meta_rule).
Qed.

Lemma boot_reg_boot : boot_reg (r_boot tt).
Proof. split; auto. Qed.
Theorem boot_ok_boot : boot_ok (r_boot tt).
Proof. apply boot_reg_ok. exact boot_reg_boot. Qed.

(* preservation: defining rules in a class other than 0 and 1 leaves the boot rules in place, provided the
   defined name does not fall back to a base-class (class 0) object *)
Theorem boot_reg_define_rule : forall c a R R', c <> 0%N -> c <> 1%N -> boot_reg R ->
  define_rule c a R = Some R' ->
  (forall k o, rget R c (aname a) = Some k -> nth_error (objs R) k = Some o -> ocls o = c) ->
  boot_reg R'.
Proof.
  intros c a R R' Hc0 Hc1 [HO HDf] H Hown.
  destruct (define_rule_isolated c a R R' Hc0 H Hown) as [I1 I2]. split.
  - intros j o Hj. apply I1; [apply HO; exact Hj|].
    destruct (proj1 (boot_obj _ _ Hj)) as [E|E]; rewrite E; auto.
  - intros d e Hd. apply I2. apply HDf. exact Hd.
Qed.

Theorem boot_reg_define_rules : forall c l R R', c <> 0%N -> c <> 1%N -> boot_reg R ->
  define_rules c l R = Some R' -> no_core_clash R l -> boot_reg R'.
Proof.
  intros c l R R' Hc0 Hc1 [HO HDf] H Hn.
  destruct (define_rules_isolated c l R R' Hc0 H Hn) as [I1 I2]. split.
  - intros j o Hj. apply I1; [apply HO; exact Hj|].
    destruct (proj1 (boot_obj _ _ Hj)) as [E|E]; rewrite E; auto.
  - intros d e Hd. apply I2. apply HDf. exact Hd.
Qed.

Corollary boot_ok_define_rule : forall c a R R', c <> 0%N -> c <> 1%N -> boot_reg R ->
  define_rule c a R = Some R' ->
  (forall k o, rget R c (aname a) = Some k -> nth_error (objs R) k = Some o -> ocls o = c) ->
  boot_ok R'.
Proof. intros c a R R' Hc0 Hc1 HB H Hown. apply boot_reg_ok. exact (boot_reg_define_rule c a R R' Hc0 Hc1 HB H Hown). Qed.

(* the library route from the boot registry itself *)
Corollary lib_load_grammar_boot : forall fuel c text strict R',
  lib_load_grammar fuel c text strict (r_boot tt) = LOk R' -> load_grammar c text strict (r_boot tt) = Some R'.
Proof. intros fuel c text strict R'. apply lib_load_grammar_is_spec. exact boot_ok_boot. Qed.
Corollary lib_create_boot : forall fuel c text R',
  lib_create fuel c text (r_boot tt) = LOk R' -> create c text (r_boot tt) = Some R'.
Proof. intros fuel c text R'. apply lib_create_is_spec. exact boot_ok_boot. Qed.

Print Assumptions lib_load_grammar_is_spec.
Print Assumptions lib_create_is_spec.
Print Assumptions boot_ok_boot.
Print Assumptions boot_reg_ok.
Print Assumptions boot_reg_define_rule.
Print Assumptions boot_reg_define_rules.
Print Assumptions boot_ok_define_rule.
Print Assumptions lib_load_grammar_boot.
Print Assumptions lib_create_boot.
