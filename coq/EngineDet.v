(* EngineDet.v — the result of the engine model does not depend on the set-iteration-order
   oracle [sh]: any two permutation oracles give the same matches, same trees, same order. *)
From Coq Require Import List NArith Arith Bool Lia Permutation.
Import ListNotations.
From ABNF Require Import Base Engine Spec.

(* ---------- strings ---------- *)
Lemma str_eqb_eq a : forall b, str_eqb a b = true <-> a = b.
Proof.
  induction a as [|x a IHa]; intros [|y b]; simpl; split; intro H;
    try reflexivity; try discriminate.
  - destruct (proj1 (andb_true_iff _ _) H) as [H1 H2].
    pose proof (proj1 (N.eqb_eq _ _) H1) as H3.
    pose proof (proj1 (IHa b) H2) as H4. subst. reflexivity.
  - injection H as H1 H2. subst. apply (proj2 (andb_true_iff _ _)). split.
    + apply N.eqb_refl.
    + apply (proj2 (IHa b)). reflexivity.
Qed.

Lemma firstn_app_skipn {A} p q : forall t : list A,
  firstn p t ++ firstn q (skipn p t) = firstn (p + q) t.
Proof.
  induction p as [|p IHp]; intros t; simpl.
  - reflexivity.
  - destruct t as [|x t]; simpl.
    + rewrite firstn_nil. reflexivity.
    + rewrite IHp. reflexivity.
Qed.

Lemma skipn_add {A} q p : forall t : list A, skipn p (skipn q t) = skipn (q + p) t.
Proof.
  induction q as [|q IHq]; intros t; simpl.
  - reflexivity.
  - destruct t as [|x t].
    + apply skipn_nil.
    + apply IHq.
Qed.

Lemma slice_app s i a b : i <= a -> a <= b ->
  slice s i (a - i) ++ slice s a (b - a) = slice s i (b - i).
Proof.
  intros Hia Hab. unfold slice.
  replace (skipn a s) with (skipn (a - i) (skipn i s))
    by (rewrite skipn_add; f_equal; lia).
  rewrite firstn_app_skipn. f_equal. lia.
Qed.

Lemma firstn_length_firstn {A} n : forall t : list A,
  firstn (length (firstn n t)) t = firstn n t.
Proof.
  induction n as [|n IHn]; intros t; simpl.
  - reflexivity.
  - destruct t as [|x t]; simpl.
    + reflexivity.
    + rewrite IHn. reflexivity.
Qed.

Lemma nth_error_slice1 (s : str) : forall i c, nth_error s i = Some c -> slice s i 1 = [c].
Proof.
  unfold slice. induction s as [|x s IHs]; intros i c H; destruct i as [|i]; simpl in H;
    try discriminate.
  - injection H as ->. reflexivity.
  - simpl. apply IHs. exact H.
Qed.

(* ---------- value consistency ---------- *)
Definition vc (s : str) (i : nat) (m : mtch) : Prop :=
  i <= mend m /\ mend m <= length s /\ nsvalue (nodes m) = slice s i (mend m - i).

Definition eu (l : list mtch) : Prop := NoDup (map mend l).

Lemma key_eqb_vc s i a b : vc s i a -> vc s i b -> key_eqb a b = Nat.eqb (mend a) (mend b).
Proof.
  intros (_ & _ & Ha) (_ & _ & Hb). unfold key_eqb.
  destruct (Nat.eqb_spec (mend a) (mend b)) as [E|E]; simpl; [|reflexivity].
  apply (proj2 (str_eqb_eq _ _)). rewrite Ha, Hb, E. reflexivity.
Qed.

Lemma vc_nil s i : i <= length s -> vc s i (mk [] i).
Proof.
  intros Hi. unfold vc; simpl. split; [lia|]. split; [lia|].
  rewrite Nat.sub_diag. reflexivity.
Qed.

Lemma vc_lit s i n : i <= length s ->
  vc s i (mk [Leaf (slice s i n) i (length (slice s i n))] (i + length (slice s i n))).
Proof.
  intros Hi. unfold vc; simpl. split; [lia|]. split.
  - unfold slice. rewrite firstn_length, skipn_length. lia.
  - rewrite app_nil_r. replace (i + length (slice s i n) - i) with (length (slice s i n)) by lia.
    unfold slice. rewrite firstn_length_firstn. reflexivity.
Qed.

Lemma vc_range s i c : nth_error s i = Some c -> vc s i (mk [Leaf [c] i 1] (i + 1)).
Proof.
  intros H. unfold vc; simpl. split; [lia|]. split.
  - assert (Hlt : i < length s) by (apply (proj1 (nth_error_Some s i)); rewrite H; discriminate).
    lia.
  - replace (i + 1 - i) with 1 by lia. symmetry. apply nth_error_slice1. exact H.
Qed.

Lemma vc_compose s i m x : vc s i m -> vc s (mend m) x -> vc s i (mk (nodes m ++ nodes x) (mend x)).
Proof.
  intros (H1 & H2 & H3) (H4 & H5 & H6). unfold vc; simpl.
  split; [lia|]. split; [lia|].
  unfold nsvalue in *. rewrite flat_map_app, H3, H6. apply slice_app; lia.
Qed.

Lemma vc_nd s i name m : vc s i m -> vc s i (mk [Nd name (nodes m)] (mend m)).
Proof.
  intros (H1 & H2 & H3). unfold vc; simpl. split; [lia|]. split; [lia|].
  rewrite app_nil_r. exact H3.
Qed.

Lemma vc_le s i l : Forall (vc s i) l -> Forall (fun m => mend m <= length s) l.
Proof.
  apply Forall_impl. intros m (_ & H & _). exact H.
Qed.

Lemma Forall_perm {A} (P : A -> Prop) l1 l2 : Permutation l1 l2 -> Forall P l1 -> Forall P l2.
Proof.
  intros Hp H. apply Forall_forall. intros x Hx.
  apply (proj1 (Forall_forall P l1) H). apply Permutation_in with l2; [symmetry; exact Hp|exact Hx].
Qed.

Lemma eu_perm l1 l2 : Permutation l1 l2 -> eu l1 -> eu l2.
Proof.
  intros Hp H. unfold eu in *. apply Permutation_NoDup with (map mend l1); [|exact H].
  apply Permutation_map. exact Hp.
Qed.

(* ---------- sort_desc ---------- *)
Lemma ins_comm a b : mend a <> mend b -> forall l, ins a (ins b l) = ins b (ins a l).
Proof.
  intros Hab l. induction l as [|x l IHl]; cbn [ins].
  - destruct (Nat.ltb_spec (mend b) (mend a)) as [H1|H1];
      destruct (Nat.ltb_spec (mend a) (mend b)) as [H2|H2]; try reflexivity; lia.
  - destruct (Nat.ltb_spec (mend x) (mend b)) as [H1|H1];
      destruct (Nat.ltb_spec (mend x) (mend a)) as [H2|H2]; cbn [ins];
      destruct (Nat.ltb_spec (mend b) (mend a)) as [H3|H3];
      destruct (Nat.ltb_spec (mend a) (mend b)) as [H4|H4];
      destruct (Nat.ltb_spec (mend x) (mend b)) as [H5|H5];
      destruct (Nat.ltb_spec (mend x) (mend a)) as [H6|H6];
      try lia; try reflexivity; rewrite IHl; reflexivity.
Qed.

Lemma fold_ins_perm l1 l2 : Permutation l1 l2 -> NoDup (map mend l1) -> forall acc,
  fold_left (fun acc m => ins m acc) l1 acc = fold_left (fun acc m => ins m acc) l2 acc.
Proof.
  intros Hp. induction Hp as [|x l l' Hp IH|x y l|l l' l'' Hp1 IH1 Hp2 IH2]; intros Hnd acc.
  - reflexivity.
  - simpl. apply IH. simpl in Hnd. inversion Hnd as [|? ? Hni Hnd']. exact Hnd'.
  - simpl. rewrite ins_comm; [reflexivity|].
    simpl in Hnd. inversion Hnd as [|? ? Hni Hnd']. intro E. apply Hni. left. exact E.
  - rewrite IH1 by exact Hnd. apply IH2.
    apply Permutation_NoDup with (map mend l); [apply Permutation_map; exact Hp1|exact Hnd].
Qed.

Lemma sort_desc_indep l1 l2 : Permutation l1 l2 -> eu l1 -> sort_desc l1 = sort_desc l2.
Proof.
  intros Hp Hnd. unfold sort_desc. apply fold_ins_perm; assumption.
Qed.

Lemma ins_perm m : forall l, Permutation (ins m l) (m :: l).
Proof.
  induction l as [|x l IHl]; cbn [ins].
  - apply Permutation_refl.
  - destruct (Nat.ltb (mend x) (mend m)).
    + apply Permutation_refl.
    + apply perm_trans with (x :: m :: l); [apply perm_skip; exact IHl|apply perm_swap].
Qed.

Lemma fold_ins_is_perm : forall l acc,
  Permutation (fold_left (fun acc m => ins m acc) l acc) (l ++ acc).
Proof.
  induction l as [|x l IHl]; intros acc; simpl.
  - apply Permutation_refl.
  - apply perm_trans with (l ++ ins x acc); [apply IHl|].
    apply perm_trans with (l ++ x :: acc).
    + apply Permutation_app_head. apply ins_perm.
    + symmetry. apply Permutation_middle.
Qed.

Lemma sort_desc_perm l : Permutation (sort_desc l) l.
Proof.
  unfold sort_desc. apply perm_trans with (l ++ []); [apply fold_ins_is_perm|].
  rewrite app_nil_r. apply Permutation_refl.
Qed.

(* ---------- the list model of a set, on value-consistent matches ---------- *)
Lemma mem_perm m l1 l2 : Permutation l1 l2 -> mem m l1 = mem m l2.
Proof.
  unfold mem. intros Hp. induction Hp as [|x l l' Hp IH|x y l|l l' l'' Hp1 IH1 Hp2 IH2]; simpl.
  - reflexivity.
  - rewrite IH. reflexivity.
  - destruct (key_eqb m x), (key_eqb m y); reflexivity.
  - rewrite IH1. exact IH2.
Qed.

Lemma mem_app m a b : mem m (a ++ b) = mem m a || mem m b.
Proof. unfold mem. apply existsb_app. Qed.

Lemma mem_vc s i m l : vc s i m -> Forall (vc s i) l ->
  (mem m l = true <-> In (mend m) (map mend l)).
Proof.
  intros Hm Hl. induction Hl as [|x l Hx Hl IH]; simpl.
  - split; [discriminate|intros []].
  - rewrite (key_eqb_vc s i m x Hm Hx). split.
    + intros H. destruct (proj1 (orb_true_iff _ _) H) as [H1|H1].
      * left. symmetry. apply (proj1 (Nat.eqb_eq _ _)). exact H1.
      * right. apply (proj1 IH). exact H1.
    + intros [H|H]; apply (proj2 (orb_true_iff _ _)).
      * left. apply (proj2 (Nat.eqb_eq _ _)). symmetry. exact H.
      * right. apply (proj2 IH). exact H.
Qed.

Lemma add_vc s i l m : Forall (vc s i) l -> vc s i m -> Forall (vc s i) (add l m).
Proof.
  intros Hl Hm. unfold add. destruct (mem m l); [exact Hl|].
  apply (proj2 (Forall_app _ _ _)). split; [exact Hl|]. constructor; [exact Hm|constructor].
Qed.

Lemma add_eu s i l m : Forall (vc s i) l -> vc s i m -> eu l -> eu (add l m).
Proof.
  intros Hl Hm Hu. unfold add. destruct (mem m l) eqn:E; [exact Hu|].
  unfold eu in *. rewrite map_app. simpl.
  apply Permutation_NoDup with (mend m :: map mend l); [apply Permutation_cons_append|].
  constructor; [|exact Hu]. intro Hin.
  rewrite (proj2 (mem_vc s i m l Hm Hl) Hin) in E. discriminate.
Qed.

Lemma union_cons a x b : union a (x :: b) = union (add a x) b.
Proof. reflexivity. Qed.

Lemma union_vc s i : forall b a, Forall (vc s i) a -> Forall (vc s i) b -> Forall (vc s i) (union a b).
Proof.
  induction b as [|x b IH]; intros a Ha Hb.
  - exact Ha.
  - rewrite union_cons. inversion Hb as [|? ? Hx Hb']; subst.
    apply IH; [apply add_vc; assumption|exact Hb'].
Qed.

Lemma union_eu s i : forall b a, Forall (vc s i) a -> Forall (vc s i) b -> eu a -> eu (union a b).
Proof.
  induction b as [|x b IH]; intros a Ha Hb Hu.
  - exact Hu.
  - rewrite union_cons. inversion Hb as [|? ? Hx Hb']; subst.
    apply IH; [apply add_vc; assumption|exact Hb'|apply (add_eu s i); assumption].
Qed.

Lemma set_of_vc s i l : Forall (vc s i) l -> Forall (vc s i) (set_of l).
Proof. intros H. apply (union_vc s i l []); [constructor|exact H]. Qed.

Lemma set_of_eu s i l : Forall (vc s i) l -> eu (set_of l).
Proof. intros H. apply (union_eu s i l []); [constructor|exact H|constructor]. Qed.

Lemma add_perm a1 a2 m : Permutation a1 a2 -> Permutation (add a1 m) (add a2 m).
Proof.
  intros Hp. unfold add. rewrite (mem_perm m a1 a2 Hp). destruct (mem m a2); [exact Hp|].
  apply Permutation_app_tail. exact Hp.
Qed.

Lemma union_perm_l : forall b a1 a2, Permutation a1 a2 -> Permutation (union a1 b) (union a2 b).
Proof.
  induction b as [|x b IH]; intros a1 a2 Hp.
  - exact Hp.
  - rewrite !union_cons. apply IH. apply add_perm. exact Hp.
Qed.

Lemma add_swap s i a x y : vc s i x -> vc s i y -> mend x <> mend y ->
  Permutation (add (add a x) y) (add (add a y) x).
Proof.
  intros Hx Hy Hne.
  assert (Exy : key_eqb x y = false).
  { rewrite (key_eqb_vc s i x y Hx Hy). apply (proj2 (Nat.eqb_neq _ _)). exact Hne. }
  assert (Eyx : key_eqb y x = false).
  { rewrite (key_eqb_vc s i y x Hy Hx). apply (proj2 (Nat.eqb_neq _ _)). intro E. apply Hne. symmetry. exact E. }
  destruct (mem x a) eqn:Ex; destruct (mem y a) eqn:Ey; unfold add;
    repeat progress (rewrite ?mem_app, ?Ex, ?Ey; cbn [mem existsb orb]; rewrite ?Exy, ?Eyx;
                     cbn [orb]).
  - apply Permutation_refl.
  - apply Permutation_refl.
  - apply Permutation_refl.
  - rewrite <- !app_assoc. apply Permutation_app_head. simpl. apply perm_swap.
Qed.

Lemma union_perm_r s i b1 b2 : Permutation b1 b2 -> forall a, Forall (vc s i) b1 -> eu b1 ->
  Permutation (union a b1) (union a b2).
Proof.
  intros Hp. induction Hp as [|x l l' Hp IH|x y l|l l' l'' Hp1 IH1 Hp2 IH2]; intros a Hv Hu.
  - apply Permutation_refl.
  - rewrite !union_cons. inversion Hv as [|? ? Hx Hv']; subst.
    unfold eu in Hu. simpl in Hu. inversion Hu as [|? ? Hni Hu']; subst.
    apply IH; assumption.
  - rewrite !union_cons. apply union_perm_l.
    inversion Hv as [|? ? Hy Hv']; subst. inversion Hv' as [|? ? Hx Hv'']; subst.
    unfold eu in Hu. simpl in Hu. inversion Hu as [|? ? Hni Hu']; subst.
    apply (add_swap s i); [exact Hy|exact Hx|]. intro E. apply Hni. left. symmetry. exact E.
  - apply perm_trans with (union a l').
    + apply IH1; assumption.
    + apply IH2; [apply Forall_perm with l; assumption|apply eu_perm with l; assumption].
Qed.

Lemma union_perm s i a1 a2 b1 b2 : Permutation a1 a2 -> Permutation b1 b2 ->
  Forall (vc s i) b1 -> eu b1 -> Permutation (union a1 b1) (union a2 b2).
Proof.
  intros Hpa Hpb Hv Hu. apply perm_trans with (union a2 b1).
  - apply union_perm_l. exact Hpa.
  - apply (union_perm_r s i); assumption.
Qed.

Lemma subset_perm a b1 b2 : Permutation b1 b2 -> subset a b1 = subset a b2.
Proof.
  intros Hp. unfold subset. induction a as [|x a IH]; simpl.
  - reflexivity.
  - rewrite (mem_perm x b1 b2 Hp), IH. reflexivity.
Qed.

(* ---------- the engine: one level ---------- *)
Definition rec_vc (rec : expr -> str -> nat -> res) : Prop :=
  forall e s i ms, rec e s i = Ok ms -> i <= length s -> Forall (vc s i) ms.
Definition rec_eq (rec1 rec2 : expr -> str -> nat -> res) : Prop :=
  forall e s i, i <= length s -> rec1 e s i = rec2 e s i.

Lemma sh_vc sh (P : mtch -> Prop) l : perm_oracle sh -> Forall P l -> Forall P (sh l).
Proof. intros Hsh H. apply Forall_perm with l; [symmetry; apply Hsh|exact H]. Qed.

Lemma sh_eu sh l : perm_oracle sh -> eu l -> eu (sh l).
Proof. intros Hsh H. apply eu_perm with l; [symmetry; apply Hsh|exact H]. Qed.

Lemma sort_vc (P : mtch -> Prop) l : Forall P l -> Forall P (sort_desc l).
Proof. intros H. apply Forall_perm with l; [symmetry; apply sort_desc_perm|exact H]. Qed.

Lemma next_longest_vc sh (P : mtch -> Prop) l : perm_oracle sh -> Forall P l -> Forall P (next_longest sh l).
Proof. intros Hsh H. unfold next_longest. apply sort_vc. apply sh_vc; assumption. Qed.

Lemma next_longest_eq sh1 sh2 m1 m2 : perm_oracle sh1 -> perm_oracle sh2 ->
  eu m1 -> Permutation m1 m2 -> next_longest sh1 m1 = next_longest sh2 m2.
Proof.
  intros H1 H2 Hu Hp. unfold next_longest. apply sort_desc_indep.
  - apply perm_trans with m1; [apply H1|]. apply perm_trans with m2; [exact Hp|]. symmetry. apply H2.
  - apply sh_eu; assumption.
Qed.

Lemma lit_vc cs v s i r : lit cs v s i = Ok r -> Forall (vc s i) r.
Proof.
  unfold lit. intros H. destruct (Nat.leb_spec i (length s)) as [Hi|Hi]; [|discriminate].
  destruct (str_eqb _ _); [|discriminate]. injection H as <-.
  constructor; [apply vc_lit; exact Hi|constructor].
Qed.

Lemma range_vc lo hi s i r : range lo hi s i = Ok r -> Forall (vc s i) r.
Proof.
  unfold range. intros H. destruct (nth_error s i) as [c|] eqn:E; [|discriminate].
  destruct (_ && _); [|discriminate]. injection H as <-.
  constructor; [apply vc_range; exact E|constructor].
Qed.

Section OneRec.
  Variable rec : expr -> str -> nat -> res.
  Hypothesis Hrec : rec_vc rec.

  Lemma extend_vc e s i : forall ms r, Forall (vc s i) ms -> extend rec e s ms = Ok r ->
    Forall (vc s i) r.
  Proof.
    induction ms as [|m ms IH]; intros r Hms H; simpl in H.
    - injection H as <-. constructor.
    - inversion Hms as [|? ? Hm Hms']; subst.
      destruct (rec e s (mend m)) as [xs| | |] eqn:Er; try discriminate.
      + destruct (extend rec e s ms) as [ys| | |] eqn:Ee; try discriminate.
        injection H as <-. apply (proj2 (Forall_app _ _ _)). split.
        * pose proof (Hrec _ _ _ _ Er (proj1 (proj2 Hm))) as Hxs.
          apply Forall_forall. intros z Hz.
          destruct (proj1 (in_map_iff _ _ _) Hz) as (x & Hzx & Hx). subst z.
          apply vc_compose; [exact Hm|]. apply (proj1 (Forall_forall _ _) Hxs). exact Hx.
        * apply IH; [exact Hms'|reflexivity].
      + apply IH; assumption.
  Qed.

  Lemma alt_loop_vc fm s i : i <= length s -> forall es acc r, Forall (vc s i) acc ->
    alt_loop rec fm es s i acc = Ok r -> Forall (vc s i) r.
  Proof.
    intros Hi. induction es as [|e es IH]; intros acc r Hacc H; simpl in H.
    - destruct acc as [|a acc]; [discriminate|]. injection H as <-. exact Hacc.
    - destruct (rec e s i) as [ms| | |] eqn:Er; try discriminate.
      + assert (Hall : Forall (vc s i) (acc ++ ms)).
        { apply (proj2 (Forall_app _ _ _)). split; [exact Hacc|]. apply (Hrec _ _ _ _ Er Hi). }
        destruct fm.
        * injection H as <-. exact Hall.
        * apply (IH _ _ Hall H).
      + apply (IH _ _ Hacc H).
  Qed.

  Lemma cat_loop_vc s i : forall es cur r, Forall (vc s i) cur ->
    cat_loop rec es s cur = Ok r -> Forall (vc s i) r.
  Proof.
    induction es as [|e es IH]; intros cur r Hc H; simpl in H.
    - injection H as <-. exact Hc.
    - destruct (extend rec e s cur) as [nxt| | |] eqn:E; try discriminate.
      destruct nxt as [|n nxt]; [discriminate|].
      apply (IH _ _ (extend_vc _ _ _ _ _ Hc E) H).
  Qed.

  Lemma cat_vc es s i r : i <= length s -> cat rec es s i = Ok r -> Forall (vc s i) r.
  Proof.
    intros Hi H. unfold cat in H.
    destruct (cat_loop rec es s [mk [] i]) as [ms| | |] eqn:E; try discriminate.
    injection H as <-. apply sort_vc. apply (cat_loop_vc s i es [mk [] i] ms); [|exact E].
    constructor; [apply vc_nil; exact Hi|constructor].
  Qed.
End OneRec.

Section TwoRec.
  Variables rec1 rec2 : expr -> str -> nat -> res.
  Hypothesis Hvc : rec_vc rec1.
  Hypothesis Heq : rec_eq rec1 rec2.

  Lemma extend_eq e s : forall ms, Forall (fun m => mend m <= length s) ms ->
    extend rec1 e s ms = extend rec2 e s ms.
  Proof.
    induction ms as [|m ms IH]; intros H; simpl.
    - reflexivity.
    - inversion H as [|? ? Hm Hms]; subst.
      rewrite (Heq e s (mend m) Hm), (IH Hms). reflexivity.
  Qed.

  Lemma alt_loop_eq fm s i : i <= length s -> forall es acc,
    alt_loop rec1 fm es s i acc = alt_loop rec2 fm es s i acc.
  Proof.
    intros Hi. induction es as [|e es IH]; intros acc; simpl.
    - reflexivity.
    - rewrite (Heq e s i Hi). destruct (rec2 e s i) as [ms| | |]; try reflexivity.
      + destruct fm; [reflexivity|apply IH].
      + apply IH.
  Qed.

  Lemma cat_loop_eq s i : forall es cur, Forall (vc s i) cur ->
    cat_loop rec1 es s cur = cat_loop rec2 es s cur.
  Proof.
    induction es as [|e es IH]; intros cur Hc; simpl.
    - reflexivity.
    - rewrite <- (extend_eq e s cur (vc_le _ _ _ Hc)).
      destruct (extend rec1 e s cur) as [nxt| | |] eqn:E; try reflexivity.
      destruct nxt as [|n nxt]; [reflexivity|].
      apply IH. apply (extend_vc rec1 Hvc e s i cur _ Hc E).
  Qed.

  Lemma cat_eq es s i : i <= length s -> cat rec1 es s i = cat rec2 es s i.
  Proof.
    intros Hi. unfold cat. rewrite (cat_loop_eq s i es [mk [] i]); [reflexivity|].
    constructor; [apply vc_nil; exact Hi|constructor].
  Qed.
End TwoRec.

(* ---------- Repetition ---------- *)
Section RepVc.
  Variable sh : list mtch -> list mtch.
  Hypothesis Hsh : perm_oracle sh.
  Variable rec : expr -> str -> nat -> res.
  Hypothesis Hrec : rec_vc rec.

  Lemma rep_loop_vc e mx s i : forall k count m l r,
    Forall (vc s i) m -> Forall (vc s i) l ->
    rep_loop sh rec k e mx s count m l = Ok r -> Forall (vc s i) r.
  Proof.
    induction k as [|k IH]; intros count m l r Hm Hl H; cbn [rep_loop] in H.
    - discriminate.
    - destruct (match mx with Some m0 => count =? m0 | None => false end).
      + injection H as <-. apply next_longest_vc; assumption.
      + destruct (extend rec e s (sort_desc (sh l))) as [new| | |] eqn:E; try discriminate.
        assert (Hn : Forall (vc s i) (set_of new)).
        { apply set_of_vc. apply (extend_vc rec Hrec e s i _ _ (sort_vc _ _ (sh_vc sh _ _ Hsh Hl)) E). }
        cbv zeta in H. destruct (subset (set_of new) m).
        * injection H as <-. apply next_longest_vc; assumption.
        * apply (IH _ _ _ _ (union_vc s i _ _ Hm (sh_vc sh _ _ Hsh Hn)) Hn H).
  Qed.

  Lemma rep_vc k mn mx e s i r : i <= length s -> rep sh rec k mn mx e s i = Ok r ->
    Forall (vc s i) r.
  Proof.
    intros Hi H. unfold rep in H.
    assert (H0 : Forall (vc s i) [mk [] i]) by (constructor; [apply vc_nil; exact Hi|constructor]).
    destruct mn as [|mn].
    - apply (rep_loop_vc _ _ _ _ _ _ _ _ _ H0 H0 H).
    - destruct (cat rec (repeat e (S mn)) s i) as [ms| | |] eqn:E; try discriminate.
      cbv zeta in H.
      assert (Hst : Forall (vc s i) (set_of ms)).
      { apply set_of_vc. apply (cat_vc rec Hrec _ _ _ _ Hi E). }
      apply (rep_loop_vc _ _ _ _ _ _ _ _ _ Hst (set_of_vc _ _ _ (sh_vc sh _ _ Hsh Hst)) H).
  Qed.
End RepVc.

Section RepEq.
  Variables sh1 sh2 : list mtch -> list mtch.
  Hypothesis Hsh1 : perm_oracle sh1.
  Hypothesis Hsh2 : perm_oracle sh2.
  Variables rec1 rec2 : expr -> str -> nat -> res.
  Hypothesis Hvc : rec_vc rec1.
  Hypothesis Heq : rec_eq rec1 rec2.

  Lemma sh_sh_perm l1 l2 : Permutation l1 l2 -> Permutation (sh1 l1) (sh2 l2).
  Proof.
    intros Hp. apply perm_trans with l1; [apply Hsh1|].
    apply perm_trans with l2; [exact Hp|]. symmetry. apply Hsh2.
  Qed.

  Lemma rep_loop_eq e mx s i : forall k count m1 m2 l1 l2,
    Forall (vc s i) m1 -> eu m1 -> Permutation m1 m2 ->
    Forall (vc s i) l1 -> eu l1 -> Permutation l1 l2 ->
    rep_loop sh1 rec1 k e mx s count m1 l1 = rep_loop sh2 rec2 k e mx s count m2 l2.
  Proof.
    induction k as [|k IH]; intros count m1 m2 l1 l2 Hm1 Hu1 Hpm Hl1 Hul Hpl; cbn [rep_loop].
    - reflexivity.
    - destruct (match mx with Some m0 => count =? m0 | None => false end).
      + f_equal. apply next_longest_eq; assumption.
      + assert (Hs : sort_desc (sh1 l1) = sort_desc (sh2 l2))
          by (apply (next_longest_eq sh1 sh2 l1 l2); assumption).
        assert (Hv : Forall (vc s i) (sort_desc (sh1 l1)))
          by (apply sort_vc; apply sh_vc; assumption).
        rewrite <- Hs.
        rewrite <- (extend_eq rec1 rec2 Heq e s _ (vc_le _ _ _ Hv)).
        destruct (extend rec1 e s (sort_desc (sh1 l1))) as [new| | |] eqn:E; try reflexivity.
        cbv zeta.
        assert (Hn : Forall (vc s i) (set_of new)).
        { apply set_of_vc. apply (extend_vc rec1 Hvc e s i _ _ Hv E). }
        assert (Hnu : eu (set_of new)).
        { apply (set_of_eu s i). apply (extend_vc rec1 Hvc e s i _ _ Hv E). }
        rewrite (subset_perm (set_of new) m1 m2 Hpm).
        destruct (subset (set_of new) m2).
        * f_equal. apply next_longest_eq; assumption.
        * apply IH.
          -- apply union_vc; [exact Hm1|apply sh_vc; assumption].
          -- apply (union_eu s i); [exact Hm1|apply sh_vc; assumption|exact Hu1].
          -- apply (union_perm s i); [exact Hpm|apply sh_sh_perm; apply Permutation_refl| |].
             ++ apply sh_vc; assumption.
             ++ apply sh_eu; assumption.
          -- exact Hn.
          -- exact Hnu.
          -- apply Permutation_refl.
  Qed.

  Lemma rep_eq k mn mx e s i : i <= length s ->
    rep sh1 rec1 k mn mx e s i = rep sh2 rec2 k mn mx e s i.
  Proof.
    intros Hi. unfold rep.
    assert (H0 : Forall (vc s i) [mk [] i]) by (constructor; [apply vc_nil; exact Hi|constructor]).
    assert (U0 : eu [mk [] i]) by (unfold eu; simpl; constructor; [intros []|constructor]).
    destruct mn as [|mn].
    - apply (rep_loop_eq e mx s i); try assumption; apply Permutation_refl.
    - rewrite <- (cat_eq rec1 rec2 Hvc Heq _ s i Hi).
      destruct (cat rec1 (repeat e (S mn)) s i) as [ms| | |] eqn:E; try reflexivity.
      cbv zeta.
      assert (Hms : Forall (vc s i) ms) by (apply (cat_vc rec1 Hvc _ _ _ _ Hi E)).
      assert (Hst : Forall (vc s i) (set_of ms)) by (apply set_of_vc; exact Hms).
      assert (Ust : eu (set_of ms)) by (apply (set_of_eu s i); exact Hms).
      apply (rep_loop_eq e mx s i).
      + exact Hst.
      + exact Ust.
      + apply Permutation_refl.
      + apply set_of_vc. apply sh_vc; assumption.
      + apply (set_of_eu s i). apply sh_vc; assumption.
      + apply (union_perm_r s i).
        * apply sh_sh_perm. apply Permutation_refl.
        * apply sh_vc; assumption.
        * apply sh_eu; assumption.
  Qed.
End RepEq.

(* ---------- Rule reference with exclusion ---------- *)
Lemma filter_excl_sub sh rec (P : mtch -> Prop) x : forall ms r,
  Forall P ms -> filter_excl sh rec x ms = Ok r -> Forall P r.
Proof.
  induction ms as [|m ms IH]; intros r Hms H; simpl in H.
  - injection H as <-. constructor.
  - inversion Hms as [|? ? Hm Hms']; subst.
    destruct (excluded sh rec x m) as [b| |]; try discriminate.
    destruct (filter_excl sh rec x ms) as [r0| | |] eqn:E; try discriminate.
    injection H as <-. pose proof (IH r0 Hms' eq_refl) as Hr0.
    destruct b; [exact Hr0|constructor; assumption].
Qed.

Lemma ref_vc sh G rec r s i ms : perm_oracle sh -> rec_vc rec -> i <= length s ->
  ref sh G rec r s i = Ok ms -> Forall (vc s i) ms.
Proof.
  intros Hsh Hrec Hi H. unfold ref in H.
  destruct (G r) as [ru|]; [|discriminate].
  destruct (rdef ru) as [d|]; [|discriminate].
  destruct (rec d s i) as [ms0| | |] eqn:Er; try discriminate.
  destruct (filter_excl sh rec (rexcl ru) ms0) as [ms'| | |] eqn:Ef; try discriminate.
  pose proof (filter_excl_sub sh rec _ _ _ _ (Hrec _ _ _ _ Er Hi) Ef) as Hms'.
  pose proof (set_of_vc s i ms' Hms') as Hst.
  destruct (set_of ms') as [|z st]; [discriminate|].
  injection H as <-.
  apply Forall_forall. intros y Hy.
  destruct (proj1 (in_map_iff _ _ _) Hy) as (x & Hyx & Hx). subst y.
  apply vc_nd.
  apply (proj1 (Forall_forall _ _) (sort_vc _ _ (sh_vc sh _ _ Hsh Hst))). exact Hx.
Qed.

Section RefEq.
  Variables sh1 sh2 : list mtch -> list mtch.
  Hypothesis Hsh1 : perm_oracle sh1.
  Hypothesis Hsh2 : perm_oracle sh2.
  Variable G : grammar.
  Variables rec1 rec2 : expr -> str -> nat -> res.
  Hypothesis Hvc : rec_vc rec1.
  Hypothesis Heq : rec_eq rec1 rec2.

  Lemma excluded_eq x m : excluded sh1 rec1 x m = excluded sh2 rec2 x m.
  Proof.
    unfold excluded. destruct x as [r|]; [|reflexivity]. cbv zeta.
    rewrite <- (Heq (ERef r) (nsvalue (nodes m)) 0 (Nat.le_0_l _)).
    destruct (rec1 (ERef r) (nsvalue (nodes m)) 0) as [ms| | |] eqn:E; try reflexivity.
    pose proof (Hvc _ _ _ _ E (Nat.le_0_l _)) as Hms.
    rewrite (next_longest_eq sh1 sh2 (set_of ms) (set_of ms) Hsh1 Hsh2
               (set_of_eu _ _ _ Hms) (Permutation_refl _)).
    reflexivity.
  Qed.

  Lemma filter_excl_eq x : forall ms, filter_excl sh1 rec1 x ms = filter_excl sh2 rec2 x ms.
  Proof.
    induction ms as [|m ms IH]; simpl.
    - reflexivity.
    - rewrite excluded_eq, IH. reflexivity.
  Qed.

  Lemma ref_eq r s i : i <= length s -> ref sh1 G rec1 r s i = ref sh2 G rec2 r s i.
  Proof.
    intros Hi. unfold ref.
    destruct (G r) as [ru|]; [|reflexivity].
    destruct (rdef ru) as [d|]; [|reflexivity].
    rewrite <- (Heq d s i Hi).
    destruct (rec1 d s i) as [ms| | |] eqn:Er; try reflexivity.
    rewrite <- filter_excl_eq.
    destruct (filter_excl sh1 rec1 (rexcl ru) ms) as [ms'| | |] eqn:Ef; try reflexivity.
    pose proof (filter_excl_sub sh1 rec1 _ _ _ _ (Hvc _ _ _ _ Er Hi) Ef) as Hms'.
    pose proof (set_of_eu s i ms' Hms') as Ust.
    destruct (set_of ms') as [|z st]; [reflexivity|].
    f_equal. f_equal.
    apply (next_longest_eq sh1 sh2 (z :: st) (z :: st) Hsh1 Hsh2 Ust (Permutation_refl _)).
  Qed.
End RefEq.

(* ---------- one level of the engine ---------- *)
Lemma step_vc sh G rec : perm_oracle sh -> rec_vc rec -> forall k, rec_vc (step sh G rec k).
Proof.
  intros Hsh Hrec k e s i ms H Hi. destruct e as [cs v|lo hi|fm es|es|id mn mx e'| |r]; simpl in H.
  - apply (lit_vc _ _ _ _ _ H).
  - apply (range_vc _ _ _ _ _ H).
  - apply (alt_loop_vc rec Hrec fm s i Hi es [] ms (Forall_nil _) H).
  - apply (cat_vc rec Hrec es s i ms Hi H).
  - apply (rep_vc sh Hsh rec Hrec k mn mx e' s i ms Hi H).
  - discriminate.
  - apply (ref_vc sh G rec r s i ms Hsh Hrec Hi H).
Qed.

Lemma step_eq sh1 sh2 G rec1 rec2 : perm_oracle sh1 -> perm_oracle sh2 ->
  rec_vc rec1 -> rec_eq rec1 rec2 -> forall k, rec_eq (step sh1 G rec1 k) (step sh2 G rec2 k).
Proof.
  intros H1 H2 Hvc Heq k e s i Hi. destruct e as [cs v|lo hi|fm es|es|id mn mx e'| |r]; simpl.
  - reflexivity.
  - reflexivity.
  - apply (alt_loop_eq rec1 rec2 Heq fm s i Hi).
  - apply (cat_eq rec1 rec2 Hvc Heq es s i Hi).
  - apply (rep_eq sh1 sh2 H1 H2 rec1 rec2 Hvc Heq k mn mx e' s i Hi).
  - reflexivity.
  - apply (ref_eq sh1 sh2 H1 H2 G rec1 rec2 Hvc Heq r s i Hi).
Qed.

(* ---------- the required theorems ---------- *)
Lemma lparse_rec_vc sh G : perm_oracle sh -> forall f, rec_vc (lparse sh G f).
Proof.
  intros Hsh. induction f as [|f IH].
  - intros e s i ms H Hi. discriminate.
  - intros e s i ms H Hi. simpl in H. apply (step_vc sh G _ Hsh IH f e s i ms H Hi).
Qed.

Theorem lparse_vc sh G : perm_oracle sh -> forall f e s i ms, lparse sh G f e s i = Ok ms -> i <= length s ->
  forall m, In m ms -> i <= mend m /\ mend m <= length s /\ nsvalue (nodes m) = slice s i (mend m - i).
Proof.
  intros Hsh f e s i ms H Hi m Hm.
  apply (proj1 (Forall_forall _ _) (lparse_rec_vc sh G Hsh f e s i ms H Hi) m Hm).
Qed.

Lemma lparse_rec_eq sh1 sh2 G : perm_oracle sh1 -> perm_oracle sh2 ->
  forall f, rec_eq (lparse sh1 G f) (lparse sh2 G f).
Proof.
  intros H1 H2. induction f as [|f IH].
  - intros e s i Hi. reflexivity.
  - intros e s i Hi. simpl.
    apply (step_eq sh1 sh2 G _ _ H1 H2 (lparse_rec_vc sh1 G H1 f) IH f e s i Hi).
Qed.

Theorem lparse_oracle_indep sh1 sh2 G : perm_oracle sh1 -> perm_oracle sh2 ->
  forall f e s i, i <= length s -> lparse sh1 G f e s i = lparse sh2 G f e s i.
Proof.
  intros H1 H2 f e s i Hi. apply (lparse_rec_eq sh1 sh2 G H1 H2 f e s i Hi).
Qed.

Theorem parse_oracle_indep sh1 sh2 G : perm_oracle sh1 -> perm_oracle sh2 ->
  forall f r s i, i <= length s -> parse sh1 G f r s i = parse sh2 G f r s i.
Proof.
  intros H1 H2 f r s i Hi. unfold parse.
  rewrite <- (lparse_oracle_indep sh1 sh2 G H1 H2 f (ERef r) s i Hi).
  destruct (lparse sh1 G f (ERef r) s i) as [ms| | |] eqn:E; try reflexivity.
  pose proof (lparse_rec_vc sh1 G H1 f _ _ _ _ E Hi) as Hms.
  rewrite (next_longest_eq sh1 sh2 (set_of ms) (set_of ms) H1 H2
             (set_of_eu _ _ _ Hms) (Permutation_refl _)).
  reflexivity.
Qed.

Theorem parse_all_oracle_indep sh1 sh2 G : perm_oracle sh1 -> perm_oracle sh2 ->
  forall f r s, parse_all sh1 G f r s = parse_all sh2 G f r s.
Proof.
  intros H1 H2 f r s. unfold parse_all.
  rewrite (parse_oracle_indep sh1 sh2 G H1 H2 f r s 0 (Nat.le_0_l _)). reflexivity.
Qed.

Print Assumptions lparse_vc.
Print Assumptions lparse_oracle_indep.
Print Assumptions parse_oracle_indep.
Print Assumptions parse_all_oracle_indep.
