(* L_C09.v — bundled RFC grammars recognise exactly what their own ABNF text denotes: obligations over the registry
   with every bundled module loaded, built by the loader model from the texts TRANSLATED from /repo on every run. *)
From Coq Require Import String List NArith Arith Bool.
Import ListNotations.
From ABNF Require Import Base Engine Spec Wf Checks WfCheck Cert LangEq Restrict Schema Sentences EngineSem
     AbnfRead Registry GenTypes Loader GenBundled Bundled TablesAll.

Lemma all_modules_load : match r_all tt with Some _ => true | None => false end = true.
Proof. vm_cast_no_check (eq_refl true). Qed.
(* every rule object is defined, references and exclusions are defined, bounds min<=max, no left recursion (also through
   nullable prefixes): a certificate is computed and CHECKED *)
Lemma all_wf : auto_wf_n 40 l_all = true. Proof. vm_cast_no_check (eq_refl true). Qed.
Lemma all_closed : closed_check l_all = true. Proof. vm_cast_no_check (eq_refl true). Qed.
Lemma no_prose_left : no_prose_check l_all = true. Proof. vm_cast_no_check (eq_refl true). Qed.
(* every rule has a definition and accepts at least one string (witness computed, acceptance checked by running the
   engine model in the kernel) *)
Lemma all_productive : productive_check 30 400 l_all = true. Proof. vm_cast_no_check (eq_refl true). Qed.

(* the rules from which no first-match flag and no exclusion is reachable *)
Definition flagged (ru : rule) : bool :=
  match rexcl ru with Some _ => true | None => false end ||
  match rdef ru with Some d => negb (nofmb d) | None => false end.
Fixpoint iter_bad (rounds : nat) (bad : list rid) : list rid :=
  match rounds with
  | 0 => bad
  | S n =>
    iter_bad n (bad ++ map fst (filter (fun p => negb (memr (fst p) bad) &&
                                                 existsb (fun x => memr x bad) (succs l_all (fst p))) l_all))
  end.
Definition bad_rules : list rid := iter_bad 30 (map fst (filter (fun p => flagged (snd p)) l_all)).
Definition plain_rules : list rid := map fst (filter (fun p => negb (memr (fst p) bad_rules)) l_all).
Lemma plain_part_ok : sub_ok 40 l_all plain_rules = true. Proof. vm_cast_no_check (eq_refl true). Qed.
Lemma plain_part_defined : (let lr := restrict l_all plain_rules in forallb (definedb lr) plain_rules) = true.
Proof. vm_cast_no_check (eq_refl true). Qed.
Lemma plain_part_nonempty : negb (Nat.eqb (List.length plain_rules) 0) = true.
Proof. vm_cast_no_check (eq_refl true). Qed.

Opaque l_all plain_rules bad_rules R_all.

(* for the rules that reach no flag/exclusion: the ends listed by the engine are exactly the RFC relation M over the grammar
   the TEXT denotes (spec reader + loader model) *)
Lemma c09_plain : forall r, In r plain_rules -> forall sh, perm_oracle sh ->
  (forall s i, i <= List.length s -> exists f, forall f', f <= f' ->
      lparse sh (of_list l_all) f' (ERef r) s i <> OOF /\ lparse sh (of_list l_all) f' (ERef r) s i <> GErr /\
      (forall j, In j (ends (lparse sh (of_list l_all) f' (ERef r) s i)) <-> M (of_list l_all) s (ERef r) i j)) /\
  (forall s, accepts sh (of_list l_all) r s <-> M (of_list l_all) s (ERef r) 0 (List.length s)).
Proof.
  intros r Hin. apply (sub_engine_M 40 l_all plain_rules plain_part_ok r).
  - apply (proj2 (memr_In r plain_rules)). exact Hin.
  - pose proof plain_part_defined as H. cbv zeta in H. rewrite forallb_forall in H. exact (H r Hin).
Qed.

(* for ALL rules, flags and exclusions included: the engine's denotation is THE solution of the semantic equations
   (RFC clauses + documented first-match / exclusion clauses) over the grammar the text denotes *)
Lemma c09_all : forall sh, perm_oracle sh ->
  Sem (of_list l_all) (den sh (of_list l_all)) /\
  (forall d, Sem (of_list l_all) d -> forall e s i j, WB e -> closed_expr (of_list l_all) e -> i <= List.length s ->
     (d e s i j <-> den sh (of_list l_all) e s i j)).
Proof. exact (flagged_schema 40 l_all all_wf all_closed). Qed.

Lemma c09_productive : forall r ru, In (r, ru) l_all ->
  (exists d, rdef ru = Some d) /\ exists w m, parse_all sh_id (of_list l_all) 400 r w = Ok [m].
Proof. exact (productive_check_sound 30 400 l_all all_productive). Qed.
