(* GenTypes.v — types of the data the translator (tools/translate.py) emits. *)
From Coq Require Import List NArith String Ascii.
Import ListNotations.
From ABNF Require Import Base.

Fixpoint s_of (x : string) : str :=
  match x with
  | EmptyString => []
  | String a r => N_of_ascii a :: s_of r
  end.

(* constructor terms of the two hand-written tables in parser.py *)
Inductive texpr :=
| TLit (cs : bool) (v : str)
| TRange (lo hi : N)
| TAlt (fm : bool) (es : list texpr)
| TCat (es : list texpr)
| TRep (mn : nat) (mx : option nat) (e : texpr)
| TOpt (e : texpr)
| TProse
| TRef (cls : N) (name : str).        (* 0 = Rule("name"), 1 = ABNFGrammarRule("name") *)

Inductive flagstmt :=
| FlagRule (name : str) (v : bool)                      (* Rule('name').first_match_alternation = v *)
| FlagAll (v : bool)                                    (* for rule in Rule.rules(): rule.first_match_alternation = v *)
| FlagOwnNotSharedWith (m c : str) (v : bool).          (* the guarded loop of rfc3987.py *)

Record gclass := {
  gmod : str; gcls : str;
  gkind_list : bool;                      (* true: load_grammar_rules (list of rule sources); false: load_grammar_rulelist *)
  gdeps : list str;                       (* from . import a, b *)
  gtexts : list str;
  gimports : list (str * (str * str * str));   (* local name, (module, class, rule name) *)
  gflags : list flagstmt }.
