(* ReaderDeriv.v — C04 gap, final part: defined-as, rule, rulelist.
   EVERY derivation tree of a text as [rulelist] (resp. [rule], [elements]) of the library's meta-grammar
   (the table translated from parser.py) has exactly the abstract syntax that the spec reader of AbnfRead.v
   returns on that text — whatever the derivation does with white space, comments and line continuations. *)
From Coq Require Import String Ascii List NArith Arith Bool Lia.
Import ListNotations.
From ABNF Require Import Base Engine Spec EngineSound Checks AbnfRead Registry GenTypes Loader Bundled RfcSpec
     Tables Visit Visitor VisitorProps ReaderDeriv1 ReaderDeriv2 ReaderDeriv3.
Local Open Scope list_scope.
Opaque l_meta r_boot G.
Arguments ERef r%N.
Arguments ERange (lo hi)%N.
Arguments ELit cs v%N.
Arguments fold_cp c%N.

Definition entry : expr := EAlt false [ERef 16; ECat [ERep 1 0 None (ERef 17); ERef 18]].

Lemma filter_lay l : lay_nodes l ->
  filter (fun x => match x with Leaf _ _ _ => true | _ => false end) l = [].
Proof. intros H. induction H as [|x l [ch ->] _ IH]; [reflexivity|exact IH]. Qed.

Lemma arules_skip l r : Forall (fun x => key_is x "rule" = false) l -> arules_of (l ++ r) = arules_of r.
Proof. intros H. induction H as [|x l Hx _ IH]; [reflexivity|]. cbn [app arules_of]. rewrite Hx. exact IH. Qed.
Lemma lay_not_rule l : lay_nodes l -> Forall (fun x => key_is x "rule" = false) l.
Proof. intros H. induction H as [|x l [ch ->] _ IH]; constructor; [reflexivity|exact IH]. Qed.

Lemma nl_char c : (is 59 c || is 13 c) = true ->
  is_wsp c = false /\ is_follow c = true /\ is 47 c = false /\ is_alpha c = false /\
  forall r, starts_repetition (c :: r) = false.
Proof.
  intros H. apply orb_true_iff in H. destruct H as [H|H]; apply N.eqb_eq in H; subst c; repeat split.
Qed.
Lemma wsp_not_alpha c : is_wsp c = true -> is_alpha c = false /\ (is 59 c || is 13 c) = false.
Proof.
  unfold is_wsp. intros H. apply orb_true_iff in H. destruct H as [H|H]; apply N.eqb_eq in H; subst c; split; reflexivity.
Qed.
Lemma c_wsp_nl c r r1 : (is 59 c || is 13 c) = true -> c_nl (c :: r) = Some r1 ->
  c_wsp (c :: r) = match r1 with w :: r2 => if is_wsp w then Some r2 else None | [] => None end.
Proof.
  intros C R. destruct (nl_char c C) as (W & _). cbn [c_wsp]. rewrite W, R. reflexivity.
Qed.

Section Rule.
  Variable s : str.
  Notation sk := (sk s).

  Lemma elements_first i ns j : D G s (ERef 21) i ns j -> starts_repetition (sk i) = true.
  Proof.
    intros H. destruct (D_ref_inv s _ _ _ _ _ _ def_elements H) as (ch0 & -> & H').
    apply D_cat_inv in H'. destruct H' as (k & n1 & n2 & -> & H1 & _). apply (alt_first s _ _ _ H1).
  Qed.

  (* ---- defined-as ---- *)
  Lemma defined_as_ok i ns j : D G s (ERef 20) i ns j -> starts_repetition (sk j) = true ->
    exists chd op, ns = [Nd (s_of "defined-as") chd] /\ v_defined_as (Nd (s_of "defined-as") chd) = Some op /\
      (exists c r, sk i = c :: r /\ (is_lay c || is 61 c) = true) /\
      forall f, length (sk i) <= f ->
        exists s2, eat (ch "=") (c_wsps f (sk i)) = Some s2 /\
          exists s3, match eat (ch "/") s2 with Some r => (true, r) | None => (false, s2) end
                     = (negb (str_eqb op (s_of "=")), s3) /\ c_wsps f s3 = sk j.
  Proof.
    intros H Sj. destruct (D_ref_inv s _ _ _ _ _ _ def_defined_as H) as (ch0 & -> & H').
    apply D_cat3_inv in H'. destruct H' as (q & q1 & n1 & n2 & n3 & -> & H1 & H2 & H3).
    destruct (c_wsps_rep s _ _ _ _ H1) as (W1 & L1 & Le1 & F1).
    destruct (c_wsps_rep s _ _ _ _ H3) as (W3 & L3 & Le3 & F3).
    destruct (cw_rep _ Sj) as [Cj Ej].
    assert (Hv : forall w o k, n2 = [Leaf w o k] ->
              v_defined_as (Nd (s_of "defined-as") (n1 ++ n2 ++ n3)) = Some w).
    { intros w o k ->. unfold v_defined_as. cbn [children]. rewrite !filter_app, (filter_lay _ L1), (filter_lay _ L3).
      reflexivity. }
    assert (Hfirst : forall c0 r0, sk q = c0 :: r0 -> c0 = 61%N ->
              exists c r, sk i = c :: r /\ (is_lay c || is 61 c) = true).
    { intros c0 r0 E ->. destruct F1 as [->|(c & r & E' & C)].
      - eexists _, _. split; [exact E|reflexivity].
      - eexists _, _. split; [exact E'|]. rewrite C. reflexivity. }
    apply D_alt_inv in H2. destruct H2 as (e & Hin & H2). destruct Hin as [<-|[<-|[]]].
    - apply D_lit2_inv in H2. destruct H2 as (c1 & c2 & -> & -> & E & A1 & A2).
      change (fold_cp 61) with 61%N in A1. apply fold_cp_nonletter in A1; [|reflexivity]. subst c1.
      change (fold_cp 47) with 47%N in A2. apply fold_cp_nonletter in A2; [|reflexivity]. subst c2.
      eexists _, _. split; [reflexivity|]. split; [apply (Hv _ _ _ eq_refl)|]. split; [apply (Hfirst _ _ E eq_refl)|].
      intros f Hlen.
      pose proof (sk_len s i) as Li. pose proof (sk_len s q) as Lq. pose proof (sk_len s (q + 2)) as Lq2.
      assert (Hq : q + 1 < length s). { rewrite E in Lq. cbn [length] in Lq. lia. }
      rewrite cw_fuel by exact Hlen. rewrite W1, E, (cw_nolay 61%N _ eq_refl).
      eexists. split; [reflexivity|]. eexists. split; [reflexivity|].
      rewrite cw_fuel by lia. rewrite W3. exact Cj.
    - apply D_sym_inv in H2; [|reflexivity]. destruct H2 as (-> & -> & E).
      eexists _, _. split; [reflexivity|]. split; [apply (Hv _ _ _ eq_refl)|]. split; [apply (Hfirst _ _ E eq_refl)|].
      intros f Hlen.
      pose proof (sk_len s i) as Li. pose proof (sk_len s q) as Lq. pose proof (sk_len s (q + 1)) as Lq1.
      assert (Hq : q < length s). { rewrite E in Lq. cbn [length] in Lq. lia. }
      rewrite cw_fuel by exact Hlen. rewrite W1, E, (cw_nolay 61%N _ eq_refl).
      eexists. split; [reflexivity|]. exists (sk (q + 1)). split.
      + assert (eat (ch "/") (sk (q + 1)) = None) as ->; [|reflexivity].
        destruct F3 as [->|(c & r & E' & C)]; [exact Ej|]. rewrite E'. cbn [eat]. change (ch "/") with 47%N.
        destruct (is_lay_cases c C) as [ -> | [ -> | [ -> | -> ] ] ]; reflexivity.
      + rewrite cw_fuel by lia. rewrite W3. exact Cj.
  Qed.

  (* ---- what follows the c-nl that ends a rule or a blank entry ---- *)
  Lemma entry_rule_first q ns p : D G s (ERef 16) q ns p -> exists c r, sk q = c :: r /\ is_alpha c = true.
  Proof.
    intros H. destruct (D_ref_inv s _ _ _ _ _ _ def_rule H) as (ch0 & -> & H').
    apply D_cat_inv in H'. destruct H' as (k & n1 & n2 & -> & H1 & _). apply (rulename_first s _ _ _ H1).
  Qed.

  Lemma nl_tail : forall k q nq q' ns, D G s (ERef 18) q nq q' -> DI G s entry k q' ns (length s) ->
    exists q'' k' ns', c_nl (cw (sk q)) = Some (sk q'') /\ DI G s entry k' q'' ns' (length s) /\ k' <= k /\
      arules_of ns' = arules_of ns /\ q < q'' /\
      exists c r, cw (sk q) = c :: r /\ (is 59 c || is 13 c) = true.
  Proof.
    induction k as [|k IH]; intros q nq q' ns H Ht;
      destruct (c_nl_ok s _ _ _ H) as (R & _ & (c & r & E & C));
      pose proof (sk_lt s _ _ (c_nl_len _ _ R)) as Lt;
      pose proof (c_wsp_nl c r (sk q') C) as Hw; rewrite <- E in Hw; specialize (Hw R).
    - pose proof Ht as Ht0. apply DI_0_inv in Ht0. destruct Ht0 as [-> Eq0]. subst q'.
      rewrite (sk_end s (length s)) in Hw by lia. rewrite (cw_stop _ Hw).
      exists (length s), 0, []. repeat split; auto. eauto.
    - destruct (sk q') as [|w r2] eqn:Eq'; [|destruct (is_wsp w) eqn:Ew].
      + rewrite (cw_stop _ Hw). exists q', (S k), ns. rewrite Eq'. repeat split; auto. eauto.
      + (* the c-nl is followed by white space: the reader goes on into the next (blank) entry *)
        apply DI_S_inv in Ht. destruct Ht as (p & n1 & n2 & -> & H1 & H2).
        unfold entry in H1. apply D_alt_inv in H1. destruct H1 as (e & Hin & H1). destruct Hin as [<-|[<-|[]]].
        { destruct (entry_rule_first _ _ _ H1) as (c' & r' & E' & A'). rewrite Eq' in E'. injection E' as <- <-.
          destruct (wsp_not_alpha w Ew) as [A'' _]. congruence. }
        apply D_cat2_inv in H1. destruct H1 as (u & l1 & l2 & -> & H1 & H1').
        apply D_rep_inv in H1. destruct H1 as (m & H1 & _ & _). destruct m as [|m].
        { apply DI_0_inv in H1. destruct H1 as [-> ->].
          destruct (c_nl_ok s _ _ _ H1') as (_ & _ & (c' & r' & E' & C')). rewrite Eq' in E'. injection E' as <- <-.
          destruct (wsp_not_alpha w Ew) as [_ C'']. congruence. }
        apply DI_S_inv in H1. destruct H1 as (v & a1 & a2 & -> & H1 & H1b).
        destruct (c_wsp_ok s _ _ _ H1) as (R1 & (ch1 & ->) & _).
        rewrite Eq' in R1. cbn [c_wsp] in R1. rewrite Ew in R1. injection R1 as R1.
        destruct (c_wsps_ok s _ _ _ _ H1b) as (W & L & Le & _).
        pose proof (sk_lt s q' v) as Lt'. rewrite Eq', <- R1 in Lt'. cbn [length] in Lt'. specialize (Lt' ltac:(lia)).
        destruct (IH _ _ _ _ H1' H2) as (q'' & k' & ns' & Rn & Ht' & Hk' & Har & Lt'' & Hc).
        destruct (c_nl_ok s _ _ _ H1') as (_ & (ch2 & ->) & _).
        exists q'', k', ns'. rewrite (cw_step _ _ Hw), R1, W. repeat split; auto; try lia.
        rewrite Har. symmetry. apply arules_skip. apply Forall_app. split.
        * constructor; [reflexivity|]. apply lay_not_rule. exact L.
        * constructor; [reflexivity|constructor].
      + rewrite (cw_stop _ Hw). exists q', (S k), ns. rewrite Eq'. repeat split; auto. eauto.
  Qed.

  (* ---- rule, inside a rule list ---- *)
  Lemma rule_ok i ns j k nt : D G s (ERef 16) i ns j -> DI G s entry k j nt (length s) ->
    exists t a j' k' nt', ns = [t] /\ key_is t "rule" = true /\ arule_of t = Some a /\
      (forall f, length (sk i) <= f -> rule_f f (sk i) = Some (a, sk j')) /\
      DI G s entry k' j' nt' (length s) /\ k' <= k /\ arules_of nt' = arules_of nt /\ i < j' /\
      exists c r, sk i = c :: r /\ is_alpha c = true.
  Proof.
    intros H Ht. destruct (D_ref_inv s _ _ _ _ _ _ def_rule H) as (ch0 & -> & H').
    apply D_cat4_inv in H'. destruct H' as (j1 & j2 & j3 & n1 & n2 & n3 & n4 & -> & H1 & H2 & H3 & H4).
    pose proof (elements_first _ _ _ H3) as S3.
    destruct (defined_as_ok _ _ _ H2 S3) as (chd & op & -> & V & (c1 & r1 & E1 & C1) & Hrd).
    assert (Hnf : nofirst is_namechar (sk j1)).
    { rewrite E1. cbn [nofirst]. apply orb_true_iff in C1. destruct C1 as [C1|C1].
      - destruct (is_lay_cases c1 C1) as [ -> | [ -> | [ -> | -> ] ] ]; reflexivity.
      - apply N.eqb_eq in C1. subst c1. reflexivity. }
    destruct (D_ref_inv s _ _ _ _ _ _ def_rulename H1) as (chn & -> & _).
    destruct (rulename_ok s _ _ _ H1 Hnf) as (tn & Etn & _ & _ & Rn & Hal). injection Etn as <-.
    destruct (nl_tail _ _ _ _ _ H4 Ht) as (j' & k' & nt' & Rnl & Ht' & Hk' & Har & Lt' & (c3 & r3 & E3 & C3)).
    destruct (c_nl_ok s _ _ _ H4) as (_ & (ch4 & ->) & (c4 & r4 & E4 & C4)).
    assert (Hef : efol (sk j3)).
    { destruct (nl_char c3 C3) as (_ & _ & A3 & _ & A5). destruct (nl_char c4 C4) as (_ & A2 & _).
      split; [|split].
      - rewrite E4. exact A2.
      - rewrite E3. cbn [eat]. change (ch "/") with 47%N. rewrite A3. reflexivity.
      - rewrite E3. apply A5. }
    destruct (D_ref_inv s _ _ _ _ _ _ def_elements H3) as (che & -> & _).
    destruct (elements_ok s _ _ _ H3 Hef) as (te & a & Ete & _ & Ae & Re). injection Ete as <-.
    pose proof (D_bounds _ _ _ _ _ _ H1) as B1. pose proof (D_bounds _ _ _ _ _ _ H2) as B2.
    pose proof (D_bounds _ _ _ _ _ _ H3) as B3. pose proof (D_bounds _ _ _ _ _ _ H4) as B4.
    pose proof (sk_lt s _ _ (read_name_len _ _ _ Rn)) as Lt1.
    eexists _, {| aname := nvalue (Nd (s_of "rulename") chn);
                  aincr := negb (str_eqb op (s_of "=")); adef := a |}, j', k', nt'.
    split; [reflexivity|]. split; [reflexivity|]. split; [|split; [|repeat split; auto; try lia]].
    - unfold arule_of.
      assert (Hflt : filter (fun x => key_is x "rulename" || key_is x "defined_as" || key_is x "elements")
                (children (Nd (s_of "rule") ([Nd (s_of "rulename") chn] ++ [Nd (s_of "defined-as") chd] ++
                                             [Nd (s_of "elements") che] ++ [Nd (s_of "c-nl") ch4])))
              = [Nd (s_of "rulename") chn; Nd (s_of "defined-as") chd; Nd (s_of "elements") che])
        by reflexivity.
      rewrite Hflt.
      change (key_is (Nd (s_of "rulename") chn) "rulename" && key_is (Nd (s_of "defined-as") chd) "defined_as" &&
              key_is (Nd (s_of "elements") che) "elements") with true. cbv iota.
      rewrite V, Ae. reflexivity.
    - intros f Hlen. pose proof (sk_len s i) as Li. pose proof (sk_len s j1) as Lj1. pose proof (sk_len s j2) as Lj2.
      unfold rule_f. rewrite Rn.
      destruct (Hrd f ltac:(lia)) as (s2 & X2 & s3 & X3 & X4). rewrite X2, X3, X4.
      rewrite Re by lia. rewrite Rnl. reflexivity.
  Qed.

  (* ---- rulelist ---- *)
  Lemma entry_progress i ns p : D G s entry i ns p -> i < p.
  Proof.
    intros H. unfold entry in H. apply D_alt_inv in H. destruct H as (e & Hin & H). destruct Hin as [<-|[<-|[]]].
    - destruct (D_ref_inv s _ _ _ _ _ _ def_rule H) as (ch0 & -> & H').
      apply D_cat_inv in H'. destruct H' as (k & n1 & n2 & -> & H1 & H2).
      destruct (D_ref_inv s _ _ _ _ _ _ def_rulename H1) as (chn & -> & H1').
      apply D_cat_inv in H1'. destruct H1' as (k1 & a1 & a2 & -> & H1' & H1'').
      destruct (chr_ALPHA s _ _ _ H1') as (c & -> & _).
      apply D_bounds in H1''. apply D_bounds in H2. lia.
    - apply D_cat2_inv in H. destruct H as (u & l1 & l2 & -> & H1 & H2).
      apply D_bounds in H1. destruct (c_nl_ok s _ _ _ H2) as (R & _).
      pose proof (sk_lt s _ _ (c_nl_len _ _ R)). lia.
  Qed.

  Lemma rulelist_loop : forall k i ns, DI G s entry k i ns (length s) ->
    exists rs, arules_of ns = Some rs /\
      forall f acc, length (sk i) <= f -> rulelist_f f acc (sk i) = Some (rev acc ++ rs).
  Proof.
    induction k as [k IH] using lt_wf_ind. intros i ns H. destruct k as [|k].
    - apply DI_0_inv in H. destruct H as [-> Eq0]. subst i. exists []. split; [reflexivity|].
      intros f acc _. rewrite sk_end by lia. destruct f; cbn [rulelist_f]; rewrite rev'_rev, app_nil_r; reflexivity.
    - apply DI_S_inv in H. destruct H as (p & n1 & n2 & -> & H1 & H2).
      pose proof (entry_progress _ _ _ H1) as Lt.
      unfold entry in H1. apply D_alt_inv in H1. destruct H1 as (e & Hin & H1). destruct Hin as [<-|[<-|[]]].
      + destruct (rule_ok _ _ _ _ _ H1 H2)
          as (t & a & j' & k' & nt' & -> & K & A & R & Ht' & Hk' & Har & Lt' & (c & r & E & Al)).
        destruct (IH k' ltac:(lia) _ _ Ht') as (rs & Ars & Hloop).
        exists (a :: rs). split.
        * cbn [app arules_of]. rewrite K, A, <- Har, Ars. reflexivity.
        * intros f acc Hlen. pose proof (sk_len s i) as Li. pose proof (sk_len s j') as Lj'.
          destruct f as [|f]; [rewrite E in Hlen; cbn [length] in Hlen; lia|].
          rewrite E. cbn [rulelist_f]. rewrite Al. rewrite <- E. unfold read_rule.
          rewrite (R (S (length (sk i)))) by lia.
          rewrite (Hloop f (a :: acc)) by lia. cbn [rev]. rewrite <- app_assoc. reflexivity.
      + apply D_cat2_inv in H1. destruct H1 as (u & l1 & l2 & -> & H1 & H1').
        destruct (c_wsps_rep s _ _ _ _ H1) as (W & L & Le & F).
        destruct (nl_tail _ _ _ _ _ H1' H2) as (j' & k' & nt' & Rnl & Ht' & Hk' & Har & Lt' & _).
        destruct (c_nl_ok s _ _ _ H1') as (_ & (ch2 & ->) & (c2 & r2 & E2 & C2)).
        destruct (IH k' ltac:(lia) _ _ Ht') as (rs & Ars & Hloop).
        assert (Hfirst : exists c r, sk i = c :: r /\ is_alpha c = false).
        { destruct F as [->|(c & r & E & C)].
          - eexists _, _. split; [exact E2|]. apply (nl_char c2 C2).
          - eexists _, _. split; [exact E|].
            destruct (is_lay_cases c C) as [ -> | [ -> | [ -> | -> ] ] ]; reflexivity. }
        destruct Hfirst as (c & r & E & Al).
        exists rs. split.
        * rewrite arules_skip; [rewrite <- Har; exact Ars|]. apply Forall_app. split.
          -- apply lay_not_rule. exact L.
          -- constructor; [reflexivity|constructor].
        * intros f acc Hlen. pose proof (sk_len s i) as Li. pose proof (sk_len s j') as Lj'.
          destruct f as [|f]; [rewrite E in Hlen; cbn [length] in Hlen; lia|].
          rewrite E. cbn [rulelist_f]. rewrite Al. rewrite <- E.
          rewrite cw_fuel by exact Hlen. rewrite W, Rnl.
          apply Hloop. lia.
  Qed.
End Rule.

(* ------------------------------------------------------------------------------------------ *)
(** * The theorems *)
Theorem reader_agrees_rulelist_G : forall s t,
  D G s (ERef 39) 0 [t] (length s) ->
  exists rs, arules_of (children t) = Some rs /\ read_rulelist s = Some rs.
Proof.
  intros s t H. destruct (D_ref_inv s _ _ _ _ _ _ def_rulelist H) as (ch0 & Et & H'). injection Et as ->.
  apply D_rep_inv in H'. destruct H' as (n & H' & Hn & _). fold entry in H'.
  destruct (rulelist_loop s _ _ _ H') as (rs & A & R). exists rs. split; [exact A|].
  assert (Hne : 0 < length s).
  { destruct n as [|n]; [lia|]. apply DI_S_inv in H'. destruct H' as (p & n1 & n2 & _ & H1 & H2).
    apply entry_progress in H1. apply DI_bounds in H2. lia. }
  specialize (R (length s) [] ltac:(rewrite sk_len; lia)). change (sk s 0) with s in R.
  unfold read_rulelist. destruct s as [|c r]; [cbn in Hne; lia|]. exact R.
Qed.

Theorem reader_agrees_rule_G : forall s t,
  D G s (ERef 16) 0 [t] (length s) ->
  exists a, arule_of t = Some a /\ read_rule s = Some (a, []).
Proof.
  intros s t H.
  destruct (rule_ok s _ _ _ 0 [] H (DI_0 G s entry (length s) (le_n _)))
    as (t' & a & j' & k' & nt' & Et & _ & A & R & Ht' & Hk' & _).
  injection Et as <-. exists a. split; [exact A|].
  assert (k' = 0) by lia. subst k'. apply DI_0_inv in Ht'. destruct Ht' as [_ Ej]. 
  unfold read_rule. change (rule_f (S (length s)) s) with (rule_f (S (length s)) (sk s 0)).
  rewrite R by (rewrite sk_len; lia). rewrite <- Ej, sk_end by lia. reflexivity.
Qed.

(* ---- stated on the table itself ---- *)
Theorem reader_agrees_with_every_derivation : forall s t,
  D (of_list l_meta) s (ERef (rid_meta "rulelist")) 0 [t] (length s) ->
  exists rs, arules_of (children t) = Some rs /\ read_rulelist s = Some rs.
Proof. intros s t H. rewrite id_rulelist in H. apply reader_agrees_rulelist_G. exact H. Qed.

Theorem reader_agrees_rule : forall s t,
  D (of_list l_meta) s (ERef (rid_meta "rule")) 0 [t] (length s) ->
  exists a, arule_of t = Some a /\ read_rule s = Some (a, []).
Proof. intros s t H. rewrite id_rule in H. apply reader_agrees_rule_G. exact H. Qed.

Theorem reader_agrees_elements : forall s t,
  D (of_list l_meta) s (ERef (rid_meta "elements")) 0 [t] (length s) ->
  exists a, ast_of t = Some a /\ read_elements s = Some (a, []).
Proof. intros s t H. rewrite id_elements in H. apply reader_agrees_elements_G. exact H. Qed.

(* consequence: the visitor run on ANY derivation tree of the text defines exactly the rules the spec reader reads *)
Corollary visitor_on_any_derivation : forall c s t R,
  D (of_list l_meta) s (ERef (rid_meta "rulelist")) 0 [t] (length s) ->
  exists rs, read_rulelist s = Some rs /\ v_rulelist c t R = define_rules c rs R.
Proof.
  intros c s t R H. destruct (reader_agrees_with_every_derivation s t H) as (rs & A & Rd).
  exists rs. split; [exact Rd|]. apply v_rulelist_define. exact A.
Qed.

(* the L2 name: the restriction to WSP-only layout turned out to be unnecessary, so this is the full statement *)
Corollary reader_agrees_elements_partial : forall s t,
  D (of_list l_meta) s (ERef (rid_meta "elements")) 0 [t] (length s) ->
  exists a, ast_of t = Some a /\ read_elements s = Some (a, []).
Proof. exact reader_agrees_elements. Qed.

(* ---- the theorems are not vacuous: a text with a comment, a continuation line, a white line, a comment
   line and a trailing empty line; the engine's tree is a derivation, and the theorem applies to it ---- *)
Lemma meta_WBG : WBG (of_list l_meta).
Proof. apply wbg_check_sound. vm_compute. reflexivity. Qed.

Definition ex_text : str :=
  txt ["a = b ; c"; "  / d"; " "; "; x"; "e =/ 1*2( %x41-5A ""y"" ) [<f>] ; z"; ""]%string.
Definition ex_m : option mtch :=
  match lparse sh_id (of_list l_meta) 120 (ERef (rid_meta "rulelist")) ex_text 0 with
  | Ok (m :: _) => Some m
  | _ => None
  end.
Lemma ex_m_shape : exists t, ex_m = Some (mk [t] (length ex_text)).
Proof. vm_compute. eexists. reflexivity. Qed.

Example ex_nonvacuous : exists t,
  D (of_list l_meta) ex_text (ERef (rid_meta "rulelist")) 0 [t] (length ex_text) /\
  arules_of (children t) = read_rulelist ex_text /\
  read_rulelist ex_text =
    Some [ {| aname := s_of "a"; aincr := false; adef := AAlt [R "b"; R "d"] |};
           {| aname := s_of "e"; aincr := true;
              adef := ACat [ARep 1 (Some 2) (ACat [ARange 65 90; ALit false (s_of "y")]); AOpt (R "f")] |} ].
Proof.
  destruct ex_m_shape as [t Hm]. exists t. unfold ex_m in Hm.
  destruct (lparse sh_id (of_list l_meta) 120 (ERef (rid_meta "rulelist")) ex_text 0) as [[|m ms]| | |] eqn:E;
    try discriminate Hm. injection Hm as ->.
  assert (HD : D (of_list l_meta) ex_text (ERef (rid_meta "rulelist")) 0 [t] (length ex_text)).
  { apply (lparse_sound sh_id (of_list l_meta) (fun l => Permutation.Permutation_refl l) meta_WBG
             120 _ ex_text 0 _ (WB_ref _) E (Nat.le_0_l _) (mk [t] (length ex_text))). left. reflexivity. }
  split; [exact HD|]. destruct (reader_agrees_with_every_derivation _ _ HD) as (rs & A & Rd).
  split; [rewrite A, Rd; reflexivity|]. vm_compute. reflexivity.
Qed.

Print Assumptions reader_agrees_with_every_derivation.
Print Assumptions reader_agrees_rule.
Print Assumptions reader_agrees_elements.
Print Assumptions visitor_on_any_derivation.
Print Assumptions reader_agrees_elements_partial.
Print Assumptions ex_nonvacuous.
