(* CacheFine2Proofs1.v — [CacheFineProofs1.v for the model CacheFine2.v: both switches]
   C17 at the granularity of single shared-memory accesses (model: CacheFine2.v).
   For the code AS WRITTEN (D2 before D3), every schedule of micro-steps, every pool of requests, every
   initial state in which each cache is either stamped with the current epoch and holds only correct memos
   or is stale with ARBITRARY contents: every request that completes returns the pure engine's answer;
   requests abandoned at any micro-step do no harm (fine_sched_correct / _completed / _requests / _run_pure).

   The invariant.  [clean id o]: every entry of dict object o is a correct memo for repetition id.
     state   [fine_inv]:  for every cache,  stamp = epoch  ->  the CURRENT dict object is clean
     thread  [pinv], by program counter inside the method it executes on cache id:
        D1, D2            nothing
        D3                the current object is clean   (it was put there by this thread's D2, or by a later D2)
        G1a               stamp = epoch                 (seen at D1, or written by this thread's D3)
        G1b d             the object d it holds is clean (read at G1a from a cache whose stamp = epoch)
        G3a..G4b v        v is a correct memo           (the second read of self.dict at G4a needs nothing:
                                                         move_to_end only permutes whatever object it hits)
        S1a..S3b          nothing (a store writes a correct memo into WHATEVER object it holds, clean or stale)
   Every micro-step of any thread is [stable]: the stamp, once = epoch, stays so; a clean object stays clean
   (only correct memos are ever written); the current object, once clean, stays clean (D2 installs an empty
   one).  Stale objects are never required to be clean and can never become current again.

   The value theorems hold for BOTH values of guarded_pop (section variable grd).
   Crash freedom: before the repair __setitem__ can raise KeyError at S3b (see CacheFine2Refute.v) unless no
   cache has a size limit (fine_no_crash); for the repaired code (guarded_pop = true) NO thread ever becomes
   TCrash, whatever the schedule, the pool, the limits and the order of D2/D3 (fine_no_crash_guarded).
   Summary for the property file: C17_fine. *)
From Coq Require Import List NArith Arith Bool Lia.
Import ListNotations.
From ABNF Require Import Base Engine Cache EngineProg CacheRefine CacheFine2.
From ABNF Require EngineComplete.

Local Notation fc := (fcache ckey cval).
Local Notation cobj := (obj ckey cval).
Local Notation csetobj := (set_obj ckey cval).
Local Notation cmstep := (mstep ckey cval ckey_eqb).
Local Notation cmop := (@mop ckey cval).

(* ---- lists ---- *)
Lemma nth_snoc_dflt {A : Type} (x : A) : forall l d, nth d (l ++ [x]) x = nth d l x.
Proof.
  induction l as [|a l IH]; intros d; cbn [app nth].
  - destruct d as [|[|d]]; reflexivity.
  - destruct d as [|d]; [reflexivity|apply IH].
Qed.

Lemma nth_nth_upd_cases {A : Type} (x a : A) : forall l d d',
  (d' = d /\ nth d' (nth_upd l d a) x = a) \/ nth d' (nth_upd l d a) x = nth d' l x.
Proof.
  induction l as [|b l IH]; intros d d'; cbn [nth_upd].
  - right. reflexivity.
  - destruct d as [|d], d' as [|d']; cbn [nth]; auto.
    destruct (IH d d') as [[E H]|H]; [left; split; [congruence|exact H]|right; exact H].
Qed.

Lemma nth_nth_upd_same {A : Type} (x a : A) : forall l d, d < length l -> nth d (nth_upd l d a) x = a.
Proof.
  induction l as [|b l IH]; intros d Hd; cbn [length] in Hd; [lia|].
  destruct d as [|d]; cbn [nth_upd nth]; [reflexivity|apply IH; lia].
Qed.

Lemma length_nth_upd {A : Type} (a : A) : forall l d, length (nth_upd l d a) = length l.
Proof.
  induction l as [|b l IH]; intros d; cbn [nth_upd]; [reflexivity|].
  destruct d as [|d]; cbn [length]; [reflexivity|rewrite IH; reflexivity].
Qed.

Lemma Forall2_mono {A B : Type} (R R' : A -> B -> Prop) l1 l2 :
  (forall a b, R a b -> R' a b) -> Forall2 R l1 l2 -> Forall2 R' l1 l2.
Proof. intros H HF. induction HF; constructor; auto. Qed.

Lemma Forall_nth_upd {A : Type} (P : A -> Prop) : forall l n a, Forall P l -> P a -> Forall P (nth_upd l n a).
Proof.
  induction l as [|b l IH]; intros n a Hl Ha; cbn [nth_upd]; [constructor|].
  inversion Hl as [|y ys Hb Hl']; subst. destruct n as [|n]; constructor; auto.
Qed.

Lemma Forall_nth_error {A : Type} (P : A -> Prop) : forall l n a, Forall P l -> nth_error l n = Some a -> P a.
Proof.
  induction l as [|b l IH]; intros n a Hl Hn; [destruct n; discriminate|].
  inversion Hl as [|y ys Hb Hl']; subst. destruct n as [|n]; cbn [nth_error] in Hn.
  - inversion Hn; subst; assumption.
  - exact (IH n a Hl' Hn).
Qed.

Lemma fupd_same st id c : fupd st id c id = c.
Proof. unfold fupd. rewrite N.eqb_refl. reflexivity. Qed.
Lemma fupd_other st id c id' : id' <> id -> fupd st id c id' = st id'.
Proof.
  intros H. unfold fupd. destruct (N.eqb id' id) eqn:E; [|reflexivity]. apply N.eqb_eq in E. contradiction.
Qed.

Section FineRefine.
  Variable sh : list mtch -> list mtch.
  Variable G : grammar.
  Variable rep_of : N -> option (nat * option nat * expr).
  Variable g : nat.                       (* the global epoch, fixed during the run *)
  Variable grd : bool.                    (* guarded_pop: the value theorems hold for both *)

  Local Notation gv := (good_val sh G rep_of).
  Local Notation good := (good sh G rep_of).

  (* ---------------------------------------------------------------------------------------- *)
  (* clean dict objects                                                                        *)
  (* ---------------------------------------------------------------------------------------- *)
  Definition clean (id : N) (o : list (ckey * cval)) : Prop := forall k v, In (k, v) o -> gv id k v.

  Lemma clean_nil id : clean id [].
  Proof. intros k v []. Qed.
  Lemma clean_assign id k v o : gv id k v -> clean id o -> clean id (assign ckey cval ckey_eqb k v o).
  Proof.
    intros Hv Ho k0 v0 Hin. destruct (In_assign k v _ o Hin) as [E|H]; [inversion E; subst; exact Hv|exact (Ho k0 v0 H)].
  Qed.
  Lemma clean_move id k v' o : clean id o -> lookup ckey cval ckey_eqb k o = Some v' ->
    clean id (remove ckey cval ckey_eqb k o ++ [(k, v')]).
  Proof.
    intros Ho Hl k0 v0 Hin. apply in_app_or in Hin. destruct Hin as [H|[H|[]]].
    - exact (Ho k0 v0 (In_remove k _ o H)).
    - inversion H; subst. exact (Ho k0 v0 (lookup_In k0 v0 o Hl)).
  Qed.
  Lemma clean_tl id x o : clean id (x :: o) -> clean id o.
  Proof. intros H k v Hin. apply H. right. exact Hin. Qed.

  (* what every micro-step guarantees to everybody else *)
  Definition stable (id : N) (c c' : fc) : Prop :=
    (fep ckey cval c = g -> fep ckey cval c' = g) /\
    (forall d, clean id (cobj c d) -> clean id (cobj c' d)) /\
    (clean id (cobj c (fcur ckey cval c)) -> clean id (cobj c' (fcur ckey cval c'))).

  Lemma stable_refl id c : stable id c c.
  Proof. repeat split; auto. Qed.

  (* only counters change *)
  Lemma stable_counters id c h m : stable id c (mkf ckey cval (fobjs ckey cval c) (fcur ckey cval c)
                                                   (fmax ckey cval c) h m (fep ckey cval c)).
  Proof. repeat split; auto. Qed.

  (* one object is overwritten by something that is clean if the object was *)
  Lemma stable_set_obj id c d o : (clean id (cobj c d) -> clean id o) -> stable id c (csetobj c d o).
  Proof.
    intros Ho.
    assert (H : forall d', clean id (cobj c d') -> clean id (cobj (csetobj c d o) d')).
    { intros d' Hd'. unfold obj, set_obj. cbn [fobjs].
      destruct (nth_nth_upd_cases [] o (fobjs ckey cval c) d d') as [[E H]|H]; rewrite H.
      - subst d'. apply Ho. exact Hd'.
      - exact Hd'. }
    split; [auto|]. split; [exact H|]. apply H.
  Qed.

  (* the single-cache part of the state invariant *)
  Definition cinv1 (id : N) (c : fc) : Prop := fep ckey cval c = g -> clean id (cobj c (fcur ckey cval c)).

  Lemma cinv1_stable id c c' : cinv1 id c -> stable id c c' -> fep ckey cval c' = fep ckey cval c -> cinv1 id c'.
  Proof. intros Hc [_ [_ H]] E Hg. apply H. apply Hc. congruence. Qed.

  (* ---------------------------------------------------------------------------------------- *)
  (* the thread invariant, by program counter                                                  *)
  (* ---------------------------------------------------------------------------------------- *)
  Definition opgood (id : N) (op : cmop) : Prop :=
    match op with MGet _ => True | MSet k v => gv id k v end.
  Definition valgood (id : N) (op : cmop) (v : cval) : Prop := forall k, op = MGet k -> gv id k v.

  Definition pinv (c : fc) (id : N) (op : cmop) (q : pc cval) : Prop :=
    match q with
    | D3 => clean id (cobj c (fcur ckey cval c))
    | G1a => fep ckey cval c = g
    | G1b d => clean id (cobj c d)
    | G3a v | G3b v _ | G4a v | G4b v _ => valgood id op v
    | _ => True
    end.

  Lemma pinv_mono c c' id op q : pinv c id op q -> stable id c c' -> pinv c' id op q.
  Proof.
    intros H [H1 [H2 H3]]. destruct q; cbn [pinv] in *; auto.
  Qed.

  (* ONE micro-step of the code as written: stable for the others, keeps the cache invariant, establishes the
     invariant of the next program counter; a value returned by __getitem__ is a correct memo *)
  Lemma mstep_ok id op q c out c' :
    opgood id op -> cinv1 id c -> pinv c id op q -> cmstep false grd g op q c = (out, c') ->
    stable id c c' /\ cinv1 id c' /\
    match out with
    | Cont q' => pinv c' id op q'
    | Return (Some v) => valgood id op v
    | _ => True
    end.
  Proof.
    intros Hop Hc Hq Hs. destruct q; cbn [mstep pinv] in *.
    - (* D1 *)
      destruct (Nat.eqb (fep ckey cval c) g) eqn:E; inversion Hs; subst out c'; clear Hs;
        (split; [apply stable_refl|split; [exact Hc|]]).
      + apply Nat.eqb_eq in E. destruct op; cbn [after_drop pinv]; [exact E|exact I].
      + exact I.
    - (* D2: a new empty object becomes current *)
      inversion Hs; subst out c'; clear Hs.
      assert (Hnew : clean id (cobj (mkf ckey cval (fobjs ckey cval c ++ [[]]) (length (fobjs ckey cval c))
                                         (fmax ckey cval c) (fhits ckey cval c) (fmisses ckey cval c)
                                         (fep ckey cval c)) (length (fobjs ckey cval c)))).
      { unfold obj. cbn [fobjs]. rewrite nth_snoc_dflt, nth_overflow by lia. apply clean_nil. }
      split; [|split].
      + split; [auto|]. split; [|intros _; exact Hnew].
        intros d Hd. unfold obj in *. cbn [fobjs]. rewrite nth_snoc_dflt. exact Hd.
      + intros _. exact Hnew.
      + exact Hnew.
    - (* D3: the stamp is written; the current object is clean by this thread's invariant *)
      inversion Hs; subst out c'; clear Hs. split; [|split].
      + repeat split; auto.
      + intros _. exact Hq.
      + destruct op; cbn [after_drop pinv]; [reflexivity|exact I].
    - (* G1a *)
      inversion Hs; subst out c'; clear Hs. split; [apply stable_refl|split; [exact Hc|]].
      cbn [pinv]. exact (Hc Hq).
    - (* G1b *)
      destruct op as [k|k v].
      + destruct (lookup ckey cval ckey_eqb k (cobj c d)) as [v|] eqn:El; inversion Hs; subst out c'; clear Hs;
          (split; [apply stable_refl|split; [exact Hc|]]); cbn [pinv]; [|exact I].
        intros k' E. inversion E; subst k'. exact (Hq k v (lookup_In k v _ El)).
      + inversion Hs; subst out c'; clear Hs. split; [apply stable_refl|split; [exact Hc|exact I]].
    - (* G2a *)
      inversion Hs; subst out c'; clear Hs. split; [apply stable_refl|split; [exact Hc|exact I]].
    - (* G2b *)
      inversion Hs; subst out c'; clear Hs.
      split; [apply stable_counters|split; [|exact I]].
      apply (cinv1_stable id c); [exact Hc|apply stable_counters|reflexivity].
    - (* G3a *)
      inversion Hs; subst out c'; clear Hs. split; [apply stable_refl|split; [exact Hc|exact Hq]].
    - (* G3b *)
      inversion Hs; subst out c'; clear Hs.
      split; [apply stable_counters|split; [|exact Hq]].
      apply (cinv1_stable id c); [exact Hc|apply stable_counters|reflexivity].
    - (* G4a *)
      inversion Hs; subst out c'; clear Hs. split; [apply stable_refl|split; [exact Hc|exact Hq]].
    - (* G4b: move_to_end on whatever object was read at G4a *)
      destruct op as [k|k v0].
      + destruct (lookup ckey cval ckey_eqb k (cobj c d)) as [v'|] eqn:El; inversion Hs; subst out c'; clear Hs.
        * assert (Hst : stable id c (csetobj c d (remove ckey cval ckey_eqb k (cobj c d) ++ [(k, v')]))).
          { apply stable_set_obj. intros Hd. apply clean_move; assumption. }
          split; [exact Hst|split; [|exact Hq]].
          apply (cinv1_stable id c); [exact Hc|exact Hst|reflexivity].
        * split; [apply stable_refl|split; [exact Hc|exact I]].
      + inversion Hs; subst out c'; clear Hs. split; [apply stable_refl|split; [exact Hc|exact I]].
    - (* S1a *)
      inversion Hs; subst out c'; clear Hs. split; [apply stable_refl|split; [exact Hc|exact I]].
    - (* S1b: a correct memo is written into the object read at S1a, whatever it is *)
      destruct op as [k|k v].
      + inversion Hs; subst out c'; clear Hs. split; [apply stable_refl|split; [exact Hc|exact I]].
      + inversion Hs; subst out c'; clear Hs.
        assert (Hst : stable id c (csetobj c d (assign ckey cval ckey_eqb k v (cobj c d)))).
        { apply stable_set_obj. intros Hd. apply clean_assign; assumption. }
        split; [exact Hst|split; [|exact I]].
        apply (cinv1_stable id c); [exact Hc|exact Hst|reflexivity].
    - (* S2a *)
      destruct (fmax ckey cval c) as [[|m]|]; inversion Hs; subst out c'; clear Hs;
        (split; [apply stable_refl|split; [exact Hc|exact I]]).
    - (* S2b *)
      destruct (limit_exceeded (fmax ckey cval c) (length (cobj c d))); inversion Hs; subst out c'; clear Hs;
        (split; [apply stable_refl|split; [exact Hc|exact I]]).
    - (* S3a *)
      inversion Hs; subst out c'; clear Hs. split; [apply stable_refl|split; [exact Hc|exact I]].
    - (* S3b *)
      destruct (cobj c d) as [|x r] eqn:Eo.
      + destruct grd; inversion Hs; subst out c'; clear Hs; (split; [apply stable_refl|split; [exact Hc|exact I]]).
      + inversion Hs; subst out c'; clear Hs. assert (Hst : stable id c (csetobj c d r)).
        { apply stable_set_obj. rewrite Eo. apply clean_tl. }
        split; [exact Hst|split; [|exact I]].
        apply (cinv1_stable id c); [exact Hc|exact Hst|reflexivity].
  Qed.

  (* ---------------------------------------------------------------------------------------- *)
  (* threads and schedules                                                                     *)
  (* ---------------------------------------------------------------------------------------- *)
  Definition fine_inv (st : fstate) : Prop := forall id, cinv1 id (st id).
  Definition stable_st (st st' : fstate) : Prop := forall id, stable id (st id) (st' id).

  Definition thread_ok {A : Type} (st : fstate) (Q : A -> Prop) (t : thread A) : Prop :=
    match t with
    | TCrash => True
    | TRun p q =>
      good Q p /\
      match p with
      | Ret _ => True
      | Lookup id k _ => pinv (st id) id (MGet k) q
      | Store id k v _ => pinv (st id) id (MSet k v) q
      end
    end.

  Lemma thread_ok_mono {A : Type} st st' (Q : A -> Prop) t :
    stable_st st st' -> thread_ok st Q t -> thread_ok st' Q t.
  Proof.
    intros Hst. destruct t as [p q|]; [|auto]. intros [Hg Hp]. split; [exact Hg|].
    destruct p as [a|id k c|id k v c]; [exact I| |]; exact (pinv_mono _ _ _ _ _ Hp (Hst id)).
  Qed.

  Lemma thread_ok_start {A : Type} st (Q : A -> Prop) p : good Q p -> thread_ok st Q (start p).
  Proof. intros H. split; [exact H|]. destruct p; exact I. Qed.

  Lemma good_lookup_inv {A : Type} (Q : A -> Prop) id k c : good Q (Lookup id k c) ->
    forall o, (o = None \/ exists v, o = Some v /\ gv id k v) -> good Q (c o).
  Proof. intros H. inversion H; subst. assumption. Qed.
  Lemma good_store_inv {A : Type} (Q : A -> Prop) id k v c : good Q (Store id k v c) -> gv id k v /\ good Q c.
  Proof. intros H. inversion H; subst. split; assumption. Qed.

  Lemma fine_inv_upd st id c : fine_inv st -> cinv1 id c -> fine_inv (fupd st id c).
  Proof.
    intros H Hc id'. destruct (N.eq_dec id' id) as [->|Hne]; [rewrite fupd_same; exact Hc|].
    rewrite (fupd_other st id c id' Hne). apply H.
  Qed.
  Lemma stable_st_upd st id c : stable id (st id) c -> stable_st st (fupd st id c).
  Proof.
    intros Hc id'. destruct (N.eq_dec id' id) as [->|Hne]; [rewrite fupd_same; exact Hc|].
    rewrite (fupd_other st id c id' Hne). apply stable_refl.
  Qed.

  (* one micro-step of one thread *)
  Lemma tstep_ok {A : Type} (Q : A -> Prop) st t t' st' :
    fine_inv st -> thread_ok st Q t -> tstep false grd g st t = (t', st') ->
    fine_inv st' /\ stable_st st st' /\ thread_ok st' Q t'.
  Proof.
    intros Hinv Ht Hs. destruct t as [p q|]; cbn [tstep] in Hs.
    2:{ inversion Hs; subst. split; [exact Hinv|split; [intros id; apply stable_refl|exact I]]. }
    destruct Ht as [Hg Hp]. destruct p as [a|id k c|id k v c].
    - inversion Hs; subst. split; [exact Hinv|split; [intros id; apply stable_refl|]]. split; [exact Hg|exact I].
    - destruct (cmstep false grd g (MGet k) q (st id)) as [out c'] eqn:Em.
      inversion Hs; subst t' st'; clear Hs.
      destruct (mstep_ok id (MGet k) q (st id) out c' I (Hinv id) Hp Em) as [Hst [Hc Ho]].
      split; [apply fine_inv_upd; assumption|]. split; [apply stable_st_upd; exact Hst|].
      destruct out as [q'|[v|]|].
      + split; [exact Hg|]. rewrite fupd_same. exact Ho.
      + apply thread_ok_start. apply (good_lookup_inv Q id k c Hg). right. exists v. split; [reflexivity|].
        exact (Ho k eq_refl).
      + apply thread_ok_start. apply (good_lookup_inv Q id k c Hg). left. reflexivity.
      + apply thread_ok_start. apply (good_lookup_inv Q id k c Hg). left. reflexivity.
    - destruct (good_store_inv Q id k v c Hg) as [Hv Hgc].
      destruct (cmstep false grd g (MSet k v) q (st id)) as [out c'] eqn:Em.
      inversion Hs; subst t' st'; clear Hs.
      destruct (mstep_ok id (MSet k v) q (st id) out c' Hv (Hinv id) Hp Em) as [Hst [Hc Ho]].
      split; [apply fine_inv_upd; assumption|]. split; [apply stable_st_upd; exact Hst|].
      destruct out as [q'|o|].
      + split; [exact Hg|]. rewrite fupd_same. exact Ho.
      + apply thread_ok_start. exact Hgc.
      + exact I.
  Qed.

  (* MAIN THEOREM: any schedule of micro-steps *)
  Theorem fine_sched_correct {A : Type} (Qs : list (A -> Prop)) : forall sched st pool pool' st',
    fine_inv st -> Forall2 (thread_ok st) Qs pool ->
    run_fine false grd g st pool sched = (pool', st') ->
    fine_inv st' /\ Forall2 (thread_ok st') Qs pool'.
  Proof.
    induction sched as [|t sched IH]; intros st pool pool' st' Hinv Hpool; cbn [run_fine].
    - intros H. inversion H; subst. split; assumption.
    - destruct (nth_error pool t) as [th|] eqn:En; [|apply IH; assumption].
      destruct (Forall2_nth _ Qs pool t th Hpool En) as [Q [EQ HQ]].
      destruct (tstep false grd g st th) as [th1 st1] eqn:Et.
      destruct (tstep_ok Q st th th1 st1 Hinv HQ Et) as [Hinv1 [Hst HQ1]].
      apply IH; [exact Hinv1|].
      apply (Forall2_nth_upd _ Qs pool t Q th1); [|exact EQ|exact HQ1].
      apply (Forall2_mono (thread_ok st) (thread_ok st1)); [|exact Hpool].
      intros Q0 t0. apply thread_ok_mono. exact Hst.
  Qed.

  (* a request that has completed has its post-condition, whatever the others did or did not finish *)
  Corollary fine_sched_completed {A : Type} (Qs : list (A -> Prop)) :
    forall sched st pool pool' st' t Q r q,
    fine_inv st -> Forall2 (thread_ok st) Qs pool ->
    run_fine false grd g st pool sched = (pool', st') ->
    nth_error Qs t = Some Q -> nth_error pool' t = Some (TRun (Ret r) q) -> Q r.
  Proof.
    intros sched st pool pool' st' t Q r q Hinv Hpool Hrun HQ Hr.
    destruct (fine_sched_correct Qs sched st pool pool' st' Hinv Hpool Hrun) as [_ Hpool'].
    destruct (Forall2_nth _ Qs pool' t _ Hpool' Hr) as [Q' [EQ' [Hg _]]].
    rewrite HQ in EQ'. inversion EQ'; subst Q'. inversion Hg; subst. assumption.
  Qed.

  (* the initial states of the statement *)
  Lemma fine_inv_init st :
    (forall id, fep ckey cval (st id) <> g \/ clean id (cobj (st id) (fcur ckey cval (st id)))) -> fine_inv st.
  Proof. intros H id Hg. destruct (H id) as [Hne|Hc]; [contradiction|exact Hc]. Qed.

  Lemma start_pool_ok {A : Type} st (Qs : list (A -> Prop)) (ps : list (prog A)) :
    Forall2 (fun Q p => good Q p) Qs ps -> Forall2 (thread_ok st) Qs (map start ps).
  Proof. intros H. induction H; cbn [map]; constructor; [apply thread_ok_start; assumption|assumption]. Qed.

  (* the pool of lparse requests *)
  Theorem fine_sched_requests : ids_ok_G G rep_of -> forall sched st reqs pool' st',
    fine_inv st -> Forall (req_ok rep_of) reqs ->
    run_fine false grd g st (map start (map (req_prog sh G) reqs)) sched = (pool', st') ->
    fine_inv st' /\
    forall t f e s i r q, nth_error reqs t = Some (f, e, s, i) -> nth_error pool' t = Some (TRun (Ret r) q) ->
      r <> OOF -> exists f', lparse sh G f' e s i = r.
  Proof.
    intros HG sched st reqs pool' st' Hinv Hreqs Hrun.
    pose proof (start_pool_ok st _ _ (req_pool_good sh G rep_of HG reqs Hreqs)) as Hpool. split.
    - exact (proj1 (fine_sched_correct _ sched st _ pool' st' Hinv Hpool Hrun)).
    - intros t f e s i r q Hq Hr.
      assert (HQ : nth_error (map (req_post sh G) reqs) t = Some (req_post sh G (f, e, s, i))).
      { rewrite nth_error_map, Hq. reflexivity. }
      exact (fine_sched_completed _ sched st _ pool' st' t _ r q Hinv Hpool Hrun HQ Hr).
  Qed.

  (* ... literally the result of running the same request alone with no cache at all *)
  Corollary fine_sched_run_pure : ids_ok_G G rep_of -> forall sched st reqs pool' st',
    fine_inv st -> Forall (req_ok rep_of) reqs ->
    run_fine false grd g st (map start (map (req_prog sh G) reqs)) sched = (pool', st') ->
    forall t rq r q, nth_error reqs t = Some rq -> nth_error pool' t = Some (TRun (Ret r) q) ->
      r <> OOF -> run_pure (req_prog sh G rq) <> OOF -> r = run_pure (req_prog sh G rq).
  Proof.
    intros HG sched st reqs pool' st' Hinv Hreqs Hrun t [[[f e] s] i] r q Hq Hr Hne Hp.
    destruct (proj2 (fine_sched_requests HG sched st reqs pool' st' Hinv Hreqs Hrun) t f e s i r q Hq Hr Hne)
      as [f' Hf'].
    cbn [req_prog] in *. rewrite run_pure_lparse in *.
    pose proof (EngineComplete.lparse_mono sh G f' (max f f') e s i r Hf' Hne ltac:(lia)) as H1.
    pose proof (EngineComplete.lparse_mono sh G f (max f f') e s i _ eq_refl Hp ltac:(lia)) as H2.
    congruence.
  Qed.
End FineRefine.

(* after a grammar change (epoch bump) every cache is stale: the invariant holds for ANY new grammar,
   whatever the dict objects contain *)
Theorem fine_inv_after_invalidate : forall g st, (forall id, fep ckey cval (st id) <= g) ->
  forall sh G rep_of, fine_inv sh G rep_of (S g) st.
Proof. intros g st Hep sh G rep_of id Hg. specialize (Hep id). lia. Qed.

(* ---------------------------------------------------------------------------------------------- *)
(* crash freedom without size limits (either order of D2/D3, guarded or not)                       *)
(* ---------------------------------------------------------------------------------------------- *)
Definition nolimit (st : fstate) : Prop :=
  forall id, fmax ckey cval (st id) = None \/ fmax ckey cval (st id) = Some 0.

Definition nc_ok {A : Type} (t : thread A) : Prop :=
  match t with
  | TCrash => False
  | TRun (Store _ _ _ _) q => match q with D1 | D2 | D3 | S1a | S1b _ | S2a => True | _ => False end
  | TRun _ _ => True
  end.

Lemma mstep_fmax mut grd g op q c out c' : cmstep mut grd g op q c = (out, c') -> fmax ckey cval c' = fmax ckey cval c.
Proof.
  intros H. destruct q; cbn [mstep] in H;
    repeat match type of H with
           | (if ?b then _ else _) = _ => destruct b eqn:?
           | match ?x with _ => _ end = _ => destruct x eqn:?
           end; inversion H; subst; cbn [fmax set_obj]; congruence.
Qed.

Lemma nolimit_upd st id c : nolimit st -> fmax ckey cval c = fmax ckey cval (st id) -> nolimit (fupd st id c).
Proof.
  intros H E id'. destruct (N.eq_dec id' id) as [->|Hne]; [rewrite fupd_same, E; apply H|].
  rewrite (fupd_other st id c id' Hne). apply H.
Qed.

Lemma tstep_nc {A : Type} mut grd g st (t t' : thread A) st' :
  nolimit st -> nc_ok t -> tstep mut grd g st t = (t', st') -> nolimit st' /\ nc_ok t'.
Proof.
  intros Hn Ht Hs. destruct t as [p q|]; [|destruct Ht]. destruct p as [a|id k c|id k v c]; cbn [tstep] in Hs.
  - inversion Hs; subst. split; [exact Hn|exact I].
  - destruct (cmstep mut grd g (MGet k) q (st id)) as [out c'] eqn:Em. inversion Hs; subst t' st'; clear Hs.
    split; [apply nolimit_upd; [exact Hn|exact (mstep_fmax _ _ _ _ _ _ _ _ Em)]|].
    destruct out as [q'|o|]; cbn [nc_ok]; [exact I| |]; match goal with |- context [c ?o] => destruct (c o) end; exact I.
  - destruct (cmstep mut grd g (MSet k v) q (st id)) as [out c'] eqn:Em. inversion Hs; subst t' st'; clear Hs.
    split; [apply nolimit_upd; [exact Hn|exact (mstep_fmax _ _ _ _ _ _ _ _ Em)]|].
    cbn [nc_ok] in Ht. pose proof (Hn id) as Hm.
    destruct q; try (destruct Ht); cbn [mstep] in Em.
    + destruct (Nat.eqb (fep ckey cval (st id)) g); inversion Em; subst; cbn [nc_ok]; [exact I|destruct mut; exact I].
    + inversion Em; subst; cbn [nc_ok]. destruct mut; exact I.
    + inversion Em; subst; cbn [nc_ok]. destruct mut; exact I.
    + inversion Em; subst; exact I.
    + inversion Em; subst; exact I.
    + destruct Hm as [E|E]; rewrite E in Em; inversion Em; subst; cbn [nc_ok]; destruct c; exact I.
Qed.

Theorem fine_no_crash {A : Type} mut grd g : forall sched st (pool pool' : list (thread A)) st',
  nolimit st -> Forall nc_ok pool -> run_fine mut grd g st pool sched = (pool', st') ->
  nolimit st' /\ Forall nc_ok pool'.
Proof.
  induction sched as [|t sched IH]; intros st pool pool' st' Hn Hpool; cbn [run_fine].
  - intros H. inversion H; subst. split; assumption.
  - destruct (nth_error pool t) as [th|] eqn:En; [|apply IH; assumption].
    destruct (tstep mut grd g st th) as [th1 st1] eqn:Et.
    destruct (tstep_nc mut grd g st th th1 st1 Hn (Forall_nth_error _ pool t th Hpool En) Et) as [Hn1 Ht1].
    apply IH; [exact Hn1|]. apply Forall_nth_upd; assumption.
Qed.

Corollary fine_no_crash_start {A : Type} mut grd g sched st (ps : list (prog A)) pool' st' t :
  nolimit st -> run_fine mut grd g st (map start ps) sched = (pool', st') -> nth_error pool' t <> Some TCrash.
Proof.
  intros Hn Hrun Ht.
  assert (Hps : Forall nc_ok (map (@start A) ps)).
  { clear. induction ps as [|p ps IH]; cbn [map]; constructor; [|exact IH]. destruct p; exact I. }
  destruct (fine_no_crash mut grd g sched st _ pool' st' Hn Hps Hrun) as [_ H].
  exact (Forall_nth_error _ pool' t TCrash H Ht).
Qed.

(* ---------------------------------------------------------------------------------------------- *)
(* crash freedom of the REPAIRED code: any limits, any schedule, any pool (either order of D2/D3)   *)
(* ---------------------------------------------------------------------------------------------- *)
Definition set_pc (q : pc cval) : Prop :=
  match q with D1 | D2 | D3 | S1a | S1b _ | S2a | S2b _ | S3a | S3b _ => True | _ => False end.

Definition ncg_ok {A : Type} (t : thread A) : Prop :=
  match t with
  | TCrash => False
  | TRun (Store _ _ _ _) q => set_pc q
  | TRun _ _ => True
  end.

(* __setitem__ with the guard never raises, and stays inside its own program counters *)
Lemma mstep_set_guarded mut g k v q c out c' : set_pc q -> cmstep mut true g (MSet k v) q c = (out, c') ->
  match out with Cont q' => set_pc q' | Return _ => True | RaiseKeyError => False end.
Proof.
  intros Hq H. destruct q; cbn [set_pc] in Hq; try (destruct Hq); cbn [mstep] in H;
    repeat match type of H with
           | (if ?b then _ else _) = _ => destruct b eqn:?
           | match ?x with _ => _ end = _ => destruct x eqn:?
           end; inversion H; subst; try (destruct mut); cbn [set_pc after_drop]; exact I.
Qed.

Lemma ncg_ok_start {A : Type} (p : prog A) : ncg_ok (start p).
Proof. destruct p; exact I. Qed.

Lemma tstep_ncg {A : Type} mut g st (t t' : thread A) st' :
  ncg_ok t -> tstep mut true g st t = (t', st') -> ncg_ok t'.
Proof.
  intros Ht Hs. destruct t as [p q|]; [|destruct Ht]. destruct p as [a|id k c|id k v c]; cbn [tstep] in Hs.
  - inversion Hs; subst. exact I.
  - destruct (cmstep mut true g (MGet k) q (st id)) as [out c'] eqn:Em. inversion Hs; subst t' st'; clear Hs.
    destruct out as [q'|o|]; [exact I| |]; apply (ncg_ok_start (c _)).
  - destruct (cmstep mut true g (MSet k v) q (st id)) as [out c'] eqn:Em. inversion Hs; subst t' st'; clear Hs.
    pose proof (mstep_set_guarded mut g k v q (st id) out c' Ht Em) as Ho.
    destruct out as [q'|o|]; [exact Ho|apply (ncg_ok_start c)|destruct Ho].
Qed.

Theorem fine_no_crash_guarded {A : Type} mut g : forall sched st (pool pool' : list (thread A)) st',
  Forall ncg_ok pool -> run_fine mut true g st pool sched = (pool', st') -> Forall ncg_ok pool'.
Proof.
  induction sched as [|t sched IH]; intros st pool pool' st' Hpool; cbn [run_fine].
  - intros H. inversion H; subst. assumption.
  - destruct (nth_error pool t) as [th|] eqn:En; [|apply IH; assumption].
    destruct (tstep mut true g st th) as [th1 st1] eqn:Et.
    pose proof (tstep_ncg mut g st th th1 st1 (Forall_nth_error _ pool t th Hpool En) Et) as Ht1.
    apply IH. apply Forall_nth_upd; assumption.
Qed.

Corollary fine_no_crash_guarded_start {A : Type} mut g sched st (ps : list (prog A)) pool' st' t :
  run_fine mut true g st (map start ps) sched = (pool', st') -> nth_error pool' t <> Some TCrash.
Proof.
  intros Hrun Ht.
  assert (Hps : Forall ncg_ok (map (@start A) ps)).
  { clear. induction ps as [|p ps IH]; cbn [map]; constructor; [apply ncg_ok_start|exact IH]. }
  pose proof (fine_no_crash_guarded mut g sched st _ pool' st' Hps Hrun) as H.
  exact (Forall_nth_error _ pool' t TCrash H Ht).
Qed.

(* ---------------------------------------------------------------------------------------------- *)
(* SUMMARY (C17, repaired library = D2 before D3, guarded popitem), at the granularity of single    *)
(* shared-memory accesses: for every schedule of micro-steps, every pool of lparse requests, every  *)
(* limit, every initial state in which each cache is stale (arbitrary contents) or holds only       *)
(* correct memos in its current dict object:  no request dies;  the invariant is kept;  every       *)
(* request that has completed (whatever the others did, completed or abandoned at any micro-step)   *)
(* has the answer of the pure engine, i.e. what it returns when run alone without any cache.        *)
(* ---------------------------------------------------------------------------------------------- *)
Theorem C17_fine : forall sh G rep_of g, ids_ok_G G rep_of -> forall sched st reqs pool' st',
  fine_inv sh G rep_of g st -> Forall (req_ok rep_of) reqs ->
  run_fine false true g st (map start (map (req_prog sh G) reqs)) sched = (pool', st') ->
  (forall t, nth_error pool' t <> Some TCrash) /\
  fine_inv sh G rep_of g st' /\
  forall t f e s i r q, nth_error reqs t = Some (f, e, s, i) -> nth_error pool' t = Some (TRun (Ret r) q) ->
    r <> OOF ->
    (exists f', lparse sh G f' e s i = r) /\
    (run_pure (req_prog sh G (f, e, s, i)) <> OOF -> r = run_pure (req_prog sh G (f, e, s, i))).
Proof.
  intros sh G rep_of g HG sched st reqs pool' st' Hinv Hreqs Hrun.
  split; [intros t; exact (fine_no_crash_guarded_start false g sched st _ pool' st' t Hrun)|].
  destruct (fine_sched_requests sh G rep_of g true HG sched st reqs pool' st' Hinv Hreqs Hrun) as [Hinv' Hres].
  split; [exact Hinv'|]. intros t f e s i r q Hq Hr Hne. split; [exact (Hres t f e s i r q Hq Hr Hne)|].
  exact (fine_sched_run_pure sh G rep_of g true HG sched st reqs pool' st' Hinv Hreqs Hrun t _ r q Hq Hr Hne).
Qed.

Print Assumptions fine_sched_correct.
Print Assumptions fine_sched_completed.
Print Assumptions fine_sched_requests.
Print Assumptions fine_sched_run_pure.
Print Assumptions fine_inv_after_invalidate.
Print Assumptions fine_no_crash.
Print Assumptions fine_no_crash_start.
Print Assumptions fine_no_crash_guarded.
Print Assumptions fine_no_crash_guarded_start.
Print Assumptions C17_fine.
