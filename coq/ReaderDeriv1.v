(* ReaderDeriv1.v — C04 gap, part 1: the meta-grammar rule by rule (computed from the translated table),
   inversion toolkit for derivations, character facts, and the TERMINAL lemmas
   (rulename, repeat, quoted-string / char-val, num-val, prose-val):
   every derivation of the terminal agrees with the spec reader of AbnfRead.v. *)
From Coq Require Import String Ascii List NArith Arith Bool Lia.
Import ListNotations.
From ABNF Require Import Base Engine Spec EngineSound AbnfRead Registry GenTypes Loader Bundled RfcSpec
     Tables Visit Visitor VisitorProps.

Local Open Scope list_scope.

Definition rid_meta (nm : string) : rid :=
  match rid_of (r_boot tt) 1%N nm with Some r => r | None => 0%N end.
Definition rid_core (nm : string) : rid :=
  match rid_of (r_boot tt) 0%N nm with Some r => r | None => 0%N end.

Definition G : grammar := of_list l_meta.
Definition mkrule (nm : string) (d : expr) : option rule :=
  Some {| rname := s_of nm; rdef := Some d; rexcl := None |}.

Section Defs.
Local Open Scope N_scope.
Local Ltac dd := vm_compute; reflexivity.

(* ---- rule numbers ---- *)
Lemma id_rulelist : rid_meta "rulelist" = 39. Proof. dd. Qed.
Lemma id_rule : rid_meta "rule" = 16. Proof. dd. Qed.
Lemma id_rulename : rid_meta "rulename" = 19. Proof. dd. Qed.
Lemma id_defined_as : rid_meta "defined-as" = 20. Proof. dd. Qed.
Lemma id_elements : rid_meta "elements" = 21. Proof. dd. Qed.
Lemma id_c_wsp : rid_meta "c-wsp" = 17. Proof. dd. Qed.
Lemma id_c_nl : rid_meta "c-nl" = 18. Proof. dd. Qed.
Lemma id_comment : rid_meta "comment" = 23. Proof. dd. Qed.
Lemma id_alternation : rid_meta "alternation" = 22. Proof. dd. Qed.
Lemma id_concatenation : rid_meta "concatenation" = 24. Proof. dd. Qed.
Lemma id_repetition : rid_meta "repetition" = 25. Proof. dd. Qed.
Lemma id_repeat : rid_meta "repeat" = 26. Proof. dd. Qed.
Lemma id_element : rid_meta "element" = 27. Proof. dd. Qed.
Lemma id_group : rid_meta "group" = 28. Proof. dd. Qed.
Lemma id_option : rid_meta "option" = 29. Proof. dd. Qed.
Lemma id_char_val : rid_meta "char-val" = 30. Proof. dd. Qed.
Lemma id_num_val : rid_meta "num-val" = 31. Proof. dd. Qed.
Lemma id_prose_val : rid_meta "prose-val" = 32. Proof. dd. Qed.
Lemma id_bin_val : rid_meta "bin-val" = 33. Proof. dd. Qed.
Lemma id_dec_val : rid_meta "dec-val" = 34. Proof. dd. Qed.
Lemma id_hex_val : rid_meta "hex-val" = 35. Proof. dd. Qed.
Lemma id_ci_string : rid_meta "case-insensitive-string" = 36. Proof. dd. Qed.
Lemma id_cs_string : rid_meta "case-sensitive-string" = 37. Proof. dd. Qed.
Lemma id_quoted_string : rid_meta "quoted-string" = 38. Proof. dd. Qed.
Lemma id_CR : rid_core "CR" = 0. Proof. dd. Qed.
Lemma id_LF : rid_core "LF" = 1. Proof. dd. Qed.
Lemma id_DIGIT : rid_core "DIGIT" = 2. Proof. dd. Qed.
Lemma id_WSP : rid_core "WSP" = 3. Proof. dd. Qed.
Lemma id_CRLF : rid_core "CRLF" = 4. Proof. dd. Qed.
Lemma id_SP : rid_core "SP" = 5. Proof. dd. Qed.
Lemma id_HTAB : rid_core "HTAB" = 6. Proof. dd. Qed.
Lemma id_ALPHA : rid_core "ALPHA" = 7. Proof. dd. Qed.
Lemma id_BIT : rid_core "BIT" = 8. Proof. dd. Qed.
Lemma id_DQUOTE : rid_core "DQUOTE" = 11. Proof. dd. Qed.
Lemma id_HEXDIG : rid_core "HEXDIG" = 12. Proof. dd. Qed.
Lemma id_VCHAR : rid_core "VCHAR" = 15. Proof. dd. Qed.

(* ---- the core rules that the meta-grammar uses ---- *)
Lemma def_CR : G 0 = mkrule "CR" (ELit true [13]). Proof. dd. Qed.
Lemma def_LF : G 1 = mkrule "LF" (ELit true [10]). Proof. dd. Qed.
Lemma def_DIGIT : G 2 = mkrule "DIGIT" (ERange 48 57). Proof. dd. Qed.
Lemma def_WSP : G 3 = mkrule "WSP" (EAlt false [ERef 5; ERef 6]). Proof. dd. Qed.
Lemma def_CRLF : G 4 = mkrule "CRLF" (ECat [ERef 0; ERef 1]). Proof. dd. Qed.
Lemma def_SP : G 5 = mkrule "SP" (ELit true [32]). Proof. dd. Qed.
Lemma def_HTAB : G 6 = mkrule "HTAB" (ELit true [9]). Proof. dd. Qed.
Lemma def_ALPHA : G 7 = mkrule "ALPHA" (EAlt false [ERange 65 90; ERange 97 122]). Proof. dd. Qed.
Lemma def_BIT : G 8 = mkrule "BIT" (EAlt false [ELit false [48]; ELit false [49]]). Proof. dd. Qed.
Lemma def_DQUOTE : G 11 = mkrule "DQUOTE" (ELit true [34]). Proof. dd. Qed.
Lemma def_HEXDIG : G 12 = mkrule "HEXDIG"
  (EAlt false [ERef 2; ELit false [65]; ELit false [66]; ELit false [67]; ELit false [68]; ELit false [69];
               ELit false [70]]). Proof. dd. Qed.
Lemma def_VCHAR : G 15 = mkrule "VCHAR" (ERange 33 126). Proof. dd. Qed.

(* ---- the 24 rules of the meta-grammar (RFC 5234 section 4 + RFC 7405) ---- *)
Lemma def_rule : G 16 = mkrule "rule" (ECat [ERef 19; ERef 20; ERef 21; ERef 18]). Proof. dd. Qed.
Lemma def_c_wsp : G 17 = mkrule "c-wsp" (EAlt false [ERef 3; ECat [ERef 18; ERef 3]]). Proof. dd. Qed.
Lemma def_c_nl : G 18 = mkrule "c-nl" (EAlt false [ERef 23; ERef 4]). Proof. dd. Qed.
Lemma def_rulename : G 19 = mkrule "rulename"
  (ECat [ERef 7; ERep 3 0 None (EAlt false [ERef 7; ERef 2; ELit false [45]])]). Proof. dd. Qed.
Lemma def_defined_as : G 20 = mkrule "defined-as"
  (ECat [ERep 4 0 None (ERef 17); EAlt false [ELit false [61; 47]; ELit false [61]]; ERep 5 0 None (ERef 17)]).
Proof. dd. Qed.
Lemma def_elements : G 21 = mkrule "elements" (ECat [ERef 22; ERep 6 0 None (ERef 17)]). Proof. dd. Qed.
Lemma def_alternation : G 22 = mkrule "alternation"
  (ECat [ERef 24;
         ERep 10 0 None (ECat [ERep 8 0 None (ERef 17); ELit false [47]; ERep 9 0 None (ERef 17); ERef 24])]).
Proof. dd. Qed.
Lemma def_comment : G 23 = mkrule "comment"
  (ECat [ELit false [59]; ERep 7 0 None (EAlt false [ERef 3; ERef 15]); ERef 4]). Proof. dd. Qed.
Lemma def_concatenation : G 24 = mkrule "concatenation"
  (ECat [ERef 25; ERep 12 0 None (ECat [ERep 11 1 None (ERef 17); ERef 25])]). Proof. dd. Qed.
Lemma def_repetition : G 25 = mkrule "repetition" (ECat [ERep 13 0 (Some 1%nat) (ERef 26); ERef 27]).
Proof. dd. Qed.
Lemma def_repeat : G 26 = mkrule "repeat"
  (EAlt false [ECat [ERep 14 0 None (ERef 2); ELit false [42]; ERep 15 0 None (ERef 2)];
               ERep 16 1 None (ERef 2)]). Proof. dd. Qed.
Lemma def_element : G 27 = mkrule "element"
  (EAlt false [ERef 19; ERef 28; ERef 29; ERef 30; ERef 31; ERef 32]). Proof. dd. Qed.
Lemma def_group : G 28 = mkrule "group"
  (ECat [ELit false [40]; ERep 17 0 None (ERef 17); ERef 22; ERep 18 0 None (ERef 17); ELit false [41]]).
Proof. dd. Qed.
Lemma def_option : G 29 = mkrule "option"
  (ECat [ELit false [91]; ERep 19 0 None (ERef 17); ERef 22; ERep 20 0 None (ERef 17); ELit false [93]]).
Proof. dd. Qed.
Lemma def_char_val : G 30 = mkrule "char-val" (EAlt false [ERef 36; ERef 37]). Proof. dd. Qed.
Lemma def_num_val : G 31 = mkrule "num-val"
  (ECat [ELit false [37]; EAlt false [ERef 33; ERef 34; ERef 35]]). Proof. dd. Qed.
Lemma def_prose_val : G 32 = mkrule "prose-val"
  (ECat [ELit false [60]; ERep 36 0 None (EAlt false [ERange 32 61; ERange 63 126]); ELit false [62]]).
Proof. dd. Qed.
(* bin-val / dec-val / hex-val = L ( 1*D [ 1*("." 1*D) / ("-" 1*D) ] ) *)
Definition val_body (l : cp) (a b c d e : N) (dg : rid) : expr :=
  ECat [ELit false [l];
        ECat [ERep a 1 None (ERef dg);
              ERep e 0 (Some 1%nat)
                (EAlt false [ERep c 1 None (ECat [ELit false [46]; ERep b 1 None (ERef dg)]);
                             ECat [ELit false [45]; ERep d 1 None (ERef dg)]])]].
Lemma def_bin_val : G 33 = mkrule "bin-val" (val_body 98 21 22 23 24 25 8). Proof. dd. Qed.
Lemma def_dec_val : G 34 = mkrule "dec-val" (val_body 100 26 27 28 29 30 2). Proof. dd. Qed.
Lemma def_hex_val : G 35 = mkrule "hex-val" (val_body 120 31 32 33 34 35 12). Proof. dd. Qed.
Lemma def_ci_string : G 36 = mkrule "case-insensitive-string"
  (ECat [ERep 37 0 (Some 1%nat) (ELit false [37; 105]); ERef 38]). Proof. dd. Qed.
Lemma def_cs_string : G 37 = mkrule "case-sensitive-string" (ECat [ELit false [37; 115]; ERef 38]).
Proof. dd. Qed.
Lemma def_quoted_string : G 38 = mkrule "quoted-string"
  (ECat [ERef 11; ERep 38 0 None (EAlt false [ERange 32 33; ERange 35 126]); ERef 11]). Proof. dd. Qed.
Lemma def_rulelist : G 39 = mkrule "rulelist"
  (ERep 2 1 None (EAlt false [ERef 16; ECat [ERep 1 0 None (ERef 17); ERef 18]])). Proof. dd. Qed.

End Defs.
Opaque l_meta r_boot G.

(* ------------------------------------------------------------------------------------------ *)
(** * Inversion toolkit *)
Lemma rev'_rev {A} (l : list A) : rev' l = rev l.
Proof. unfold rev'. rewrite rev_alt. reflexivity. Qed.

Lemma nvalue_Nd nm ch : nvalue (Nd nm ch) = flat_map nvalue ch.
Proof. reflexivity. Qed.
Lemma nvalue_Leaf v o l : nvalue (Leaf v o l) = v.
Proof. reflexivity. Qed.
Lemma nsvalue_app a b : nsvalue (a ++ b) = nsvalue a ++ nsvalue b.
Proof. unfold nsvalue. apply flat_map_app. Qed.
Lemma nsvalue_one n : nsvalue [n] = nvalue n.
Proof. unfold nsvalue. cbn [flat_map]. apply app_nil_r. Qed.
Lemma nsvalue_nil : nsvalue [] = [].
Proof. reflexivity. Qed.
Lemma nsvalue_cons n l : nsvalue (n :: l) = nvalue n ++ nsvalue l.
Proof. reflexivity. Qed.

(* fold_cp: the letters are the only characters with two spellings *)
Lemma fold_cp_inv c k : fold_cp c = k ->
  c = k \/ ((97 <= k)%N /\ (k <= 122)%N /\ c = (k - 32)%N).
Proof.
  unfold fold_cp. destruct (N.leb_spec 65 c); destruct (N.leb_spec c 90); cbn [andb]; intros <-;
    try (left; reflexivity). right. repeat split; lia.
Qed.
Lemma fold_cp_nonletter c k : fold_cp c = k -> ((k <? 97) || (122 <? k))%N = true -> c = k.
Proof.
  intros H Hk. destruct (fold_cp_inv c k H) as [E|(A & B & _)]; [exact E|].
  apply orb_true_iff in Hk. destruct Hk as [Hk|Hk]; apply N.ltb_lt in Hk; lia.
Qed.

Section Inv.
  Variable s : str.
  Definition sk (i : nat) : str := skipn i s.

  Lemma sk_len i : length (sk i) = length s - i.
  Proof. unfold sk. apply skipn_length. Qed.
  Lemma sk_nth i c : nth_error s i = Some c -> sk i = c :: sk (i + 1).
  Proof.
    unfold sk. revert i. induction s as [|x r IH]; intros [|i] H; cbn in H; try discriminate.
    - injection H as ->. reflexivity.
    - cbn [skipn]. apply IH. exact H.
  Qed.
  Lemma sk_slice i n : i + n <= length s -> sk i = slice s i n ++ sk (i + n) /\ length (slice s i n) = n.
  Proof.
    intros H. split.
    - unfold sk, slice. rewrite skipn_add_. symmetry. apply firstn_skipn.
    - apply slice_length. exact H.
  Qed.
  Lemma sk_end i : length s <= i -> sk i = [].
  Proof. intros H. unfold sk. apply skipn_all2. exact H. Qed.

  Lemma D_cat_inv e es i ns k : D G s (ECat (e :: es)) i ns k ->
    exists j n1 n2, ns = n1 ++ n2 /\ D G s e i n1 j /\ D G s (ECat es) j n2 k.
  Proof. intros H. inversion H; subst. eauto 8. Qed.
  Lemma D_cat_nil_inv i ns k : D G s (ECat []) i ns k -> ns = [] /\ k = i.
  Proof. intros H. inversion H; subst. split; reflexivity. Qed.
  Lemma D_cat1_inv a i ns k : D G s (ECat [a]) i ns k -> D G s a i ns k.
  Proof.
    intros H. destruct (D_cat_inv _ _ _ _ _ H) as (j & n1 & n2 & -> & H1 & H2).
    apply D_cat_nil_inv in H2. destruct H2 as [-> ->]. rewrite app_nil_r. exact H1.
  Qed.
  Lemma D_cat2_inv a b i ns k : D G s (ECat [a; b]) i ns k ->
    exists j n1 n2, ns = n1 ++ n2 /\ D G s a i n1 j /\ D G s b j n2 k.
  Proof.
    intros H. destruct (D_cat_inv _ _ _ _ _ H) as (j & n1 & n2 & -> & H1 & H2).
    apply D_cat1_inv in H2. eauto 8.
  Qed.
  Lemma D_cat3_inv a b c i ns k : D G s (ECat [a; b; c]) i ns k ->
    exists j1 j2 n1 n2 n3, ns = n1 ++ n2 ++ n3 /\ D G s a i n1 j1 /\ D G s b j1 n2 j2 /\ D G s c j2 n3 k.
  Proof.
    intros H. destruct (D_cat_inv _ _ _ _ _ H) as (j & n1 & n2 & -> & H1 & H2).
    apply D_cat2_inv in H2. destruct H2 as (j2 & m1 & m2 & -> & H2 & H3). eauto 12.
  Qed.
  Lemma D_cat4_inv a b c d i ns k : D G s (ECat [a; b; c; d]) i ns k ->
    exists j1 j2 j3 n1 n2 n3 n4, ns = n1 ++ n2 ++ n3 ++ n4 /\
      D G s a i n1 j1 /\ D G s b j1 n2 j2 /\ D G s c j2 n3 j3 /\ D G s d j3 n4 k.
  Proof.
    intros H. destruct (D_cat_inv _ _ _ _ _ H) as (j & n1 & n2 & -> & H1 & H2).
    apply D_cat3_inv in H2. destruct H2 as (j2 & j3 & m1 & m2 & m3 & -> & H2 & H3 & H4).
    exists j, j2, j3, n1, m1, m2, m3. auto.
  Qed.
  Lemma D_cat5_inv a b c d e i ns k : D G s (ECat [a; b; c; d; e]) i ns k ->
    exists j1 j2 j3 j4 n1 n2 n3 n4 n5, ns = n1 ++ n2 ++ n3 ++ n4 ++ n5 /\
      D G s a i n1 j1 /\ D G s b j1 n2 j2 /\ D G s c j2 n3 j3 /\ D G s d j3 n4 j4 /\ D G s e j4 n5 k.
  Proof.
    intros H. destruct (D_cat_inv _ _ _ _ _ H) as (j & n1 & n2 & -> & H1 & H2).
    apply D_cat4_inv in H2. destruct H2 as (j2 & j3 & j4 & m1 & m2 & m3 & m4 & -> & H2 & H3 & H4 & H5).
    exists j, j2, j3, j4, n1, m1, m2, m3, m4. auto 10.
  Qed.

  Lemma D_alt_inv fm es i ns j : D G s (EAlt fm es) i ns j -> exists e, In e es /\ D G s e i ns j.
  Proof. intros H. inversion H; subst. eauto. Qed.
  Lemma D_rep_inv id mn mx e i ns j : D G s (ERep id mn mx e) i ns j ->
    exists n, DI G s e n i ns j /\ mn <= n /\ (forall m, mx = Some m -> n <= m).
  Proof. intros H. inversion H; subst. eauto. Qed.
  Lemma D_ref_inv r nm d i ns j : G r = mkrule nm d -> D G s (ERef r) i ns j ->
    exists ch, ns = [Nd (s_of nm) ch] /\ D G s d i ch j.
  Proof.
    intros HG H. inversion H as [| | | | | |r0 ru d0 i0 j0 ns0 HG' Hd HD]; subst.
    rewrite HG in HG'. unfold mkrule in HG'. injection HG' as <-. cbn in Hd. injection Hd as <-.
    cbn [rname]. eauto.
  Qed.
  Lemma DI_0_inv e i ns j : DI G s e 0 i ns j -> ns = [] /\ j = i.
  Proof. intros H. inversion H; subst. split; reflexivity. Qed.
  Lemma DI_S_inv e n i ns k : DI G s e (S n) i ns k ->
    exists j n1 n2, ns = n1 ++ n2 /\ D G s e i n1 j /\ DI G s e n j n2 k.
  Proof. intros H. inversion H; subst. eauto 8. Qed.
  (* an option: zero or one *)
  Lemma D_opt_inv id e i ns j : D G s (ERep id 0 (Some 1) e) i ns j ->
    (ns = [] /\ j = i) \/ D G s e i ns j.
  Proof.
    intros H. apply D_rep_inv in H. destruct H as (n & H & _ & Hmx). specialize (Hmx 1 eq_refl).
    destruct n as [|[|n]]; [|clear Hmx|lia].
    - left. apply DI_0_inv in H. exact H.
    - right. apply DI_S_inv in H. destruct H as (k & n1 & n2 & -> & H1 & H2).
      apply DI_0_inv in H2. destruct H2 as [-> ->]. rewrite app_nil_r. exact H1.
  Qed.

  (* literals and ranges *)
  Lemma D_lit_inv cs v i ns j : D G s (ELit cs v) i ns j ->
    exists w, ns = [Leaf w i (length v)] /\ j = i + length v /\ sk i = w ++ sk j /\
              length w = length v /\ (if cs then w = v else fold_str w = fold_str v).
  Proof.
    intros H. inversion H as [cs0 v0 i0 [Hle Hc]| | | | | |]; subst.
    destruct (sk_slice i (length v) Hle) as [E L]. exists (slice s i (length v)).
    repeat split; auto.
  Qed.
  Lemma D_lit1_inv cs k i ns j : D G s (ELit cs [k]) i ns j ->
    exists c, ns = [Leaf [c] i 1] /\ j = i + 1 /\ sk i = c :: sk j /\
              (if cs then c = k else fold_cp c = fold_cp k).
  Proof.
    intros H. apply D_lit_inv in H. destruct H as (w & -> & -> & E & L & Hc). cbn [length] in *.
    destruct w as [|c [|c' w]]; try discriminate. exists c. repeat split; auto.
    destruct cs; [injection Hc as ->; reflexivity|]. cbn in Hc. injection Hc as Hc. exact Hc.
  Qed.
  Lemma D_lit2_inv cs k1 k2 i ns j : D G s (ELit cs [k1; k2]) i ns j ->
    exists c1 c2, ns = [Leaf [c1; c2] i 2] /\ j = i + 2 /\ sk i = c1 :: c2 :: sk j /\
              (if cs then c1 = k1 /\ c2 = k2 else fold_cp c1 = fold_cp k1 /\ fold_cp c2 = fold_cp k2).
  Proof.
    intros H. apply D_lit_inv in H. destruct H as (w & -> & -> & E & L & Hc). cbn [length] in *.
    destruct w as [|c1 [|c2 [|c' w]]]; try discriminate. exists c1, c2. repeat split; auto.
    destruct cs; [injection Hc as -> ->; split; reflexivity|]. cbn in Hc. injection Hc as H1 H2. split; assumption.
  Qed.
  (* a case-insensitive one-character literal that is not a letter *)
  Lemma D_sym_inv k i ns j : ((k <? 65) || (122 <? k) || ((90 <? k) && (k <? 97)))%N = true ->
    D G s (ELit false [k]) i ns j -> ns = [Leaf [k] i 1] /\ j = i + 1 /\ sk i = k :: sk j.
  Proof.
    intros Hk H. apply D_lit1_inv in H. destruct H as (c & -> & -> & E & Hc).
    assert (Hf : fold_cp k = k).
    { unfold fold_cp. destruct (N.leb_spec 65 k); destruct (N.leb_spec k 90); cbn [andb]; try reflexivity.
      exfalso. apply orb_true_iff in Hk. destruct Hk as [Hk|Hk].
      - apply orb_true_iff in Hk. destruct Hk as [Hk|Hk]; apply N.ltb_lt in Hk; lia.
      - apply andb_true_iff in Hk. destruct Hk as [Hk _]. apply N.ltb_lt in Hk. lia. }
    rewrite Hf in Hc. assert (c = k).
    { apply (fold_cp_nonletter c k Hc). apply orb_true_iff in Hk. destruct Hk as [Hk|Hk].
      - apply orb_true_iff in Hk. destruct Hk as [Hk|Hk]; apply N.ltb_lt in Hk; apply orb_true_iff;
          [left|right]; apply N.ltb_lt; lia.
      - apply andb_true_iff in Hk. destruct Hk as [_ Hk]. rewrite Hk. reflexivity. }
    subst c. auto.
  Qed.
  Lemma D_range_inv lo hi i ns j : D G s (ERange lo hi) i ns j ->
    exists c, ns = [Leaf [c] i 1] /\ j = i + 1 /\ sk i = c :: sk j /\ (lo <= c)%N /\ (c <= hi)%N.
  Proof.
    intros H. inversion H; subst. exists c. repeat split; auto. apply sk_nth. assumption.
  Qed.
End Inv.

(* ------------------------------------------------------------------------------------------ *)
(** * Reader primitives on explicit texts *)
Definition nofirst (p : cp -> bool) (r : str) : Prop :=
  match r with c :: _ => p c = false | [] => True end.

Lemma span__app p vs r : Forall (fun c => p c = true) vs -> nofirst p r ->
  forall acc, span_ p acc (vs ++ r) = (rev acc ++ vs, r).
Proof.
  intros HF Hr. induction HF as [|c vs Hc _ IH]; intros acc.
  - cbn [app]. rewrite app_nil_r. destruct r as [|c r]; cbn [span_].
    + rewrite rev'_rev. reflexivity.
    + cbn in Hr. rewrite Hr, rev'_rev. reflexivity.
  - cbn [app span_]. rewrite Hc, IH. cbn [rev]. rewrite <- app_assoc. reflexivity.
Qed.
Lemma span_app p vs r : Forall (fun c => p c = true) vs -> nofirst p r -> span p (vs ++ r) = (vs, r).
Proof. intros HF Hr. unfold span. rewrite (span__app p vs r HF Hr []). reflexivity. Qed.

Lemma Forall_forallb {A} (p : A -> bool) l : Forall (fun c => p c = true) l -> forallb p l = true.
Proof. intros H. induction H; cbn; [reflexivity|]. rewrite H, IHForall. reflexivity. Qed.

(* the follow set of an element: what can come after a repetition in a derivation *)
Definition is_follow (c : cp) : bool :=
  is 32 c || is 9 c || is 59 c || is 13 c || is 47 c || is 41 c || is 93 c.
Definition fol (r : str) : Prop := match r with c :: _ => is_follow c = true | [] => True end.
Definition is_hexch (c : cp) : bool := is_digit c || between 65 70 c || between 97 102 c.

Lemma is_follow_cases c : is_follow c = true ->
  c = 32%N \/ c = 9%N \/ c = 59%N \/ c = 13%N \/ c = 47%N \/ c = 41%N \/ c = 93%N.
Proof.
  unfold is_follow, is. intros H.
  repeat (apply orb_true_iff in H; destruct H as [H|H]); apply N.eqb_eq in H; subst; auto 10.
Qed.
Ltac follow_cases H :=
  apply is_follow_cases in H;
  destruct H as [H|[H|[H|[H|[H|[H|H]]]]]]; subst.

Lemma fol_nofirst (p : cp -> bool) r :
  (forall c, is_follow c = true -> p c = false) -> fol r -> nofirst p r.
Proof. intros Hp. destruct r as [|c r]; cbn; [trivial|]. apply Hp. Qed.
Lemma follow_namechar c : is_follow c = true -> is_namechar c = false.
Proof. intros H. follow_cases H; reflexivity. Qed.
Lemma follow_numch c : is_follow c = true -> (is_hexch c || is 46 c || is 45 c) = false.
Proof. intros H. follow_cases H; reflexivity. Qed.

(* digits *)
Lemma rd_digit_ok b c : (b = 2 \/ b = 10 \/ b = 16)%N -> digit_ok b c = true ->
  AbnfRead.digit_val b c = Some (digit_of c).
Proof.
  intros Hb H. unfold digit_ok in H. unfold AbnfRead.digit_val, is_digit, between, digit_of.
  destruct Hb as [ -> | [ -> | -> ] ]; cbn [N.eqb Pos.eqb] in H; unfold is_bit, is_hex, is_dec in H;
    cmp_cases; try (exfalso; lia);
    repeat match goal with |- context [N.ltb ?a ?b] => destruct (N.ltb_spec a b) end;
    try (exfalso; lia); try (f_equal; lia).
Qed.
Lemma rd_digit_none b c : is_hexch c = false -> AbnfRead.digit_val b c = None.
Proof.
  unfold is_hexch, AbnfRead.digit_val. intros H. apply orb_false_iff in H. destruct H as [H H3].
  apply orb_false_iff in H. destruct H as [H1 H2]. rewrite H1, H2, H3. reflexivity.
Qed.
Lemma rd_digit10_none c : is_digit c = false -> AbnfRead.digit_val 10 c = None.
Proof.
  unfold AbnfRead.digit_val. intros H. rewrite H. unfold between.
  destruct (N.leb_spec 65 c); destruct (N.leb_spec c 70); cbn [andb].
  - destruct (N.ltb_spec (c - 65 + 10) 10); [lia|reflexivity].
  - destruct (N.leb_spec 97 c); destruct (N.leb_spec c 102); cbn [andb]; try reflexivity.
    destruct (N.ltb_spec (c - 97 + 10) 10); [lia|reflexivity].
  - destruct (N.leb_spec 97 c); destruct (N.leb_spec c 102); cbn [andb]; try reflexivity.
    destruct (N.ltb_spec (c - 97 + 10) 10); [lia|reflexivity].
  - destruct (N.leb_spec 97 c); destruct (N.leb_spec c 102); cbn [andb]; try reflexivity.
    destruct (N.ltb_spec (c - 97 + 10) 10); [lia|reflexivity].
Qed.

Definition nodigit (b : N) (r : str) : Prop :=
  match r with c :: _ => AbnfRead.digit_val b c = None | [] => True end.

Lemma number__spec b ds r : (b = 2 \/ b = 10 \/ b = 16)%N ->
  Forall (fun c => digit_ok b c = true) ds -> nodigit b r ->
  forall acc, number_ b acc (ds ++ r) = ((acc * b ^ N.of_nat (length ds) + pos_val b ds)%N, r).
Proof.
  intros Hb HF Hr. induction HF as [|d ds Hd _ IH]; intros acc.
  - cbn [app length pos_val]. replace (acc * b ^ N.of_nat 0 + 0)%N with acc by (cbn; lia).
    destruct r as [|c r]; cbn [number_]; [reflexivity|]. cbn in Hr. rewrite Hr. reflexivity.
  - cbn [app number_]. rewrite (rd_digit_ok b d Hb Hd), IH. f_equal.
    cbn [length pos_val]. rewrite Nat2N.inj_succ, N.pow_succ_r'. ring.
Qed.
Lemma number_spec b ds r : (b = 2 \/ b = 10 \/ b = 16)%N ->
  Forall (fun c => digit_ok b c = true) ds -> ds <> [] -> nodigit b r ->
  number b (ds ++ r) = Some (pos_val b ds, r).
Proof.
  intros Hb HF Hne Hr. destruct ds as [|d ds]; [contradiction|]. inversion HF as [|x l Hd HF']; subst.
  cbn [app number]. rewrite (rd_digit_ok b d Hb Hd), (number__spec b ds r Hb HF' Hr). reflexivity.
Qed.
Lemma number_none b r : nodigit b r -> number b r = None.
Proof. destruct r as [|c r]; cbn; [reflexivity|]. intros ->. reflexivity. Qed.

Lemma opt_count_spec ds r : Forall (fun c => digit_ok 10 c = true) ds -> nodigit 10 r ->
  opt_count (ds ++ r) = (opt_dec ds, r).
Proof.
  intros HF Hr. unfold opt_count. destruct ds as [|d ds].
  - cbn [app]. rewrite (number_none 10 r Hr). reflexivity.
  - rewrite (number_spec 10 (d :: ds) r) by (auto; discriminate). reflexivity.
Qed.

Print Assumptions def_rulelist.
Print Assumptions def_hex_val.
Print Assumptions D_ref_inv.
Print Assumptions number_spec.
