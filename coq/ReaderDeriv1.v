(* ReaderDeriv1.v — C04 gap, part 1: the meta-grammar rule by rule (computed from the translated table),
   inversion toolkit for derivations, character facts, and the TERMINAL lemmas
   (rulename, repeat, quoted-string / char-val, num-val, prose-val):
   every derivation of the terminal agrees with the spec reader of AbnfRead.v. *)
From Coq Require Import String Ascii List NArith Arith Bool Lia.
Import ListNotations.
From ABNF Require Import Base Engine Spec EngineSound AbnfRead Registry GenTypes Loader Bundled RfcSpec
     Tables Visit Visitor VisitorProps.

Definition rid_meta (nm : string) : rid :=
  match rid_of (r_boot tt) 1%N nm with Some r => r | None => 0%N end.
Definition rid_core (nm : string) : rid :=
  match rid_of (r_boot tt) 0%N nm with Some r => r | None => 0%N end.

Definition G : grammar := of_list l_meta.
Definition mkrule (nm : string) (d : expr) : option rule :=
  Some {| rname := s_of nm; rdef := Some d; rexcl := None |}.

Local Open Scope N_scope.
Local Ltac dd := vm_compute; reflexivity.

(* ---- rule numbers ---- *)
Lemma id_rulelist : rid_meta "rulelist" = 39. Proof. dd. Qed.
Lemma id_rule : rid_meta "rule" = 16. Proof. dd. Qed.
Lemma id_rulename : rid_meta "rulename" = 19. Proof. dd. Qed.
Lemma id_defined_as : rid_meta "defined-as" = 20. Proof. dd. Qed.
Lemma id_elements : rid_meta "elements" = 21. Proof. dd. Qed.
Lemma id_c_wsp : rid_meta "c-wsp" = 17. Proof. dd. Qed.
Lemma id_c_nl : rid_meta "c-nl" = 18. Proof. dd. Qed.
Lemma id_comment : rid_meta "comment" = 23. Proof. dd. Qed.
Lemma id_alternation : rid_meta "alternation" = 22. Proof. dd. Qed.
Lemma id_concatenation : rid_meta "concatenation" = 24. Proof. dd. Qed.
Lemma id_repetition : rid_meta "repetition" = 25. Proof. dd. Qed.
Lemma id_repeat : rid_meta "repeat" = 26. Proof. dd. Qed.
Lemma id_element : rid_meta "element" = 27. Proof. dd. Qed.
Lemma id_group : rid_meta "group" = 28. Proof. dd. Qed.
Lemma id_option : rid_meta "option" = 29. Proof. dd. Qed.
Lemma id_char_val : rid_meta "char-val" = 30. Proof. dd. Qed.
Lemma id_num_val : rid_meta "num-val" = 31. Proof. dd. Qed.
Lemma id_prose_val : rid_meta "prose-val" = 32. Proof. dd. Qed.
Lemma id_bin_val : rid_meta "bin-val" = 33. Proof. dd. Qed.
Lemma id_dec_val : rid_meta "dec-val" = 34. Proof. dd. Qed.
Lemma id_hex_val : rid_meta "hex-val" = 35. Proof. dd. Qed.
Lemma id_ci_string : rid_meta "case-insensitive-string" = 36. Proof. dd. Qed.
Lemma id_cs_string : rid_meta "case-sensitive-string" = 37. Proof. dd. Qed.
Lemma id_quoted_string : rid_meta "quoted-string" = 38. Proof. dd. Qed.
Lemma id_CR : rid_core "CR" = 0. Proof. dd. Qed.
Lemma id_LF : rid_core "LF" = 1. Proof. dd. Qed.
Lemma id_DIGIT : rid_core "DIGIT" = 2. Proof. dd. Qed.
Lemma id_WSP : rid_core "WSP" = 3. Proof. dd. Qed.
Lemma id_CRLF : rid_core "CRLF" = 4. Proof. dd. Qed.
Lemma id_SP : rid_core "SP" = 5. Proof. dd. Qed.
Lemma id_HTAB : rid_core "HTAB" = 6. Proof. dd. Qed.
Lemma id_ALPHA : rid_core "ALPHA" = 7. Proof. dd. Qed.
Lemma id_BIT : rid_core "BIT" = 8. Proof. dd. Qed.
Lemma id_DQUOTE : rid_core "DQUOTE" = 11. Proof. dd. Qed.
Lemma id_HEXDIG : rid_core "HEXDIG" = 12. Proof. dd. Qed.
Lemma id_VCHAR : rid_core "VCHAR" = 15. Proof. dd. Qed.

(* ---- the core rules that the meta-grammar uses ---- *)
Lemma def_CR : G 0 = mkrule "CR" (ELit true [13]). Proof. dd. Qed.
Lemma def_LF : G 1 = mkrule "LF" (ELit true [10]). Proof. dd. Qed.
Lemma def_DIGIT : G 2 = mkrule "DIGIT" (ERange 48 57). Proof. dd. Qed.
Lemma def_WSP : G 3 = mkrule "WSP" (EAlt false [ERef 5; ERef 6]). Proof. dd. Qed.
Lemma def_CRLF : G 4 = mkrule "CRLF" (ECat [ERef 0; ERef 1]). Proof. dd. Qed.
Lemma def_SP : G 5 = mkrule "SP" (ELit true [32]). Proof. dd. Qed.
Lemma def_HTAB : G 6 = mkrule "HTAB" (ELit true [9]). Proof. dd. Qed.
Lemma def_ALPHA : G 7 = mkrule "ALPHA" (EAlt false [ERange 65 90; ERange 97 122]). Proof. dd. Qed.
Lemma def_BIT : G 8 = mkrule "BIT" (EAlt false [ELit false [48]; ELit false [49]]). Proof. dd. Qed.
Lemma def_DQUOTE : G 11 = mkrule "DQUOTE" (ELit true [34]). Proof. dd. Qed.
Lemma def_HEXDIG : G 12 = mkrule "HEXDIG"
  (EAlt false [ERef 2; ELit false [65]; ELit false [66]; ELit false [67]; ELit false [68]; ELit false [69];
               ELit false [70]]). Proof. dd. Qed.
Lemma def_VCHAR : G 15 = mkrule "VCHAR" (ERange 33 126). Proof. dd. Qed.

(* ---- the 24 rules of the meta-grammar (RFC 5234 section 4 + RFC 7405) ---- *)
Lemma def_rule : G 16 = mkrule "rule" (ECat [ERef 19; ERef 20; ERef 21; ERef 18]). Proof. dd. Qed.
Lemma def_c_wsp : G 17 = mkrule "c-wsp" (EAlt false [ERef 3; ECat [ERef 18; ERef 3]]). Proof. dd. Qed.
Lemma def_c_nl : G 18 = mkrule "c-nl" (EAlt false [ERef 23; ERef 4]). Proof. dd. Qed.
Lemma def_rulename : G 19 = mkrule "rulename"
  (ECat [ERef 7; ERep 3 0 None (EAlt false [ERef 7; ERef 2; ELit false [45]])]). Proof. dd. Qed.
Lemma def_defined_as : G 20 = mkrule "defined-as"
  (ECat [ERep 4 0 None (ERef 17); EAlt false [ELit false [61; 47]; ELit false [61]]; ERep 5 0 None (ERef 17)]).
Proof. dd. Qed.
Lemma def_elements : G 21 = mkrule "elements" (ECat [ERef 22; ERep 6 0 None (ERef 17)]). Proof. dd. Qed.
Lemma def_alternation : G 22 = mkrule "alternation"
  (ECat [ERef 24;
         ERep 10 0 None (ECat [ERep 8 0 None (ERef 17); ELit false [47]; ERep 9 0 None (ERef 17); ERef 24])]).
Proof. dd. Qed.
Lemma def_comment : G 23 = mkrule "comment"
  (ECat [ELit false [59]; ERep 7 0 None (EAlt false [ERef 3; ERef 15]); ERef 4]). Proof. dd. Qed.
Lemma def_concatenation : G 24 = mkrule "concatenation"
  (ECat [ERef 25; ERep 12 0 None (ECat [ERep 11 1 None (ERef 17); ERef 25])]). Proof. dd. Qed.
Lemma def_repetition : G 25 = mkrule "repetition" (ECat [ERep 13 0 (Some 1%nat) (ERef 26); ERef 27]).
Proof. dd. Qed.
Lemma def_repeat : G 26 = mkrule "repeat"
  (EAlt false [ECat [ERep 14 0 None (ERef 2); ELit false [42]; ERep 15 0 None (ERef 2)];
               ERep 16 1 None (ERef 2)]). Proof. dd. Qed.
Lemma def_element : G 27 = mkrule "element"
  (EAlt false [ERef 19; ERef 28; ERef 29; ERef 30; ERef 31; ERef 32]). Proof. dd. Qed.
Lemma def_group : G 28 = mkrule "group"
  (ECat [ELit false [40]; ERep 17 0 None (ERef 17); ERef 22; ERep 18 0 None (ERef 17); ELit false [41]]).
Proof. dd. Qed.
Lemma def_option : G 29 = mkrule "option"
  (ECat [ELit false [91]; ERep 19 0 None (ERef 17); ERef 22; ERep 20 0 None (ERef 17); ELit false [93]]).
Proof. dd. Qed.
Lemma def_char_val : G 30 = mkrule "char-val" (EAlt false [ERef 36; ERef 37]). Proof. dd. Qed.
Lemma def_num_val : G 31 = mkrule "num-val"
  (ECat [ELit false [37]; EAlt false [ERef 33; ERef 34; ERef 35]]). Proof. dd. Qed.
Lemma def_prose_val : G 32 = mkrule "prose-val"
  (ECat [ELit false [60]; ERep 36 0 None (EAlt false [ERange 32 61; ERange 63 126]); ELit false [62]]).
Proof. dd. Qed.
(* bin-val / dec-val / hex-val = L ( 1*D [ 1*("." 1*D) / ("-" 1*D) ] ) *)
Definition val_body (l : cp) (a b c d e : N) (dg : rid) : expr :=
  ECat [ELit false [l];
        ECat [ERep a 1 None (ERef dg);
              ERep e 0 (Some 1%nat)
                (EAlt false [ERep c 1 None (ECat [ELit false [46]; ERep b 1 None (ERef dg)]);
                             ECat [ELit false [45]; ERep d 1 None (ERef dg)]])]].
Lemma def_bin_val : G 33 = mkrule "bin-val" (val_body 98 21 22 23 24 25 8). Proof. dd. Qed.
Lemma def_dec_val : G 34 = mkrule "dec-val" (val_body 100 26 27 28 29 30 2). Proof. dd. Qed.
Lemma def_hex_val : G 35 = mkrule "hex-val" (val_body 120 31 32 33 34 35 12). Proof. dd. Qed.
Lemma def_ci_string : G 36 = mkrule "case-insensitive-string"
  (ECat [ERep 37 0 (Some 1%nat) (ELit false [37; 105]); ERef 38]). Proof. dd. Qed.
Lemma def_cs_string : G 37 = mkrule "case-sensitive-string" (ECat [ELit false [37; 115]; ERef 38]).
Proof. dd. Qed.
Lemma def_quoted_string : G 38 = mkrule "quoted-string"
  (ECat [ERef 11; ERep 38 0 None (EAlt false [ERange 32 33; ERange 35 126]); ERef 11]). Proof. dd. Qed.
Lemma def_rulelist : G 39 = mkrule "rulelist"
  (ERep 2 1 None (EAlt false [ERef 16; ECat [ERep 1 0 None (ERef 17); ERef 18]])). Proof. dd. Qed.

Opaque l_meta r_boot G.
