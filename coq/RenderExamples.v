(* RenderExamples.v — non-vacuity of RenderSpec.v, and why its side conditions are needed.
   (a) two very different texts are shown, by explicit derivations in the rendering relation, to
       render one list of rules; hence (round trip) both are read to that list;
   (b) counterexamples ("_refuted") for each side condition. *)
From Coq Require Import String Ascii List NArith Arith Bool Lia.
From ABNF Require Import Base AbnfRead RenderSpec RenderProof1 RenderProof2 RenderProof3 RenderProof4 RenderProof5.
Import ListNotations.
Local Open Scope string_scope.
Local Open Scope list_scope.
Local Open Scope N_scope.

(* ------------------------------------------------------------------------------------------ *)
(** * Derived rules and tactics for concrete texts *)
Lemma rl_rule a s rs t : renders_rule a s -> r_entries rs t -> renders_rulelist (a :: rs) (s ++ t).
Proof. intros H Ht. exact (RRulelist (Some a) s rs t (REntry_rule a s H) Ht). Qed.
Lemma rl_blank w nl rs t : r_cwsps w -> r_cnl nl -> r_entries rs t -> renders_rulelist rs ((w ++ nl) ++ t).
Proof. intros Hw Hnl Ht. exact (RRulelist None _ rs t (REntry_blank w nl Hw Hnl) Ht). Qed.
Lemma en_rule a s rs t : renders_rule a s -> r_entries rs t -> r_entries (a :: rs) (s ++ t).
Proof. intros H Ht. exact (REntries_cons (Some a) s rs t (REntry_rule a s H) Ht). Qed.
Lemma en_blank w nl rs t : r_cwsps w -> r_cnl nl -> r_entries rs t -> r_entries rs ((w ++ nl) ++ t).
Proof. intros Hw Hnl Ht. exact (REntries_cons None _ rs t (REntry_blank w nl Hw Hnl) Ht). Qed.

Ltac norm_str :=
  repeat match goal with |- context [s_of ?x] =>
    let v := eval vm_compute in (s_of x) in change (s_of x) with v end.
Ltac cls := unfold QCHAR, PCHAR, WSP, VCHAR, NAMECHAR, ALPHA, DIGIT; lia.
Ltac fa := norm_str; repeat (apply Forall_cons; [cls|]); apply Forall_nil.
Ltac name := norm_str; apply RName; [cls|fa].
Ltac digit :=
  match goal with |- r_digit ?b ?d ?c =>
    first [apply (RD_dec b d) | apply (RD_upper b d) | apply (RD_lower b d)]; lia end.
Ltac num dvs :=
  match goal with |- r_number ?b _ _ => apply (RNumber b dvs) end;
  [discriminate|norm_str; repeat (apply Forall2_cons; [digit|]); apply Forall2_nil].
Ltac cnt k dvs := apply (RCount k); num dvs.
Ltac wsp := apply RCwsp_wsp; cls.
Ltac comment := apply RCnl_comment, RComment; fa.

(* ------------------------------------------------------------------------------------------ *)
(** * One list of rules, two texts *)
Definition ex_rs : list arule :=
  [ {| aname := s_of "a"; aincr := false;
       adef := AAlt [ACat [ARep 1%nat None (R "b"); ALit false (s_of "x")]; ARange 65 90] |};
    {| aname := s_of "a"; aincr := true; adef := AOpt (ALit true [13; 10]) |} ].

(* plain: one rule per line, single spaces, hexadecimal / decimal, lower-case markers *)
Definition ex_text1 : str :=
  txt ["a = 1*b ""x"" / %x41-5A";
       "a =/ [ %d13.10 ]"].
(* a leading comment line; no space around "="; a leading zero in the repeat; a group around an
   element; continuation lines; "%I" string; a comment inside the rule; no space after "/";
   binary with a leading zero; an empty line between the rules; "=/" after three spaces and without
   space after it; "%X" with lower- and upper-case digits and leading zeros; a comment as the c-nl *)
Definition ex_text2 : str :=
  txt ["; leading comment";
       "a=01*(b)";
       " %I""x"" ; comment";
       " /%b01000001-1011010";
       "";
       "a   =/[%X0d.00A];c"].

Example ex_render1 : renders_rulelist ex_rs ex_text1.
Proof.
  change (renders_rulelist ex_rs (
    (s_of "a" ++ ([32] ++ 61 :: [32])
       ++ (((((s_of "1" ++ [42]) ++ s_of "b") ++ ([32] ++ (34 :: s_of "x" ++ [34]) ++ []))
            ++ ([32] ++ 47 :: [32] ++ (37 :: 120 :: s_of "41" ++ 45 :: s_of "5A") ++ [])) ++ [])
       ++ [CR; LF])
    ++ ((s_of "a" ++ ([32] ++ 61 :: 47 :: [32])
           ++ ((91 :: [32] ++ (37 :: 100 :: s_of "13" ++ (46 :: s_of "10" ++ [])) ++ [32] ++ [93]) ++ [])
           ++ [CR; LF])
        ++ []))).
  apply rl_rule.
  - apply RRule.
    + name.
    + apply RDef_eq; apply cwsps_sp.
    + apply RElements; [|apply RCwsps_nil].
      apply RA_many; [| |discriminate].
      * apply RC_many; [| |discriminate].
        -- apply RP_repeat.
           ++ apply RR_a. cnt 1 [1].
           ++ apply RE_term, RT_ref. name.
        -- apply RCT_cons; [apply cwsps1_sp| |apply RCT_nil].
           apply RP_plain, RE_term, RT_quoted. fa.
      * apply RAT_cons; [apply cwsps_sp|apply cwsps_sp| |apply RAT_nil].
        apply RC_one, RP_plain, RE_term.
        apply (RT_range 120 16); [apply RB_x; left; reflexivity|num [4; 1]|num [5; 10]].
    + apply RCnl_crlf.
  - apply en_rule; [|apply REntries_nil]. apply RRule.
    + name.
    + apply RDef_incr; apply cwsps_sp.
    + apply RElements; [|apply RCwsps_nil].
      apply RA_one, RC_one, RP_plain, RE_option; [apply cwsps_sp| |apply cwsps_sp].
      apply RA_one, RC_one, RP_plain, RE_term.
      apply (RT_series 100 10); [apply RB_d; left; reflexivity|num [1; 3]|].
      apply RDot_cons; [num [1; 0]|apply RDot_nil].
    + apply RCnl_crlf.
Qed.

Example ex_render2 : renders_rulelist ex_rs ex_text2.
Proof.
  change (renders_rulelist ex_rs (
    ([] ++ (59 :: s_of " leading comment" ++ [CR; LF]))
    ++ ((s_of "a" ++ ([] ++ 61 :: [])
          ++ (((((s_of "01" ++ [42]) ++ (40 :: [] ++ s_of "b" ++ [] ++ [41]))
                 ++ ((([CR; LF] ++ [32]) ++ []) ++ (37 :: 73 :: 34 :: s_of "x" ++ [34]) ++ []))
               ++ (([32] ++ (((59 :: s_of " comment" ++ [CR; LF]) ++ [32]) ++ []))
                     ++ 47 :: [] ++ (37 :: 98 :: s_of "01000001" ++ 45 :: s_of "1011010") ++ []))
              ++ [])
          ++ [CR; LF])
        ++ (([] ++ [CR; LF])
            ++ ((s_of "a" ++ (([32] ++ [32] ++ [32] ++ []) ++ 61 :: 47 :: [])
                  ++ ((91 :: [] ++ (37 :: 88 :: s_of "0d" ++ (46 :: s_of "00A" ++ [])) ++ [] ++ [93]) ++ [])
                  ++ (59 :: s_of "c" ++ [CR; LF]))
                ++ []))))).
  apply rl_blank; [apply RCwsps_nil|comment|].
  apply en_rule.
  - apply RRule.
    + name.
    + apply RDef_eq; apply RCwsps_nil.
    + apply RElements; [|apply RCwsps_nil].
      apply RA_many; [| |discriminate].
      * apply RC_many; [| |discriminate].
        -- apply RP_repeat.
           ++ apply RR_a. cnt 1 [0; 1].
           ++ apply RE_group; [apply RCwsps_nil| |apply RCwsps_nil].
              apply RA_one, RC_one, RP_plain, RE_term, RT_ref. name.
        -- apply RCT_cons; [| |apply RCT_nil].
           ++ apply RCwsps1; [|apply RCwsps_nil]. apply RCwsp_cont; [apply RCnl_crlf|cls].
           ++ apply RP_plain, RE_term, RT_quoted_i; [right; reflexivity|fa].
      * apply RAT_cons; [|apply RCwsps_nil| |apply RAT_nil].
        -- apply RCwsps_cons; [wsp|]. apply RCwsps_cons; [|apply RCwsps_nil].
           apply RCwsp_cont; [comment|cls].
        -- apply RC_one, RP_plain, RE_term.
           apply (RT_range 98 2); [apply RB_b; left; reflexivity
                                  |num [0; 1; 0; 0; 0; 0; 0; 1]|num [1; 0; 1; 1; 0; 1; 0]].
    + apply RCnl_crlf.
  - apply en_blank; [apply RCwsps_nil|apply RCnl_crlf|].
    apply en_rule; [|apply REntries_nil]. apply RRule.
    + name.
    + apply RDef_incr; [|apply RCwsps_nil].
      apply RCwsps_cons; [wsp|]. apply RCwsps_cons; [wsp|]. apply RCwsps_cons; [wsp|]. apply RCwsps_nil.
    + apply RElements; [|apply RCwsps_nil].
      apply RA_one, RC_one, RP_plain, RE_option; [apply RCwsps_nil| |apply RCwsps_nil].
      apply RA_one, RC_one, RP_plain, RE_term.
      apply (RT_series 88 16); [apply RB_x; right; reflexivity|num [0; 13]|].
      apply RDot_cons; [num [0; 0; 10]|apply RDot_nil].
    + comment.
Qed.

(* hence, by the round trip theorem (no computation of the reader involved): *)
Example ex_read1 : read_rulelist ex_text1 = Some ex_rs.
Proof. exact (read_render_rulelist _ _ ex_render1). Qed.
Example ex_read2 : read_rulelist ex_text2 = Some ex_rs.
Proof. exact (read_render_rulelist _ _ ex_render2). Qed.
Example ex_same : read_rulelist ex_text1 = read_rulelist ex_text2.
Proof. exact (layout_independent _ _ _ ex_render1 ex_render2). Qed.
(* cross-check by running the reader *)
Example ex_read2_run : read_rulelist ex_text2 = Some ex_rs.
Proof. vm_compute. reflexivity. Qed.
(* the canonical printer gives a third rendering *)
Example ex_print : print_rulelist ex_rs =
  txt ["a = ((1*b) ""x"") / %b1000001-1011010"; "a =/ [%b1101.1010]"].
Proof. vm_compute. reflexivity. Qed.
Example ex_normal : Forall normal_rule ex_rs.
Proof. exact (reader_normal_rulelist _ _ ex_read1). Qed.
Example ex_render3 : renders_rulelist ex_rs (print_rulelist ex_rs).
Proof. exact (print_rulelist_renders _ ex_normal). Qed.

(* ------------------------------------------------------------------------------------------ *)
(** * Why the side conditions are there *)
(* [RT_prose] demands that the content is not a rulename: "<a>" consists of prose characters, but
   the reader (READER CONVENTION, see RenderSpec.v) takes it as a reference to the rule "a" *)
Lemma prose_rulename_refuted :
  Forall PCHAR (s_of "a") /\
  read_elements (60 :: s_of "a" ++ [62]) = Some (ARef (s_of "a"), []) /\
  read_elements (60 :: s_of "a" ++ [62]) <> Some (AProse (s_of "a"), []).
Proof. split; [fa|]. split; [vm_compute; reflexivity|vm_compute; discriminate]. Qed.

(* [RT_quoted_s] (and [RT_quoted], [RT_quoted_i]) demand quoted-string characters: a DQUOTE inside
   would end the string early.  [ALit true [34]] has the rendering %x22 but not
   %s followed by three DQUOTEs; and
   [ALit false [34]] has no rendering at all: it is not [normal] *)
Lemma quoted_dquote_refuted :
  read_elements (37 :: 115 :: 34 :: [34] ++ [34]) <> Some (ALit true [34], []) /\
  read_elements (s_of "%x22") = Some (ALit true [34], []) /\
  ~ normal (ALit false [34]).
Proof.
  split; [vm_compute; discriminate|]. split; [vm_compute; reflexivity|].
  intros H. inversion H as [v Hv| | | | | | | |]; subst. inversion Hv as [|c l Hc _]; subst.
  unfold QCHAR in Hc. lia.
Qed.

(* the rest [t'] in [read_render_rule_then] is not always the [t] of the split chosen in the
   rendering: a white line after a rule is, for the reader, a continuation line of that rule
   (elements = alternation *c-wsp, c-wsp = c-nl WSP); the list of rules is the same *)
Lemma read_rule_then_exact_refuted :
  let s := txt ["a = b"] in let t := txt [" "] in
  renders_rule {| aname := s_of "a"; aincr := false; adef := R "b" |} s /\
  r_entries [] t /\
  read_rule (s ++ t) <> Some ({| aname := s_of "a"; aincr := false; adef := R "b" |}, t) /\
  read_rule (s ++ t) = Some ({| aname := s_of "a"; aincr := false; adef := R "b" |}, []).
Proof.
  cbv zeta. split; [|split; [|split; [vm_compute; discriminate|vm_compute; reflexivity]]].
  - change (txt ["a = b"]) with (s_of "a" ++ ([32] ++ 61 :: [32]) ++ (s_of "b" ++ []) ++ [CR; LF]).
    apply RRule; [name|apply RDef_eq; apply cwsps_sp| |apply RCnl_crlf].
    apply RElements; [|apply RCwsps_nil]. apply RA_one, RC_one, RP_plain, RE_term, RT_ref. name.
  - change (txt [" "]) with (([32] ++ [CR; LF]) ++ []).
    apply en_blank; [apply cwsps_sp|apply RCnl_crlf|apply REntries_nil].
Qed.

(* longest match of a repeat can never matter: no element starts with a digit or "*" *)
Lemma repeat_then_element_unambiguous e s (x : str) : renders_elem e s -> norepeat (s ++ x).
Proof.
  intros H. destruct (elem_head e s H) as (c & t & -> & Hc). cbn [app]. apply elemc_norepeat. exact Hc.
Qed.

Print Assumptions ex_render1.
Print Assumptions ex_render2.
Print Assumptions ex_same.
Print Assumptions prose_rulename_refuted.
Print Assumptions read_rule_then_exact_refuted.
