(* LoadSim2.v — C14, stage 3d: the concrete loader simulates the abstract one, part 2: the state invariant during the
   load of a class c on top of a registry R that has no object of class c, the three kinds of update
   (new definition, shared definition, flag of a fresh definition), and the class's own rules. *)
From Coq Require Import List NArith Arith Bool Lia.
Import ListNotations.
From ABNF Require Import Base Engine AbnfRead Registry EngineSound Checks RegistryProps GenTypes Loader
     GenBundled Bundled TablesAll LoadFrame1 LoadWf LoadFrame2 LoadUq LoadAbs LoadSim1.

Lemma upd_nth_id {A} (l : list A) n : upd_nth l n (fun x => x) = l.
Proof. revert n. induction l as [|x r IH]; intros [|n]; simpl; try reflexivity. rewrite IH. reflexivity. Qed.

Lemma find_obj_none_cls c k l : (forall o, In o l -> ocls o <> c) -> forall st, find_obj c k l st = None.
Proof.
  induction l as [|x r IH]; intros H st; simpl; [reflexivity|].
  destruct (N.eqb (ocls x) c) eqn:E.
  - apply N.eqb_eq in E. exfalso. apply (H x (or_introl eq_refl) E).
  - simpl. apply IH. intros o Ho. apply H. right; exact Ho.
Qed.

Lemma aset_noop k t l e : afind k l = Some e -> edef e = Some t -> aset k (fun _ => Some t) l = l.
Proof.
  induction l as [|x r IH]; simpl; [discriminate|]. destruct (str_eqb (ekey x) k).
  - intros H Hd. inversion H; subst x. destruct e as [[[k0 n0] d0] x0]. simpl in *. unfold edef in Hd.
    simpl in Hd. rewrite Hd. reflexivity.
  - intros H Hd. rewrite (IH H Hd). reflexivity.
Qed.

Lemma edef_snap X o : edef (snap_obj X o) =
  match odef o with Some d => option_map (canon X) (nth_error (defs X) d) | None => None end.
Proof.
  unfold snap_obj, edef. simpl. destruct (odef o) as [d|]; [|reflexivity].
  destruct (nth_error (defs X) d); reflexivity.
Qed.

Lemma tflag_canon X v e : (forall fm es, e <> EAlt fm es) -> tflag v (canon X e) = canon X e.
Proof.
  destruct e; intros H; simpl; try reflexivity.
  - exfalso; eapply H; reflexivity.
  - destruct (nth_error (objs X) (N.to_nat r)); reflexivity.
Qed.

Section Sim.
  Variables (classes : list gclass) (g : gclass) (c : cls) (R : reg).
  Hypotheses (WR : wf R) (UR : uq R) (Hc2 : (2 <= c)%N) (HE : forall o, In o (objs R) -> ocls o <> c).
  Definition nd := length (defs R).
  Definition s0 := class_snapshot R 0%N.
  Lemma Hc0 : c <> 0%N.
  Proof. lia. Qed.

  Record base (X : reg) : Prop := mkbase {
    b_objs : exists l, objs X = objs R ++ l /\ Forall (fun o => ocls o = c) l;
    b_defs : exists dl, defs X = defs R ++ dl;
    b_one : forall j1 j2 o1 o2 d, nth_error (objs X) j1 = Some o1 -> nth_error (objs X) j2 = Some o2 ->
              odef o1 = Some d -> odef o2 = Some d -> nd <= d -> j1 = j2 }.

  Lemma base_prefix X j o : base X -> nth_error (objs R) j = Some o -> nth_error (objs X) j = Some o.
  Proof.
    intros [(l & HO & _) _ _] Hj. rewrite HO, nth_error_app1; [exact Hj|].
    apply nth_error_Some. rewrite Hj. discriminate.
  Qed.
  Lemma base_keys X : base X -> keys_kept R X.
  Proof. intros B j o Hj. exists o. split; [eapply base_prefix; eauto|apply sbd_refl]. Qed.
  Lemma base_old X j o : base X -> nth_error (objs X) j = Some o -> ocls o <> c ->
    nth_error (objs R) j = Some o.
  Proof.
    intros [(l & HO & HF) _ _] Hj Hc. rewrite HO in Hj.
    destruct (Nat.lt_ge_cases j (length (objs R))) as [L|L].
    - rewrite nth_error_app1 in Hj by exact L. exact Hj.
    - rewrite nth_error_app2 in Hj by exact L. apply nth_error_In in Hj.
      rewrite Forall_forall in HF. exfalso. exact (Hc (HF _ Hj)).
  Qed.
  Lemma base_new X j o : base X -> nth_error (objs X) j = Some o -> ocls o = c -> length (objs R) <= j.
  Proof.
    intros [(l & HO & HF) _ _] Hj Hc. rewrite HO in Hj.
    destruct (Nat.lt_ge_cases j (length (objs R))) as [L|L]; [|exact L].
    rewrite nth_error_app1 in Hj by exact L. exfalso. exact (HE o (nth_error_In _ _ Hj) Hc).
  Qed.
  Lemma base_def_old X d : base X -> d < nd -> nth_error (defs X) d = nth_error (defs R) d.
  Proof. intros [_ (dl & HD) _] Hd. rewrite HD, nth_error_app1; [reflexivity|exact Hd]. Qed.
  Lemma base_old_def X j o d : base X -> nth_error (objs X) j = Some o -> ocls o <> c -> odef o = Some d ->
    d < nd.
  Proof. intros B Hj Hc Hd. eapply reg_ok_nth; [exact (wf_ok _ WR)|eapply base_old; eauto|exact Hd]. Qed.
  Lemma base_R : base R.
  Proof.
    constructor.
    - exists []. rewrite app_nil_r. auto.
    - exists []. rewrite app_nil_r. auto.
    - intros j1 j2 o1 o2 d H1 _ Hd _ Hle. pose proof (reg_ok_nth _ _ _ _ (wf_ok _ WR) H1 Hd). unfold nd in Hle. lia.
  Qed.

  Lemma base_ext2 X X1 : base X -> ext2 c X X1 -> base X1.
  Proof.
    intros [(l & HO & HF) (dl & HD) H1] (l2 & HO2 & HF2 & HD2). constructor.
    - exists (l ++ l2). rewrite HO2, HO, app_assoc. split; [reflexivity|]. apply Forall_app. split; [exact HF|].
      eapply Forall_impl; [|exact HF2]. intros o Ho. apply Ho.
    - exists dl. congruence.
    - assert (Hold : forall j o d, nth_error (objs X1) j = Some o -> odef o = Some d ->
                                   nth_error (objs X) j = Some o).
      { intros j o d Hj Hd. rewrite HO2 in Hj. destruct (Nat.lt_ge_cases j (length (objs X))) as [L|L].
        - rewrite nth_error_app1 in Hj by exact L. exact Hj.
        - rewrite nth_error_app2 in Hj by exact L. apply nth_error_In in Hj. rewrite Forall_forall in HF2.
          destruct (HF2 _ Hj) as (_ & N & _). congruence. }
      intros j1 j2 o1 o2 d A1 A2 D1 D2 Hle. eapply H1; eauto.
  Qed.

  (* the definitions of class-c objects: fresh (created by this load), or taken over from an import source *)
  Definition imported (o : robj) (d : nat) : Prop :=
    d < nd /\ exists local m c' rn sc n, In (local, (m, c', rn)) (gimports g) /\
      cls_of classes m c' = Some sc /\ rget R sc rn = Some n /\ okey o = fold_name local /\
      odef_of R n = Some d.
  Definition fk (done : list str) (X : reg) : Prop :=
    forall j o d, nth_error (objs X) j = Some o -> ocls o = c -> odef o = Some d ->
      if existsb (str_eqb (okey o)) (map fold_name done) then imported o d else nd <= d.
  Lemma fk_R done : fk done R.
  Proof. intros j o d Hj Hc _. exfalso. exact (HE o (nth_error_In _ _ Hj) Hc). Qed.
  Lemma fk_ext2 done X X1 : fk done X -> ext2 c X X1 -> fk done X1.
  Proof.
    intros F (l2 & HO2 & HF2 & _) j o d Hj Hc Hd. apply (F j o d); auto.
    rewrite HO2 in Hj. destruct (Nat.lt_ge_cases j (length (objs X))) as [L|L].
    - rewrite nth_error_app1 in Hj by exact L. exact Hj.
    - rewrite nth_error_app2 in Hj by exact L. apply nth_error_In in Hj. rewrite Forall_forall in HF2.
      destruct (HF2 _ Hj) as (_ & N & _). congruence.
  Qed.

  Notation lite := (lite c s0).

  (* the entry of the first object with key k *)
  Lemma entry_at X own k n : lite X own -> find_obj c k (objs X) 0 = Some n ->
    exists o, nth_error (objs X) n = Some o /\ ck o = (c, k) /\ afind k own = Some (snap_obj X o).
  Proof.
    intros [W U HC HO] Hf.
    pose proof (afind_map (snap_obj X) c k (objs X) (fun o => eq_refl) 0) as F1.
    rewrite <- class_snapshot_eq, HO, Hf in F1. destruct F1 as (_ & o & Ho & Hck & Hfd).
    rewrite Nat.sub_0_r in Ho. eauto.
  Qed.

  Definition setd (d : nat) (o : robj) : robj := mko (ocls o) (okey o) (oname o) (Some d) (oexcl o).
  Lemma keys_kept_upd X X' n f : (forall o, sbd o (f o)) -> objs X' = upd_nth (objs X) n f -> keys_kept X X'.
  Proof.
    intros Hf HO j o Hj. rewrite HO. destruct (Nat.eq_dec j n) as [->|Hne].
    - rewrite nth_error_upd_nth_same, Hj. simpl. eauto.
    - rewrite nth_error_upd_nth_other by exact Hne. exists o. split; [exact Hj|apply sbd_refl].
  Qed.

  (* ---- an update of object n (the first with key k in class c) that gives it definition index d' whose
          content e is known; all definitions used by other objects stay ---- *)
  Lemma step_setd X own k n d' e X' :
    lite X own -> base X -> find_obj c k (objs X) 0 = Some n ->
    objs X' = upd_nth (objs X) n (setd d') ->
    (forall d, d < length (defs X) -> nth_error (defs X') d = nth_error (defs X) d) ->
    nth_error (defs X') d' = Some e -> refs_ltb (length (objs X)) e = true ->
    wf X' -> uq X' ->
    lite X' (aset k (fun _ => Some (canon X e)) own).
  Proof.
    intros L B Hf HO HD He Hr W' U'. pose proof L as [W U HC HOwn].
    assert (HK : keys_kept X X') by (apply (keys_kept_upd X X' n (setd d')); [intros o; repeat split|exact HO]).
    pose proof (find_obj_spec _ _ _ _ _ Hf) as (_ & on & Hon & Hoc & Hok). rewrite Nat.sub_0_r in Hon.
    assert (Hstable : forall j o, nth_error (objs X) j = Some o -> j <> n -> snap_obj X' o = snap_obj X o).
    { intros j o Hj Hne. apply snap_obj_stable; auto; [eapply nth_error_In; eauto|].
      intros d Hd. apply HD. eapply reg_ok_nth; [exact (wf_ok _ W)|exact Hj|exact Hd]. }
    constructor; [exact W'|exact U'| |].
    - rewrite <- HC. apply snapshot_frame; auto.
      + intros j o Hj Ho0. rewrite HO, nth_error_upd_nth_other; [exact Hj|].
        intros ->. rewrite Hon in Hj. inversion Hj; subst o. pose proof Hc0. congruence.
      + intros j o' Hj Hle. exfalso.
        assert (j < length (objs X')) by (apply nth_error_Some; rewrite Hj; discriminate).
        rewrite HO, upd_nth_length in H. lia.
      + intros o d Hin _ Hd. apply HD. apply In_nth_error in Hin. destruct Hin as [j Hj].
        eapply reg_ok_nth; [exact (wf_ok _ W)|exact Hj|exact Hd].
    - rewrite class_snapshot_eq, HO, <- HOwn, class_snapshot_eq.
      rewrite <- (Nat.sub_0_r n) at 1.
      apply (aset_map (snap_obj X) (snap_obj X') c k (setd d') (fun _ => Some (canon X e)) (objs X)
                      (fun o => eq_refl) (fun o => eq_refl) 0 n Hf).
      + intros j o Hj Hne. apply (Hstable j o Hj). lia.
      + intros o Ho. rewrite Nat.sub_0_r in Ho. rewrite Hon in Ho. inversion Ho; subst o.
        unfold snap_obj, setd, eset. simpl. rewrite He.
        rewrite (canon_stable X X' e HK Hr). f_equal.
        destruct (oexcl on) as [x|] eqn:Ex; [|reflexivity].
        pose proof (wf_excl _ W) as F. rewrite Forall_forall in F.
        specialize (F on (nth_error_In _ _ Hon) x Ex).
        destruct (nth_error (objs X) (N.to_nat x)) as [ox|] eqn:E; [|apply nth_error_None in E; lia].
        destruct (HK _ _ E) as (o' & E' & (S1 & S2 & _)). rewrite E'. congruence.
  Qed.

  Lemma base_setd X X' n d' dl' :
    base X -> (exists o, nth_error (objs X) n = Some o /\ ocls o = c) ->
    objs X' = upd_nth (objs X) n (setd d') -> defs X' = defs X ++ dl' -> reg_ok X ->
    (nd <= d' -> length (defs X) <= d') ->
    base X'.
  Proof.
    intros B (on & Hon & Hoc) HO HD Hok Hd'. pose proof B as [(l & BO & BF) (dl & BD) B1]. constructor.
    - exists (upd_nth l (n - length (objs R)) (setd d')). split.
      + rewrite HO, BO. apply upd_nth_app2. eapply base_new; eauto.
      + apply Forall_upd_nth; [exact BF|]. intros o Ho. exact Ho.
    - exists (dl ++ dl'). rewrite HD, BD, app_assoc. reflexivity.
    - intros j1 j2 o1 o2 d A1 A2 D1 D2 Hle. rewrite HO in A1, A2.
      destruct (Nat.eq_dec j1 n) as [E1|E1]; destruct (Nat.eq_dec j2 n) as [E2|E2]; try congruence.
      + subst j1. rewrite nth_error_upd_nth_same, Hon in A1. simpl in A1. inversion A1; subst o1.
        simpl in D1. inversion D1; subst d'. rewrite nth_error_upd_nth_other in A2 by exact E2.
        pose proof (reg_ok_nth _ _ _ _ Hok A2 D2). specialize (Hd' Hle). lia.
      + subst j2. rewrite nth_error_upd_nth_same, Hon in A2. simpl in A2. inversion A2; subst o2.
        simpl in D2. inversion D2; subst d'. rewrite nth_error_upd_nth_other in A1 by exact E1.
        pose proof (reg_ok_nth _ _ _ _ Hok A1 D1). specialize (Hd' Hle). lia.
      + rewrite nth_error_upd_nth_other in A1 by exact E1. rewrite nth_error_upd_nth_other in A2 by exact E2.
        eapply B1; eauto.
  Qed.

  (* rule.definition = new definition object *)
  Lemma step_set_def_new X own k n e :
    lite X own -> base X -> fk [] X -> find_obj c k (objs X) 0 = Some n ->
    refs_ltb (length (objs X)) e = true ->
    lite (set_def_new X n e) (aset k (fun _ => Some (canon X e)) own) /\ base (set_def_new X n e) /\
    fk [] (set_def_new X n e).
  Proof.
    intros L B F Hf Hr. pose proof L as [W U HC HOwn].
    pose proof (find_obj_spec _ _ _ _ _ Hf) as (_ & on & Hon & Hoc & Hok). rewrite Nat.sub_0_r in Hon.
    split; [|split].
    - apply (step_setd X own k n (length (defs X)) e); auto.
      + intros d Hd. simpl. rewrite nth_error_app1 by exact Hd. reflexivity.
      + simpl. rewrite nth_error_app2, Nat.sub_diag by lia. reflexivity.
      + apply wf_set_def_new; assumption.
      + apply uq_set_def_new; assumption.
    - apply (base_setd X _ n (length (defs X)) [e]); auto; [eauto|exact (wf_ok _ W)].
    - intros j o d Hj Hc Hd. simpl. simpl in Hj.
      apply nth_error_upd_nth_inv in Hj. destruct Hj as (x & Hx & [E|E]); subst o.
      + exact (F j x d Hx Hc Hd).
      + simpl in Hd. inversion Hd; subst d. destruct B as [_ (dl & BD) _]. rewrite BD, app_length. unfold nd. lia.
  Qed.

  (* rule.definition = the definition object of an import source (an old definition) *)
  Lemma step_set_def_idx X own k n d e done local :
    lite X own -> base X -> fk done X -> find_obj c k (objs X) 0 = Some n ->
    d < nd -> nth_error (defs R) d = Some e -> k = fold_name local ->
    (forall o, nth_error (objs X) n = Some o -> imported o d) ->
    lite (set_def_idx X n d) (aset k (fun _ => Some (canon R e)) own) /\ base (set_def_idx X n d) /\
    fk (done ++ [local]) (set_def_idx X n d).
  Proof.
    intros L B F Hf Hd He Hk Himp. pose proof L as [W U HC HOwn].
    pose proof (find_obj_spec _ _ _ _ _ Hf) as (_ & on & Hon & Hoc & Hok). rewrite Nat.sub_0_r in Hon.
    assert (HeX : nth_error (defs X) d = Some e) by (rewrite (base_def_old X d B Hd); exact He).
    assert (HrR : refs_ltb (length (objs R)) e = true).
    { pose proof (wf_refs _ WR) as FR. rewrite Forall_forall in FR. apply FR. eapply nth_error_In; eauto. }
    assert (HlenR : length (objs R) <= length (objs X)).
    { destruct B as [(l & BO & _) _ _]. rewrite BO, app_length. lia. }
    assert (HcX : canon X e = canon R e) by (apply canon_stable; [apply base_keys; exact B|exact HrR]).
    split; [|split].
    - rewrite <- HcX. apply (step_setd X own k n d e); auto.
      + eapply refs_ltb_mono; eauto.
      + apply wf_set_def_idx; [|exact W]. apply nth_error_Some. rewrite HeX. discriminate.
      + apply uq_set_def_idx; assumption.
    - apply (base_setd X _ n d []); auto; [eauto|rewrite app_nil_r; reflexivity|exact (wf_ok _ W)|lia].
    - intros j o d0 Hj Hc Hd0. simpl in Hj. rewrite map_app, existsb_app. simpl. rewrite orb_false_r.
      destruct (Nat.eq_dec j n) as [->|Hne].
      + rewrite nth_error_upd_nth_same, Hon in Hj. simpl in Hj. inversion Hj; subst o. simpl in Hd0.
        inversion Hd0; subst d0. simpl. rewrite Hok, Hk, str_eqb_refl, orb_true_r.
        destruct (Himp on Hon) as (I1 & lo & m & c' & rn & sc & ns & J1 & J2 & J3 & J4 & J5).
        split; [exact I1|]. exists lo, m, c', rn, sc, ns. simpl. repeat split; auto. congruence.
      + rewrite nth_error_upd_nth_other in Hj by exact Hne.
        assert (Hkk : str_eqb (okey o) (fold_name local) = false).
        { destruct (str_eqb (okey o) (fold_name local)) eqn:E; [|reflexivity]. exfalso.
          apply (proj1 (str_eqb_eq _ _)) in E. apply Hne.
          apply (uq_nth X j n o on U Hj Hon). unfold ck. congruence. }
        rewrite Hkk, orb_false_r. exact (F j o d0 Hj Hc Hd0).
  Qed.

  (* rule.first_match_alternation = v on a rule whose definition is fresh *)
  Lemma step_set_flag X own k n v o d done :
    lite X own -> base X -> fk done X -> find_obj c k (objs X) 0 = Some n ->
    nth_error (objs X) n = Some o -> odef o = Some d -> nd <= d ->
    exists e X', nth_error (defs X) d = Some e /\ set_flag n v X = Some X' /\
      lite X' (aset k (fun _ => Some (tflag v (canon X e))) own) /\ base X' /\ fk done X' /\
      objs X' = objs X.
  Proof.
    intros L B F Hf Hon Hd Hle. pose proof L as [W U HC HOwn].
    pose proof (find_obj_spec _ _ _ _ _ Hf) as (_ & on & Hon' & Hoc & Hok). rewrite Nat.sub_0_r in Hon'.
    rewrite Hon in Hon'. inversion Hon'; subst on; clear Hon'.
    pose proof (reg_ok_nth _ _ _ _ (wf_ok _ W) Hon Hd) as Hlt.
    destruct (nth_error (defs X) d) as [e|] eqn:He; [|apply nth_error_None in He; lia].
    destruct (entry_at X own k n L Hf) as (o' & Ho' & _ & Hent). rewrite Hon in Ho'. inversion Ho'; subst o'.
    assert (Hed : edef (snap_obj X o) = Some (canon X e)) by (rewrite edef_snap, Hd, He; reflexivity).
    assert (Hnoop : forall t, t = canon X e -> aset k (fun _ => Some t) own = own).
    { intros t ->. eapply aset_noop; eauto. }
    exists e. unfold set_flag. rewrite Hon, Hd, He.
    destruct e as [cs s|lo hi|fm es|es|id mn mx e1| |r];
      try (eexists; split; [reflexivity|]; split; [reflexivity|];
           split; [rewrite Hnoop; [exact L|apply tflag_canon; intros; discriminate]|];
           split; [exact B|]; split; [exact F|reflexivity]).
    set (X' := mkr (objs X) (upd_nth (defs X) d (fun _ => EAlt v es)) (nextid X) (S (epoch X))).
    exists X'. split; [reflexivity|]. split; [reflexivity|].
    assert (HS : set_flag n v X = Some X') by (unfold set_flag; rewrite Hon, Hd, He; reflexivity).
    assert (W' : wf X') by (eapply wf_set_flag; eauto).
    assert (U' : uq X') by (eapply uq_set_flag; eauto).
    assert (HK : keys_kept X X') by (intros j x Hj; exists x; split; [exact Hj|apply sbd_refl]).
    assert (Hother : forall j x dx, nth_error (objs X) j = Some x -> j <> n -> odef x = Some dx ->
                                    nth_error (defs X') dx = nth_error (defs X) dx).
    { intros j x dx Hj Hne Hdx. simpl. apply nth_error_upd_nth_other. intros ->.
      apply Hne. destruct B as [_ _ B1]. eapply B1; eauto. }
    split; [|split; [|split; [|reflexivity]]].
    - constructor; [exact W'|exact U'| |].
      + rewrite <- HC. apply snapshot_frame; auto.
        * intros j x' Hj Hle'. exfalso.
          assert (j < length (objs X)) by (apply nth_error_Some; simpl in Hj; rewrite Hj; discriminate). lia.
        * intros x dx Hin Hx0 Hdx. apply In_nth_error in Hin. destruct Hin as [j Hj].
          apply (Hother j x dx Hj); [|exact Hdx]. intros ->. rewrite Hon in Hj. inversion Hj; subst x.
          pose proof Hc0. unfold ck in Hoc. congruence.
      + rewrite <- HOwn, !class_snapshot_eq. change (objs X') with (objs X).
        rewrite <- (upd_nth_id (objs X) (n - 0)) at 1.
        apply (aset_map (snap_obj X) (snap_obj X') c k (fun x => x) (fun _ => Some (tflag v (canon X (EAlt fm es))))
                        (objs X) (fun x => eq_refl) (fun x => eq_refl) 0 n Hf).
        * intros j x Hj Hne. apply snap_obj_stable; auto; [eapply nth_error_In; eauto|].
          intros dx Hdx. apply (Hother j x dx Hj); [lia|exact Hdx].
        * intros x Hx. rewrite Nat.sub_0_r, Hon in Hx. inversion Hx; subst x.
          unfold snap_obj, eset. rewrite Hd.
          change (defs X') with (upd_nth (defs X) d (fun _ : expr => EAlt v es)).
          rewrite nth_error_upd_nth_same, He. simpl. change (objs X') with (objs X).
          replace (map (canon X') es) with (map (canon X) es); [reflexivity|].
          apply map_ext. intros y. apply canon_ext. reflexivity.
    - destruct B as [BO (dl & BD) B1]. constructor; [exact BO| |exact B1].
      exists (upd_nth dl (d - length (defs R)) (fun _ => EAlt v es)). simpl. rewrite BD.
      apply upd_nth_app2. exact Hle.
    - exact F.
  Qed.

  (* ---- the class's own rules ---- *)
  Definition corefree (nm : str) : Prop :=
    forall o, In o (objs R) -> ocls o = 0%N -> okey o <> fold_name nm.

  Definition res3 (done : list str) (x : option reg) (y : option (list entry)) : Prop :=
    match x, y with
    | Some X', Some own' => lite X' own' /\ base X' /\ fk done X'
    | None, None => True
    | _, _ => False
    end.

  Lemma find_ext2 X X1 cc k n : ext2 c X X1 -> find_obj cc k (objs X) 0 = Some n ->
    find_obj cc k (objs X1) 0 = Some n.
  Proof. intros (l & HO & _) Hf. rewrite HO, find_obj_app, Hf. reflexivity. Qed.

  Lemma sim_rnew_own X own nm X1 n o1 ref :
    lite X own -> base X -> corefree nm -> rnew X c nm = (X1, n) -> arnew c s0 own nm = (o1, ref) ->
    lite X1 o1 /\ base X1 /\ ext2 c X X1 /\ find_obj c (fold_name nm) (objs X1) 0 = Some n.
  Proof.
    intros L B Hcf Hr Ha.
    destruct (lite_rnew c s0 Hc0 _ _ _ _ _ _ _ L Hr Ha) as (L1 & E1 & F1 & K1 & C1).
    pose proof (base_ext2 _ _ B E1) as B1.
    split; [exact L1|]. split; [exact B1|]. split; [exact E1|].
    destruct ref as [cc k]. simpl in *. subst k. destruct C1 as [C1|C1]; subst cc; [exact F1|exfalso].
    pose proof (find_obj_spec _ _ _ _ _ F1) as (_ & o & Ho & Hoc & Hok). rewrite Nat.sub_0_r in Ho.
    assert (Hne : ocls o <> c) by (pose proof Hc0; congruence).
    pose proof (base_old X1 n o B1 Ho Hne) as HoR.
    exact (Hcf o (nth_error_In _ _ HoR) Hoc Hok).
  Qed.

  Lemma sim_define_rule X own a :
    lite X own -> base X -> fk [] X -> corefree (aname a) ->
    res3 [] (define_rule c a X) (adefine_rule c s0 a own).
  Proof.
    intros L B F Hcf. unfold define_rule, adefine_rule.
    destruct (rnew X c (aname a)) as [X1 n] eqn:E1. destruct (arnew c s0 own (aname a)) as [o1 ref] eqn:A1.
    destruct (sim_rnew_own _ _ _ _ _ _ _ L B Hcf E1 A1) as (L1 & B1 & X1e & F1).
    destruct (compile c (adef a) X1) as [X2 e] eqn:E2.
    destruct (acompile c s0 (adef a) o1) as [o2 t] eqn:A2.
    destruct (lite_compile c s0 Hc0 (adef a) _ _ _ _ _ _ L1 E2 A2) as (L2 & X2e & C2 & R2).
    pose proof (base_ext2 _ _ B1 X2e) as B2.
    pose proof (fk_ext2 _ _ _ (fk_ext2 _ _ _ F X1e) X2e) as F2.
    pose proof (find_ext2 _ _ _ _ _ X2e F1) as Hf2.
    destruct (aincr a).
    - destruct (entry_at X2 o2 _ n L2 Hf2) as (o & Ho & _ & Hent). rewrite Hent, edef_snap.
      unfold def_of. rewrite Ho. destruct (odef o) as [d|] eqn:Ed; [|exact I].
      pose proof (reg_ok_nth _ _ _ _ (wf_ok _ (l_wf _ _ _ _ L2)) Ho Ed) as Hlt.
      destruct (nth_error (defs X2) d) as [old|] eqn:Eo; [|apply nth_error_None in Eo; lia]. simpl.
      assert (Hr : refs_ltb (length (objs X2)) (EAlt false [old; e]) = true).
      { simpl. rewrite R2, andb_true_r. pose proof (wf_refs _ (l_wf _ _ _ _ L2)) as FR.
        rewrite Forall_forall in FR. rewrite (FR old (nth_error_In _ _ Eo)). reflexivity. }
      pose proof (step_set_def_new X2 o2 _ n _ L2 B2 F2 Hf2 Hr) as H. simpl in H. rewrite C2 in H. exact H.
    - simpl. pose proof (step_set_def_new X2 o2 _ n e L2 B2 F2 Hf2 R2) as H. rewrite C2 in H. exact H.
  Qed.

  Lemma sim_define_rules l : (forall a, In a l -> corefree (aname a)) ->
    forall X own, lite X own -> base X -> fk [] X ->
    res3 [] (define_rules c l X) (adefine_rules c s0 l own).
  Proof.
    induction l as [|a r IH]; intros Hcf X own L B F; simpl; [auto|].
    pose proof (sim_define_rule X own a L B F (Hcf a (or_introl eq_refl))) as H.
    destruct (define_rule c a X) as [X'|], (adefine_rule c s0 a own) as [own'|]; simpl in H;
      try contradiction; [|exact I].
    destruct H as (L' & B' & F'). apply IH; auto. intros b Hb. apply Hcf. right; exact Hb.
  Qed.
End Sim.

Print Assumptions sim_define_rules.
