(* LoadWf.v — C14, stage 2a: the well-formedness invariant of registries used by the snapshot theorems, its
   preservation by every operation of the loader, and a boolean checker for it.
   [wf R]: every definition index stored in an object is valid (reg_ok), every rule reference inside a definition
   and every exclusion is a valid object index, and every key is the folded spelling. *)
From Coq Require Import List NArith Arith Bool Lia.
Import ListNotations.
From ABNF Require Import Base Engine AbnfRead Registry EngineSound Checks RegistryProps GenTypes Loader LoadFrame1.

Fixpoint refs_ltb (n : nat) (e : expr) : bool :=
  match e with
  | ERef r => Nat.ltb (N.to_nat r) n
  | EAlt _ es => forallb (refs_ltb n) es
  | ECat es => forallb (refs_ltb n) es
  | ERep _ _ _ e' => refs_ltb n e'
  | _ => true
  end.
Definition excl_ok (n : nat) (o : robj) : Prop := forall x, oexcl o = Some x -> N.to_nat x < n.
Definition name_ok (o : robj) : Prop := okey o = fold_name (oname o).

Record wf (R : reg) : Prop := mkwf {
  wf_ok : reg_ok R;
  wf_refs : Forall (fun e => refs_ltb (length (objs R)) e = true) (defs R);
  wf_excl : Forall (excl_ok (length (objs R))) (objs R);
  wf_name : Forall name_ok (objs R) }.

Lemma refs_ltb_mono n m e : n <= m -> refs_ltb n e = true -> refs_ltb m e = true.
Proof.
  intros Hle. induction e as [cs v|lo hi|fm es IH|es IH|id mn mx e IH| |r] using expr_ind2; simpl; intros H;
    try reflexivity.
  - rewrite forallb_forall in *. rewrite Forall_forall in IH. intros x Hx. apply IH; auto.
  - rewrite forallb_forall in *. rewrite Forall_forall in IH. intros x Hx. apply IH; auto.
  - auto.
  - apply Nat.ltb_lt in H. apply Nat.ltb_lt. lia.
Qed.

(* ---- strengthened extension: the appended objects are blank and well named ---- *)
Definition blank (c : cls) (o : robj) : Prop := ocls o = c /\ odef o = None /\ oexcl o = None /\ name_ok o.
Definition ext2 (c : cls) (R R1 : reg) : Prop :=
  exists l, objs R1 = objs R ++ l /\ Forall (blank c) l /\ defs R1 = defs R.
Lemma ext2_refl c R : ext2 c R R.
Proof. exists []. rewrite app_nil_r. auto. Qed.
Lemma ext2_trans c R1 R2 R3 : ext2 c R1 R2 -> ext2 c R2 R3 -> ext2 c R1 R3.
Proof.
  intros (l1 & H1 & F1 & D1) (l2 & H2 & F2 & D2). exists (l1 ++ l2).
  rewrite H2, H1, app_assoc. repeat split; try congruence. apply Forall_app; auto.
Qed.
Lemma ext2_len c R R1 : ext2 c R R1 -> length (objs R) <= length (objs R1).
Proof. intros (l & H & _). rewrite H, app_length. lia. Qed.
Lemma rnew_ext2 R c n R1 k : rnew R c n = (R1, k) -> ext2 c R R1.
Proof.
  unfold rnew. destruct (rget R c n); intros H; inversion H; subst.
  - apply ext2_refl.
  - eexists; simpl; repeat split. constructor; [|constructor]. repeat split.
Qed.
Lemma ext2_nextid c R R1 x : ext2 c R R1 -> ext2 c R (mkr (objs R1) (defs R1) x (epoch R1)).
Proof. intros (l & A & B & C). exists l. simpl. auto. Qed.

Lemma clist_ext2 c es :
  Forall (fun a => forall R R1 e, compile c a R = (R1, e) ->
                   ext2 c R R1 /\ refs_ltb (length (objs R1)) e = true) es ->
  forall R R1 l, clist c es R = (R1, l) -> ext2 c R R1 /\ forallb (refs_ltb (length (objs R1))) l = true.
Proof.
  induction 1 as [|x r Hx Hr IH]; intros R R1 l H; simpl in H.
  - inversion H; subst. split; [apply ext2_refl|reflexivity].
  - destruct (compile c x R) as [Ra ea] eqn:Ea. destruct (clist c r Ra) as [Rb rb] eqn:Eb.
    inversion H; subst. destruct (Hx _ _ _ Ea) as [X1 X2]. destruct (IH _ _ _ Eb) as [Y1 Y2].
    split; [eapply ext2_trans; eauto|]. simpl. rewrite Y2, andb_true_r.
    eapply refs_ltb_mono; [|exact X2]. eapply ext2_len; eauto.
Qed.

Lemma compile_ext2 c a : forall R R1 e, compile c a R = (R1, e) ->
  ext2 c R R1 /\ refs_ltb (length (objs R1)) e = true.
Proof.
  induction a as [cs v|lo hi|es IH|es IH|mn mx a IH|a IH|v|nm] using aexpr_ind2; intros R R1 e0 H.
  - simpl in H. inversion H; subst. split; [apply ext2_refl|reflexivity].
  - simpl in H. inversion H; subst. split; [apply ext2_refl|reflexivity].
  - rewrite compile_alt in H. destruct (clist c es R) as [Ra la] eqn:E. inversion H; subst.
    eapply clist_ext2; eauto.
  - rewrite compile_cat in H. destruct (clist c es R) as [Ra la] eqn:E. inversion H; subst.
    eapply clist_ext2; eauto.
  - simpl in H. destruct (compile c a R) as [Ra ea] eqn:E. inversion H; subst.
    destruct (IH _ _ _ E) as [X1 X2]. split; [apply ext2_nextid; exact X1|exact X2].
  - simpl in H. destruct (compile c a R) as [Ra ea] eqn:E. inversion H; subst.
    destruct (IH _ _ _ E) as [X1 X2]. split; [apply ext2_nextid; exact X1|exact X2].
  - simpl in H. inversion H; subst. split; [apply ext2_refl|reflexivity].
  - simpl in H. destruct (rnew R c nm) as [Ra k] eqn:E. inversion H; subst.
    split; [eapply rnew_ext2; eauto|]. simpl. apply Nat.ltb_lt. rewrite Nat2N.id.
    apply (rnew_keeps _ _ _ _ _ E).
Qed.

(* ---- preservation by the primitives ---- *)
Lemma wf_ext2 c R R1 : ext2 c R R1 -> wf R -> wf R1.
Proof.
  intros (l & HO & HF & HD) [W1 W2 W3 W4].
  assert (Hlen : length (objs R) <= length (objs R1)) by (rewrite HO, app_length; lia).
  constructor.
  - unfold reg_ok. rewrite HO, HD. apply Forall_app. split; [exact W1|].
    eapply Forall_impl; [|exact HF]. intros o (_ & Hd & _) d Hd'. congruence.
  - rewrite HD. eapply Forall_impl; [|exact W2]. intros e He. eapply refs_ltb_mono; eauto.
  - rewrite HO at 2. apply Forall_app. split.
    + eapply Forall_impl; [|exact W3]. intros o Ho x Hx. specialize (Ho x Hx). lia.
    + eapply Forall_impl; [|exact HF]. intros o (_ & _ & Hx & _) x Hx'. congruence.
  - rewrite HO. apply Forall_app. split; [exact W4|]. eapply Forall_impl; [|exact HF]. intros o H; apply H.
Qed.

Lemma wf_set_def_idx R n d : d < length (defs R) -> wf R -> wf (set_def_idx R n d).
Proof.
  intros Hd [W1 W2 W3 W4]. constructor.
  - apply set_def_idx_ok; auto.
  - unfold set_def_idx; simpl. rewrite upd_nth_length. exact W2.
  - unfold set_def_idx; simpl. rewrite upd_nth_length. apply Forall_upd_nth; [exact W3|].
    intros o Ho x Hx. apply Ho. exact Hx.
  - unfold set_def_idx; simpl. apply Forall_upd_nth; [exact W4|]. intros o Ho. exact Ho.
Qed.

Lemma wf_set_def_new R n e : refs_ltb (length (objs R)) e = true -> wf R -> wf (set_def_new R n e).
Proof.
  intros He W. unfold set_def_new. apply wf_set_def_idx; [simpl; rewrite app_length; simpl; lia|].
  destruct W as [W1 W2 W3 W4]. constructor; simpl; try assumption.
  - unfold reg_ok in *; simpl. rewrite app_length; simpl.
    eapply Forall_impl; [|exact W1]. intros o Ho d Hd. specialize (Ho d Hd). lia.
  - apply Forall_app. split; [exact W2|]. constructor; [exact He|constructor].
Qed.

Lemma wf_set_flag n v R R' : set_flag n v R = Some R' -> wf R -> wf R'.
Proof.
  intros H W. destruct (set_flag_shape _ _ _ _ H) as (o & d & e & Ho & Hd & He & HO & HR).
  destruct HR as [->|(fm & es & -> & HD)]; [exact W|].
  pose proof (set_flag_ok _ _ _ _ H (wf_ok _ W)) as Hok.
  destruct W as [W1 W2 W3 W4]. constructor; [exact Hok| |rewrite HO; exact W3|rewrite HO; exact W4].
  rewrite HO, HD. apply Forall_upd_nth; [exact W2|]. intros x _.
  rewrite Forall_forall in W2. apply (W2 _ (nth_error_In _ _ He)).
Qed.

Lemma wf_rnew R c n R1 k : rnew R c n = (R1, k) -> wf R -> wf R1.
Proof. intros H. eapply wf_ext2. eapply rnew_ext2; eauto. Qed.

Lemma def_of_in R n e : def_of R n = Some e -> In e (defs R).
Proof.
  unfold def_of. destruct (nth_error (objs R) n) as [o|]; [|discriminate].
  destruct (odef o) as [d|]; [|discriminate]. apply nth_error_In.
Qed.

Lemma wf_define_rule c a R R' : define_rule c a R = Some R' -> wf R -> wf R'.
Proof.
  unfold define_rule. destruct (rnew R c (aname a)) as [R1 n] eqn:E1.
  destruct (compile c (adef a) R1) as [R2 e] eqn:E2. intros H W.
  destruct (compile_ext2 _ _ _ _ _ E2) as [X1 X2].
  assert (W2 : wf R2) by (eapply wf_ext2; [exact X1|eapply wf_rnew; eauto]).
  destruct (aincr a).
  - destruct (def_of R2 n) as [old|] eqn:Eo; [|discriminate]. inversion H; subst.
    apply wf_set_def_new; [|exact W2]. simpl. rewrite X2, andb_true_r.
    pose proof (wf_refs _ W2) as F. rewrite Forall_forall in F. rewrite (F _ (def_of_in _ _ _ Eo)). reflexivity.
  - inversion H; subst. apply wf_set_def_new; assumption.
Qed.
Lemma wf_define_rules c l : forall R R', define_rules c l R = Some R' -> wf R -> wf R'.
Proof.
  induction l as [|a r IH]; intros R R' H W; simpl in H.
  - inversion H; subst; exact W.
  - destruct (define_rule c a R) as [Ra|] eqn:E; [|discriminate]. eapply IH; eauto. eapply wf_define_rule; eauto.
Qed.
Lemma wf_import_rule c nm src R R' : import_rule c nm src R = Some R' -> wf R -> wf R'.
Proof.
  unfold import_rule. destruct (nth_error (objs R) src) as [o|] eqn:Eo; [|discriminate].
  destruct (odef o) as [d|] eqn:Ed; [|discriminate].
  destruct (rnew R c nm) as [R1 n] eqn:E1. intros H W. inversion H; subst.
  pose proof (reg_ok_nth _ _ _ _ (wf_ok _ W) Eo Ed) as Hd.
  pose proof (rnew_keeps _ _ _ _ _ E1) as (_ & HD & _).
  apply wf_set_def_idx; [rewrite HD; exact Hd|]. eapply wf_rnew; eauto.
Qed.
Lemma wf_apply_imports c imps : forall R R', apply_imports c imps R = Some R' -> wf R -> wf R'.
Proof.
  induction imps as [|[local n] r IH]; intros R R' H W; simpl in H.
  - inversion H; subst; exact W.
  - destruct (import_rule c local n R) as [Ra|] eqn:E; [|discriminate].
    eapply IH; eauto. eapply wf_import_rule; eauto.
Qed.
Lemma wf_eval_imports classes l : forall R R1 imps, eval_imports classes l R = Some (R1, imps) -> wf R -> wf R1.
Proof.
  induction l as [|[local [[m c'] rn]] r IH]; intros R R1 imps H W; simpl in H.
  - inversion H; subst; exact W.
  - destruct (cls_of classes m c') as [sc|]; [|discriminate].
    destruct (rnew R sc rn) as [Ra n] eqn:En.
    destruct (eval_imports classes r Ra) as [[R2 l2]|] eqn:Er; [|discriminate].
    inversion H; subst. eapply IH; eauto. eapply wf_rnew; eauto.
Qed.
Lemma wf_set_flags l v : forall R R', set_flags l v R = Some R' -> wf R -> wf R'.
Proof.
  induction l as [|n r IH]; intros R R' H W; simpl in H.
  - inversion H; subst; exact W.
  - destruct (set_flag n v R) as [Ra|] eqn:E; [|discriminate]. eapply IH; eauto. eapply wf_set_flag; eauto.
Qed.
Lemma wf_own_loop src v l : forall R R', own_loop src v l R = Some R' -> wf R -> wf R'.
Proof.
  induction l as [|n r IH]; intros R R' H W; simpl in H.
  - inversion H; subst; exact W.
  - destruct (odef_of R n) as [d|]; [|discriminate].
    destruct (match rget R src (oname_of R n) with
              | Some k => match odef_of R k with Some d' => Nat.eqb d d' | None => false end
              | None => false end); [eapply IH; eauto|].
    destruct (set_flag n v R) as [Ra|] eqn:E; [|discriminate]. eapply IH; eauto. eapply wf_set_flag; eauto.
Qed.
Lemma wf_apply_flag classes c f R R' : apply_flag classes c f R = Some R' -> wf R -> wf R'.
Proof.
  destruct f as [name v|v|m sc v].
  - simpl. destruct (rnew R c name) as [R1 n] eqn:E1. intros H W.
    eapply wf_set_flag; eauto. eapply wf_rnew; eauto.
  - simpl. apply wf_set_flags.
  - rewrite apply_flag_own. destruct (cls_of classes m sc); [|discriminate]. apply wf_own_loop.
Qed.
Lemma wf_apply_flags classes c l : forall R R', apply_flags classes c l R = Some R' -> wf R -> wf R'.
Proof.
  induction l as [|f r IH]; intros R R' H W; simpl in H.
  - inversion H; subst; exact W.
  - destruct (apply_flag classes c f R) as [Ra|] eqn:E; [|discriminate].
    eapply IH; eauto. eapply wf_apply_flag; eauto.
Qed.
Theorem wf_load_class classes g R R' : load_class classes g R = Some R' -> wf R -> wf R'.
Proof.
  intros H W. destruct (load_class_phases _ _ _ _ H) as (c & R1 & imps & R2 & R3 & l & _ & E1 & _ & E2 & E3 & E4).
  eapply wf_apply_flags; eauto. eapply wf_apply_imports; eauto. eapply wf_define_rules; eauto.
  eapply wf_eval_imports; eauto.
Qed.
Theorem wf_load_classes classes L : forall R R', load_classes classes L R = Some R' -> wf R -> wf R'.
Proof.
  induction L as [|g r IH]; intros R R' H W; simpl in H.
  - inversion H; subst; exact W.
  - destruct (load_class classes g R) as [Ra|] eqn:E; [|discriminate].
    eapply IH; eauto. eapply wf_load_class; eauto.
Qed.

(* ---- boolean checker ---- *)
Definition wfb (R : reg) : bool :=
  let no := length (objs R) in let nd := length (defs R) in
  forallb (fun o => match odef o with Some d => Nat.ltb d nd | None => true end) (objs R) &&
  forallb (refs_ltb no) (defs R) &&
  forallb (fun o => match oexcl o with Some x => Nat.ltb (N.to_nat x) no | None => true end) (objs R) &&
  forallb (fun o => str_eqb (okey o) (fold_name (oname o))) (objs R).
Lemma wfb_sound R : wfb R = true -> wf R.
Proof.
  unfold wfb. intros H. apply andb_true_iff in H. destruct H as [H H4].
  apply andb_true_iff in H. destruct H as [H H3]. apply andb_true_iff in H. destruct H as [H1 H2].
  rewrite forallb_forall in H1, H2, H3, H4. constructor.
  - unfold reg_ok. apply Forall_forall. intros o Ho d Hd. specialize (H1 o Ho). rewrite Hd in H1.
    apply Nat.ltb_lt. exact H1.
  - apply Forall_forall. exact H2.
  - apply Forall_forall. intros o Ho x Hx. specialize (H3 o Ho). rewrite Hx in H3. apply Nat.ltb_lt. exact H3.
  - apply Forall_forall. intros o Ho. apply (proj1 (str_eqb_eq _ _)). apply H4. exact Ho.
Qed.

Print Assumptions wf_load_class.
Print Assumptions wf_load_classes.
Print Assumptions wfb_sound.
