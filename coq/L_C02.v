(* L_C02.v — property C02: the wrappers [parse] (longest match) and [parse_all] (whole input)
   answer, with enough fuel, exactly as the specification M says, on well-formed closed plain
   grammars, under every permutation oracle. *)
From Coq Require Import List NArith Arith Bool Lia Permutation Sorted.
Import ListNotations.
From ABNF Require Import Base Engine Spec Wf Checks EngineSound EngineDet EngineComplete EngineTerm L_C03.

(* ------------------------------------------------------------------ *)
(* 1. sort_desc builds a list that is descending by [mend]              *)
(* ------------------------------------------------------------------ *)
Definition ge_end (a b : mtch) : Prop := mend b <= mend a.
Definition desc (l : list mtch) : Prop := StronglySorted ge_end l.

Lemma ins_desc m : forall l, desc l -> desc (ins m l).
Proof.
  induction l as [|x l IH]; intros Hd.
  - simpl. constructor; constructor.
  - simpl. inversion Hd as [|x0 l0 Hl Hx]; subst.
    destruct (Nat.ltb (mend x) (mend m)) eqn:E.
    + apply Nat.ltb_lt in E. constructor; [exact Hd|].
      constructor; [unfold ge_end; lia|].
      apply Forall_forall. intros b Hb.
      pose proof (proj1 (Forall_forall _ _) Hx b Hb) as Hbx. unfold ge_end in *. lia.
    + apply Nat.ltb_ge in E. constructor; [apply IH; exact Hl|].
      apply Forall_forall. intros b Hb.
      destruct (proj1 (EngineSound.in_ins m b l) Hb) as [->|Hb'].
      * unfold ge_end. exact E.
      * exact (proj1 (Forall_forall _ _) Hx b Hb').
Qed.

Lemma fold_ins_desc : forall l acc, desc acc -> desc (fold_left (fun a m => ins m a) l acc).
Proof.
  induction l as [|x l IH]; intros acc Ha; simpl.
  - exact Ha.
  - apply IH. apply ins_desc. exact Ha.
Qed.

Lemma sort_desc_desc l : desc (sort_desc l).
Proof. unfold sort_desc. apply fold_ins_desc. constructor. Qed.

(* the head of a sorted list has the greatest end among the elements of the input *)
Lemma sort_desc_head_max l m rest : sort_desc l = m :: rest ->
  forall x, In x l -> mend x <= mend m.
Proof.
  intros Hs x Hx.
  pose proof (sort_desc_desc l) as Hd. rewrite Hs in Hd.
  pose proof (proj2 (EngineSound.in_sort_desc x l) Hx) as Hin. rewrite Hs in Hin.
  inversion Hd as [|x0 l0 Hl Hall]; subst.
  destruct Hin as [->|Hin]; [lia|].
  exact (proj1 (Forall_forall _ _) Hall x Hin).
Qed.

(* ------------------------------------------------------------------ *)
(* 2. next_longest (set_of ms)                                          *)
(* ------------------------------------------------------------------ *)
Lemma sh_ne sh : perm_oracle sh -> forall l, l <> [] -> sh l <> [].
Proof.
  intros Hsh l Hne E. destruct (EngineSound.ne_in l Hne) as [x Hx].
  pose proof (proj2 (in_sh_perm sh Hsh x l) Hx) as Hx'. rewrite E in Hx'. exact Hx'.
Qed.

Lemma next_longest_ne sh : perm_oracle sh -> forall ms, ms <> [] ->
  next_longest sh (set_of ms) <> [].
Proof.
  intros Hsh ms Hne. unfold next_longest.
  apply EngineSound.sort_desc_ne. apply sh_ne; [exact Hsh|].
  apply EngineSound.set_of_ne. exact Hne.
Qed.

Lemma next_longest_head_in sh : perm_oracle sh -> forall ms m rest,
  next_longest sh (set_of ms) = m :: rest -> In m ms.
Proof.
  intros Hsh ms m rest Hn. unfold next_longest in Hn.
  apply in_set_of. apply (proj1 (in_sh_perm sh Hsh _ _)).
  apply (proj1 (EngineSound.in_sort_desc _ _)). rewrite Hn. left. reflexivity.
Qed.

Lemma next_longest_head_max sh : perm_oracle sh -> forall ms m rest,
  next_longest sh (set_of ms) = m :: rest -> forall j, has ms j -> j <= mend m.
Proof.
  intros Hsh ms m rest Hn j Hj. unfold next_longest in Hn.
  destruct (proj2 (has_set_of ms j) Hj) as [x [Hx Hxe]].
  pose proof (proj2 (in_sh_perm sh Hsh x _) Hx) as Hx'.
  pose proof (sort_desc_head_max _ _ _ Hn x Hx') as Hle. lia.
Qed.

(* ------------------------------------------------------------------ *)
(* 3. parse in terms of lparse                                          *)
(* ------------------------------------------------------------------ *)
Lemma parse_of_ok sh G : perm_oracle sh -> forall f r s i ms,
  lparse sh G f (ERef r) s i = Ok ms -> ms <> [] ->
  exists m rest, next_longest sh (set_of ms) = m :: rest /\ parse sh G f r s i = Ok [m].
Proof.
  intros Hsh f r s i ms Hl Hne. unfold parse. rewrite Hl.
  pose proof (next_longest_ne sh Hsh ms Hne) as Hn.
  destruct (next_longest sh (set_of ms)) as [|m rest]; [congruence|].
  exists m, rest. split; reflexivity.
Qed.

Lemma parse_of_perr sh G f r s i :
  lparse sh G f (ERef r) s i = PErr -> parse sh G f r s i = PErr.
Proof. intros Hl. unfold parse. rewrite Hl. reflexivity. Qed.

Lemma closed_expr_ref G r : defined G r -> closed_expr G (ERef r).
Proof. intros Hd x Hx. simpl in Hx. destruct Hx as [<-|[]]. exact Hd. Qed.

(* ------------------------------------------------------------------ *)
(* 4. C02 for parse                                                     *)
(* ------------------------------------------------------------------ *)
Theorem c02_parse sh nul rank G : perm_oracle sh -> wf nul rank G -> closed G -> plain G ->
  forall r s i, defined G r -> i <= length s ->
  exists f, forall f', f <= f' ->
    (forall m, parse sh G f' r s i = Ok [m] ->
        M G s (ERef r) i (mend m) /\ (forall j, M G s (ERef r) i j -> j <= mend m) /\
        tree_ok G s r i m /\ nsvalue (nodes m) = slice s i (mend m - i)) /\
    (parse sh G f' r s i = PErr <-> (forall j, ~ M G s (ERef r) i j)) /\
    ((exists m, parse sh G f' r s i = Ok [m]) \/ parse sh G f' r s i = PErr).
Proof.
  intros Hsh Hwf Hcl Hpl r s i Hdef Hi.
  pose proof (proj1 Hwf) as Hwb.
  destruct (lparse_answers sh nul rank G Hsh Hwf Hcl (ERef r) s i (WB_ref r)
              (closed_expr_ref G r Hdef) Hi) as [f Hf].
  exists f. intros f' Hle. specialize (Hf f' Hle).
  destruct Hf as [Hpe|[ms [Hok Hne]]].
  - (* lparse = PErr *)
    pose proof (parse_of_perr sh G f' r s i Hpe) as Hp.
    assert (HnoM : forall j, ~ M G s (ERef r) i j).
    { intros j. exact (lparse_perr sh G Hsh Hpl Hwb f' (ERef r) s i j (NF_ref r) (WB_ref r) Hpe Hi). }
    split; [|split].
    + intros m Hm. rewrite Hp in Hm. discriminate.
    + split; [intros _; exact HnoM|intros _; exact Hp].
    + right. exact Hp.
  - (* lparse = Ok ms, ms nonempty *)
    destruct (parse_of_ok sh G Hsh f' r s i ms Hok Hne) as [m0 [rest [Hn Hp]]].
    pose proof (next_longest_head_in sh Hsh ms m0 rest Hn) as Hin.
    pose proof (lparse_sound_ends sh G Hsh Hwb f' (ERef r) s i ms (WB_ref r) Hok Hi m0 Hin) as HM0.
    split; [|split].
    + intros m Hm. rewrite Hp in Hm. injection Hm as <-.
      split; [exact HM0|]. split.
      * intros j Hj. apply (next_longest_head_max sh Hsh ms m0 rest Hn).
        exact (lparse_complete sh G Hsh Hpl Hwb f' (ERef r) s i ms j (NF_ref r) (WB_ref r) Hok Hi Hj).
      * pose proof (c03_parse sh G Hsh Hwb f' r s i m0 Hi Hp) as Ht.
        split; [exact Ht|].
        destruct Ht as [_ [_ Hfa]]. exact (proj1 (proj2 Hfa)).
    + split.
      * intros Hpe. rewrite Hp in Hpe. discriminate.
      * intros HnoM. exfalso. exact (HnoM _ HM0).
    + left. exists m0. exact Hp.
Qed.

(* ------------------------------------------------------------------ *)
(* 5. C02 for parse_all                                                 *)
(* ------------------------------------------------------------------ *)
Lemma slice_all (s : str) : slice s 0 (length s - 0) = s.
Proof. unfold slice. simpl. rewrite Nat.sub_0_r. apply firstn_all. Qed.

Theorem c02_parse_all sh nul rank G : perm_oracle sh -> wf nul rank G -> closed G -> plain G ->
  forall r s, defined G r ->
  exists f, forall f', f <= f' ->
    ((exists m, parse_all sh G f' r s = Ok [m]) <-> M G s (ERef r) 0 (length s)) /\
    (forall m, parse_all sh G f' r s = Ok [m] ->
        mend m = length s /\ nsvalue (nodes m) = s /\ tree_ok G s r 0 m) /\
    ((exists m, parse_all sh G f' r s = Ok [m]) \/ parse_all sh G f' r s = PErr).
Proof.
  intros Hsh Hwf Hcl Hpl r s Hdef.
  pose proof (proj1 Hwf) as Hwb.
  destruct (c02_parse sh nul rank G Hsh Hwf Hcl Hpl r s 0 Hdef (Nat.le_0_l _)) as [f Hf].
  exists f. intros f' Hle. destruct (Hf f' Hle) as [Hsucc [Hperr Hdich]]. clear Hf.
  assert (Hsound : forall m, parse_all sh G f' r s = Ok [m] ->
            mend m = length s /\ nsvalue (nodes m) = s /\ tree_ok G s r 0 m).
  { intros m Hm. destruct (c03_parse_all sh G Hsh Hwb f' r s m Hm) as [Ht He].
    split; [exact He|]. split; [|exact Ht].
    destruct Ht as [_ [_ Hfa]]. pose proof (proj1 (proj2 Hfa)) as Hv.
    rewrite He in Hv. rewrite slice_all in Hv. exact Hv. }
  split; [|split].
  - split.
    + intros [m Hm]. destruct (parse_all_sound sh G Hsh Hwb f' r s m Hm) as [HD _].
      eapply D_M. exact HD.
    + intros HM. destruct Hdich as [[m Hp]|Hp].
      * destruct (Hsucc m Hp) as [_ [Hmax _]]. pose proof (Hmax _ HM) as Hge.
        exists m. unfold parse_all. rewrite Hp.
        destruct (Nat.ltb (mend m) (length s)) eqn:E; [|reflexivity].
        apply Nat.ltb_lt in E. lia.
      * exfalso. exact (proj1 Hperr Hp _ HM).
  - exact Hsound.
  - destruct Hdich as [[m Hp]|Hp].
    + unfold parse_all. rewrite Hp.
      destruct (Nat.ltb (mend m) (length s)); [right; reflexivity|left; exists m; reflexivity].
    + right. unfold parse_all. rewrite Hp. reflexivity.
Qed.

Print Assumptions c02_parse.
Print Assumptions c02_parse_all.
