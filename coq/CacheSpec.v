(* CacheSpec.v — abstract LRU specification against which the model of Cache.v is proved.
   A state is a finite map key -> (value, last-use stamp), kept as an UNORDERED list of
   triples; no operation below depends on the order of [items].  A logical [clock]
   supplies fresh stamps.  No proofs here (see CacheProps.v). *)
From Coq Require Import List Arith Bool.
Import ListNotations.

Section CacheSpec.
  Variables K V : Type.
  Variable keqb : K -> K -> bool.

  (* the operation alphabet and what each Python call returns *)
  Inductive op := OGet (k : K) | OSet (k : K) (v : V) | ODel (k : K) | OLen | OClear
                | OInvalidate (* global epoch += 1 *).
  Inductive out := RGet (r : option V) | RUnit | RDel (ok : bool) | RLen (n : nat).

  Definition item := (K * V * nat)%type.            (* key, value, last-use stamp *)
  Definition ikey (i : item) : K := fst (fst i).
  Definition ival (i : item) : V := snd (fst i).
  Definition istamp (i : item) : nat := snd i.

  Record sstate := mks {
    items : list item;
    clock : nat;
    limit : option nat;          (* None or Some 0 = unlimited *)
    nhits : nat; nmisses : nat
  }.

  Definition snew (lim : option nat) : sstate := mks [] 0 lim 0 0.

  (* the value stored under k *)
  Fixpoint sfind (k : K) (l : list item) : option V :=
    match l with
    | [] => None
    | i :: r => if keqb k (ikey i) then Some (ival i) else sfind k r
    end.
  (* set the stamp of k to t, in place *)
  Definition stouch (k : K) (t : nat) (l : list item) : list item :=
    map (fun i => if keqb k (ikey i) then (ikey i, ival i, t) else i) l.
  (* replace the value of k, stamp untouched *)
  Definition sassign (k : K) (v : V) (l : list item) : list item :=
    map (fun i => if keqb k (ikey i) then (ikey i, v, istamp i) else i) l.
  Definition sdelete (k : K) (l : list item) : list item :=
    filter (fun i => negb (keqb k (ikey i))) l.
  (* i is an oldest item of l: its stamp is <= every stamp in l *)
  Definition oldest (l : list item) (i : item) : bool :=
    forallb (fun j => istamp i <=? istamp j) l.
  (* remove the item(s) with the minimal stamp *)
  Definition evict (l : list item) : list item := filter (fun i => negb (oldest l i)) l.
  (* a limit n >= 1 is exceeded by cnt items *)
  Definition over (lim : option nat) (cnt : nat) : bool :=
    match lim with Some n => (1 <=? n) && (n <? cnt) | None => false end.

  Definition sget (k : K) (s : sstate) : option V * sstate :=
    match sfind k (items s) with
    | Some v => (Some v, mks (stouch k (clock s) (items s)) (S (clock s)) (limit s)
                             (S (nhits s)) (nmisses s))
    | None => (None, mks (items s) (clock s) (limit s) (nhits s) (S (nmisses s)))
    end.

  Definition sset (k : K) (v : V) (s : sstate) : sstate :=
    match sfind k (items s) with
    | Some _ => mks (sassign k v (items s)) (clock s) (limit s) (nhits s) (nmisses s)
    | None =>
        let l := (k, v, clock s) :: items s in
        mks (if over (limit s) (length l) then evict l else l) (S (clock s)) (limit s)
            (nhits s) (nmisses s)
    end.

  Definition sdel (k : K) (s : sstate) : bool * sstate :=
    match sfind k (items s) with
    | Some _ => (true, mks (sdelete k (items s)) (clock s) (limit s) (nhits s) (nmisses s))
    | None => (false, s)
    end.

  Definition sclear (s : sstate) : sstate := mks [] (clock s) (limit s) 0 0.
  Definition sinvalidate (s : sstate) : sstate :=
    mks [] (clock s) (limit s) (nhits s) (nmisses s).

  Definition sstep (s : sstate) (o : op) : sstate * out :=
    match o with
    | OGet k => let (r, s') := sget k s in (s', RGet r)
    | OSet k v => (sset k v s, RUnit)
    | ODel k => let (b, s') := sdel k s in (s', RDel b)
    | OLen => (s, RLen (length (items s)))
    | OClear => (sclear s, RUnit)
    | OInvalidate => (sinvalidate s, RUnit)
    end.

  Definition srun (s : sstate) (ops : list op) : sstate :=
    fold_left (fun s o => fst (sstep s o)) ops s.
End CacheSpec.

Arguments OGet {K V} k.
Arguments OSet {K V} k v.
Arguments ODel {K V} k.
Arguments OLen {K V}.
Arguments OClear {K V}.
Arguments OInvalidate {K V}.
Arguments RGet {V} r.
Arguments RUnit {V}.
Arguments RDel {V} ok.
Arguments RLen {V} n.
Arguments ikey {K V} i.
Arguments ival {K V} i.
Arguments istamp {K V} i.
Arguments mks {K V} items clock limit nhits nmisses.
Arguments items {K V} s.
Arguments clock {K V} s.
Arguments limit {K V} s.
Arguments nhits {K V} s.
Arguments nmisses {K V} s.
Arguments snew {K V} lim.
Arguments sfind {K V} keqb k l.
Arguments stouch {K V} keqb k t l.
Arguments sassign {K V} keqb k v l.
Arguments sdelete {K V} keqb k l.
Arguments oldest {K V} l i.
Arguments evict {K V} l.
Arguments sget {K V} keqb k s.
Arguments sset {K V} keqb k v s.
Arguments sdel {K V} keqb k s.
Arguments sclear {K V} s.
Arguments sinvalidate {K V} s.
Arguments sstep {K V} keqb s o.
Arguments srun {K V} keqb s ops.
