(* LoadSim1.v — C14, stage 3c: the concrete loader simulates the abstract one, part 1:
   snapshots under lookups, appends and updates; [rnew] and [compile] against [arnew] and [acompile]. *)
From Coq Require Import List NArith Arith Bool Lia.
Import ListNotations.
From ABNF Require Import Base Engine AbnfRead Registry EngineSound Checks RegistryProps GenTypes Loader
     GenBundled Bundled TablesAll LoadFrame1 LoadWf LoadFrame2 LoadUq LoadAbs.

Definition isc (c : cls) (o : robj) : bool := N.eqb (ocls o) c.
Lemma class_snapshot_eq X c : class_snapshot X c = map (snap_obj X) (filter (isc c) (objs X)).
Proof. reflexivity. Qed.

(* ------------------------------------------------------------------------------------------ *)
(* A. lists                                                                                    *)
(* ------------------------------------------------------------------------------------------ *)
Lemma afind_map (s : robj -> entry) c k l : (forall o, ekey (s o) = okey o) -> forall st,
  match find_obj c k l st with
  | Some n => st <= n /\ exists o, nth_error l (n - st) = Some o /\ ck o = (c, k) /\
                                   afind k (map s (filter (isc c) l)) = Some (s o)
  | None => afind k (map s (filter (isc c) l)) = None
  end.
Proof.
  intros Hs. induction l as [|x r IH]; intros st; simpl; [reflexivity|].
  change (isc c x) with (N.eqb (ocls x) c). destruct (N.eqb (ocls x) c) eqn:Ec; simpl.
  - destruct (str_eqb (okey x) k) eqn:Ek; simpl.
    + split; [lia|]. exists x. rewrite Nat.sub_diag. simpl. split; [reflexivity|].
      split; [unfold ck; apply N.eqb_eq in Ec; apply (proj1 (str_eqb_eq _ _)) in Ek; congruence|].
      rewrite Hs, Ek. reflexivity.
    + rewrite Hs, Ek. specialize (IH (S st)). destruct (find_obj c k r (S st)) as [n|]; [|exact IH].
      destruct IH as (Hle & o & Ho & Hck & Hf). split; [lia|]. exists o.
      replace (n - st) with (S (n - S st)) by lia. simpl. auto.
  - specialize (IH (S st)). destruct (find_obj c k r (S st)) as [n|]; [|exact IH].
    destruct IH as (Hle & o & Ho & Hck & Hf). split; [lia|]. exists o.
    replace (n - st) with (S (n - S st)) by lia. simpl. auto.
Qed.

Lemma aset_map (s s' : robj -> entry) c k (f : robj -> robj) g l :
  (forall o, ekey (s o) = okey o) -> (forall o, ocls (f o) = ocls o) ->
  forall st n, find_obj c k l st = Some n ->
  (forall j o, nth_error l j = Some o -> j <> n - st -> s' o = s o) ->
  (forall o, nth_error l (n - st) = Some o -> s' (f o) = eset g (s o)) ->
  map s' (filter (isc c) (upd_nth l (n - st) f)) = aset k g (map s (filter (isc c) l)).
Proof.
  intros Hs Hfc. induction l as [|x r IH]; intros st n Hf H1 H2; simpl in Hf; [discriminate|].
  assert (Htail : forall m, m = n - st -> m = 0 ->
                  map s' (filter (isc c) r) = map s (filter (isc c) r)).
  { intros m Hm Hz. apply map_ext_in. intros o Ho. apply filter_In in Ho. destruct Ho as [Hin _].
    apply In_nth_error in Hin. destruct Hin as [j Hj]. apply (H1 (S j) o Hj). lia. }
  destruct (N.eqb (ocls x) c) eqn:Ec; simpl in Hf.
  - destruct (str_eqb (okey x) k) eqn:Ek.
    + inversion Hf; subst n. rewrite Nat.sub_diag in *. simpl.
      change (isc c (f x)) with (N.eqb (ocls (f x)) c). change (isc c x) with (N.eqb (ocls x) c).
      rewrite Hfc, Ec. simpl.
      rewrite Hs, Ek. f_equal; [apply H2; reflexivity|]. apply (Htail 0); reflexivity.
    + pose proof (find_obj_spec _ _ _ _ _ Hf) as [Hle _].
      assert (Heq : n - st = S (n - S st)) by lia. rewrite Heq. simpl.
      change (isc c x) with (N.eqb (ocls x) c). rewrite Ec. simpl.
      rewrite Hs, Ek. f_equal; [apply (H1 0 x eq_refl); lia|].
      apply (IH (S st) n Hf).
      * intros j o Hj Hne. apply (H1 (S j) o Hj). lia.
      * intros o Ho. apply H2. rewrite Heq. exact Ho.
  - pose proof (find_obj_spec _ _ _ _ _ Hf) as [Hle _].
    assert (Heq : n - st = S (n - S st)) by lia. rewrite Heq. simpl.
    change (isc c x) with (N.eqb (ocls x) c). rewrite Ec.
    apply (IH (S st) n Hf).
    + intros j o Hj Hne. apply (H1 (S j) o Hj). lia.
    + intros o Ho. apply H2. rewrite Heq. exact Ho.
Qed.

Lemma filter_blank c c' l : Forall (blank c) l ->
  filter (isc c') l = if N.eqb c c' then l else [].
Proof.
  induction 1 as [|x r Hx Hr IH]; simpl; [destruct (N.eqb c c'); reflexivity|].
  destruct Hx as (Hx & _). change (isc c' x) with (N.eqb (ocls x) c'). rewrite Hx, IH. destruct (N.eqb c c'); reflexivity.
Qed.

Lemma upd_nth_app2 {A} (l1 l2 : list A) n f : length l1 <= n ->
  upd_nth (l1 ++ l2) n f = l1 ++ upd_nth l2 (n - length l1) f.
Proof.
  revert n. induction l1 as [|x r IH]; intros n Hle; simpl.
  - rewrite Nat.sub_0_r. reflexivity.
  - destruct n; simpl in Hle; [lia|]. simpl. rewrite IH by lia. reflexivity.
Qed.

Lemma canon_ext X Y e : objs X = objs Y -> canon X e = canon Y e.
Proof.
  intros HO. induction e as [cs v|lo hi|fm es IH|es IH|id mn mx e IH| |r] using expr_ind2; simpl;
    try reflexivity.
  - f_equal. apply map_ext_in. intros x Hx. rewrite Forall_forall in IH. auto.
  - f_equal. apply map_ext_in. intros x Hx. rewrite Forall_forall in IH. auto.
  - f_equal. exact IH.
  - rewrite HO. reflexivity.
Qed.

Lemma snap_obj_ext X Y o : objs X = objs Y -> defs X = defs Y -> snap_obj X o = snap_obj Y o.
Proof.
  intros HO HD. unfold snap_obj. rewrite HO, HD. f_equal. f_equal.
  destruct (odef o) as [d|]; [|reflexivity]. destruct (nth_error (defs Y) d) as [e|]; [|reflexivity].
  f_equal. apply canon_ext. exact HO.
Qed.
Lemma class_snapshot_ext X Y c : objs X = objs Y -> defs X = defs Y -> class_snapshot X c = class_snapshot Y c.
Proof.
  intros HO HD. rewrite !class_snapshot_eq, HO. apply map_ext. intros o. apply snap_obj_ext; assumption.
Qed.

(* ------------------------------------------------------------------------------------------ *)
(* B. extension by blank objects                                                               *)
(* ------------------------------------------------------------------------------------------ *)
Lemma ext2_keys c X X1 : ext2 c X X1 -> keys_kept X X1.
Proof.
  intros (l & HO & _) j o Hj. exists o. split; [|apply sbd_refl].
  rewrite HO, nth_error_app1; [exact Hj|]. apply nth_error_Some. rewrite Hj. discriminate.
Qed.
Lemma ext2_snap c X X1 o : wf X -> ext2 c X X1 -> In o (objs X) -> snap_obj X1 o = snap_obj X o.
Proof.
  intros W E Hin. apply snap_obj_stable; auto; [eapply ext2_keys; eauto|].
  destruct E as (_ & _ & _ & HD). intros d _. rewrite HD. reflexivity.
Qed.
Definition blank_entry (o : robj) : entry := (okey o, oname o, None, None).
Lemma blank_snap c X o : blank c o -> snap_obj X o = blank_entry o.
Proof. intros (_ & Hd & Hx & _). unfold snap_obj, blank_entry. rewrite Hd, Hx. reflexivity. Qed.

Lemma ext2_snapshot c X X1 c' : wf X -> ext2 c X X1 ->
  exists l, objs X1 = objs X ++ l /\ Forall (blank c) l /\
            class_snapshot X1 c' = class_snapshot X c' ++ (if N.eqb c c' then map blank_entry l else []).
Proof.
  intros W E. pose proof E as (l & HO & HF & HD). exists l. split; [exact HO|]. split; [exact HF|].
  rewrite !class_snapshot_eq, HO, filter_app, map_app. f_equal.
  - apply map_ext_in. intros o Ho. apply filter_In in Ho. destruct Ho as [Hin _]. eapply ext2_snap; eauto.
  - rewrite (filter_blank c c' l HF). destruct (N.eqb c c'); [|reflexivity].
    apply map_ext_in. intros o Ho. rewrite Forall_forall in HF. eapply blank_snap; eauto.
Qed.

(* ------------------------------------------------------------------------------------------ *)
(* C. rnew and compile                                                                         *)
(* ------------------------------------------------------------------------------------------ *)
Section Lite.
  Variables (c : cls) (s0 : list entry).
  Hypothesis Hc0 : c <> 0%N.

  Record lite (X : reg) (own : list entry) : Prop := mklite {
    l_wf : wf X; l_uq : uq X;
    l_core : class_snapshot X 0%N = s0;
    l_own : class_snapshot X c = own }.

  Lemma lite_nextid X own x : lite X own -> lite (mkr (objs X) (defs X) x (epoch X)) own.
  Proof.
    intros [[W1 W2 W3 W4] U HC HO]. constructor; [constructor; assumption|exact U| |].
    - rewrite <- HC. apply class_snapshot_ext; reflexivity.
    - rewrite <- HO. apply class_snapshot_ext; reflexivity.
  Qed.

  Lemma lite_ext2 X own X1 : lite X own -> ext2 c X X1 -> uq X1 ->
    exists l, objs X1 = objs X ++ l /\ Forall (blank c) l /\ lite X1 (own ++ map blank_entry l).
  Proof.
    intros [W U HC HO] E U1.
    destruct (ext2_snapshot c X X1 c W E) as (l & A1 & A2 & A3).
    destruct (ext2_snapshot c X X1 0%N W E) as (l' & B1 & B2 & B3).
    exists l. split; [exact A1|]. split; [exact A2|]. constructor.
    - eapply wf_ext2; eauto.
    - exact U1.
    - rewrite B3. apply N.eqb_neq in Hc0. rewrite Hc0, app_nil_r. exact HC.
    - rewrite A3, N.eqb_refl, HO. reflexivity.
  Qed.

  Lemma lite_rnew X own name X1 n own1 ref :
    lite X own -> rnew X c name = (X1, n) -> arnew c s0 own name = (own1, ref) ->
    lite X1 own1 /\ ext2 c X X1 /\ find_obj (fst ref) (snd ref) (objs X1) 0 = Some n /\
    snd ref = fold_name name /\ (fst ref = c \/ fst ref = 0%N).
  Proof.
    intros L Hr Ha. pose proof Hr as Hr0. pose proof L as [W U HC HO].
    unfold rnew, rget in Hr. unfold arnew in Ha.
    pose proof (afind_map (snap_obj X) c (fold_name name) (objs X) (fun o => eq_refl) 0) as F1.
    pose proof (afind_map (snap_obj X) 0%N (fold_name name) (objs X) (fun o => eq_refl) 0) as F0.
    rewrite <- class_snapshot_eq in F1, F0. rewrite HO in F1. rewrite HC in F0.
    destruct (find_obj c (fold_name name) (objs X) 0) as [m|] eqn:E1.
    - destruct F1 as (_ & o & Ho & Hck & Hf). rewrite Hf in Ha.
      inversion Hr; subst X1 n. inversion Ha; subst own1 ref. simpl.
      split; [exact L|]. split; [apply ext2_refl|]. auto.
    - rewrite F1 in Ha. destruct (find_obj 0%N (fold_name name) (objs X) 0) as [m|] eqn:E0.
      + destruct F0 as (_ & o & Ho & Hck & Hf). rewrite Hf in Ha.
        inversion Hr; subst X1 n. inversion Ha; subst own1 ref. simpl.
        split; [exact L|]. split; [apply ext2_refl|]. auto.
      + rewrite F0 in Ha. inversion Ha; subst own1 ref. simpl.
        pose proof (rnew_ext2 _ _ _ _ _ Hr0) as E.
        destruct (lite_ext2 X own X1 L E (uq_rnew _ _ _ _ _ Hr0 U)) as (l & A1 & A2 & A3).
        inversion Hr; subst X1 n. simpl in A1. apply app_inv_head in A1. subst l.
        split; [exact A3|]. split; [exact E|]. simpl. rewrite find_obj_app, E1. simpl.
        rewrite N.eqb_refl, str_eqb_refl. auto.
  Qed.

  Definition compile_sim (a : aexpr) : Prop :=
    forall X own X1 e own1 t, lite X own -> compile c a X = (X1, e) -> acompile c s0 a own = (own1, t) ->
      lite X1 own1 /\ ext2 c X X1 /\ canon X1 e = t /\ refs_ltb (length (objs X1)) e = true.

  Lemma lite_clist es : Forall compile_sim es ->
    forall X own X1 le own1 ts, lite X own -> clist c es X = (X1, le) -> aclist c s0 es own = (own1, ts) ->
      lite X1 own1 /\ ext2 c X X1 /\ map (canon X1) le = ts /\
      forallb (refs_ltb (length (objs X1))) le = true.
  Proof.
    induction 1 as [|x r Hx Hr IH]; intros X own X1 le own1 ts L Hc Ha; simpl in Hc, Ha.
    - inversion Hc; subst. inversion Ha; subst. split; [exact L|]. split; [apply ext2_refl|]. auto.
    - destruct (compile c x X) as [Xa ea] eqn:Ea. destruct (clist c r Xa) as [Xb rb] eqn:Eb.
      destruct (acompile c s0 x own) as [oa ta] eqn:Aa. destruct (aclist c s0 r oa) as [ob tb] eqn:Ab.
      inversion Hc; subst X1 le. inversion Ha; subst own1 ts.
      destruct (Hx _ _ _ _ _ _ L Ea Aa) as (L1 & E1 & C1 & R1).
      destruct (IH _ _ _ _ _ _ L1 Eb Ab) as (L2 & E2 & C2 & R2).
      split; [exact L2|]. split; [eapply ext2_trans; eauto|]. split.
      + simpl. rewrite C2. f_equal. rewrite <- C1. apply canon_stable; [eapply ext2_keys; eauto|exact R1].
      + simpl. rewrite R2, andb_true_r. eapply refs_ltb_mono; [eapply ext2_len; eauto|exact R1].
  Qed.

  Lemma lite_compile a : compile_sim a.
  Proof.
    induction a as [cs v|lo hi|es IH|es IH|mn mx a IH|a IH|v|nm] using aexpr_ind2;
      intros X own X1 e0 own1 t L Hc Ha.
    - simpl in Hc, Ha. inversion Hc; subst. inversion Ha; subst.
      split; [exact L|]. split; [apply ext2_refl|]. auto.
    - simpl in Hc, Ha. inversion Hc; subst. inversion Ha; subst.
      split; [exact L|]. split; [apply ext2_refl|]. auto.
    - rewrite compile_alt in Hc. rewrite acompile_alt in Ha.
      destruct (clist c es X) as [Xa la] eqn:E. destruct (aclist c s0 es own) as [oa ta] eqn:A.
      inversion Hc; subst. inversion Ha; subst.
      destruct (lite_clist es IH _ _ _ _ _ _ L E A) as (L1 & E1 & C1 & R1).
      split; [exact L1|]. split; [exact E1|]. simpl. rewrite C1. auto.
    - rewrite compile_cat in Hc. rewrite acompile_cat in Ha.
      destruct (clist c es X) as [Xa la] eqn:E. destruct (aclist c s0 es own) as [oa ta] eqn:A.
      inversion Hc; subst. inversion Ha; subst.
      destruct (lite_clist es IH _ _ _ _ _ _ L E A) as (L1 & E1 & C1 & R1).
      split; [exact L1|]. split; [exact E1|]. simpl. rewrite C1. auto.
    - simpl in Hc, Ha. destruct (compile c a X) as [Xa ea] eqn:E.
      destruct (acompile c s0 a own) as [oa ta] eqn:A. inversion Hc; subst. inversion Ha; subst.
      destruct (IH _ _ _ _ _ _ L E A) as (L1 & E1 & C1 & R1).
      split; [apply lite_nextid; exact L1|]. split; [apply ext2_nextid; exact E1|]. simpl.
      split; [|exact R1]. f_equal. rewrite <- C1. apply canon_ext. reflexivity.
    - simpl in Hc, Ha. destruct (compile c a X) as [Xa ea] eqn:E.
      destruct (acompile c s0 a own) as [oa ta] eqn:A. inversion Hc; subst. inversion Ha; subst.
      destruct (IH _ _ _ _ _ _ L E A) as (L1 & E1 & C1 & R1).
      split; [apply lite_nextid; exact L1|]. split; [apply ext2_nextid; exact E1|]. simpl.
      split; [|exact R1]. f_equal. rewrite <- C1. apply canon_ext. reflexivity.
    - simpl in Hc, Ha. inversion Hc; subst. inversion Ha; subst.
      split; [exact L|]. split; [apply ext2_refl|]. auto.
    - simpl in Hc, Ha. destruct (rnew X c nm) as [Xa k] eqn:E.
      destruct (arnew c s0 own nm) as [oa ref] eqn:A. inversion Hc; subst. inversion Ha; subst.
      destruct (lite_rnew _ _ _ _ _ _ _ L E A) as (L1 & E1 & F1 & _).
      split; [exact L1|]. split; [exact E1|]. simpl. rewrite Nat2N.id.
      pose proof (find_obj_spec _ _ _ _ _ F1) as (_ & o & Ho & Hoc & Hok). rewrite Nat.sub_0_r in Ho.
      rewrite Ho, Hoc, Hok. split; [reflexivity|]. apply Nat.ltb_lt. apply nth_error_Some. rewrite Ho. discriminate.
  Qed.
End Lite.

Print Assumptions lite_compile.
