(* EngineSound.v — soundness of the engine model [lparse] (Engine.v) w.r.t. the derivation-tree
   relation [D] (Spec.v), for every set-order oracle [sh] with [perm_oracle sh].
   Structure: per-combinator lemmas under a hypothesis on [rec] (open recursion), tied together
   by one induction on fuel. *)
From Coq Require Import List NArith Arith Bool Lia Permutation.
Import ListNotations.
From ABNF Require Import Base Engine Spec.

(* ------------------------------------------------------------------ *)
(* list / set lemmas                                                    *)
(* ------------------------------------------------------------------ *)
Lemma str_eqb_eq a b : str_eqb a b = true <-> a = b.
Proof.
  revert b; induction a as [|x a IH]; intros b; destruct b as [|y b]; simpl; split; intros H;
    try congruence; auto.
  - apply andb_true_iff in H. destruct H as [H1 H2].
    apply N.eqb_eq in H1. apply (proj1 (IH b)) in H2. subst. reflexivity.
  - inversion H; subst. apply andb_true_iff. split; [apply N.eqb_eq; reflexivity|].
    apply (proj2 (IH b)). reflexivity.
Qed.

Lemma in_ins m x l : In x (ins m l) <-> x = m \/ In x l.
Proof.
  induction l as [|y l IH]; simpl.
  - intuition.
  - destruct (Nat.ltb (mend y) (mend m)); simpl; rewrite ?IH; intuition.
Qed.

Lemma in_sort_desc x l : In x (sort_desc l) <-> In x l.
Proof.
  unfold sort_desc.
  assert (H : forall acc, In x (fold_left (fun acc m => ins m acc) l acc) <-> In x acc \/ In x l).
  { induction l as [|y l IH]; simpl; intros acc.
    - intuition.
    - rewrite IH, in_ins. intuition. }
  rewrite H. simpl. intuition.
Qed.

Lemma in_add x l m : In x (add l m) -> In x l \/ x = m.
Proof.
  unfold add. destruct (mem m l); auto.
  rewrite in_app_iff; simpl; intuition.
Qed.

Lemma in_add_l x l m : In x l -> In x (add l m).
Proof.
  unfold add. intros H. destruct (mem m l); auto.
  apply in_app_iff. left. exact H.
Qed.

Lemma in_fold_add x b a : In x (fold_left add b a) -> In x a \/ In x b.
Proof.
  revert a; induction b as [|y b IH]; simpl; intros a H; auto.
  apply IH in H. destruct H as [H|H]; auto.
  apply in_add in H. intuition.
Qed.

Lemma in_fold_add_l x b a : In x a -> In x (fold_left add b a).
Proof.
  revert a; induction b as [|y b IH]; simpl; intros a H; auto.
  apply IH. apply in_add_l. exact H.
Qed.

Lemma in_set_of x l : In x (set_of l) -> In x l.
Proof. unfold set_of; intros H; apply in_fold_add in H; simpl in H; intuition. Qed.

Lemma in_union x a b : In x (union a b) -> In x a \/ In x b.
Proof. apply in_fold_add. Qed.

Lemma in_sh_perm sh : perm_oracle sh -> forall x l, In x (sh l) <-> In x l.
Proof.
  intros Hsh x l. split; intros H.
  - eapply Permutation_in; [apply Hsh|exact H].
  - eapply Permutation_in; [apply Permutation_sym; apply Hsh|exact H].
Qed.

(* ------------------------------------------------------------------ *)
(* mutual induction principles for M/MI and D/DI                        *)
(* ------------------------------------------------------------------ *)
Scheme M_mut := Minimality for M Sort Prop
  with MI_mut := Minimality for MI Sort Prop.
Combined Scheme M_MI_mut from M_mut, MI_mut.

Scheme D_mut := Minimality for D Sort Prop
  with DI_mut := Minimality for DI Sort Prop.
Combined Scheme D_DI_mut from D_mut, DI_mut.

(* every derivation stays inside the text and moves forward *)
Lemma D_DI_bounds G s :
  (forall e i ns j, D G s e i ns j -> i <= j /\ j <= length s) /\
  (forall e n i ns j, DI G s e n i ns j -> i <= j /\ j <= length s).
Proof.
  apply (D_DI_mut G s (fun e i ns j => i <= j /\ j <= length s)
                      (fun e n i ns j => i <= j /\ j <= length s)).
  - intros cs v i Hl. destruct Hl as [Hl _]. lia.
  - intros lo hi i c Hn Hlo Hhi.
    assert (Hi : i < length s) by (apply nth_error_Some; congruence). lia.
  - intros fm es e i ns j Hin HD IH. exact IH.
  - intros i Hi. lia.
  - intros e es i j k n1 n2 HD1 IH1 HD2 IH2. lia.
  - intros id mn mx e i j n ns HDI IH Hmn Hmx. exact IH.
  - intros r ru d i j ns Hr Hd HD IH. exact IH.
  - intros e i Hi. lia.
  - intros e n i j k n1 n2 HD1 IH1 HD2 IH2. lia.
Qed.

Lemma D_bounds G s e i ns j : D G s e i ns j -> i <= j /\ j <= length s.
Proof. apply (proj1 (D_DI_bounds G s)). Qed.

Lemma DI_bounds G s e n i ns j : DI G s e n i ns j -> i <= j /\ j <= length s.
Proof. apply (proj2 (D_DI_bounds G s)). Qed.

(* ------------------------------------------------------------------ *)
(* D <-> M                                                              *)
(* ------------------------------------------------------------------ *)
Lemma D_DI_M G s :
  (forall e i ns j, D G s e i ns j -> M G s e i j) /\
  (forall e n i ns j, DI G s e n i ns j -> MI G s e n i j).
Proof.
  apply (D_DI_mut G s (fun e i ns j => M G s e i j) (fun e n i ns j => MI G s e n i j)).
  - intros cs v i Hl. apply M_lit. exact Hl.
  - intros lo hi i c Hn Hlo Hhi. eapply M_range; eassumption.
  - intros fm es e i ns j Hin HD IH. eapply M_alt; eassumption.
  - intros i Hi. apply M_cat_nil. exact Hi.
  - intros e es i j k n1 n2 HD1 IH1 HD2 IH2. eapply M_cat_cons; eassumption.
  - intros id mn mx e i j n ns HDI IH Hmn Hmx. eapply M_rep; eassumption.
  - intros r ru d i j ns Hr Hd HD IH. eapply M_ref; eassumption.
  - intros e i Hi. apply MI_0. exact Hi.
  - intros e n i j k n1 n2 HD1 IH1 HD2 IH2. eapply MI_S; eassumption.
Qed.

Theorem D_M G s e i ns j : D G s e i ns j -> M G s e i j.
Proof. apply (proj1 (D_DI_M G s)). Qed.

Lemma M_MI_D G s :
  (forall e i j, M G s e i j -> exists ns, D G s e i ns j) /\
  (forall e n i j, MI G s e n i j -> exists ns, DI G s e n i ns j).
Proof.
  apply (M_MI_mut G s (fun e i j => exists ns, D G s e i ns j)
                      (fun e n i j => exists ns, DI G s e n i ns j)).
  - intros cs v i Hl. eexists. apply D_lit. exact Hl.
  - intros lo hi i c Hn Hlo Hhi. eexists. eapply D_range; eassumption.
  - intros fm es e i j Hin HM IH. destruct IH as [ns IH]. exists ns. eapply D_alt; eassumption.
  - intros i Hi. exists []. apply D_cat_nil. exact Hi.
  - intros e es i j k HM1 IH1 HM2 IH2. destruct IH1 as [n1 IH1]. destruct IH2 as [n2 IH2].
    exists (n1 ++ n2). eapply D_cat_cons; eassumption.
  - intros id mn mx e i j n HMI IH Hmn Hmx. destruct IH as [ns IH]. exists ns.
    eapply D_rep; eassumption.
  - intros r ru d i j Hr Hd HM IH. destruct IH as [ns IH]. eexists. eapply D_ref; eassumption.
  - intros e i Hi. exists []. apply DI_0. exact Hi.
  - intros e n i j k HM1 IH1 HM2 IH2. destruct IH1 as [n1 IH1]. destruct IH2 as [n2 IH2].
    exists (n1 ++ n2). eapply DI_S; eassumption.
Qed.

Theorem M_D G s e i j : M G s e i j -> exists ns, D G s e i ns j.
Proof. apply (proj1 (M_MI_D G s)). Qed.

(* ------------------------------------------------------------------ *)
(* faithfulness of derivation trees                                     *)
(* ------------------------------------------------------------------ *)
Lemma skipn_add_ {A} (a b : nat) (l : list A) : skipn (a + b) l = skipn b (skipn a l).
Proof.
  revert l; induction a as [|a IH]; intros l; simpl; [reflexivity|].
  destruct l as [|x l]; [destruct b; reflexivity|apply IH].
Qed.

Lemma firstn_add_app {A} (a b : nat) (l : list A) :
  firstn (a + b) l = firstn a l ++ firstn b (skipn a l).
Proof.
  revert l; induction a as [|a IH]; intros l; simpl; [reflexivity|].
  destruct l as [|x l]; simpl.
  - destruct b; reflexivity.
  - rewrite IH. reflexivity.
Qed.

Lemma slice_app s i j k : i <= j -> j <= k ->
  slice s i (j - i) ++ slice s j (k - j) = slice s i (k - i).
Proof.
  intros Hij Hjk. unfold slice.
  replace (k - i) with ((j - i) + (k - j)) by lia.
  rewrite firstn_add_app. rewrite <- skipn_add_.
  replace (i + (j - i)) with j by lia. reflexivity.
Qed.

Lemma slice_length s i n : i + n <= length s -> length (slice s i n) = n.
Proof. intros H. unfold slice. rewrite firstn_length, skipn_length. lia. Qed.

Lemma nth_error_slice1 s : forall i c, nth_error s i = Some c -> slice s i 1 = [c].
Proof.
  induction s as [|a s IH]; intros i c H; destruct i as [|i]; simpl in H; try discriminate.
  - inversion H; subst. reflexivity.
  - unfold slice. simpl. apply (IH i c H).
Qed.

Lemma tile_app s : forall l1 l2 i,
  tile s i (l1 ++ l2) = match tile s i l1 with Some j => tile s j l2 | None => None end.
Proof.
  induction l1 as [|a l1 IH]; intros l2 i; simpl; [reflexivity|].
  destruct a as [[v o] l].
  destruct (Nat.eqb o i && Nat.eqb l (length v) && str_eqb v (slice s o l)
            && Nat.leb (o + l) (length s)); [apply IH|reflexivity].
Qed.

Lemma faithful_nil s i : i <= length s -> faithful s i [] i.
Proof.
  intros Hi. unfold faithful. simpl. split; [reflexivity|]. split; [|lia].
  rewrite Nat.sub_diag. reflexivity.
Qed.

Lemma faithful_app s i j k n1 n2 :
  faithful s i n1 j -> faithful s j n2 k -> faithful s i (n1 ++ n2) k.
Proof.
  intros H1 H2. destruct H1 as [T1 [V1 [L1 L1']]]. destruct H2 as [T2 [V2 [L2 L2']]].
  unfold faithful. split; [|split; [|lia]].
  - unfold leaves_of in *. rewrite flat_map_app, tile_app, T1. exact T2.
  - unfold nsvalue in *. rewrite flat_map_app, V1, V2. apply slice_app; assumption.
Qed.

Lemma faithful_leaf s v o l :
  o + l <= length s -> l = length v -> v = slice s o l -> faithful s o [Leaf v o l] (o + l).
Proof.
  intros Hle Hl Hv.
  assert (E1 : Nat.eqb l (length v) = true) by (apply Nat.eqb_eq; exact Hl).
  assert (E2 : str_eqb v (slice s o l) = true) by (apply (proj2 (str_eqb_eq _ _)); exact Hv).
  assert (E3 : Nat.leb (o + l) (length s) = true) by (apply Nat.leb_le; exact Hle).
  unfold faithful, leaves_of, nsvalue. cbn [flat_map leaves nvalue app tile].
  rewrite Nat.eqb_refl, E1, E2, E3. cbn [andb].
  split; [reflexivity|]. split; [|lia].
  rewrite app_nil_r. replace (o + l - o) with l by lia. exact Hv.
Qed.

Lemma faithful_nd s i j name ns : faithful s i ns j -> faithful s i [Nd name ns] j.
Proof.
  intros H. destruct H as [T [V L]]. unfold faithful, leaves_of, nsvalue in *.
  cbn [flat_map leaves nvalue]. rewrite !app_nil_r. split; [exact T|]. split; [exact V|exact L].
Qed.

Lemma D_DI_faithful G s :
  (forall e i ns j, D G s e i ns j -> faithful s i ns j) /\
  (forall e n i ns j, DI G s e n i ns j -> faithful s i ns j).
Proof.
  apply (D_DI_mut G s (fun e i ns j => faithful s i ns j) (fun e n i ns j => faithful s i ns j)).
  - intros cs v i Hl. destruct Hl as [Hl _]. apply faithful_leaf.
    + exact Hl.
    + symmetry. apply slice_length. exact Hl.
    + reflexivity.
  - intros lo hi i c Hn Hlo Hhi.
    assert (Hi : i < length s) by (apply nth_error_Some; congruence).
    apply faithful_leaf.
    + lia.
    + reflexivity.
    + symmetry. apply nth_error_slice1. exact Hn.
  - intros fm es e i ns j Hin HD IH. exact IH.
  - intros i Hi. apply faithful_nil. exact Hi.
  - intros e es i j k n1 n2 HD1 IH1 HD2 IH2. eapply faithful_app; eassumption.
  - intros id mn mx e i j n ns HDI IH Hmn Hmx. exact IH.
  - intros r ru d i j ns Hr Hd HD IH. apply faithful_nd. exact IH.
  - intros e i Hi. apply faithful_nil. exact Hi.
  - intros e n i j k n1 n2 HD1 IH1 HD2 IH2. eapply faithful_app; eassumption.
Qed.

Theorem D_faithful G s e i ns j : D G s e i ns j -> faithful s i ns j.
Proof. apply (proj1 (D_DI_faithful G s)). Qed.

(* ------------------------------------------------------------------ *)
(* structural lemmas on D                                               *)
(* ------------------------------------------------------------------ *)
Section DLemmas.
  Variable G : grammar.
  Variable s : str.

  Lemma D_cat_snoc : forall es e i j k n1 n2,
    D G s (ECat es) i n1 j -> D G s e j n2 k -> D G s (ECat (es ++ [e])) i (n1 ++ n2) k.
  Proof.
    induction es as [|e0 es IH]; intros e i j k n1 n2 H1 H2.
    - inversion H1 as [| | |i' Hi'| | |]; subst. simpl. rewrite <- (app_nil_r n2).
      eapply D_cat_cons; [exact H2|]. apply D_cat_nil. apply (D_bounds _ _ _ _ _ _ H2).
    - inversion H1 as [| | | |e' es' i' j' k' m1 m2 Ha Hb| |]; subst.
      simpl. rewrite <- app_assoc. eapply D_cat_cons; [exact Ha|]. eapply IH; eassumption.
  Qed.

  Lemma DI_snoc : forall e n i j k n1 n2,
    DI G s e n i n1 j -> D G s e j n2 k -> DI G s e (S n) i (n1 ++ n2) k.
  Proof.
    intros e n i j k n1 n2 H; revert k n2.
    induction H as [e i Hi|e n i j k0 m1 m2 Ha Hb IH]; intros k n2 H2.
    - simpl. rewrite <- (app_nil_r n2). eapply DI_S; [exact H2|].
      apply DI_0. apply (D_bounds _ _ _ _ _ _ H2).
    - rewrite <- app_assoc. eapply DI_S; [exact Ha|]. apply IH. exact H2.
  Qed.

  Lemma D_cat_repeat : forall e n i ns j, D G s (ECat (repeat e n)) i ns j -> DI G s e n i ns j.
  Proof.
    intros e n; induction n as [|n IH]; simpl; intros i ns j H.
    - inversion H as [| | |i' Hi'| | |]; subst. apply DI_0. exact Hi'.
    - inversion H as [| | | |e' es' i' j' k' m1 m2 Ha Hb| |]; subst.
      eapply DI_S; [exact Ha|]. apply IH. exact Hb.
  Qed.
End DLemmas.

(* ------------------------------------------------------------------ *)
(* soundness, open recursion                                            *)
(* ------------------------------------------------------------------ *)
Section SoundD.
  Variable sh : list mtch -> list mtch.
  Hypothesis Hsh : perm_oracle sh.
  Variable G : grammar.

  Lemma in_sh x l : In x (sh l) <-> In x l.
  Proof. apply in_sh_perm. exact Hsh. Qed.

  Definition soundD (rec : expr -> str -> nat -> res) : Prop :=
    forall e s i ms, WB e -> rec e s i = Ok ms -> i <= length s ->
      forall m, In m ms -> D G s e i (nodes m) (mend m).

  Variable rec : expr -> str -> nat -> res.
  Hypothesis Hrec : soundD rec.

  Lemma litD cs v s i ms : lit cs v s i = Ok ms ->
    forall m, In m ms -> D G s (ELit cs v) i (nodes m) (mend m).
  Proof.
    unfold lit. destruct (Nat.leb i (length s)) eqn:Hi; [|discriminate].
    destruct (str_eqb _ _) eqn:He; [|discriminate].
    intros H; inversion H; subst; clear H. intros m [<-|[]]; simpl.
    apply (proj1 (str_eqb_eq _ _)) in He. apply Nat.leb_le in Hi.
    assert (Hlen : length (slice s i (length v)) = length v).
    { destruct cs; [rewrite He; reflexivity|].
      apply (f_equal (@length _)) in He. unfold fold_str in He. rewrite !map_length in He. exact He. }
    rewrite Hlen.
    assert (Hle : i + length v <= length s).
    { unfold slice in Hlen. rewrite firstn_length, skipn_length in Hlen. lia. }
    apply D_lit. split; [exact Hle|]. destruct cs; assumption.
  Qed.

  Lemma rangeD lo hi s i ms : range lo hi s i = Ok ms ->
    forall m, In m ms -> D G s (ERange lo hi) i (nodes m) (mend m).
  Proof.
    unfold range. destruct (nth_error s i) as [c|] eqn:Hn; [|discriminate].
    destruct (_ && _) eqn:Hb; [|discriminate].
    apply andb_true_iff in Hb. destruct Hb as [H1 H2].
    apply N.leb_le in H1. apply N.leb_le in H2.
    intros H; inversion H; subst; clear H. intros m [<-|[]]; simpl.
    eapply D_range; eassumption.
  Qed.

  Lemma altD fm es0 s i : i <= length s ->
    forall es acc ms, (forall e, In e es -> In e es0) -> Forall WB es ->
      (forall m, In m acc -> D G s (EAlt fm es0) i (nodes m) (mend m)) ->
      alt_loop rec fm es s i acc = Ok ms ->
      forall m, In m ms -> D G s (EAlt fm es0) i (nodes m) (mend m).
  Proof.
    intros Hi. induction es as [|e es IH]; simpl; intros acc ms Hsub Hwb Hacc H.
    - destruct acc as [|a acc]; [discriminate|]. inversion H; subst; clear H. exact Hacc.
    - inversion Hwb as [|e' es' Hwe Hwes]; subst.
      destruct (rec e s i) as [ms0| | |] eqn:Hr; try discriminate.
      + assert (Hnew : forall m, In m (acc ++ ms0) -> D G s (EAlt fm es0) i (nodes m) (mend m)).
        { intros m Hm. apply in_app_iff in Hm. destruct Hm as [Hm|Hm]; [apply Hacc; exact Hm|].
          eapply D_alt; [apply Hsub; left; reflexivity|].
          exact (Hrec _ _ _ _ Hwe Hr Hi m Hm). }
        destruct fm.
        * inversion H; subst; clear H. exact Hnew.
        * eapply IH; [| | |exact H];
            [intros e1 He1; apply Hsub; right; exact He1|exact Hwes|exact Hnew].
      + eapply IH; [| | |exact H];
          [intros e1 He1; apply Hsub; right; exact He1|exact Hwes|exact Hacc].
  Qed.

  (* one layer *)
  Lemma extendD e s ms out : WB e ->
    extend rec e s ms = Ok out -> (forall m, In m ms -> mend m <= length s) ->
    forall x, In x out -> exists m n2, In m ms /\ nodes x = nodes m ++ n2 /\
                                      D G s e (mend m) n2 (mend x).
  Proof.
    intros Hwe. revert out; induction ms as [|m ms IH]; simpl; intros out H Hle x Hx.
    - inversion H; subst. destruct Hx.
    - destruct (rec e s (mend m)) as [xs| | |] eqn:Hr; try discriminate.
      + destruct (extend rec e s ms) as [ys| | |] eqn:He; try discriminate.
        inversion H; subst; clear H. apply in_app_iff in Hx. destruct Hx as [Hx|Hx].
        * apply in_map_iff in Hx. destruct Hx as [y [<- Hy]]. simpl.
          pose proof (Hrec _ _ _ _ Hwe Hr (Hle m (or_introl eq_refl)) y Hy) as HD.
          exists m, (nodes y). split; [left; reflexivity|]. split; [reflexivity|exact HD].
        * destruct (IH _ eq_refl (fun m0 H0 => Hle m0 (or_intror H0)) x Hx) as [m0 [n2 [Hm0 Hrest]]].
          exists m0, n2; split; [right; exact Hm0|exact Hrest].
      + destruct (IH _ H (fun m0 H0 => Hle m0 (or_intror H0)) x Hx) as [m0 [n2 [Hm0 Hrest]]].
        exists m0, n2; split; [right; exact Hm0|exact Hrest].
  Qed.

  Lemma cat_loopD s i : forall es done cur out, Forall WB es ->
    cat_loop rec es s cur = Ok out ->
    (forall m, In m cur -> D G s (ECat done) i (nodes m) (mend m)) ->
    forall x, In x out -> D G s (ECat (done ++ es)) i (nodes x) (mend x).
  Proof.
    induction es as [|e es IH]; simpl; intros done cur out Hwb H Hcur x Hx.
    - inversion H; subst. rewrite app_nil_r. apply Hcur. exact Hx.
    - inversion Hwb as [|e' es' Hwe Hwes]; subst.
      destruct (extend rec e s cur) as [nxt| | |] eqn:He; try discriminate.
      destruct nxt as [|m1 ms1]; try discriminate.
      replace (done ++ e :: es) with ((done ++ [e]) ++ es) by (rewrite <- app_assoc; reflexivity).
      eapply IH; [exact Hwes|exact H| |exact Hx].
      intros m Hm.
      assert (Hle : forall m0, In m0 cur -> mend m0 <= length s).
      { intros m0 H0. apply (D_bounds _ _ _ _ _ _ (Hcur m0 H0)). }
      destruct (extendD _ _ _ _ Hwe He Hle m Hm) as [m0 [n2 [Hm0 [Hn HD]]]].
      rewrite Hn. eapply D_cat_snoc; [apply Hcur; exact Hm0|exact HD].
  Qed.

  Lemma catD es s i ms : Forall WB es -> i <= length s -> cat rec es s i = Ok ms ->
    forall m, In m ms -> D G s (ECat es) i (nodes m) (mend m).
  Proof.
    intros Hwb Hi. unfold cat.
    destruct (cat_loop rec es s [mk [] i]) as [out| | |] eqn:Hc; try discriminate.
    intros H; inversion H; subst; clear H. intros m Hm. apply (proj1 (in_sort_desc _ _)) in Hm.
    apply (cat_loopD s i es [] [mk [] i] out Hwb Hc); [|exact Hm].
    intros m0 [<-|[]]; simpl. apply D_cat_nil. exact Hi.
  Qed.

  Definition le_mx (mx : option nat) (n : nat) : Prop := forall m, mx = Some m -> n <= m.

  Lemma rep_loopD id e s i mn mx : WB e -> forall k count mset last out,
    (forall m, In m mset -> exists n, mn <= n <= count /\ DI G s e n i (nodes m) (mend m)) ->
    (forall m, In m last -> DI G s e count i (nodes m) (mend m)) ->
    mn <= count -> le_mx mx count ->
    rep_loop sh rec k e mx s count mset last = Ok out ->
    forall x, In x out -> D G s (ERep id mn mx e) i (nodes x) (mend x).
  Proof.
    intros Hwe. induction k as [|k IH]; simpl; intros count mset last out Hset Hlast Hmn Hmx H x Hx;
      [discriminate|].
    assert (Hfin : forall y, In y (next_longest sh mset) ->
              D G s (ERep id mn mx e) i (nodes y) (mend y)).
    { intros y Hy. unfold next_longest in Hy. apply (proj1 (in_sort_desc _ _)) in Hy.
      apply (proj1 (in_sh _ _)) in Hy.
      destruct (Hset y Hy) as [n [Hn HD]].
      eapply D_rep; [exact HD|lia|].
      intros m Hm. specialize (Hmx m Hm). lia. }
    destruct (match mx with Some m => Nat.eqb count m | None => false end) eqn:Hstop.
    - inversion H; subst; clear H. apply Hfin. exact Hx.
    - destruct (extend rec e s (sort_desc (sh last))) as [new| | |] eqn:He; try discriminate.
      assert (Hnew : forall m, In m (set_of new) -> DI G s e (S count) i (nodes m) (mend m)).
      { intros m Hm. apply in_set_of in Hm.
        assert (Hl0 : forall m0, In m0 (sort_desc (sh last)) -> mend m0 <= length s).
        { intros m0 H0. apply (proj1 (in_sort_desc _ _)) in H0. apply (proj1 (in_sh _ _)) in H0.
          apply (DI_bounds _ _ _ _ _ _ _ (Hlast m0 H0)). }
        destruct (extendD _ _ _ _ Hwe He Hl0 m Hm) as [m0 [n2 [Hm0 [Hn HD]]]].
        apply (proj1 (in_sort_desc _ _)) in Hm0. apply (proj1 (in_sh _ _)) in Hm0.
        rewrite Hn. eapply DI_snoc; [apply Hlast; exact Hm0|exact HD]. }
      destruct (subset (set_of new) mset).
      + inversion H; subst; clear H. apply Hfin. exact Hx.
      + eapply IH; [| | | |exact H|exact Hx].
        * intros m Hm. apply in_union in Hm. destruct Hm as [Hm|Hm].
          -- destruct (Hset m Hm) as [n [Hn HD]]. exists n; split; [lia|exact HD].
          -- apply (proj1 (in_sh _ _)) in Hm.
             exists (S count); split; [lia|]. apply Hnew. exact Hm.
        * exact Hnew.
        * lia.
        * intros m Hm. specialize (Hmx m Hm). subst mx. apply Nat.eqb_neq in Hstop. lia.
  Qed.

  Lemma repD id k mn mx e s i ms : WB e -> i <= length s -> (forall m, mx = Some m -> mn <= m) ->
    rep sh rec k mn mx e s i = Ok ms ->
    forall x, In x ms -> D G s (ERep id mn mx e) i (nodes x) (mend x).
  Proof.
    intros Hwe Hi Hb.
    assert (Hrp : forall n, Forall WB (repeat e n)) by (induction n as [|n IHn]; simpl; auto).
    unfold rep. destruct mn as [|mn'].
    - intros H. eapply rep_loopD; [exact Hwe| | | | |exact H].
      + intros m [<-|[]]; simpl. exists 0; split; [lia|]. apply DI_0. exact Hi.
      + intros m [<-|[]]; simpl. apply DI_0. exact Hi.
      + lia.
      + intros m Hm. lia.
    - destruct (cat rec (repeat e (S mn')) s i) as [cs| | |] eqn:Hc; try discriminate.
      intros H. eapply rep_loopD; [exact Hwe| | | | |exact H].
      + intros m Hm. apply in_set_of in Hm.
        pose proof (catD _ _ _ _ (Hrp _) Hi Hc m Hm) as HD.
        exists (S mn'); split; [lia|]. apply D_cat_repeat. exact HD.
      + intros m Hm. apply in_set_of in Hm. apply (proj1 (in_sh _ _)) in Hm.
        apply in_set_of in Hm.
        pose proof (catD _ _ _ _ (Hrp _) Hi Hc m Hm) as HD.
        apply D_cat_repeat. exact HD.
      + lia.
      + exact Hb.
  Qed.

  Lemma filter_excl_sub x : forall ms out, filter_excl sh rec x ms = Ok out ->
    forall m, In m out -> In m ms.
  Proof.
    induction ms as [|m0 ms IH]; simpl; intros out H m Hm.
    - inversion H; subst. destruct Hm.
    - destruct (excluded sh rec x m0) as [b| |]; try discriminate.
      destruct (filter_excl sh rec x ms) as [r| | |] eqn:Hf; try discriminate.
      inversion H; subst; clear H. destruct b.
      + right. eapply IH; [reflexivity|exact Hm].
      + destruct Hm as [<-|Hm]; [left; reflexivity|right; eapply IH; [reflexivity|exact Hm]].
  Qed.

  Hypothesis HG : WBG G.

  Lemma refD r s i ms : i <= length s -> ref sh G rec r s i = Ok ms ->
    forall m, In m ms -> D G s (ERef r) i (nodes m) (mend m).
  Proof.
    intros Hi. unfold ref. destruct (G r) as [ru|] eqn:Hr; [|discriminate].
    destruct (rdef ru) as [d|] eqn:Hd; [|discriminate].
    destruct (rec d s i) as [ds| | |] eqn:Hrec0; try discriminate.
    destruct (filter_excl sh rec (rexcl ru) ds) as [fs| | |] eqn:Hf; try discriminate.
    destruct (set_of fs) as [|f0 fs0] eqn:Hs; [discriminate|].
    intros H; inversion H; subst; clear H. intros m Hm.
    apply in_map_iff in Hm. destruct Hm as [y [<- Hy]]. simpl.
    apply (proj1 (in_sort_desc _ _)) in Hy. apply (proj1 (in_sh _ _)) in Hy.
    rewrite <- Hs in Hy. apply in_set_of in Hy.
    apply (filter_excl_sub _ _ _ Hf) in Hy.
    pose proof (Hrec _ _ _ _ (HG _ _ _ Hr Hd) Hrec0 Hi y Hy) as HD.
    eapply D_ref; eassumption.
  Qed.

  Lemma stepD k : soundD (step sh G rec k).
  Proof.
    intros e s i ms Hwb H Hi. destruct e as [cs v|lo hi|fm es|es|id mn mx e'| |r]; simpl in H.
    - eapply litD; exact H.
    - eapply rangeD; exact H.
    - inversion Hwb as [| |fm' es' Hes| | | |]; subst.
      eapply altD; [exact Hi| | | |exact H].
      + intros e He. exact He.
      + exact Hes.
      + intros m [].
    - inversion Hwb as [| | |es' Hes| | |]; subst. eapply catD; eassumption.
    - inversion Hwb as [| | | |id' mn' mx' e0 Hb Hwe| |]; subst. eapply repD; eassumption.
    - discriminate.
    - eapply refD; eassumption.
  Qed.
End SoundD.

Theorem lparse_sound sh G : perm_oracle sh -> WBG G ->
  forall f e s i ms, WB e -> lparse sh G f e s i = Ok ms -> i <= length s ->
  forall m, In m ms -> D G s e i (nodes m) (mend m).
Proof.
  intros Hsh HG. induction f as [|f IH].
  - intros e s i ms _ H; discriminate.
  - intros e s i ms Hwb H. simpl in H. revert e s i ms Hwb H.
    apply (stepD sh Hsh G (lparse sh G f) IH HG f).
Qed.

Theorem lparse_sound_ends sh G : perm_oracle sh -> WBG G ->
  forall f e s i ms, WB e -> lparse sh G f e s i = Ok ms -> i <= length s ->
  forall m, In m ms -> M G s e i (mend m).
Proof.
  intros Hsh HG f e s i ms Hwb H Hi m Hm.
  eapply D_M. eapply lparse_sound; eassumption.
Qed.

Theorem lparse_ref_root sh G : forall f r s i ms m, lparse sh G f (ERef r) s i = Ok ms -> In m ms ->
  exists ru ch, G r = Some ru /\ nodes m = [Nd (rname ru) ch].
Proof.
  intros f r s i ms m H Hm. destruct f as [|f]; [discriminate|].
  cbn [lparse step] in H. unfold ref in H.
  destruct (G r) as [ru|] eqn:Hr; [|discriminate].
  destruct (rdef ru) as [d|] eqn:Hd; [|discriminate].
  destruct (lparse sh G f d s i) as [ds| | |] eqn:Hrec0; try discriminate.
  destruct (filter_excl sh (lparse sh G f) (rexcl ru) ds) as [fs| | |] eqn:Hf; try discriminate.
  destruct (set_of fs) as [|f0 fs0] eqn:Hs; [discriminate|].
  inversion H; subst; clear H.
  apply in_map_iff in Hm. destruct Hm as [y [<- Hy]]. simpl.
  exists ru, (nodes y). split; reflexivity.
Qed.

Theorem parse_sound sh G : perm_oracle sh -> WBG G ->
  forall f r s i m, parse sh G f r s i = Ok [m] -> i <= length s ->
  D G s (ERef r) i (nodes m) (mend m).
Proof.
  intros Hsh HG f r s i m H Hi. unfold parse in H.
  destruct (lparse sh G f (ERef r) s i) as [ms| | |] eqn:Hl; try discriminate.
  destruct (next_longest sh (set_of ms)) as [|m0 rest] eqn:Hn; [discriminate|].
  inversion H; subst; clear H.
  assert (Hm : In m ms).
  { apply in_set_of. apply (proj1 (in_sh_perm sh Hsh _ _)). apply (proj1 (in_sort_desc _ _)).
    unfold next_longest in Hn. rewrite Hn. left. reflexivity. }
  eapply lparse_sound; [exact Hsh|exact HG|apply WB_ref|exact Hl|exact Hi|exact Hm].
Qed.

(* parse_all wrapper: a successful parse_all returns a tree for the whole text *)
Theorem parse_all_sound sh G : perm_oracle sh -> WBG G ->
  forall f r s m, parse_all sh G f r s = Ok [m] ->
  D G s (ERef r) 0 (nodes m) (length s) /\ mend m = length s.
Proof.
  intros Hsh HG f r s m H. unfold parse_all in H.
  destruct (parse sh G f r s 0) as [ps| | |] eqn:Hp; try discriminate.
  destruct ps as [|m0 rest]; [discriminate|].
  destruct (Nat.ltb (mend m0) (length s)) eqn:Hlt; [discriminate|].
  inversion H; subst; clear H.
  apply Nat.ltb_ge in Hlt.
  assert (Hrest : rest = []).
  { unfold parse in Hp.
    destruct (lparse sh G f (ERef r) s 0) as [ms| | |]; try discriminate.
    destruct (next_longest sh (set_of ms)) as [|m1 rest1]; [discriminate|].
    inversion Hp; subst. reflexivity. }
  subst rest.
  pose proof (parse_sound sh G Hsh HG f r s 0 m Hp (Nat.le_0_l _)) as HD.
  pose proof (D_bounds _ _ _ _ _ _ HD) as Hb.
  assert (E : mend m = length s) by lia.
  split; [rewrite <- E; exact HD|exact E].
Qed.

(* ------------------------------------------------------------------ *)
(* a successful call yields at least one match                          *)
(* (needs [perm_oracle sh]: with the oracle [fun _ => []], Repetition   *)
(*  and Rule would return [Ok []])                                      *)
(* ------------------------------------------------------------------ *)
Lemma in_ne {A} (x : A) l : In x l -> l <> [].
Proof. intros H E. rewrite E in H. destruct H. Qed.

Lemma ne_in {A} (l : list A) : l <> [] -> exists x, In x l.
Proof. destruct l as [|x l]; [congruence|]. intros _. exists x. left. reflexivity. Qed.

Lemma sort_desc_ne l : l <> [] -> sort_desc l <> [].
Proof.
  intros H. destruct (ne_in l H) as [x Hx].
  apply (in_ne x). apply (proj2 (in_sort_desc _ _)). exact Hx.
Qed.

Lemma set_of_ne l : l <> [] -> set_of l <> [].
Proof.
  destruct l as [|x l]; [congruence|]. intros _.
  apply (in_ne x). unfold set_of.
  change (fold_left add (x :: l) []) with (fold_left add l [x]).
  apply in_fold_add_l. left. reflexivity.
Qed.

Lemma union_ne a b : a <> [] -> union a b <> [].
Proof.
  intros H. destruct (ne_in a H) as [x Hx].
  apply (in_ne x). unfold union. apply in_fold_add_l. exact Hx.
Qed.

Section NonEmpty.
  Variable sh : list mtch -> list mtch.
  Hypothesis Hsh : perm_oracle sh.
  Variable G : grammar.

  Lemma sh_ne l : l <> [] -> sh l <> [].
  Proof.
    intros H. destruct (ne_in l H) as [x Hx].
    apply (in_ne x). apply (proj2 (in_sh_perm sh Hsh _ _)). exact Hx.
  Qed.

  Lemma next_longest_ne l : l <> [] -> next_longest sh l <> [].
  Proof. intros H. unfold next_longest. apply sort_desc_ne. apply sh_ne. exact H. Qed.

  Definition ne_rec (rec : expr -> str -> nat -> res) : Prop :=
    forall e s i ms, rec e s i = Ok ms -> ms <> [].

  Variable rec : expr -> str -> nat -> res.
  Hypothesis Hne : ne_rec rec.

  Lemma alt_loop_ne fm s i : forall es acc ms, alt_loop rec fm es s i acc = Ok ms -> ms <> [].
  Proof.
    induction es as [|e es IH]; simpl; intros acc ms H.
    - destruct acc as [|a acc]; [discriminate|]. inversion H; subst. discriminate.
    - destruct (rec e s i) as [ms0| | |] eqn:Hr; try discriminate.
      + destruct fm.
        * inversion H; subst; clear H. intros E. apply app_eq_nil in E. destruct E as [_ E].
          exact (Hne _ _ _ _ Hr E).
        * eapply IH; exact H.
      + eapply IH; exact H.
  Qed.

  Lemma cat_loop_ne s : forall es cur out, cur <> [] -> cat_loop rec es s cur = Ok out -> out <> [].
  Proof.
    induction es as [|e es IH]; simpl; intros cur out Hcur H.
    - inversion H; subst. exact Hcur.
    - destruct (extend rec e s cur) as [nxt| | |]; try discriminate.
      destruct nxt as [|m1 ms1]; [discriminate|].
      eapply IH; [|exact H]. discriminate.
  Qed.

  Lemma cat_ne es s i ms : cat rec es s i = Ok ms -> ms <> [].
  Proof.
    unfold cat. destruct (cat_loop rec es s [mk [] i]) as [out| | |] eqn:Hc; try discriminate.
    intros H; inversion H; subst; clear H. apply sort_desc_ne.
    eapply cat_loop_ne; [|exact Hc]. discriminate.
  Qed.

  Lemma rep_loop_ne e mx s : forall k count mset last out, mset <> [] ->
    rep_loop sh rec k e mx s count mset last = Ok out -> out <> [].
  Proof.
    induction k as [|k IH]; simpl; intros count mset last out Hm H; [discriminate|].
    destruct (match mx with Some m => Nat.eqb count m | None => false end).
    - inversion H; subst; clear H. apply next_longest_ne. exact Hm.
    - destruct (extend rec e s (sort_desc (sh last))) as [new| | |]; try discriminate.
      destruct (subset (set_of new) mset).
      + inversion H; subst; clear H. apply next_longest_ne. exact Hm.
      + eapply IH; [|exact H]. apply union_ne. exact Hm.
  Qed.

  Lemma rep_ne k mn mx e s i ms : rep sh rec k mn mx e s i = Ok ms -> ms <> [].
  Proof.
    unfold rep. destruct mn as [|mn'].
    - intros H. eapply rep_loop_ne; [|exact H]. discriminate.
    - destruct (cat rec (repeat e (S mn')) s i) as [cs| | |] eqn:Hc; try discriminate.
      intros H. eapply rep_loop_ne; [|exact H]. apply set_of_ne. eapply cat_ne. exact Hc.
  Qed.

  Lemma ref_ne r s i ms : ref sh G rec r s i = Ok ms -> ms <> [].
  Proof.
    unfold ref. destruct (G r) as [ru|]; [|discriminate].
    destruct (rdef ru) as [d|]; [|discriminate].
    destruct (rec d s i) as [ds| | |]; try discriminate.
    destruct (filter_excl sh rec (rexcl ru) ds) as [fs| | |]; try discriminate.
    destruct (set_of fs) as [|f0 fs0]; [discriminate|].
    intros H; inversion H; subst; clear H.
    assert (Hn : sort_desc (sh (f0 :: fs0)) <> []).
    { apply sort_desc_ne. apply sh_ne. discriminate. }
    destruct (ne_in _ Hn) as [y Hy].
    apply (in_ne (mk [Nd (rname ru) (nodes y)] (mend y))).
    apply in_map_iff. exists y. split; [reflexivity|exact Hy].
  Qed.

  Lemma step_ne k : ne_rec (step sh G rec k).
  Proof.
    intros e s i ms H. destruct e as [cs v|lo hi|fm es|es|id mn mx e'| |r]; simpl in H.
    - unfold lit in H. destruct (Nat.leb i (length s)); [|discriminate].
      destruct (str_eqb _ _); [|discriminate]. inversion H; subst. discriminate.
    - unfold range in H. destruct (nth_error s i) as [c|]; [|discriminate].
      destruct (_ && _); [|discriminate]. inversion H; subst. discriminate.
    - eapply alt_loop_ne; exact H.
    - eapply cat_ne; exact H.
    - eapply rep_ne; exact H.
    - discriminate.
    - eapply ref_ne; exact H.
  Qed.
End NonEmpty.

Theorem lparse_nonempty sh G : perm_oracle sh ->
  forall f e s i ms, lparse sh G f e s i = Ok ms -> ms <> [].
Proof.
  intros Hsh. induction f as [|f IH].
  - intros e s i ms H; discriminate.
  - intros e s i ms H. simpl in H. revert e s i ms H.
    apply (step_ne sh Hsh G (lparse sh G f) IH f).
Qed.

Print Assumptions lparse_sound.
Print Assumptions D_M.
Print Assumptions M_D.
Print Assumptions D_faithful.
Print Assumptions lparse_ref_root.
Print Assumptions lparse_sound_ends.
Print Assumptions parse_sound.
Print Assumptions parse_all_sound.
Print Assumptions lparse_nonempty.
