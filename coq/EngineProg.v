(* EngineProg.v — the matching engine written as a PROGRAM OVER CACHE OPERATIONS (a free monad):
   the same definitions as Engine.v, method by method, but every access of Repetition.lparse to its
   ParseCache is an explicit event: [Lookup id key] (ParseCache.__getitem__) and [Store id key val]
   (ParseCache.__setitem__).  Interpreters: [run_pure] (every lookup misses, stores are dropped),
   [run_cached] (the state handler over one model cache per repetition id, coq/Cache.v).
   An interleaved execution of several requests is a scheduler over several such programs.
   MODEL ONLY: no proofs here. *)
From Coq Require Import List NArith Arith Bool.
Import ListNotations.
From ABNF Require Import Base Engine Cache.

Definition ckey := (str * nat)%type.                     (* (source, start) *)
Inductive cval := CSet (ms : list mtch) | CErr.          (* a MatchSet or a ParseError *)
Definition ckey_eqb (a b : ckey) : bool := str_eqb (fst a) (fst b) && Nat.eqb (snd a) (snd b).

Inductive prog (A : Type) : Type :=
| Ret (a : A)
| Lookup (id : N) (k : ckey) (cont : option cval -> prog A)
| Store (id : N) (k : ckey) (v : cval) (cont : prog A).
Arguments Ret {A} a.
Arguments Lookup {A} id k cont.
Arguments Store {A} id k v cont.

Fixpoint bind {A B : Type} (p : prog A) (f : A -> prog B) : prog B :=
  match p with
  | Ret a => f a
  | Lookup id k c => Lookup id k (fun o => bind (c o) f)
  | Store id k v c => Store id k v (bind c f)
  end.

Section EngineProg.
  Variable sh : list mtch -> list mtch.
  Variable G : grammar.

  Section Step.
    Variable rec : expr -> str -> nat -> prog res.

    Fixpoint alt_loop_p (fm : bool) (es : list expr) (s : str) (i : nat) (acc : list mtch) : prog res :=
      match es with
      | [] => Ret (match acc with [] => PErr | _ => Ok acc end)
      | e :: es' =>
        bind (rec e s i) (fun r =>
          match r with
          | Ok ms => if fm then Ret (Ok (acc ++ ms)) else alt_loop_p fm es' s i (acc ++ ms)
          | PErr => alt_loop_p fm es' s i acc
          | GErr => Ret GErr
          | OOF => Ret OOF
          end)
      end.

    Fixpoint extend_p (e : expr) (s : str) (ms : list mtch) : prog res :=
      match ms with
      | [] => Ret (Ok [])
      | m :: ms' =>
        bind (rec e s (mend m)) (fun r =>
          match r with
          | Ok xs =>
            bind (extend_p e s ms') (fun r2 =>
              match r2 with
              | Ok ys => Ret (Ok (map (fun x => mk (nodes m ++ nodes x) (mend x)) xs ++ ys))
              | r' => Ret r'
              end)
          | PErr => extend_p e s ms'
          | GErr => Ret GErr
          | OOF => Ret OOF
          end)
      end.

    Fixpoint cat_loop_p (es : list expr) (s : str) (cur : list mtch) : prog res :=
      match es with
      | [] => Ret (Ok cur)
      | e :: es' =>
        bind (extend_p e s cur) (fun r =>
          match r with
          | Ok [] => Ret PErr
          | Ok nxt => cat_loop_p es' s nxt
          | r' => Ret r'
          end)
      end.

    Definition cat_p (es : list expr) (s : str) (i : nat) : prog res :=
      bind (cat_loop_p es s [mk [] i]) (fun r =>
        match r with
        | Ok ms => Ret (Ok (sort_desc ms))
        | r' => Ret r'
        end).

    (* Repetition.lparse main loop; every normal exit stores the match set, then yields it sorted *)
    Fixpoint rep_loop_p (id : N) (k : nat) (e : expr) (mx : option nat) (s : str) (i : nat)
             (count : nat) (mset last : list mtch) : prog res :=
      match k with
      | 0 => Ret OOF
      | S k' =>
        if match mx with Some m => Nat.eqb count m | None => false end
        then Store id (s, i) (CSet mset) (Ret (Ok (next_longest sh mset)))
        else
          bind (extend_p e s (sort_desc (sh last))) (fun r =>
            match r with
            | Ok new =>
              let new := set_of new in
              if subset new mset then Store id (s, i) (CSet mset) (Ret (Ok (next_longest sh mset)))
              else rep_loop_p id k' e mx s i (S count) (union mset (sh new)) new
            | r' => Ret r'
            end)
      end.

    (* Repetition.lparse: cache lookup; hit -> re-raise the cached ParseError or yield the cached set
       sorted; miss -> min-fold (a failure is cached), then the loop *)
    Definition rep_p (id : N) (k : nat) (mn : nat) (mx : option nat) (e : expr) (s : str) (i : nat) : prog res :=
      Lookup id (s, i) (fun o =>
        match o with
        | Some CErr => Ret PErr
        | Some (CSet ms) => Ret (Ok (next_longest sh ms))
        | None =>
          match mn with
          | 0 => rep_loop_p id k e mx s i 0 [mk [] i] [mk [] i]
          | _ =>
            bind (cat_p (repeat e mn) s i) (fun r =>
              match r with
              | Ok ms => let st := set_of ms in rep_loop_p id k e mx s i mn st (set_of (sh st))
              | PErr => Store id (s, i) CErr (Ret PErr)
              | r' => Ret r'
              end)
          end
        end).

    Definition excluded_p (x : option rid) (m : mtch) : prog xres :=
      match x with
      | None => Ret (XB false)
      | Some r =>
        let t := nsvalue (nodes m) in
        bind (rec (ERef r) t 0) (fun res0 =>
          match res0 with
          | Ok ms =>
            match next_longest sh (set_of ms) with
            | m0 :: _ => Ret (XB (negb (Nat.ltb (mend m0) (length t))))
            | [] => Ret (XB false)
            end
          | PErr => Ret (XB false)
          | GErr => Ret XG
          | OOF => Ret XO
          end)
      end.

    Fixpoint filter_excl_p (x : option rid) (ms : list mtch) : prog res :=
      match ms with
      | [] => Ret (Ok [])
      | m :: ms' =>
        bind (excluded_p x m) (fun b =>
          match b with
          | XB b =>
            bind (filter_excl_p x ms') (fun r =>
              match r with
              | Ok l => Ret (Ok (if b then l else m :: l))
              | r' => Ret r'
              end)
          | XG => Ret GErr
          | XO => Ret OOF
          end)
      end.

    Definition ref_p (r : rid) (s : str) (i : nat) : prog res :=
      match G r with
      | None => Ret GErr
      | Some ru =>
        match rdef ru with
        | None => Ret GErr
        | Some d =>
          bind (rec d s i) (fun r0 =>
            match r0 with
            | Ok ms =>
              bind (filter_excl_p (rexcl ru) ms) (fun r1 =>
                match r1 with
                | Ok ms' =>
                  match set_of ms' with
                  | [] => Ret PErr
                  | st => Ret (Ok (map (fun m => mk [Nd (rname ru) (nodes m)] (mend m)) (sort_desc (sh st))))
                  end
                | r' => Ret r'
                end)
            | r' => Ret r'
            end)
        end
      end.

    Definition step_p (k : nat) (e : expr) (s : str) (i : nat) : prog res :=
      match e with
      | ELit cs v => Ret (lit cs v s i)
      | ERange lo hi => Ret (range lo hi s i)
      | EAlt fm es => alt_loop_p fm es s i []
      | ECat es => cat_p es s i
      | ERep id mn mx e' => rep_p id k mn mx e' s i
      | EProse => Ret PErr
      | ERef r => ref_p r s i
      end.
  End Step.

  Fixpoint lparse_p (fuel : nat) (e : expr) (s : str) (i : nat) : prog res :=
    match fuel with
    | 0 => Ret OOF
    | S f => step_p (lparse_p f) f e s i
    end.

  Definition parse_p (fuel : nat) (r : rid) (s : str) (i : nat) : prog res :=
    bind (lparse_p fuel (ERef r) s i) (fun r0 =>
      match r0 with
      | Ok ms => match next_longest sh (set_of ms) with m :: _ => Ret (Ok [m]) | [] => Ret PErr end
      | x => Ret x
      end).

  Definition parse_all_p (fuel : nat) (r : rid) (s : str) : prog res :=
    bind (parse_p fuel r s 0) (fun r0 =>
      match r0 with
      | Ok (m :: _) => if Nat.ltb (mend m) (length s) then Ret PErr else Ret (Ok [m])
      | x => Ret x
      end).
End EngineProg.

(* ---- interpreters ---- *)
(* no cache at all: every lookup misses, stores are dropped *)
Fixpoint run_pure {A : Type} (p : prog A) : A :=
  match p with
  | Ret a => a
  | Lookup _ _ c => run_pure (c None)
  | Store _ _ _ c => run_pure c
  end.

Definition cstate := N -> cache ckey cval.      (* one ParseCache per Repetition object *)
Definition upd (st : cstate) (id : N) (c : cache ckey cval) : cstate :=
  fun x => if N.eqb x id then c else st x.

(* the real thing: lookups and stores go to the model caches at global epoch g *)
Fixpoint run_cached {A : Type} (g : nat) (st : cstate) (p : prog A) : A * cstate :=
  match p with
  | Ret a => (a, st)
  | Lookup id k c =>
    let (o, c') := cget ckey cval ckey_eqb g k (st id) in run_cached g (upd st id c') (c o)
  | Store id k v c => run_cached g (upd st id (cset ckey cval ckey_eqb g k v (st id))) c
  end.

(* the same, also recording the event trace (compared with the real library's cache events) *)
Inductive event := EHit (id : N) (k : ckey) | EMiss (id : N) (k : ckey) | ESet (id : N) (k : ckey) (is_err : bool).
Fixpoint run_traced {A : Type} (g : nat) (st : cstate) (p : prog A) (tr : list event)
  : A * cstate * list event :=
  match p with
  | Ret a => (a, st, rev tr)
  | Lookup id k c =>
    let (o, c') := cget ckey cval ckey_eqb g k (st id) in
    run_traced g (upd st id c') (c o) ((match o with Some _ => EHit id k | None => EMiss id k end) :: tr)
  | Store id k v c =>
    run_traced g (upd st id (cset ckey cval ckey_eqb g k v (st id))) c
               (ESet id k (match v with CErr => true | CSet _ => false end) :: tr)
  end.

(* one atomic step of a suspended request: executes exactly one cache primitive *)
Definition pstep {A : Type} (g : nat) (st : cstate) (p : prog A) : prog A * cstate :=
  match p with
  | Ret a => (Ret a, st)
  | Lookup id k c =>
    let (o, c') := cget ckey cval ckey_eqb g k (st id) in (c o, upd st id c')
  | Store id k v c => (c, upd st id (cset ckey cval ckey_eqb g k v (st id)))
  end.

(* a pool of requests and a schedule (thread indices); a thread that is never scheduled again is an
   abandoned request *)
Fixpoint nth_upd {A : Type} (l : list A) (n : nat) (a : A) : list A :=
  match l, n with
  | [], _ => []
  | _ :: r, 0 => a :: r
  | x :: r, S n' => x :: nth_upd r n' a
  end.
Fixpoint run_sched {A : Type} (g : nat) (st : cstate) (pool : list (prog A)) (sched : list nat)
  : list (prog A) * cstate :=
  match sched with
  | [] => (pool, st)
  | t :: sched' =>
    match nth_error pool t with
    | None => run_sched g st pool sched'
    | Some p => let (p', st') := pstep g st p in run_sched g st' (nth_upd pool t p') sched'
    end
  end.
