(* ReaderDeriv3.v — C04 gap, part 3: layout ( *c-wsp is read greedily, and every derivable *c-wsp span is a
   prefix of the greedy one), the mutually recursive part (element / group / option / repetition /
   concatenation / alternation) and the elements-level theorem. *)
From Coq Require Import String Ascii List NArith Arith Bool Lia.
Import ListNotations.
From ABNF Require Import Base Engine Spec EngineSound AbnfRead Registry GenTypes Loader Bundled RfcSpec
     Tables Visit Visitor VisitorProps ReaderDeriv1 ReaderDeriv2.
Local Open Scope list_scope.
Opaque l_meta r_boot G.
Arguments ERef r%N.
Arguments ERange (lo hi)%N.
Arguments ELit cs v%N.
Arguments fold_cp c%N.

(* ------------------------------------------------------------------------------------------ *)
(** * Layout *)
(* greedy *c-wsp without fuel *)
Definition cw (r : str) : str := c_wsps (length r) r.

Lemma c_wsps_fuel : forall f1 f2 r, length r <= f1 -> length r <= f2 -> c_wsps f1 r = c_wsps f2 r.
Proof.
  induction f1 as [|f1 IH]; intros f2 r H1 H2.
  - destruct r; [|cbn in H1; lia]. destruct f2; reflexivity.
  - destruct f2 as [|f2].
    + destruct r; [|cbn in H2; lia]. reflexivity.
    + cbn [c_wsps]. destruct (c_wsp r) as [r'|] eqn:E; [|reflexivity].
      apply c_wsp_len in E. apply IH; lia.
Qed.
Lemma cw_fuel f r : length r <= f -> c_wsps f r = cw r.
Proof. intros H. unfold cw. apply c_wsps_fuel; lia. Qed.
Lemma cw_step r r' : c_wsp r = Some r' -> cw r = cw r'.
Proof.
  intros E. unfold cw at 1. pose proof (c_wsp_len _ _ E) as L.
  destruct (length r) as [|n] eqn:Ln; [lia|]. cbn [c_wsps]. rewrite E. apply cw_fuel. lia.
Qed.
Lemma cw_stop r : c_wsp r = None -> cw r = r.
Proof. intros E. unfold cw. destruct (length r); cbn [c_wsps]; [reflexivity|]. rewrite E. reflexivity. Qed.
Lemma cw_nil : cw [] = [].
Proof. reflexivity. Qed.

Definition is_lay (c : cp) : bool := is_wsp c || is 59 c || is 13 c.

Lemma c_wsp_nolay c r : is_lay c = false -> c_wsp (c :: r) = None.
Proof.
  unfold is_lay. intros H. apply orb_false_iff in H. destruct H as [H H3].
  apply orb_false_iff in H. destruct H as [H1 H2].
  cbn [c_wsp]. rewrite H1. unfold c_nl, AbnfRead.crlf. cbn [eat]. change (ch ";") with 59%N. rewrite H2, H3. reflexivity.
Qed.
Lemma cw_nolay c r : is_lay c = false -> cw (c :: r) = c :: r.
Proof. intros H. apply cw_stop. apply c_wsp_nolay. exact H. Qed.

Lemma is_lay_cases c : is_lay c = true -> c = 32%N \/ c = 9%N \/ c = 59%N \/ c = 13%N.
Proof.
  unfold is_lay, is_wsp, is. intros H.
  repeat (apply orb_true_iff in H; destruct H as [H|H]); apply N.eqb_eq in H; subst; auto.
Qed.
Lemma is_lay_follow c : is_lay c = true -> is_follow c = true.
Proof. intros H. destruct (is_lay_cases c H) as [ -> | [ -> | [ -> | -> ] ] ]; reflexivity. Qed.

Definition noexp (ns : list node) : Prop := Forall (fun x => produces_expr x = false) ns.
Definition lay_nodes (ns : list node) : Prop :=
  Forall (fun x => exists ch, x = Nd (s_of "c-wsp") ch) ns.
Lemma lay_noexp ns : lay_nodes ns -> noexp ns.
Proof. intros H. induction H as [|x l [ch ->] _ IH]; constructor; [reflexivity|exact IH]. Qed.

Lemma sk_lt s i j : length (sk s j) < length (sk s i) -> i < j.
Proof. rewrite !sk_len. lia. Qed.

Section Layout.
  Variable s : str.
  Notation sk := (sk s).

  Lemma comment_body_ok vs r : Forall (fun c => (is_wsp c || is_vchar c) = true) vs ->
    comment_body (vs ++ 13%N :: 10%N :: r) = Some r.
  Proof.
    intros H. induction H as [|c vs Hc _ IH]; cbn [app comment_body].
    - reflexivity.
    - rewrite Hc. exact IH.
  Qed.

  Lemma c_nl_ok i ns j : D G s (ERef 18) i ns j ->
    c_nl (sk i) = Some (sk j) /\ (exists ch, ns = [Nd (s_of "c-nl") ch]) /\
    exists c r, sk i = c :: r /\ (is 59 c || is 13 c) = true.
  Proof.
    intros H. destruct (D_ref_inv s _ _ _ _ _ _ def_c_nl H) as (ch & -> & H').
    split; [|split; [eauto|]];
      apply D_alt_inv in H'; destruct H' as (e & Hin & H'); destruct Hin as [<-|[<-|[]]].
    - destruct (D_ref_inv s _ _ _ _ _ _ def_comment H') as (ch' & -> & H2).
      apply D_cat3_inv in H2. destruct H2 as (j1 & j2 & n1 & n2 & n3 & -> & H1 & H2 & H3).
      apply D_sym_inv in H1; [|reflexivity]. destruct H1 as (-> & -> & E1).
      apply D_rep_inv in H2. destruct H2 as (n & H2 & _ & _).
      destruct (DI_chr s _ _ (chr_cchar s) _ _ _ _ H2) as (vs & E2 & _ & F2 & _).
      apply D_CRLF in H3. destruct H3 as [-> E3].
      rewrite E1, E2, E3. unfold c_nl. cbn [eat]. change (is (ch ";") 59%N) with true. cbv iota.
      apply comment_body_ok. exact F2.
    - apply D_CRLF in H'. destruct H' as [-> E]. rewrite E. reflexivity.
    - destruct (D_ref_inv s _ _ _ _ _ _ def_comment H') as (ch' & -> & H2).
      apply D_cat3_inv in H2. destruct H2 as (j1 & j2 & n1 & n2 & n3 & -> & H1 & H2 & H3).
      apply D_sym_inv in H1; [|reflexivity]. destruct H1 as (-> & -> & E1).
      eexists _, _. split; [exact E1|reflexivity].
    - apply D_CRLF in H'. destruct H' as [-> E]. eexists _, _. split; [exact E|reflexivity].
  Qed.

  Lemma c_wsp_ok i ns j : D G s (ERef 17) i ns j ->
    c_wsp (sk i) = Some (sk j) /\ (exists ch, ns = [Nd (s_of "c-wsp") ch]) /\
    exists c r, sk i = c :: r /\ is_lay c = true.
  Proof.
    intros H. destruct (D_ref_inv s _ _ _ _ _ _ def_c_wsp H) as (ch & -> & H').
    apply D_alt_inv in H'. destruct H' as (e & Hin & H'). destruct Hin as [<-|[<-|[]]].
    - destruct (chr_WSP s _ _ _ H') as (c & -> & E & _ & C). split; [|split; [eauto|]].
      + rewrite E. cbn [c_wsp]. rewrite C. reflexivity.
      + eexists _, _. split; [exact E|]. unfold is_lay. rewrite C. reflexivity.
    - apply D_cat2_inv in H'. destruct H' as (k & n1 & n2 & -> & H1 & H2).
      destruct (c_nl_ok _ _ _ H1) as (R1 & _ & (c & r & E1 & C1)).
      destruct (chr_WSP s _ _ _ H2) as (w & -> & E2 & _ & C2). split; [|split; [eauto|]].
      + rewrite E1 in *. cbn [c_wsp].
        assert (is_wsp c = false) as ->.
        { apply orb_true_iff in C1. destruct C1 as [C1|C1]; apply N.eqb_eq in C1; subst c; reflexivity. }
        rewrite R1, E2, C2. reflexivity.
      + eexists _, _. split; [exact E1|]. unfold is_lay. rewrite <- orb_assoc, C1. apply orb_true_r.
  Qed.

  Lemma c_wsps_ok : forall n i ns j, DI G s (ERef 17) n i ns j ->
    cw (sk i) = cw (sk j) /\ lay_nodes ns /\ i <= j /\
    (1 <= n -> i < j /\ is_some (c_wsp (sk i)) = true /\ exists c r, sk i = c :: r /\ is_lay c = true).
  Proof.
    induction n as [|n IH]; intros i ns j H.
    - apply DI_0_inv in H. destruct H as [-> ->]. split; [reflexivity|]. split; [constructor|].
      split; [lia|]. intros; lia.
    - apply DI_S_inv in H. destruct H as (k & n1 & n2 & -> & H1 & H2).
      destruct (c_wsp_ok _ _ _ H1) as (R1 & (ch & ->) & Hc).
      destruct (IH _ _ _ H2) as (E2 & L2 & Le & _).
      pose proof (sk_lt s _ _ (c_wsp_len _ _ R1)) as Lt.
      split; [|split; [|split]].
      + rewrite (cw_step _ _ R1). exact E2.
      + constructor; [eauto|exact L2].
      + lia.
      + intros _. rewrite R1. split; [lia|]. split; [reflexivity|exact Hc].
  Qed.

  (* a *c-wsp repetition in any of the rules *)
  Lemma c_wsps_rep id i ns j : D G s (ERep id 0 None (ERef 17)) i ns j ->
    cw (sk i) = cw (sk j) /\ lay_nodes ns /\ i <= j /\ (i = j \/ exists c r, sk i = c :: r /\ is_lay c = true).
  Proof.
    intros H. apply D_rep_inv in H. destruct H as (n & H & _ & _).
    destruct (c_wsps_ok _ _ _ _ H) as (E & L & Le & Hn). repeat split; auto.
    destruct n as [|n]; [left; apply DI_0_inv in H; destruct H; auto|right; apply Hn; lia].
  Qed.
End Layout.

(* ------------------------------------------------------------------------------------------ *)
(** * The reader, one round at a time *)
Definition read_elem (f : nat) (s1 : str) : option (aexpr * str) :=
  match eat (ch "(") s1, eat (ch "[") s1 with
  | Some r, _ => match alt_f f [] [] (c_wsps f r) with
                 | Some (e, r1) => match eat (ch ")") r1 with Some r2 => Some (e, r2) | None => None end
                 | None => None
                 end
  | _, Some r => match alt_f f [] [] (c_wsps f r) with
                 | Some (e, r1) => match eat (ch "]") r1 with Some r2 => Some (AOpt e, r2) | None => None end
                 | None => None
                 end
  | None, None => terminal f s1
  end.
Definition read_rep (f : nat) (s0 : str) : option (aexpr * str) :=
  let (rp, s1) := read_repeat s0 in
  match read_elem f s1 with Some (e, s2) => Some (with_repeat rp e, s2) | None => None end.
Definition post (f : nat) (alts cur : list aexpr) (s2 : str) : option (aexpr * str) :=
  let s3 := c_wsps f s2 in
  match eat (ch "/") s3 with
  | Some r => alt_f f (mk_cat cur :: alts) [] (c_wsps f r)
  | None => if starts_repetition s3 && is_some (c_wsp s2) then alt_f f alts cur s3
            else Some (mk_alt (mk_cat cur :: alts), s3)
  end.

Lemma alt_f_S f alts cur s0 : alt_f (S f) alts cur s0 =
  match read_rep f s0 with Some (x, s2) => post f alts (x :: cur) s2 | None => None end.
Proof.
  unfold read_rep.
  change (alt_f (S f) alts cur s0) with
    (let (rp, s1) := read_repeat s0 in
     match read_elem f s1 with
     | Some (e, s2) => post f alts (with_repeat rp e :: cur) s2
     | None => None
     end).
  destruct (read_repeat s0) as [rp s1]. destruct (read_elem f s1) as [[e s2]|]; reflexivity.
Qed.

Lemma read_elem_lp f r : read_elem f (40%N :: r) =
  match alt_f f [] [] (c_wsps f r) with
  | Some (e, r1) => match eat 41 r1 with Some r2 => Some (e, r2) | None => None end
  | None => None
  end.
Proof. reflexivity. Qed.
Lemma read_elem_lb f r : read_elem f (91%N :: r) =
  match alt_f f [] [] (c_wsps f r) with
  | Some (e, r1) => match eat 93 r1 with Some r2 => Some (AOpt e, r2) | None => None end
  | None => None
  end.
Proof. reflexivity. Qed.
Lemma read_elem_other f c r : is 40 c = false -> is 91 c = false -> read_elem f (c :: r) = terminal f (c :: r).
Proof.
  intros H1 H2. unfold read_elem. cbn [eat]. change (ch "(") with 40%N. change (ch "[") with 91%N.
  rewrite H1, H2. reflexivity.
Qed.
Lemma terminal_alpha f c r : is_alpha c = true -> terminal f (c :: r) =
  match read_name (c :: r) with Some (n, r1) => Some (ARef n, r1) | None => None end.
Proof. intros H. unfold terminal. rewrite H. reflexivity. Qed.

(* ---- character classes ---- *)
Lemma is_false a c : a <> c -> is a c = false.
Proof. intros H. apply N.eqb_neq. exact H. Qed.
Lemma between_false lo hi c : (c < lo \/ hi < c)%N -> between lo hi c = false.
Proof.
  intros H. unfold between. destruct (N.leb_spec lo c); destruct (N.leb_spec c hi); cbn; try reflexivity. lia.
Qed.
Lemma alpha_range c : is_alpha c = true -> (65 <= c /\ c <= 90)%N \/ (97 <= c /\ c <= 122)%N.
Proof.
  unfold is_alpha, between. intros H. apply orb_true_iff in H.
  destruct H as [H|H]; apply andb_true_iff in H; destruct H as [A B]; apply N.leb_le in A; apply N.leb_le in B; auto.
Qed.
Lemma digit_range c : is_digit c = true -> (48 <= c /\ c <= 57)%N.
Proof.
  unfold is_digit, between. intros H. apply andb_true_iff in H. destruct H as [A B].
  apply N.leb_le in A. apply N.leb_le in B. auto.
Qed.

Definition starts_element (r : str) : bool :=
  match r with
  | c :: _ => is_alpha c || is 40 c || is 91 c || is 34 c || is 37 c || is 60 c
  | [] => false
  end.
Lemma starts_rep_eq c r : starts_repetition (c :: r) =
  is_digit c || is 42 c || (is_alpha c || is 40 c || is 91 c || is 34 c || is 37 c || is 60 c).
Proof.
  change (starts_repetition (c :: r)) with
    (is_digit c || is 42 c || is_alpha c || is 40 c || is 91 c || is 34 c || is 37 c || is 60 c).
  destruct (is_digit c), (is 42 c), (is_alpha c), (is 40 c), (is 91 c), (is 34 c), (is 37 c); reflexivity.
Qed.
Lemma starts_elem_rep r : starts_element r = true -> starts_repetition r = true.
Proof. destruct r as [|c r]; [discriminate|]. intros H. rewrite starts_rep_eq. cbn [starts_element] in H. rewrite H. apply orb_true_r. Qed.

(* a character that starts an element: not a digit, "*", layout, "/" *)
Lemma elem_char c : (is_alpha c || is 40 c || is 91 c || is 34 c || is 37 c || is 60 c) = true ->
  is_digit c = false /\ is 42 c = false /\ is_lay c = false /\ is 47 c = false /\
  (is_alpha c = false -> is_namechar c = false).
Proof.
  intros H. remember (is_alpha c) as al eqn:Eal.
  repeat (apply orb_true_iff in H; destruct H as [H|H]);
    try (apply N.eqb_eq in H; subst c; repeat split; reflexivity).
  subst al. pose proof H as Hal. apply alpha_range in H. unfold is_lay, is_wsp, is_digit.
  destruct H as [[A B]|[A B]];
    (split; [apply between_false; lia|]); rewrite !is_false by lia; repeat split; intros Ha;
    rewrite Hal in Ha; discriminate.
Qed.
Lemma rep_char c r : starts_repetition (c :: r) = true -> is_lay c = false /\ is 47 c = false.
Proof.
  rewrite starts_rep_eq. intros H. apply orb_true_iff in H. destruct H as [H|H].
  - apply orb_true_iff in H. destruct H as [H|H].
    + apply digit_range in H. unfold is_lay, is_wsp. rewrite !is_false by lia. split; reflexivity.
    + apply N.eqb_eq in H. subst c. split; reflexivity.
  - destruct (elem_char c H) as (_ & _ & A & B & _). split; assumption.
Qed.
Lemma cw_rep r : starts_repetition r = true -> cw r = r /\ eat (ch "/") r = None.
Proof.
  destruct r as [|c r]; [discriminate|]. intros H. destruct (rep_char c r H) as [A B]. split.
  - apply cw_nolay. exact A.
  - cbn [eat]. change (ch "/") with 47%N. rewrite B. reflexivity.
Qed.
Lemma read_repeat_none r : starts_element r = true -> read_repeat r = (None, r).
Proof.
  destruct r as [|c r]; [discriminate|]. cbn [starts_element]. intros H.
  destruct (elem_char c H) as (A & B & _). unfold read_repeat, opt_count.
  cbn [number]. rewrite (rd_digit10_none c A). cbn [eat]. change (ch "*") with 42%N. rewrite B. reflexivity.
Qed.
Lemma starts_elem_nofirst r : starts_element r = true -> nofirst (fun c => is_digit c || is 42 c) r.
Proof.
  destruct r as [|c r]; [discriminate|]. cbn [starts_element nofirst]. intros H.
  destruct (elem_char c H) as (A & B & _). rewrite A, B. reflexivity.
Qed.

(* ---- abstraction of wrapper nodes ---- *)
Lemma args_a_cons x r : args_a (x :: r) =
  if produces_expr x then
    match ast_of x with
    | Some a => match args_a r with Some es => Some (a :: es) | None => None end
    | None => None
    end
  else args_a r.
Proof. reflexivity. Qed.
Lemma args_a_app l1 l2 : args_a (l1 ++ l2) =
  match args_a l1, args_a l2 with Some a, Some b => Some (a ++ b) | _, _ => None end.
Proof.
  induction l1 as [|x l1 IH]; cbn [app].
  - change (args_a []) with (Some (@nil aexpr)). destruct (args_a l2); reflexivity.
  - rewrite !args_a_cons. destruct (produces_expr x); [|exact IH].
    destruct (ast_of x); [|reflexivity]. rewrite IH.
    destruct (args_a l1); [|reflexivity]. destruct (args_a l2); reflexivity.
Qed.
Lemma args_a_noexp l : noexp l -> args_a l = Some [].
Proof.
  intros H. induction H as [|x l Hx _ IH]; [reflexivity|]. rewrite args_a_cons, Hx. exact IH.
Qed.
Lemma args_a_one x a : produces_expr x = true -> ast_of x = Some a -> args_a [x] = Some [a].
Proof. intros P A. rewrite args_a_cons, P, A. reflexivity. Qed.
Lemma args_a_leaf v o l : args_a [Leaf v o l] = Some [].
Proof. reflexivity. Qed.

Lemma key_produces x k : key_is x k = true ->
  In k ["alternation"; "concatenation"; "repetition"; "element"; "elements"; "group"; "option"; "char_val";
        "num_val"; "prose_val"; "rulename"]%string -> produces_expr x = true.
Proof.
  intros K Hin. unfold produces_expr. cbn [In] in Hin.
  repeat (destruct Hin as [<-|Hin]; [rewrite K; rewrite ?orb_true_r; reflexivity|]). contradiction.
Qed.

Lemma ast_of_inner nm ch es :
  key_is (Nd nm ch) "rulename" = false -> key_is (Nd nm ch) "char_val" = false ->
  key_is (Nd nm ch) "num_val" = false -> key_is (Nd nm ch) "prose_val" = false ->
  args_a ch = Some es -> ast_of (Nd nm ch) = ast_combine (Nd nm ch) ch es.
Proof. intros K1 K2 K3 K4 A. rewrite ast_of_Nd. cbv zeta. rewrite K1, K2, K3, K4, A. reflexivity. Qed.

Lemma ast_element x a : produces_expr x = true -> ast_of x = Some a ->
  ast_of (Nd (s_of "element") [x]) = Some a.
Proof.
  intros P A. rewrite (ast_of_inner _ _ [a]); try reflexivity. apply args_a_one; assumption.
Qed.

Definition acat (l : list aexpr) : aexpr := match l with [e] => e | _ => ACat l end.
Definition aalt (l : list aexpr) : aexpr := match l with [e] => e | _ => AAlt l end.
Lemma mk_cat_rev l : mk_cat (rev l) = acat l.
Proof.
  destruct l as [|a [|b l]]; [reflexivity|reflexivity|]. unfold mk_cat. rewrite rev'_rev, rev_involutive.
  destruct (rev (a :: b :: l)) as [|x [|y r]] eqn:E; try reflexivity.
  apply (f_equal (@length _)) in E. rewrite rev_length in E. cbn in E. lia.
Qed.
Lemma mk_alt_rev l : mk_alt (rev l) = aalt l.
Proof.
  destruct l as [|a [|b l]]; [reflexivity|reflexivity|]. unfold mk_alt. rewrite rev'_rev, rev_involutive.
  destruct (rev (a :: b :: l)) as [|x [|y r]] eqn:E; try reflexivity.
  apply (f_equal (@length _)) in E. rewrite rev_length in E. cbn in E. lia.
Qed.

Lemma comb_rep r0 l e : ast_combine (Nd (s_of "repetition") (r0 :: l)) (r0 :: l) [e] =
  if name_is r0 "repeat" then
    match v_repeat r0 with Some (mn, mx) => Some (ARep mn mx e) | None => None end
  else if name_is r0 "element" then Some e else None.
Proof. reflexivity. Qed.
Lemma comb_cat ch es : ast_combine (Nd (s_of "concatenation") ch) ch es =
  match es with [] => None | [e] => Some e | _ => Some (ACat es) end.
Proof. reflexivity. Qed.
Lemma comb_alt ch es : ast_combine (Nd (s_of "alternation") ch) ch es =
  match es with [] => None | [e] => Some e | _ => Some (AAlt es) end.
Proof. reflexivity. Qed.

Definition symcond (k : cp) : Prop := ((k <? 65) || (122 <? k) || ((90 <? k) && (k <? 97)))%N = true.
Definition cat_item : expr := ECat [ERep 11 1 None (ERef 17); ERef 25].
Definition alt_item : expr := ECat [ERep 8 0 None (ERef 17); ELit false [47%N]; ERep 9 0 None (ERef 17); ERef 24].

Section Struct.
  Variable s : str.
  Notation sk := (sk s).

  (* ---- first characters ---- *)
  Lemma rulename_first i ns j : D G s (ERef 19) i ns j -> exists c r, sk i = c :: r /\ is_alpha c = true.
  Proof.
    intros H. destruct (D_ref_inv s _ _ _ _ _ _ def_rulename H) as (ch & -> & H').
    apply D_cat2_inv in H'. destruct H' as (k & n1 & n2 & -> & H1 & H2).
    destruct (chr_ALPHA s _ _ _ H1) as (c & -> & E1 & V1 & A1). eauto.
  Qed.

  Lemma elem_first i ns j : D G s (ERef 27) i ns j -> starts_element (sk i) = true.
  Proof.
    intros H. destruct (D_ref_inv s _ _ _ _ _ _ def_element H) as (ch & -> & H').
    apply D_alt_inv in H'. destruct H' as (e & Hin & H').
    destruct Hin as [<-|[<-|[<-|[<-|[<-|[<-|[]]]]]]].
    - destruct (rulename_first _ _ _ H') as (c & r & E & A). rewrite E. cbn [starts_element]. rewrite A. reflexivity.
    - destruct (D_ref_inv s _ _ _ _ _ _ def_group H') as (ch' & -> & H2).
      apply D_cat_inv in H2. destruct H2 as (k & n1 & n2 & -> & H1 & _).
      apply D_sym_inv in H1; [|reflexivity]. destruct H1 as (_ & _ & E). rewrite E. reflexivity.
    - destruct (D_ref_inv s _ _ _ _ _ _ def_option H') as (ch' & -> & H2).
      apply D_cat_inv in H2. destruct H2 as (k & n1 & n2 & -> & H1 & _).
      apply D_sym_inv in H1; [|reflexivity]. destruct H1 as (_ & _ & E). rewrite E. reflexivity.
    - destruct (char_val_ok s _ _ _ H') as (t & cs & v & _ & _ & _ & _ & (c & r & E & C)).
      rewrite E. cbn [starts_element]. apply orb_true_iff in C.
      destruct C as [C|C]; apply N.eqb_eq in C; subst c; reflexivity.
    - destruct (D_ref_inv s _ _ _ _ _ _ def_num_val H') as (ch' & -> & H2).
      apply D_cat_inv in H2. destruct H2 as (k & n1 & n2 & -> & H1 & _).
      apply D_sym_inv in H1; [|reflexivity]. destruct H1 as (_ & _ & E). rewrite E. reflexivity.
    - destruct (prose_ok s _ _ _ H') as (t & a & _ & _ & _ & _ & (r & E)). rewrite E. reflexivity.
  Qed.

  Lemma digit_first n i ns j : DI G s (ERef 2) (S n) i ns j -> starts_repetition (sk i) = true.
  Proof.
    intros H. apply DI_S_inv in H. destruct H as (k & n1 & n2 & -> & H1 & _).
    destruct (dig_DIGIT s _ _ _ H1) as (x & d & _ & _ & E & (_ & _ & Hd)).
    rewrite E, starts_rep_eq. rewrite digit_ok10 in Hd. rewrite Hd. reflexivity.
  Qed.

  Lemma rep_first i ns j : D G s (ERef 25) i ns j -> starts_repetition (sk i) = true.
  Proof.
    intros H. destruct (D_ref_inv s _ _ _ _ _ _ def_repetition H) as (ch & -> & H').
    apply D_cat2_inv in H'. destruct H' as (j1 & n1 & n2 & -> & H1 & H2).
    apply D_opt_inv in H1. destruct H1 as [[-> ->]|H1].
    - apply starts_elem_rep. apply (elem_first _ _ _ H2).
    - destruct (D_ref_inv s _ _ _ _ _ _ def_repeat H1) as (ch' & -> & H3).
      apply D_alt_inv in H3. destruct H3 as (e & Hin & H3). destruct Hin as [<-|[<-|[]]].
      + apply D_cat_inv in H3. destruct H3 as (k & a1 & a2 & -> & H3 & H4).
        apply D_rep_inv in H3. destruct H3 as (m & H3 & _ & _). destruct m as [|m].
        * apply DI_0_inv in H3. destruct H3 as [-> ->].
          apply D_cat_inv in H4. destruct H4 as (k' & b1 & b2 & -> & H4 & _).
          apply D_sym_inv in H4; [|reflexivity]. destruct H4 as (_ & _ & E). rewrite E. reflexivity.
        * apply (digit_first _ _ _ _ H3).
      + apply D_rep_inv in H3. destruct H3 as (m & H3 & Hm & _). destruct m as [|m]; [lia|].
        apply (digit_first _ _ _ _ H3).
  Qed.
  Lemma concat_first i ns j : D G s (ERef 24) i ns j -> starts_repetition (sk i) = true.
  Proof.
    intros H. destruct (D_ref_inv s _ _ _ _ _ _ def_concatenation H) as (ch & -> & H').
    apply D_cat_inv in H'. destruct H' as (k & n1 & n2 & -> & H1 & _). apply (rep_first _ _ _ H1).
  Qed.
  Lemma alt_first i ns j : D G s (ERef 22) i ns j -> starts_repetition (sk i) = true.
  Proof.
    intros H. destruct (D_ref_inv s _ _ _ _ _ _ def_alternation H) as (ch & -> & H').
    apply D_cat_inv in H'. destruct H' as (k & n1 & n2 & -> & H1 & _). apply (concat_first _ _ _ H1).
  Qed.

  Lemma fol_lay j c r : sk j = c :: r -> is_lay c = true -> fol (sk j).
  Proof. intros E H. rewrite E. cbn. apply is_lay_follow. exact H. Qed.

  (* ---- the induction hypothesis: alternations of span < n ---- *)
  Definition afol (r : str) : Prop :=
    fol r /\ eat (ch "/") (cw r) = None /\ (starts_repetition (cw r) && is_some (c_wsp r)) = false.

  Definition ALT_upto (n : nat) : Prop :=
    forall i t j, j - i < n -> D G s (ERef 22) i [t] j -> afol (sk j) ->
      exists a, ast_of t = Some a /\ produces_expr t = true /\
        forall f, length (sk i) < f -> alt_f f [] [] (sk i) = Some (a, cw (sk j)).

  Lemma bracket_ok n o c a b : symcond o -> symcond c -> is_lay c = false -> is 47 c = false ->
    (forall r, starts_repetition (c :: r) = false) -> is_follow c = true ->
    ALT_upto n -> forall i ch0 j, j - i <= n ->
    D G s (ECat [ELit false [o]; ERep a 0 None (ERef 17); ERef 22; ERep b 0 None (ERef 17); ELit false [c]])
      i ch0 j ->
    exists aa, args_a ch0 = Some [aa] /\ sk i = o :: sk (i + 1) /\
      forall f, length (sk i) <= f -> alt_f f [] [] (c_wsps f (sk (i + 1))) = Some (aa, c :: sk j).
  Proof.
    intros Ho Hc Hc1 Hc2 Hc3 Hc4 IHn i ch0 j Hspan H.
    apply D_cat5_inv in H.
    destruct H as (j1 & j2 & j3 & j4 & n1 & n2 & n3 & n4 & n5 & -> & H1 & H2 & H3 & H4 & H5).
    apply D_sym_inv in H1; [|exact Ho]. destruct H1 as (-> & -> & E1).
    apply D_sym_inv in H5; [|exact Hc]. destruct H5 as (-> & -> & E5).
    destruct (c_wsps_rep s _ _ _ _ H2) as (W2 & L2 & Le2 & _).
    destruct (c_wsps_rep s _ _ _ _ H4) as (W4 & L4 & Le4 & F4).
    pose proof (alt_first _ _ _ H3) as S3. pose proof (D_bounds _ _ _ _ _ _ H3) as B3.
    destruct (D_ref_inv s _ _ _ _ _ _ def_alternation H3) as (ch3 & -> & _).
    assert (Haf : afol (sk j3)).
    { split; [|split].
      - destruct F4 as [->|(c' & r' & E' & C')]; [rewrite E5; exact Hc4|apply (fol_lay _ _ _ E' C')].
      - rewrite W4, E5, (cw_nolay _ _ Hc1). cbn [eat]. change (ch "/") with 47%N. rewrite Hc2. reflexivity.
      - rewrite W4, E5, (cw_nolay _ _ Hc1), Hc3. reflexivity. }
    destruct (IHn j2 _ j3 ltac:(lia) H3 Haf) as (aa & A & P & R).
    exists aa. split; [|split; [exact E1|]].
    - rewrite !args_a_app, args_a_leaf, (args_a_noexp _ (lay_noexp _ L2)), (args_a_one _ _ P A),
        (args_a_noexp _ (lay_noexp _ L4)), args_a_leaf. reflexivity.
    - intros f Hlen. pose proof (sk_len s i) as Li. pose proof (sk_len s (i + 1)) as Li1.
      pose proof (sk_len s j2) as Lj2. rewrite E1 in Hlen, Li. cbn [length] in Hlen, Li.
      rewrite cw_fuel by lia. rewrite W2. rewrite (proj1 (cw_rep _ S3)).
      rewrite R by lia. rewrite W4, E5, (cw_nolay _ _ Hc1). reflexivity.
  Qed.

  Lemma alpha_not_bracket c : is_alpha c = true -> is 40 c = false /\ is 91 c = false.
  Proof. intros H. apply alpha_range in H. split; apply is_false; lia. Qed.

  Lemma element_ok n : ALT_upto n -> forall i ns j, j - i <= n -> D G s (ERef 27) i ns j -> fol (sk j) ->
    exists x a, ns = [Nd (s_of "element") [x]] /\ ast_of (Nd (s_of "element") [x]) = Some a /\
      forall f, length (sk i) <= f -> read_elem f (sk i) = Some (a, sk j).
  Proof.
    intros IHn i ns j Hspan H Hf. destruct (D_ref_inv s _ _ _ _ _ _ def_element H) as (ch & -> & H').
    apply D_alt_inv in H'. destruct H' as (e & Hin & H').
    destruct Hin as [<-|[<-|[<-|[<-|[<-|[<-|[]]]]]]].
    - destruct (rulename_ok s _ _ _ H' (fol_nofirst _ _ follow_namechar Hf))
        as (t & -> & K & A & R & (c & r & E & Al)).
      eexists t, _. split; [reflexivity|]. split.
      + apply ast_element; [|exact A]. apply (key_produces t "rulename" K). cbn. tauto.
      + intros f _. rewrite E in *. destruct (alpha_not_bracket c Al) as [B1 B2].
        rewrite (read_elem_other f c r B1 B2), (terminal_alpha f c r Al), R. reflexivity.
    - destruct (D_ref_inv s _ _ _ _ _ _ def_group H') as (ch' & -> & H2).
      destruct (bracket_ok n 40%N 41%N _ _ eq_refl eq_refl eq_refl eq_refl (fun r => eq_refl) eq_refl
                  IHn _ _ _ Hspan H2) as (aa & A & E & R).
      eexists _, aa. split; [reflexivity|]. split.
      + apply ast_element; [reflexivity|]. rewrite (ast_of_inner _ _ [aa]); try reflexivity. exact A.
      + intros f Hlen. rewrite E, read_elem_lp. rewrite (R f Hlen). reflexivity.
    - destruct (D_ref_inv s _ _ _ _ _ _ def_option H') as (ch' & -> & H2).
      destruct (bracket_ok n 91%N 93%N _ _ eq_refl eq_refl eq_refl eq_refl (fun r => eq_refl) eq_refl
                  IHn _ _ _ Hspan H2) as (aa & A & E & R).
      eexists _, (AOpt aa). split; [reflexivity|]. split.
      + apply ast_element; [reflexivity|]. rewrite (ast_of_inner _ _ [aa]); try reflexivity. exact A.
      + intros f Hlen. rewrite E, read_elem_lb. rewrite (R f Hlen). reflexivity.
    - destruct (char_val_ok s _ _ _ H') as (t & cs & v & -> & P & A & T & (c & r & E & C)).
      eexists t, _. split; [reflexivity|]. split; [apply ast_element; [exact P|exact A]|].
      intros f _. rewrite <- (T f). rewrite E. apply read_elem_other;
        apply orb_true_iff in C; destruct C as [C|C]; apply N.eqb_eq in C; subst c; reflexivity.
    - destruct (num_val_ok s _ _ _ H' (fol_nofirst _ _ follow_numch Hf)) as (t & a & -> & P & A & T & (r & E)).
      eexists t, _. split; [reflexivity|]. split; [apply ast_element; [exact P|exact A]|].
      intros f Hlen. rewrite <- (T f Hlen). rewrite E. apply read_elem_other; reflexivity.
    - destruct (prose_ok s _ _ _ H') as (t & a & -> & P & A & T & (r & E)).
      eexists t, _. split; [reflexivity|]. split; [apply ast_element; [exact P|exact A]|].
      intros f _. rewrite <- (T f). rewrite E. apply read_elem_other; reflexivity.
  Qed.
End Struct.

Section Struct2.
  Variable s : str.
  Notation sk := (sk s).
  Notation ALT_upto := (ALT_upto s).

  Lemma repetition_ok n : ALT_upto n -> forall i ns j, j - i <= n -> D G s (ERef 25) i ns j -> fol (sk j) ->
    exists t a, ns = [t] /\ produces_expr t = true /\ ast_of t = Some a /\
      forall f, length (sk i) <= f -> read_rep f (sk i) = Some (a, sk j).
  Proof.
    intros IHn i ns j Hspan H Hf. destruct (D_ref_inv s _ _ _ _ _ _ def_repetition H) as (ch & -> & H').
    apply D_cat2_inv in H'. destruct H' as (j1 & n1 & n2 & -> & H1 & H2).
    pose proof (elem_first s _ _ _ H2) as S2.
    apply D_opt_inv in H1. destruct H1 as [[-> ->]|H1].
    - destruct (element_ok s n IHn _ _ _ Hspan H2 Hf) as (x & a & -> & A & R).
      eexists _, a. split; [reflexivity|]. split; [reflexivity|]. split.
      + rewrite (ast_of_inner _ _ [a]); try reflexivity. apply args_a_one; [reflexivity|exact A].
      + intros f Hlen. unfold read_rep. rewrite (read_repeat_none _ S2), (R f Hlen). reflexivity.
    - pose proof (D_bounds _ _ _ _ _ _ H1) as B1.
      destruct (element_ok s n IHn j1 _ j ltac:(lia) H2 Hf) as (x & a & -> & A & R).
      destruct (repeat_ok s _ _ _ H1 (starts_elem_nofirst _ S2)) as (tr & [mn mx] & -> & Nm & P & V & RR & _).
      eexists _, (ARep mn mx a). split; [reflexivity|]. split; [reflexivity|]. split.
      + rewrite (ast_of_inner _ _ [a]); try reflexivity.
        * cbn [app]. rewrite comb_rep, Nm, V. reflexivity.
        * cbn [app]. rewrite args_a_cons, P. apply args_a_one; [reflexivity|exact A].
      + intros f Hlen. unfold read_rep. rewrite RR. rewrite R; [reflexivity|].
        pose proof (sk_len s i). pose proof (sk_len s j1). lia.
  Qed.

  Lemma cat_items_fol : forall m k ns k1, DI G s cat_item m k ns k1 -> fol (sk k1) -> fol (sk k).
  Proof.
    intros [|m] k ns k1 H Hf.
    - apply DI_0_inv in H. destruct H as [_ ->]. exact Hf.
    - apply DI_S_inv in H. destruct H as (k' & n1 & n2 & -> & H1 & _).
      unfold cat_item in H1. apply D_cat2_inv in H1. destruct H1 as (q & l1 & l2 & -> & H1 & _).
      apply D_rep_inv in H1. destruct H1 as (c & H1 & Hc & _).
      destruct (c_wsps_ok s _ _ _ _ H1) as (_ & _ & _ & Hn).
      destruct (Hn Hc) as (_ & _ & (c0 & r0 & E & L)). apply (fol_lay s _ _ _ E L).
  Qed.

  Lemma cat_loop n : ALT_upto n -> forall m k0 ns k1, k1 - k0 <= n -> DI G s cat_item m k0 ns k1 ->
    fol (sk k1) ->
    exists es, args_a ns = Some es /\
      forall alts cur RES,
        (forall f, length (sk k1) <= f -> post f alts (rev es ++ cur) (sk k1) = RES) ->
        forall f, length (sk k0) <= f -> post f alts cur (sk k0) = RES.
  Proof.
    intros IHn. induction m as [|m IH]; intros k0 ns k1 Hspan H Hf.
    - apply DI_0_inv in H. destruct H as [-> ->]. exists []. split; [reflexivity|].
      intros alts cur RES Hk f Hlen. apply Hk. exact Hlen.
    - apply DI_S_inv in H. destruct H as (k' & n1 & n2 & -> & H1 & H2).
      unfold cat_item in H1. apply D_cat2_inv in H1. destruct H1 as (q & l1 & l2 & -> & H1 & H1').
      apply D_rep_inv in H1. destruct H1 as (c & H1 & Hc & _).
      destruct (c_wsps_ok s _ _ _ _ H1) as (W & L & _ & Hn).
      destruct (Hn Hc) as (Lt & Hsome & (c0 & r0 & E0 & L0)).
      pose proof (D_bounds _ _ _ _ _ _ H1') as B1. pose proof (DI_bounds _ _ _ _ _ _ _ H2) as B2.
      destruct (IH k' _ k1 ltac:(lia) H2 Hf) as (es' & A' & Hcont).
      pose proof (cat_items_fol _ _ _ _ H2 Hf) as Hf'.
      destruct (repetition_ok n IHn q _ k' ltac:(lia) H1' Hf') as (t & a & -> & P & A & R).
      pose proof (rep_first s _ _ _ H1') as S1. destruct (cw_rep _ S1) as [C1 C2].
      exists (a :: es'). split.
      + rewrite !args_a_app, (args_a_noexp _ (lay_noexp _ L)), (args_a_one _ _ P A), A'. reflexivity.
      + intros alts cur RES Hk f Hlen.
        pose proof (sk_len s k0) as Lk0. pose proof (sk_len s q) as Lq. pose proof (sk_len s k') as Lk'.
        assert (Hk0 : k0 < length s).
        { rewrite E0 in Lk0. cbn [length] in Lk0. lia. }
        destruct f as [|f]; [lia|].
        unfold post. rewrite cw_fuel by exact Hlen. rewrite W, C1, C2, S1, Hsome. cbn [andb].
        rewrite alt_f_S. rewrite (R f) by lia.
        apply (Hcont alts (a :: cur) RES); [|lia].
        intros f' Hlen'. rewrite <- (Hk f' Hlen'). cbn [rev]. rewrite <- app_assoc. reflexivity.
  Qed.

  Lemma concat_ok n : ALT_upto n -> forall i ns j, j - i <= n -> D G s (ERef 24) i ns j -> fol (sk j) ->
    exists t fw, ns = [t] /\ produces_expr t = true /\ ast_of t = Some (acat fw) /\
      forall alts RES,
        (forall f, length (sk j) <= f -> post f alts (rev fw) (sk j) = RES) ->
        forall f, length (sk i) < f -> alt_f f alts [] (sk i) = RES.
  Proof.
    intros IHn i ns j Hspan H Hf. destruct (D_ref_inv s _ _ _ _ _ _ def_concatenation H) as (ch & -> & H').
    apply D_cat2_inv in H'. destruct H' as (k0 & n1 & n2 & -> & H1 & H2).
    apply D_rep_inv in H2. destruct H2 as (m & H2 & _ & _).
    pose proof (D_bounds _ _ _ _ _ _ H1) as B1. pose proof (DI_bounds _ _ _ _ _ _ _ H2) as B2.
    destruct (cat_loop n IHn m k0 _ j ltac:(lia) H2 Hf) as (es & A' & Hcont).
    pose proof (cat_items_fol _ _ _ _ H2 Hf) as Hf'.
    destruct (repetition_ok n IHn i _ k0 ltac:(lia) H1 Hf') as (t & a & -> & P & A & R).
    eexists _, (a :: es). split; [reflexivity|]. split; [reflexivity|]. split.
    - rewrite (ast_of_inner _ _ (a :: es)); try reflexivity.
      + rewrite comb_cat. destruct es; reflexivity.
      + rewrite args_a_app, (args_a_one _ _ P A), A'. reflexivity.
    - intros alts RES Hk f Hlen. destruct f as [|f]; [lia|].
      rewrite alt_f_S, (R f) by lia.
      apply (Hcont alts [a] RES); [|pose proof (sk_len s i); pose proof (sk_len s k0); lia].
      intros f' Hlen'. rewrite <- (Hk f' Hlen'). reflexivity.
  Qed.

  Lemma alt_items_fol : forall m j0 ns j, DI G s alt_item m j0 ns j -> fol (sk j) -> fol (sk j0).
  Proof.
    intros [|m] j0 ns j H Hf.
    - apply DI_0_inv in H. destruct H as [_ ->]. exact Hf.
    - apply DI_S_inv in H. destruct H as (k' & n1 & n2 & -> & H1 & _).
      unfold alt_item in H1. apply D_cat4_inv in H1.
      destruct H1 as (q & q1 & q2 & l1 & l2 & l3 & l4 & -> & H1 & H2 & _).
      destruct (c_wsps_rep s _ _ _ _ H1) as (_ & _ & _ & [->|(c0 & r0 & E & L)]).
      + apply D_sym_inv in H2; [|reflexivity]. destruct H2 as (_ & _ & E). rewrite E. reflexivity.
      + apply (fol_lay s _ _ _ E L).
  Qed.

  Lemma alt_loop n : ALT_upto n -> forall m j0 ns j, j - j0 <= n -> DI G s alt_item m j0 ns j ->
    afol (sk j) ->
    exists cs, args_a ns = Some cs /\
      forall alts cur f, length (sk j0) <= f ->
        post f alts cur (sk j0) = Some (mk_alt (rev cs ++ mk_cat cur :: alts), cw (sk j)).
  Proof.
    intros IHn. induction m as [|m IH]; intros j0 ns j Hspan H Haf.
    - apply DI_0_inv in H. destruct H as [-> ->]. exists []. split; [reflexivity|].
      intros alts cur f Hlen. destruct Haf as (_ & A2 & A3).
      unfold post. rewrite cw_fuel by exact Hlen. rewrite A2, A3. reflexivity.
    - apply DI_S_inv in H. destruct H as (j1 & n1 & n2 & -> & H1 & H2).
      unfold alt_item in H1. apply D_cat4_inv in H1.
      destruct H1 as (q & q1 & q2 & l1 & l2 & l3 & l4 & -> & H1 & H1b & H1c & H1d).
      destruct (c_wsps_rep s _ _ _ _ H1) as (W1 & L1 & Le1 & _).
      apply D_sym_inv in H1b; [|reflexivity]. destruct H1b as (-> & -> & Eq).
      destruct (c_wsps_rep s _ _ _ _ H1c) as (W3 & L3 & Le3 & _).
      pose proof (D_bounds _ _ _ _ _ _ H1d) as B1. pose proof (DI_bounds _ _ _ _ _ _ _ H2) as B2.
      destruct (IH j1 _ j ltac:(lia) H2 Haf) as (cs' & A' & Hrest).
      pose proof (alt_items_fol _ _ _ _ H2 (proj1 Haf)) as Hf'.
      destruct (concat_ok n IHn q2 _ j1 ltac:(lia) H1d Hf') as (t & fw & -> & P & A & Hcat).
      pose proof (concat_first s _ _ _ H1d) as S1. destruct (cw_rep _ S1) as [C1 _].
      exists (acat fw :: cs'). split.
      + rewrite !args_a_app, (args_a_noexp _ (lay_noexp _ L1)), args_a_leaf,
          (args_a_noexp _ (lay_noexp _ L3)), (args_a_one _ _ P A), A'. reflexivity.
      + intros alts cur f Hlen.
        pose proof (sk_len s j0) as Lj0. pose proof (sk_len s q) as Lq. pose proof (sk_len s (q + 1)) as Lq1.
        pose proof (sk_len s q2) as Lq2. pose proof (sk_len s j1) as Lj1.
        assert (Hq : q < length s). { rewrite Eq in Lq. cbn [length] in Lq. lia. }
        unfold post. rewrite cw_fuel by exact Hlen. rewrite W1, Eq, (cw_nolay 47%N _ eq_refl).
        change (eat (ch "/") (47%N :: sk (q + 1))) with (Some (sk (q + 1))). cbv iota.
        rewrite cw_fuel by lia. rewrite W3, C1.
        rewrite (Hcat (mk_cat cur :: alts)
                      (Some (mk_alt (rev (acat fw :: cs') ++ mk_cat cur :: alts), cw (sk j)))); [reflexivity| |lia].
        intros f' Hlen'. rewrite (Hrest _ _ f' Hlen'), mk_cat_rev. cbn [rev]. rewrite <- app_assoc. reflexivity.
  Qed.

  Lemma ALT_step n : ALT_upto n -> ALT_upto (S n).
  Proof.
    intros IHn i t j Hspan H Haf.
    destruct (D_ref_inv s _ _ _ _ _ _ def_alternation H) as (ch & Et & H'). injection Et as ->.
    apply D_cat2_inv in H'. destruct H' as (j0 & n1 & n2 & -> & H1 & H2).
    apply D_rep_inv in H2. destruct H2 as (m & H2 & _ & _).
    pose proof (D_bounds _ _ _ _ _ _ H1) as B1. pose proof (DI_bounds _ _ _ _ _ _ _ H2) as B2.
    destruct (alt_loop n IHn m j0 _ j ltac:(lia) H2 Haf) as (cs & A' & Hrest).
    pose proof (alt_items_fol _ _ _ _ H2 (proj1 Haf)) as Hf'.
    destruct (concat_ok n IHn i _ j0 ltac:(lia) H1 Hf') as (t & fw & -> & P & A & Hcat).
    exists (aalt (acat fw :: cs)). split; [|split; [reflexivity|]].
    - rewrite (ast_of_inner _ _ (acat fw :: cs)); try reflexivity.
      + rewrite comb_alt. destruct cs; reflexivity.
      + rewrite args_a_app, (args_a_one _ _ P A), A'. reflexivity.
    - intros f Hlen.
      rewrite (Hcat [] (Some (aalt (acat fw :: cs), cw (sk j)))); [reflexivity| |exact Hlen].
      intros f' Hlen'. rewrite (Hrest _ _ f' Hlen'), mk_cat_rev, <- mk_alt_rev. reflexivity.
  Qed.

  Lemma ALT_all : forall n, ALT_upto n.
  Proof.
    induction n as [|n IH]; [intros i t j Hlt; lia|apply ALT_step; exact IH].
  Qed.

  (* every derivation of an alternation, in a context where the reader stops after it *)
  Theorem alternation_ok i t j : D G s (ERef 22) i [t] j -> afol (sk j) ->
    exists a, ast_of t = Some a /\ produces_expr t = true /\
      forall f, length (sk i) < f -> alt_f f [] [] (sk i) = Some (a, cw (sk j)).
  Proof. intros H Haf. apply (ALT_all (S (j - i)) i t j); [lia|exact H|exact Haf]. Qed.
End Struct2.

(* ------------------------------------------------------------------------------------------ *)
(** * elements *)
Definition efol (r : str) : Prop :=
  fol r /\ eat (ch "/") (cw r) = None /\ starts_repetition (cw r) = false.

Section Elements.
  Variable s : str.
  Notation sk := (sk s).

  Lemma elements_ok i ns j : D G s (ERef 21) i ns j -> efol (sk j) ->
    exists t a, ns = [t] /\ key_is t "elements" = true /\ ast_of t = Some a /\
      forall f, length (sk i) < f -> alt_f f [] [] (sk i) = Some (a, cw (sk j)).
  Proof.
    intros H (F1 & F2 & F3). destruct (D_ref_inv s _ _ _ _ _ _ def_elements H) as (ch & -> & H').
    apply D_cat2_inv in H'. destruct H' as (j2 & n1 & n2 & -> & H1 & H2).
    destruct (c_wsps_rep s _ _ _ _ H2) as (W & L & Le & F).
    destruct (D_ref_inv s _ _ _ _ _ _ def_alternation H1) as (ch1 & -> & _).
    assert (Haf : afol (sk j2)).
    { split; [|split].
      - destruct F as [->|(c & r & E & C)]; [exact F1|apply (fol_lay s _ _ _ E C)].
      - rewrite W. exact F2.
      - rewrite W, F3. reflexivity. }
    destruct (alternation_ok s _ _ _ H1 Haf) as (a & A & P & R).
    eexists _, a. split; [reflexivity|]. split; [reflexivity|]. split.
    - rewrite (ast_of_inner _ _ [a]); try reflexivity.
      rewrite args_a_app, (args_a_one _ _ P A), (args_a_noexp _ (lay_noexp _ L)). reflexivity.
    - intros f Hlen. rewrite (R f Hlen), W. reflexivity.
  Qed.
End Elements.

(* every derivation of a whole text as [elements] has the abstract syntax that the spec reader returns;
   no restriction on the layout (comments and continuation lines included) *)
Theorem reader_agrees_elements_G : forall s t,
  D G s (ERef 21) 0 [t] (length s) ->
  exists a, ast_of t = Some a /\ read_elements s = Some (a, []).
Proof.
  intros s t H.
  assert (Hf : efol (sk s (length s))).
  { rewrite sk_end by lia. repeat split. }
  destruct (elements_ok s _ _ _ H Hf) as (t' & a & Et & _ & A & R). injection Et as <-.
  exists a. split; [exact A|]. unfold read_elements.
  change (alt_f (S (length s)) [] [] s) with (alt_f (S (length s)) [] [] (sk s 0)). rewrite R.
  - rewrite sk_end by lia. reflexivity.
  - change (sk s 0) with s. lia.
Qed.

Print Assumptions c_wsps_ok.
Print Assumptions alternation_ok.
Print Assumptions reader_agrees_elements_G.
