(* LoadBundled.v — C14, stage 4: the theorems of LoadOrder/LoadClosure instantiated on the REAL data (the
   translated class descriptions [bundled], the boot registry [r_boot], the all-modules registry [R_all]).
   The static side conditions are discharged by kernel computation on boolean checkers proved sound:
     boot registry well formed, keys unique, no object of a loadable class, core class as in R_all;
     for every bundled class: no core name defined/imported/flagged, imports come from other classes,
       flag statements local ([flags_local]), and the snapshots of R_all are a FIXED POINT of its abstract loader;
     module dependencies acyclic (ranked by position), class numbers distinct, the imports of every class come
       from the declared dependencies of its module or from earlier classes of the same module.
   Result: C14 for ALL import sets and orders (no sampling). *)
From Coq Require Import List NArith Arith Bool Lia.
Import ListNotations.
From ABNF Require Import Base Engine AbnfRead Registry EngineSound RegistryProps GenTypes Loader
     GenBundled Bundled TablesAll LoadFrame1 LoadWf LoadFrame2 LoadUq LoadAbs LoadOrder LoadClosure.

Fixpoint idx (m : str) (l : list str) : nat :=
  match l with
  | [] => 0
  | x :: r => if str_eqb x m then 0 else S (idx m r)
  end.
Lemma idx_le m l : idx m l <= length l.
Proof. induction l as [|x r IH]; simpl; [lia|]. destruct (str_eqb x m); lia. Qed.

Definition oeqb (x y : option N) : bool :=
  match x, y with Some a, Some b => N.eqb a b | None, None => true | _, _ => false end.
Fixpoint onodupb (l : list (option N)) : bool :=
  match l with
  | [] => true
  | x :: r => negb (existsb (oeqb x) r) && onodupb r
  end.
Lemma onodupb_sound l : onodupb l = true -> NoDup l.
Proof.
  induction l as [|x r IH]; simpl; intros H; [constructor|].
  apply andb_true_iff in H. destruct H as [H1 H2]. constructor; [|apply IH; exact H2].
  intros Hin. apply negb_true_iff in H1.
  assert (X : existsb (oeqb x) r = true).
  { apply existsb_exists. exists x. split; [exact Hin|]. destruct x; simpl; [apply N.eqb_refl|reflexivity]. }
  congruence.
Qed.

(* ------------------------------------------------------------------------------------------ *)
(* generic end-to-end statement: every tactic step happens here, on variables                   *)
(* ------------------------------------------------------------------------------------------ *)
Section Generic.
  Variables (classes : list gclass) (names : list str) (R0 Rref : reg).
  Definition sig (c : cls) : list entry := class_snapshot Rref c.
  Definition rank (m : str) : nat := idx m names.
  Definition Dm : nat := 8.

  Definition chk_boot : bool :=
    wfb R0 && uqb R0 && same_class R0 Rref 0%N && forallb (fun o => N.ltb (ocls o) 2) (objs R0).
  Definition chk_static : bool := forallb (static_okb classes sig) classes.
  Definition chk_deps : bool :=
    forallb (fun m => Nat.leb (length (deps classes m)) Dm &&
                      forallb (fun d => existsb (str_eqb d) names && Nat.ltb (rank d) (rank m)) (deps classes m))
            names.
  Definition chk_cn : bool :=
    forallb (fun g => match cn classes g with Some _ => true | None => false end) classes &&
    onodupb (map (cn classes) classes).
  Definition chk_mod : bool :=
    forallb (fun m => imports_okb classes (lc classes (deps classes m)) (CM classes m)) names.
  Hypotheses (H1 : chk_boot = true) (H2 : chk_static = true) (H3 : chk_deps = true) (H4 : chk_cn = true)
             (H5 : chk_mod = true).

  Lemma inv_start : inv sig R0 [].
  Proof.
    unfold chk_boot in H1. apply andb_true_iff in H1. destruct H1 as [A A4].
    apply andb_true_iff in A. destruct A as [A A3]. apply andb_true_iff in A. destruct A as [A1 A2].
    constructor.
    - apply wfb_sound; exact A1.
    - apply uqb_sound; exact A2.
    - apply same_class_iff; exact A3.
    - intros c [].
    - intros o Ho. left. rewrite forallb_forall in A4. apply N.ltb_lt. apply A4. exact Ho.
  Qed.
  Lemma all_static g : In g classes -> static_ok classes sig g.
  Proof. intros Hg. apply static_okb_sound. unfold chk_static in H2. rewrite forallb_forall in H2. auto. Qed.
  Lemma deps_ok m : In m names ->
    length (deps classes m) <= Dm /\ forall d, In d (deps classes m) -> In d names /\ rank d < rank m.
  Proof.
    intros Hm. unfold chk_deps in H3. rewrite forallb_forall in H3. specialize (H3 m Hm).
    apply andb_true_iff in H3. destruct H3 as [A B]. split; [apply Nat.leb_le; exact A|].
    intros d Hd. rewrite forallb_forall in B. specialize (B d Hd). apply andb_true_iff in B.
    destruct B as [B1 B2]. split; [apply mem_in; exact B1|apply Nat.ltb_lt; exact B2].
  Qed.
  Lemma cn_some g : In g classes -> cn classes g <> None.
  Proof.
    intros Hg. unfold chk_cn in H4. apply andb_true_iff in H4. destruct H4 as [A _].
    rewrite forallb_forall in A. specialize (A g Hg). destruct (cn classes g); [discriminate|discriminate A].
  Qed.
  Lemma cn_nodup : NoDup (map (cn classes) classes).
  Proof.
    unfold chk_cn in H4. apply andb_true_iff in H4. destruct H4 as [_ B]. apply onodupb_sound. exact B.
  Qed.
  Lemma mod_ok m : In m names -> imports_ok classes (lc classes (deps classes m)) (CM classes m).
  Proof.
    intros Hm. apply imports_okb_sound. unfold chk_mod in H5. rewrite forallb_forall in H5. auto.
  Qed.

  (* every class list that respects dependencies realises the reference snapshots *)
  Theorem generic_class_order L :
    (forall g, In g L -> In g classes) -> dep_ok classes [] L ->
    exists R, load_classes classes L R0 = Some R /\ class_snapshot R 0%N = class_snapshot Rref 0%N /\
              forall g c, In g L -> cn classes g = Some c -> class_snapshot R c = class_snapshot Rref c.
  Proof.
    intros HL HD.
    destruct (run_ok classes sig L [] R0 inv_start (fun g Hg => all_static g (HL g Hg)) HD) as (R & E & I).
    exists R. split; [exact E|]. split; [exact (i_core _ _ _ I)|].
    intros g c Hg Hc. apply (i_snap _ _ _ I c). apply after_in. right. exists g. split; [exact Hg|exact Hc].
  Qed.

  (* every module list, closed under dependencies the way Python imports them *)
  Theorem generic_module_order fuel ms :
    (forall m, In m ms -> In m names) -> length ms + Dm * S (length names) <= fuel ->
    exists R, load_classes classes (cmods classes (gclosure classes fuel ms [])) R0 = Some R /\
              class_snapshot R 0%N = class_snapshot Rref 0%N /\
              forall m g c, In m (gclosure classes fuel ms []) -> In g classes -> gmod g = m ->
                            cn classes g = Some c -> class_snapshot R c = class_snapshot Rref c.
  Proof.
    intros Hms Hf.
    destruct (closure_spec classes names rank Dm deps_ok fuel (S (length names)) ms []) as (MI & _ & _).
    - intros m Hm. split; [apply Hms; exact Hm|]. unfold rank. pose proof (idx_le m names). lia.
    - exact Hf.
    - apply minv_nil.
    - destruct (dep_ok_cmods classes names cn_some cn_nodup mod_ok _ MI) as (DO & HIn).
      destruct (generic_class_order _ HIn DO) as (R & E & C0 & CS).
      exists R. split; [exact E|]. split; [exact C0|].
      intros m g c Hm Hg Hgm Hc. apply (CS g c); [|exact Hc].
      unfold cmods. apply in_flat_map. exists m. split; [exact Hm|]. apply CM_in. auto.
  Qed.

  (* the classes of a module, as TablesAll.classes_of computes them *)
  Definition gclasses_of (m : str) : list cls :=
    flat_map (fun g => if str_eqb (gmod g) m
                       then match cls_of classes (gmod g) (gcls g) with Some c => [c] | None => [] end
                       else []) classes.
  Lemma gclasses_of_in m c : In c (gclasses_of m) ->
    exists g, In g classes /\ gmod g = m /\ cn classes g = Some c.
  Proof.
    unfold gclasses_of. intros H. apply in_flat_map in H. destruct H as (g & Hg & H). exists g.
    destruct (str_eqb (gmod g) m) eqn:E; [|destruct H]. apply (proj1 (str_eqb_eq _ _)) in E.
    unfold cn. destruct (cls_of classes (gmod g) (gcls g)) as [c'|]; [|destruct H].
    destruct H as [<-|[]]. auto.
  Qed.
End Generic.

Lemma same_class_via R1 R2 Rr c :
  same_class R1 Rr c = true -> same_class R2 Rr c = true -> same_class R1 R2 c = true.
Proof.
  intros X Y. apply same_class_iff. apply same_class_iff in X. apply same_class_iff in Y. congruence.
Qed.
Lemma same_classes_via R1 R2 Rr cs :
  forallb (same_class R1 Rr) cs = true -> forallb (same_class R2 Rr) cs = true ->
  forallb (same_class R1 R2) cs = true.
Proof.
  intros X Y. rewrite forallb_forall in *. intros c Hc. apply (same_class_via R1 R2 Rr c); auto.
Qed.

(* ------------------------------------------------------------------------------------------ *)
(* the real data                                                                               *)
(* ------------------------------------------------------------------------------------------ *)
Opaque bundled.

Lemma b_boot : chk_boot (r_boot tt) R_all = true.
Proof. vm_cast_no_check (eq_refl true). Qed.
Lemma b_static : chk_static bundled R_all = true.
Proof. vm_cast_no_check (eq_refl true). Qed.
Lemma b_deps : chk_deps bundled module_names = true.
Proof. vm_cast_no_check (eq_refl true). Qed.
Lemma b_cn : chk_cn bundled = true.
Proof. vm_cast_no_check (eq_refl true). Qed.
Lemma b_mod : chk_mod bundled module_names = true.
Proof. vm_cast_no_check (eq_refl true). Qed.
Lemma b_len : length module_names = 25.
Proof. vm_cast_no_check (eq_refl 25). Qed.

Lemma closure_eq f : forall todo acc, dep_closure f todo acc = gclosure bundled f todo acc.
Proof.
  induction f as [|f IH]; intros todo acc; [reflexivity|]. destruct todo as [|m r]; [reflexivity|].
  simpl. rewrite !IH. reflexivity.
Qed.
Lemma cm_eq ms : classes_of_modules ms = cmods bundled ms.
Proof. reflexivity. Qed.
Lemma classes_of_eq m : classes_of m = gclasses_of bundled m.
Proof. reflexivity. Qed.

(* C14, every dependency-respecting ORDER OF CLASSES: it loads, and every class loaded looks as in R_all *)
Theorem C14_class_orders L :
  (forall g, In g L -> In g bundled) -> dep_ok bundled [] L ->
  exists R, load_classes bundled L (r_boot tt) = Some R /\ same_class R R_all 0%N = true /\
            forall g c, In g L -> cls_of bundled (gmod g) (gcls g) = Some c -> same_class R R_all c = true.
Proof.
  intros HL HD.
  destruct (generic_class_order bundled (r_boot tt) R_all b_boot b_static L HL HD) as (R & E & C0 & CS).
  exists R. split; [exact E|]. split; [apply same_class_iff; exact C0|].
  intros g c Hg Hc. apply same_class_iff. exact (CS g c Hg Hc).
Qed.

(* two such orders agree on every class they share *)
Theorem C14_two_class_orders L1 L2 :
  (forall g, In g L1 -> In g bundled) -> (forall g, In g L2 -> In g bundled) ->
  dep_ok bundled [] L1 -> dep_ok bundled [] L2 ->
  exists R1 R2, load_classes bundled L1 (r_boot tt) = Some R1 /\ load_classes bundled L2 (r_boot tt) = Some R2 /\
    same_class R1 R2 0%N = true /\
    forall g c, In g L1 -> In g L2 -> cls_of bundled (gmod g) (gcls g) = Some c -> same_class R1 R2 c = true.
Proof.
  intros A1 A2 D1 D2.
  exact (order_independent bundled (sig R_all) (r_boot tt) L1 L2
           (inv_start (r_boot tt) R_all b_boot)
           (fun g Hg => all_static bundled R_all b_static g (A1 g Hg))
           (fun g Hg => all_static bundled R_all b_static g (A2 g Hg)) D1 D2).
Qed.

(* C14, EVERY IMPORT SET AND ORDER: for every list ms of bundled module names (any order, repetitions allowed, at
   most 192 entries — the fuel 400 of r_order must cover the list plus the dependency depth), the import succeeds
   and every module imported (ms and all their dependencies), and the core class, look exactly as when all
   bundled modules are imported in the standard order *)
Theorem C14_all_orders ms :
  (forall m, In m ms -> In m module_names) -> length ms <= 192 ->
  exists R, r_order ms = Some R /\ same_class R R_all 0%N = true /\
            forall m, In m (dep_closure 400 ms []) -> same_module R R_all m = true.
Proof.
  intros Hms Hlen.
  destruct (generic_module_order bundled module_names (r_boot tt) R_all b_boot b_static b_deps b_cn b_mod
                                 400 ms Hms) as (R & E & C0 & CS).
  { rewrite b_len. unfold Dm. lia. }
  exists R. split; [|split].
  - unfold r_order. rewrite closure_eq, cm_eq. exact E.
  - apply same_class_iff. exact C0.
  - intros m Hm. unfold same_module. apply forallb_forall. intros c Hc.
    rewrite classes_of_eq in Hc. destruct (gclasses_of_in bundled m c Hc) as (g & Hg & Hgm & Hcn).
    apply same_class_iff. apply (CS m g c); [rewrite <- closure_eq; exact Hm|exact Hg|exact Hgm|exact Hcn].
Qed.

(* consequence: any two import lists agree on every module they both (transitively) import *)
Corollary C14_two_orders ms1 ms2 :
  (forall m, In m ms1 -> In m module_names) -> (forall m, In m ms2 -> In m module_names) ->
  length ms1 <= 192 -> length ms2 <= 192 ->
  exists R1 R2, r_order ms1 = Some R1 /\ r_order ms2 = Some R2 /\ same_class R1 R2 0%N = true /\
    forall m, In m (dep_closure 400 ms1 []) -> In m (dep_closure 400 ms2 []) -> same_module R1 R2 m = true.
Proof.
  intros A1 A2 B1 B2.
  destruct (C14_all_orders ms1 A1 B1) as (R1 & E1 & C1 & S1).
  destruct (C14_all_orders ms2 A2 B2) as (R2 & E2 & C2 & S2).
  exists R1, R2. split; [exact E1|]. split; [exact E2|].
  split; [exact (same_class_via R1 R2 R_all 0%N C1 C2)|].
  intros m M1 M2. exact (same_classes_via R1 R2 R_all (classes_of m) (S1 m M1) (S2 m M2)).
Qed.

Print Assumptions C14_class_orders.
Print Assumptions C14_two_class_orders.
Print Assumptions C14_all_orders.
Print Assumptions C14_two_orders.
