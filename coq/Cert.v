(* Cert.v — untrusted COMPUTATION of the well-formedness certificate (nullable, rank) of a grammar given as
   an association list, checked by the verified checker WfCheck.wf_check; and the lemmas that let theorems
   about [of_list (grammar_list R)] be used for the registry view [grammar_of R]. *)
From Coq Require Import List NArith Arith Bool Lia.
Import ListNotations.
From ABNF Require Import Base Engine Spec Wf Checks WfCheck AbnfRead Registry EngineSound.

(* least nullable assignment by n rounds of iteration *)
Fixpoint iter_nul (n : nat) (l : list (rid * rule)) (nl : list (rid * bool)) : list (rid * bool) :=
  match n with
  | 0 => nl
  | S n' =>
    iter_nul n' l (map (fun p => (fst p, match rdef (snd p) with
                                        | Some d => enull (nul_of nl) d
                                        | None => false end)) l)
  end.
Definition compute_nul (l : list (rid * rule)) : list (rid * bool) :=
  iter_nul (S (length l)) l (map (fun p => (fst p, false)) l).

(* ranks by n rounds of  rank r := max (erank (def r)) (1 + rank of the excluded rule) *)
Fixpoint iter_rank (n : nat) (l : list (rid * rule)) (nul : rid -> bool) (rk : list (rid * nat)) : list (rid * nat) :=
  match n with
  | 0 => rk
  | S n' =>
    iter_rank n' l nul (map (fun p => (fst p,
       Nat.max (match rdef (snd p) with Some d => erank nul (rank_of rk) d | None => 0 end)
               (match rexcl (snd p) with Some x => S (rank_of rk x) | None => 0 end))) l)
  end.
Definition compute_rank (l : list (rid * rule)) (nl : list (rid * bool)) : list (rid * nat) :=
  iter_rank (S (length l)) l (nul_of nl) (map (fun p => (fst p, 0)) l).

Definition auto_wf (l : list (rid * rule)) : bool :=
  let nl := compute_nul l in wf_check l nl (compute_rank l nl).

(* the same with a bounded number of iteration rounds (enough when reference chains are short; the certificate is
   CHECKED by wf_check either way, so too few rounds can only make the check fail, never pass wrongly) *)
Definition auto_wf_n (rounds : nat) (l : list (rid * rule)) : bool :=
  let nl := iter_nul rounds l (map (fun p => (fst p, false)) l) in
  wf_check l nl (iter_rank rounds l (nul_of nl) (map (fun p => (fst p, 0)) l)).
Lemma auto_wf_n_sound rounds l : auto_wf_n rounds l = true -> exists nul rank, wf nul rank (of_list l).
Proof. unfold auto_wf_n. intros H. eexists. eexists. apply wf_check_sound. exact H. Qed.

Lemma auto_wf_sound l : auto_wf l = true -> exists nul rank, wf nul rank (of_list l).
Proof.
  unfold auto_wf. intros H. eexists. eexists. apply wf_check_sound. exact H.
Qed.

(* the engine only looks at the grammar pointwise *)
Section Ext.
  Variable sh : list mtch -> list mtch.
  Variables G1 G2 : grammar.
  Hypothesis HG : forall r, G1 r = G2 r.

  Lemma step_ext rec1 rec2 k : (forall e s i, rec1 e s i = rec2 e s i) ->
    forall e s i, step sh G1 rec1 k e s i = step sh G2 rec2 k e s i.
  Proof.
    intros Hrec.
    assert (Halt : forall fm es s i acc, alt_loop rec1 fm es s i acc = alt_loop rec2 fm es s i acc).
    { intros fm es; induction es as [|e es IH]; intros s i acc; simpl; [reflexivity|].
      rewrite Hrec. destruct (rec2 e s i); auto. destruct fm; auto. }
    assert (Hext : forall e s ms, extend rec1 e s ms = extend rec2 e s ms).
    { intros e s ms; induction ms as [|m ms IH]; simpl; [reflexivity|].
      rewrite Hrec, IH. reflexivity. }
    assert (Hcl : forall es s cur, cat_loop rec1 es s cur = cat_loop rec2 es s cur).
    { intros es; induction es as [|e es IH]; intros s cur; simpl; [reflexivity|].
      rewrite Hext. destruct (extend rec2 e s cur) as [[|x xs]| | |]; auto. }
    assert (Hcat : forall es s i, cat rec1 es s i = cat rec2 es s i).
    { intros es s i. unfold cat. rewrite Hcl. reflexivity. }
    assert (Hrl : forall k0 e mx s count mset last,
               rep_loop sh rec1 k0 e mx s count mset last = rep_loop sh rec2 k0 e mx s count mset last).
    { intros k0; induction k0 as [|k0 IH]; intros e mx s count mset last; simpl; [reflexivity|].
      destruct (match mx with Some m => Nat.eqb count m | None => false end); [reflexivity|].
      rewrite Hext. destruct (extend rec2 e s (sort_desc (sh last))); auto.
      destruct (subset (set_of ms) mset); auto. }
    assert (Hrep : forall k0 mn mx e s i, rep sh rec1 k0 mn mx e s i = rep sh rec2 k0 mn mx e s i).
    { intros k0 mn mx e s i. unfold rep. destruct mn; [apply Hrl|]. rewrite Hcat.
      destruct (cat rec2 (repeat e (S mn)) s i); auto. }
    assert (Hex : forall x m, excluded sh rec1 x m = excluded sh rec2 x m).
    { intros x m. unfold excluded. destruct x; [|reflexivity]. rewrite Hrec. reflexivity. }
    assert (Hfe : forall x ms, filter_excl sh rec1 x ms = filter_excl sh rec2 x ms).
    { intros x ms; induction ms as [|m ms IH]; simpl; [reflexivity|]. rewrite Hex, IH. reflexivity. }
    intros e s i. destruct e; simpl; auto.
    unfold ref. rewrite HG. destruct (G2 r) as [ru|]; [|reflexivity].
    destruct (rdef ru) as [d|]; [|reflexivity]. rewrite Hrec. destruct (rec2 d s i); auto.
    rewrite Hfe. reflexivity.
  Qed.

  Lemma lparse_ext f : forall e s i, lparse sh G1 f e s i = lparse sh G2 f e s i.
  Proof.
    induction f as [|f IH]; intros e s i; simpl; [reflexivity|]. apply step_ext. exact IH.
  Qed.
End Ext.

Lemma M_ext G1 G2 : (forall r, G1 r = G2 r) -> forall s e i j, M G1 s e i j -> M G2 s e i j.
Proof.
  intros HG s.
  assert (H : (forall e i j, M G1 s e i j -> M G2 s e i j) /\
              (forall e n i j, MI G1 s e n i j -> MI G2 s e n i j)).
  { apply (M_MI_mut G1 s); intros; try (econstructor; eauto; fail).
    econstructor; eauto. rewrite <- HG. eassumption. }
  exact (proj1 H).
Qed.
