(* LoadAbs.v — C14, stage 3b: the ABSTRACT class loader.  It works on canonical snapshots only (no rule ids, no
   definition indices): [aload classes g sigma] computes the snapshot of the class of g from the snapshot sigma 0 of
   the core class and the snapshots of the classes g imports from.  LoadSim*.v prove that the concrete loader
   [load_class] computes exactly this on the snapshots of the registry (under static side conditions); hence what
   a class looks like after its load is a function of what its sources look like, whatever else was imported
   and in whatever order.  Here: definitions and the dependency lemma ([aload_ext]). *)
From Coq Require Import List NArith Arith Bool Lia.
Import ListNotations.
From ABNF Require Import Base Engine AbnfRead Registry EngineSound GenTypes Loader TablesAll LoadFrame1.

Definition entry : Type := str * str * option texpr * option (cls * str).
Definition ekey (e : entry) : str := fst (fst (fst e)).
Definition edef (e : entry) : option texpr := snd (fst e).
Definition eset (f : option texpr -> option texpr) (e : entry) : entry :=
  let '(k, n, d, x) := e in (k, n, f d, x).

Fixpoint afind (k : str) (l : list entry) : option entry :=
  match l with
  | [] => None
  | e :: r => if str_eqb (ekey e) k then Some e else afind k r
  end.
Fixpoint aset (k : str) (f : option texpr -> option texpr) (l : list entry) : list entry :=
  match l with
  | [] => []
  | e :: r => if str_eqb (ekey e) k then eset f e :: r else e :: aset k f r
  end.

Section Abs.
  Variables (c : cls) (s0 : list entry).      (* the class being loaded; the snapshot of the core class *)

  (* cls(name): own entry, else core entry, else a new blank own entry *)
  Definition arnew (own : list entry) (name : str) : list entry * (cls * str) :=
    let k := fold_name name in
    match afind k own with
    | Some _ => (own, (c, k))
    | None => match afind k s0 with
              | Some _ => (own, (0%N, k))
              | None => (own ++ [(k, name, None, None)], (c, k))
              end
    end.

  Fixpoint acompile (a : aexpr) (own : list entry) {struct a} : list entry * texpr :=
    match a with
    | ALit cs v => (own, TLit cs v)
    | ARange lo hi => (own, TRange lo hi)
    | AAlt es =>
      let '(own', ts) := (fix go (l : list aexpr) (o0 : list entry) : list entry * list texpr :=
                            match l with
                            | [] => (o0, [])
                            | x :: r => let '(o1, t1) := acompile x o0 in
                                        let '(o2, r2) := go r o1 in (o2, t1 :: r2)
                            end) es own in
      (own', TAlt false ts)
    | ACat es =>
      let '(own', ts) := (fix go (l : list aexpr) (o0 : list entry) : list entry * list texpr :=
                            match l with
                            | [] => (o0, [])
                            | x :: r => let '(o1, t1) := acompile x o0 in
                                        let '(o2, r2) := go r o1 in (o2, t1 :: r2)
                            end) es own in
      (own', TCat ts)
    | ARep mn mx e => let '(o1, t1) := acompile e own in (o1, TRep mn mx t1)
    | AOpt e => let '(o1, t1) := acompile e own in (o1, TRep 0 (Some 1) t1)
    | AProse _ => (own, TProse)
    | ARef name => let '(o1, ref) := arnew own name in (o1, TRef (fst ref) (snd ref))
    end.
  Fixpoint aclist (l : list aexpr) (o0 : list entry) : list entry * list texpr :=
    match l with
    | [] => (o0, [])
    | x :: r => let '(o1, t1) := acompile x o0 in
                let '(o2, r2) := aclist r o1 in (o2, t1 :: r2)
    end.
  Lemma acompile_alt es own :
    acompile (AAlt es) own = let '(own', ts) := aclist es own in (own', TAlt false ts).
  Proof. reflexivity. Qed.
  Lemma acompile_cat es own :
    acompile (ACat es) own = let '(own', ts) := aclist es own in (own', TCat ts).
  Proof. reflexivity. Qed.

  Definition adefine_rule (a : arule) (own : list entry) : option (list entry) :=
    let k := fold_name (aname a) in
    let '(o1, _) := arnew own (aname a) in
    let '(o2, t) := acompile (adef a) o1 in
    if aincr a then
      match afind k o2 with
      | Some e => match edef e with
                  | Some old => Some (aset k (fun _ => Some (TAlt false [old; t])) o2)
                  | None => None
                  end
      | None => None
      end
    else Some (aset k (fun _ => Some t) o2).
  Fixpoint adefine_rules (l : list arule) (own : list entry) : option (list entry) :=
    match l with
    | [] => Some own
    | a :: r => match adefine_rule a own with Some o' => adefine_rules r o' | None => None end
    end.

  (* imports: the source definitions have been looked up beforehand *)
  Definition aimport (local : str) (src : option texpr) (own : list entry) : option (list entry) :=
    match src with
    | Some t => let '(o1, _) := arnew own local in Some (aset (fold_name local) (fun _ => Some t) o1)
    | None => None
    end.
  Fixpoint aimports (l : list (str * option texpr)) (own : list entry) : option (list entry) :=
    match l with
    | [] => Some own
    | (local, src) :: r => match aimport local src own with Some o' => aimports r o' | None => None end
    end.

  (* flags *)
  Definition tflag (v : bool) (t : texpr) : texpr := match t with TAlt _ es => TAlt v es | _ => t end.
  Fixpoint aloop (skip : str -> bool) (v : bool) (ks : list str) (own : list entry) : option (list entry) :=
    match ks with
    | [] => Some own
    | k :: r =>
      match afind k own with
      | Some e => match edef e with
                  | Some t => if skip k then aloop skip v r own
                              else aloop skip v r (aset k (fun _ => Some (tflag v t)) own)
                  | None => None
                  end
      | None => None
      end
    end.
  Definition aflag (ikeys : list str) (f : flagstmt) (own : list entry) : option (list entry) :=
    match f with
    | FlagRule name v =>
      let '(o1, _) := arnew own name in
      match afind (fold_name name) o1 with
      | Some e => match edef e with
                  | Some t => Some (aset (fold_name name) (fun _ => Some (tflag v t)) o1)
                  | None => None
                  end
      | None => None
      end
    | FlagAll v => aloop (fun _ => false) v (map ekey own) own
    | FlagOwnNotSharedWith _ _ v => aloop (fun k => existsb (str_eqb k) ikeys) v (map ekey own) own
    end.
  Fixpoint aflags (ikeys : list str) (l : list flagstmt) (own : list entry) : option (list entry) :=
    match l with
    | [] => Some own
    | f :: r => match aflag ikeys f own with Some o' => aflags ikeys r o' | None => None end
    end.
End Abs.

(* the source of an import: the entry of the source class, else of the core class *)
Definition asrc (sigma : cls -> list entry) (sc : cls) (rn : str) : option entry :=
  match afind (fold_name rn) (sigma sc) with
  | Some e => Some e
  | None => afind (fold_name rn) (sigma 0%N)
  end.
Fixpoint aresolve (classes : list gclass) (sigma : cls -> list entry) (l : list (str * (str * str * str)))
  : option (list (str * option texpr)) :=
  match l with
  | [] => Some []
  | (local, (m, c', rn)) :: r =>
    match cls_of classes m c' with
    | Some sc => match asrc sigma sc rn, aresolve classes sigma r with
                 | Some e, Some l' => Some ((local, edef e) :: l')
                 | _, _ => None
                 end
    | None => None
    end
  end.

Definition import_keys (g : gclass) : list str := map (fun i => fold_name (fst i)) (gimports g).

Definition aload (classes : list gclass) (g : gclass) (sigma : cls -> list entry) : option (list entry) :=
  match cls_of classes (gmod g) (gcls g), own_rules g with
  | Some c, Some l =>
    match aresolve classes sigma (gimports g) with
    | Some srcs =>
      match adefine_rules c (sigma 0%N) l [] with
      | Some o2 => match aimports c (sigma 0%N) srcs o2 with
                   | Some o3 => aflags c (sigma 0%N) (import_keys g) (gflags g) o3
                   | None => None
                   end
      | None => None
      end
    | None => None
    end
  | _, _ => None
  end.

(* DEPENDENCY: the abstract loader reads the core snapshot and the snapshots of the import sources only *)
Definition import_classes (classes : list gclass) (g : gclass) : list cls :=
  flat_map (fun i => match i with (_, (m, c', _)) =>
                       match cls_of classes m c' with Some sc => [sc] | None => [] end end) (gimports g).

Lemma aresolve_ext classes s1 s2 l :
  s1 0%N = s2 0%N ->
  (forall local m c' rn sc, In (local, (m, c', rn)) l -> cls_of classes m c' = Some sc -> s1 sc = s2 sc) ->
  aresolve classes s1 l = aresolve classes s2 l.
Proof.
  intros H0. induction l as [|[local [[m c'] rn]] r IH]; intros H; simpl; [reflexivity|].
  destruct (cls_of classes m c') as [sc|] eqn:E; [|reflexivity].
  rewrite IH by (intros; eapply H; eauto; right; eassumption).
  unfold asrc. rewrite (H local m c' rn sc (or_introl eq_refl) E), H0. reflexivity.
Qed.

Theorem aload_ext classes g s1 s2 :
  s1 0%N = s2 0%N -> (forall sc, In sc (import_classes classes g) -> s1 sc = s2 sc) ->
  aload classes g s1 = aload classes g s2.
Proof.
  intros H0 H. unfold aload. rewrite H0.
  rewrite (aresolve_ext classes s1 s2 (gimports g) H0); [reflexivity|].
  intros local m c' rn sc Hin Hc. apply H. unfold import_classes. apply in_flat_map.
  exists (local, (m, c', rn)). split; [exact Hin|]. rewrite Hc. left; reflexivity.
Qed.

Print Assumptions aload_ext.
