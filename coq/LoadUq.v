(* LoadUq.v — C14, stage 3a: second invariant of registries: no two rule objects carry the same (class, key)
   ([uq]).  It holds initially, is preserved by every operation of the loader, and has a boolean checker. *)
From Coq Require Import List NArith Arith Bool Lia.
Import ListNotations.
From ABNF Require Import Base Engine AbnfRead Registry EngineSound Checks RegistryProps GenTypes Loader
     LoadFrame1 LoadWf.

Definition ck (o : robj) : cls * str := (ocls o, okey o).
Definition uq (R : reg) : Prop := NoDup (map ck (objs R)).

Lemma find_obj_none c k l : forall s, find_obj c k l s = None -> forall o, In o l -> ck o <> (c, k).
Proof.
  induction l as [|x r IH]; intros s H o Hin; simpl in H; [contradiction|].
  destruct (N.eqb (ocls x) c && str_eqb (okey x) k) eqn:E; [discriminate|].
  destruct Hin as [->|Hin]; [|eapply IH; eauto].
  intros Hck. unfold ck in Hck. inversion Hck; subst. rewrite N.eqb_refl, str_eqb_refl in E. discriminate.
Qed.

Lemma map_ck_upd (l : list robj) n f : (forall o, ck (f o) = ck o) -> map ck (upd_nth l n f) = map ck l.
Proof.
  intros Hf. revert n. induction l as [|x r IH]; intros n; simpl; [reflexivity|].
  destruct n; simpl; [rewrite Hf; reflexivity|rewrite IH; reflexivity].
Qed.

Lemma NoDup_snoc {A} (l : list A) a : NoDup l -> ~ In a l -> NoDup (l ++ [a]).
Proof.
  induction 1 as [|x r Hx Hr IH]; intros Hn; simpl.
  - constructor; [intros []|constructor].
  - constructor.
    + intros Hin. apply in_app_or in Hin. destruct Hin as [Hin|[<-|[]]]; [exact (Hx Hin)|].
      apply Hn. left; reflexivity.
    + apply IH. intros Hin. apply Hn. right; exact Hin.
Qed.

Lemma uq_rnew R c nm R1 k : rnew R c nm = (R1, k) -> uq R -> uq R1.
Proof.
  unfold rnew. destruct (rget R c nm) as [m|] eqn:E; intros H U; inversion H; subst; [exact U|].
  unfold uq; simpl. rewrite map_app. simpl.
  apply NoDup_snoc; [exact U|].
  intros Hin. apply in_map_iff in Hin. destruct Hin as (o & Ho & Hin).
  unfold rget in E. destruct (find_obj c (fold_name nm) (objs R) 0) eqn:E1; [discriminate|].
  exact (find_obj_none _ _ _ _ E1 o Hin Ho).
Qed.

Lemma uq_nextid R x : uq R -> uq (mkr (objs R) (defs R) x (epoch R)).
Proof. intros U; exact U. Qed.

Lemma clist_uq c es :
  Forall (fun a => forall R R1 e, compile c a R = (R1, e) -> uq R -> uq R1) es ->
  forall R R1 l, clist c es R = (R1, l) -> uq R -> uq R1.
Proof.
  induction 1 as [|x r Hx Hr IH]; intros R R1 l H U; simpl in H.
  - inversion H; subst. exact U.
  - destruct (compile c x R) as [Ra ea] eqn:Ea. destruct (clist c r Ra) as [Rb rb] eqn:Eb.
    inversion H; subst. eapply IH; eauto.
Qed.
Lemma uq_compile c a : forall R R1 e, compile c a R = (R1, e) -> uq R -> uq R1.
Proof.
  induction a as [cs v|lo hi|es IH|es IH|mn mx a IH|a IH|v|nm] using aexpr_ind2; intros R R1 e0 H U.
  - simpl in H. inversion H; subst. exact U.
  - simpl in H. inversion H; subst. exact U.
  - rewrite compile_alt in H. destruct (clist c es R) as [Ra la] eqn:E. inversion H; subst.
    eapply clist_uq; eauto.
  - rewrite compile_cat in H. destruct (clist c es R) as [Ra la] eqn:E. inversion H; subst.
    eapply clist_uq; eauto.
  - simpl in H. destruct (compile c a R) as [Ra ea] eqn:E. inversion H; subst. exact (IH _ _ _ E U).
  - simpl in H. destruct (compile c a R) as [Ra ea] eqn:E. inversion H; subst. exact (IH _ _ _ E U).
  - simpl in H. inversion H; subst. exact U.
  - simpl in H. destruct (rnew R c nm) as [Ra k] eqn:E. inversion H; subst. eapply uq_rnew; eauto.
Qed.

Lemma uq_set_def_idx R n d : uq R -> uq (set_def_idx R n d).
Proof. unfold uq, set_def_idx; simpl. intros U. rewrite map_ck_upd; [exact U|reflexivity]. Qed.
Lemma uq_set_def_new R n e : uq R -> uq (set_def_new R n e).
Proof. unfold set_def_new. intros U. apply uq_set_def_idx. exact U. Qed.
Lemma uq_set_flag n v R R' : set_flag n v R = Some R' -> uq R -> uq R'.
Proof.
  intros H U. destruct (set_flag_shape _ _ _ _ H) as (_ & _ & _ & _ & _ & _ & HO & _).
  unfold uq. rewrite HO. exact U.
Qed.
Lemma uq_define_rule c a R R' : define_rule c a R = Some R' -> uq R -> uq R'.
Proof.
  intros H U. apply define_rule_shape in H. destruct H as (R1 & n & R2 & e & e' & H1 & H2 & ->).
  apply uq_set_def_new. eapply uq_compile; eauto. eapply uq_rnew; eauto.
Qed.
Lemma uq_define_rules c l : forall R R', define_rules c l R = Some R' -> uq R -> uq R'.
Proof.
  induction l as [|a r IH]; intros R R' H U; simpl in H.
  - inversion H; subst; exact U.
  - destruct (define_rule c a R) as [Ra|] eqn:E; [|discriminate]. eapply IH; eauto. eapply uq_define_rule; eauto.
Qed.
Lemma uq_import_rule c nm src R R' : import_rule c nm src R = Some R' -> uq R -> uq R'.
Proof.
  unfold import_rule. destruct (nth_error (objs R) src) as [o|]; [|discriminate].
  destruct (odef o) as [d|]; [|discriminate].
  destruct (rnew R c nm) as [R1 n] eqn:E1. intros H U. inversion H; subst.
  apply uq_set_def_idx. eapply uq_rnew; eauto.
Qed.
Lemma uq_apply_imports c imps : forall R R', apply_imports c imps R = Some R' -> uq R -> uq R'.
Proof.
  induction imps as [|[local n] r IH]; intros R R' H U; simpl in H.
  - inversion H; subst; exact U.
  - destruct (import_rule c local n R) as [Ra|] eqn:E; [|discriminate].
    eapply IH; eauto. eapply uq_import_rule; eauto.
Qed.
Lemma uq_eval_imports classes l : forall R R1 imps, eval_imports classes l R = Some (R1, imps) -> uq R -> uq R1.
Proof.
  induction l as [|[local [[m c'] rn]] r IH]; intros R R1 imps H U; simpl in H.
  - inversion H; subst; exact U.
  - destruct (cls_of classes m c') as [sc|]; [|discriminate].
    destruct (rnew R sc rn) as [Ra n] eqn:En.
    destruct (eval_imports classes r Ra) as [[R2 l2]|] eqn:Er; [|discriminate].
    inversion H; subst. eapply IH; eauto. eapply uq_rnew; eauto.
Qed.
Lemma uq_set_flags l v : forall R R', set_flags l v R = Some R' -> uq R -> uq R'.
Proof.
  induction l as [|n r IH]; intros R R' H U; simpl in H.
  - inversion H; subst; exact U.
  - destruct (set_flag n v R) as [Ra|] eqn:E; [|discriminate]. eapply IH; eauto. eapply uq_set_flag; eauto.
Qed.
Lemma uq_own_loop src v l : forall R R', own_loop src v l R = Some R' -> uq R -> uq R'.
Proof.
  induction l as [|n r IH]; intros R R' H U; simpl in H.
  - inversion H; subst; exact U.
  - destruct (odef_of R n) as [d|]; [|discriminate].
    destruct (match rget R src (oname_of R n) with
              | Some k => match odef_of R k with Some d' => Nat.eqb d d' | None => false end
              | None => false end); [eapply IH; eauto|].
    destruct (set_flag n v R) as [Ra|] eqn:E; [|discriminate]. eapply IH; eauto. eapply uq_set_flag; eauto.
Qed.
Lemma uq_apply_flag classes c f R R' : apply_flag classes c f R = Some R' -> uq R -> uq R'.
Proof.
  destruct f as [name v|v|m sc v].
  - simpl. destruct (rnew R c name) as [R1 n] eqn:E1. intros H U.
    eapply uq_set_flag; eauto. eapply uq_rnew; eauto.
  - simpl. apply uq_set_flags.
  - rewrite apply_flag_own. destruct (cls_of classes m sc); [|discriminate]. apply uq_own_loop.
Qed.
Lemma uq_apply_flags classes c l : forall R R', apply_flags classes c l R = Some R' -> uq R -> uq R'.
Proof.
  induction l as [|f r IH]; intros R R' H U; simpl in H.
  - inversion H; subst; exact U.
  - destruct (apply_flag classes c f R) as [Ra|] eqn:E; [|discriminate].
    eapply IH; eauto. eapply uq_apply_flag; eauto.
Qed.
Theorem uq_load_class classes g R R' : load_class classes g R = Some R' -> uq R -> uq R'.
Proof.
  intros H U. destruct (load_class_phases _ _ _ _ H) as (c & R1 & imps & R2 & R3 & l & _ & E1 & _ & E2 & E3 & E4).
  eapply uq_apply_flags; eauto. eapply uq_apply_imports; eauto. eapply uq_define_rules; eauto.
  eapply uq_eval_imports; eauto.
Qed.
Theorem uq_load_classes classes L : forall R R', load_classes classes L R = Some R' -> uq R -> uq R'.
Proof.
  induction L as [|g r IH]; intros R R' H U; simpl in H.
  - inversion H; subst; exact U.
  - destruct (load_class classes g R) as [Ra|] eqn:E; [|discriminate].
    eapply IH; eauto. eapply uq_load_class; eauto.
Qed.

(* consequences *)
Lemma uq_nth R j1 j2 o1 o2 : uq R -> nth_error (objs R) j1 = Some o1 -> nth_error (objs R) j2 = Some o2 ->
  ck o1 = ck o2 -> j1 = j2.
Proof.
  intros U H1 H2 Hck. unfold uq in U.
  assert (A1 : nth_error (map ck (objs R)) j1 = Some (ck o1)) by (rewrite nth_error_map, H1; reflexivity).
  assert (A2 : nth_error (map ck (objs R)) j2 = Some (ck o1)) by (rewrite nth_error_map, H2, Hck; reflexivity).
  assert (L1 : j1 < length (map ck (objs R))) by (apply nth_error_Some; rewrite A1; discriminate).
  rewrite NoDup_nth_error in U. apply U; [exact L1|congruence].
Qed.

Lemma find_obj_some_iff c k l : forall s n,
  NoDup (map ck l) -> (find_obj c k l s = Some n <-> s <= n /\ exists o, nth_error l (n - s) = Some o /\ ck o = (c, k)).
Proof.
  induction l as [|x r IH]; intros s n U; simpl.
  - split; [discriminate|]. intros (_ & o & Ho & _). destruct (n - s); discriminate.
  - inversion U as [|? ? Hx Hr]; subst. destruct (N.eqb (ocls x) c && str_eqb (okey x) k) eqn:E.
    + apply andb_true_iff in E. destruct E as [E1 E2]. apply N.eqb_eq in E1.
      apply (proj1 (str_eqb_eq _ _)) in E2.
      assert (Hck : ck x = (c, k)) by (unfold ck; congruence). split.
      * intros H; inversion H; subst. split; [lia|]. rewrite Nat.sub_diag. exists x; auto.
      * intros (Hle & o & Ho & Hco). destruct (n - s) as [|m] eqn:Em; [f_equal; lia|].
        simpl in Ho. exfalso. apply Hx. rewrite Hck, <- Hco. apply in_map. eapply nth_error_In; eauto.
    + rewrite (IH (S s) n Hr). split.
      * intros (Hle & o & Ho & Hco). split; [lia|]. exists o.
        replace (n - s) with (S (n - S s)) by lia. simpl. auto.
      * intros (Hle & o & Ho & Hco). destruct (n - s) as [|m] eqn:Em.
        -- simpl in Ho. inversion Ho; subst o. unfold ck in Hco. inversion Hco; subst.
           rewrite N.eqb_refl, str_eqb_refl in E. discriminate.
        -- simpl in Ho. split; [lia|]. exists o. replace (n - S s) with m by lia. auto.
Qed.
Lemma find_obj_uq R c k n o : uq R -> nth_error (objs R) n = Some o -> ck o = (c, k) ->
  find_obj c k (objs R) 0 = Some n.
Proof.
  intros U Hn Hck. apply (find_obj_some_iff c k (objs R) 0 n U). split; [lia|].
  rewrite Nat.sub_0_r. exists o; auto.
Qed.

(* boolean checker *)
Fixpoint ck_nodupb (l : list (cls * str)) : bool :=
  match l with
  | [] => true
  | (c, k) :: r => negb (existsb (fun p => N.eqb (fst p) c && str_eqb (snd p) k) r) && ck_nodupb r
  end.
Lemma ck_nodupb_sound l : ck_nodupb l = true -> NoDup l.
Proof.
  induction l as [|[c k] r IH]; simpl; intros H; [constructor|].
  apply andb_true_iff in H. destruct H as [H1 H2]. constructor; [|apply IH; exact H2].
  intros Hin. apply negb_true_iff in H1. assert (X : existsb (fun p => N.eqb (fst p) c && str_eqb (snd p) k) r = true).
  { apply existsb_exists. exists (c, k). split; [exact Hin|]. simpl. rewrite N.eqb_refl, str_eqb_refl. reflexivity. }
  congruence.
Qed.
Definition uqb (R : reg) : bool := ck_nodupb (map ck (objs R)).
Lemma uqb_sound R : uqb R = true -> uq R.
Proof. apply ck_nodupb_sound. Qed.

Print Assumptions uq_load_class.
Print Assumptions uq_load_classes.
Print Assumptions uqb_sound.

