(* LoadSharp.v — C14: the flag side condition of the frame theorems is SHARP.
   Take the description of rfc3987 and replace its guarded loop ("set first-match on my own rules that are not
   shared with rfc3986") by the unguarded loop over all rules (what the library did before the guard was added):
   [flags_local] is false for it, and loading it after rfc3986 rewrites the first-match flag of definitions
   that rfc3986 uses — the snapshot of the rfc3986 class changes.  With the bundled description (guarded loop)
   LoadBundled.C14_all_orders shows that this cannot happen. *)
From Coq Require Import String List NArith Arith Bool.
Import ListNotations.
From ABNF Require Import Base Engine AbnfRead Registry GenTypes Loader GenBundled Bundled TablesAll
     LoadFrame1 LoadAbs LoadSim3.

Definition g_none : gclass :=
  {| gmod := []; gcls := []; gkind_list := true; gdeps := []; gtexts := []; gimports := []; gflags := [] |}.
Definition by_module (m : String.string) : gclass :=
  match find (fun g => str_eqb (gmod g) (s_of m)) bundled with Some g => g | None => g_none end.
Definition g3986 : gclass := by_module "rfc3986"%string.
Definition g3987 : gclass := by_module "rfc3987"%string.
Definition g3987_unguarded : gclass :=
  {| gmod := gmod g3987; gcls := gcls g3987; gkind_list := gkind_list g3987; gdeps := gdeps g3987;
     gtexts := gtexts g3987; gimports := gimports g3987; gflags := [FlagAll true] |}.
Definition R_3986 : reg := match load_class bundled g3986 (r_boot tt) with Some R => R | None => reg0 end.
Definition R_3987u : reg := match load_class bundled g3987_unguarded R_3986 with Some R => R | None => reg0 end.

Definition sharp_check : bool :=
  str_eqb (gmod g3986) (s_of "rfc3986"%string) && str_eqb (gmod g3987) (s_of "rfc3987"%string) &&
  match cls_of bundled (gmod g3986) (gcls g3986), cls_of bundled (gmod g3987) (gcls g3987),
        load_class bundled g3987_unguarded R_3986 with
  | Some c86, Some c87, Some _ =>
    negb (N.eqb c86 c87) &&
    negb (flags_local bundled g3987_unguarded) &&        (* the static condition fails *)
    flags_local bundled g3987 &&                         (* ... and holds for the bundled description *)
    negb (same_class R_3986 R_3987u c86)                 (* the rfc3986 class no longer looks the same *)
  | _, _, _ => false
  end.

Theorem unguarded_flag_loop_refuted : sharp_check = true.
Proof. vm_cast_no_check (eq_refl true). Qed.
Print Assumptions unguarded_flag_loop_refuted.
