(* EngineComplete.v — COMPLETENESS of the engine model [lparse] (Engine.v) with respect to the
   RFC 5234 matching relation [M] (Spec.v) on plain grammars, for every permutation oracle [sh];
   fuel monotonicity; non-emptiness of an [Ok] answer.

   Contents
     1. end-offset facts about the list model of sets ([has])
     2. facts about M / MI
     3. completeness, open recursion:  comp_rec rec -> comp_rec (step rec k)
        (needs NO soundness of [rec], NO well-formed bounds, NO [i <= length s])
     4. lparse_complete / lparse_perr  (+ the stronger _nowb versions)
     5. fuel monotonicity: lparse_mono
     6. lparse_nonempty *)
From Coq Require Import List NArith Arith Bool Lia Permutation.
Import ListNotations.
From ABNF Require Import Base Engine Spec.

(* ------------------------------------------------------------------------------------------ *)
(* 1. sets of matches, at the level of END OFFSETS                                             *)
(* ------------------------------------------------------------------------------------------ *)

Lemma str_eqb_refl a : str_eqb a a = true.
Proof.
  induction a as [|x a IH]; simpl; [reflexivity|].
  rewrite N.eqb_refl, IH. reflexivity.
Qed.

Lemma in_ins m x l : In x (ins m l) <-> x = m \/ In x l.
Proof.
  induction l as [|y l IH]; simpl.
  - intuition.
  - destruct (Nat.ltb (mend y) (mend m)); simpl; rewrite ?IH; intuition.
Qed.

Lemma in_sort_desc x l : In x (sort_desc l) <-> In x l.
Proof.
  unfold sort_desc.
  assert (H : forall acc, In x (fold_left (fun acc m => ins m acc) l acc) <-> In x acc \/ In x l).
  { induction l as [|y l IH]; simpl; intros acc.
    - intuition.
    - rewrite IH, in_ins. intuition. }
  rewrite H. simpl. intuition.
Qed.

Lemma has_nil j : ~ has [] j.
Proof. intros [m [[] _]]. Qed.

Lemma has_app a b j : has (a ++ b) j <-> has a j \/ has b j.
Proof.
  unfold has. split.
  - intros [m [Hm He]]. apply in_app_iff in Hm. destruct Hm as [Hm|Hm]; [left|right]; exists m; auto.
  - intros [[m [Hm He]]|[m [Hm He]]]; exists m; split; auto; apply in_app_iff; auto.
Qed.

Lemma has_sort ms j : has (sort_desc ms) j <-> has ms j.
Proof.
  unfold has; split; intros [m [H1 H2]]; exists m; split; auto.
  - apply (proj1 (in_sort_desc _ _)); exact H1.
  - apply (proj2 (in_sort_desc _ _)); exact H1.
Qed.

Lemma has_map (f : mtch -> mtch) l j :
  (forall m, mend (f m) = mend m) -> has (map f l) j <-> has l j.
Proof.
  intros Hf. unfold has. split.
  - intros [m [Hm He]]. apply in_map_iff in Hm. destruct Hm as [y [Hy Hin]]. subst m.
    exists y; split; auto. rewrite <- Hf. exact He.
  - intros [m [Hm He]]. exists (f m); split; [apply in_map; exact Hm|]. rewrite Hf. exact He.
Qed.

Lemma mem_has m l : mem m l = true -> has l (mend m).
Proof.
  unfold mem. intros H. apply (proj1 (existsb_exists _ _)) in H. destruct H as [x [Hx Hk]].
  exists x; split; auto.
  unfold key_eqb in Hk. apply andb_true_iff in Hk. destruct Hk as [Hk _].
  apply Nat.eqb_eq in Hk. auto.
Qed.

Lemma has_add l m j : has (add l m) j <-> has l j \/ mend m = j.
Proof.
  unfold add. destruct (mem m l) eqn:Hm.
  - split; auto. intros [H|H]; auto. subst. apply mem_has; auto.
  - unfold has. split.
    + intros [x [Hx He]]. apply in_app_iff in Hx. destruct Hx as [Hx|[<-|[]]]; eauto.
    + intros [[x [Hx He]]|He]; [exists x|exists m]; split; auto; apply in_app_iff; simpl; auto.
Qed.

Lemma has_fold_add b : forall a j, has (fold_left add b a) j <-> has a j \/ has b j.
Proof.
  induction b as [|y b IH]; simpl; intros a j.
  - split; auto. intros [H|H]; auto. destruct (has_nil _ H).
  - rewrite IH, has_add. unfold has at 4. split.
    + intros [[H|H]|H]; auto.
      * right; exists y; simpl; auto.
      * destruct H as [m [Hm He]]. right; exists m; simpl; auto.
    + intros [H|[m [[<-|Hm] He]]]; auto. right. exists m; auto.
Qed.

Lemma has_set_of l j : has (set_of l) j <-> has l j.
Proof.
  unfold set_of. rewrite has_fold_add. split; auto. intros [H|H]; auto. destruct (has_nil _ H).
Qed.

Lemma has_union a b j : has (union a b) j <-> has a j \/ has b j.
Proof. apply has_fold_add. Qed.

Lemma subset_has a b : subset a b = true -> forall j, has a j -> has b j.
Proof.
  unfold subset. intros H j [m [Hm <-]]. apply mem_has.
  apply (proj1 (forallb_forall _ _) H). exact Hm.
Qed.

(* non-emptiness *)
Lemma in_ne (A : Type) (x : A) l : In x l -> l <> [].
Proof. intros H E. subst l. destruct H. Qed.

Lemma ne_in (A : Type) (l : list A) : l <> [] -> exists x, In x l.
Proof. destruct l as [|x l]; [congruence|]. intros _. exists x; left; reflexivity. Qed.

Lemma in_add_l x l m : In x l -> In x (add l m).
Proof. unfold add. destruct (mem m l); auto. intros H. apply in_app_iff; auto. Qed.

Lemma in_fold_add_l x b : forall a, In x a -> In x (fold_left add b a).
Proof.
  induction b as [|y b IH]; simpl; intros a H; auto. apply IH. apply in_add_l. exact H.
Qed.

Lemma sort_desc_ne l : l <> [] -> sort_desc l <> [].
Proof.
  intros H. destruct (ne_in _ _ H) as [x Hx]. apply (in_ne _ x).
  apply (proj2 (in_sort_desc _ _)). exact Hx.
Qed.

Lemma set_of_ne l : l <> [] -> set_of l <> [].
Proof.
  destruct l as [|x l]; [congruence|]. intros _. unfold set_of. simpl.
  apply (in_ne _ x). apply in_fold_add_l. unfold add. simpl. left; reflexivity.
Qed.

Lemma union_ne a b : a <> [] -> union a b <> [].
Proof.
  intros H. destruct (ne_in _ _ H) as [x Hx]. apply (in_ne _ x). unfold union.
  apply in_fold_add_l. exact Hx.
Qed.

(* no exclusion: the filter is the identity, whatever rec is *)
Lemma filter_excl_none sh rec ms : filter_excl sh rec None ms = Ok ms.
Proof.
  induction ms as [|m ms IH]; simpl; [reflexivity|]. rewrite IH. reflexivity.
Qed.

(* extend never raises ParseError by itself *)
Lemma extend_not_perr rec e s : forall ms, extend rec e s ms <> PErr.
Proof.
  induction ms as [|m ms IH]; simpl; [discriminate|].
  destruct (rec e s (mend m)) as [xs| | |]; try discriminate; auto.
  destruct (extend rec e s ms) as [ys| | |]; try discriminate; auto.
Qed.

(* ------------------------------------------------------------------------------------------ *)
(* 2. facts about M / MI                                                                       *)
(* ------------------------------------------------------------------------------------------ *)
Section MFacts.
  Variable G : grammar.

  (* both ends of a match are inside the string *)
  Lemma M_bounds s e i j : M G s e i j -> i <= length s /\ j <= length s
  with MI_bounds s e n i j : MI G s e n i j -> i <= length s /\ j <= length s.
  Proof.
    - intros H; destruct H as
        [cs v a Hok|lo hi a c Hn Hlo Hhi|fm es e1 a b Hin HM1|a Ha|e1 es a b c HM1 HM2
        |id mn mx e1 a b n HI Hmn Hmx|r ru d a b HG Hd HM1].
      + destruct Hok as [Hlen _]; lia.
      + assert (Hlt : a < length s) by (apply nth_error_Some; congruence). lia.
      + exact (M_bounds _ _ _ _ HM1).
      + auto.
      + destruct (M_bounds _ _ _ _ HM1) as [H1 _]. destruct (M_bounds _ _ _ _ HM2) as [_ H2]. auto.
      + exact (MI_bounds _ _ _ _ _ HI).
      + exact (M_bounds _ _ _ _ HM1).
    - intros H; destruct H as [e1 a Ha|e1 n a b c HM1 HI].
      + auto.
      + destruct (M_bounds _ _ _ _ HM1) as [H1 _]. destruct (MI_bounds _ _ _ _ _ HI) as [_ H2]. auto.
  Qed.

  Lemma MI_snoc s e n i j k : MI G s e n i j -> M G s e j k -> MI G s e (S n) i k.
  Proof.
    intros H. induction H as [e i Hi|e n i j k0 HM0 HI IH]; intros HM.
    - econstructor; [exact HM|]. constructor. exact (proj2 (M_bounds _ _ _ _ HM)).
    - econstructor; [exact HM0|]. apply IH. exact HM.
  Qed.

  Lemma MI_snoc_inv s e n : forall i k,
    MI G s e (S n) i k -> exists j, MI G s e n i j /\ M G s e j k.
  Proof.
    induction n as [|n IH]; intros i k H.
    - inversion H as [|e0 n0 i0 j0 k0 HM HI]; subst.
      inversion HI as [e1 i1 Hk|]; subst.
      exists i; split; auto. constructor. exact (proj1 (M_bounds _ _ _ _ HM)).
    - inversion H as [|e0 n0 i0 j0 k0 HM HI]; subst. apply IH in HI. destruct HI as [p [H1 H2]].
      exists p; split; auto. econstructor; eauto.
  Qed.

  (* n iterations = the concatenation of n copies *)
  Lemma MI_cat s e n i j : MI G s e n i j -> M G s (ECat (repeat e n)) i j.
  Proof.
    intros H. induction H as [e i Hi|e n i j k HM HI IH]; simpl.
    - constructor. exact Hi.
    - econstructor; [exact HM|exact IH].
  Qed.

  Lemma MI_split s e a : forall b i j,
    MI G s e (a + b) i j -> exists p, MI G s e a i p /\ MI G s e b p j.
  Proof.
    induction a as [|a IH]; intros b i j H; simpl in H.
    - exists i; split; auto. constructor. exact (proj1 (MI_bounds _ _ _ _ _ H)).
    - inversion H as [|e0 n0 i0 j0 k0 HM HI]; subst. apply IH in HI. destruct HI as [p [H1 H2]].
      exists p; split; auto. econstructor; eauto.
  Qed.

  (* a set of offsets closed under one more match of e is closed under any number *)
  Lemma MI_closed s e (P : nat -> Prop) :
    (forall p j, P p -> M G s e p j -> P j) ->
    forall d p j, MI G s e d p j -> P p -> P j.
  Proof.
    intros Hcl d p j H. induction H as [e i Hi|e n i j k HM HI IH]; intros Hp; auto.
    apply IH; auto. eapply Hcl; eauto.
  Qed.
End MFacts.

(* ------------------------------------------------------------------------------------------ *)
(* 3. completeness with open recursion                                                         *)
(* ------------------------------------------------------------------------------------------ *)
Section Complete.
  Variable sh : list mtch -> list mtch.
  Hypothesis Hsh : perm_oracle sh.
  Variable G : grammar.
  Hypothesis Hplain : plain G.

  Lemma has_sh l j : has (sh l) j <-> has l j.
  Proof.
    unfold has; split; intros [m [Hm He]]; exists m; split; auto.
    - eapply Permutation_in; [apply Hsh|exact Hm].
    - eapply Permutation_in; [apply Permutation_sym; apply Hsh|exact Hm].
  Qed.

  Lemma has_next_longest l j : has (next_longest sh l) j <-> has l j.
  Proof. unfold next_longest. rewrite has_sort. apply has_sh. Qed.

  (* what "complete" means for one answer: an Ok answer contains every derivable end,
     a ParseError means there is no derivable end.  No premise on i: when i > length s
     nothing is derivable (M_bounds). *)
  Definition comp_res (r : res) (s : str) (e : expr) (i : nat) : Prop :=
    match r with
    | Ok ms => forall j, M G s e i j -> has ms j
    | PErr => forall j, ~ M G s e i j
    | _ => True
    end.

  Definition comp_rec (rec : expr -> str -> nat -> res) : Prop :=
    forall e s i, NoFM e -> comp_res (rec e s i) s e i.

  Lemma slice_length s i n : i + n <= length s -> length (slice s i n) = n.
  Proof. unfold slice. rewrite firstn_length, skipn_length. lia. Qed.

  Lemma lit_complete cs v s i : comp_res (lit cs v s i) s (ELit cs v) i.
  Proof.
    assert (HM : forall j, M G s (ELit cs v) i j -> exists ms, lit cs v s i = Ok ms /\ has ms j).
    { intros j H. inversion H as [cs0 v0 i0 Hok| | | | | | ]; subst. destruct Hok as [Hlen Heq].
      unfold lit. cbv zeta.
      assert (Hle : Nat.leb i (length s) = true) by (apply Nat.leb_le; lia). rewrite Hle.
      assert (Hb : str_eqb (if cs then slice s i (length v) else fold_str (slice s i (length v)))
                           (if cs then v else fold_str v) = true).
      { destruct cs; rewrite Heq; apply str_eqb_refl. }
      rewrite Hb. eexists; split; [reflexivity|]. eexists; split; [left; reflexivity|]. simpl.
      rewrite slice_length; auto. }
    unfold comp_res. destruct (lit cs v s i) as [ms| | |] eqn:Hl; auto.
    - intros j H. destruct (HM j H) as [ms' [E Hh]]. inversion E; subst; auto.
    - intros j H. destruct (HM j H) as [ms' [E _]]. discriminate.
  Qed.

  Lemma range_complete lo hi s i : comp_res (range lo hi s i) s (ERange lo hi) i.
  Proof.
    unfold comp_res, range. destruct (nth_error s i) as [c|] eqn:Hn.
    - destruct ((lo <=? c)%N && (c <=? hi)%N) eqn:Hb.
      + intros j H. inversion H as [ |lo0 hi0 i0 c0 Hn0 Hlo Hhi| | | | | ]; subst.
        exists (mk [Leaf [c] i 1] (i + 1)); split; [left; reflexivity|reflexivity].
      + intros j H. inversion H as [ |lo0 hi0 i0 c0 Hn0 Hlo Hhi| | | | | ]; subst.
        rewrite Hn in Hn0; inversion Hn0; subst.
        apply (proj2 (N.leb_le _ _)) in Hlo. apply (proj2 (N.leb_le _ _)) in Hhi.
        rewrite Hlo, Hhi in Hb. discriminate.
    - intros j H. inversion H as [ |lo0 hi0 i0 c0 Hn0 Hlo Hhi| | | | | ]; subst. congruence.
  Qed.

  Section Step.
    Variable rec : expr -> str -> nat -> res.
    Hypothesis Hcomp : comp_rec rec.

    (* ---- Alternation (not first-match) ---- *)
    Lemma alt_loop_complete s i : forall es acc, Forall NoFM es ->
      match alt_loop rec false es s i acc with
      | Ok ms => forall j, (has acc j \/ exists e, In e es /\ M G s e i j) -> has ms j
      | PErr => acc = [] /\ forall e j, In e es -> ~ M G s e i j
      | _ => True
      end.
    Proof.
      induction es as [|e es IH]; intros acc HF; simpl.
      - destruct acc as [|a acc'].
        + split; auto.
        + intros j [H|[e [[] _]]]; exact H.
      - inversion HF as [|e0 es0 He Hes]; subst.
        pose proof (Hcomp e s i He) as Hc. unfold comp_res in Hc.
        destruct (rec e s i) as [ms| | |] eqn:Hr; auto.
        + specialize (IH (acc ++ ms) Hes).
          destruct (alt_loop rec false es s i (acc ++ ms)) as [out| | |] eqn:Ha; auto.
          * intros j [H|[e' [[<-|Hin] HM]]].
            -- apply IH. left. apply has_app. left; exact H.
            -- apply IH. left. apply has_app. right. apply Hc. exact HM.
            -- apply IH. right. exists e'; auto.
          * destruct IH as [Hnil Hno]. apply app_eq_nil in Hnil. destruct Hnil as [Ha1 Ha2].
            subst acc ms. split; auto. intros e' j [<-|Hin] HM.
            -- destruct (has_nil _ (Hc j HM)).
            -- eapply Hno; eauto.
        + specialize (IH acc Hes).
          destruct (alt_loop rec false es s i acc) as [out| | |] eqn:Ha; auto.
          * intros j [H|[e' [[<-|Hin] HM]]].
            -- apply IH; auto.
            -- exfalso. eapply Hc; eauto.
            -- apply IH. right. exists e'; auto.
          * destruct IH as [Hnil Hno]. split; auto. intros e' j [<-|Hin].
            -- apply Hc.
            -- apply Hno; auto.
    Qed.

    Lemma alt_complete es s i : Forall NoFM es ->
      comp_res (alt_loop rec false es s i []) s (EAlt false es) i.
    Proof.
      intros HF. pose proof (alt_loop_complete s i es [] HF) as Hc. unfold comp_res.
      destruct (alt_loop rec false es s i []) as [out| | |]; auto.
      - intros j HM. inversion HM as [ | |fm es0 e0 i0 j0 Hin HMe| | | | ]; subst.
        apply Hc. right. exists e0; auto.
      - destruct Hc as [_ Hno]. intros j HM.
        inversion HM as [ | |fm es0 e0 i0 j0 Hin HMe| | | | ]; subst. eapply Hno; eauto.
    Qed.

    (* ---- one layer ---- *)
    Lemma extend_complete e s : NoFM e -> forall ms out,
      extend rec e s ms = Ok out ->
      forall p j, has ms p -> M G s e p j -> has out j.
    Proof.
      intros He. induction ms as [|m ms IH]; simpl; intros out H p j [m0 [Hm0 Hp]] HM; subst p.
      - destruct Hm0.
      - pose proof (Hcomp e s (mend m) He) as Hc. unfold comp_res in Hc.
        destruct (rec e s (mend m)) as [xs| | |] eqn:Hr; try discriminate.
        + destruct (extend rec e s ms) as [ys| | |] eqn:Hx; try discriminate.
          inversion H; subst; clear H.
          destruct Hm0 as [<-|Hm0].
          * destruct (Hc j HM) as [y [Hy Hj]].
            exists (mk (nodes m ++ nodes y) (mend y)); split; [|simpl; exact Hj].
            apply in_app_iff; left. apply in_map_iff. exists y; auto.
          * destruct (IH _ eq_refl (mend m0) j) as [x [Hx1 Hj]]; auto.
            { exists m0; auto. }
            exists x; split; auto. apply in_app_iff; auto.
        + destruct Hm0 as [<-|Hm0].
          * exfalso. eapply Hc; eauto.
          * eapply IH; eauto. exists m0; auto.
    Qed.

    (* ---- Concatenation ---- *)
    Lemma cat_loop_complete s : forall es cur, Forall NoFM es ->
      match cat_loop rec es s cur with
      | Ok out => forall p j, has cur p -> M G s (ECat es) p j -> has out j
      | PErr => forall p j, has cur p -> ~ M G s (ECat es) p j
      | _ => True
      end.
    Proof.
      induction es as [|e es IH]; intros cur HF; simpl.
      - intros p j Hp HM. inversion HM as [ | | |i0 Hi0| | | ]; subst. exact Hp.
      - inversion HF as [|e0 es0 He Hes]; subst.
        destruct (extend rec e s cur) as [nxt| | |] eqn:Hx; auto.
        + destruct nxt as [|m1 nxt'].
          * intros p j Hp HM. inversion HM as [ | | | |e1 es1 i1 q k1 HM1 HM2| | ]; subst.
            destruct (has_nil _ (extend_complete e s He cur [] Hx p q Hp HM1)).
          * specialize (IH (m1 :: nxt') Hes).
            destruct (cat_loop rec es s (m1 :: nxt')) as [out| | |] eqn:Hc; auto.
            -- intros p j Hp HM. inversion HM as [ | | | |e1 es1 i1 q k1 HM1 HM2| | ]; subst.
               eapply IH; [|exact HM2]. eapply extend_complete; eauto.
            -- intros p j Hp HM. inversion HM as [ | | | |e1 es1 i1 q k1 HM1 HM2| | ]; subst.
               eapply IH; [|exact HM2]. eapply extend_complete; eauto.
        + exfalso. eapply extend_not_perr; eauto.
    Qed.

    Lemma cat_complete es s i : Forall NoFM es -> comp_res (cat rec es s i) s (ECat es) i.
    Proof.
      intros HF. pose proof (cat_loop_complete s es [mk [] i] HF) as Hc. unfold comp_res, cat.
      assert (Hi : has [mk [] i] i) by (exists (mk [] i); split; [left|]; reflexivity).
      destruct (cat_loop rec es s [mk [] i]) as [out| | |]; try exact I.
      - intros j HM. apply has_sort. eapply Hc; eauto.
      - intros j HM. eapply Hc; eauto.
    Qed.

    (* ---- Repetition: the fixpoint loop.  Completeness-only invariant:
         (1) every end reachable with mn..count iterations is in mset,
         (2) every end reachable with exactly count iterations is in last,
         (3) every end of mset is either still in the frontier [last] or already has all its
             one-step successors in mset.
         When the loop stops because new <= mset, (3) makes mset closed under one more match of
         e, hence under any number.  No soundness of rec and no bound hypothesis is needed. ---- *)
    Section Loop.
      Variables (e : expr) (s : str) (i mn : nat).
      Hypothesis He : NoFM e.

      Definition le_mx (mx : option nat) (n : nat) : Prop := forall m, mx = Some m -> n <= m.

      Definition inv (count : nat) (mset last : list mtch) : Prop :=
        (forall n j, mn <= n <= count -> MI G s e n i j -> has mset j) /\
        (forall j, MI G s e count i j -> has last j) /\
        (forall p, has mset p -> has last p \/ forall j, M G s e p j -> has mset j) /\
        mn <= count.

      Lemma rep_loop_complete mx : forall k count mset last,
        inv count mset last ->
        match rep_loop sh rec k e mx s count mset last with
        | Ok out => forall n j, mn <= n -> le_mx mx n -> MI G s e n i j -> has out j
        | PErr => False
        | _ => True
        end.
      Proof.
        induction k as [|k IH]; simpl; intros count mset last Hinv; [exact I|].
        destruct Hinv as (Hset & Hlast & Hfront & Hmn).
        destruct (match mx with Some m => Nat.eqb count m | None => false end) eqn:Hstop.
        - (* reached max *)
          intros n j Hn Hle HM. apply has_next_longest.
          destruct mx as [m|]; [|discriminate]. apply Nat.eqb_eq in Hstop. subst m.
          apply (Hset n j); [|exact HM]. specialize (Hle _ eq_refl). lia.
        - destruct (extend rec e s (sort_desc (sh last))) as [new| | |] eqn:Hx; auto.
          + assert (Hnew : forall p j, has last p -> M G s e p j -> has (set_of new) j).
            { intros p j Hp HM. apply has_set_of. eapply extend_complete; eauto.
              apply has_sort. apply has_sh. exact Hp. }
            assert (Hnext : forall j, MI G s e (S count) i j -> has (set_of new) j).
            { intros j HM. apply MI_snoc_inv in HM. destruct HM as [p [H1 H2]].
              eapply Hnew; eauto. }
            destruct (subset (set_of new) mset) eqn:Hsub.
            * (* fixpoint reached *)
              intros n j Hn Hle HM. apply has_next_longest.
              assert (Hcl : forall p q, has mset p -> M G s e p q -> has mset q).
              { intros p q Hp HMq. destruct (Hfront p Hp) as [Hl|Hall].
                - eapply subset_has; eauto.
                - apply Hall; exact HMq. }
              replace n with (mn + (n - mn)) in HM by lia.
              apply MI_split in HM. destruct HM as [p [H1 H2]].
              eapply (MI_closed G s e (has mset) Hcl); [exact H2|].
              apply (Hset mn p); [lia|exact H1].
            * apply IH. unfold inv. split; [|split; [|split]].
              -- intros n j Hn HM. apply has_union.
                 destruct (Nat.eq_dec n (S count)) as [->|Hne].
                 ++ right. apply has_sh. apply Hnext. exact HM.
                 ++ left. apply (Hset n j); [lia|exact HM].
              -- exact Hnext.
              -- intros p Hp. apply (proj1 (has_union _ _ _)) in Hp. destruct Hp as [Hp|Hp].
                 ++ right. intros j HM. apply has_union. destruct (Hfront p Hp) as [Hl|Hall].
                    ** right. apply has_sh. eapply Hnew; eauto.
                    ** left. apply Hall; exact HM.
                 ++ left. apply (proj1 (has_sh _ _)). exact Hp.
              -- lia.
          + eapply extend_not_perr; eauto.
      Qed.
    End Loop.

    Lemma repeat_NoFM e n : NoFM e -> Forall NoFM (repeat e n).
    Proof. intros He. induction n as [|n IH]; simpl; constructor; auto. Qed.

    Lemma rep_complete id k mn mx e s i : NoFM e ->
      comp_res (rep sh rec k mn mx e s i) s (ERep id mn mx e) i.
    Proof.
      intros He. unfold rep. destruct mn as [|m].
      - assert (Hinv : inv e s i 0 0 [mk [] i] [mk [] i]).
        { assert (Hi : has [mk [] i] i) by (exists (mk [] i); split; [left|]; reflexivity).
          unfold inv. split; [|split; [|split]]; auto.
          - intros n j Hn HM. assert (n = 0) by lia. subst n.
            inversion HM as [e0 i0 Hi0|]; subst. exact Hi.
          - intros j HM. inversion HM as [e0 i0 Hi0|]; subst. exact Hi. }
        pose proof (rep_loop_complete e s i 0 He mx k 0 _ _ Hinv) as Hc. unfold comp_res.
        destruct (rep_loop sh rec k e mx s 0 [mk [] i] [mk [] i]) as [out| | |]; try exact I.
        + intros j HM. inversion HM as [ | | | | |id0 mn0 mx0 e0 i0 j0 n HI Hmn Hmx| ]; subst.
          eapply Hc; eauto.
        + destruct Hc.
      - pose proof (cat_complete (repeat e (S m)) s i (repeat_NoFM e (S m) He)) as Hcat.
        unfold comp_res in Hcat. cbv beta match.
        destruct (cat rec (repeat e (S m)) s i) as [ms| | |] eqn:Hc0; unfold comp_res;
          try exact I.
        + assert (Hinv : inv e s i (S m) (S m) (set_of ms) (set_of (sh (set_of ms)))).
          { unfold inv. split; [|split; [|split]]; auto.
            - intros n j Hn HM. assert (n = S m) by lia. subst n.
              apply has_set_of. apply Hcat. apply MI_cat. exact HM.
            - intros j HM. apply has_set_of. apply has_sh. apply has_set_of.
              apply Hcat. apply MI_cat. exact HM.
            - intros p Hp. left. apply has_set_of. apply has_sh. exact Hp. }
          pose proof (rep_loop_complete e s i (S m) He mx k (S m) _ _ Hinv) as Hc. cbv zeta.
          destruct (rep_loop sh rec k e mx s (S m) (set_of ms) (set_of (sh (set_of ms))))
            as [out| | |]; try exact I.
          * intros j HM. inversion HM as [ | | | | |id0 mn0 mx0 e0 i0 j0 n HI Hmn Hmx| ]; subst.
            eapply Hc; eauto.
          * destruct Hc.
        + intros j HM. inversion HM as [ | | | | |id0 mn0 mx0 e0 i0 j0 n HI Hmn Hmx| ]; subst.
          replace n with (S m + (n - S m)) in HI by lia.
          apply MI_split in HI. destruct HI as [p [H1 H2]].
          apply (Hcat p). apply MI_cat. exact H1.
    Qed.

    (* ---- Rule reference in a plain grammar ---- *)
    Lemma ref_complete r s i : comp_res (ref sh G rec r s i) s (ERef r) i.
    Proof.
      unfold ref. destruct (G r) as [ru|] eqn:HG; [|exact I].
      destruct (rdef ru) as [d|] eqn:Hd; [|exact I].
      destruct (Hplain r ru HG) as [Hex Hnf].
      pose proof (Hcomp d s i (Hnf d Hd)) as Hc. unfold comp_res in Hc.
      assert (Hinv : forall j, M G s (ERef r) i j -> M G s d i j).
      { intros j HM. inversion HM as [ | | | | | |r0 ru0 d0 i0 j0 HG0 Hd0 HMd]; subst.
        rewrite HG in HG0; inversion HG0; subst ru0.
        rewrite Hd in Hd0; inversion Hd0; subst d0. exact HMd. }
      destruct (rec d s i) as [ms| | |] eqn:Hr; unfold comp_res; try exact I.
      - rewrite Hex, filter_excl_none.
        destruct (set_of ms) as [|m0 st] eqn:Hs.
        + intros j HM. apply Hinv in HM. apply Hc in HM. apply (proj2 (has_set_of _ _)) in HM.
          rewrite Hs in HM. exact (has_nil _ HM).
        + intros j HM. apply Hinv in HM. apply Hc in HM.
          apply has_map; [reflexivity|]. apply has_sort. apply has_sh. rewrite <- Hs.
          apply has_set_of. exact HM.
      - intros j HM. apply Hinv in HM. eapply Hc; eauto.
    Qed.

    Lemma step_complete k : comp_rec (step sh G rec k).
    Proof.
      intros e s i HN. destruct HN as [cs v|lo hi|es HF|es HF|id mn mx e HN| |r]; simpl.
      - apply lit_complete.
      - apply range_complete.
      - apply alt_complete; exact HF.
      - apply cat_complete; exact HF.
      - apply rep_complete; exact HN.
      - intros j HM. inversion HM.
      - apply ref_complete.
    Qed.
  End Step.

  Lemma lparse_comp : forall f, comp_rec (lparse sh G f).
  Proof.
    induction f as [|f IH]; simpl.
    - intros e s i HN. exact I.
    - apply step_complete. exact IH.
  Qed.
End Complete.

(* ------------------------------------------------------------------------------------------ *)
(* 4. completeness theorems                                                                    *)
(* ------------------------------------------------------------------------------------------ *)

(* Strong forms: completeness needs neither well-formed repeat bounds (WB / WBG) nor
   [i <= length s]: with mn > mx, or with i outside the string, nothing is derivable in M. *)
Theorem lparse_complete_nowb sh G : perm_oracle sh -> plain G ->
  forall f e s i ms j, NoFM e -> lparse sh G f e s i = Ok ms -> M G s e i j -> has ms j.
Proof.
  intros Hsh Hpl f e s i ms j HN Hr HM.
  pose proof (lparse_comp sh Hsh G Hpl f e s i HN) as Hc. rewrite Hr in Hc. exact (Hc j HM).
Qed.

Theorem lparse_perr_nowb sh G : perm_oracle sh -> plain G ->
  forall f e s i j, NoFM e -> lparse sh G f e s i = PErr -> ~ M G s e i j.
Proof.
  intros Hsh Hpl f e s i j HN Hr.
  pose proof (lparse_comp sh Hsh G Hpl f e s i HN) as Hc. rewrite Hr in Hc. exact (Hc j).
Qed.

(* The requested signatures.  The hypotheses [WBG G], [WB e], [i <= length s] are kept so that
   the statement is the agreed interface, but they are NOT used (see the _nowb forms). *)

(* no derivable end is missing *)
Theorem lparse_complete sh G : perm_oracle sh -> plain G -> WBG G ->
  forall f e s i ms j, NoFM e -> WB e -> lparse sh G f e s i = Ok ms -> i <= length s ->
  M G s e i j -> has ms j.
Proof.
  intros Hsh Hpl _ f e s i ms j HN _ Hr _ HM. eapply lparse_complete_nowb; eauto.
Qed.

(* a ParseError means there is no match at all *)
Theorem lparse_perr sh G : perm_oracle sh -> plain G -> WBG G ->
  forall f e s i j, NoFM e -> WB e -> lparse sh G f e s i = PErr -> i <= length s -> ~ M G s e i j.
Proof.
  intros Hsh Hpl _ f e s i j HN _ Hr _. eapply lparse_perr_nowb; eauto.
Qed.

(* ------------------------------------------------------------------------------------------ *)
(* 5. monotone in fuel                                                                         *)
(* ------------------------------------------------------------------------------------------ *)
Section Mono.
  Variable sh : list mtch -> list mtch.
  Variable G : grammar.

  (* rec' answers like rec wherever rec has an answer *)
  Definition le_rec (rec rec' : expr -> str -> nat -> res) : Prop :=
    forall e s i, rec e s i <> OOF -> rec' e s i = rec e s i.

  Section StepMono.
    Variables rec rec' : expr -> str -> nat -> res.
    Hypothesis Hle : le_rec rec rec'.

    Lemma alt_loop_mono fm s i : forall es acc,
      alt_loop rec fm es s i acc <> OOF ->
      alt_loop rec' fm es s i acc = alt_loop rec fm es s i acc.
    Proof.
      induction es as [|e es IH]; simpl; intros acc Hg; [reflexivity|].
      pose proof (Hle e s i) as H1.
      destruct (rec e s i) as [ms| | |] eqn:Hr.
      - rewrite H1 by discriminate. destruct fm; [reflexivity|]. apply IH; exact Hg.
      - rewrite H1 by discriminate. apply IH; exact Hg.
      - rewrite H1 by discriminate. reflexivity.
      - congruence.
    Qed.

    Lemma extend_mono e s : forall ms,
      extend rec e s ms <> OOF -> extend rec' e s ms = extend rec e s ms.
    Proof.
      induction ms as [|m ms IH]; simpl; intros Hg; [reflexivity|].
      pose proof (Hle e s (mend m)) as H1.
      destruct (rec e s (mend m)) as [xs| | |] eqn:Hr.
      - rewrite H1 by discriminate.
        destruct (extend rec e s ms) as [ys| | |] eqn:Hx.
        + rewrite IH by discriminate. reflexivity.
        + rewrite IH by discriminate. reflexivity.
        + rewrite IH by discriminate. reflexivity.
        + congruence.
      - rewrite H1 by discriminate. apply IH; exact Hg.
      - rewrite H1 by discriminate. reflexivity.
      - congruence.
    Qed.

    Lemma cat_loop_mono s : forall es cur,
      cat_loop rec es s cur <> OOF -> cat_loop rec' es s cur = cat_loop rec es s cur.
    Proof.
      induction es as [|e es IH]; simpl; intros cur Hg; [reflexivity|].
      pose proof (extend_mono e s cur) as H1.
      destruct (extend rec e s cur) as [nxt| | |] eqn:Hx.
      - rewrite H1 by discriminate. destruct nxt as [|m1 nxt']; [reflexivity|]. apply IH; exact Hg.
      - rewrite H1 by discriminate. reflexivity.
      - rewrite H1 by discriminate. reflexivity.
      - congruence.
    Qed.

    Lemma cat_mono es s i : cat rec es s i <> OOF -> cat rec' es s i = cat rec es s i.
    Proof.
      unfold cat. intros Hg. pose proof (cat_loop_mono s es [mk [] i]) as H1.
      destruct (cat_loop rec es s [mk [] i]) as [out| | |] eqn:Hc.
      - rewrite H1 by discriminate. reflexivity.
      - rewrite H1 by discriminate. reflexivity.
      - rewrite H1 by discriminate. reflexivity.
      - congruence.
    Qed.

    (* the loop fuel k may grow as well *)
    Lemma rep_loop_mono e mx s : forall k k' count mset last, k <= k' ->
      rep_loop sh rec k e mx s count mset last <> OOF ->
      rep_loop sh rec' k' e mx s count mset last = rep_loop sh rec k e mx s count mset last.
    Proof.
      induction k as [|k IH]; intros k' count mset last Hk Hg; simpl in Hg; [congruence|].
      destruct k' as [|k']; [lia|]. simpl.
      destruct (match mx with Some m => Nat.eqb count m | None => false end); [reflexivity|].
      pose proof (extend_mono e s (sort_desc (sh last))) as H1.
      destruct (extend rec e s (sort_desc (sh last))) as [new| | |] eqn:Hx.
      - rewrite H1 by discriminate.
        destruct (subset (set_of new) mset); [reflexivity|]. apply IH; [lia|exact Hg].
      - rewrite H1 by discriminate. reflexivity.
      - rewrite H1 by discriminate. reflexivity.
      - congruence.
    Qed.

    Lemma rep_mono k k' mn mx e s i : k <= k' ->
      rep sh rec k mn mx e s i <> OOF -> rep sh rec' k' mn mx e s i = rep sh rec k mn mx e s i.
    Proof.
      intros Hk. unfold rep. destruct mn as [|m].
      - apply rep_loop_mono; exact Hk.
      - cbv beta match zeta. intros Hg. pose proof (cat_mono (repeat e (S m)) s i) as H1.
        destruct (cat rec (repeat e (S m)) s i) as [ms| | |] eqn:Hc.
        + rewrite H1 by discriminate. apply rep_loop_mono; [exact Hk|exact Hg].
        + rewrite H1 by discriminate. reflexivity.
        + rewrite H1 by discriminate. reflexivity.
        + congruence.
    Qed.

    Lemma excluded_mono x m :
      excluded sh rec x m <> XO -> excluded sh rec' x m = excluded sh rec x m.
    Proof.
      unfold excluded. destruct x as [r|]; [|reflexivity]. cbv zeta.
      pose proof (Hle (ERef r) (nsvalue (nodes m)) 0) as H1.
      destruct (rec (ERef r) (nsvalue (nodes m)) 0) as [ms| | |] eqn:Hr; intros Hg.
      - rewrite H1 by discriminate. reflexivity.
      - rewrite H1 by discriminate. reflexivity.
      - rewrite H1 by discriminate. reflexivity.
      - congruence.
    Qed.

    Lemma filter_excl_mono x : forall ms,
      filter_excl sh rec x ms <> OOF -> filter_excl sh rec' x ms = filter_excl sh rec x ms.
    Proof.
      induction ms as [|m ms IH]; simpl; intros Hg; [reflexivity|].
      pose proof (excluded_mono x m) as H1.
      destruct (excluded sh rec x m) as [b| |] eqn:Hx.
      - rewrite H1 by discriminate.
        destruct (filter_excl sh rec x ms) as [out| | |] eqn:Hf.
        + rewrite IH by discriminate. reflexivity.
        + rewrite IH by discriminate. reflexivity.
        + rewrite IH by discriminate. reflexivity.
        + congruence.
      - rewrite H1 by discriminate. reflexivity.
      - congruence.
    Qed.

    Lemma ref_mono r s i : ref sh G rec r s i <> OOF -> ref sh G rec' r s i = ref sh G rec r s i.
    Proof.
      unfold ref. destruct (G r) as [ru|]; [|reflexivity].
      destruct (rdef ru) as [d|]; [|reflexivity].
      pose proof (Hle d s i) as H1.
      destruct (rec d s i) as [ms| | |] eqn:Hr; intros Hg.
      - rewrite H1 by discriminate.
        pose proof (filter_excl_mono (rexcl ru) ms) as H2.
        destruct (filter_excl sh rec (rexcl ru) ms) as [ms'| | |] eqn:Hf.
        + rewrite H2 by discriminate. reflexivity.
        + rewrite H2 by discriminate. reflexivity.
        + rewrite H2 by discriminate. reflexivity.
        + congruence.
      - rewrite H1 by discriminate. reflexivity.
      - rewrite H1 by discriminate. reflexivity.
      - congruence.
    Qed.

    Lemma step_mono k k' e s i : k <= k' ->
      step sh G rec k e s i <> OOF -> step sh G rec' k' e s i = step sh G rec k e s i.
    Proof.
      intros Hk. destruct e as [cs v|lo hi|fm es|es|id mn mx e| |r]; simpl; intros Hg.
      - reflexivity.
      - reflexivity.
      - apply alt_loop_mono; exact Hg.
      - apply cat_mono; exact Hg.
      - apply rep_mono; [exact Hk|exact Hg].
      - reflexivity.
      - apply ref_mono; exact Hg.
    Qed.
  End StepMono.

  Lemma lparse_le : forall f f', f <= f' -> le_rec (lparse sh G f) (lparse sh G f').
  Proof.
    induction f as [|f IH]; intros f' Hf e s i Hg; simpl in Hg; [congruence|].
    destruct f' as [|f']; [lia|]. simpl.
    apply step_mono; [apply IH; lia|lia|exact Hg].
  Qed.
End Mono.

(* monotone in fuel: once it answers, more fuel gives the same answer
   (covers the recursion fuel and the repetition-loop fuel, which are the same number) *)
Theorem lparse_mono sh G : forall f f' e s i r, lparse sh G f e s i = r -> r <> OOF -> f <= f' ->
  lparse sh G f' e s i = r.
Proof.
  intros f f' e s i r Hr Hne Hf. subst r. apply lparse_le; assumption.
Qed.

(* ------------------------------------------------------------------------------------------ *)
(* 6. an Ok answer is never empty                                                              *)
(* ------------------------------------------------------------------------------------------ *)
Section Nonempty.
  Variable sh : list mtch -> list mtch.
  Hypothesis Hsh : perm_oracle sh.
  Variable G : grammar.

  Lemma sh_ne l : l <> [] -> sh l <> [].
  Proof.
    intros H. destruct (ne_in _ _ H) as [x Hx]. apply (in_ne _ x).
    eapply Permutation_in; [apply Permutation_sym; apply Hsh|exact Hx].
  Qed.

  Lemma next_longest_ne l : l <> [] -> next_longest sh l <> [].
  Proof. intros H. unfold next_longest. apply sort_desc_ne. apply sh_ne. exact H. Qed.

  Definition ne_rec (rec : expr -> str -> nat -> res) : Prop :=
    forall e s i ms, rec e s i = Ok ms -> ms <> [].

  Section StepNe.
    Variable rec : expr -> str -> nat -> res.
    Hypothesis Hne : ne_rec rec.

    Lemma lit_ne cs v s i ms : lit cs v s i = Ok ms -> ms <> [].
    Proof.
      unfold lit. cbv zeta. destruct (Nat.leb i (length s)); [|discriminate].
      destruct (str_eqb _ _); [|discriminate]. intros H; inversion H; subst. discriminate.
    Qed.

    Lemma range_ne lo hi s i ms : range lo hi s i = Ok ms -> ms <> [].
    Proof.
      unfold range. destruct (nth_error s i) as [c|]; [|discriminate].
      destruct ((lo <=? c)%N && (c <=? hi)%N); [|discriminate].
      intros H; inversion H; subst. discriminate.
    Qed.

    Lemma alt_loop_ne fm s i : forall es acc ms, alt_loop rec fm es s i acc = Ok ms -> ms <> [].
    Proof.
      induction es as [|e es IH]; simpl; intros acc ms H.
      - destruct acc as [|a acc']; [discriminate|]. inversion H; subst. discriminate.
      - destruct (rec e s i) as [xs| | |] eqn:Hr; try discriminate.
        + destruct fm.
          * inversion H; subst. intros E. apply app_eq_nil in E. destruct E as [_ E].
            exact (Hne _ _ _ _ Hr E).
          * eapply IH; exact H.
        + eapply IH; exact H.
    Qed.

    Lemma cat_loop_ne s : forall es cur out, cat_loop rec es s cur = Ok out -> cur <> [] -> out <> [].
    Proof.
      induction es as [|e es IH]; simpl; intros cur out H Hc.
      - inversion H; subst. exact Hc.
      - destruct (extend rec e s cur) as [nxt| | |]; try discriminate.
        destruct nxt as [|m1 nxt']; [discriminate|]. eapply IH; [exact H|discriminate].
    Qed.

    Lemma cat_ne es s i ms : cat rec es s i = Ok ms -> ms <> [].
    Proof.
      unfold cat. destruct (cat_loop rec es s [mk [] i]) as [out| | |] eqn:Hc; try discriminate.
      intros H; inversion H; subst. apply sort_desc_ne.
      eapply cat_loop_ne; [exact Hc|discriminate].
    Qed.

    Lemma rep_loop_ne e mx s : forall k count mset last out,
      rep_loop sh rec k e mx s count mset last = Ok out -> mset <> [] -> out <> [].
    Proof.
      induction k as [|k IH]; simpl; intros count mset last out H Hm; [discriminate|].
      destruct (match mx with Some m => Nat.eqb count m | None => false end).
      - inversion H; subst. apply next_longest_ne; exact Hm.
      - destruct (extend rec e s (sort_desc (sh last))) as [new| | |]; try discriminate.
        destruct (subset (set_of new) mset).
        + inversion H; subst. apply next_longest_ne; exact Hm.
        + eapply IH; [exact H|]. apply union_ne; exact Hm.
    Qed.

    Lemma rep_ne k mn mx e s i ms : rep sh rec k mn mx e s i = Ok ms -> ms <> [].
    Proof.
      unfold rep. destruct mn as [|m].
      - intros H. eapply rep_loop_ne; [exact H|discriminate].
      - cbv beta match zeta.
        destruct (cat rec (repeat e (S m)) s i) as [xs| | |] eqn:Hc; try discriminate.
        intros H. eapply rep_loop_ne; [exact H|]. apply set_of_ne. eapply cat_ne; exact Hc.
    Qed.

    Lemma ref_ne r s i ms : ref sh G rec r s i = Ok ms -> ms <> [].
    Proof.
      unfold ref. destruct (G r) as [ru|]; [|discriminate].
      destruct (rdef ru) as [d|]; [|discriminate].
      destruct (rec d s i) as [xs| | |]; try discriminate.
      destruct (filter_excl sh rec (rexcl ru) xs) as [ys| | |]; try discriminate.
      destruct (set_of ys) as [|m0 st] eqn:Hs; [discriminate|].
      intros H; inversion H; subst. intros E. apply map_eq_nil in E. revert E.
      apply sort_desc_ne. apply sh_ne. discriminate.
    Qed.

    Lemma step_ne k : ne_rec (step sh G rec k).
    Proof.
      intros e s i ms. destruct e as [cs v|lo hi|fm es|es|id mn mx e| |r]; simpl.
      - apply lit_ne.
      - apply range_ne.
      - apply alt_loop_ne.
      - apply cat_ne.
      - apply rep_ne.
      - discriminate.
      - apply ref_ne.
    Qed.
  End StepNe.

  Lemma lparse_ne : forall f, ne_rec (lparse sh G f).
  Proof.
    induction f as [|f IH]; simpl.
    - intros e s i ms H. discriminate.
    - apply step_ne. exact IH.
  Qed.
End Nonempty.

Theorem lparse_nonempty sh G : perm_oracle sh ->
  forall f e s i ms, lparse sh G f e s i = Ok ms -> ms <> [].
Proof.
  intros Hsh f e s i ms H. eapply lparse_ne; eauto.
Qed.

Print Assumptions lparse_complete.
Print Assumptions lparse_perr.
Print Assumptions lparse_mono.
Print Assumptions lparse_nonempty.
Print Assumptions lparse_complete_nowb.
Print Assumptions lparse_perr_nowb.
