(* ReaderComplete1.v — C04, converse direction, part 1: whatever the spec reader of AbnfRead.v accepts is
   derivable in the library's meta-grammar (the table translated from parser.py).  The reader's run is
   replayed as a matching derivation M (positions instead of suffixes); trees then exist by EngineSound.M_D. *)
From Coq Require Import String Ascii List NArith Arith Bool Lia.
Import ListNotations.
From ABNF Require Import Base Engine Spec EngineSound EngineComplete AbnfRead Registry GenTypes Loader Bundled
     RfcSpec Tables Visit Visitor VisitorProps ReaderDeriv1 ReaderDeriv3 ReaderDeriv.
Local Open Scope list_scope.
Opaque l_meta r_boot G.
Arguments ERef r%N.
Arguments ERange (lo hi)%N.
Arguments fold_cp c%N.

(* ------------------------------------------------------------------------------------------ *)
(** * Suffixes and positions *)
Lemma skipn_cons_inv (l : str) : forall i c r, skipn i l = c :: r ->
  nth_error l i = Some c /\ r = skipn (i + 1) l.
Proof.
  induction l as [|x l IH]; intros [|i] c r H; cbn in H; try discriminate.
  - injection H as -> ->. split; reflexivity.
  - apply IH in H. exact H.
Qed.
Lemma skipn_app_exact {A} (w r : list A) : skipn (length w) (w ++ r) = r.
Proof. induction w; [reflexivity|exact IHw]. Qed.
Lemma firstn_app_exact {A} (w r : list A) : firstn (length w) (w ++ r) = w.
Proof. induction w; [reflexivity|cbn; f_equal; exact IHw]. Qed.

(* inversion of the reader's primitives *)
Lemma eat_inv k s0 r : eat k s0 = Some r -> s0 = k :: r.
Proof.
  destruct s0 as [|x s0]; cbn; [discriminate|]. unfold is. destruct (N.eqb_spec k x); [|discriminate].
  intros H. injection H as ->. subst. reflexivity.
Qed.
Lemma eat_ci_inv k s0 r : eat_ci k s0 = Some r -> exists c, s0 = c :: r /\ fold_cp c = k.
Proof.
  destruct s0 as [|x s0]; cbn; [discriminate|]. unfold is. destruct (N.eqb_spec k (fold_cp x)); [|discriminate].
  intros H. injection H as ->. eauto.
Qed.
Lemma crlf_inv s0 r : AbnfRead.crlf s0 = Some r -> s0 = 13%N :: 10%N :: r.
Proof.
  unfold AbnfRead.crlf. destruct (eat 13 s0) as [r0|] eqn:E; [|discriminate]. intros H.
  apply eat_inv in E. apply eat_inv in H. subst. reflexivity.
Qed.
Lemma span__split p : forall s0 acc v r, span_ p acc s0 = (v, r) ->
  exists w, v = rev acc ++ w /\ s0 = w ++ r /\ Forall (fun c => p c = true) w.
Proof.
  induction s0 as [|c s0 IH]; intros acc v r H; cbn [span_] in H.
  - injection H as <- <-. exists []. rewrite rev'_rev, app_nil_r. repeat split. constructor.
  - destruct (p c) eqn:Pc.
    + destruct (IH _ _ _ H) as (w & -> & -> & F). exists (c :: w). cbn [rev]. rewrite <- app_assoc.
      repeat split. constructor; assumption.
    + injection H as <- <-. exists []. rewrite rev'_rev, app_nil_r. repeat split. constructor.
Qed.
Lemma span_split p s0 v r : span p s0 = (v, r) -> s0 = v ++ r /\ Forall (fun c => p c = true) v.
Proof. intros H. destruct (span__split p s0 [] v r H) as (w & -> & -> & F). split; [reflexivity|exact F]. Qed.

Definition isdig (b : N) (c : cp) : bool := is_some (AbnfRead.digit_val b c).
Lemma number__split b : forall s0 acc n r, number_ b acc s0 = (n, r) ->
  exists ds, s0 = ds ++ r /\ Forall (fun c => isdig b c = true) ds.
Proof.
  induction s0 as [|c s0 IH]; intros acc n r H; cbn [number_] in H.
  - injection H as <- <-. exists []. split; [reflexivity|constructor].
  - destruct (AbnfRead.digit_val b c) as [d|] eqn:Ed.
    + destruct (IH _ _ _ H) as (ds & -> & F). exists (c :: ds). split; [reflexivity|].
      constructor; [unfold isdig; rewrite Ed; reflexivity|exact F].
    + injection H as <- <-. exists []. split; [reflexivity|constructor].
Qed.
Lemma number_split b s0 n r : number b s0 = Some (n, r) ->
  exists ds, s0 = ds ++ r /\ ds <> [] /\ Forall (fun c => isdig b c = true) ds.
Proof.
  destruct s0 as [|c s0]; cbn [number]; [discriminate|].
  destruct (AbnfRead.digit_val b c) as [d|] eqn:Ed; [|discriminate]. intros H. injection H as H.
  destruct (number__split b s0 d n r H) as (ds & -> & F). exists (c :: ds).
  split; [reflexivity|]. split; [discriminate|]. constructor; [unfold isdig; rewrite Ed; reflexivity|exact F].
Qed.
Lemma opt_count_split s0 a r : opt_count s0 = (a, r) ->
  exists ds, s0 = ds ++ r /\ Forall (fun c => isdig 10 c = true) ds /\
             match a with None => ds = [] | Some _ => ds <> [] end.
Proof.
  unfold opt_count. destruct (number 10 s0) as [[n r']|] eqn:E; intros H; injection H as <- <-.
  - destruct (number_split _ _ _ _ E) as (ds & -> & Hne & F). exists ds. auto.
  - exists []. repeat split. constructor.
Qed.
Lemma comment_body_split : forall s0 r, comment_body s0 = Some r ->
  exists vs, s0 = vs ++ 13%N :: 10%N :: r /\ Forall (fun c => (is_wsp c || is_vchar c) = true) vs.
Proof.
  induction s0 as [|c s0 IH]; intros r H; cbn [comment_body] in H; [discriminate|].
  destruct (is_wsp c || is_vchar c) eqn:Pc.
  - destruct (IH _ H) as (vs & -> & F). exists (c :: vs). split; [reflexivity|constructor; assumption].
  - apply crlf_inv in H. exists []. split; [exact H|constructor].
Qed.

Lemma digit_val_cases b c d : AbnfRead.digit_val b c = Some d ->
  (is_digit c = true /\ d = (c - 48)%N \/ between 65 70 c = true /\ d = (c - 65 + 10)%N \/
   between 97 102 c = true /\ d = (c - 97 + 10)%N) /\ (d < b)%N.
Proof.
  unfold AbnfRead.digit_val. intros H.
  destruct (is_digit c) eqn:E1; [|destruct (between 65 70 c) eqn:E2;
    [|destruct (between 97 102 c) eqn:E3; [|discriminate H]]];
    match type of H with context [N.ltb ?x b] => destruct (N.ltb_spec x b) end; try discriminate H;
    injection H as <-; split; auto.
Qed.

(* ------------------------------------------------------------------------------------------ *)
(** * Building matching derivations *)
Section Build.
  Variable s : str.
  Notation sk := (sk s).
  Notation Mg := (M G s).
  Notation MIg := (MI G s).

  Lemma sk_cons i c r : sk i = c :: r -> nth_error s i = Some c /\ r = sk (i + 1) /\ i < length s.
  Proof.
    intros H. destruct (skipn_cons_inv s i c r H) as [A B]. repeat split; auto.
    apply nth_error_Some. congruence.
  Qed.
  Lemma sk_app i w r : sk i = w ++ r ->
    r = sk (i + length w) /\ slice s i (length w) = w /\ (w <> [] -> i + length w <= length s).
  Proof.
    intros H. split; [|split].
    - unfold sk. rewrite skipn_add_. fold (sk i). rewrite H. symmetry. apply skipn_app_exact.
    - unfold slice. fold (sk i). rewrite H. apply firstn_app_exact.
    - intros Hne. pose proof (sk_len s i) as L. rewrite H, app_length in L.
      destruct w; [contradiction|]. cbn [length] in *. lia.
  Qed.

  Lemma Mref r nm d i j : G r = mkrule nm d -> Mg d i j -> Mg (ERef r) i j.
  Proof. intros HG H. eapply M_ref; [exact HG|reflexivity|exact H]. Qed.
  Lemma Mcat1 a i j : Mg a i j -> Mg (ECat [a]) i j.
  Proof. intros H. econstructor; [exact H|]. constructor. exact (proj2 (M_bounds G _ _ _ _ H)). Qed.
  Lemma Mcat2 a b i j k : Mg a i j -> Mg b j k -> Mg (ECat [a; b]) i k.
  Proof. intros H1 H2. econstructor; [exact H1|]. apply Mcat1. exact H2. Qed.
  Lemma Mcat3 a b c i j k l : Mg a i j -> Mg b j k -> Mg c k l -> Mg (ECat [a; b; c]) i l.
  Proof. intros H1 H2 H3. econstructor; [exact H1|]. apply (Mcat2 _ _ _ _ _ H2 H3). Qed.
  Lemma Mcat4 a b c d i j k l m : Mg a i j -> Mg b j k -> Mg c k l -> Mg d l m -> Mg (ECat [a; b; c; d]) i m.
  Proof. intros H1 H2 H3 H4. econstructor; [exact H1|]. apply (Mcat3 _ _ _ _ _ _ _ H2 H3 H4). Qed.
  Lemma Mcat5 a b c d e i j k l m n : Mg a i j -> Mg b j k -> Mg c k l -> Mg d l m -> Mg e m n ->
    Mg (ECat [a; b; c; d; e]) i n.
  Proof. intros H1 H2 H3 H4 H5. econstructor; [exact H1|]. apply (Mcat4 _ _ _ _ _ _ _ _ _ H2 H3 H4 H5). Qed.
  Lemma Mstar id e n i j : MIg e n i j -> Mg (ERep id 0 None e) i j.
  Proof. intros H. eapply M_rep; [exact H|lia|discriminate]. Qed.
  Lemma Mplus id e n i j : MIg e n i j -> 1 <= n -> Mg (ERep id 1 None e) i j.
  Proof. intros H Hn. eapply M_rep; [exact H|exact Hn|discriminate]. Qed.
  Lemma Mopt0 id e i : i <= length s -> Mg (ERep id 0 (Some 1) e) i i.
  Proof. intros Hi. eapply (M_rep G s id 0 (Some 1) e i i 0); [constructor; exact Hi|lia|]. intros m H. injection H as <-. lia. Qed.
  Lemma Mopt1 id e i j : Mg e i j -> Mg (ERep id 0 (Some 1) e) i j.
  Proof.
    intros H. eapply (M_rep G s id 0 (Some 1) e i j 1); [|lia|intros m E; injection E as <-; lia].
    econstructor; [exact H|]. constructor. exact (proj2 (M_bounds G _ _ _ _ H)).
  Qed.
  Lemma MI_0_eq e i j : MIg e 0 i j -> j = i.
  Proof. intros H. inversion H; subst. reflexivity. Qed.

  Lemma M_lit_sk (cs : bool) v w i r : sk i = w ++ r -> length w = length v -> w <> [] ->
    (if cs return Prop then w = v else fold_str w = fold_str v) -> Mg (ELit cs v) i (i + length v).
  Proof.
    intros E L Hne Hc. destruct (sk_app i w r E) as (_ & Sl & Hle). constructor. split.
    - rewrite <- L. apply Hle. exact Hne.
    - rewrite <- L, Sl. exact Hc.
  Qed.
  Lemma M_chr (cs : bool) k i c r : sk i = c :: r -> (if cs return Prop then c = k else fold_cp c = fold_cp k) ->
    Mg (ELit cs [k]) i (i + 1).
  Proof.
    intros E Hc. apply (M_lit_sk cs [k] [c] i r E eq_refl); [discriminate|].
    destruct cs; [subst; reflexivity|cbn; rewrite Hc; reflexivity].
  Qed.
  Lemma M_sym k i r : sk i = k :: r -> Mg (ELit false [k]) i (i + 1).
  Proof. intros E. apply (M_chr false k i k r E). reflexivity. Qed.
  Lemma M_chr2 k1 k2 i c1 c2 r : sk i = c1 :: c2 :: r -> fold_cp c1 = fold_cp k1 -> fold_cp c2 = fold_cp k2 ->
    Mg (ELit false [k1; k2]) i (i + 2).
  Proof.
    intros E H1 H2. apply (M_lit_sk false [k1; k2] [c1; c2] i r E eq_refl); [discriminate|].
    cbn. rewrite H1, H2. reflexivity.
  Qed.
  Lemma M_rng lo hi i c r : sk i = c :: r -> between lo hi c = true -> Mg (ERange lo hi) i (i + 1).
  Proof.
    intros E H. destruct (sk_cons i c r E) as (Hn & _). unfold between in H. apply andb_true_iff in H.
    destruct H as [A B]. apply N.leb_le in A. apply N.leb_le in B. eapply M_range; eauto.
  Qed.

  (* a run of characters of a class *)
  Definition cls_expr (e : expr) (p : cp -> bool) : Prop :=
    forall i c r, sk i = c :: r -> p c = true -> Mg e i (i + 1).
  Lemma MI_class e p : cls_expr e p -> forall vs i r, sk i = vs ++ r ->
    Forall (fun c => p c = true) vs -> i <= length s -> MIg e (length vs) i (i + length vs).
  Proof.
    intros He. induction vs as [|c vs IH]; intros i r E F Hi.
    - cbn [length]. rewrite Nat.add_0_r. constructor. exact Hi.
    - inversion F as [|x l Pc F']; subst. cbn [app] in E.
      destruct (sk_cons i c _ E) as (_ & E' & Hlt).
      cbn [length]. replace (i + S (length vs)) with (i + 1 + length vs) by lia.
      econstructor; [apply (He i c _ E Pc)|]. apply (IH (i + 1) r); [symmetry; exact E'|exact F'|lia].
  Qed.
  Lemma sk_app_pos i w r : sk i = w ++ r -> r = sk (i + length w).
  Proof. intros H. exact (proj1 (sk_app i w r H)). Qed.
  Lemma sk_le i c r : sk i = c :: r -> i + 1 <= length s.
  Proof. intros H. destruct (sk_cons i c r H) as (_ & _ & L). lia. Qed.

  (* ---- core rules ---- *)
  Lemma M_DIGIT : cls_expr (ERef 2) is_digit.
  Proof. intros i c r E H. apply (Mref _ _ _ _ _ def_DIGIT). apply (M_rng _ _ _ c r E H). Qed.
  Lemma M_ALPHA : cls_expr (ERef 7) is_alpha.
  Proof.
    intros i c r E H. apply (Mref _ _ _ _ _ def_ALPHA). unfold is_alpha in H. apply orb_true_iff in H.
    destruct H as [H|H]; (eapply M_alt; [|apply (M_rng _ _ _ c r E H)]); cbn; auto.
  Qed.
  Lemma M_WSP : cls_expr (ERef 3) is_wsp.
  Proof.
    intros i c r E H. apply (Mref _ _ _ _ _ def_WSP). unfold is_wsp, is in H. apply orb_true_iff in H.
    destruct H as [H|H]; apply N.eqb_eq in H; subst c.
    - eapply M_alt; [left; reflexivity|]. apply (Mref _ _ _ _ _ def_SP). apply (M_chr true _ _ _ _ E eq_refl).
    - eapply M_alt; [right; left; reflexivity|]. apply (Mref _ _ _ _ _ def_HTAB).
      apply (M_chr true _ _ _ _ E eq_refl).
  Qed.
  Lemma M_VCHAR : cls_expr (ERef 15) is_vchar.
  Proof. intros i c r E H. apply (Mref _ _ _ _ _ def_VCHAR). apply (M_rng _ _ _ c r E H). Qed.
  Lemma M_DQUOTE i r : sk i = 34%N :: r -> Mg (ERef 11) i (i + 1).
  Proof. intros E. apply (Mref _ _ _ _ _ def_DQUOTE). apply (M_chr true _ _ _ _ E eq_refl). Qed.
  Lemma M_CRLF i r : sk i = 13%N :: 10%N :: r -> Mg (ERef 4) i (i + 2).
  Proof.
    intros E. destruct (sk_cons i _ _ E) as (_ & E' & _). apply (Mref _ _ _ _ _ def_CRLF).
    replace (i + 2) with (i + 1 + 1) by lia. apply (Mcat2 _ _ _ (i + 1)).
    - apply (Mref _ _ _ _ _ def_CR). apply (M_chr true _ _ _ _ E eq_refl).
    - apply (Mref _ _ _ _ _ def_LF). apply (M_chr true _ _ _ _ (eq_sym E') eq_refl).
  Qed.
  Lemma M_cchar : cls_expr (EAlt false [ERef 3; ERef 15]) (fun c => is_wsp c || is_vchar c).
  Proof.
    intros i c r E H. apply orb_true_iff in H. destruct H as [H|H].
    - eapply M_alt; [left; reflexivity|apply (M_WSP i c r E H)].
    - eapply M_alt; [right; left; reflexivity|apply (M_VCHAR i c r E H)].
  Qed.
  Lemma M_namechar : cls_expr (EAlt false [ERef 7; ERef 2; ELit false [45%N]]) is_namechar.
  Proof.
    intros i c r E H. unfold is_namechar in H. apply orb_true_iff in H. destruct H as [H|H].
    - apply orb_true_iff in H. destruct H as [H|H].
      + eapply M_alt; [left; reflexivity|apply (M_ALPHA i c r E H)].
      + eapply M_alt; [right; left; reflexivity|apply (M_DIGIT i c r E H)].
    - apply N.eqb_eq in H. subst c. eapply M_alt; [right; right; left; reflexivity|apply (M_sym _ _ _ E)].
  Qed.
  Lemma M_qchar : cls_expr (EAlt false [ERange 32 33; ERange 35 126]) is_qchar.
  Proof.
    intros i c r E H. unfold is_qchar in H. apply orb_true_iff in H. destruct H as [H|H].
    - eapply M_alt; [left; reflexivity|apply (M_rng _ _ _ c r E H)].
    - eapply M_alt; [right; left; reflexivity|apply (M_rng _ _ _ c r E H)].
  Qed.
  Lemma M_pchar : cls_expr (EAlt false [ERange 32 61; ERange 63 126]) is_pchar.
  Proof.
    intros i c r E H. unfold is_pchar in H. apply orb_true_iff in H. destruct H as [H|H].
    - eapply M_alt; [left; reflexivity|apply (M_rng _ _ _ c r E H)].
    - eapply M_alt; [right; left; reflexivity|apply (M_rng _ _ _ c r E H)].
  Qed.

  (* digits of the three bases *)
  Lemma M_dig10 : cls_expr (ERef 2) (isdig 10).
  Proof.
    intros i c r E H. unfold isdig in H. destruct (AbnfRead.digit_val 10 c) as [d|] eqn:Ed; [|discriminate].
    destruct (digit_val_cases _ _ _ Ed) as [[[A _]|[[A ->]|[A ->]]] Hlt]; [apply (M_DIGIT i c r E A)|lia|lia].
  Qed.
  Lemma M_dig2 : cls_expr (ERef 8) (isdig 2).
  Proof.
    intros i c r E H. unfold isdig in H. destruct (AbnfRead.digit_val 2 c) as [d|] eqn:Ed; [|discriminate].
    destruct (digit_val_cases _ _ _ Ed) as [[[A ->]|[[A ->]|[A ->]]] Hlt]; [|lia|lia].
    unfold is_digit, between in A. apply andb_true_iff in A. destruct A as [A1 A2]. apply N.leb_le in A1.
    apply (Mref _ _ _ _ _ def_BIT).
    assert (c = 48 \/ c = 49)%N as [->| ->] by lia.
    - eapply M_alt; [left; reflexivity|apply (M_sym _ _ _ E)].
    - eapply M_alt; [right; left; reflexivity|apply (M_sym _ _ _ E)].
  Qed.
  Lemma M_dig16 : cls_expr (ERef 12) (isdig 16).
  Proof.
    intros i c r E H. unfold isdig in H. destruct (AbnfRead.digit_val 16 c) as [d|] eqn:Ed; [|discriminate].
    apply (Mref _ _ _ _ _ def_HEXDIG).
    destruct (digit_val_cases _ _ _ Ed) as [[[A _]|[[A _]|[A _]]] _].
    - eapply M_alt; [left; reflexivity|apply (M_DIGIT i c r E A)].
    - unfold between in A. apply andb_true_iff in A. destruct A as [A1 A2]. apply N.leb_le in A1. apply N.leb_le in A2.
      assert (c = 65 \/ c = 66 \/ c = 67 \/ c = 68 \/ c = 69 \/ c = 70)%N as Hc by lia.
      destruct Hc as [->|[->|[->|[->|[->| ->]]]]];
        (eapply M_alt; [|apply (M_sym _ _ _ E)]); cbn; auto 10.
    - unfold between in A. apply andb_true_iff in A. destruct A as [A1 A2]. apply N.leb_le in A1. apply N.leb_le in A2.
      assert (c = 97 \/ c = 98 \/ c = 99 \/ c = 100 \/ c = 101 \/ c = 102)%N as Hc by lia.
      destruct Hc as [->|[->|[->|[->|[->| ->]]]]];
        [ eapply M_alt; [|apply (M_chr false 65%N _ _ _ E); reflexivity]
        | eapply M_alt; [|apply (M_chr false 66%N _ _ _ E); reflexivity]
        | eapply M_alt; [|apply (M_chr false 67%N _ _ _ E); reflexivity]
        | eapply M_alt; [|apply (M_chr false 68%N _ _ _ E); reflexivity]
        | eapply M_alt; [|apply (M_chr false 69%N _ _ _ E); reflexivity]
        | eapply M_alt; [|apply (M_chr false 70%N _ _ _ E); reflexivity] ]; cbn; auto 10.
  Qed.
End Build.

(* ------------------------------------------------------------------------------------------ *)
(** * Replaying the reader *)
Section Replay.
  Variable s : str.
  Notation sk := (sk s).
  Notation Mg := (M G s).
  Notation MIg := (MI G s).

  (* ---- layout ---- *)
  Lemma c_nl_M i r : c_nl (sk i) = Some r -> exists j, r = sk j /\ Mg (ERef 18) i j /\ i < j.
  Proof.
    unfold c_nl. destruct (eat (ch ";") (sk i)) as [r0|] eqn:E1; intros H.
    - apply eat_inv in E1. destruct (sk_cons s i _ _ E1) as (_ & E1' & L1).
      destruct (comment_body_split _ _ H) as (vs & Evs & F). rewrite E1' in Evs.
      pose proof (MI_class s _ _ (M_cchar s) vs (i + 1) _ Evs F ltac:(lia)) as HI.
      pose proof (sk_app_pos s _ _ _ Evs) as E2. set (k := i + 1 + length vs) in *.
      pose proof (M_CRLF s k r (eq_sym E2)) as HC.
      destruct (sk_cons s k _ _ (eq_sym E2)) as (_ & E3 & _). destruct (sk_cons s (k + 1) _ _ (eq_sym E3)) as (_ & E4 & _).
      exists (k + 2). split; [replace (k + 2) with (k + 1 + 1) by lia; exact E4|]. split; [|unfold k; lia].
      apply (Mref s _ _ _ _ _ def_c_nl). eapply M_alt; [left; reflexivity|].
      apply (Mref s _ _ _ _ _ def_comment). apply (Mcat3 s _ _ _ i (i + 1) k (k + 2)).
      + apply (M_sym s _ _ _ E1).
      + apply (Mstar s _ _ _ _ _ HI).
      + exact HC.
    - apply crlf_inv in H. pose proof (M_CRLF s i r H) as HC.
      destruct (sk_cons s i _ _ H) as (_ & E3 & _). destruct (sk_cons s (i + 1) _ _ (eq_sym E3)) as (_ & E4 & _).
      exists (i + 2). split; [replace (i + 2) with (i + 1 + 1) by lia; exact E4|]. split; [|lia].
      apply (Mref s _ _ _ _ _ def_c_nl). eapply M_alt; [right; left; reflexivity|exact HC].
  Qed.

  Lemma c_wsp_M i r : c_wsp (sk i) = Some r -> exists j, r = sk j /\ Mg (ERef 17) i j /\ i < j.
  Proof.
    destruct (sk i) as [|c r0] eqn:E; cbn [c_wsp]; [discriminate|]. destruct (is_wsp c) eqn:W.
    - intros H. injection H as <-. destruct (sk_cons s i _ _ E) as (_ & E' & _).
      exists (i + 1). split; [exact E'|]. split; [|lia].
      apply (Mref s _ _ _ _ _ def_c_wsp). eapply M_alt; [left; reflexivity|apply (M_WSP s i c r0 E W)].
    - rewrite <- E. destruct (c_nl (sk i)) as [r1|] eqn:En; [|discriminate].
      destruct (c_nl_M i r1 En) as (k & -> & HM & Lt).
      destruct (sk k) as [|w r2] eqn:Ek; [discriminate|]. destruct (is_wsp w) eqn:Ww; [|discriminate].
      intros H. injection H as <-. destruct (sk_cons s k _ _ Ek) as (_ & E' & _).
      exists (k + 1). split; [exact E'|]. split; [|lia].
      apply (Mref s _ _ _ _ _ def_c_wsp). eapply M_alt; [right; left; reflexivity|].
      apply (Mcat2 s _ _ _ _ _ HM). apply (M_WSP s k w r2 Ek Ww).
  Qed.

  Lemma c_wsps_M : forall f i, i <= length s ->
    exists j n, c_wsps f (sk i) = sk j /\ MIg (ERef 17) n i j /\
                (is_some (c_wsp (sk i)) = true -> 1 <= f -> 1 <= n).
  Proof.
    induction f as [|f IH]; intros i Hi.
    - exists i, 0. split; [reflexivity|]. split; [constructor; exact Hi|lia].
    - cbn [c_wsps]. destruct (c_wsp (sk i)) as [r|] eqn:E.
      + destruct (c_wsp_M i r E) as (k & -> & HM & Lt).
        destruct (IH k (proj2 (M_bounds G _ _ _ _ HM))) as (j & n & E2 & HI & _).
        exists j, (S n). split; [exact E2|]. split; [econstructor; eauto|lia].
      + exists i, 0. split; [reflexivity|]. split; [constructor; exact Hi|discriminate].
  Qed.

  (* ---- repeat ---- *)
  Lemma digits_M b dg : cls_expr s (ERef dg) (isdig b) -> forall i ds r, sk i = ds ++ r ->
    Forall (fun c => isdig b c = true) ds -> i <= length s ->
    r = sk (i + length ds) /\ MIg (ERef dg) (length ds) i (i + length ds).
  Proof.
    intros Hd i ds r E F Hi. split; [apply (sk_app_pos s _ _ _ E)|apply (MI_class s _ _ Hd ds i r E F Hi)].
  Qed.

  Lemma read_repeat_M i rp r : i <= length s -> read_repeat (sk i) = (rp, r) ->
    exists j, r = sk j /\ match rp with None => j = i | Some _ => Mg (ERef 26) i j end.
  Proof.
    intros Hi. unfold read_repeat. destruct (opt_count (sk i)) as [a s1] eqn:E1.
    destruct (opt_count_split _ _ _ E1) as (ds1 & Ed1 & F1 & Ha).
    destruct (digits_M 10 2%N (M_dig10 s) i ds1 s1 Ed1 F1 Hi) as [P1 I1]. set (j1 := i + length ds1) in *.
    destruct (eat (ch "*") s1) as [s2|] eqn:E2.
    - apply eat_inv in E2. rewrite P1 in E2. destruct (sk_cons s j1 _ _ E2) as (_ & P2 & L2).
      destruct (opt_count s2) as [b s3] eqn:E3. destruct (opt_count_split _ _ _ E3) as (ds2 & Ed2 & F2 & _).
      rewrite P2 in Ed2. destruct (digits_M 10 2%N (M_dig10 s) (j1 + 1) ds2 s3 Ed2 F2 ltac:(lia)) as [P3 I3].
      intros H. injection H as <- <-. exists (j1 + 1 + length ds2). split; [exact P3|].
      apply (Mref s _ _ _ _ _ def_repeat). eapply M_alt; [left; reflexivity|].
      apply (Mcat3 s _ _ _ i j1 (j1 + 1)).
      + apply (Mstar s _ _ _ _ _ I1).
      + apply (M_sym s _ _ _ E2).
      + apply (Mstar s _ _ _ _ _ I3).
    - destruct a as [n|]; intros H; injection H as <- <-.
      + exists j1. split; [exact P1|]. apply (Mref s _ _ _ _ _ def_repeat).
        eapply M_alt; [right; left; reflexivity|]. apply (Mplus s _ _ _ _ _ I1).
        destruct ds1; [contradiction|cbn; lia].
      + exists i. split; reflexivity.
  Qed.

  (* ---- quoted-string ---- *)
  Lemma quoted_M i v r : quoted (sk i) = Some (v, r) -> exists j, r = sk j /\ Mg (ERef 38) i j.
  Proof.
    unfold quoted. destruct (eat DQUOTE (sk i)) as [r0|] eqn:E1; [|discriminate].
    apply eat_inv in E1. destruct (sk_cons s i _ _ E1) as (_ & P1 & L1).
    destruct (span is_qchar r0) as [v0 r1] eqn:Es. destruct (span_split _ _ _ _ Es) as [Ev F].
    destruct (eat DQUOTE r1) as [r2|] eqn:E2; [|discriminate]. apply eat_inv in E2.
    intros H. injection H as <- <-. rewrite P1 in Ev.
    pose proof (MI_class s _ _ (M_qchar s) v0 (i + 1) r1 Ev F ltac:(lia)) as HI.
    pose proof (sk_app_pos s _ _ _ Ev) as P2. set (k := i + 1 + length v0) in *. rewrite P2 in E2.
    destruct (sk_cons s k _ _ E2) as (_ & P3 & _).
    exists (k + 1). split; [exact P3|]. apply (Mref s _ _ _ _ _ def_quoted_string).
    apply (Mcat3 s _ _ _ i (i + 1) k).
    - apply (M_DQUOTE s i _ E1).
    - apply (Mstar s _ _ _ _ _ HI).
    - apply (M_DQUOTE s k _ E2).
  Qed.

  (* ---- num-val ---- *)
  Section Num.
    Variables (b : N) (dg : rid) (ia ib ic id_ ie : N).
    Hypothesis Hd : cls_expr s (ERef dg) (isdig b).
    Let item := ECat [ELit false [46%N]; ERep ib 1 None (ERef dg)].

    Lemma series_M : forall f acc k vs r, k <= length s -> AbnfRead.series f b acc (sk k) = Some (vs, r) ->
      exists j m, r = sk j /\ MIg item m k j.
    Proof.
      induction f as [|f IH]; intros acc k vs r Hk H; cbn [AbnfRead.series] in H; [discriminate|].
      destruct (eat (ch ".") (sk k)) as [r0|] eqn:E1.
      - apply eat_inv in E1. destruct (sk_cons s k _ _ E1) as (_ & P1 & L1).
        destruct (number b r0) as [[n r1]|] eqn:En; [|discriminate].
        destruct (number_split _ _ _ _ En) as (ds & Eds & Hne & F). rewrite P1 in Eds.
        destruct (digits_M b dg Hd (k + 1) ds r1 Eds F ltac:(lia)) as [P2 I2].
        assert (HM : Mg item k (k + 1 + length ds)).
        { apply (Mcat2 s _ _ k (k + 1)); [apply (M_sym s _ _ _ E1)|].
          apply (Mplus s _ _ _ _ _ I2). destruct ds; [contradiction|cbn; lia]. }
        rewrite P2 in H. destruct (IH _ _ _ _ (proj2 (M_bounds G _ _ _ _ HM)) H) as (j & m & -> & HI).
        exists j, (S m). split; [reflexivity|econstructor; eauto].
      - injection H as <- <-. exists k, 0. split; [reflexivity|constructor; exact Hk].
    Qed.

    Lemma num_val_M f i e r : i <= length s -> num_val f b (sk i) = Some (e, r) ->
      exists j, r = sk j /\
        Mg (ECat [ERep ia 1 None (ERef dg);
                  ERep ie 0 (Some 1)
                    (EAlt false [ERep ic 1 None item; ECat [ELit false [45%N]; ERep id_ 1 None (ERef dg)]])]) i j.
    Proof.
      intros Hi. unfold num_val. destruct (number b (sk i)) as [[n r1]|] eqn:En; [|discriminate].
      destruct (number_split _ _ _ _ En) as (ds & Eds & Hne & F).
      destruct (digits_M b dg Hd i ds r1 Eds F Hi) as [P1 I1]. set (k := i + length ds) in *.
      assert (H1 : Mg (ERep ia 1 None (ERef dg)) i k).
      { apply (Mplus s _ _ _ _ _ I1). destruct ds; [contradiction|cbn; lia]. }
      pose proof (proj2 (M_bounds G _ _ _ _ H1)) as Hk.
      destruct (eat (ch "-") r1) as [r2|] eqn:E2.
      - apply eat_inv in E2. rewrite P1 in E2. destruct (sk_cons s k _ _ E2) as (_ & P2 & L2).
        destruct (number b r2) as [[m r3]|] eqn:En2; [|discriminate].
        destruct (number_split _ _ _ _ En2) as (ds2 & Eds2 & Hne2 & F2). rewrite P2 in Eds2.
        destruct (digits_M b dg Hd (k + 1) ds2 r3 Eds2 F2 ltac:(lia)) as [P3 I3].
        intros H. injection H as _ <-. exists (k + 1 + length ds2). split; [exact P3|].
        apply (Mcat2 s _ _ _ _ _ H1). apply Mopt1. eapply M_alt; [right; left; reflexivity|].
        apply (Mcat2 s _ _ k (k + 1)); [apply (M_sym s _ _ _ E2)|].
        apply (Mplus s _ _ _ _ _ I3). destruct ds2; [contradiction|cbn; lia].
      - destruct (AbnfRead.series f b [n] r1) as [[vs r2]|] eqn:Es; [|discriminate].
        intros H. injection H as _ <-. rewrite P1 in Es.
        destruct (series_M _ _ _ _ _ Hk Es) as (j & m & -> & HI). exists j. split; [reflexivity|].
        apply (Mcat2 s _ _ _ _ _ H1). destruct m as [|m].
        + apply MI_0_eq in HI. subst j. apply Mopt0. exact Hk.
        + apply Mopt1. eapply M_alt; [left; reflexivity|]. apply (Mplus s _ _ _ _ _ HI). lia.
    Qed.
  End Num.
End Replay.

Section Replay2.
  Variable s : str.
  Notation sk := (sk s).
  Notation Mg := (M G s).
  Notation MIg := (MI G s).

  Lemma M_le e i j : Mg e i j -> i <= j.
  Proof. intros H. destruct (M_D G s e i j H) as [ns HD]. exact (proj1 (D_bounds _ _ _ _ _ _ HD)). Qed.

  Lemma M_element e i j : In e [ERef 19; ERef 28; ERef 29; ERef 30; ERef 31; ERef 32] -> Mg e i j ->
    Mg (ERef 27) i j.
  Proof. intros Hin H. apply (Mref s _ _ _ _ _ def_element). eapply M_alt; eauto. Qed.

  (* a %b / %d / %x value: the "%" at i, the base letter at i+1 *)
  Lemma M_num_val i c2 r1 j body : sk i = 37%N :: c2 :: r1 ->
    (exists r nm l a b c d e dg, In (ERef r) [ERef 33; ERef 34; ERef 35] /\ G r = mkrule nm (val_body l a b c d e dg) /\
       fold_cp c2 = fold_cp l /\
       body = ECat [ERep a 1 None (ERef dg);
                    ERep e 0 (Some 1)
                      (EAlt false [ERep c 1 None (ECat [ELit false [46%N]; ERep b 1 None (ERef dg)]);
                                   ECat [ELit false [45%N]; ERep d 1 None (ERef dg)]])]) ->
    Mg body (i + 2) j -> Mg (ERef 31) i j.
  Proof.
    intros E (r & nm & l & a & b & c & d & e & dg & Hin & HG & Hf & ->) HB.
    destruct (sk_cons s i _ _ E) as (_ & E' & _).
    apply (Mref s _ _ _ _ _ def_num_val). apply (Mcat2 s _ _ i (i + 1)); [apply (M_sym s _ _ _ E)|].
    eapply M_alt; [exact Hin|]. apply (Mref s _ _ _ _ _ HG). unfold val_body.
    apply (Mcat2 s _ _ (i + 1) (i + 2)); [|exact HB].
    replace (i + 2) with (i + 1 + 1) by lia. apply (M_chr s false _ _ _ _ (eq_sym E') Hf).
  Qed.

  Lemma terminal_M f i e r : terminal f (sk i) = Some (e, r) -> exists j, r = sk j /\ Mg (ERef 27) i j.
  Proof.
    destruct (sk i) as [|c r0] eqn:E; [discriminate|]. unfold terminal.
    destruct (sk_cons s i _ _ E) as (_ & P0 & L0).
    destruct (is_alpha c) eqn:Ha.
    { cbn [read_name]. rewrite Ha. destruct (span is_namechar r0) as [n r1] eqn:Es.
      destruct (span_split _ _ _ _ Es) as [Ev F]. intros H. injection H as _ <-. rewrite P0 in Ev.
      pose proof (MI_class s _ _ (M_namechar s) n (i + 1) r1 Ev F ltac:(lia)) as HI.
      exists (i + 1 + length n). split; [apply (sk_app_pos s _ _ _ Ev)|].
      apply (M_element (ERef 19)); [cbn; auto|]. apply (Mref s _ _ _ _ _ def_rulename).
      apply (Mcat2 s _ _ i (i + 1)); [apply (M_ALPHA s i c r0 E Ha)|apply (Mstar s _ _ _ _ _ HI)]. }
    destruct (is DQUOTE c) eqn:Hq.
    { rewrite <- E. destruct (quoted (sk i)) as [[v r1]|] eqn:Eq; [|discriminate].
      destruct (quoted_M s i v r1 Eq) as (j & -> & HM). intros H. injection H as _ <-.
      exists j. split; [reflexivity|]. apply (M_element (ERef 30)); [cbn; auto 10|].
      apply (Mref s _ _ _ _ _ def_char_val). eapply M_alt; [left; reflexivity|].
      apply (Mref s _ _ _ _ _ def_ci_string). apply (Mcat2 s _ _ i i); [apply Mopt0; lia|exact HM]. }
    destruct (is (ch "<") c) eqn:Hl.
    { apply N.eqb_eq in Hl. subst c. destruct (span is_pchar r0) as [v r1] eqn:Es.
      destruct (span_split _ _ _ _ Es) as [Ev F]. destruct (eat (ch ">") r1) as [r2|] eqn:E2; [|discriminate].
      apply eat_inv in E2. intros H. injection H as _ <-. rewrite P0 in Ev.
      pose proof (MI_class s _ _ (M_pchar s) v (i + 1) r1 Ev F ltac:(lia)) as HI.
      pose proof (sk_app_pos s _ _ _ Ev) as P2. set (k := i + 1 + length v) in *. rewrite P2 in E2.
      destruct (sk_cons s k _ _ E2) as (_ & P3 & _).
      exists (k + 1). split; [exact P3|]. apply (M_element (ERef 32)); [cbn; auto 10|].
      apply (Mref s _ _ _ _ _ def_prose_val). apply (Mcat3 s _ _ _ i (i + 1) k).
      - apply (M_sym s _ _ _ E).
      - apply (Mstar s _ _ _ _ _ HI).
      - apply (M_sym s _ _ _ E2). }
    destruct (is (ch "%") c) eqn:Hp; [|discriminate]. apply N.eqb_eq in Hp. subst c.
    destruct (eat_ci (ch "i") r0) as [r1|] eqn:Ei.
    { destruct (eat_ci_inv _ _ _ Ei) as (c2 & -> & Hf).
      destruct (sk_cons s (i + 1) _ _ (eq_sym P0)) as (_ & P1 & L1). rewrite P1.
      destruct (quoted (sk (i + 1 + 1))) as [[v r2]|] eqn:Eq; [|discriminate].
      destruct (quoted_M s _ v r2 Eq) as (j & -> & HM). intros H. injection H as _ <-.
      exists j. split; [reflexivity|]. apply (M_element (ERef 30)); [cbn; auto 10|].
      apply (Mref s _ _ _ _ _ def_char_val). eapply M_alt; [left; reflexivity|].
      apply (Mref s _ _ _ _ _ def_ci_string). apply (Mcat2 s _ _ i (i + 1 + 1)); [|exact HM].
      apply Mopt1. replace (i + 1 + 1) with (i + 2) by lia.
      apply (M_chr2 s 37%N 105%N i _ _ _ E); [reflexivity|exact Hf]. }
    destruct (eat_ci (ch "s") r0) as [r1|] eqn:Es.
    { destruct (eat_ci_inv _ _ _ Es) as (c2 & -> & Hf).
      destruct (sk_cons s (i + 1) _ _ (eq_sym P0)) as (_ & P1 & L1). rewrite P1.
      destruct (quoted (sk (i + 1 + 1))) as [[v r2]|] eqn:Eq; [|discriminate].
      destruct (quoted_M s _ v r2 Eq) as (j & -> & HM). intros H. injection H as _ <-.
      exists j. split; [reflexivity|]. apply (M_element (ERef 30)); [cbn; auto 10|].
      apply (Mref s _ _ _ _ _ def_char_val). eapply M_alt; [right; left; reflexivity|].
      apply (Mref s _ _ _ _ _ def_cs_string). apply (Mcat2 s _ _ i (i + 1 + 1)); [|exact HM].
      replace (i + 1 + 1) with (i + 2) by lia.
      apply (M_chr2 s 37%N 115%N i _ _ _ E); [reflexivity|exact Hf]. }
    assert (Hnum : forall bs dg l nm a b c d e0 r1 c2, r0 = c2 :: r1 -> fold_cp c2 = fold_cp l ->
              cls_expr s (ERef dg) (isdig bs) -> forall rr, In (ERef rr) [ERef 33; ERef 34; ERef 35] ->
              G rr = mkrule nm (val_body l a b c d e0 dg) ->
              num_val f bs r1 = Some (e, r) -> exists j, r = sk j /\ Mg (ERef 27) i j).
    { intros bs dg l nm a b c d e0 r1 c2 -> Hf Hd rr Hin HG H.
      destruct (sk_cons s (i + 1) _ _ (eq_sym P0)) as (_ & P1 & L1). rewrite P1 in H.
      destruct (num_val_M s bs dg a b c d e0 Hd f (i + 1 + 1) e r ltac:(lia) H) as (j & -> & HM).
      exists j. split; [reflexivity|]. apply (M_element (ERef 31)); [cbn; auto 10|].
      replace (i + 1 + 1) with (i + 2) in HM by lia.
      eapply (M_num_val i c2 r1 j _ E); [|exact HM].
      exists rr, nm, l, a, b, c, d, e0, dg. repeat split; auto. }
    destruct (eat_ci (ch "b") r0) as [r1|] eqn:Eb.
    { destruct (eat_ci_inv _ _ _ Eb) as (c2 & E2 & Hf). intros H.
      apply (Hnum 2%N 8%N 98%N _ _ _ _ _ _ r1 c2 E2 Hf (M_dig2 s) 33%N ltac:(cbn; auto) def_bin_val H). }
    destruct (eat_ci (ch "d") r0) as [r1|] eqn:Ed.
    { destruct (eat_ci_inv _ _ _ Ed) as (c2 & E2 & Hf). intros H.
      apply (Hnum 10%N 2%N 100%N _ _ _ _ _ _ r1 c2 E2 Hf (M_dig10 s) 34%N ltac:(cbn; auto) def_dec_val H). }
    destruct (eat_ci (ch "x") r0) as [r1|] eqn:Ex; [|discriminate].
    destruct (eat_ci_inv _ _ _ Ex) as (c2 & E2 & Hf). intros H.
    apply (Hnum 16%N 12%N 120%N _ _ _ _ _ _ r1 c2 E2 Hf (M_dig16 s) 35%N ltac:(cbn; auto) def_hex_val H).
  Qed.

  (* ---- the alternation loop ---- *)
  Definition AltTail (i j : nat) : Prop :=
    exists k1 k2 n m, Mg (ERef 25) i k1 /\ MIg cat_item n k1 k2 /\ MIg alt_item m k2 j.

  Lemma AltTail_alt i j : AltTail i j -> Mg (ERef 22) i j.
  Proof.
    intros (k1 & k2 & n & m & H1 & H2 & H3).
    apply (Mref s _ _ _ _ _ def_alternation). apply (Mcat2 s _ _ i k2); [|apply (Mstar s _ _ _ _ _ H3)].
    apply (Mref s _ _ _ _ _ def_concatenation). apply (Mcat2 s _ _ i k1 _ H1). apply (Mstar s _ _ _ _ _ H2).
  Qed.

  Definition ALTF (f : nat) : Prop := forall alts cur i e r, i <= length s ->
    alt_f f alts cur (sk i) = Some (e, r) ->
    exists j j' n, r = sk j' /\ AltTail i j /\ MIg (ERef 17) n j j'.

  Lemma bracket_M f o c rr nm a b : ALTF f ->
    G rr = mkrule nm (ECat [ELit false [o]; ERep a 0 None (ERef 17); ERef 22; ERep b 0 None (ERef 17); ELit false [c]]) ->
    forall i r0 e1 r1 r2, sk i = o :: r0 -> alt_f f [] [] (c_wsps f r0) = Some (e1, r1) -> eat c r1 = Some r2 ->
    exists j, r2 = sk j /\ Mg (ERef rr) i j.
  Proof.
    intros IH HG i r0 e1 r1 r2 E Ha Ec. destruct (sk_cons s i _ _ E) as (_ & P0 & L0).
    rewrite P0 in Ha. destruct (c_wsps_M s f (i + 1) ltac:(lia)) as (q & n1 & Eq & I1 & _). rewrite Eq in Ha.
    pose proof (proj2 (MI_bounds G _ _ _ _ _ I1)) as Hq.
    destruct (IH _ _ _ _ _ Hq Ha) as (j & j' & n2 & -> & HT & I2).
    apply eat_inv in Ec. destruct (sk_cons s j' _ _ Ec) as (_ & P3 & _).
    exists (j' + 1). split; [exact P3|]. apply (Mref s _ _ _ _ _ HG).
    apply (Mcat5 s _ _ _ _ _ i (i + 1) q j j').
    - apply (M_sym s _ _ _ E).
    - apply (Mstar s _ _ _ _ _ I1).
    - apply AltTail_alt. exact HT.
    - apply (Mstar s _ _ _ _ _ I2).
    - apply (M_sym s _ _ _ Ec).
  Qed.

  Lemma read_elem_M f : ALTF f -> forall i e r, read_elem f (sk i) = Some (e, r) ->
    exists j, r = sk j /\ Mg (ERef 27) i j.
  Proof.
    intros IH i e r. unfold read_elem. destruct (eat (ch "(") (sk i)) as [r0|] eqn:E1.
    - apply eat_inv in E1. destruct (alt_f f [] [] (c_wsps f r0)) as [[e1 r1]|] eqn:Ea; [|discriminate].
      destruct (eat (ch ")") r1) as [r2|] eqn:E2; [|discriminate]. intros H. injection H as _ <-.
      destruct (bracket_M f _ _ 28%N _ _ _ IH def_group i r0 e1 r1 r2 E1 Ea E2) as (j & -> & HM).
      exists j. split; [reflexivity|]. apply (M_element (ERef 28)); [cbn; auto|exact HM].
    - destruct (eat (ch "[") (sk i)) as [r0|] eqn:E1'; [|apply terminal_M].
      apply eat_inv in E1'. destruct (alt_f f [] [] (c_wsps f r0)) as [[e1 r1]|] eqn:Ea; [|discriminate].
      destruct (eat (ch "]") r1) as [r2|] eqn:E2; [|discriminate]. intros H. injection H as _ <-.
      destruct (bracket_M f _ _ 29%N _ _ _ IH def_option i r0 e1 r1 r2 E1' Ea E2) as (j & -> & HM).
      exists j. split; [reflexivity|]. apply (M_element (ERef 29)); [cbn; auto|exact HM].
  Qed.

  Lemma read_rep_M f : ALTF f -> forall i x r, i <= length s -> read_rep f (sk i) = Some (x, r) ->
    exists j, r = sk j /\ Mg (ERef 25) i j.
  Proof.
    intros IH i x r Hi. unfold read_rep. destruct (read_repeat (sk i)) as [rp s1] eqn:Er.
    destruct (read_repeat_M s i rp s1 Hi Er) as (i1 & -> & Hrp).
    destruct (read_elem f (sk i1)) as [[e s2]|] eqn:Ee; [|discriminate]. intros H. injection H as _ <-.
    destruct (read_elem_M f IH i1 e s2 Ee) as (j & -> & HM). exists j. split; [reflexivity|].
    apply (Mref s _ _ _ _ _ def_repetition). destruct rp as [p|].
    - apply (Mcat2 s _ _ i i1); [apply Mopt1; exact Hrp|exact HM].
    - subst i1. apply (Mcat2 s _ _ i i); [apply Mopt0; exact Hi|exact HM].
  Qed.

  Lemma alt_f_M : forall f, ALTF f.
  Proof.
    induction f as [|f IH]; intros alts cur i e r Hi H; [discriminate|].
    rewrite alt_f_S in H. destruct (read_rep f (sk i)) as [[x s2]|] eqn:Er; [|discriminate].
    destruct (read_rep_M f IH i x s2 Hi Er) as (k1 & -> & HR).
    pose proof (proj2 (M_bounds G _ _ _ _ HR)) as Hk1.
    unfold post in H. destruct (c_wsps_M s f k1 Hk1) as (q & n1 & Eq & I1 & Hn1). rewrite Eq in H.
    pose proof (proj2 (MI_bounds G _ _ _ _ _ I1)) as Hq.
    destruct (eat (ch "/") (sk q)) as [r0|] eqn:E1.
    - (* "/": a new concatenation *)
      apply eat_inv in E1. destruct (sk_cons s q _ _ E1) as (_ & P1 & L1). rewrite P1 in H.
      destruct (c_wsps_M s f (q + 1) ltac:(lia)) as (q2 & n2 & Eq2 & I2 & _). rewrite Eq2 in H.
      pose proof (proj2 (MI_bounds G _ _ _ _ _ I2)) as Hq2.
      destruct (IH _ _ _ _ _ Hq2 H) as (j & j' & n3 & -> & (a1 & a2 & n & m & R1 & C1 & A1) & I3).
      exists j, j', n3. split; [reflexivity|]. split; [|exact I3].
      exists k1, k1, 0, (S m). split; [exact HR|]. split; [constructor; exact Hk1|].
      econstructor; [|exact A1]. unfold alt_item. apply (Mcat4 s _ _ _ _ k1 q (q + 1) q2).
      + apply (Mstar s _ _ _ _ _ I1).
      + apply (M_sym s _ _ _ E1).
      + apply (Mstar s _ _ _ _ _ I2).
      + apply (Mref s _ _ _ _ _ def_concatenation). apply (Mcat2 s _ _ q2 a1 _ R1). apply (Mstar s _ _ _ _ _ C1).
    - destruct (starts_repetition (sk q) && is_some (c_wsp (sk k1))) eqn:Ec.
      + (* white space, then one more repetition of the same concatenation *)
        apply andb_true_iff in Ec. destruct Ec as [_ Ec].
        destruct f as [|f']; [discriminate|].
        destruct (IH _ _ _ _ _ Hq H) as (j & j' & n3 & -> & (a1 & a2 & n & m & R1 & C1 & A1) & I3).
        exists j, j', n3. split; [reflexivity|]. split; [|exact I3].
        exists k1, a2, (S n), m. split; [exact HR|]. split; [|exact A1].
        econstructor; [|exact C1]. unfold cat_item. apply (Mcat2 s _ _ k1 q a1); [|exact R1].
        apply (Mplus s _ _ _ _ _ I1). apply Hn1; [exact Ec|lia].
      + (* the end of the alternation *)
        injection H as _ <-. exists k1, q, n1. split; [reflexivity|]. split; [|exact I1].
        exists k1, k1, 0, 0. split; [exact HR|]. split; constructor; exact Hk1.
  Qed.

  (* ---- rule ---- *)
  Lemma rule_f_M f i a r : i <= length s -> rule_f f (sk i) = Some (a, r) ->
    exists j, r = sk j /\ Mg (ERef 16) i j /\ i < j.
  Proof.
    intros Hi. unfold rule_f. destruct (read_name (sk i)) as [[n s1]|] eqn:En; [|discriminate].
    assert (exists j1, s1 = sk j1 /\ Mg (ERef 19) i j1 /\ i < j1) as (j1 & -> & HN & Lt1).
    { destruct (sk i) as [|c r0] eqn:E; [discriminate|]. cbn [read_name] in En.
      destruct (is_alpha c) eqn:Ha; [|discriminate]. destruct (span is_namechar r0) as [n0 r1] eqn:Es.
      injection En as _ <-. destruct (span_split _ _ _ _ Es) as [Ev F].
      destruct (sk_cons s i _ _ E) as (_ & P0 & L0). rewrite P0 in Ev.
      pose proof (MI_class s _ _ (M_namechar s) n0 (i + 1) r1 Ev F ltac:(lia)) as HI.
      exists (i + 1 + length n0). split; [apply (sk_app_pos s _ _ _ Ev)|]. split; [|lia].
      apply (Mref s _ _ _ _ _ def_rulename).
      apply (Mcat2 s _ _ i (i + 1)); [apply (M_ALPHA s i c r0 E Ha)|apply (Mstar s _ _ _ _ _ HI)]. }
    pose proof (proj2 (M_bounds G _ _ _ _ HN)) as Hj1.
    destruct (c_wsps_M s f j1 Hj1) as (q & n1 & Eq & I1 & _). rewrite Eq.
    destruct (eat (ch "=") (sk q)) as [s2|] eqn:E2; [|discriminate]. apply eat_inv in E2.
    destruct (sk_cons s q _ _ E2) as (_ & P2 & L2).
    assert (exists q1 incr, (match eat (ch "/") s2 with Some r' => (true, r') | None => (false, s2) end) = (incr, sk q1) /\
              Mg (EAlt false [ELit false [61%N; 47%N]; ELit false [61%N]]) q q1 /\ q1 <= length s)
      as (q1 & incr & -> & HO & Hq1).
    { destruct (eat (ch "/") s2) as [r'|] eqn:E3.
      - apply eat_inv in E3. rewrite E3 in E2, P2. destruct (sk_cons s (q + 1) _ _ (eq_sym P2)) as (_ & P3 & L3).
        exists (q + 1 + 1), true. rewrite P3. split; [reflexivity|]. split; [|lia].
        eapply M_alt; [left; reflexivity|]. replace (q + 1 + 1) with (q + 2) by lia.
        apply (M_chr2 s _ _ q _ _ _ E2); reflexivity.
      - exists (q + 1), false. rewrite P2. split; [reflexivity|]. split; [|lia].
        eapply M_alt; [right; left; reflexivity|]. apply (M_sym s _ _ _ E2). }
    cbv iota beta.
    destruct (c_wsps_M s f q1 Hq1) as (q2 & n2 & Eq2 & I2 & _). rewrite Eq2.
    pose proof (proj2 (MI_bounds G _ _ _ _ _ I2)) as Hq2.
    destruct (alt_f f [] [] (sk q2)) as [[e s4]|] eqn:Ea; [|discriminate].
    destruct (alt_f_M f _ _ _ _ _ Hq2 Ea) as (j & j' & n3 & -> & HT & I3).
    destruct (c_nl (sk j')) as [s5|] eqn:Ec; [|discriminate].
    destruct (c_nl_M s j' s5 Ec) as (j5 & -> & HC & _).
    intros H. injection H as _ <-. exists j5. split; [reflexivity|].
    assert (HDa : Mg (ERef 20) j1 q2).
    { apply (Mref s _ _ _ _ _ def_defined_as). apply (Mcat3 s _ _ _ j1 q q1).
      - apply (Mstar s _ _ _ _ _ I1).
      - exact HO.
      - apply (Mstar s _ _ _ _ _ I2). }
    assert (HEl : Mg (ERef 21) q2 j').
    { apply (Mref s _ _ _ _ _ def_elements). apply (Mcat2 s _ _ q2 j).
      - apply AltTail_alt. exact HT.
      - apply (Mstar s _ _ _ _ _ I3). }
    split; [apply (Mref s _ _ _ _ _ def_rule); apply (Mcat4 s _ _ _ _ i j1 q2 j' j5 HN HDa HEl HC)|].
    pose proof (M_le _ _ _ HDa). pose proof (M_le _ _ _ HEl). pose proof (M_le _ _ _ HC). lia.
  Qed.
End Replay2.

Section Replay3.
  Variable s : str.
  Notation sk := (sk s).
  Notation Mg := (M G s).
  Notation MIg := (MI G s).

  Lemma rulelist_f_M : forall f acc i rs, i <= length s -> rulelist_f f acc (sk i) = Some rs ->
    exists n, MIg entry n i (length s) /\ (i < length s -> 1 <= n).
  Proof.
    induction f as [|f IH]; intros acc i rs Hi H.
    - destruct (sk i) as [|c r0] eqn:E; [|discriminate].
      pose proof (sk_len s i) as L. rewrite E in L. cbn [length] in L.
      assert (i = length s) by lia. subst i. exists 0. split; [constructor; lia|lia].
    - destruct (sk i) as [|c r0] eqn:E.
      + pose proof (sk_len s i) as L. rewrite E in L. cbn [length] in L.
        assert (i = length s) by lia. subst i. exists 0. split; [constructor; lia|lia].
      + cbn [rulelist_f] in H. rewrite <- E in H. destruct (is_alpha c) eqn:Ha.
        * destruct (read_rule (sk i)) as [[a s1]|] eqn:Er; [|discriminate]. unfold read_rule in Er.
          destruct (rule_f_M s _ i a s1 Hi Er) as (j & -> & HM & Lt).
          destruct (IH _ _ _ (proj2 (M_bounds G _ _ _ _ HM)) H) as (n & HI & _).
          exists (S n). split; [|lia]. econstructor; [|exact HI].
          unfold entry. eapply M_alt; [left; reflexivity|exact HM].
        * destruct (c_wsps_M s (S f) i Hi) as (q & n1 & Eq & I1 & _). rewrite Eq in H.
          destruct (c_nl (sk q)) as [s1|] eqn:Ec; [|discriminate].
          destruct (c_nl_M s q s1 Ec) as (j & -> & HC & _).
          destruct (IH _ _ _ (proj2 (M_bounds G _ _ _ _ HC)) H) as (n & HI & _).
          exists (S n). split; [|lia]. econstructor; [|exact HI].
          unfold entry. eapply M_alt; [right; left; reflexivity|].
          apply (Mcat2 s _ _ i q j); [apply (Mstar s _ _ _ _ _ I1)|exact HC].
  Qed.
End Replay3.

(* ------------------------------------------------------------------------------------------ *)
(** * What the spec reader accepts is derivable *)
Theorem reader_M_rulelist : forall s rs, read_rulelist s = Some rs -> M G s (ERef 39) 0 (length s).
Proof.
  intros s rs H. unfold read_rulelist in H. destruct s as [|c r] eqn:Es; [discriminate|]. rewrite <- Es in *.
  change (rulelist_f (length s) [] s) with (rulelist_f (length s) [] (sk s 0)) in H.
  destruct (rulelist_f_M s _ _ 0 rs (Nat.le_0_l _) H) as (n & HI & Hn).
  apply (Mref s _ _ _ _ _ def_rulelist). fold entry. apply (Mplus s _ _ _ _ _ HI). apply Hn.
  rewrite Es. cbn. lia.
Qed.

Theorem reader_M_rule : forall s a, read_rule s = Some (a, []) -> M G s (ERef 16) 0 (length s).
Proof.
  intros s a H. unfold read_rule in H.
  change (rule_f (S (length s)) s) with (rule_f (S (length s)) (sk s 0)) in H.
  destruct (rule_f_M s _ 0 a [] (Nat.le_0_l _) H) as (j & Ej & HM & _).
  pose proof (sk_len s j) as L. rewrite <- Ej in L. cbn [length] in L.
  pose proof (proj2 (M_bounds G _ _ _ _ HM)) as Hj. assert (j = length s) by lia. subst j. exact HM.
Qed.

Theorem reader_M_elements : forall s a, read_elements s = Some (a, []) -> M G s (ERef 21) 0 (length s).
Proof.
  intros s a H. unfold read_elements in H.
  change (alt_f (S (length s)) [] [] s) with (alt_f (S (length s)) [] [] (sk s 0)) in H.
  destruct (alt_f_M s _ _ _ _ _ _ (Nat.le_0_l _) H) as (j & j' & n & Ej & HT & HI).
  pose proof (sk_len s j') as L. rewrite <- Ej in L. cbn [length] in L.
  pose proof (proj2 (MI_bounds G _ _ _ _ _ HI)) as Hj. assert (j' = length s) by lia. subst j'.
  apply (Mref s _ _ _ _ _ def_elements). apply (Mcat2 s _ _ 0 j).
  - apply AltTail_alt. exact HT.
  - apply (Mstar s _ _ _ _ _ HI).
Qed.

(* with trees, on the table itself *)
Lemma M_tree s r nm d : G r = mkrule nm d -> M G s (ERef r) 0 (length s) ->
  exists t, D G s (ERef r) 0 [t] (length s).
Proof.
  intros HG H. destruct (M_D G s _ _ _ H) as [ns HD].
  destruct (D_ref_inv s _ _ _ _ _ _ HG HD) as (ch0 & -> & _). eauto.
Qed.

Transparent G.
Lemma G_def : G = of_list l_meta.
Proof. reflexivity. Qed.
Opaque G.

Theorem reader_has_derivation : forall s rs, read_rulelist s = Some rs ->
  exists t, D (of_list l_meta) s (ERef (rid_meta "rulelist")) 0 [t] (length s).
Proof.
  intros s rs H. rewrite id_rulelist, <- G_def. exact (M_tree s _ _ _ def_rulelist (reader_M_rulelist s rs H)).
Qed.
Theorem reader_has_derivation_rule : forall s a, read_rule s = Some (a, []) ->
  exists t, D (of_list l_meta) s (ERef (rid_meta "rule")) 0 [t] (length s).
Proof.
  intros s a H. rewrite id_rule, <- G_def. exact (M_tree s _ _ _ def_rule (reader_M_rule s a H)).
Qed.
Theorem reader_has_derivation_elements : forall s a, read_elements s = Some (a, []) ->
  exists t, D (of_list l_meta) s (ERef (rid_meta "elements")) 0 [t] (length s).
Proof.
  intros s a H. rewrite id_elements, <- G_def. exact (M_tree s _ _ _ def_elements (reader_M_elements s a H)).
Qed.

(* both directions together: the reader accepts exactly the derivable texts, with the derivation's syntax *)
Theorem reader_iff_derivable : forall s rs,
  read_rulelist s = Some rs <->
  exists t, D (of_list l_meta) s (ERef (rid_meta "rulelist")) 0 [t] (length s) /\ arules_of (children t) = Some rs.
Proof.
  intros s rs. split.
  - intros H. destruct (reader_has_derivation s rs H) as [t HD]. exists t. split; [exact HD|].
    destruct (reader_agrees_with_every_derivation s t HD) as (rs' & A & R). congruence.
  - intros (t & HD & A). destruct (reader_agrees_with_every_derivation s t HD) as (rs' & A' & R). congruence.
Qed.

Print Assumptions reader_has_derivation.
Print Assumptions reader_has_derivation_rule.
Print Assumptions reader_has_derivation_elements.
Print Assumptions reader_iff_derivable.
