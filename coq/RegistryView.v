(* RegistryView.v — the two views of a registry as a grammar coincide:
   [grammar_of R] (lookup by position in [objs R]) and [of_list (grammar_list R)] (first binding in the
   association list built from the same objects).  Hence the engine and the relation M, which only look
   at the grammar pointwise (Cert.lparse_ext, Cert.M_ext), agree on both views. *)
From Coq Require Import List NArith Arith Bool Lia.
Import ListNotations.
From ABNF Require Import Base Engine Spec Registry Cert.

Lemma of_list_combine_seq (f : robj -> rule) :
  forall (l : list robj) (start : nat) (r : rid),
    of_list (map (fun p => (N.of_nat (fst p), f (snd p))) (combine (seq start (length l)) l)) r =
    if Nat.leb start (N.to_nat r)
    then match nth_error l (N.to_nat r - start) with Some o => Some (f o) | None => None end
    else None.
Proof.
  induction l as [|a l IH]; intros start r.
  - unfold of_list. simpl. destruct (Nat.leb start (N.to_nat r)); [|reflexivity].
    destruct (N.to_nat r - start); reflexivity.
  - unfold of_list in *. simpl.
    destruct (N.eqb (N.of_nat start) r) eqn:E.
    + apply N.eqb_eq in E. subst r. rewrite Nat2N.id.
      rewrite Nat.leb_refl, Nat.sub_diag. reflexivity.
    + apply N.eqb_neq in E.
      assert (Hne : N.to_nat r <> start).
      { intros Heq. apply E. rewrite <- Heq. apply N2Nat.id. }
      rewrite (IH (S start) r).
      destruct (Nat.leb (S start) (N.to_nat r)) eqn:L1.
      * apply Nat.leb_le in L1.
        assert (L2 : Nat.leb start (N.to_nat r) = true) by (apply Nat.leb_le; lia).
        rewrite L2.
        replace (N.to_nat r - start) with (S (N.to_nat r - S start)) by lia.
        reflexivity.
      * apply Nat.leb_gt in L1.
        assert (L2 : Nat.leb start (N.to_nat r) = false) by (apply Nat.leb_gt; lia).
        rewrite L2. reflexivity.
Qed.

Theorem grammar_of_list : forall R r, grammar_of R r = of_list (grammar_list R) r.
Proof.
  intros R r. unfold grammar_list.
  rewrite (of_list_combine_seq
             (fun o => {| rname := oname o;
                          rdef := match odef o with Some d => nth_error (defs R) d | None => None end;
                          rexcl := oexcl o |}) (objs R) 0 r).
  simpl. rewrite Nat.sub_0_r. unfold grammar_of. reflexivity.
Qed.

Corollary lparse_registry_view sh R f e s i :
  lparse sh (grammar_of R) f e s i = lparse sh (of_list (grammar_list R)) f e s i.
Proof. apply lparse_ext. apply grammar_of_list. Qed.

Corollary parse_registry_view sh R f r s i :
  parse sh (grammar_of R) f r s i = parse sh (of_list (grammar_list R)) f r s i.
Proof. unfold parse. rewrite lparse_registry_view. reflexivity. Qed.

Corollary parse_all_registry_view sh R f r s :
  parse_all sh (grammar_of R) f r s = parse_all sh (of_list (grammar_list R)) f r s.
Proof. unfold parse_all. rewrite parse_registry_view. reflexivity. Qed.

Corollary M_registry_view R s e i j :
  M (grammar_of R) s e i j <-> M (of_list (grammar_list R)) s e i j.
Proof.
  split; apply M_ext; intros r; [|symmetry]; apply grammar_of_list.
Qed.

Print Assumptions grammar_of_list.
Print Assumptions lparse_registry_view.
Print Assumptions M_registry_view.
