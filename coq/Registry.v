(* Registry.v — executable model of the rule registry and of loading grammars:
   Rule._obj_map keyed by (class, casefolded name) with fallback to the base class, Rule.__new__ /
   __init__ / get / rules, definition assignment, "=/", first_match_alternation, exclude_rule, the
   import of a rule from another class by sharing its definition object (misc.py), ParseCache.invalidate.
   A rule OBJECT is identified by its index in [objs] (= rid); a DEFINITION OBJECT by its index in
   [defs] (several rules can share one: imports).  Rule names are folded over ASCII only (rule names
   in ABNF are ASCII).   MODEL ONLY: no proofs here. *)
From Coq Require Import List NArith Arith Bool.
Import ListNotations.
From ABNF Require Import Base Engine AbnfRead.

Definition cls := N.                         (* 0 = abnf.parser.Rule (the base class: core rules) *)
Definition lower_cp (c : cp) : cp := fold_cp c.
Definition fold_name (s : str) : str := map lower_cp s.

Record robj := mko {
  ocls : cls; okey : str;                    (* registry key (class, folded name) *)
  oname : str;                               (* self.name: the spelling used when the object was created *)
  odef : option nat;                         (* index of the definition object, None = no definition yet *)
  oexcl : option rid }.

Record reg := mkr {
  objs : list robj;                          (* rule objects, rid = position *)
  defs : list expr;                          (* definition objects *)
  nextid : N;                                (* next repetition / cache id *)
  epoch : nat }.                             (* ParseCache.epoch *)

Definition reg0 : reg := mkr [] [] 0 0.

Fixpoint find_obj (c : cls) (k : str) (l : list robj) (n : nat) : option nat :=
  match l with
  | [] => None
  | o :: r => if N.eqb (ocls o) c && str_eqb (okey o) k then Some n else find_obj c k r (S n)
  end.

(* Rule.get: own entry, else the base class's entry *)
Definition rget (R : reg) (c : cls) (name : str) : option nat :=
  let k := fold_name name in
  match find_obj c k (objs R) 0 with
  | Some n => Some n
  | None => find_obj 0%N k (objs R) 0
  end.

(* cls(name): Rule.__new__ + __init__ without definition; returns the rule object (rid) *)
Definition rnew (R : reg) (c : cls) (name : str) : reg * nat :=
  match rget R c name with
  | Some n => (R, n)
  | None => (mkr (objs R ++ [mko c (fold_name name) name None None]) (defs R) (nextid R) (epoch R),
             length (objs R))
  end.

Fixpoint upd_nth {A : Type} (l : list A) (n : nat) (f : A -> A) : list A :=
  match l, n with
  | [], _ => []
  | x :: r, 0 => f x :: r
  | x :: r, S n' => x :: upd_nth r n' f
  end.

Definition set_def_idx (R : reg) (n : nat) (d : nat) : reg :=
  mkr (upd_nth (objs R) n (fun o => mko (ocls o) (okey o) (oname o) (Some d) (oexcl o)))
      (defs R) (nextid R) (S (epoch R)).

(* rule.definition = <new definition object e>; bumps the cache epoch (ParseCache.invalidate) *)
Definition set_def_new (R : reg) (n : nat) (e : expr) : reg :=
  let R' := mkr (objs R) (defs R ++ [e]) (nextid R) (epoch R) in
  set_def_idx R' n (length (defs R)).

Definition def_of (R : reg) (n : nat) : option expr :=
  match nth_error (objs R) n with
  | Some o => match odef o with Some d => nth_error (defs R) d | None => None end
  | None => None
  end.

(* ---- compiling an abstract syntax tree into parser objects (ABNFGrammarNodeVisitor) ---- *)
(* references are resolved (and rule objects created) left to right, as the visitor does *)
Fixpoint compile (c : cls) (a : aexpr) (R : reg) {struct a} : reg * expr :=
  match a with
  | ALit cs v => (R, ELit cs v)
  | ARange lo hi => (R, ERange lo hi)
  | AAlt es =>
    let '(R', es') := (fix go (l : list aexpr) (R0 : reg) : reg * list expr :=
                         match l with
                         | [] => (R0, [])
                         | x :: r => let '(R1, e1) := compile c x R0 in
                                     let '(R2, r2) := go r R1 in (R2, e1 :: r2)
                         end) es R in
    (R', EAlt false es')
  | ACat es =>
    let '(R', es') := (fix go (l : list aexpr) (R0 : reg) : reg * list expr :=
                         match l with
                         | [] => (R0, [])
                         | x :: r => let '(R1, e1) := compile c x R0 in
                                     let '(R2, r2) := go r R1 in (R2, e1 :: r2)
                         end) es R in
    (R', ECat es')
  | ARep mn mx e =>
    let '(R1, e1) := compile c e R in
    (mkr (objs R1) (defs R1) (N.succ (nextid R1)) (epoch R1), ERep (nextid R1) mn mx e1)
  | AOpt e =>
    let '(R1, e1) := compile c e R in
    (mkr (objs R1) (defs R1) (N.succ (nextid R1)) (epoch R1), ERep (nextid R1) 0 (Some 1) e1)
  | AProse _ => (R, EProse)
  | ARef name => let '(R1, n) := rnew R c name in (R1, ERef (N.of_nat n))
  end.

(* visit_rule: rulename first, then the elements; "=" assigns, "=/" wraps old and new in an Alternation.
   None = the Python code raises (=/ on a rule without definition: AttributeError) *)
Definition define_rule (c : cls) (a : arule) (R : reg) : option reg :=
  let '(R1, n) := rnew R c (aname a) in
  let '(R2, e) := compile c (adef a) R1 in
  if aincr a then
    match def_of R2 n with
    | Some old => Some (set_def_new R2 n (EAlt false [old; e]))
    | None => None
    end
  else Some (set_def_new R2 n e).

Fixpoint define_rules (c : cls) (l : list arule) (R : reg) : option reg :=
  match l with
  | [] => Some R
  | a :: r => match define_rule c a R with Some R' => define_rules c r R' | None => None end
  end.

(* ---- text normalisation done by the loaders ---- *)
Definition is_space (c : cp) : bool :=          (* str.rstrip(): exactly the code points with str.isspace() *)
  (N.eqb c 32 || N.eqb c 9 || N.eqb c 10 || N.eqb c 11 || N.eqb c 12 || N.eqb c 13 ||
   N.eqb c 28 || N.eqb c 29 || N.eqb c 30 || N.eqb c 31 ||
   N.eqb c 133 || N.eqb c 160 || N.eqb c 5760 || (N.leb 8192 c && N.leb c 8202) ||
   N.eqb c 8232 || N.eqb c 8233 || N.eqb c 8239 || N.eqb c 8287 || N.eqb c 12288)%bool.
Fixpoint rstrip (s : str) : str :=
  match s with
  | [] => []
  | c :: r => match rstrip r with
              | [] => if is_space c then [] else [c]
              | r' => c :: r'
              end
  end.
(* src.rstrip().replace("\r","").replace("\n","\r\n") + "\r\n"  (load_grammar strict, load_grammar_rulelist) *)
Definition normalise (s : str) : str :=
  flat_map (fun c => if N.eqb c 13 then [] else if N.eqb c 10 then [13%N; 10%N] else [c]) (rstrip s)
  ++ [13%N; 10%N].
(* Rule.create: append CRLF unless the text ends with CRLF *)
Definition ends_crlf (s : str) : bool :=
  match rev s with 10%N :: 13%N :: _ => true | _ => false end.
Definition ensure_crlf (s : str) : str := if ends_crlf s then s else s ++ [13%N; 10%N].

(* Rule.create(text): the whole (CRLF-completed) text must be ONE rule; None = ParseError (nothing changes) *)
Definition create (c : cls) (text : str) (R : reg) : option reg :=
  match read_rule (ensure_crlf text) with
  | Some (a, []) => define_rule c a R
  | _ => None
  end.
(* Rule.load_grammar(text, strict) / load_grammar_rulelist: the whole text must be a rulelist *)
Definition load_grammar (c : cls) (text : str) (strict : bool) (R : reg) : option reg :=
  match read_rulelist (if strict then normalise text else text) with
  | Some l => define_rules c l R
  | None => None
  end.
Fixpoint create_all (c : cls) (texts : list str) (R : reg) : option reg :=
  match texts with
  | [] => Some R
  | t :: r => match create c t R with Some R' => create_all c r R' | None => None end
  end.

(* cls(name, src.definition): import by sharing the source rule's definition object *)
Definition import_rule (c : cls) (name : str) (src : nat) (R : reg) : option reg :=
  match nth_error (objs R) src with
  | Some o =>
    match odef o with
    | Some d => let '(R1, n) := rnew R c name in Some (set_def_idx R1 n d)
    | None => None                                (* AttributeError: the source rule has no definition *)
    end
  | None => None
  end.

(* rule.first_match_alternation = v: only a top-level Alternation is affected; GrammarError (None) when
   the rule has no definition.  The flag lives in the (possibly shared) definition object. *)
Definition set_flag (n : nat) (v : bool) (R : reg) : option reg :=
  match nth_error (objs R) n with
  | Some o =>
    match odef o with
    | Some d =>
      match nth_error (defs R) d with
      | Some (EAlt _ es) =>
        Some (mkr (objs R) (upd_nth (defs R) d (fun _ => EAlt v es)) (nextid R) (S (epoch R)))
      | Some _ => Some R
      | None => None
      end
    | None => None
    end
  | None => None
  end.
Definition get_flag (n : nat) (R : reg) : bool :=
  match def_of R n with Some (EAlt fm _) => fm | _ => false end.

(* rule.exclude_rule(other) *)
Definition set_excl (n : nat) (x : nat) (R : reg) : reg :=
  mkr (upd_nth (objs R) n (fun o => mko (ocls o) (okey o) (oname o) (odef o) (Some (N.of_nat x))))
      (defs R) (nextid R) (S (epoch R)).

(* cls.rules(): the objects registered under class c, in creation order *)
Definition rules_of (c : cls) (R : reg) : list nat :=
  map fst (filter (fun p => N.eqb (ocls (snd p)) c) (combine (seq 0 (length (objs R))) (objs R))).

(* the grammar the engine sees *)
Definition grammar_of (R : reg) : grammar :=
  fun r => match nth_error (objs R) (N.to_nat r) with
           | Some o => Some {| rname := oname o;
                               rdef := match odef o with Some d => nth_error (defs R) d | None => None end;
                               rexcl := oexcl o |}
           | None => None
           end.
Definition grammar_list (R : reg) : list (rid * rule) :=
  map (fun p => (N.of_nat (fst p),
                 {| rname := oname (snd p);
                    rdef := match odef (snd p) with Some d => nth_error (defs R) d | None => None end;
                    rexcl := oexcl (snd p) |}))
      (combine (seq 0 (length (objs R))) (objs R)).
