(* L_C04.v — C04 in the property's own form: for EVERY abstract syntax and EVERY rendering of it (RenderSpec: the layout,
   radix, marker-case, leading-zero and comment freedom RFC 5234 / RFC 7405 give), the library route compiles the text to
   exactly the rules the syntax denotes (Registry.define_rules / define_rule of that syntax), from any registry that still
   holds the boot rules.  Assembles RenderProof3 (the spec reader inverts every rendering) with ReaderComplete2.C04_full_stable
   / C04_full_create (library route <-> specification route). *)
From Coq Require Import List NArith Arith Bool.
Import ListNotations.
From ABNF Require Import Base Engine AbnfRead Registry Compile ReaderDerivE2E ReaderComplete2 RenderSpec RenderProof3.

Lemma load_of_rendering c rs s R : renders_rulelist rs s -> load_grammar c s false R = define_rules c rs R.
Proof. intros H. unfold load_grammar. rewrite (read_render_rulelist rs s H). reflexivity. Qed.

Theorem c04_rendering_load : forall rs s c R R', boot_ok R -> renders_rulelist rs s ->
  (define_rules c rs R = Some R' <->
   exists fuel, forall f, fuel <= f -> lib_load_grammar f c s false R = LOk R').
Proof.
  intros rs s c R R' HB Hr. rewrite <- (load_of_rendering c rs s R Hr). apply C04_full_stable. exact HB.
Qed.

(* strict loading: the text is normalised first (trailing white space stripped, CR dropped, LF -> CRLF, CRLF appended) *)
Theorem c04_rendering_load_strict : forall rs t c R R', boot_ok R -> renders_rulelist rs (normalise t) ->
  (define_rules c rs R = Some R' <->
   exists fuel, forall f, fuel <= f -> lib_load_grammar f c t true R = LOk R').
Proof.
  intros rs t c R R' HB Hr.
  assert (E : load_grammar c t true R = define_rules c rs R).
  { unfold load_grammar. rewrite (read_render_rulelist rs _ Hr). reflexivity. }
  rewrite <- E. apply C04_full_stable. exact HB.
Qed.

(* single-rule creation: CRLF is appended unless the text already ends with it *)
Theorem c04_rendering_create : forall a t c R R', boot_ok R -> renders_rule a (ensure_crlf t) ->
  (define_rule c a R = Some R' <-> exists fuel, lib_create fuel c t R = LOk R').
Proof.
  intros a t c R R' HB Hr.
  assert (E : create c t R = define_rule c a R).
  { unfold create. rewrite (read_render_rule a _ Hr). reflexivity. }
  rewrite <- E. apply C04_full_create. exact HB.
Qed.

(* whatever the layout: two renderings of the same syntax compile to the same registry *)
Corollary c04_layout_independent : forall rs s1 s2 c R f1 f2 R1 R2, boot_ok R ->
  renders_rulelist rs s1 -> renders_rulelist rs s2 ->
  lib_load_grammar f1 c s1 false R = LOk R1 -> lib_load_grammar f2 c s2 false R = LOk R2 -> R1 = R2.
Proof.
  intros rs s1 s2 c R f1 f2 R1 R2 HB H1 H2 L1 L2.
  pose proof (lib_load_grammar_is_spec _ _ _ _ _ _ HB L1) as E1.
  pose proof (lib_load_grammar_is_spec _ _ _ _ _ _ HB L2) as E2.
  rewrite (load_of_rendering c rs s1 R H1) in E1. rewrite (load_of_rendering c rs s2 R H2) in E2. congruence.
Qed.
Print Assumptions c04_rendering_load.
Print Assumptions c04_rendering_load_strict.
Print Assumptions c04_rendering_create.
Print Assumptions c04_layout_independent.
