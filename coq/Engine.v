(* Engine.v — executable model of the matching engine of src/abnf/parser.py
   (Literal, Alternation, Concatenation, Repetition, Option, Prose, Rule.lparse/parse/parse_all).
   One definition per Python method.  Written with OPEN RECURSION: [step rec] is one level of
   the engine given the function [rec] for the recursive calls; [lparse (S f) = step (lparse f)].
   [sh] is the hash-order oracle: every place where the code iterates a Python [set] of matches
   (for .. in set, list(set), sorted(set), the right operand of |) goes through [sh].
   MODEL ONLY: no proofs here. *)
From Coq Require Import List NArith Arith Bool.
Import ListNotations.
From ABNF Require Import Base.

Definition rid := N.    (* a rule object (registry key), numbered by the harness / translator *)

Inductive expr :=
| ELit (cs : bool) (v : str)                    (* Literal(str, case_sensitive) *)
| ERange (lo hi : cp)                           (* Literal((lo, hi)) *)
| EAlt (fm : bool) (es : list expr)             (* Alternation(es.., first_match=fm) *)
| ECat (es : list expr)                         (* Concatenation(es..) *)
| ERep (id : N) (mn : nat) (mx : option nat) (e : expr)
                                                (* Repetition(Repeat(mn, mx), e) with cache [id];
                                                   Option(e) is ERep id 0 (Some 1) e *)
| EProse                                        (* Prose() *)
| ERef (r : rid).                               (* a Rule object used as a parser *)

Record rule := { rname : str; rdef : option expr; rexcl : option rid }.
Inductive xres := XB (b : bool) | XG | XO.   (* outcome of one exclusion test *)
Definition grammar := rid -> option rule.

Section Engine.
  Variable sh : list mtch -> list mtch.   (* iteration order of a set: a permutation *)
  Variable G : grammar.

  Section Step.
    (* the recursive call; it takes the source because rule exclusion re-parses another string *)
    Variable rec : expr -> str -> nat -> res.

    (* Literal._lparse_value *)
    Definition lit (cs : bool) (v : str) (s : str) (i : nat) : res :=
      if Nat.leb i (length s) then
        let src := slice s i (length v) in
        let a := if cs then src else fold_str src in
        let p := if cs then v else fold_str v in
        if str_eqb a p then Ok [mk [Leaf src i (length src)] (i + length src)] else PErr
      else PErr.

    (* Literal._lparse_range *)
    Definition range (lo hi : cp) (s : str) (i : nat) : res :=
      match nth_error s i with
      | Some c => if (lo <=? c)%N && (c <=? hi)%N then Ok [mk [Leaf [c] i 1] (i + 1)] else PErr
      | None => PErr
      end.

    (* Alternation.lparse *)
    Fixpoint alt_loop (fm : bool) (es : list expr) (s : str) (i : nat) (acc : list mtch) : res :=
      match es with
      | [] => match acc with [] => PErr | _ => Ok acc end
      | e :: es' =>
        match rec e s i with
        | Ok ms => if fm then Ok (acc ++ ms) else alt_loop fm es' s i (acc ++ ms)
        | PErr => alt_loop fm es' s i acc
        | GErr => GErr
        | OOF => OOF
        end
      end.

    (* one layer: extend every partial match, in order, with every match of e *)
    Fixpoint extend (e : expr) (s : str) (ms : list mtch) : res :=
      match ms with
      | [] => Ok []
      | m :: ms' =>
        match rec e s (mend m) with
        | Ok xs =>
          match extend e s ms' with
          | Ok ys => Ok (map (fun x => mk (nodes m ++ nodes x) (mend x)) xs ++ ys)
          | r => r
          end
        | PErr => extend e s ms'
        | GErr => GErr
        | OOF => OOF
        end
      end.

    (* Concatenation.lparse, before the final sort *)
    Fixpoint cat_loop (es : list expr) (s : str) (cur : list mtch) : res :=
      match es with
      | [] => Ok cur
      | e :: es' =>
        match extend e s cur with
        | Ok [] => PErr
        | Ok nxt => cat_loop es' s nxt
        | r => r
        end
      end.

    Definition cat (es : list expr) (s : str) (i : nat) : res :=
      match cat_loop es s [mk [] i] with
      | Ok ms => Ok (sort_desc ms)
      | r => r
      end.

    (* next_longest(set) *)
    Definition next_longest (mset : list mtch) : list mtch := sort_desc (sh mset).

    (* Repetition.lparse main loop; k is loop fuel (the code's [while True]) *)
    Fixpoint rep_loop (k : nat) (e : expr) (mx : option nat) (s : str)
             (count : nat) (mset last : list mtch) : res :=
      match k with
      | 0 => OOF
      | S k' =>
        if match mx with Some m => Nat.eqb count m | None => false end then Ok (next_longest mset)
        else
          match extend e s (sort_desc (sh last)) with
          | Ok new =>
            let new := set_of new in
            if subset new mset then Ok (next_longest mset)
            else rep_loop k' e mx s (S count) (union mset (sh new)) new
          | r => r
          end
      end.

    Definition rep (k : nat) (mn : nat) (mx : option nat) (e : expr) (s : str) (i : nat) : res :=
      match mn with
      | 0 => rep_loop k e mx s 0 [mk [] i] [mk [] i]
      | _ =>
        match cat (repeat e mn) s i with
        | Ok ms => let st := set_of ms in rep_loop k e mx s mn st (set_of (sh st))
        | r => r
        end
      end.

    (* Rule.lparse: the exclusion test = excluded.parse_all(text) does not raise ParseError.
       XB b = the test's answer; XG = it raised GrammarError; XO = the model ran out of fuel *)
    Definition excluded (x : option rid) (m : mtch) : xres :=
      match x with
      | None => XB false
      | Some r =>
        let t := nsvalue (nodes m) in
        match rec (ERef r) t 0 with
        | Ok ms =>
          match next_longest (set_of ms) with
          | m0 :: _ => XB (negb (Nat.ltb (mend m0) (length t)))
          | [] => XB false
          end
        | PErr => XB false
        | GErr => XG
        | OOF => XO
        end
      end.

    (* filterfalse(exclude, g): Ok = the matches that are kept *)
    Fixpoint filter_excl (x : option rid) (ms : list mtch) : res :=
      match ms with
      | [] => Ok []
      | m :: ms' =>
        match excluded x m with
        | XB b =>
          match filter_excl x ms' with
          | Ok r => Ok (if b then r else m :: r)
          | e => e
          end
        | XG => GErr
        | XO => OOF
        end
      end.

    Definition ref (r : rid) (s : str) (i : nat) : res :=
      match G r with
      | None => GErr
      | Some ru =>
        match rdef ru with
        | None => GErr
        | Some d =>
          match rec d s i with
          | Ok ms =>
            match filter_excl (rexcl ru) ms with
            | Ok ms' =>
              match set_of ms' with
              | [] => PErr
              | st => Ok (map (fun m => mk [Nd (rname ru) (nodes m)] (mend m)) (sort_desc (sh st)))
              end
            | e => e
            end
          | r => r
          end
        end
      end.

    Definition step (k : nat) (e : expr) (s : str) (i : nat) : res :=
      match e with
      | ELit cs v => lit cs v s i
      | ERange lo hi => range lo hi s i
      | EAlt fm es => alt_loop fm es s i []
      | ECat es => cat es s i
      | ERep _ mn mx e' => rep k mn mx e' s i
      | EProse => PErr
      | ERef r => ref r s i
      end.
  End Step.

  Fixpoint lparse (fuel : nat) (e : expr) (s : str) (i : nat) : res :=
    match fuel with
    | 0 => OOF
    | S f => step (lparse f) f e s i
    end.

  (* Rule.parse: (longest.nodes[0], longest.start) or the exception *)
  Definition parse (fuel : nat) (r : rid) (s : str) (i : nat) : res :=
    match lparse fuel (ERef r) s i with
    | Ok ms => match next_longest (set_of ms) with m :: _ => Ok [m] | [] => PErr end
    | x => x
    end.

  (* Rule.parse_all *)
  Definition parse_all (fuel : nat) (r : rid) (s : str) : res :=
    match parse fuel r s 0 with
    | Ok (m :: _) => if Nat.ltb (mend m) (length s) then PErr else Ok [m]
    | x => x
    end.
End Engine.

(* the engine under the identity oracle (sets iterate in insertion order) and under the
   reversing oracle; C07 proves that every permutation oracle gives the same result *)
Definition sh_id (l : list mtch) : list mtch := l.
Definition sh_rev (l : list mtch) : list mtch := rev l.
Definition of_list (l : list (rid * rule)) : grammar :=
  fun r => match find (fun p => N.eqb (fst p) r) l with Some p => Some (snd p) | None => None end.
