(* Spec.v — SPECIFICATIONS (trusted, short, meant to be read):
   M  : RFC 5234 / RFC 7405 matching relation  [[e]]_G(s,i) ∋ j
   D  : the same, together with the derivation tree that witnesses it
   WB : repeat bounds are well-formed (min <= max), part of the valid domain
   plain : no first-match flag, no exclusion (the domain of C01)
   No proofs about the engine here. *)
From Coq Require Import List NArith Arith Bool Lia Permutation.
Import ListNotations.
From ABNF Require Import Base Engine.

Section Spec.
  Variable G : grammar.
  Variable s : str.

  (* a quoted string / %s string / num-val series v matches at i *)
  Definition lit_ok (cs : bool) (v : str) (i : nat) : Prop :=
    i + length v <= length s /\
    (if cs then slice s i (length v) = v
     else fold_str (slice s i (length v)) = fold_str v).

  Inductive M : expr -> nat -> nat -> Prop :=
  | M_lit cs v i : lit_ok cs v i -> M (ELit cs v) i (i + length v)
  | M_range lo hi i c : nth_error s i = Some c -> (lo <= c)%N -> (c <= hi)%N ->
                        M (ERange lo hi) i (i + 1)
  | M_alt fm es e i j : In e es -> M e i j -> M (EAlt fm es) i j
  | M_cat_nil i : i <= length s -> M (ECat []) i i
  | M_cat_cons e es i j k : M e i j -> M (ECat es) j k -> M (ECat (e :: es)) i k
  | M_rep id mn mx e i j n : MI e n i j -> mn <= n ->
                          (forall m, mx = Some m -> n <= m) -> M (ERep id mn mx e) i j
  | M_ref r ru d i j : G r = Some ru -> rdef ru = Some d -> M d i j -> M (ERef r) i j
  with MI : expr -> nat -> nat -> nat -> Prop :=     (* exactly n iterations *)
  | MI_0 e i : i <= length s -> MI e 0 i i
  | MI_S e n i j k : M e i j -> MI e n j k -> MI e (S n) i k.

  Inductive D : expr -> nat -> list node -> nat -> Prop :=
  | D_lit cs v i : lit_ok cs v i ->
      D (ELit cs v) i [Leaf (slice s i (length v)) i (length v)] (i + length v)
  | D_range lo hi i c : nth_error s i = Some c -> (lo <= c)%N -> (c <= hi)%N ->
      D (ERange lo hi) i [Leaf [c] i 1] (i + 1)
  | D_alt fm es e i ns j : In e es -> D e i ns j -> D (EAlt fm es) i ns j
  | D_cat_nil i : i <= length s -> D (ECat []) i [] i
  | D_cat_cons e es i j k n1 n2 : D e i n1 j -> D (ECat es) j n2 k -> D (ECat (e :: es)) i (n1 ++ n2) k
  | D_rep id mn mx e i j n ns : DI e n i ns j -> mn <= n -> (forall m, mx = Some m -> n <= m) ->
      D (ERep id mn mx e) i ns j
  | D_ref r ru d i j ns : G r = Some ru -> rdef ru = Some d -> D d i ns j ->
      D (ERef r) i [Nd (rname ru) ns] j
  with DI : expr -> nat -> nat -> list node -> nat -> Prop :=
  | DI_0 e i : i <= length s -> DI e 0 i [] i
  | DI_S e n i j k n1 n2 : D e i n1 j -> DI e n j n2 k -> DI e (S n) i (n1 ++ n2) k.
End Spec.

(* repeat bounds min <= max everywhere *)
Inductive WB : expr -> Prop :=
| WB_lit cs v : WB (ELit cs v)
| WB_range lo hi : WB (ERange lo hi)
| WB_alt fm es : Forall WB es -> WB (EAlt fm es)
| WB_cat es : Forall WB es -> WB (ECat es)
| WB_rep id mn mx e : (forall m, mx = Some m -> mn <= m) -> WB e -> WB (ERep id mn mx e)
| WB_prose : WB EProse
| WB_ref r : WB (ERef r).
Definition WBG (G : grammar) : Prop :=
  forall r ru d, G r = Some ru -> rdef ru = Some d -> WB d.

(* no first-match alternation inside an expression *)
Inductive NoFM : expr -> Prop :=
| NF_lit cs v : NoFM (ELit cs v)
| NF_range lo hi : NoFM (ERange lo hi)
| NF_alt es : Forall NoFM es -> NoFM (EAlt false es)
| NF_cat es : Forall NoFM es -> NoFM (ECat es)
| NF_rep id mn mx e : NoFM e -> NoFM (ERep id mn mx e)
| NF_prose : NoFM EProse
| NF_ref r : NoFM (ERef r).
Definition plain (G : grammar) : Prop :=
  forall r ru, G r = Some ru ->
    rexcl ru = None /\ (forall d, rdef ru = Some d -> NoFM d).

(* the set-order oracle is a permutation *)
Definition perm_oracle (sh : list mtch -> list mtch) : Prop :=
  forall l, Permutation (sh l) l.

(* ---- faithfulness of a tree to the text (C03) ---- *)
Fixpoint leaves (n : node) : list (str * nat * nat) :=
  match n with
  | Leaf v o l => [(v, o, l)]
  | Nd _ ch => flat_map leaves ch
  end.
Definition leaves_of (ns : list node) : list (str * nat * nat) := flat_map leaves ns.

(* the leaves, read left to right, start at i, are contiguous, each has length = |text|,
   each text is the source slice at its offset; returns the offset after the last leaf *)
Fixpoint tile (s : str) (i : nat) (ls : list (str * nat * nat)) : option nat :=
  match ls with
  | [] => Some i
  | (v, o, l) :: r =>
    if Nat.eqb o i && Nat.eqb l (length v) && str_eqb v (slice s o l) && Nat.leb (o + l) (length s)
    then tile s (i + l) r else None
  end.
Definition faithful (s : str) (i : nat) (ns : list node) (j : nat) : Prop :=
  tile s i (leaves_of ns) = Some j /\ nsvalue ns = slice s i (j - i) /\ i <= j /\ j <= length s.
