(* RenderProof2.v — the reader inverts every rendering of an expression:
   [read_render_alt], [read_render_elements].

   The reader's loop [alt_f] is cut into [elem_f] (one element) and [post] (what happens after a
   repetition has been read); the mutual induction over the six rendering relations is done in
   continuation style, the continuation being quantified over every sufficient fuel, so that no
   equation between different amounts of fuel is ever needed. *)
From Coq Require Import String Ascii List NArith Arith Bool Lia.
From ABNF Require Import Base AbnfRead RenderSpec RenderProof1.
Import ListNotations.

(* ------------------------------------------------------------------------------------------ *)
(** * The reader's loop, cut in two *)
Definition elem_f (f : nat) (s1 : str) : option (aexpr * str) :=
  match eat (ch "(") s1, eat (ch "[") s1 with
  | Some r, _ => match alt_f f [] [] (c_wsps f r) with
                 | Some (e, r1) => match eat (ch ")") r1 with Some r2 => Some (e, r2) | None => None end
                 | None => None
                 end
  | _, Some r => match alt_f f [] [] (c_wsps f r) with
                 | Some (e, r1) => match eat (ch "]") r1 with Some r2 => Some (AOpt e, r2) | None => None end
                 | None => None
                 end
  | None, None => terminal f s1
  end.
Definition post (f : nat) (alts cur : list aexpr) (s2 : str) : option (aexpr * str) :=
  let s3 := c_wsps f s2 in
  match eat (ch "/") s3 with
  | Some r => alt_f f (mk_cat cur :: alts) [] (c_wsps f r)
  | None => if starts_repetition s3 && is_some (c_wsp s2)
            then alt_f f alts cur s3
            else Some (mk_alt (mk_cat cur :: alts), s3)
  end.
Lemma alt_f_S f alts cur s : alt_f (S f) alts cur s =
  let (rp, s1) := read_repeat s in
  match elem_f f s1 with
  | Some (e, s2) => post f alts (with_repeat rp e :: cur) s2
  | None => None
  end.
Proof. reflexivity. Qed.

Lemma elem_f_term f (c : cp) (t : str) : c <> 40%N -> c <> 91%N -> elem_f f (c :: t) = terminal f (c :: t).
Proof.
  intros H1 H2. unfold elem_f. chs. cbn [eat].
  assert (E1 : is 40 c = false) by bool_cases.
  assert (E2 : is 91 c = false) by bool_cases.
  rewrite E1, E2. reflexivity.
Qed.
Lemma elem_f_group f (r : str) : elem_f f (40%N :: r) =
  match alt_f f [] [] (c_wsps f r) with
  | Some (e, r1) => match eat 41 r1 with Some r2 => Some (e, r2) | None => None end
  | None => None
  end.
Proof. reflexivity. Qed.
Lemma elem_f_option f (r : str) : elem_f f (91%N :: r) =
  match alt_f f [] [] (c_wsps f r) with
  | Some (e, r1) => match eat 93 r1 with Some r2 => Some (AOpt e, r2) | None => None end
  | None => None
  end.
Proof. reflexivity. Qed.

(* ------------------------------------------------------------------------------------------ *)
(** * First characters *)
Definition elemc (c : cp) : Prop := termc c \/ (c = 40 \/ c = 91)%N.
Definition repc (c : cp) : Prop := elemc c \/ DIGIT c \/ c = 42%N.
Definition starts (y : str) : Prop := exists c t, y = c :: t /\ repc c.

Lemma elem_head e s : renders_elem e s -> exists c t, s = c :: t /\ elemc c.
Proof.
  intros [e' s' H|e' w1 s' w2 _ _ _|e' w1 s' w2 _ _ _].
  - destruct (term_head _ _ H) as (c & t & E & Hc). exists c, t. split; [assumption|left; assumption].
  - do 2 eexists. split; [reflexivity|]. right; auto.
  - do 2 eexists. split; [reflexivity|]. right; auto.
Qed.
Lemma count_head n ds : r_count n ds -> exists c t, ds = c :: t /\ DIGIT c.
Proof.
  intros [k ds' [dvs ds'' Hne HF]]. destruct HF as [|d c dvs ds'' Hd HF]; [contradiction|].
  exists c, ds''. split; [reflexivity|].
  destruct Hd as [d' H1 H2|d' H1 H2 H3|d' H1 H2 H3]; unfold DIGIT; lia.
Qed.
Lemma repeat_head mn mx rp : r_repeat mn mx rp -> exists c t, rp = c :: t /\ (DIGIT c \/ c = 42%N).
Proof.
  intros [n ds Hn|a da b db Ha Hb|a da Ha|b db Hb|].
  - destruct (count_head _ _ Hn) as (c & t & -> & Hc). eauto.
  - destruct (count_head _ _ Ha) as (c & t & -> & Hc). exists c, (t ++ 42%N :: db). auto.
  - destruct (count_head _ _ Ha) as (c & t & -> & Hc). exists c, (t ++ [42%N]). auto.
  - eauto.
  - eauto.
Qed.
Lemma rep_head e s : renders_rep e s -> starts s.
Proof.
  intros [e' s' H|mn mx rp e' s' Hr H].
  - destruct (elem_head _ _ H) as (c & t & E & Hc). exists c, t. split; [assumption|left; assumption].
  - destruct (repeat_head _ _ _ Hr) as (c & t & -> & Hc). exists c, (t ++ s'). split; [reflexivity|right; assumption].
Qed.
Lemma starts_app (y z : str) : starts y -> starts (y ++ z).
Proof. intros (c & t & -> & Hc). exists c, (t ++ z). split; [reflexivity|assumption]. Qed.
Lemma cat_head e s : renders_cat e s -> starts s.
Proof.
  intros [e' s' H|e' s' es t H _ _]; [|apply starts_app]; exact (rep_head _ _ H).
Qed.
Lemma alt_head e s : renders_alt e s -> starts s.
Proof.
  intros [e' s' H|e' s' es t H _ _]; [|apply starts_app]; exact (cat_head _ _ H).
Qed.

Lemma termc_cases c : termc c -> ALPHA c \/ (c = 34 \/ c = 37 \/ c = 60)%N.
Proof. auto. Qed.

Lemma repc_starts c (t : str) : repc c -> starts_repetition (c :: t) = true.
Proof.
  unfold starts_repetition. chs.
  intros [[[H|[H|[H|H]]]|[H|H]]|[H|H]]; try (subst c; reflexivity).
  - rewrite (alpha_true c H), ?orb_true_r. reflexivity.
  - rewrite (proj2 (digit_iff c) H). reflexivity.
Qed.
Lemma repc_ne c : repc c -> c <> 32%N /\ c <> 9%N /\ c <> 59%N /\ c <> 13%N /\ c <> 47%N.
Proof.
  unfold repc, elemc, termc, ALPHA, DIGIT. intros H. lia.
Qed.
Lemma starts_cw y : starts y -> cw y = y.
Proof.
  intros (c & t & -> & Hc). apply cw_stop. destruct (repc_ne c Hc) as (?&?&?&?&?).
  apply c_wsp_none; assumption.
Qed.
Lemma starts_sr y : starts y -> starts_repetition y = true.
Proof. intros (c & t & -> & Hc). apply repc_starts. exact Hc. Qed.
Lemma starts_noslash y : starts y -> eat 47 y = None.
Proof.
  intros (c & t & -> & Hc). destruct (repc_ne c Hc) as (?&?&?&?&?). cbn [eat].
  assert (E : is 47 c = false) by bool_cases. rewrite E. reflexivity.
Qed.
Lemma starts_len y : starts y -> 1 <= length y.
Proof. intros (c & t & -> & Hc). cbn. lia. Qed.

Lemma elemc_norepeat c (t : str) : elemc c -> norepeat (c :: t).
Proof.
  intros H. split.
  - cbn [nodigit]. apply digit10_none. unfold elemc, termc, ALPHA, DIGIT in *. lia.
  - cbn [eat]. assert (E : is 42 c = false).
    { unfold elemc, termc, ALPHA in H. bool_cases. }
    rewrite E. reflexivity.
Qed.
Lemma termc_ne c : termc c -> c <> 40%N /\ c <> 91%N.
Proof. unfold termc, ALPHA. intros H. lia. Qed.

(* ------------------------------------------------------------------------------------------ *)
(** * Where a concatenation / an alternation ends *)
Definition endcat (x : str) : Prop := fol x /\ starts_repetition (cw x) = false.
Definition stop (x : str) : Prop :=
  fol x /\ starts_repetition (cw x) = false /\ eat 47 (cw x) = None.
Lemma stop_endcat x : stop x -> endcat x.
Proof. intros (H1 & H2 & _). split; assumption. Qed.

Lemma fol_cwsps_app (w : str) c (x : str) : r_cwsps w -> folc c -> fol (w ++ c :: x).
Proof.
  intros Hw Hc. destruct (cwsps_head w Hw) as [->|(h & t & -> & Hh)]; cbn; [assumption|].
  apply wsc_folc. exact Hh.
Qed.
Lemma stop_close (w : str) (c : cp) (x : str) : r_cwsps w -> (c = 41 \/ c = 93)%N -> stop (w ++ c :: x).
Proof.
  intros Hw Hc. split; [apply fol_cwsps_app; [exact Hw|unfold folc; lia]|].
  rewrite (cw_app w _ Hw).
  assert (E : cw (c :: x) = c :: x) by (apply cw_stop, c_wsp_none; lia).
  rewrite E. destruct Hc; subst c; split; reflexivity.
Qed.
Lemma stop_cwsps (w : str) : r_cwsps w -> stop w.
Proof.
  intros Hw. split.
  - destruct (cwsps_head w Hw) as [->|(h & t & -> & Hh)]; cbn; [trivial|]. apply wsc_folc. exact Hh.
  - rewrite <- (app_nil_r w), (cw_app w [] Hw). split; reflexivity.
Qed.

(* ------------------------------------------------------------------------------------------ *)
(** * [post] on the three things that can follow a repetition *)
Lemma post_end f alts cur (x : str) : stop x -> length x <= f ->
  post f alts cur x = Some (mk_alt (mk_cat cur :: alts), cw x).
Proof.
  intros (_ & H1 & H2) Hf. unfold post. rewrite (c_wsps_cw f x Hf). chs. cbv zeta.
  rewrite H2, H1. reflexivity.
Qed.
Lemma post_cat f alts cur (w y : str) : r_cwsps1 w -> starts y -> length (w ++ y) <= f ->
  post f alts cur (w ++ y) = alt_f f alts cur y.
Proof.
  intros Hw Hy Hf. unfold post. rewrite (c_wsps_cw f _ Hf), (cw_app w y (cwsps1_cwsps w Hw)), (starts_cw y Hy).
  chs. cbv zeta. rewrite (starts_noslash y Hy), (starts_sr y Hy), (c_wsp_app1 w y Hw). reflexivity.
Qed.
Lemma post_alt f alts cur (w1 w2 y : str) : r_cwsps w1 -> r_cwsps w2 -> starts y ->
  length (w1 ++ 47%N :: w2 ++ y) <= f ->
  post f alts cur (w1 ++ 47%N :: w2 ++ y) = alt_f f (mk_cat cur :: alts) [] y.
Proof.
  intros Hw1 Hw2 Hy Hf. unfold post. rewrite (c_wsps_cw f _ Hf), (cw_app w1 _ Hw1).
  assert (E : cw (47%N :: w2 ++ y) = 47%N :: w2 ++ y) by (apply cw_stop, c_wsp_none; lia).
  rewrite E. chs. cbv zeta. cbn [eat]. change (is 47 47) with true. cbv iota.
  rewrite c_wsps_cw, (cw_app w2 y Hw2), (starts_cw y Hy); [reflexivity|].
  rewrite app_length in Hf. cbn [length] in Hf. lia.
Qed.

Lemma mk_cat_many l : 2 <= length l -> mk_cat l = ACat (rev l).
Proof.
  destruct l as [|a [|b l]]; cbn [length]; try lia; intros _; unfold mk_cat; rewrite rev'_rev; reflexivity.
Qed.
Lemma mk_alt_many l : 2 <= length l -> mk_alt l = AAlt (rev l).
Proof.
  destruct l as [|a [|b l]]; cbn [length]; try lia; intros _; unfold mk_alt; rewrite rev'_rev; reflexivity.
Qed.

Lemma cat_tail_fol es t (x : str) : renders_cat_tail es t -> fol x -> fol (t ++ x).
Proof.
  intros [|w e s es' t' Hw _ _] Hx; [exact Hx|].
  destruct (cwsps1_head w Hw) as (h & r & -> & Hh). cbn. apply wsc_folc. exact Hh.
Qed.
Lemma alt_tail_endcat es t (x : str) : renders_alt_tail es t -> stop x -> endcat (t ++ x).
Proof.
  intros [|w1 w2 e s es' t' Hw1 Hw2 _ _] Hx; [apply stop_endcat; exact Hx|].
  rewrite <- app_assoc. cbn [app]. split.
  - apply fol_cwsps_app; [exact Hw1|unfold folc; lia].
  - rewrite (cw_app w1 _ Hw1).
    rewrite cw_stop by (apply c_wsp_none; lia). reflexivity.
Qed.

(* ------------------------------------------------------------------------------------------ *)
(** * The mutual induction *)
Definition P_elem (e : aexpr) (s : str) : Prop :=
  forall (x : str) f, fol x -> length (s ++ x) <= f -> elem_f f (s ++ x) = Some (e, x).
Definition P_rep (e : aexpr) (s : str) : Prop :=
  forall (x : str) f alts cur, fol x -> length (s ++ x) <= f ->
    alt_f (S f) alts cur (s ++ x) = post f alts (e :: cur) x.
Definition P_cat (e : aexpr) (s : str) : Prop :=
  forall (x : str) f alts res, endcat x -> length (s ++ x) <= f ->
    (forall cur f', mk_cat cur = e -> length x <= f' -> post f' alts cur x = res) ->
    alt_f (S f) alts [] (s ++ x) = res.
Definition P_cat_tail (es : list aexpr) (t : str) : Prop :=
  forall (x : str) f alts cur res, endcat x -> length (t ++ x) <= f ->
    (forall f', length x <= f' -> post f' alts (rev es ++ cur) x = res) ->
    post f alts cur (t ++ x) = res.
Definition P_alt (e : aexpr) (s : str) : Prop :=
  forall (x : str) f, stop x -> length (s ++ x) <= f ->
    alt_f (S f) [] [] (s ++ x) = Some (e, cw x).
Definition P_alt_tail (es : list aexpr) (t : str) : Prop :=
  forall (x : str) f alts cur, stop x -> length (t ++ x) <= f ->
    post f alts cur (t ++ x) = Some (mk_alt (rev es ++ mk_cat cur :: alts), cw x).

Lemma group_like (c1 c2 : cp) (wrap : aexpr -> aexpr) e (w1 s w2 : str) :
  (c2 = 41 \/ c2 = 93)%N ->
  (forall f (r : str), elem_f f (c1 :: r) =
     match alt_f f [] [] (c_wsps f r) with
     | Some (e, r1) => match eat c2 r1 with Some r2 => Some (wrap e, r2) | None => None end
     | None => None
     end) ->
  r_cwsps w1 -> renders_alt e s -> P_alt e s -> r_cwsps w2 ->
  P_elem (wrap e) (c1 :: w1 ++ s ++ w2 ++ [c2]).
Proof.
  intros Hc2 Hdisp Hw1 Hs IH Hw2 x f Hx Hf.
  cbn [app] in *. rewrite <- !app_assoc in *. cbn [app] in *.
  rewrite Hdisp. cbn [length] in Hf. destruct f as [|f]; [lia|].
  rewrite c_wsps_cw by lia.
  rewrite (cw_app w1 _ Hw1), (starts_cw _ (starts_app _ _ (alt_head _ _ Hs))).
  rewrite (IH (w2 ++ c2 :: x) f (stop_close w2 c2 x Hw2 Hc2)).
  - rewrite (cw_app w2 _ Hw2).
    assert (E : cw (c2 :: x) = c2 :: x) by (apply cw_stop, c_wsp_none; lia).
    rewrite E. cbn [eat]. unfold is. rewrite N.eqb_refl. reflexivity.
  - rewrite app_length in Hf. lia.
Qed.

Theorem renders_read :
  (forall e s, renders_elem e s -> P_elem e s) /\
  (forall e s, renders_rep e s -> P_rep e s) /\
  (forall e s, renders_cat e s -> P_cat e s) /\
  (forall es t, renders_cat_tail es t -> P_cat_tail es t) /\
  (forall e s, renders_alt e s -> P_alt e s) /\
  (forall es t, renders_alt_tail es t -> P_alt_tail es t).
Proof.
  apply renders_mutind.
  - (* RE_term *)
    intros e s H x f Hx Hf.
    destruct (term_head _ _ H) as (c & t & E & Hc). destruct (termc_ne c Hc) as [N1 N2].
    pose proof (terminal_spec e s H x f Hx Hf) as T. subst s. cbn [app] in *.
    rewrite (elem_f_term f c _ N1 N2). exact T.
  - (* RE_group *)
    intros e w1 s w2 Hw1 Hs IH Hw2.
    apply (group_like 40%N 41%N (fun e => e)); auto; intros f r; apply elem_f_group.
  - (* RE_option *)
    intros e w1 s w2 Hw1 Hs IH Hw2.
    apply (group_like 91%N 93%N AOpt); auto; intros f r; apply elem_f_option.
  - (* RP_plain *)
    intros e s H IH x f alts cur Hx Hf.
    destruct (elem_head _ _ H) as (c & t & E & Hc).
    rewrite alt_f_S.
    assert (R : read_repeat (s ++ x) = (None, s ++ x)).
    { subst s. cbn [app]. apply read_repeat_none, elemc_norepeat. exact Hc. }
    rewrite R, (IH x f Hx Hf). reflexivity.
  - (* RP_repeat *)
    intros mn mx rp e s Hr H IH x f alts cur Hx Hf.
    destruct (elem_head _ _ H) as (c & t & E & Hc).
    rewrite alt_f_S, <- app_assoc.
    assert (R : read_repeat (rp ++ s ++ x) = (Some (mn, mx), s ++ x)).
    { apply read_repeat_spec; [exact Hr|]. subst s. cbn [app]. apply elemc_norepeat. exact Hc. }
    rewrite R, (IH x f Hx); [reflexivity|].
    rewrite <- app_assoc, app_length in Hf. lia.
  - (* RC_one *)
    intros e s H IH x f alts res Hx Hf K.
    rewrite (IH x f alts [] (proj1 Hx) Hf). apply K; [reflexivity|].
    rewrite app_length in Hf. lia.
  - (* RC_many *)
    intros e s es t H IH Ht IHt Hne x f alts res Hx Hf K.
    rewrite <- app_assoc in *.
    rewrite (IH (t ++ x) f alts [] (cat_tail_fol es t x Ht (proj1 Hx)) Hf).
    apply (IHt x f alts [e] res Hx).
    + rewrite app_length in Hf. lia.
    + intros f' Hf'. apply K; [|exact Hf'].
      rewrite mk_cat_many.
      * rewrite rev_app_distr, rev_involutive. reflexivity.
      * rewrite app_length, rev_length. cbn [length]. destruct es; [contradiction|cbn [length]; lia].
  - (* RCT_nil *)
    intros x f alts cur res Hx Hf K. cbn [app rev] in *. apply K. exact Hf.
  - (* RCT_cons *)
    intros w e s es t Hw H IH Ht IHt x f alts cur res Hx Hf K.
    rewrite <- !app_assoc in *.
    rewrite (post_cat f alts cur w (s ++ t ++ x) Hw (starts_app _ _ (rep_head _ _ H)) Hf).
    destruct (cwsps1_head w Hw) as (h & r & E & _).
    assert (L : 1 <= length w) by (subst w; cbn; lia).
    rewrite app_length in Hf. destruct f as [|f]; [lia|].
    rewrite (IH (t ++ x) f alts cur (cat_tail_fol es t x Ht (proj1 Hx))) by lia.
    apply (IHt x f alts (e :: cur) res Hx).
    + rewrite app_length in Hf. lia.
    + intros f' Hf'. rewrite <- (K f' Hf'). cbn [rev]. rewrite <- app_assoc. reflexivity.
  - (* RA_one *)
    intros e s H IH x f Hx Hf.
    apply (IH x f [] (Some (e, cw x)) (stop_endcat x Hx) Hf).
    intros cur f' E Hf'. rewrite (post_end f' [] cur x Hx Hf'). cbn [mk_alt]. rewrite E. reflexivity.
  - (* RA_many *)
    intros e s es t H IH Ht IHt Hne x f Hx Hf.
    rewrite <- app_assoc in *.
    apply (IH (t ++ x) f [] _ (alt_tail_endcat es t x Ht Hx) Hf).
    intros cur f' E Hf'. rewrite (IHt x f' [] cur Hx Hf'). rewrite E.
    rewrite mk_alt_many.
    + rewrite rev_app_distr, rev_involutive. reflexivity.
    + rewrite app_length, rev_length. cbn [length]. destruct es; [contradiction|cbn [length]; lia].
  - (* RAT_nil *)
    intros x f alts cur Hx Hf. cbn [app rev] in *. apply post_end; assumption.
  - (* RAT_cons *)
    intros w1 w2 e s es t Hw1 Hw2 H IH Ht IHt x f alts cur Hx Hf.
    rewrite <- !app_assoc in *. cbn [app] in *. rewrite <- !app_assoc in *.
    rewrite post_alt; [|exact Hw1|exact Hw2|exact (starts_app _ _ (cat_head _ _ H))|exact Hf].
    rewrite app_length in Hf. cbn [length] in Hf. rewrite app_length in Hf.
    destruct f as [|f]; [lia|].
    apply (IH (t ++ x) f (mk_cat cur :: alts) _ (alt_tail_endcat es t x Ht Hx)); [lia|].
    intros cur' f' E Hf'. rewrite (IHt x f' (mk_cat cur :: alts) cur' Hx Hf'). rewrite E.
    cbn [rev]. rewrite <- app_assoc. reflexivity.
Qed.

(* ------------------------------------------------------------------------------------------ *)
(** * The entry point [read_elements] *)
(* an alternation followed by any text [x] at which an alternation must end *)
Theorem read_render_alt : forall e s (x : str), renders_alt e s -> stop x ->
  read_elements (s ++ x) = Some (e, cw x).
Proof.
  intros e s x H Hx. unfold read_elements.
  exact (proj1 (proj2 (proj2 (proj2 (proj2 renders_read)))) e s H x (length (s ++ x)) Hx (le_n _)).
Qed.

(* elements = alternation *c-wsp, the whole text *)
Theorem read_render_elements : forall e s, renders_elements e s -> read_elements s = Some (e, []).
Proof.
  intros e s [e' s' w H Hw]. rewrite (read_render_alt e' s' w H (stop_cwsps w Hw)).
  rewrite <- (app_nil_r w), (cw_app w [] Hw). reflexivity.
Qed.

(* the side condition [stop x] of [read_render_alt] cannot be dropped: "a" renders [ARef "a"], but
   followed by "b" the text denotes the rule "ab" (a rulename extends as far as it can), and
   followed by " c" it denotes a concatenation *)
Lemma read_render_alt_rest_refuted :
  renders_alt (ARef [97%N]) [97%N] /\
  read_elements ([97%N] ++ [98%N]) <> Some (ARef [97%N], cw [98%N]) /\
  read_elements ([97%N] ++ [32%N; 99%N]) <> Some (ARef [97%N], cw [32%N; 99%N]).
Proof.
  split; [|split; vm_compute; discriminate].
  apply RA_one, RC_one, RP_plain, RE_term, RT_ref. constructor; [unfold ALPHA; lia|constructor].
Qed.

Print Assumptions renders_read.
Print Assumptions read_render_alt.
Print Assumptions read_render_elements.
