(* EngineSem.v — the DENOTATION of the engine model and its equational semantics.
   [den sh G e s i j] : with some fuel, [lparse] answers [Ok ms] on (e, s, i) and j is the end of
   one of the matches.  It is fuel-independent (lparse_mono) and oracle-independent
   (lparse_oracle_indep).  On the valid domain (wf certificate, closed grammar, WB closed
   expression, i <= length s) — first-match flags and rule exclusions ALLOWED — [den] satisfies
   one equation per construct (the sem_ theorems), and these equations have exactly one solution (sem_unique).
   Structure: per-combinator characterisations of one [step] level with OPEN RECURSION against an
   abstract denotation [d] of [rec] (rec answers exactly d, is value-consistent, never Ok []),
   then instantiation at rec = lparse f, d = den, glued with lparse_answers. *)
From Coq Require Import List NArith Arith Bool Lia Permutation Wf_nat Setoid.
Import ListNotations.
From ABNF Require Import Base Engine Spec Wf Checks EngineSound EngineDet EngineComplete EngineTerm.

(* ------------------------------------------------------------------ *)
(* 0. definitions                                                       *)
(* ------------------------------------------------------------------ *)
Definition den (sh : list mtch -> list mtch) (G : grammar) (e : expr) (s : str) (i j : nat) : Prop :=
  exists f ms, lparse sh G f e s i = Ok ms /\ has ms j.

(* exactly n iterations of e, for an arbitrary denotation d *)
Fixpoint dI (d : expr -> str -> nat -> nat -> Prop) (e : expr) (n : nat) (s : str) (i k : nat) : Prop :=
  match n with
  | 0 => k = i
  | S n' => exists j, d e s i j /\ dI d e n' s j k
  end.

Definition denI (sh : list mtch -> list mtch) (G : grammar) (e : expr) (n : nat) (s : str)
           (i k : nat) : Prop := dI (den sh G) e n s i k.

Lemma denI_0 sh G e s i k : denI sh G e 0 s i k <-> k = i.
Proof. reflexivity. Qed.

Lemma denI_S sh G e n s i k :
  denI sh G e (S n) s i k <-> exists j, den sh G e s i j /\ denI sh G e n s j k.
Proof. reflexivity. Qed.

(* the elements of a Concatenation, one after the other *)
Fixpoint dcat (d : expr -> str -> nat -> nat -> Prop) (es : list expr) (s : str) (i k : nat) : Prop :=
  match es with
  | [] => k = i
  | e :: es' => exists j, d e s i j /\ dcat d es' s j k
  end.

(* first-match alternation: the ends of the first alternative that has any end *)
Definition FM (d : expr -> str -> nat -> nat -> Prop) (es : list expr) (s : str) (i j : nat) : Prop :=
  exists k e, nth_error es k = Some e /\ d e s i j /\
    forall k' e', k' < k -> nth_error es k' = Some e' -> forall j', ~ d e' s i j'.

(* an answer [r] denotes the set of ends [P] *)
Definition res_ok (r : res) (P : nat -> Prop) : Prop :=
  match r with
  | Ok ms => forall j, has ms j <-> P j
  | PErr => forall j, ~ P j
  | _ => True
  end.

(* ------------------------------------------------------------------ *)
(* 1. list facts                                                        *)
(* ------------------------------------------------------------------ *)
Lemma has_cons m l p : has (m :: l) p <-> mend m = p \/ has l p.
Proof.
  unfold has. split.
  - intros [x [[Hx|Hx] He]]; [left; subst x; exact He|right; exists x; split; assumption].
  - intros [He|[x [Hx He]]].
    + exists m. split; [left; reflexivity|exact He].
    + exists x. split; [right; exact Hx|exact He].
Qed.

Lemma has_one m p : has [m] p <-> mend m = p.
Proof.
  split.
  - intros H. destruct (proj1 (has_cons _ _ _) H) as [H1|H1]; [exact H1|destruct (has_nil _ H1)].
  - intros H. apply (proj2 (has_cons _ _ _)). left. exact H.
Qed.

Lemma has_ne l : l <> [] -> exists p, has l p.
Proof.
  destruct l as [|m l]; [congruence|]. intros _. exists (mend m). exists m.
  split; [left; reflexivity|reflexivity].
Qed.

(* sort_desc really sorts: the head has the largest end *)
Fixpoint desc (l : list mtch) : Prop :=
  match l with
  | [] => True
  | x :: r => (forall y, In y r -> mend y <= mend x) /\ desc r
  end.

Lemma ins_desc m : forall l, desc l -> desc (ins m l).
Proof.
  induction l as [|x l IH]; cbn [ins]; intros H.
  - cbn [desc]. split; [intros y []|exact I].
  - cbn [desc] in H. destruct H as [H1 H2].
    destruct (Nat.ltb_spec (mend x) (mend m)) as [L|L].
    + cbn [desc]. split; [|split; assumption].
      intros y [Hy|Hy]; [subst y; lia|]. specialize (H1 y Hy). lia.
    + cbn [desc]. split; [|apply IH; exact H2].
      intros y Hy. destruct (proj1 (EngineComplete.in_ins _ _ _) Hy) as [Hy'|Hy'].
      * subst y. exact L.
      * apply H1. exact Hy'.
Qed.

Lemma sort_desc_desc l : desc (sort_desc l).
Proof.
  unfold sort_desc.
  assert (H : forall acc, desc acc -> desc (fold_left (fun acc m => ins m acc) l acc)).
  { induction l as [|x l IH]; simpl; intros acc Ha; [exact Ha|]. apply IH. apply ins_desc. exact Ha. }
  apply H. exact I.
Qed.

Lemma desc_hd m0 l p : desc (m0 :: l) -> has (m0 :: l) p -> p <= mend m0.
Proof.
  cbn [desc]. intros [H1 _] [x [[Hx|Hx] He]].
  - subst x. lia.
  - specialize (H1 x Hx). lia.
Qed.

Lemma filter_excl_not_perr sh rec x : forall ms, filter_excl sh rec x ms <> PErr.
Proof.
  induction ms as [|m ms IH]; simpl; [discriminate|].
  destruct (excluded sh rec x m) as [b| |]; try discriminate.
  destruct (filter_excl sh rec x ms) as [r| | |]; try discriminate. exact IH.
Qed.

(* ------------------------------------------------------------------ *)
(* 2. iteration facts, for an arbitrary denotation                      *)
(* ------------------------------------------------------------------ *)
Section DI.
  Variable d : expr -> str -> nat -> nat -> Prop.

  Lemma dcat_repeat e s : forall n i k, dcat d (repeat e n) s i k <-> dI d e n s i k.
  Proof.
    induction n as [|n IH]; intros i k; simpl; [reflexivity|].
    split; intros [j [H1 H2]]; exists j; (split; [exact H1|]).
    - apply (proj1 (IH _ _)). exact H2.
    - apply (proj2 (IH _ _)). exact H2.
  Qed.

  Lemma dI_snoc e s : forall n i k, dI d e (S n) s i k <-> exists j, dI d e n s i j /\ d e s j k.
  Proof.
    induction n as [|n IH]; intros i k.
    - simpl. split.
      + intros [j [H1 H2]]. subst k. exists i. split; [reflexivity|exact H1].
      + intros [j [H1 H2]]. subst j. exists k. split; [exact H2|reflexivity].
    - change (dI d e (S (S n)) s i k) with (exists j, d e s i j /\ dI d e (S n) s j k). split.
      + intros [j [H1 H2]]. destruct (proj1 (IH _ _) H2) as [p [H3 H4]].
        exists p. split; [|exact H4]. simpl. exists j. split; assumption.
      + intros [p [H1 H2]]. simpl in H1. destruct H1 as [j [H3 H4]].
        exists j. split; [exact H3|]. apply (proj2 (IH _ _)). exists p. split; assumption.
  Qed.

  Lemma dI_split e s : forall a b i k,
    dI d e (a + b) s i k -> exists p, dI d e a s i p /\ dI d e b s p k.
  Proof.
    induction a as [|a IH]; intros b i k H; simpl in H.
    - exists i. split; [reflexivity|exact H].
    - destruct H as [j [H1 H2]]. destruct (IH _ _ _ H2) as [p [H3 H4]].
      exists p. split; [|exact H4]. simpl. exists j. split; assumption.
  Qed.

  Lemma dI_closed e s (P : nat -> Prop) : (forall p j, P p -> d e s p j -> P j) ->
    forall n p k, dI d e n s p k -> P p -> P k.
  Proof.
    intros Hcl. induction n as [|n IH]; simpl; intros p k H Hp.
    - subst k. exact Hp.
    - destruct H as [j [H1 H2]]. apply (IH j k H2). apply (Hcl p j Hp H1).
  Qed.
End DI.

(* ------------------------------------------------------------------ *)
(* 3. one level of the engine, open recursion                           *)
(* ------------------------------------------------------------------ *)
Section Open.
  Variable sh : list mtch -> list mtch.
  Hypothesis Hsh : perm_oracle sh.
  Variable G : grammar.
  Variable d : expr -> str -> nat -> nat -> Prop.
  Variable rec : expr -> str -> nat -> res.
  Hypothesis Hok : forall e s i, res_ok (rec e s i) (d e s i).
  Hypothesis Hvc : rec_vc rec.
  Hypothesis Hne : forall e s i ms, rec e s i = Ok ms -> ms <> [].

  (* ---- Alternation, first_match = False ---- *)
  Lemma alt_union_loop s i : forall es acc,
    match alt_loop rec false es s i acc with
    | Ok ms => forall j, has ms j <-> (has acc j \/ exists e, In e es /\ d e s i j)
    | PErr => acc = [] /\ forall e j, In e es -> ~ d e s i j
    | _ => True
    end.
  Proof.
    induction es as [|e es IH]; intros acc; simpl.
    - destruct acc as [|a acc'].
      + split; [reflexivity|]. intros e j [].
      + intros j. split; [intros H; left; exact H|].
        intros [H|[e [[] _]]]. exact H.
    - pose proof (Hok e s i) as Ho. unfold res_ok in Ho.
      destruct (rec e s i) as [ms| | |] eqn:Er; try exact I.
      + specialize (IH (acc ++ ms)).
        destruct (alt_loop rec false es s i (acc ++ ms)) as [out| | |] eqn:Ea; try exact I.
        * intros j. split.
          -- intros H. destruct (proj1 (IH j) H) as [H1|[e' [H1 H2]]].
             ++ destruct (proj1 (has_app _ _ _) H1) as [H2|H2]; [left; exact H2|].
                right. exists e. split; [left; reflexivity|]. apply (proj1 (Ho j)). exact H2.
             ++ right. exists e'. split; [right; exact H1|exact H2].
          -- intros [H|[e' [[H1|H1] H2]]]; apply (proj2 (IH j)).
             ++ left. apply (proj2 (has_app _ _ _)). left. exact H.
             ++ subst e'. left. apply (proj2 (has_app _ _ _)). right. apply (proj2 (Ho j)). exact H2.
             ++ right. exists e'. split; assumption.
        * destruct IH as [Hnil Hno]. apply app_eq_nil in Hnil. destruct Hnil as [Ha1 Ha2].
          subst acc ms. split; [reflexivity|]. intros e' j [H1|H1] H2.
          -- subst e'. exact (has_nil _ (proj2 (Ho j) H2)).
          -- exact (Hno e' j H1 H2).
      + specialize (IH acc).
        destruct (alt_loop rec false es s i acc) as [out| | |] eqn:Ea; try exact I.
        * intros j. split.
          -- intros H. destruct (proj1 (IH j) H) as [H1|[e' [H1 H2]]]; [left; exact H1|].
             right. exists e'. split; [right; exact H1|exact H2].
          -- intros [H|[e' [[H1|H1] H2]]]; apply (proj2 (IH j)).
             ++ left. exact H.
             ++ subst e'. destruct (Ho j H2).
             ++ right. exists e'. split; assumption.
        * destruct IH as [Hnil Hno]. split; [exact Hnil|]. intros e' j [H1|H1] H2.
          -- subst e'. exact (Ho j H2).
          -- exact (Hno e' j H1 H2).
  Qed.

  Lemma alt_union_spec es s i :
    res_ok (alt_loop rec false es s i []) (fun j => exists e, In e es /\ d e s i j).
  Proof.
    pose proof (alt_union_loop s i es []) as H. unfold res_ok.
    destruct (alt_loop rec false es s i []) as [out| | |]; try exact I.
    - intros j. split.
      + intros Hh. destruct (proj1 (H j) Hh) as [H1|H1]; [destruct (has_nil _ H1)|exact H1].
      + intros H1. apply (proj2 (H j)). right. exact H1.
    - destruct H as [_ Hno]. intros j [e [H1 H2]]. exact (Hno e j H1 H2).
  Qed.

  (* ---- Alternation, first_match = True ---- *)
  Lemma FM_nil s i j : ~ FM d [] s i j.
  Proof. intros (k & e & H & _). destruct k; discriminate. Qed.

  Lemma FM_hit e es s i : (exists j0, d e s i j0) -> forall j, FM d (e :: es) s i j <-> d e s i j.
  Proof.
    intros [j0 H0] j. split.
    - intros (k & e' & Hk & Hd & Hfirst). destruct k as [|k].
      + simpl in Hk. injection Hk as <-. exact Hd.
      + exfalso. apply (Hfirst 0 e (Nat.lt_0_succ k) eq_refl j0). exact H0.
    - intros Hd. exists 0, e. split; [reflexivity|]. split; [exact Hd|]. intros k' e' Hlt. lia.
  Qed.

  Lemma FM_miss e es s i : (forall j0, ~ d e s i j0) -> forall j, FM d (e :: es) s i j <-> FM d es s i j.
  Proof.
    intros Hno j. split.
    - intros (k & e' & Hk & Hd & Hfirst). destruct k as [|k].
      + simpl in Hk. injection Hk as <-. destruct (Hno j Hd).
      + exists k, e'. split; [exact Hk|]. split; [exact Hd|].
        intros k' e'' Hlt Hk'. apply (Hfirst (S k') e''); [lia|exact Hk'].
    - intros (k & e' & Hk & Hd & Hfirst). exists (S k), e'. split; [exact Hk|]. split; [exact Hd|].
      intros k' e'' Hlt Hk'. destruct k' as [|k'].
      + simpl in Hk'. injection Hk' as <-. exact Hno.
      + apply (Hfirst k' e''); [lia|exact Hk'].
  Qed.

  Lemma alt_fm_spec s i : forall es, res_ok (alt_loop rec true es s i []) (FM d es s i).
  Proof.
    induction es as [|e es IH]; simpl.
    - intros j. apply FM_nil.
    - pose proof (Hok e s i) as Ho. unfold res_ok in Ho.
      destruct (rec e s i) as [ms| | |] eqn:Er; try exact I.
      + simpl. destruct (has_ne ms (Hne _ _ _ _ Er)) as [j0 Hj0].
        assert (Hhit : exists j0, d e s i j0) by (exists j0; apply (proj1 (Ho j0)); exact Hj0).
        intros j. split.
        * intros H. apply (proj2 (FM_hit e es s i Hhit j)). apply (proj1 (Ho j)). exact H.
        * intros H. apply (proj2 (Ho j)). apply (proj1 (FM_hit e es s i Hhit j)). exact H.
      + unfold res_ok in IH. destruct (alt_loop rec true es s i []) as [out| | |]; try exact I.
        * simpl. intros j. split.
          -- intros H. apply (proj2 (FM_miss e es s i Ho j)). apply (proj1 (IH j)). exact H.
          -- intros H. apply (proj2 (IH j)). apply (proj1 (FM_miss e es s i Ho j)). exact H.
        * simpl. intros j H. apply (IH j). apply (proj1 (FM_miss e es s i Ho j)). exact H.
  Qed.

  (* ---- one layer ---- *)
  Lemma extend_spec e s : forall ms out, extend rec e s ms = Ok out ->
    forall j, has out j <-> exists p, has ms p /\ d e s p j.
  Proof.
    induction ms as [|m ms IH]; simpl; intros out H j.
    - injection H as <-. split.
      + intros Hh. destruct (has_nil _ Hh).
      + intros [p [Hp _]]. destruct (has_nil _ Hp).
    - pose proof (Hok e s (mend m)) as Ho. unfold res_ok in Ho.
      destruct (rec e s (mend m)) as [xs| | |] eqn:Er; try discriminate.
      + destruct (extend rec e s ms) as [ys| | |] eqn:Ex; try discriminate.
        injection H as <-. specialize (IH ys eq_refl j). split.
        * intros Hh. destruct (proj1 (has_app _ _ _) Hh) as [H1|H1].
          -- apply (proj1 (has_map (fun x => mk (nodes m ++ nodes x) (mend x)) _ _ (fun x => eq_refl))) in H1.
             exists (mend m). split; [apply (proj2 (has_cons _ _ _)); left; reflexivity|].
             apply (proj1 (Ho j)). exact H1.
          -- destruct (proj1 IH H1) as [p [Hp Hd]]. exists p.
             split; [apply (proj2 (has_cons _ _ _)); right; exact Hp|exact Hd].
        * intros [p [Hp Hd]]. apply (proj2 (has_app _ _ _)).
          destruct (proj1 (has_cons _ _ _) Hp) as [Hp'|Hp'].
          -- subst p. left. apply (proj2 (has_map (fun x => mk (nodes m ++ nodes x) (mend x)) _ _ (fun x => eq_refl))).
             apply (proj2 (Ho j)). exact Hd.
          -- right. apply (proj2 IH). exists p. split; assumption.
      + specialize (IH out H j). split.
        * intros Hh. destruct (proj1 IH Hh) as [p [Hp Hd]]. exists p.
          split; [apply (proj2 (has_cons _ _ _)); right; exact Hp|exact Hd].
        * intros [p [Hp Hd]]. destruct (proj1 (has_cons _ _ _) Hp) as [Hp'|Hp'].
          -- subst p. destruct (Ho j Hd).
          -- apply (proj2 IH). exists p. split; assumption.
  Qed.

  (* ---- Concatenation ---- *)
  Lemma cat_loop_spec s : forall es cur,
    match cat_loop rec es s cur with
    | Ok out => forall k, has out k <-> exists p, has cur p /\ dcat d es s p k
    | PErr => forall p k, has cur p -> ~ dcat d es s p k
    | _ => True
    end.
  Proof.
    induction es as [|e es IH]; intros cur; simpl.
    - intros k. split.
      + intros H. exists k. split; [exact H|reflexivity].
      + intros [p [Hp Hk]]. subst k. exact Hp.
    - destruct (extend rec e s cur) as [nxt| | |] eqn:Ex; try exact I.
      + pose proof (extend_spec e s cur nxt Ex) as Hx.
        destruct nxt as [|m1 nxt'].
        * intros p k Hp [j [H1 H2]].
          apply (has_nil j). apply (proj2 (Hx j)). exists p. split; assumption.
        * specialize (IH (m1 :: nxt')).
          destruct (cat_loop rec es s (m1 :: nxt')) as [out| | |]; try exact I.
          -- intros k. split.
             ++ intros H. destruct (proj1 (IH k) H) as [j [Hj Hc]].
                destruct (proj1 (Hx j) Hj) as [p [Hp Hd]].
                exists p. split; [exact Hp|]. exists j. split; assumption.
             ++ intros [p [Hp [j [Hd Hc]]]]. apply (proj2 (IH k)). exists j. split; [|exact Hc].
                apply (proj2 (Hx j)). exists p. split; assumption.
          -- intros p k Hp [j [Hd Hc]]. apply (IH j k); [|exact Hc].
             apply (proj2 (Hx j)). exists p. split; assumption.
      + exfalso. exact (extend_not_perr rec e s cur Ex).
  Qed.

  Lemma cat_spec es s i : res_ok (cat rec es s i) (dcat d es s i).
  Proof.
    pose proof (cat_loop_spec s es [mk [] i]) as H. unfold cat, res_ok.
    assert (Hi : has [mk [] i] i) by (apply (proj2 (has_one _ _)); reflexivity).
    destruct (cat_loop rec es s [mk [] i]) as [out| | |]; try exact I.
    - intros k. split.
      + intros Hh. apply (proj1 (has_sort _ _)) in Hh. destruct (proj1 (H k) Hh) as [p [Hp Hc]].
        apply (proj1 (has_one _ _)) in Hp. simpl in Hp. subst p. exact Hc.
      + intros Hc. apply (proj2 (has_sort _ _)). apply (proj2 (H k)). exists i. split; assumption.
    - intros k Hc. exact (H i k Hi Hc).
  Qed.

  (* ---- Repetition ---- *)
  Section Loop.
    Variables (e : expr) (s : str) (i mn : nat).

    Definition lemx (mx : option nat) (n : nat) : Prop := forall m, mx = Some m -> n <= m.

    Definition inv (mx : option nat) (count : nat) (mset last : list mtch) : Prop :=
      (forall j, has mset j -> exists n, mn <= n <= count /\ dI d e n s i j) /\
      (forall j, has last j <-> dI d e count s i j) /\
      (forall n j, mn <= n <= count -> dI d e n s i j -> has mset j) /\
      (forall p, has mset p -> has last p \/ forall j, d e s p j -> has mset j) /\
      mn <= count /\ lemx mx count.

    Lemma rep_loop_spec mx : forall k count mset last, inv mx count mset last ->
      match rep_loop sh rec k e mx s count mset last with
      | Ok out => forall j, has out j <-> exists n, mn <= n /\ lemx mx n /\ dI d e n s i j
      | PErr => False
      | _ => True
      end.
    Proof.
      induction k as [|k IH]; intros count mset last Hinv; cbn [rep_loop]; [exact I|].
      destruct Hinv as (Hs & Hlast & Hset & Hfront & Hmn & Hmx).
      assert (Hsound : forall j, has mset j -> exists n, mn <= n /\ lemx mx n /\ dI d e n s i j).
      { intros j Hj. destruct (Hs j Hj) as [n [Hn Hd]]. exists n. split; [lia|]. split; [|exact Hd].
        intros m Em. specialize (Hmx m Em). lia. }
      destruct (match mx with Some m => Nat.eqb count m | None => false end) eqn:Hstop.
      - (* reached max *)
        intros j. split.
        + intros H. apply Hsound. apply (proj1 (has_next_longest sh Hsh _ _)). exact H.
        + intros [n [Hn [Hle Hd]]]. apply (proj2 (has_next_longest sh Hsh _ _)).
          destruct mx as [m|]; [|discriminate]. apply Nat.eqb_eq in Hstop. subst m.
          apply (Hset n j); [|exact Hd]. specialize (Hle _ eq_refl). lia.
      - destruct (extend rec e s (sort_desc (sh last))) as [new| | |] eqn:Ex; try exact I.
        + cbv zeta.
          assert (Hnew : forall j, has (set_of new) j <-> exists p, has last p /\ d e s p j).
          { intros j. split.
            - intros H. apply (proj1 (has_set_of _ _)) in H.
              destruct (proj1 (extend_spec e s _ _ Ex j) H) as [p [Hp Hd]].
              exists p. split; [|exact Hd].
              apply (proj1 (has_sh sh Hsh _ _)). apply (proj1 (has_sort _ _)). exact Hp.
            - intros [p [Hp Hd]]. apply (proj2 (has_set_of _ _)).
              apply (proj2 (extend_spec e s _ _ Ex j)). exists p. split; [|exact Hd].
              apply (proj2 (has_sort _ _)). apply (proj2 (has_sh sh Hsh _ _)). exact Hp. }
          assert (Hnext : forall j, has (set_of new) j <-> dI d e (S count) s i j).
          { intros j. split.
            - intros H. destruct (proj1 (Hnew j) H) as [p [Hp Hd]].
              apply (proj2 (dI_snoc d e s count i j)). exists p.
              split; [apply (proj1 (Hlast p)); exact Hp|exact Hd].
            - intros H. destruct (proj1 (dI_snoc d e s count i j) H) as [p [Hp Hd]].
              apply (proj2 (Hnew j)). exists p. split; [apply (proj2 (Hlast p)); exact Hp|exact Hd]. }
          destruct (subset (set_of new) mset) eqn:Hsub.
          * (* fixpoint reached *)
            intros j. split.
            -- intros H. apply Hsound. apply (proj1 (has_next_longest sh Hsh _ _)). exact H.
            -- intros [n [Hn [Hle Hd]]]. apply (proj2 (has_next_longest sh Hsh _ _)).
               assert (Hcl : forall p q, has mset p -> d e s p q -> has mset q).
               { intros p q Hp Hq. destruct (Hfront p Hp) as [Hl|Hall].
                 - apply (subset_has _ _ Hsub). apply (proj2 (Hnew q)). exists p. split; assumption.
                 - apply Hall. exact Hq. }
               replace n with (mn + (n - mn)) in Hd by lia.
               destruct (dI_split d e s _ _ _ _ Hd) as [p [H1 H2]].
               apply (dI_closed d e s (has mset) Hcl _ _ _ H2).
               apply (Hset mn p); [lia|exact H1].
          * apply IH. unfold inv. split; [|split; [|split; [|split; [|split]]]].
            -- intros j H. destruct (proj1 (has_union _ _ _) H) as [H1|H1].
               ++ destruct (Hs j H1) as [n [Hn Hd]]. exists n. split; [lia|exact Hd].
               ++ exists (S count). split; [lia|]. apply (proj1 (Hnext j)).
                  apply (proj1 (has_sh sh Hsh _ _)). exact H1.
            -- exact Hnext.
            -- intros n j Hn Hd. apply (proj2 (has_union _ _ _)).
               destruct (Nat.eq_dec n (S count)) as [En|Hneq].
               ++ subst n. right. apply (proj2 (has_sh sh Hsh _ _)). apply (proj2 (Hnext j)). exact Hd.
               ++ left. apply (Hset n j); [lia|exact Hd].
            -- intros p Hp. destruct (proj1 (has_union _ _ _) Hp) as [Hp'|Hp'].
               ++ right. intros j Hd. apply (proj2 (has_union _ _ _)).
                  destruct (Hfront p Hp') as [Hl|Hall].
                  ** right. apply (proj2 (has_sh sh Hsh _ _)). apply (proj2 (Hnew j)).
                     exists p. split; assumption.
                  ** left. apply Hall. exact Hd.
               ++ left. apply (proj1 (has_sh sh Hsh _ _)). exact Hp'.
            -- lia.
            -- intros m Em. specialize (Hmx m Em). subst mx. apply Nat.eqb_neq in Hstop. lia.
        + exact (extend_not_perr rec e s _ Ex).
    Qed.
  End Loop.

  Lemma rep_spec k mn mx e s i : (forall m, mx = Some m -> mn <= m) ->
    res_ok (rep sh rec k mn mx e s i)
           (fun j => exists n, mn <= n /\ (forall m, mx = Some m -> n <= m) /\ dI d e n s i j).
  Proof.
    intros Hb. unfold rep. destruct mn as [|m].
    - assert (Hinv : inv e s i 0 mx 0 [mk [] i] [mk [] i]).
      { unfold inv. split; [|split; [|split; [|split; [|split]]]].
        - intros j H. apply (proj1 (has_one _ _)) in H. simpl in H. exists 0.
          split; [lia|]. simpl. symmetry. exact H.
        - intros j. simpl. split.
          + intros H. apply (proj1 (has_one _ _)) in H. simpl in H. symmetry. exact H.
          + intros H. apply (proj2 (has_one _ _)). simpl. symmetry. exact H.
        - intros n j Hn Hd. assert (En : n = 0) by lia. subst n. simpl in Hd.
          apply (proj2 (has_one _ _)). simpl. symmetry. exact Hd.
        - intros p Hp. left. exact Hp.
        - lia.
        - intros m Em. lia. }
      pose proof (rep_loop_spec e s i 0 mx k 0 _ _ Hinv) as Hc. unfold res_ok.
      destruct (rep_loop sh rec k e mx s 0 [mk [] i] [mk [] i]) as [out| | |]; try exact I.
      + exact Hc.
      + destruct Hc.
    - pose proof (cat_spec (repeat e (S m)) s i) as Hcat. unfold res_ok in Hcat.
      cbv beta match.
      destruct (cat rec (repeat e (S m)) s i) as [ms| | |] eqn:Ec; unfold res_ok; try exact I.
      + cbv zeta.
        assert (Hms : forall j, has ms j <-> dI d e (S m) s i j).
        { intros j. split.
          - intros H. apply (proj1 (dcat_repeat d e s (S m) i j)). apply (proj1 (Hcat j)). exact H.
          - intros H. apply (proj2 (Hcat j)). apply (proj2 (dcat_repeat d e s (S m) i j)). exact H. }
        assert (Hinv : inv e s i (S m) mx (S m) (set_of ms) (set_of (sh (set_of ms)))).
        { unfold inv. split; [|split; [|split; [|split; [|split]]]].
          - intros j H. exists (S m). split; [lia|]. apply (proj1 (Hms j)).
            apply (proj1 (has_set_of _ _)). exact H.
          - intros j. split.
            + intros H. apply (proj1 (Hms j)). apply (proj1 (has_set_of _ _)).
              apply (proj1 (has_sh sh Hsh _ _)). apply (proj1 (has_set_of _ _)). exact H.
            + intros H. apply (proj2 (has_set_of _ _)). apply (proj2 (has_sh sh Hsh _ _)).
              apply (proj2 (has_set_of _ _)). apply (proj2 (Hms j)). exact H.
          - intros n j Hn Hd. assert (En : n = S m) by lia. subst n.
            apply (proj2 (has_set_of _ _)). apply (proj2 (Hms j)). exact Hd.
          - intros p Hp. left. apply (proj2 (has_set_of _ _)). apply (proj2 (has_sh sh Hsh _ _)).
            exact Hp.
          - lia.
          - exact Hb. }
        pose proof (rep_loop_spec e s i (S m) mx k (S m) _ _ Hinv) as Hc.
        destruct (rep_loop sh rec k e mx s (S m) (set_of ms) (set_of (sh (set_of ms))))
          as [out| | |]; try exact I.
        * exact Hc.
        * destruct Hc.
      + intros j [n [Hn [Hle Hd]]].
        replace n with (S m + (n - S m)) in Hd by lia.
        destruct (dI_split d e s _ _ _ _ Hd) as [p [H1 H2]].
        apply (Hcat p). apply (proj2 (dcat_repeat d e s (S m) i p)). exact H1.
  Qed.

  (* ---- Rule reference with exclusion ---- *)
  Lemma excluded_spec x m :
    match excluded sh rec x m with
    | XB b => b = true <->
              exists r, x = Some r /\
                d (ERef r) (nsvalue (nodes m)) 0 (length (nsvalue (nodes m)))
    | _ => True
    end.
  Proof.
    unfold excluded. destruct x as [r|].
    2:{ split; [discriminate|]. intros (r & Er & _). discriminate. }
    cbv zeta. set (t := nsvalue (nodes m)).
    pose proof (Hok (ERef r) t 0) as Ho. unfold res_ok in Ho.
    destruct (rec (ERef r) t 0) as [ms| | |] eqn:Er; try exact I.
    - pose proof (Hvc _ _ _ _ Er (Nat.le_0_l _)) as Hv.
      destruct (next_longest sh (set_of ms)) as [|m0 rest] eqn:En.
      + split; [discriminate|]. intros (r' & Er' & Hd). injection Er' as Er'. subst r'.
        exfalso. apply (has_nil (length t)). rewrite <- En.
        apply (proj2 (has_next_longest sh Hsh _ _)). apply (proj2 (has_set_of _ _)).
        apply (proj2 (Ho _)). exact Hd.
      + assert (Hd0 : desc (m0 :: rest)).
        { rewrite <- En. unfold next_longest. apply sort_desc_desc. }
        assert (Hin : In m0 ms).
        { apply EngineSound.in_set_of. apply (proj1 (EngineSound.in_sh sh Hsh _ _)).
          apply (proj1 (EngineComplete.in_sort_desc _ _)).
          unfold next_longest in En. rewrite En. left. reflexivity. }
        destruct (proj1 (Forall_forall _ _) Hv m0 Hin) as (_ & B & _).
        split.
        * intros Hb. exists r. split; [reflexivity|]. apply (proj1 (Ho _)).
          exists m0. split; [exact Hin|].
          apply negb_true_iff in Hb. apply Nat.ltb_ge in Hb. lia.
        * intros (r' & Er' & Hd). injection Er' as Er'. subst r'.
          apply negb_true_iff. apply Nat.ltb_ge.
          apply (desc_hd m0 rest _ Hd0). rewrite <- En.
          apply (proj2 (has_next_longest sh Hsh _ _)). apply (proj2 (has_set_of _ _)).
          apply (proj2 (Ho _)). exact Hd.
    - split; [discriminate|]. intros (r' & Er' & Hd). injection Er' as Er'. subst r'.
      destruct (Ho _ Hd).
  Qed.

  Lemma filter_excl_spec x s i : forall ms out, Forall (vc s i) ms ->
    filter_excl sh rec x ms = Ok out ->
    forall j, has out j <->
      (has ms j /\ forall r, x = Some r -> ~ d (ERef r) (slice s i (j - i)) 0 (j - i)).
  Proof.
    induction ms as [|m ms IH]; simpl; intros out Hv H j.
    - injection H as <-. split.
      + intros Hh. destruct (has_nil _ Hh).
      + intros [Hh _]. destruct (has_nil _ Hh).
    - inversion Hv as [|? ? Hm Hms]; subst.
      pose proof (excluded_spec x m) as Hx.
      destruct (excluded sh rec x m) as [b| |] eqn:Ex; try discriminate.
      destruct (filter_excl sh rec x ms) as [r0| | |] eqn:Ef; try discriminate.
      injection H as <-. specialize (IH r0 Hms eq_refl j).
      destruct Hm as (A & B & C). rewrite C in Hx.
      assert (L : length (slice s i (mend m - i)) = mend m - i)
        by (apply EngineSound.slice_length; lia).
      rewrite L in Hx.
      destruct b.
      + split.
        * intros Hh. destruct (proj1 IH Hh) as [H1 H2].
          split; [apply (proj2 (has_cons _ _ _)); right; exact H1|exact H2].
        * intros [Hh Hn]. apply (proj2 IH). split; [|exact Hn].
          destruct (proj1 (has_cons _ _ _) Hh) as [Hh'|Hh']; [|exact Hh'].
          exfalso. subst j. destruct (proj1 Hx eq_refl) as (r & Er & Hd). exact (Hn r Er Hd).
      + split.
        * intros Hh. destruct (proj1 (has_cons _ _ _) Hh) as [Hh'|Hh'].
          -- subst j. split; [apply (proj2 (has_cons _ _ _)); left; reflexivity|].
             intros r Er Hd. assert (Hft : false = true).
             { apply (proj2 Hx). exists r. split; assumption. }
             discriminate.
          -- destruct (proj1 IH Hh') as [H1 H2].
             split; [apply (proj2 (has_cons _ _ _)); right; exact H1|exact H2].
        * intros [Hh Hn]. apply (proj2 (has_cons _ _ _)).
          destruct (proj1 (has_cons _ _ _) Hh) as [Hh'|Hh']; [left; exact Hh'|].
          right. apply (proj2 IH). split; assumption.
  Qed.

  Lemma ref_spec r ru dd s i : i <= length s -> G r = Some ru -> rdef ru = Some dd ->
    res_ok (ref sh G rec r s i)
           (fun j => d dd s i j /\
                     forall x, rexcl ru = Some x -> ~ d (ERef x) (slice s i (j - i)) 0 (j - i)).
  Proof.
    intros Hi Er Ed. unfold ref. rewrite Er, Ed.
    pose proof (Hok dd s i) as Ho. unfold res_ok in Ho.
    destruct (rec dd s i) as [ms| | |] eqn:E; unfold res_ok; try exact I.
    - pose proof (Hvc _ _ _ _ E Hi) as Hv.
      destruct (filter_excl sh rec (rexcl ru) ms) as [ms'| | |] eqn:Ef; try exact I.
      + pose proof (filter_excl_spec (rexcl ru) s i ms ms' Hv Ef) as Hf.
        destruct (set_of ms') as [|z st] eqn:Es.
        * intros j [H1 H2]. apply (has_nil j). rewrite <- Es. apply (proj2 (has_set_of _ _)).
          apply (proj2 (Hf j)). split; [apply (proj2 (Ho j)); exact H1|exact H2].
        * intros j. split.
          -- intros H. apply (proj1 (has_map (fun m => mk [Nd (rname ru) (nodes m)] (mend m)) _ _ (fun x => eq_refl))) in H.
             apply (proj1 (has_sort _ _)) in H. apply (proj1 (has_sh sh Hsh _ _)) in H.
             rewrite <- Es in H. apply (proj1 (has_set_of _ _)) in H.
             destruct (proj1 (Hf j) H) as [H1 H2]. split; [apply (proj1 (Ho j)); exact H1|exact H2].
          -- intros [H1 H2]. apply (proj2 (has_map (fun m => mk [Nd (rname ru) (nodes m)] (mend m)) _ _ (fun x => eq_refl))).
             apply (proj2 (has_sort _ _)). apply (proj2 (has_sh sh Hsh _ _)).
             rewrite <- Es. apply (proj2 (has_set_of _ _)).
             apply (proj2 (Hf j)). split; [apply (proj2 (Ho j)); exact H1|exact H2].
      + destruct (filter_excl_not_perr sh rec _ _ Ef).
    - intros j [H1 _]. exact (Ho j H1).
  Qed.
End Open.

(* ------------------------------------------------------------------ *)
(* 4. the denotation is what every fuel answers; oracle independence    *)
(* ------------------------------------------------------------------ *)
Lemma den_res sh G f e s i : res_ok (lparse sh G f e s i) (den sh G e s i).
Proof.
  unfold res_ok. destruct (lparse sh G f e s i) as [ms| | |] eqn:E; try exact I.
  - intros j. split.
    + intros H. exists f, ms. split; assumption.
    + intros (f' & ms' & E' & H).
      assert (A : lparse sh G (Nat.max f f') e s i = Ok ms).
      { apply (lparse_mono sh G f (Nat.max f f') e s i _ E); [discriminate|lia]. }
      assert (B : lparse sh G (Nat.max f f') e s i = Ok ms').
      { apply (lparse_mono sh G f' (Nat.max f f') e s i _ E'); [discriminate|lia]. }
      rewrite A in B. injection B as B. subst ms'. exact H.
  - intros j (f' & ms' & E' & H).
    assert (A : lparse sh G (Nat.max f f') e s i = PErr).
    { apply (lparse_mono sh G f (Nat.max f f') e s i _ E); [discriminate|lia]. }
    assert (B : lparse sh G (Nat.max f f') e s i = Ok ms').
    { apply (lparse_mono sh G f' (Nat.max f f') e s i _ E'); [discriminate|lia]. }
    rewrite A in B. discriminate.
Qed.

(* determinacy: whatever fuel answers, the answer is the denotation *)
Theorem den_ok sh G f e s i ms j : lparse sh G f e s i = Ok ms -> (den sh G e s i j <-> has ms j).
Proof.
  intros E. pose proof (den_res sh G f e s i) as H. rewrite E in H. simpl in H.
  split; intros H0; [apply (proj2 (H j))|apply (proj1 (H j))]; exact H0.
Qed.

Theorem den_perr sh G f e s i j : lparse sh G f e s i = PErr -> ~ den sh G e s i j.
Proof.
  intros E. pose proof (den_res sh G f e s i) as H. rewrite E in H. simpl in H. exact (H j).
Qed.

Lemma den_bounds sh G e s i j : perm_oracle sh -> i <= length s -> den sh G e s i j ->
  i <= j /\ j <= length s.
Proof.
  intros Hsh Hi (f & ms & E & m & Hm & Ej).
  destruct (lparse_vc sh G Hsh f e s i ms E Hi m Hm) as (A & B & _). lia.
Qed.

Theorem den_oracle_indep sh1 sh2 G e s i j : perm_oracle sh1 -> perm_oracle sh2 -> i <= length s ->
  (den sh1 G e s i j <-> den sh2 G e s i j).
Proof.
  intros H1 H2 Hi. split; intros (f & ms & E & H); exists f, ms; (split; [|exact H]).
  - rewrite <- (lparse_oracle_indep sh1 sh2 G H1 H2 f e s i Hi). exact E.
  - rewrite (lparse_oracle_indep sh1 sh2 G H1 H2 f e s i Hi). exact E.
Qed.

(* literals: against the specification [M], through the existing per-combinator lemmas *)
Lemma lit_spec cs v s i : res_ok (lit cs v s i) (fun j => lit_ok s cs v i /\ j = i + length v).
Proof.
  pose (G0 := (fun _ => None) : grammar).
  pose proof (lit_complete G0 cs v s i) as Hc. unfold comp_res in Hc.
  pose proof (EngineSound.litD G0 cs v s i) as Hs. unfold res_ok.
  destruct (lit cs v s i) as [ms| | |]; try exact I.
  - intros j. split.
    + intros [m [Hm Ej]]. pose proof (Hs ms eq_refl m Hm) as HD.
      apply D_M in HD. inversion HD as [cs0 v0 i0 Hl| | | | | |]; subst. split; [exact Hl|congruence].
    + intros [Hl Ej]. subst j. apply Hc. apply M_lit. exact Hl.
  - intros j [Hl Ej]. subst j. apply (Hc (i + length v)). apply M_lit. exact Hl.
Qed.

Lemma range_spec lo hi s i :
  res_ok (range lo hi s i)
         (fun j => exists c, nth_error s i = Some c /\ (lo <= c)%N /\ (c <= hi)%N /\ j = i + 1).
Proof.
  pose (G0 := (fun _ => None) : grammar).
  pose proof (range_complete G0 lo hi s i) as Hc. unfold comp_res in Hc.
  pose proof (EngineSound.rangeD G0 lo hi s i) as Hs. unfold res_ok.
  destruct (range lo hi s i) as [ms| | |]; try exact I.
  - intros j. split.
    + intros [m [Hm Ej]]. pose proof (Hs ms eq_refl m Hm) as HD.
      apply D_M in HD. inversion HD as [|lo0 hi0 i0 c Hn Hlo Hhi| | | | |]; subst.
      exists c. split; [exact Hn|]. split; [exact Hlo|]. split; [exact Hhi|congruence].
    + intros (c & Hn & Hlo & Hhi & Ej). subst j. apply Hc. eapply M_range; eassumption.
  - intros j (c & Hn & Hlo & Hhi & Ej). subst j. apply (Hc (i + 1)). eapply M_range; eassumption.
Qed.

(* ------------------------------------------------------------------ *)
(* 5. the equations of the denotation on the valid domain               *)
(* ------------------------------------------------------------------ *)
Section Sem.
  Variable sh : list mtch -> list mtch.
  Hypothesis Hsh : perm_oracle sh.
  Variable nul : rid -> bool.
  Variable rank : rid -> nat.
  Variable G : grammar.
  Hypothesis Hwf : wf nul rank G.
  Hypothesis Hcl : closed G.

  Lemma den_char e s i (P : nat -> Prop) : WB e -> closed_expr G e -> i <= length s ->
    (forall f, res_ok (lparse sh G (S f) e s i) P) -> forall j, den sh G e s i j <-> P j.
  Proof.
    intros Hwb Hce Hi HP j.
    destruct (lparse_answers sh nul rank G Hsh Hwf Hcl e s i Hwb Hce Hi) as [f Hf].
    specialize (Hf (S f) (Nat.le_succ_diag_r f)). specialize (HP f).
    pose proof (den_res sh G (S f) e s i) as Hd.
    destruct Hf as [E|[ms [E _]]]; rewrite E in HP, Hd; simpl in HP, Hd.
    - split; intros H; exfalso; [exact (Hd j H)|exact (HP j H)].
    - split; intros H.
      + apply (proj1 (HP j)). apply (proj2 (Hd j)). exact H.
      + apply (proj1 (Hd j)). apply (proj2 (HP j)). exact H.
  Qed.

  Ltac inst f :=
    first [ exact (fun e s i => den_res sh G f e s i)
          | exact (lparse_rec_vc sh G Hsh f)
          | exact (EngineSound.lparse_nonempty sh G Hsh f)
          | exact Hsh
          | assumption ].

  (* first-match ON: exactly the ends of the first alternative that has any match *)
  Theorem sem_alt_fm es s i j :
    WB (EAlt true es) -> closed_expr G (EAlt true es) -> i <= length s ->
    (den sh G (EAlt true es) s i j <->
     exists k e, nth_error es k = Some e /\ den sh G e s i j /\
       forall k' e', k' < k -> nth_error es k' = Some e' -> forall j', ~ den sh G e' s i j').
  Proof.
    intros Hwb Hce Hi.
    apply (den_char (EAlt true es) s i (FM (den sh G) es s i) Hwb Hce Hi).
    intros f. cbn [lparse step]. apply alt_fm_spec; inst f.
  Qed.

  (* first-match OFF: the union *)
  Theorem sem_alt_union es s i j :
    WB (EAlt false es) -> closed_expr G (EAlt false es) -> i <= length s ->
    (den sh G (EAlt false es) s i j <-> exists e, In e es /\ den sh G e s i j).
  Proof.
    intros Hwb Hce Hi.
    apply (den_char (EAlt false es) s i (fun j => exists e, In e es /\ den sh G e s i j) Hwb Hce Hi).
    intros f. cbn [lparse step]. apply alt_union_spec; inst f.
  Qed.

  (* rule reference with optional exclusion *)
  Theorem sem_ref r ru d s i j :
    WB (ERef r) -> closed_expr G (ERef r) -> i <= length s ->
    G r = Some ru -> rdef ru = Some d ->
    (den sh G (ERef r) s i j <->
       den sh G d s i j /\
       forall x, rexcl ru = Some x -> ~ den sh G (ERef x) (slice s i (j - i)) 0 (j - i)).
  Proof.
    intros Hwb Hce Hi Er Ed.
    apply (den_char (ERef r) s i
             (fun j => den sh G d s i j /\
                forall x, rexcl ru = Some x -> ~ den sh G (ERef x) (slice s i (j - i)) 0 (j - i))
             Hwb Hce Hi).
    intros f. cbn [lparse step]. apply ref_spec; inst f.
  Qed.

  (* the remaining constructs behave as in M *)
  Theorem sem_lit cs v s i j :
    WB (ELit cs v) -> closed_expr G (ELit cs v) -> i <= length s ->
    (den sh G (ELit cs v) s i j <-> lit_ok s cs v i /\ j = i + length v).
  Proof.
    intros Hwb Hce Hi.
    apply (den_char (ELit cs v) s i (fun j => lit_ok s cs v i /\ j = i + length v) Hwb Hce Hi).
    intros f. cbn [lparse step]. apply lit_spec.
  Qed.

  Theorem sem_range lo hi s i j :
    WB (ERange lo hi) -> closed_expr G (ERange lo hi) -> i <= length s ->
    (den sh G (ERange lo hi) s i j <->
     exists c, nth_error s i = Some c /\ (lo <= c)%N /\ (c <= hi)%N /\ j = i + 1).
  Proof.
    intros Hwb Hce Hi.
    apply (den_char (ERange lo hi) s i
             (fun j => exists c, nth_error s i = Some c /\ (lo <= c)%N /\ (c <= hi)%N /\ j = i + 1)
             Hwb Hce Hi).
    intros f. cbn [lparse step]. apply range_spec.
  Qed.

  Theorem sem_prose s i j :
    WB EProse -> closed_expr G EProse -> i <= length s -> ~ den sh G EProse s i j.
  Proof.
    intros Hwb Hce Hi H.
    apply (proj1 (den_char EProse s i (fun _ => False) Hwb Hce Hi
                    (fun f j (F : False) => F) j)). exact H.
  Qed.

  Lemma den_cat es s i k : WB (ECat es) -> closed_expr G (ECat es) -> i <= length s ->
    (den sh G (ECat es) s i k <-> dcat (den sh G) es s i k).
  Proof.
    intros Hwb Hce Hi.
    apply (den_char (ECat es) s i (dcat (den sh G) es s i) Hwb Hce Hi).
    intros f. cbn [lparse step]. apply cat_spec; inst f.
  Qed.

  Theorem sem_cat_nil s i j :
    WB (ECat []) -> closed_expr G (ECat []) -> i <= length s ->
    (den sh G (ECat []) s i j <-> j = i).
  Proof. intros Hwb Hce Hi. exact (den_cat [] s i j Hwb Hce Hi). Qed.

  Lemma WB_cat_tl e es : WB (ECat (e :: es)) -> WB e /\ WB (ECat es).
  Proof.
    intros H. inversion H as [| | |es' Hes| | |]; subst.
    inversion Hes as [|? ? H1 H2]; subst. split; [exact H1|constructor; exact H2].
  Qed.

  Lemma closed_cat_tl e es : closed_expr G (ECat (e :: es)) -> closed_expr G e /\ closed_expr G (ECat es).
  Proof.
    intros H. split; intros x Hx; apply H; simpl; apply in_app_iff; [left|right]; exact Hx.
  Qed.

  Theorem sem_cat_cons e es s i k :
    WB (ECat (e :: es)) -> closed_expr G (ECat (e :: es)) -> i <= length s ->
    (den sh G (ECat (e :: es)) s i k <->
     exists j, den sh G e s i j /\ den sh G (ECat es) s j k).
  Proof.
    intros Hwb Hce Hi.
    destruct (WB_cat_tl e es Hwb) as [_ Hwt]. destruct (closed_cat_tl e es Hce) as [_ Hct].
    split.
    - intros H. apply (proj1 (den_cat (e :: es) s i k Hwb Hce Hi)) in H.
      simpl in H. destruct H as [j [H1 H2]]. exists j. split; [exact H1|].
      destruct (den_bounds sh G e s i j Hsh Hi H1) as [_ Hj].
      apply (proj2 (den_cat es s j k Hwt Hct Hj)). exact H2.
    - intros [j [H1 H2]]. apply (proj2 (den_cat (e :: es) s i k Hwb Hce Hi)).
      simpl. exists j. split; [exact H1|].
      destruct (den_bounds sh G e s i j Hsh Hi H1) as [_ Hj].
      apply (proj1 (den_cat es s j k Hwt Hct Hj)). exact H2.
  Qed.

  Theorem sem_rep id mn mx e s i j :
    WB (ERep id mn mx e) -> closed_expr G (ERep id mn mx e) -> i <= length s ->
    (den sh G (ERep id mn mx e) s i j <->
     exists n, mn <= n /\ (forall m, mx = Some m -> n <= m) /\ denI sh G e n s i j).
  Proof.
    intros Hwb Hce Hi. unfold denI.
    apply (den_char (ERep id mn mx e) s i
             (fun j => exists n, mn <= n /\ (forall m, mx = Some m -> n <= m) /\
                                 dI (den sh G) e n s i j) Hwb Hce Hi).
    intros f. cbn [lparse step].
    inversion Hwb as [| | | |id' mn' mx' e0 Hb Hwe| |]; subst.
    apply rep_spec; inst f.
  Qed.
End Sem.

(* ------------------------------------------------------------------ *)
(* 6. the equations have exactly one solution                           *)
(* ------------------------------------------------------------------ *)
(* [Sem G d] : d satisfies every clause above (on WB closed expressions, i <= length s) *)
Record Sem (G : grammar) (d : expr -> str -> nat -> nat -> Prop) : Prop := {
  Sem_alt_fm : forall es s i j,
    WB (EAlt true es) -> closed_expr G (EAlt true es) -> i <= length s ->
    (d (EAlt true es) s i j <->
     exists k e, nth_error es k = Some e /\ d e s i j /\
       forall k' e', k' < k -> nth_error es k' = Some e' -> forall j', ~ d e' s i j');
  Sem_alt_union : forall es s i j,
    WB (EAlt false es) -> closed_expr G (EAlt false es) -> i <= length s ->
    (d (EAlt false es) s i j <-> exists e, In e es /\ d e s i j);
  Sem_ref : forall r ru dd s i j,
    WB (ERef r) -> closed_expr G (ERef r) -> i <= length s ->
    G r = Some ru -> rdef ru = Some dd ->
    (d (ERef r) s i j <->
       d dd s i j /\
       forall x, rexcl ru = Some x -> ~ d (ERef x) (slice s i (j - i)) 0 (j - i));
  Sem_lit : forall cs v s i j,
    WB (ELit cs v) -> closed_expr G (ELit cs v) -> i <= length s ->
    (d (ELit cs v) s i j <-> lit_ok s cs v i /\ j = i + length v);
  Sem_range : forall lo hi s i j,
    WB (ERange lo hi) -> closed_expr G (ERange lo hi) -> i <= length s ->
    (d (ERange lo hi) s i j <->
     exists c, nth_error s i = Some c /\ (lo <= c)%N /\ (c <= hi)%N /\ j = i + 1);
  Sem_prose : forall s i j,
    WB EProse -> closed_expr G EProse -> i <= length s -> ~ d EProse s i j;
  Sem_cat_nil : forall s i j,
    WB (ECat []) -> closed_expr G (ECat []) -> i <= length s -> (d (ECat []) s i j <-> j = i);
  Sem_cat_cons : forall e es s i k,
    WB (ECat (e :: es)) -> closed_expr G (ECat (e :: es)) -> i <= length s ->
    (d (ECat (e :: es)) s i k <-> exists j, d e s i j /\ d (ECat es) s j k);
  Sem_rep : forall id mn mx e s i j,
    WB (ERep id mn mx e) -> closed_expr G (ERep id mn mx e) -> i <= length s ->
    (d (ERep id mn mx e) s i j <->
     exists n, mn <= n /\ (forall m, mx = Some m -> n <= m) /\ dI d e n s i j)
}.

(* existence: the engine's denotation is a solution *)
Theorem den_Sem sh nul rank G : perm_oracle sh -> wf nul rank G -> closed G -> Sem G (den sh G).
Proof.
  intros Hsh Hwf Hcl. constructor.
  - intros es s i j. exact (sem_alt_fm sh Hsh nul rank G Hwf Hcl es s i j).
  - intros es s i j. exact (sem_alt_union sh Hsh nul rank G Hwf Hcl es s i j).
  - intros r ru dd s i j. exact (sem_ref sh Hsh nul rank G Hwf Hcl r ru dd s i j).
  - intros cs v s i j. exact (sem_lit sh Hsh nul rank G Hwf Hcl cs v s i j).
  - intros lo hi s i j. exact (sem_range sh Hsh nul rank G Hwf Hcl lo hi s i j).
  - intros s i j. exact (sem_prose sh Hsh nul rank G Hwf Hcl s i j).
  - intros s i j. exact (sem_cat_nil sh Hsh nul rank G Hwf Hcl s i j).
  - intros e es s i k. exact (sem_cat_cons sh Hsh nul rank G Hwf Hcl e es s i k).
  - intros id mn mx e s i j. exact (sem_rep sh Hsh nul rank G Hwf Hcl id mn mx e s i j).
Qed.

Lemma size_pos e : 1 <= size e.
Proof. destruct e; simpl; lia. Qed.

Section Unique.
  Variable nul : rid -> bool.
  Variable rank : rid -> nat.
  Variable G : grammar.
  Hypothesis Hwf : wf nul rank G.
  Hypothesis Hcl : closed G.

  (* well-founded induction on the measure of EngineTerm.v *)
  Lemma meas_ind (P : expr -> str -> nat -> Prop) :
    (forall e s i, WB e -> closed_expr G e -> i <= length s ->
       (forall e' s' i', WB e' -> closed_expr G e' -> i' <= length s' ->
          smaller nul rank e' s' i' e s i -> P e' s' i') -> P e s i) ->
    forall e s i, WB e -> closed_expr G e -> i <= length s -> P e s i.
  Proof.
    intros Hstep.
    assert (H : forall a b c e s i, length s - i = a -> erank nul rank e = b -> size e = c ->
                  WB e -> closed_expr G e -> i <= length s -> P e s i).
    { induction a as [a IHa] using lt_wf_ind.
      induction b as [b IHb] using lt_wf_ind.
      induction c as [c IHc] using lt_wf_ind.
      intros e s i Ea Eb Ec Hwb Hce Hi. apply Hstep; try assumption.
      intros e' s' i' Hwb' Hce' Hi' Hsm. unfold smaller in Hsm.
      destruct Hsm as [H1|[H1 [H2|[H2 H3]]]].
      - apply (IHa (length s' - i') ltac:(lia) _ _ e' s' i' eq_refl eq_refl eq_refl Hwb' Hce' Hi').
      - apply (IHb (erank nul rank e') ltac:(lia) _ e' s' i' ltac:(lia) eq_refl eq_refl Hwb' Hce' Hi').
      - apply (IHc (size e') ltac:(lia) e' s' i' ltac:(lia) ltac:(lia) eq_refl Hwb' Hce' Hi'). }
    intros e s i. apply (H _ _ _ e s i eq_refl eq_refl eq_refl).
  Qed.

  (* the sub-calls of each clause are smaller *)
  Lemma sm_alt fm x es s i : In x es -> smaller nul rank x s i (EAlt fm es) s i.
  Proof.
    intros Hx. pose proof (erank_alt_in nul rank fm x es Hx) as A.
    pose proof (size_alt_in fm x es Hx) as B. unfold smaller. lia.
  Qed.

  Lemma sm_cat_hd e es s i : smaller nul rank e s i (ECat (e :: es)) s i.
  Proof.
    pose proof (erank_cat_split nul rank e es [] eq_refl) as A. simpl app in A.
    pose proof (size_cat_in e (e :: es) (or_introl eq_refl)) as B. unfold smaller. lia.
  Qed.

  Lemma sm_cat_tl e es s i j : i <= j -> j <= length s -> (j = i -> enull nul e = true) ->
    smaller nul rank (ECat es) s j (ECat (e :: es)) s i.
  Proof.
    intros L1 L2 Hn. unfold smaller. destruct (Nat.eq_dec j i) as [E|E].
    - subst j. right. split; [reflexivity|]. rewrite !erank_cat. cbn [crank]. rewrite (Hn eq_refl).
      pose proof (size_pos e) as B. cbn [size fold_right]. lia.
    - left. lia.
  Qed.

  Lemma sm_rep id mn mx e s i p : i <= p -> p <= length s ->
    smaller nul rank e s p (ERep id mn mx e) s i.
  Proof.
    intros L1 L2. unfold smaller. pose proof (size_rep id mn mx e) as B.
    assert (C : erank nul rank (ERep id mn mx e) = erank nul rank e) by reflexivity. lia.
  Qed.

  Lemma sm_def r dd s i : erank nul rank dd <= rank r -> smaller nul rank dd s i (ERef r) s i.
  Proof.
    intros L. unfold smaller. right. split; [reflexivity|]. left.
    change (erank nul rank (ERef r)) with (S (rank r)). lia.
  Qed.

  Lemma sm_excl x r s i j : i <= j -> j <= length s -> rank x < rank r ->
    smaller nul rank (ERef x) (slice s i (j - i)) 0 (ERef r) s i.
  Proof.
    intros L1 L2 L3. unfold smaller.
    assert (L : length (slice s i (j - i)) = j - i) by (apply EngineSound.slice_length; lia).
    rewrite L. change (erank nul rank (ERef x)) with (S (rank x)).
    change (erank nul rank (ERef r)) with (S (rank r)). lia.
  Qed.

  Lemma WB_alt_in fm es x : WB (EAlt fm es) -> In x es -> WB x.
  Proof.
    intros H Hx. inversion H as [| |fm' es' Hes| | | |]; subst.
    exact (proj1 (Forall_forall _ _) Hes x Hx).
  Qed.

  Lemma WB_rep_in id mn mx e : WB (ERep id mn mx e) -> WB e.
  Proof. intros H. inversion H; subst; assumption. Qed.

  Lemma ref_info r : closed_expr G (ERef r) ->
    exists ru dd, G r = Some ru /\ rdef ru = Some dd /\ WB dd /\ closed_expr G dd /\
      erank nul rank dd <= rank r /\ (enull nul dd = true -> nul r = true) /\
      (forall x, rexcl ru = Some x -> rank x < rank r /\ closed_expr G (ERef x)).
  Proof.
    intros Hce. destruct (Hce r (or_introl eq_refl)) as (ru & dd & Er & Ed).
    exists ru, dd. destruct Hwf as [HWBG Hw]. destruct (Hw r ru Er) as [Hx Hdd].
    destruct (Hdd dd Ed) as [Hnul Hrk]. destruct (Hcl r ru Er) as [Hcx Hcd].
    split; [exact Er|]. split; [exact Ed|]. split; [exact (HWBG r ru dd Er Ed)|].
    split; [exact (Hcd dd Ed)|]. split; [exact Hrk|]. split; [exact Hnul|].
    intros x Ex. split; [exact (Hx x Ex)|]. apply defined_closed_ref. exact (Hcx x Ex).
  Qed.

  (* every solution moves forward, stays inside the text, and is empty only on nullable
     expressions (this is what makes the recursive instances of the clauses smaller) *)
  Definition good (d : expr -> str -> nat -> nat -> Prop) (e : expr) (s : str) (i : nat) : Prop :=
    forall j, d e s i j -> i <= j /\ j <= length s /\ (j = i -> enull nul e = true).

  Lemma sem_good d : Sem G d ->
    forall e s i, WB e -> closed_expr G e -> i <= length s -> good d e s i.
  Proof.
    intros HS. apply meas_ind. intros e s i Hwb Hce Hi IH.
    destruct e as [cs v|lo hi|fm es|es|id mn mx e| |r]; intros j H.
    - apply (proj1 (Sem_lit G d HS cs v s i j Hwb Hce Hi)) in H. destruct H as [[Hlen _] Ej].
      split; [lia|]. split; [lia|]. intros E. destruct v as [|c v]; [reflexivity|]. simpl in Ej. lia.
    - apply (proj1 (Sem_range G d HS lo hi s i j Hwb Hce Hi)) in H.
      destruct H as (c & Hn & _ & _ & Ej).
      assert (Hlt : i < length s) by (apply nth_error_Some; congruence).
      split; [lia|]. split; [lia|]. intros E. lia.
    - assert (Hex : exists x, In x es /\ d x s i j).
      { destruct fm.
        - apply (proj1 (Sem_alt_fm G d HS es s i j Hwb Hce Hi)) in H.
          destruct H as (k & x & Hk & Hd & _). exists x. split; [|exact Hd].
          eapply nth_error_In. exact Hk.
        - exact (proj1 (Sem_alt_union G d HS es s i j Hwb Hce Hi) H). }
      destruct Hex as (x & Hx & Hd).
      destruct (IH x s i (WB_alt_in fm es x Hwb Hx) (closed_alt_in G fm es x Hce Hx) Hi
                   (sm_alt fm x es s i Hx) j Hd) as (A & B & C).
      split; [exact A|]. split; [exact B|]. intros E. simpl. apply existsb_exists.
      exists x. split; [exact Hx|exact (C E)].
    - destruct es as [|e es].
      + apply (proj1 (Sem_cat_nil G d HS s i j Hwb Hce Hi)) in H. subst j.
        split; [lia|]. split; [exact Hi|]. intros _. reflexivity.
      + apply (proj1 (Sem_cat_cons G d HS e es s i j Hwb Hce Hi)) in H.
        destruct H as (p & H1 & H2).
        destruct (WB_cat_tl e es Hwb) as [Hw1 Hw2].
        destruct (closed_cat_tl G e es Hce) as [Hc1 Hc2].
        destruct (IH e s i Hw1 Hc1 Hi (sm_cat_hd e es s i) p H1) as (A & B & C).
        destruct (IH (ECat es) s p Hw2 Hc2 B (sm_cat_tl e es s i p A B C) j H2) as (A' & B' & C').
        split; [lia|]. split; [exact B'|]. intros E.
        assert (Ep : p = i) by lia. assert (Ej : j = p) by lia.
        change (enull nul (ECat (e :: es))) with (enull nul e && enull nul (ECat es)).
        rewrite (C Ep), (C' Ej). reflexivity.
    - apply (proj1 (Sem_rep G d HS id mn mx e s i j Hwb Hce Hi)) in H.
      destruct H as (n & Hn & Hm & HdI).
      assert (Hit : forall n1 p k, i <= p -> p <= length s -> dI d e n1 s p k ->
                p <= k /\ k <= length s /\ (k = p -> 0 < n1 -> enull nul e = true)).
      { induction n1 as [|n0 IHn]; intros p k L1 L2 Hd0; simpl in Hd0.
        - subst k. split; [lia|]. split; [exact L2|]. intros _ F. lia.
        - destruct Hd0 as (q & H1 & H2).
          destruct (IH e s p (WB_rep_in id mn mx e Hwb) Hce L2 (sm_rep id mn mx e s i p L1 L2) q H1)
            as (A & B & C).
          destruct (IHn q k ltac:(lia) B H2) as (A' & B' & C').
          split; [lia|]. split; [exact B'|]. intros E _. apply C. lia. }
      destruct (Hit n i j (le_n i) Hi HdI) as (A & B & C).
      split; [exact A|]. split; [exact B|]. intros E. simpl.
      destruct mn as [|mn]; [reflexivity|]. simpl. apply (C E). lia.
    - destruct (Sem_prose G d HS s i j Hwb Hce Hi H).
    - destruct (ref_info r Hce) as (ru & dd & Er & Ed & Hwd & Hcd & Hrk & Hnul & Hx).
      apply (proj1 (Sem_ref G d HS r ru dd s i j Hwb Hce Hi Er Ed)) in H. destruct H as [H1 _].
      destruct (IH dd s i Hwd Hcd Hi (sm_def r dd s i Hrk) j H1) as (A & B & C).
      split; [exact A|]. split; [exact B|]. intros E. simpl. apply Hnul. exact (C E).
  Qed.

  Lemma sem_unique_dir d1 d2 : Sem G d1 -> Sem G d2 ->
    forall e s i, WB e -> closed_expr G e -> i <= length s ->
    (forall e' s' i', WB e' -> closed_expr G e' -> i' <= length s' ->
       smaller nul rank e' s' i' e s i -> forall j, d1 e' s' i' j <-> d2 e' s' i' j) ->
    forall j, d1 e s i j -> d2 e s i j.
  Proof.
    intros HS1 HS2 e s i Hwb Hce Hi IH j H.
    destruct e as [cs v|lo hi|fm es|es|id mn mx e| |r].
    - apply (proj2 (Sem_lit G d2 HS2 cs v s i j Hwb Hce Hi)).
      exact (proj1 (Sem_lit G d1 HS1 cs v s i j Hwb Hce Hi) H).
    - apply (proj2 (Sem_range G d2 HS2 lo hi s i j Hwb Hce Hi)).
      exact (proj1 (Sem_range G d1 HS1 lo hi s i j Hwb Hce Hi) H).
    - assert (Hsub : forall x, In x es -> forall j0, d1 x s i j0 <-> d2 x s i j0).
      { intros x Hx. exact (IH x s i (WB_alt_in fm es x Hwb Hx) (closed_alt_in G fm es x Hce Hx) Hi
                              (sm_alt fm x es s i Hx)). }
      destruct fm.
      + apply (proj2 (Sem_alt_fm G d2 HS2 es s i j Hwb Hce Hi)).
        apply (proj1 (Sem_alt_fm G d1 HS1 es s i j Hwb Hce Hi)) in H.
        destruct H as (k & x & Hk & Hd & Hfirst). exists k, x. split; [exact Hk|].
        split; [apply (proj1 (Hsub x (nth_error_In _ _ Hk) j)); exact Hd|].
        intros k' x' Hlt Hk' j' Hd'. apply (Hfirst k' x' Hlt Hk' j').
        apply (proj2 (Hsub x' (nth_error_In _ _ Hk') j')). exact Hd'.
      + apply (proj2 (Sem_alt_union G d2 HS2 es s i j Hwb Hce Hi)).
        apply (proj1 (Sem_alt_union G d1 HS1 es s i j Hwb Hce Hi)) in H.
        destruct H as (x & Hx & Hd). exists x. split; [exact Hx|].
        apply (proj1 (Hsub x Hx j)). exact Hd.
    - destruct es as [|e es].
      + apply (proj2 (Sem_cat_nil G d2 HS2 s i j Hwb Hce Hi)).
        exact (proj1 (Sem_cat_nil G d1 HS1 s i j Hwb Hce Hi) H).
      + apply (proj2 (Sem_cat_cons G d2 HS2 e es s i j Hwb Hce Hi)).
        apply (proj1 (Sem_cat_cons G d1 HS1 e es s i j Hwb Hce Hi)) in H.
        destruct H as (p & H1 & H2).
        destruct (WB_cat_tl e es Hwb) as [Hw1 Hw2].
        destruct (closed_cat_tl G e es Hce) as [Hc1 Hc2].
        destruct (sem_good d1 HS1 e s i Hw1 Hc1 Hi p H1) as (A & B & C).
        exists p. split.
        * apply (proj1 (IH e s i Hw1 Hc1 Hi (sm_cat_hd e es s i) p)). exact H1.
        * apply (proj1 (IH (ECat es) s p Hw2 Hc2 B (sm_cat_tl e es s i p A B C) j)). exact H2.
    - apply (proj2 (Sem_rep G d2 HS2 id mn mx e s i j Hwb Hce Hi)).
      apply (proj1 (Sem_rep G d1 HS1 id mn mx e s i j Hwb Hce Hi)) in H.
      destruct H as (n & Hn & Hm & HdI). exists n. split; [exact Hn|]. split; [exact Hm|].
      pose proof (WB_rep_in id mn mx e Hwb) as Hwe.
      assert (Hit : forall n1 p k, i <= p -> p <= length s -> dI d1 e n1 s p k -> dI d2 e n1 s p k).
      { induction n1 as [|n0 IHn]; intros p k L1 L2 Hd0; simpl in Hd0 |- *; [exact Hd0|].
        destruct Hd0 as (q & H1 & H2).
        destruct (sem_good d1 HS1 e s p Hwe Hce L2 q H1) as (A & B & _).
        exists q. split.
        - apply (proj1 (IH e s p Hwe Hce L2 (sm_rep id mn mx e s i p L1 L2) q)). exact H1.
        - apply (IHn q k ltac:(lia) B H2). }
      exact (Hit n i j (le_n i) Hi HdI).
    - destruct (Sem_prose G d1 HS1 s i j Hwb Hce Hi H).
    - destruct (ref_info r Hce) as (ru & dd & Er & Ed & Hwd & Hcd & Hrk & Hnul & Hx).
      apply (proj2 (Sem_ref G d2 HS2 r ru dd s i j Hwb Hce Hi Er Ed)).
      apply (proj1 (Sem_ref G d1 HS1 r ru dd s i j Hwb Hce Hi Er Ed)) in H. destruct H as [H1 H2].
      destruct (sem_good d1 HS1 dd s i Hwd Hcd Hi j H1) as (A & B & _).
      split.
      + apply (proj1 (IH dd s i Hwd Hcd Hi (sm_def r dd s i Hrk) j)). exact H1.
      + intros x Ex Hd2. destruct (Hx x Ex) as [Hlt Hcx]. apply (H2 x Ex).
        apply (proj2 (IH (ERef x) (slice s i (j - i)) 0 (WB_ref x) Hcx (Nat.le_0_l _)
                         (sm_excl x r s i j A B Hlt) (j - i))). exact Hd2.
  Qed.

  Theorem sem_unique_sec d1 d2 : Sem G d1 -> Sem G d2 ->
    forall e s i, WB e -> closed_expr G e -> i <= length s -> forall j, d1 e s i j <-> d2 e s i j.
  Proof.
    intros HS1 HS2. apply (meas_ind (fun e s i => forall j, d1 e s i j <-> d2 e s i j)).
    intros e s i Hwb Hce Hi IH j. split.
    - apply (sem_unique_dir d1 d2 HS1 HS2 e s i Hwb Hce Hi IH j).
    - apply (sem_unique_dir d2 d1 HS2 HS1 e s i Hwb Hce Hi).
      intros e' s' i' Hwb' Hce' Hi' Hsm j'. split; intros H0.
      + apply (proj2 (IH e' s' i' Hwb' Hce' Hi' Hsm j')). exact H0.
      + apply (proj1 (IH e' s' i' Hwb' Hce' Hi' Hsm j')). exact H0.
  Qed.
End Unique.

(* any two solutions of the clauses agree on the valid domain *)
Theorem sem_unique nul rank G d1 d2 : wf nul rank G -> closed G -> Sem G d1 -> Sem G d2 ->
  forall e s i j, WB e -> closed_expr G e -> i <= length s -> (d1 e s i j <-> d2 e s i j).
Proof.
  intros Hwf Hcl HS1 HS2 e s i j Hwb Hce Hi.
  exact (sem_unique_sec nul rank G Hwf Hcl d1 d2 HS1 HS2 e s i Hwb Hce Hi j).
Qed.

(* hence the clauses characterise the engine: every solution IS the engine's denotation *)
Corollary sem_is_den sh nul rank G d : perm_oracle sh -> wf nul rank G -> closed G -> Sem G d ->
  forall e s i j, WB e -> closed_expr G e -> i <= length s -> (d e s i j <-> den sh G e s i j).
Proof.
  intros Hsh Hwf Hcl HS. apply (sem_unique nul rank G d (den sh G) Hwf Hcl HS).
  exact (den_Sem sh nul rank G Hsh Hwf Hcl).
Qed.

Print Assumptions sem_alt_fm.
Print Assumptions sem_alt_union.
Print Assumptions sem_ref.
Print Assumptions sem_lit.
Print Assumptions sem_range.
Print Assumptions sem_prose.
Print Assumptions sem_cat_nil.
Print Assumptions sem_cat_cons.
Print Assumptions sem_rep.
Print Assumptions den_oracle_indep.
Print Assumptions den_ok.
Print Assumptions den_perr.
Print Assumptions den_Sem.
Print Assumptions sem_unique.
Print Assumptions sem_is_den.
