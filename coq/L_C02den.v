(* L_C02den.v — property C02 for ALL well-formed closed grammars (first-match flags and rule
   exclusions allowed): the wrappers [parse] (longest match) and [parse_all] (whole input) answer,
   with enough fuel, exactly as the engine's own denotation [den] (EngineSem.v) says, under every
   permutation oracle.  [den] is fuel-independent and, by den_Sem / sem_unique, THE solution of the
   semantic equations. *)
From Coq Require Import List NArith Arith Bool Lia Permutation.
Import ListNotations.
From ABNF Require Import Base Engine Spec Wf Checks EngineSound EngineDet EngineComplete EngineTerm
  EngineSem L_C03 L_C02.

(* ------------------------------------------------------------------ *)
(* 1. C02 for parse, against the denotation                             *)
(* ------------------------------------------------------------------ *)
Theorem c02den_parse sh nul rank G : perm_oracle sh -> wf nul rank G -> closed G ->
  forall r s i, defined G r -> i <= length s ->
  exists f, forall f', f <= f' ->
    (forall m, parse sh G f' r s i = Ok [m] ->
        den sh G (ERef r) s i (mend m) /\ (forall j, den sh G (ERef r) s i j -> j <= mend m) /\
        tree_ok G s r i m /\ nsvalue (nodes m) = slice s i (mend m - i)) /\
    (parse sh G f' r s i = PErr <-> (forall j, ~ den sh G (ERef r) s i j)) /\
    ((exists m, parse sh G f' r s i = Ok [m]) \/ parse sh G f' r s i = PErr).
Proof.
  intros Hsh Hwf Hcl r s i Hdef Hi.
  pose proof (proj1 Hwf) as Hwb.
  destruct (lparse_answers sh nul rank G Hsh Hwf Hcl (ERef r) s i (WB_ref r)
              (L_C02.closed_expr_ref G r Hdef) Hi) as [f Hf].
  exists f. intros f' Hle. specialize (Hf f' Hle).
  destruct Hf as [Hpe|[ms [Hok Hne]]].
  - (* lparse = PErr *)
    pose proof (parse_of_perr sh G f' r s i Hpe) as Hp.
    assert (Hno : forall j, ~ den sh G (ERef r) s i j).
    { intros j. exact (den_perr sh G f' (ERef r) s i j Hpe). }
    split; [|split].
    + intros m Hm. rewrite Hp in Hm. discriminate.
    + split; [intros _; exact Hno|intros _; exact Hp].
    + right. exact Hp.
  - (* lparse = Ok ms, ms nonempty *)
    destruct (parse_of_ok sh G Hsh f' r s i ms Hok Hne) as [m0 [rest [Hn Hp]]].
    pose proof (next_longest_head_in sh Hsh ms m0 rest Hn) as Hin.
    assert (Hd0 : den sh G (ERef r) s i (mend m0)).
    { apply (proj2 (den_ok sh G f' (ERef r) s i ms (mend m0) Hok)).
      exists m0. split; [exact Hin|reflexivity]. }
    split; [|split].
    + intros m Hm. rewrite Hp in Hm. injection Hm as <-.
      split; [exact Hd0|]. split.
      * intros j Hj. apply (next_longest_head_max sh Hsh ms m0 rest Hn).
        exact (proj1 (den_ok sh G f' (ERef r) s i ms j Hok) Hj).
      * pose proof (c03_parse sh G Hsh Hwb f' r s i m0 Hi Hp) as Ht.
        split; [exact Ht|].
        destruct Ht as [_ [_ Hfa]]. exact (proj1 (proj2 Hfa)).
    + split.
      * intros Hpe. rewrite Hp in Hpe. discriminate.
      * intros Hno. exfalso. exact (Hno _ Hd0).
    + left. exists m0. exact Hp.
Qed.

(* ------------------------------------------------------------------ *)
(* 2. C02 for parse_all, against the denotation                         *)
(* ------------------------------------------------------------------ *)
Theorem c02den_parse_all sh nul rank G : perm_oracle sh -> wf nul rank G -> closed G ->
  forall r s, defined G r ->
  exists f, forall f', f <= f' ->
    ((exists m, parse_all sh G f' r s = Ok [m]) <-> den sh G (ERef r) s 0 (length s)) /\
    (forall m, parse_all sh G f' r s = Ok [m] ->
        mend m = length s /\ nsvalue (nodes m) = s /\ tree_ok G s r 0 m) /\
    ((exists m, parse_all sh G f' r s = Ok [m]) \/ parse_all sh G f' r s = PErr).
Proof.
  intros Hsh Hwf Hcl r s Hdef.
  pose proof (proj1 Hwf) as Hwb.
  destruct (c02den_parse sh nul rank G Hsh Hwf Hcl r s 0 Hdef (Nat.le_0_l _)) as [f Hf].
  exists f. intros f' Hle. destruct (Hf f' Hle) as [Hsucc [Hperr Hdich]]. clear Hf.
  assert (Hsound : forall m, parse_all sh G f' r s = Ok [m] ->
            mend m = length s /\ nsvalue (nodes m) = s /\ tree_ok G s r 0 m).
  { intros m Hm. destruct (c03_parse_all sh G Hsh Hwb f' r s m Hm) as [Ht He].
    split; [exact He|]. split; [|exact Ht].
    destruct Ht as [_ [_ Hfa]]. pose proof (proj1 (proj2 Hfa)) as Hv.
    rewrite He in Hv. rewrite L_C02.slice_all in Hv. exact Hv. }
  split; [|split].
  - split.
    + intros [m Hm]. destruct (Hsound m Hm) as [He _].
      destruct Hdich as [[m0 Hp]|Hp].
      * unfold parse_all in Hm. rewrite Hp in Hm.
        destruct (Nat.ltb (mend m0) (length s)); [discriminate|].
        injection Hm as <-. rewrite <- He. exact (proj1 (Hsucc m0 Hp)).
      * unfold parse_all in Hm. rewrite Hp in Hm. discriminate.
    + intros Hden. destruct Hdich as [[m Hp]|Hp].
      * destruct (Hsucc m Hp) as [_ [Hmax _]]. pose proof (Hmax _ Hden) as Hge.
        exists m. unfold parse_all. rewrite Hp.
        destruct (Nat.ltb (mend m) (length s)) eqn:E; [|reflexivity].
        apply Nat.ltb_lt in E. lia.
      * exfalso. exact (proj1 Hperr Hp _ Hden).
  - exact Hsound.
  - destruct Hdich as [[m Hp]|Hp].
    + unfold parse_all. rewrite Hp.
      destruct (Nat.ltb (mend m) (length s)); [right; reflexivity|left; exists m; reflexivity].
    + right. unfold parse_all. rewrite Hp. reflexivity.
Qed.

Print Assumptions c02den_parse.
Print Assumptions c02den_parse_all.
