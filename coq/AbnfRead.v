(* AbnfRead.v — SPECIFICATION: what an ABNF text denotes.

   An independent, deterministic, executable reader of ABNF text, written directly from the
   grammar of RFC 5234 section 4 as updated by RFC 7405.  It does not use the engine of
   Engine.v: it is a one-pass reader with one character of lookahead (plus the "c-nl followed
   by WSP" lookahead of c-wsp).  The grammar rule each function reads is quoted next to it.

   The grammar is ambiguous only in layout, and the reader resolves it in the only way that can
   succeed: every repetition of the grammar is read greedily (longest), and
     - c-wsp = WSP / (c-nl WSP): a c-nl is white space only if a WSP follows it (continuation
       line); otherwise it is left for the construct that ends there (the rule);
     - concatenation = repetition *(1*c-wsp repetition): after white space, the next character
       decides: if it can start a repetition the concatenation goes on, otherwise the white space
       belongs to the enclosing construct (alternation, group, option, elements).

   FUEL: functions with an [f : nat] argument are recursive on it; [f] only has to exceed the
   length of the text they are given ([read_rule], [read_elements], [read_rulelist] supply
   [S (length s)]); every recursive call is made after at least one character was consumed. *)
From Coq Require Import String Ascii List NArith Arith Bool Lia.
From ABNF Require Import Base.
Import ListNotations.

(* ---------- abstract syntax ---------- *)
Inductive aexpr :=
| ALit (cs : bool) (v : str)            (* "abc" / %i"abc" -> ALit false; %s"abc" -> ALit true;
                                            %x41 -> ALit true [65]; %x41.42.43 -> ALit true [65;66;67] *)
| ARange (lo hi : cp)                   (* %x41-5A *)
| AAlt (es : list aexpr)                (* only when there are >= 2 alternatives *)
| ACat (es : list aexpr)                (* only when there are >= 2 repetitions *)
| ARep (mn : nat) (mx : option nat) (e : aexpr)
                                        (* only when a repeat is present: n -> (n, Some n);
                                           a*b -> (a, Some b); a* -> (a, None); *b -> (0, Some b);
                                           * -> (0, None) *)
| AOpt (e : aexpr)                      (* [ ... ] *)
| AProse (v : str)                      (* <...> whose content is NOT a rulename; v = content *)
| ARef (name : str).                    (* rulename as written (case preserved); also <rulename> *)

Arguments ARange (lo hi)%N.

Record arule := { aname : str; aincr : bool (* true for "=/" *); adef : aexpr }.

(* ---------- characters ---------- *)
Definition ch (a : ascii) : cp := N_of_ascii a.
Arguments ch _%char.

Definition between (lo hi c : cp) : bool := (lo <=? c)%N && (c <=? hi)%N.
Definition is (a c : cp) : bool := N.eqb a c.
Arguments between (lo hi c)%N.
Arguments is (a c)%N.

Definition is_alpha (c : cp) := between 0x41 0x5A c || between 0x61 0x7A c.   (* ALPHA *)
Definition is_digit (c : cp) := between 0x30 0x39 c.                          (* DIGIT *)
Definition is_wsp   (c : cp) := is 0x20 c || is 0x09 c.                       (* WSP = SP / HTAB *)
Definition is_vchar (c : cp) := between 0x21 0x7E c.                          (* VCHAR *)
Definition is_namechar (c : cp) := is_alpha c || is_digit c || is (ch "-") c.
Definition is_qchar (c : cp) := between 0x20 0x21 c || between 0x23 0x7E c.   (* in quoted-string *)
Definition is_pchar (c : cp) := between 0x20 0x3D c || between 0x3F 0x7E c.   (* in prose-val *)
Definition DQUOTE : cp := 0x22%N.

(* value of [c] as a digit in [base] (2: BIT, 10: DIGIT, 16: HEXDIG, letters of either case) *)
Definition digit_val (base : N) (c : cp) : option N :=
  let v := if is_digit c then Some (c - 0x30)%N
           else if between 0x41 0x46 c then Some (c - 0x41 + 10)%N
           else if between 0x61 0x66 c then Some (c - 0x61 + 10)%N
           else None in
  match v with Some d => if (d <? base)%N then Some d else None | None => None end.

(* ---------- small readers ---------- *)
Notation "'do' x <- a ; b" := (match a with Some x => b | None => None end)
  (at level 200, x pattern, a at level 100, b at level 200, only parsing).

(* the character [c] / the letter [c] (given in lower case) in either case *)
Definition eat (c : cp) (s : str) : option str :=
  match s with x :: r => if is c x then Some r else None | [] => None end.
Definition eat_ci (c : cp) (s : str) : option str :=
  match s with x :: r => if is c (fold_cp x) then Some r else None | [] => None end.
Arguments eat c%N s.

(* the longest prefix of characters satisfying [p], and the rest *)
Fixpoint span_ (p : cp -> bool) (acc s : str) : str * str :=
  match s with
  | c :: r => if p c then span_ p (c :: acc) r else (rev' acc, s)
  | [] => (rev' acc, [])
  end.
Definition span (p : cp -> bool) (s : str) : str * str := span_ p [] s.

(* 1*digit in [base], of any length, leading zeros allowed *)
Fixpoint number_ (base acc : N) (s : str) : N * str :=
  match s with
  | c :: r => match digit_val base c with
              | Some d => number_ base (acc * base + d)%N r
              | None => (acc, s)
              end
  | [] => (acc, [])
  end.
Definition number (base : N) (s : str) : option (N * str) :=
  match s with
  | c :: r => do d <- digit_val base c; Some (number_ base d r)
  | [] => None
  end.
Arguments number base%N s.
(* *DIGIT *)
Definition opt_count (s : str) : option nat * str :=
  match number 10 s with Some (n, r) => (Some (N.to_nat n), r) | None => (None, s) end.

(* rulename = ALPHA *(ALPHA / DIGIT / "-") *)
Definition read_name (s : str) : option (str * str) :=
  match s with
  | c :: r => if is_alpha c then let (n, r1) := span is_namechar r in Some (c :: n, r1) else None
  | [] => None
  end.
Definition is_rulename (s : str) : bool :=
  match s with c :: r => is_alpha c && forallb is_namechar r | [] => false end.

(* ---------- layout ---------- *)
(* CRLF *)
Definition crlf (s : str) : option str := do r <- eat 13 s; eat 10 r.
(* c-nl = comment / CRLF        comment = ";" *(WSP / VCHAR) CRLF *)
Fixpoint comment_body (s : str) : option str :=
  match s with
  | c :: r => if is_wsp c || is_vchar c then comment_body r else crlf s
  | [] => None
  end.
Definition c_nl (s : str) : option str :=
  match eat (ch ";") s with Some r => comment_body r | None => crlf s end.
(* c-wsp = WSP / (c-nl WSP) *)
Definition c_wsp (s : str) : option str :=
  match s with
  | c :: r => if is_wsp c then Some r
              else do r1 <- c_nl s;
                   match r1 with w :: r2 => if is_wsp w then Some r2 else None | [] => None end
  | [] => None
  end.
(* *c-wsp, greedy *)
Fixpoint c_wsps (f : nat) (s : str) : str :=
  match f with
  | O => s
  | S f => match c_wsp s with Some r => c_wsps f r | None => s end
  end.

(* ---------- elements without sub-expressions ---------- *)
(* repeat = 1*DIGIT / ( *DIGIT "*" *DIGIT);  None: no repeat here *)
Definition read_repeat (s : str) : option (nat * option nat) * str :=
  let (a, s1) := opt_count s in
  match eat (ch "*") s1 with
  | Some s2 => let (b, s3) := opt_count s2 in
               (Some (match a with Some n => n | None => O end, b), s3)
  | None => match a with Some n => (Some (n, Some n), s1) | None => (None, s) end
  end.

(* quoted-string = DQUOTE *(%x20-21 / %x23-7E) DQUOTE *)
Definition quoted (s : str) : option (str * str) :=
  do r <- eat DQUOTE s;
  let (v, r1) := span is_qchar r in
  do r2 <- eat DQUOTE r1;
  Some (v, r2).

(* *("." 1*digit), after the first number(s) [acc] (most recent first) *)
Fixpoint series (f : nat) (base : N) (acc : list N) (s : str) : option (list N * str) :=
  match f with
  | O => None
  | S f => match eat (ch ".") s with
           | Some r => do (n, r1) <- number base r; series f base (n :: acc) r1
           | None => Some (rev' acc, s)
           end
  end.
(* bin-val / dec-val / hex-val after the base letter:
   1*digit [ 1*("." 1*digit) / ("-" 1*digit) ] *)
Definition num_val (f : nat) (base : N) (s : str) : option (aexpr * str) :=
  do (n, r) <- number base s;
  match eat (ch "-") r with
  | Some r1 => do (m, r2) <- number base r1; Some (ARange n m, r2)
  | None => do (vs, r2) <- series f base [n] r; Some (ALit true vs, r2)
  end.

Arguments num_val f base%N s.

(* rulename / char-val / num-val / prose-val
   char-val = [ "%i" ] quoted-string / "%s" quoted-string
   num-val  = "%" (bin-val / dec-val / hex-val)        bin-val = "b" ..., "d" ..., "x" ...
   prose-val = "<" *(%x20-3D / %x3F-7E) ">" *)
Definition terminal (f : nat) (s : str) : option (aexpr * str) :=
  match s with
  | [] => None
  | c :: r =>
    if is_alpha c then do (n, r1) <- read_name s; Some (ARef n, r1)
    else if is DQUOTE c then do (v, r1) <- quoted s; Some (ALit false v, r1)
    else if is (ch "<") c then
      let (v, r1) := span is_pchar r in
      do r2 <- eat (ch ">") r1;
      Some (if is_rulename v then ARef v else AProse v, r2)
    else if is (ch "%") c then
      match eat_ci (ch "i") r, eat_ci (ch "s") r with
      | Some r1, _ => do (v, r2) <- quoted r1; Some (ALit false v, r2)
      | _, Some r1 => do (v, r2) <- quoted r1; Some (ALit true v, r2)
      | None, None =>
        match eat_ci (ch "b") r, eat_ci (ch "d") r, eat_ci (ch "x") r with
        | Some r1, _, _ => num_val f 2 r1
        | _, Some r1, _ => num_val f 10 r1
        | _, _, Some r1 => num_val f 16 r1
        | _, _, _ => None
        end
      end
    else None
  end.

(* ---------- alternation ---------- *)
(* a character that can start a repetition = [repeat] element *)
Definition starts_repetition (s : str) : bool :=
  match s with
  | c :: _ => is_digit c || is (ch "*") c || is_alpha c || is (ch "(") c || is (ch "[") c
              || is DQUOTE c || is (ch "%") c || is (ch "<") c
  | [] => false
  end.

Definition with_repeat (rp : option (nat * option nat)) (e : aexpr) : aexpr :=
  match rp with Some (mn, mx) => ARep mn mx e | None => e end.
(* a concatenation / an alternation from its members, most recent first *)
Definition mk_cat (l : list aexpr) : aexpr := match l with [e] => e | _ => ACat (rev' l) end.
Definition mk_alt (l : list aexpr) : aexpr := match l with [e] => e | _ => AAlt (rev' l) end.
Definition is_some {A} (o : option A) : bool := match o with Some _ => true | None => false end.

(* alternation   = concatenation *( *c-wsp "/" *c-wsp concatenation )
   concatenation = repetition *( 1*c-wsp repetition )
   repetition    = [repeat] element
   element       = rulename / group / option / char-val / num-val / prose-val
   group         = "(" *c-wsp alternation *c-wsp ")"
   option        = "[" *c-wsp alternation *c-wsp "]"
   [alt_f f alts cur s] reads at [s] the remainder of an alternation, TOGETHER WITH the *c-wsp
   that follows the alternation in every context (elements, group, option).
   [alts]: the concatenations already complete, [cur]: the repetitions already read of the
   current concatenation (both most recent first).  One round = one repetition, then the
   white space after it, then the decision: "/" starts the next concatenation; white space
   followed by the start of a repetition continues this one; anything else ends the alternation. *)
Fixpoint alt_f (f : nat) (alts cur : list aexpr) (s : str) : option (aexpr * str) :=
  match f with
  | O => None
  | S f =>
    let (rp, s1) := read_repeat s in
    do (e, s2) <-
       match eat (ch "(") s1, eat (ch "[") s1 with
       | Some r, _ => do (e, r1) <- alt_f f [] [] (c_wsps f r);
                      do r2 <- eat (ch ")") r1; Some (e, r2)
       | _, Some r => do (e, r1) <- alt_f f [] [] (c_wsps f r);
                      do r2 <- eat (ch "]") r1; Some (AOpt e, r2)
       | None, None => terminal f s1
       end;
    let cur := with_repeat rp e :: cur in
    let s3 := c_wsps f s2 in
    match eat (ch "/") s3 with
    | Some r => alt_f f (mk_cat cur :: alts) [] (c_wsps f r)
    | None => if starts_repetition s3 && is_some (c_wsp s2)
              then alt_f f alts cur s3
              else Some (mk_alt (mk_cat cur :: alts), s3)
    end
  end.

(* rule       = rulename defined-as elements c-nl
   defined-as = *c-wsp ("=" / "=/") *c-wsp
   elements   = alternation *c-wsp *)
Definition rule_f (f : nat) (s : str) : option (arule * str) :=
  do (n, s1) <- read_name s;
  do s2 <- eat (ch "=") (c_wsps f s1);
  let (incr, s3) := match eat (ch "/") s2 with Some r => (true, r) | None => (false, s2) end in
  do (e, s4) <- alt_f f [] [] (c_wsps f s3);
  do s5 <- c_nl s4;
  Some ({| aname := n; aincr := incr; adef := e |}, s5).

(* ---------- the required entry points ---------- *)
Definition read_elements (s : str) : option (aexpr * str) := alt_f (S (length s)) [] [] s.
Definition read_rule (s : str) : option (arule * str) := rule_f (S (length s)) s.

(* rulelist = 1*( rule / ( *c-wsp c-nl) )
   a rule starts with ALPHA, a ( *c-wsp c-nl) entry never does; [f] >= length s *)
Fixpoint rulelist_f (f : nat) (acc : list arule) (s : str) : option (list arule) :=
  match s, f with
  | [], _ => Some (rev' acc)
  | _ :: _, O => None
  | c :: _, S f' =>
    if is_alpha c then do (r, s1) <- read_rule s; rulelist_f f' (r :: acc) s1
    else do s1 <- c_nl (c_wsps f s); rulelist_f f' acc s1
  end.
Definition read_rulelist (s : str) : option (list arule) :=
  match s with [] => None | _ :: _ => rulelist_f (length s) [] s end.

(* ====================================================================================== *)
(* sanity examples *)
Fixpoint s_of (x : string) : str :=
  match x with EmptyString => [] | String a r => N_of_ascii a :: s_of r end.
Arguments s_of _%string.
Definition CRLF : str := [13; 10]%N.
(* the lines, each followed by CRLF *)
Definition txt (ls : list string) : str := flat_map (fun l => s_of l ++ CRLF) ls.
Definition R (x : string) := ARef (s_of x).
Definition elems (x : string) : option aexpr :=
  match read_elements (s_of x) with Some (e, []) => Some e | _ => None end.
Definition rule1 (ls : list string) : option (str * bool * aexpr) :=
  match read_rule (txt ls) with
  | Some (r, []) => Some (aname r, aincr r, adef r)
  | _ => None
  end.

Section Examples.
Local Open Scope string_scope.
Local Open Scope list_scope.
Local Ltac go := vm_compute; reflexivity.

(* the five repeat forms, and no repeat *)
Example rep_n   : elems "3a"   = Some (ARep 3 (Some 3) (R "a")).   Proof. go. Qed.
Example rep_ab  : elems "2*13a" = Some (ARep 2 (Some 13) (R "a")). Proof. go. Qed.
Example rep_a   : elems "1*a"  = Some (ARep 1 None (R "a")).       Proof. go. Qed.
Example rep_b   : elems "*4a"  = Some (ARep 0 (Some 4) (R "a")).   Proof. go. Qed.
Example rep_any : elems "*a"   = Some (ARep 0 None (R "a")).       Proof. go. Qed.
Example rep_no  : elems "a"    = Some (R "a").                     Proof. go. Qed.
Example rep_sp  : elems "3 a"  = None.                             Proof. go. Qed.
Example rep_grp : elems "1*2( a b )" = Some (ARep 1 (Some 2) (ACat [R "a"; R "b"])). Proof. go. Qed.

(* num-val *)
Example num_x    : elems "%x41" = Some (ALit true [65%N]).                 Proof. go. Qed.
Example num_d    : elems "%d65.66" = Some (ALit true [65%N; 66%N]).        Proof. go. Qed.
Example num_b    : elems "%b1000001-1011010" = Some (ARange 65 90).        Proof. go. Qed.
Example num_X    : elems "%X4a" = Some (ALit true [74%N]).                 Proof. go. Qed.
Example num_xs   : elems "%x41.42.43" = Some (ALit true [65%N; 66%N; 67%N]). Proof. go. Qed.
Example num_xr   : elems "%x41-5A" = Some (ARange 65 90).                  Proof. go. Qed.
Example num_lead : elems "%x0000000000000000000041" = Some (ALit true [65%N]). Proof. go. Qed.
Example num_big  : elems "%xFFFFFFFFFFFFFFFFFFFF" = Some (ALit true [1208925819614629174706175%N]).
Proof. go. Qed.
Example num_D    : elems "%D65" = Some (ALit true [65%N]).                 Proof. go. Qed.
Example num_B    : elems "%B1" = Some (ALit true [1%N]).                   Proof. go. Qed.
Example num_bad1 : elems "%b2" = None.      Proof. go. Qed.
Example num_bad2 : elems "%d6A" = None.     Proof. go. Qed.
Example num_bad3 : elems "%x41." = None.    Proof. go. Qed.
Example num_bad4 : elems "%x41-" = None.    Proof. go. Qed.
Example num_bad5 : elems "%x41.42-43" = None. Proof. go. Qed.
Example num_bad6 : elems "%x" = None.       Proof. go. Qed.

(* char-val *)
Example chr_q  : elems """a""" = Some (ALit false (s_of "a")).     Proof. go. Qed.
Example chr_s  : elems "%s""a""" = Some (ALit true (s_of "a")).    Proof. go. Qed.
Example chr_i  : elems "%i""a""" = Some (ALit false (s_of "a")).   Proof. go. Qed.
Example chr_S  : elems "%S""aB""" = Some (ALit true (s_of "aB")).  Proof. go. Qed.
Example chr_I  : elems "%I""aB""" = Some (ALit false (s_of "aB")). Proof. go. Qed.
Example chr_e  : elems """""" = Some (ALit false []).              Proof. go. Qed.
Example chr_sp : elems """a ;/b""" = Some (ALit false (s_of "a ;/b")). Proof. go. Qed.
Example chr_un : elems """a" = None.                               Proof. go. Qed.

(* prose-val *)
Example prose_ref : elems "<foo>" = Some (R "foo").                        Proof. go. Qed.
Example prose_txt : elems "<foo bar>" = Some (AProse (s_of "foo bar")).    Proof. go. Qed.
Example prose_emp : elems "<>" = Some (AProse []).                         Proof. go. Qed.
Example prose_dig : elems "<1a>" = Some (AProse (s_of "1a")).              Proof. go. Qed.

(* structure: no wrapper for single members, groups are transparent *)
Example st_alt : elems "a / b c / d" = Some (AAlt [R "a"; ACat [R "b"; R "c"]; R "d"]). Proof. go. Qed.
Example st_alt_nosp : elems "a/b" = Some (AAlt [R "a"; R "b"]).            Proof. go. Qed.
Example st_grp : elems "(a)" = Some (R "a").                               Proof. go. Qed.
Example st_nest : elems "( a [ b / ( c d ) ] ) *[ (e) ]"
  = Some (ACat [ACat [R "a"; AOpt (AAlt [R "b"; ACat [R "c"; R "d"]])];
                ARep 0 None (AOpt (R "e"))]).                              Proof. go. Qed.
Example st_grp_alt : elems "(a / b) c" = Some (ACat [AAlt [R "a"; R "b"]; R "c"]). Proof. go. Qed.
Example st_trail : read_elements (s_of "a  ") = Some (R "a", []).          Proof. go. Qed.
Example st_adj1 : elems "a(b)" = None.     Proof. go. Qed.
Example st_adj2 : elems """a""""b""" = None. Proof. go. Qed.
Example st_bad1 : elems "a /" = None.      Proof. go. Qed.
Example st_bad2 : elems "(a" = None.       Proof. go. Qed.
Example st_bad3 : elems "()" = None.       Proof. go. Qed.
Example st_bad4 : elems "[a)" = None.      Proof. go. Qed.
Example st_bad5 : elems "" = None.         Proof. go. Qed.
Example st_rest : read_elements (s_of "a )") = Some (R "a", s_of ")").     Proof. go. Qed.

(* rules: comments, continuation lines, "=/" *)
Example ru_plain : rule1 ["a = b"] = Some (s_of "a", false, R "b").        Proof. go. Qed.
Example ru_tight : rule1 ["a=b"] = Some (s_of "a", false, R "b").          Proof. go. Qed.
Example ru_cont  : rule1 ["a = b ; c"; "  / d"] = Some (s_of "a", false, AAlt [R "b"; R "d"]).
Proof. go. Qed.
Example ru_cont2 : rule1 ["Ab-1"; " ="; " b"; " c ; x"] = Some (s_of "Ab-1", false, ACat [R "b"; R "c"]).
Proof. go. Qed.
Example ru_cont3 : rule1 ["a = ( b ; c"; " d )"] = Some (s_of "a", false, ACat [R "b"; R "d"]).
Proof. go. Qed.
Example ru_cmt   : rule1 ["a = b;c"] = Some (s_of "a", false, R "b").      Proof. go. Qed.
Example ru_incr  : rule1 ["a =/ b"] = Some (s_of "a", true, R "b").        Proof. go. Qed.
Example ru_incr2 : rule1 ["a =/b"] = Some (s_of "a", true, R "b").         Proof. go. Qed.
Example ru_rest  : match read_rule (txt ["a = b"; "c = d"]) with
                   | Some (r, rest) => Some (aname r, rest) | None => None end
                   = Some (s_of "a", txt ["c = d"]).                       Proof. go. Qed.
Example ru_blank : (* a white line after the rule is taken as a continuation, the next ends it *)
  rule1 ["a = b"; " "] = Some (s_of "a", false, R "b").                    Proof. go. Qed.

(* rule lists *)
Definition names (ls : list string) : option (list str) :=
  option_map (map aname) (read_rulelist (txt ls)).
Example rl_two : read_rulelist (txt ["a = b"; ""; "; comment"; "   ; more"; "c =/ *d"])
  = Some [ {| aname := s_of "a"; aincr := false; adef := R "b" |};
           {| aname := s_of "c"; aincr := true;  adef := ARep 0 None (R "d") |} ].
Proof. go. Qed.
Example rl_lead  : names [""; "; x"; "a = b"; " c"; ""] = Some [s_of "a"].  Proof. go. Qed.
Example rl_fill  : names [""] = Some [].                                    Proof. go. Qed.

(* rejections *)
Example rj_empty   : read_rule (txt ["a = "]) = None.                       Proof. go. Qed.
Example rj_nocrlf  : read_rule (s_of "a = b") = None.                       Proof. go. Qed.
Example rj_nocrlf' : read_rulelist (s_of "a = b") = None.                   Proof. go. Qed.
Example rj_lf      : read_rule (s_of "a = b" ++ [10%N]) = None.             Proof. go. Qed.
Example rj_name    : read_rule (txt ["1a = b"]) = None.                     Proof. go. Qed.
Example rj_name'   : read_rulelist (txt ["1a = b"]) = None.                 Proof. go. Qed.
Example rj_indent  : read_rulelist (txt [" a = b"]) = None.                 Proof. go. Qed.
Example rj_garbage : read_rulelist (txt ["a = b"] ++ s_of "!") = None.      Proof. go. Qed.
Example rj_garb2   : read_rulelist (txt ["a = b"; "c"]) = None.             Proof. go. Qed.
Example rj_garb3   : read_rulelist (txt ["a = b )"]) = None.                Proof. go. Qed.
Example rj_noeq    : read_rulelist (txt ["a b"]) = None.                    Proof. go. Qed.
Example rj_ctl     : read_rulelist (txt [String.append "a = b ; " (String (ascii_of_nat 7) "")]) = None. Proof. go. Qed.
End Examples.

(* ====================================================================================== *)
(* two small facts *)
Lemma read_rulelist_nil : read_rulelist [] = None.
Proof. reflexivity. Qed.

(* every reader returns a suffix no longer than its input; [read_rule] a strictly shorter one *)
Lemma eat_len c s r : eat c s = Some r -> length s = S (length r).
Proof. destruct s; simpl; [discriminate|]. destruct (is c c0); congruence. Qed.
Lemma eat_ci_len c s r : eat_ci c s = Some r -> length s = S (length r).
Proof. destruct s; simpl; [discriminate|]. destruct (is c (fold_cp c0)); congruence. Qed.

Lemma span__len p s : forall acc, length (snd (span_ p acc s)) <= length s.
Proof.
  induction s as [|c r IH]; simpl; intros; [lia|].
  destruct (p c); simpl; [specialize (IH (c :: acc))|]; lia.
Qed.
Lemma span_len p s v r : span p s = (v, r) -> length r <= length s.
Proof. intros H. pose proof (span__len p s []) as L. unfold span in H. rewrite H in L. exact L. Qed.

Lemma number__len base s : forall acc, length (snd (number_ base acc s)) <= length s.
Proof.
  induction s as [|c r IH]; simpl; intros; [lia|].
  destruct (digit_val base c); simpl; [specialize (IH (acc * base + n)%N)|]; lia.
Qed.
Lemma number_len base s n r : number base s = Some (n, r) -> length r < length s.
Proof.
  destruct s as [|c s]; simpl; [discriminate|].
  destruct (digit_val base c); [|discriminate]. intros H.
  pose proof (number__len base s n0) as L. injection H as H. rewrite H in L. simpl in L. lia.
Qed.
Lemma opt_count_len s a r : opt_count s = (a, r) -> length r <= length s.
Proof.
  unfold opt_count. destruct (number 10 s) as [[n r']|] eqn:E; intros H; injection H as ? ?; subst.
  - apply number_len in E. lia.
  - lia.
Qed.

Lemma read_name_len s n r : read_name s = Some (n, r) -> length r < length s.
Proof.
  destruct s as [|c s]; simpl; [discriminate|]. destruct (is_alpha c); [|discriminate].
  destruct (span is_namechar s) eqn:E. apply span_len in E. intros H; injection H as ? ?; subst. lia.
Qed.

Lemma crlf_len s r : crlf s = Some r -> length r < length s.
Proof.
  unfold crlf. destruct (eat 13 s) eqn:E; [|discriminate]. intros H.
  apply eat_len in E. apply eat_len in H. lia.
Qed.
Lemma comment_body_len s : forall r, comment_body s = Some r -> length r < length s.
Proof.
  induction s as [|c s IH]; simpl; intros r; [discriminate|].
  destruct (is_wsp c || is_vchar c).
  - intros H. apply IH in H. lia.
  - intros H. apply crlf_len in H. simpl in H. lia.
Qed.
Lemma c_nl_len s r : c_nl s = Some r -> length r < length s.
Proof.
  unfold c_nl. destruct (eat (ch ";") s) eqn:E; intros H.
  - apply eat_len in E. apply comment_body_len in H. lia.
  - apply crlf_len in H. lia.
Qed.
Lemma c_wsp_len s r : c_wsp s = Some r -> length r < length s.
Proof.
  destruct s as [|c s]; simpl; [discriminate|]. destruct (is_wsp c).
  - intros H; injection H as ->. lia.
  - destruct (c_nl (c :: s)) as [[|w r2]|] eqn:E; try discriminate.
    apply c_nl_len in E. simpl in E. destruct (is_wsp w); [|discriminate].
    intros H; injection H as ->. lia.
Qed.
Lemma c_wsps_len f : forall s, length (c_wsps f s) <= length s.
Proof.
  induction f as [|f IH]; simpl; intros s; [lia|].
  destruct (c_wsp s) eqn:E; [|lia]. apply c_wsp_len in E. specialize (IH s0). lia.
Qed.

Lemma read_repeat_len s rp r : read_repeat s = (rp, r) -> length r <= length s.
Proof.
  unfold read_repeat. destruct (opt_count s) as [a s1] eqn:E1. apply opt_count_len in E1.
  destruct (eat (ch "*") s1) as [s2|] eqn:E2.
  - apply eat_len in E2. destruct (opt_count s2) as [b s3] eqn:E3. apply opt_count_len in E3.
    intros H; injection H as ? ?; subst. lia.
  - destruct a; intros H; injection H as ? ?; subst; lia.
Qed.

Lemma quoted_len s v r : quoted s = Some (v, r) -> length r < length s.
Proof.
  unfold quoted. destruct (eat DQUOTE s) eqn:E1; [|discriminate]. apply eat_len in E1.
  destruct (span is_qchar s0) eqn:E2. apply span_len in E2.
  destruct (eat DQUOTE s2) eqn:E3; [|discriminate]. apply eat_len in E3.
  intros H; injection H as ? ?; subst. lia.
Qed.

Lemma series_len f base : forall acc s vs r, series f base acc s = Some (vs, r) -> length r <= length s.
Proof.
  induction f as [|f IH]; cbn [series]; intros acc s vs r; [discriminate|].
  destruct (eat (ch ".") s) eqn:E1.
  - apply eat_len in E1. destruct (number base s0) as [[n r1]|] eqn:E2; [|discriminate].
    apply number_len in E2. intros H. apply IH in H. lia.
  - intros H; injection H as ? ?; subst. lia.
Qed.
Lemma num_val_len f base s e r : num_val f base s = Some (e, r) -> length r <= length s.
Proof.
  unfold num_val. destruct (number base s) as [[n r0]|] eqn:E1; [|discriminate]. apply number_len in E1.
  destruct (eat (ch "-") r0) eqn:E2.
  - apply eat_len in E2. destruct (number base s0) as [[m r2]|] eqn:E3; [|discriminate].
    apply number_len in E3. intros H; injection H as ? ?; subst. lia.
  - destruct (series f base [n] r0) as [[vs r2]|] eqn:E3; [|discriminate]. apply series_len in E3.
    intros H; injection H as ? ?; subst. lia.
Qed.

Lemma terminal_len f s e r : terminal f s = Some (e, r) -> length r <= length s.
Proof.
  destruct s as [|c s]; [discriminate|]. unfold terminal.
  destruct (is_alpha c).
  { destruct (read_name (c :: s)) as [[n r1]|] eqn:E; [|discriminate]. apply read_name_len in E.
    intros H; injection H as ? ?; subst. lia. }
  destruct (is DQUOTE c).
  { destruct (quoted (c :: s)) as [[v r1]|] eqn:E; [|discriminate]. apply quoted_len in E.
    intros H; injection H as ? ?; subst. lia. }
  destruct (is (ch "<") c).
  { destruct (span is_pchar s) as [v r1] eqn:E. apply span_len in E.
    destruct (eat (ch ">") r1) eqn:E2; [|discriminate]. apply eat_len in E2.
    intros H; injection H as ? ?; subst. simpl. lia. }
  destruct (is (ch "%") c); [|discriminate].
  destruct (eat_ci (ch "i") s) eqn:Ei.
  { apply eat_ci_len in Ei. destruct (quoted s0) as [[v r2]|] eqn:E; [|discriminate].
    apply quoted_len in E. intros H; injection H as ? ?; subst. simpl. lia. }
  destruct (eat_ci (ch "s") s) eqn:Es.
  { apply eat_ci_len in Es. destruct (quoted s0) as [[v r2]|] eqn:E; [|discriminate].
    apply quoted_len in E. intros H; injection H as ? ?; subst. simpl. lia. }
  destruct (eat_ci (ch "b") s) eqn:Eb.
  { apply eat_ci_len in Eb. intros H. apply num_val_len in H. simpl. lia. }
  destruct (eat_ci (ch "d") s) eqn:Ed.
  { apply eat_ci_len in Ed. intros H. apply num_val_len in H. simpl. lia. }
  destruct (eat_ci (ch "x") s) eqn:Ex; [|discriminate].
  apply eat_ci_len in Ex. intros H. apply num_val_len in H. simpl. lia.
Qed.

Lemma alt_f_len f : forall alts cur s e r, alt_f f alts cur s = Some (e, r) -> length r <= length s.
Proof.
  induction f as [|f IH]; intros alts cur s e r; [discriminate|].
  cbn [alt_f].
  destruct (read_repeat s) as [rp s1] eqn:E0. apply read_repeat_len in E0.
  match goal with |- match ?x with _ => _ end = _ -> _ => destruct x as [[e2 s2]|] eqn:E1 end;
    [|discriminate].
  assert (L2 : length s2 <= length s1).
  { clear - E1 IH. destruct (eat (ch "(") s1) as [r0|] eqn:Ea.
    - apply eat_len in Ea. destruct (alt_f f [] [] (c_wsps f r0)) as [[e1 r1]|] eqn:Eb; [|discriminate].
      apply IH in Eb. pose proof (c_wsps_len f r0).
      destruct (eat (ch ")") r1) eqn:Ec; [|discriminate]. apply eat_len in Ec.
      injection E1 as ? ?; subst. lia.
    - destruct (eat (ch "[") s1) as [r0|] eqn:Ea'.
      + apply eat_len in Ea'. destruct (alt_f f [] [] (c_wsps f r0)) as [[e1 r1]|] eqn:Eb; [|discriminate].
        apply IH in Eb. pose proof (c_wsps_len f r0).
        destruct (eat (ch "]") r1) eqn:Ec; [|discriminate]. apply eat_len in Ec.
        injection E1 as ? ?; subst. lia.
      + apply terminal_len in E1. exact E1. }
  clear E1. cbv zeta. pose proof (c_wsps_len f s2) as L3.
  destruct (eat (ch "/") (c_wsps f s2)) as [r0|] eqn:E4.
  - apply eat_len in E4. intros H. apply IH in H. pose proof (c_wsps_len f r0). lia.
  - destruct (starts_repetition (c_wsps f s2) && is_some (c_wsp s2)).
    + intros H. apply IH in H. lia.
    + intros H; injection H as ? ?; subst. lia.
Qed.

Lemma rule_f_len f s x r : rule_f f s = Some (x, r) -> length r < length s.
Proof.
  unfold rule_f. destruct (read_name s) as [[n s1]|] eqn:E1; [|discriminate]. apply read_name_len in E1.
  pose proof (c_wsps_len f s1) as L1.
  destruct (eat (ch "=") (c_wsps f s1)) as [s2|] eqn:E2; [|discriminate]. apply eat_len in E2.
  assert (exists incr s3,
             match eat (ch "/") s2 with Some r => (true, r) | None => (false, s2) end = (incr, s3)
             /\ length s3 <= length s2) as (incr & s3 & -> & L3).
  { destruct (eat (ch "/") s2) eqn:E3; [apply eat_len in E3|]; do 2 eexists; (split; [reflexivity|lia]). }
  cbv iota beta.
  pose proof (c_wsps_len f s3) as L4.
  destruct (alt_f f [] [] (c_wsps f s3)) as [[e s4]|] eqn:E5; [|discriminate]. apply alt_f_len in E5.
  destruct (c_nl s4) as [s5|] eqn:E6; [|discriminate]. apply c_nl_len in E6.
  intros H; injection H as ? ?; subst. lia.
Qed.

Theorem read_rule_consumes s r rest : read_rule s = Some (r, rest) -> length rest < length s.
Proof. apply rule_f_len. Qed.

Theorem read_elements_len s e rest : read_elements s = Some (e, rest) -> length rest <= length s.
Proof. apply alt_f_len. Qed.
