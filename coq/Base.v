(* Base.v — data shared by every model file: code points, strings, parse trees, matches,
   and the list model of a Python [set] of [Match] objects.
   MODEL ONLY: no proofs here, so the model still runs when a proof breaks. *)
From Coq Require Import List NArith Arith Bool.
Import ListNotations.

Definition cp := N.                 (* a Unicode code point (any N; the valid domain is <= 0x10FFFF) *)
Definition str := list cp.          (* a Python str *)

(* parse trees: LiteralNode(value, offset, length) and Node(name, children..) *)
Inductive node :=
| Leaf (v : str) (off len : nat)
| Nd (name : str) (ch : list node).

Fixpoint nvalue (n : node) : str :=
  match n with
  | Leaf v _ _ => v
  | Nd _ ch => flat_map nvalue ch
  end.
Definition nsvalue (ns : list node) : str := flat_map nvalue ns.

(* Match(nodes, start): the field the code calls [start] is the END offset of the match *)
Record mtch := mk { nodes : list node; mend : nat }.

(* outcome of an [lparse] call: the matches in the order the generator yields them, or the
   exception it raises; OOF = the model ran out of fuel (no counterpart in the code) *)
Inductive res := Ok (ms : list mtch) | PErr | GErr | OOF.

(* ---- strings ---- *)
Definition slice (s : str) (i n : nat) : str := firstn n (skipn i s).   (* s[i:i+n] *)

(* RFC 5234 2.3 / parser.py ASCII_CASEFOLD: A-Z -> a-z, everything else unchanged *)
Definition fold_cp (c : cp) : cp :=
  if (65 <=? c)%N && (c <=? 90)%N then (c + 32)%N else c.
Definition fold_str (s : str) : str := map fold_cp s.

Fixpoint str_eqb (a b : str) : bool :=
  match a, b with
  | [], [] => true
  | x :: a', y :: b' => N.eqb x y && str_eqb a' b'
  | _, _ => false
  end.

(* ---- Python set of Match: insertion-ordered list, unique keys (value, end); the element that
   was inserted first is the one that stays (CPython set.add / set.update / set.__or__) ---- *)
Definition key_eqb (a b : mtch) : bool :=
  Nat.eqb (mend a) (mend b) && str_eqb (nsvalue (nodes a)) (nsvalue (nodes b)).

Definition mem (m : mtch) (l : list mtch) : bool := existsb (key_eqb m) l.
Definition add (l : list mtch) (m : mtch) : list mtch := if mem m l then l else l ++ [m].
Definition set_of (l : list mtch) : list mtch := fold_left add l [].      (* set(iterable) *)
Definition union (a b : list mtch) : list mtch := fold_left add b a.      (* a | b *)
Definition subset (a b : list mtch) : bool := forallb (fun m => mem m b) a.  (* a <= b *)

(* sorted(xs, key=lambda m: m.start, reverse=True): stable, descending by end *)
Fixpoint ins (m : mtch) (l : list mtch) : list mtch :=
  match l with
  | [] => [m]
  | x :: l' => if Nat.ltb (mend x) (mend m) then m :: l else x :: ins m l'
  end.
Definition sort_desc (l : list mtch) : list mtch := fold_left (fun acc m => ins m acc) l [].

Definition ends (r : res) : list nat :=
  match r with Ok ms => map mend ms | _ => [] end.
Definition has (ms : list mtch) (j : nat) : Prop := exists m, In m ms /\ mend m = j.
