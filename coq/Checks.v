(* Checks.v — boolean checkers for the side conditions of the theorems (bounds, plainness),
   with soundness proofs, so that obligations over concrete / generated grammars close by vm_compute. *)
From Coq Require Import List NArith Arith Bool Lia.
Import ListNotations.
From ABNF Require Import Base Engine Spec.

(* induction principle for the nested inductive [expr] *)
Section ExprInd.
  Variable P : expr -> Prop.
  Hypothesis Hlit : forall cs v, P (ELit cs v).
  Hypothesis Hrange : forall lo hi, P (ERange lo hi).
  Hypothesis Halt : forall fm es, Forall P es -> P (EAlt fm es).
  Hypothesis Hcat : forall es, Forall P es -> P (ECat es).
  Hypothesis Hrep : forall id mn mx e, P e -> P (ERep id mn mx e).
  Hypothesis Hprose : P EProse.
  Hypothesis Href : forall r, P (ERef r).
  Fixpoint expr_ind2 (e : expr) : P e :=
    match e with
    | ELit cs v => Hlit cs v
    | ERange lo hi => Hrange lo hi
    | EAlt fm es => Halt fm es ((fix go (l : list expr) : Forall P l :=
        match l with [] => Forall_nil P | x :: r => Forall_cons x (expr_ind2 x) (go r) end) es)
    | ECat es => Hcat es ((fix go (l : list expr) : Forall P l :=
        match l with [] => Forall_nil P | x :: r => Forall_cons x (expr_ind2 x) (go r) end) es)
    | ERep id mn mx e' => Hrep id mn mx e' (expr_ind2 e')
    | EProse => Hprose
    | ERef r => Href r
    end.
End ExprInd.

Fixpoint wbb (e : expr) : bool :=
  match e with
  | EAlt _ es => forallb wbb es
  | ECat es => forallb wbb es
  | ERep _ mn mx e' => (match mx with Some m => Nat.leb mn m | None => true end) && wbb e'
  | _ => true
  end.

Fixpoint nofmb (e : expr) : bool :=
  match e with
  | EAlt fm es => negb fm && forallb nofmb es
  | ECat es => forallb nofmb es
  | ERep _ _ _ e' => nofmb e'
  | _ => true
  end.

Lemma wbb_sound e : wbb e = true -> WB e.
Proof.
  induction e as [cs v|lo hi|fm es IH|es IH|id mn mx e IH| |r] using expr_ind2; simpl; intros H;
    try constructor.
  - rewrite forallb_forall in H. rewrite Forall_forall in *. intros x Hx. apply IH; auto.
  - rewrite forallb_forall in H. rewrite Forall_forall in *. intros x Hx. apply IH; auto.
  - apply andb_true_iff in H. destruct H as [H1 _]. intros m ->. apply Nat.leb_le. exact H1.
  - apply andb_true_iff in H. destruct H as [_ H2]. auto.
Qed.

Lemma nofmb_sound e : nofmb e = true -> NoFM e.
Proof.
  induction e as [cs v|lo hi|fm es IH|es IH|id mn mx e IH| |r] using expr_ind2; simpl; intros H;
    try (constructor; fail).
  - apply andb_true_iff in H. destruct H as [H1 H2]. destruct fm; [discriminate|].
    constructor. rewrite forallb_forall in H2. rewrite Forall_forall in *. intros x Hx. apply IH; auto.
  - constructor. rewrite forallb_forall in H. rewrite Forall_forall in *. intros x Hx. apply IH; auto.
  - constructor. auto.
Qed.

(* grammars given as association lists *)
Lemma of_list_In l r ru : of_list l r = Some ru -> In (r, ru) l.
Proof.
  unfold of_list. destruct (find (fun p => N.eqb (fst p) r) l) as [p|] eqn:E; [|discriminate].
  intros H; inversion H; subst. apply find_some in E. destruct E as [Hin Heq].
  apply N.eqb_eq in Heq. destruct p as [a b]; simpl in *; subst. exact Hin.
Qed.

Definition wbg_check (l : list (rid * rule)) : bool :=
  forallb (fun p => match rdef (snd p) with Some d => wbb d | None => true end) l.
Definition plain_check (l : list (rid * rule)) : bool :=
  forallb (fun p => match rexcl (snd p) with None => true | Some _ => false end &&
                    match rdef (snd p) with Some d => nofmb d | None => true end) l.

Lemma wbg_check_sound l : wbg_check l = true -> WBG (of_list l).
Proof.
  unfold wbg_check. rewrite forallb_forall. intros H r ru d HG Hd.
  apply of_list_In in HG. specialize (H _ HG). simpl in H. rewrite Hd in H. apply wbb_sound; exact H.
Qed.

Lemma plain_check_sound l : plain_check l = true -> plain (of_list l).
Proof.
  unfold plain_check. rewrite forallb_forall. intros H r ru HG.
  apply of_list_In in HG. specialize (H _ HG). simpl in H. apply andb_true_iff in H.
  destruct H as [H1 H2]. split.
  - destruct (rexcl ru); [discriminate|reflexivity].
  - intros d Hd. rewrite Hd in H2. apply nofmb_sound; exact H2.
Qed.
