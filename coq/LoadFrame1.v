(* LoadFrame1.v — C14, stage 1: the FRAME theorem of the loader at index level, for ALL registries.
   What [load_class classes g R] (class number c) can do to a registry:
   - objects: an existing object keeps its position, class, key, spelling and exclusion; only its [odef] can
     change, and only if it is "touched": it belongs to class c, or it is a CORE object (class 0) whose key is
     one of the names g defines / imports under / flags (fall-back of Rule.get to the base class);
   - every object appended by a SUCCESSFUL load belongs to class c (an import that does not resolve creates a
     placeholder in the source class, but then the load raises: [apply_imports_defined]);
   - definitions: only appended to, except that a flag statement may rewrite the top-level first-match flag of
     a definition that is the definition of a touched object.
   Lifted to [load_classes].  No axioms. *)
From Coq Require Import List NArith Arith Bool Lia.
Import ListNotations.
From ABNF Require Import Base Engine AbnfRead Registry EngineSound RegistryProps GenTypes Loader.

(* ------------------------------------------------------------------------------------------ *)
(* A. vocabulary                                                                               *)
(* ------------------------------------------------------------------------------------------ *)
(* same object but for the definition index *)
Definition sbd (o o' : robj) : Prop :=
  ocls o' = ocls o /\ okey o' = okey o /\ oname o' = oname o /\ oexcl o' = oexcl o.
Lemma sbd_refl o : sbd o o.
Proof. repeat split. Qed.
Lemma sbd_trans o1 o2 o3 : sbd o1 o2 -> sbd o2 o3 -> sbd o1 o3.
Proof. intros (A1 & A2 & A3 & A4) (B1 & B2 & B3 & B4). repeat split; congruence. Qed.

(* the objects a load of class c with the given names may rebind *)
Definition touched (c : cls) (names : list str) (o : robj) : Prop :=
  ocls o = c \/ (ocls o = 0%N /\ In (okey o) (map fold_name names)).
Lemma touched_sbd c names o o' : sbd o o' -> touched c names o -> touched c names o'.
Proof. intros (A1 & A2 & _) [H|[H1 H2]]; [left|right]; [congruence|split; congruence]. Qed.
Lemma touched_sbd_rev c names o o' : sbd o o' -> touched c names o' -> touched c names o.
Proof. intros (A1 & A2 & _) [H|[H1 H2]]; [left|right]; [congruence|split; congruence]. Qed.
Lemma touched_mono c n1 n2 o : incl n1 n2 -> touched c n1 o -> touched c n2 o.
Proof.
  intros Hi [H|[H1 H2]]; [left; exact H|right; split; [exact H1|]].
  apply in_map_iff in H2. destruct H2 as (x & Hx & Hin). apply in_map_iff. exists x; auto.
Qed.

Definition mod_objs (c : cls) (names : list str) (R R' : reg) : Prop :=
  forall j o, nth_error (objs R) j = Some o ->
    exists o', nth_error (objs R') j = Some o' /\ sbd o o' /\ (o' = o \/ touched c names o).
Definition new_cls (c : cls) (R R' : reg) : Prop :=
  forall j o', nth_error (objs R') j = Some o' -> length (objs R) <= j -> ocls o' = c.
Definition keep_defs (R R' : reg) : Prop :=
  forall d e, nth_error (defs R) d = Some e -> nth_error (defs R') d = Some e.

Lemma mod_objs_refl c names R : mod_objs c names R R.
Proof. intros j o Hj. exists o. split; [exact Hj|]. split; [apply sbd_refl|left; reflexivity]. Qed.
Lemma mod_objs_trans c names R1 R2 R3 :
  mod_objs c names R1 R2 -> mod_objs c names R2 R3 -> mod_objs c names R1 R3.
Proof.
  intros H12 H23 j o Hj. destruct (H12 j o Hj) as (o2 & Hj2 & S2 & T2).
  destruct (H23 j o2 Hj2) as (o3 & Hj3 & S3 & T3). exists o3. split; [exact Hj3|].
  split; [eapply sbd_trans; eauto|].
  destruct T3 as [->|T3]; [exact T2|]. right. eapply touched_sbd_rev; eauto.
Qed.
Lemma mod_objs_mono c n1 n2 R R' : incl n1 n2 -> mod_objs c n1 R R' -> mod_objs c n2 R R'.
Proof.
  intros Hi H j o Hj. destruct (H j o Hj) as (o' & A & B & C). exists o'. split; [exact A|].
  split; [exact B|]. destruct C as [C|C]; [left; exact C|right; eapply touched_mono; eauto].
Qed.
Lemma mod_objs_len c names R R' : mod_objs c names R R' -> length (objs R) <= length (objs R').
Proof.
  intros H. destruct (Nat.le_gt_cases (length (objs R)) (length (objs R'))) as [L|L]; [exact L|].
  exfalso. destruct (nth_error (objs R) (length (objs R'))) as [o|] eqn:E.
  - destruct (H _ _ E) as (o' & A & _).
    assert (length (objs R') < length (objs R')) by (apply nth_error_Some; rewrite A; discriminate). lia.
  - apply nth_error_None in E. lia.
Qed.
Lemma new_cls_refl c R : new_cls c R R.
Proof.
  intros j o' Hj Hle. exfalso.
  assert (j < length (objs R)) by (apply nth_error_Some; rewrite Hj; discriminate). lia.
Qed.
Lemma new_cls_trans c names R1 R2 R3 :
  mod_objs c names R2 R3 -> new_cls c R1 R2 -> new_cls c R2 R3 -> new_cls c R1 R3.
Proof.
  intros M N12 N23 j o3 Hj Hle.
  destruct (Nat.lt_ge_cases j (length (objs R2))) as [L|L].
  - destruct (nth_error (objs R2) j) as [o2|] eqn:E; [|apply nth_error_None in E; lia].
    destruct (M _ _ E) as (o' & A & (B & _) & _). rewrite Hj in A. inversion A; subst o'.
    rewrite B. eapply N12; eauto.
  - eapply N23; eauto.
Qed.
Lemma keep_defs_refl R : keep_defs R R.
Proof. intros d e H; exact H. Qed.
Lemma keep_defs_trans R1 R2 R3 : keep_defs R1 R2 -> keep_defs R2 R3 -> keep_defs R1 R3.
Proof. intros A B d e H. apply B, A, H. Qed.
Lemma keep_defs_len R R' : keep_defs R R' -> length (defs R) <= length (defs R').
Proof.
  intros H. destruct (Nat.le_gt_cases (length (defs R)) (length (defs R'))) as [L|L]; [exact L|].
  exfalso. destruct (nth_error (defs R) (length (defs R'))) as [e|] eqn:E.
  - apply H in E.
    assert (length (defs R') < length (defs R')) by (apply nth_error_Some; rewrite E; discriminate). lia.
  - apply nth_error_None in E. lia.
Qed.

(* a phase that works for class c *)
Definition cframe (c : cls) (names : list str) (R R' : reg) : Prop :=
  mod_objs c names R R' /\ new_cls c R R' /\ keep_defs R R'.
Lemma cframe_refl c names R : cframe c names R R.
Proof. split; [apply mod_objs_refl|split; [apply new_cls_refl|apply keep_defs_refl]]. Qed.
Lemma cframe_trans c names R1 R2 R3 : cframe c names R1 R2 -> cframe c names R2 R3 -> cframe c names R1 R3.
Proof.
  intros (A1 & A2 & A3) (B1 & B2 & B3). split; [eapply mod_objs_trans; eauto|].
  split; [eapply new_cls_trans; eauto|eapply keep_defs_trans; eauto].
Qed.
Lemma cframe_mono c n1 n2 R R' : incl n1 n2 -> cframe c n1 R R' -> cframe c n2 R R'.
Proof. intros Hi (A & B & C). split; [eapply mod_objs_mono; eauto|auto]. Qed.

(* ------------------------------------------------------------------------------------------ *)
(* B. the primitives                                                                           *)
(* ------------------------------------------------------------------------------------------ *)
Lemma ext_cframe c names R R1 : ext c R R1 -> cframe c names R R1.
Proof.
  intros (l & HO & HF & HD & _). split; [|split].
  - intros j o Hj. exists o. split; [|split; [apply sbd_refl|left; reflexivity]].
    rewrite HO, nth_error_app1; [exact Hj|]. apply nth_error_Some. rewrite Hj. discriminate.
  - intros j o' Hj Hle. rewrite HO, nth_error_app2 in Hj by exact Hle.
    apply nth_error_In in Hj. rewrite Forall_forall in HF. apply (HF _ Hj).
  - intros d e Hd. rewrite HD. exact Hd.
Qed.
Lemma ext_prefix c R R1 j o : ext c R R1 -> nth_error (objs R) j = Some o -> nth_error (objs R1) j = Some o.
Proof.
  intros (l & HO & _) Hj. rewrite HO, nth_error_app1; [exact Hj|].
  apply nth_error_Some. rewrite Hj. discriminate.
Qed.

Lemma rnew_touched R c nm R1 k : rnew R c nm = (R1, k) ->
  exists o, nth_error (objs R1) k = Some o /\ touched c [nm] o /\ okey o = fold_name nm.
Proof.
  unfold rnew. destruct (rget R c nm) as [m|] eqn:E; intros H; inversion H; subst; clear H.
  - apply rget_own_or_core in E. destruct E as (o & Hn & Hk & Hc). exists o. split; [exact Hn|].
    split; [|exact Hk]. destruct Hc as [Hc|Hc]; [left; exact Hc|right]. split; [exact Hc|].
    simpl. left. symmetry; exact Hk.
  - simpl. rewrite nth_error_app2 by lia. rewrite Nat.sub_diag. simpl. eexists. split; [reflexivity|].
    split; [left; reflexivity|reflexivity].
Qed.

Lemma set_def_idx_cframe c names R n d :
  (forall o, nth_error (objs R) n = Some o -> touched c names o) -> cframe c names R (set_def_idx R n d).
Proof.
  intros HT. split; [|split].
  - intros j o Hj. unfold set_def_idx; simpl. destruct (Nat.eq_dec j n) as [->|Hne].
    + rewrite nth_error_upd_nth_same, Hj. simpl. eexists. split; [reflexivity|].
      split; [repeat split|right; apply HT; exact Hj].
    + rewrite nth_error_upd_nth_other by exact Hne. exists o. split; [exact Hj|].
      split; [apply sbd_refl|left; reflexivity].
  - intros j o' Hj Hle. exfalso. unfold set_def_idx in Hj; simpl in Hj.
    assert (j < length (upd_nth (objs R) n (fun o => mko (ocls o) (okey o) (oname o) (Some d) (oexcl o))))
      by (apply nth_error_Some; rewrite Hj; discriminate).
    rewrite upd_nth_length in H. lia.
  - intros k e Hk. exact Hk.
Qed.

Lemma set_def_new_cframe c names R n e :
  (forall o, nth_error (objs R) n = Some o -> touched c names o) -> cframe c names R (set_def_new R n e).
Proof.
  intros HT. unfold set_def_new.
  set (Ra := mkr (objs R) (defs R ++ [e]) (nextid R) (epoch R)).
  apply (cframe_trans c names R Ra).
  - split; [exact (mod_objs_refl c names R)|split; [exact (new_cls_refl c R)|]].
    intros d x Hd. simpl. rewrite nth_error_app1; [exact Hd|]. apply nth_error_Some. rewrite Hd. discriminate.
  - apply (set_def_idx_cframe c names Ra n (length (defs R))). exact HT.
Qed.

Lemma define_rule_cframe c a R R' : define_rule c a R = Some R' -> cframe c [aname a] R R'.
Proof.
  intros H. apply define_rule_shape in H. destruct H as (R1 & n & R2 & e & e' & H1 & H2 & ->).
  pose proof (rnew_ext _ _ _ _ _ H1) as E1. pose proof (compile_ext _ _ _ _ _ H2) as E2.
  destruct (rnew_touched _ _ _ _ _ H1) as (o & Ho & HT & _).
  apply (cframe_trans c _ R R2); [apply ext_cframe; eapply ext_trans; eauto|].
  apply set_def_new_cframe. intros o' Ho'. rewrite (ext_prefix _ _ _ _ _ E2 Ho) in Ho'.
  inversion Ho'; subst o'. exact HT.
Qed.

Lemma define_rules_cframe c l : forall R R', define_rules c l R = Some R' -> cframe c (map aname l) R R'.
Proof.
  induction l as [|a r IH]; intros R R' H; simpl in H.
  - inversion H; subst. apply cframe_refl.
  - destruct (define_rule c a R) as [Ra|] eqn:E; [|discriminate].
    apply (cframe_trans c _ R Ra).
    + eapply cframe_mono; [|eapply define_rule_cframe; eauto]. intros x [<-|[]]. left; reflexivity.
    + eapply cframe_mono; [|eapply IH; eauto]. intros x Hx. right; exact Hx.
Qed.

Lemma import_rule_cframe c nm src R R' : import_rule c nm src R = Some R' -> cframe c [nm] R R'.
Proof.
  unfold import_rule. destruct (nth_error (objs R) src) as [o|]; [|discriminate].
  destruct (odef o) as [d|]; [|discriminate].
  destruct (rnew R c nm) as [R1 n] eqn:E1. intros H. inversion H; subst; clear H.
  destruct (rnew_touched _ _ _ _ _ E1) as (o1 & Ho1 & HT & _).
  apply (cframe_trans c _ R R1); [apply ext_cframe; eapply rnew_ext; eauto|].
  apply set_def_idx_cframe. intros o' Ho'. rewrite Ho1 in Ho'. inversion Ho'; subst. exact HT.
Qed.

Lemma apply_imports_cframe c imps : forall R R', apply_imports c imps R = Some R' ->
  cframe c (map fst imps) R R'.
Proof.
  induction imps as [|[local n] r IH]; intros R R' H; simpl in H.
  - inversion H; subst. apply cframe_refl.
  - destruct (import_rule c local n R) as [Ra|] eqn:E; [|discriminate].
    apply (cframe_trans c _ R Ra).
    + eapply cframe_mono; [|eapply import_rule_cframe; eauto]. intros x [<-|[]]. left; reflexivity.
    + eapply cframe_mono; [|eapply IH; eauto]. intros x Hx. right; exact Hx.
Qed.

(* ---- own text(s) ---- *)
Fixpoint read_all (ts : list str) : option (list arule) :=
  match ts with
  | [] => Some []
  | t :: r => match read_rule (ensure_crlf t) with
              | Some (a, []) => match read_all r with Some l => Some (a :: l) | None => None end
              | _ => None
              end
  end.
(* the rules a class defines itself, in definition order *)
Definition own_rules (g : gclass) : option (list arule) :=
  if gkind_list g then read_all (gtexts g)
  else match gtexts g with [t] => read_rulelist (normalise t) | _ => None end.
Definition own_load (c : cls) (g : gclass) (R : reg) : option reg :=
  if gkind_list g then create_all c (gtexts g) R
  else match gtexts g with [t] => load_grammar c t true R | _ => None end.

Lemma create_all_rules c ts : forall R R2, create_all c ts R = Some R2 ->
  exists l, read_all ts = Some l /\ define_rules c l R = Some R2.
Proof.
  induction ts as [|t r IH]; intros R R2 H; simpl in H.
  - inversion H; subst. exists []. split; reflexivity.
  - destruct (create c t R) as [Ra|] eqn:E; [|discriminate]. unfold create in E. simpl.
    destruct (read_rule (ensure_crlf t)) as [[a [|x s]]|]; try discriminate.
    destruct (IH _ _ H) as (l & Hl & Hd). rewrite Hl. exists (a :: l). split; [reflexivity|].
    simpl. rewrite E. exact Hd.
Qed.
Lemma own_load_rules c g R R2 : own_load c g R = Some R2 ->
  exists l, own_rules g = Some l /\ define_rules c l R = Some R2.
Proof.
  unfold own_load, own_rules. destruct (gkind_list g).
  - apply create_all_rules.
  - destruct (gtexts g) as [|t [|t2 r]]; try discriminate. unfold load_grammar.
    destruct (read_rulelist (normalise t)) as [l|]; [|discriminate]. intros H. exists l. auto.
Qed.

(* ---- flags ---- *)
Definition flag_eq (e e' : expr) : Prop := e' = e \/ exists fm fm' es, e = EAlt fm es /\ e' = EAlt fm' es.
Lemma flag_eq_refl e : flag_eq e e.
Proof. left; reflexivity. Qed.
Lemma flag_eq_trans e1 e2 e3 : flag_eq e1 e2 -> flag_eq e2 e3 -> flag_eq e1 e3.
Proof.
  intros [->|(f1 & f2 & es & -> & ->)] [->|(g1 & g2 & es' & E & ->)].
  - left; reflexivity.
  - right; eauto.
  - right; eauto.
  - inversion E; subst. right; eauto.
Qed.

(* a flag phase: objects only appended (class c, undefined); definitions keep their number and change at most in
   the top-level flag, and only when they are the definition of a touched object *)
Definition fframe (c : cls) (names : list str) (R R' : reg) : Prop :=
  (exists l, objs R' = objs R ++ l /\ Forall (fun o => ocls o = c /\ odef o = None) l) /\
  length (defs R') = length (defs R) /\
  forall d e, nth_error (defs R) d = Some e ->
    exists e', nth_error (defs R') d = Some e' /\ flag_eq e e' /\
      (e' = e \/ exists j o, nth_error (objs R) j = Some o /\ touched c names o /\ odef o = Some d).
Lemma fframe_refl c names R : fframe c names R R.
Proof.
  split; [exists []; rewrite app_nil_r; auto|]. split; [reflexivity|].
  intros d e H. exists e. split; [exact H|]. split; [apply flag_eq_refl|left; reflexivity].
Qed.
Lemma fframe_trans c names R1 R2 R3 : fframe c names R1 R2 -> fframe c names R2 R3 -> fframe c names R1 R3.
Proof.
  intros ((l1 & O1 & F1) & L1 & D1) ((l2 & O2 & F2) & L2 & D2). split; [|split].
  - exists (l1 ++ l2). rewrite O2, O1, app_assoc. split; [reflexivity|]. apply Forall_app; auto.
  - congruence.
  - intros d e Hd. destruct (D1 d e Hd) as (e2 & Hd2 & Q2 & W2).
    destruct (D2 d e2 Hd2) as (e3 & Hd3 & Q3 & W3). exists e3. split; [exact Hd3|].
    split; [eapply flag_eq_trans; eauto|].
    destruct W3 as [->|(j & o & Hj & HT & Ho)]; [exact W2|]. right.
    rewrite O1 in Hj. destruct (Nat.lt_ge_cases j (length (objs R1))) as [L|L].
    + rewrite nth_error_app1 in Hj by exact L. eauto.
    + rewrite nth_error_app2 in Hj by exact L. apply nth_error_In in Hj.
      rewrite Forall_forall in F1. destruct (F1 _ Hj) as [_ N]. congruence.
Qed.
Lemma fframe_mono c n1 n2 R R' : incl n1 n2 -> fframe c n1 R R' -> fframe c n2 R R'.
Proof.
  intros Hi (A & B & C). split; [exact A|]. split; [exact B|]. intros d e Hd.
  destruct (C d e Hd) as (e' & X & Y & Z). exists e'. split; [exact X|]. split; [exact Y|].
  destruct Z as [Z|(j & o & Z1 & Z2 & Z3)]; [left; exact Z|right]. exists j, o.
  split; [exact Z1|]. split; [eapply touched_mono; eauto|exact Z3].
Qed.
Lemma ext_fframe c names R R1 : ext c R R1 -> fframe c names R R1.
Proof.
  intros (l & HO & HF & HD & _). split; [exists l; auto|]. split; [congruence|].
  intros d e Hd. exists e. rewrite HD. split; [exact Hd|]. split; [apply flag_eq_refl|left; reflexivity].
Qed.

Lemma set_flag_shape n v R R' : set_flag n v R = Some R' ->
  exists o d e, nth_error (objs R) n = Some o /\ odef o = Some d /\ nth_error (defs R) d = Some e /\
    objs R' = objs R /\
    (R' = R \/ exists fm es, e = EAlt fm es /\ defs R' = upd_nth (defs R) d (fun _ => EAlt v es)).
Proof.
  unfold set_flag. destruct (nth_error (objs R) n) as [o|]; [|discriminate].
  destruct (odef o) as [d|] eqn:Ed; [|discriminate].
  destruct (nth_error (defs R) d) as [e|] eqn:Ee; [|discriminate].
  intros H. exists o, d, e. split; [reflexivity|]. split; [exact Ed|]. split; [exact Ee|].
  destruct e; inversion H; subst; try (split; [reflexivity|left; reflexivity]).
  simpl. split; [reflexivity|]. right. eauto.
Qed.

Lemma set_flag_fframe c names n v R R' :
  (forall o, nth_error (objs R) n = Some o -> touched c names o) ->
  set_flag n v R = Some R' -> fframe c names R R' /\ objs R' = objs R.
Proof.
  intros HT H. destruct (set_flag_shape _ _ _ _ H) as (o & d & e & Ho & Hd & He & HO & HR).
  split; [|exact HO]. destruct HR as [->|(fm & es & -> & HD)]; [apply fframe_refl|].
  split; [exists []; rewrite app_nil_r; auto|]. split; [rewrite HD; apply upd_nth_length|].
  intros d' e' Hd'. rewrite HD. destruct (Nat.eq_dec d' d) as [->|Hne].
  - rewrite nth_error_upd_nth_same, He. simpl. eexists. split; [reflexivity|].
    rewrite He in Hd'. inversion Hd'; subst e'. split; [right; eauto|].
    right. exists n, o. split; [exact Ho|]. split; [apply HT; exact Ho|exact Hd].
  - rewrite nth_error_upd_nth_other by exact Hne. exists e'. split; [exact Hd'|].
    split; [apply flag_eq_refl|left; reflexivity].
Qed.

Lemma set_flags_fframe c names l v : forall R R',
  (forall n o, In n l -> nth_error (objs R) n = Some o -> touched c names o) ->
  set_flags l v R = Some R' -> fframe c names R R' /\ objs R' = objs R.
Proof.
  induction l as [|n r IH]; intros R R' HT H; simpl in H.
  - inversion H; subst. split; [apply fframe_refl|reflexivity].
  - destruct (set_flag n v R) as [Ra|] eqn:E; [|discriminate].
    destruct (set_flag_fframe c names n v R Ra (fun o => HT n o (or_introl eq_refl)) E) as [F1 O1].
    destruct (IH Ra R') as [F2 O2]; [|exact H|].
    + intros m o Hm. rewrite O1. apply HT. right; exact Hm.
    + split; [eapply fframe_trans; eauto|congruence].
Qed.

(* the guarded loop of rfc3987, named *)
Section OwnLoop.
Variables (src : cls) (v : bool).
Fixpoint own_loop (l : list nat) (R0 : reg) : option reg :=
  match l with
  | [] => Some R0
  | n :: r =>
    match odef_of R0 n with
    | None => None
    | Some d =>
      let shared := match rget R0 src (oname_of R0 n) with
                    | Some k => match odef_of R0 k with Some d' => Nat.eqb d d' | None => false end
                    | None => false
                    end in
      if shared then own_loop r R0
      else match set_flag n v R0 with Some R1 => own_loop r R1 | None => None end
    end
  end.
End OwnLoop.
Lemma apply_flag_own classes c m sc v R :
  apply_flag classes c (FlagOwnNotSharedWith m sc v) R =
  match cls_of classes m sc with Some src => own_loop src v (rules_of c R) R | None => None end.
Proof. reflexivity. Qed.

Lemma own_loop_fframe c names src v l : forall R R',
  (forall n o, In n l -> nth_error (objs R) n = Some o -> touched c names o) ->
  own_loop src v l R = Some R' -> fframe c names R R' /\ objs R' = objs R.
Proof.
  induction l as [|n r IH]; intros R R' HT H; simpl in H.
  - inversion H; subst. split; [apply fframe_refl|reflexivity].
  - destruct (odef_of R n) as [d|]; [|discriminate].
    destruct (match rget R src (oname_of R n) with
              | Some k => match odef_of R k with Some d' => Nat.eqb d d' | None => false end
              | None => false end).
    + apply IH; [|exact H]. intros m o Hm. apply HT. right; exact Hm.
    + destruct (set_flag n v R) as [Ra|] eqn:E; [|discriminate].
      destruct (set_flag_fframe c names n v R Ra (fun o => HT n o (or_introl eq_refl)) E) as [F1 O1].
      destruct (IH Ra R') as [F2 O2]; [|exact H|].
      * intros m o Hm. rewrite O1. apply HT. right; exact Hm.
      * split; [eapply fframe_trans; eauto|congruence].
Qed.

Lemma in_combine_seq {A} (l : list A) : forall s n (o : A),
  In (n, o) (combine (seq s (length l)) l) -> s <= n /\ nth_error l (n - s) = Some o.
Proof.
  induction l as [|x r IH]; intros s n o H; simpl in H; [contradiction|].
  destruct H as [H|H].
  - inversion H; subst. split; [lia|]. rewrite Nat.sub_diag. reflexivity.
  - apply IH in H. destruct H as [Hle Hn]. split; [lia|].
    replace (n - s) with (S (n - S s)) by lia. exact Hn.
Qed.
Lemma rules_of_spec c R n : In n (rules_of c R) -> exists o, nth_error (objs R) n = Some o /\ ocls o = c.
Proof.
  unfold rules_of. intros H. apply in_map_iff in H. destruct H as ([n' o] & <- & H). simpl.
  apply filter_In in H. destruct H as [H Hc]. simpl in Hc. apply N.eqb_eq in Hc.
  apply in_combine_seq in H. destruct H as [_ H]. rewrite Nat.sub_0_r in H. exists o; auto.
Qed.

Definition flag_names (l : list flagstmt) : list str :=
  flat_map (fun f => match f with FlagRule n _ => [n] | _ => [] end) l.

Lemma apply_flag_fframe classes c f R R' : apply_flag classes c f R = Some R' ->
  fframe c (flag_names [f]) R R'.
Proof.
  destruct f as [name v|v|m sc v].
  - simpl. destruct (rnew R c name) as [R1 n] eqn:E1. intros H.
    destruct (rnew_touched _ _ _ _ _ E1) as (o & Ho & HT & _).
    apply (fframe_trans c _ R R1); [apply ext_fframe; eapply rnew_ext; eauto|].
    apply (set_flag_fframe c [name] n v R1 R'); [|exact H].
    intros o' Ho'. rewrite Ho in Ho'. inversion Ho'; subst. exact HT.
  - simpl. intros H. apply (set_flags_fframe c [] (rules_of c R) v R R'); [|exact H].
    intros n o Hn Ho. apply rules_of_spec in Hn. destruct Hn as (o' & Ho' & Hc).
    rewrite Ho in Ho'. inversion Ho'; subst. left; reflexivity.
  - rewrite apply_flag_own. destruct (cls_of classes m sc) as [src|]; [|discriminate]. intros H.
    apply (own_loop_fframe c [] src v (rules_of c R) R R'); [|exact H].
    intros n o Hn Ho. apply rules_of_spec in Hn. destruct Hn as (o' & Ho' & Hc).
    rewrite Ho in Ho'. inversion Ho'; subst. left; reflexivity.
Qed.

Lemma apply_flags_fframe classes c l : forall R R', apply_flags classes c l R = Some R' ->
  fframe c (flag_names l) R R'.
Proof.
  induction l as [|f r IH]; intros R R' H; simpl in H.
  - inversion H; subst. apply fframe_refl.
  - destruct (apply_flag classes c f R) as [Ra|] eqn:E; [|discriminate].
    apply (fframe_trans c _ R Ra).
    + eapply fframe_mono; [|eapply apply_flag_fframe; eauto].
      unfold flag_names. simpl. rewrite app_nil_r. intros x Hx. apply in_or_app. left; exact Hx.
    + eapply fframe_mono; [|eapply IH; eauto].
      unfold flag_names. simpl. intros x Hx. apply in_or_app. right; exact Hx.
Qed.

(* ------------------------------------------------------------------------------------------ *)
(* C. the decorator's import list                                                              *)
(* ------------------------------------------------------------------------------------------ *)
Lemma cls_of_ge2 classes m c sc : cls_of classes m c = Some sc -> (2 <= sc)%N.
Proof. unfold cls_of. destruct (class_index classes m c 0); intros H; inversion H. lia. Qed.

Lemma rget_none_prefix R R1 l sc rn : objs R1 = objs R ++ l -> rget R1 sc rn = None -> rget R sc rn = None.
Proof.
  unfold rget. intros HO. rewrite HO, !find_obj_app.
  destruct (find_obj sc (fold_name rn) (objs R) 0); [discriminate|].
  destruct (find_obj sc (fold_name rn) l (0 + length (objs R))); [discriminate|].
  destruct (find_obj 0%N (fold_name rn) (objs R) 0); [discriminate|]. reflexivity.
Qed.

(* an object created by the evaluation of the import list: an undefined rule of the SOURCE class of an import
   whose name that class (and the core) did not have *)
Definition placeholder (classes : list gclass) (l : list (str * (str * str * str))) (R : reg)
           (imps : list (str * nat)) (j : nat) (o : robj) : Prop :=
  odef o = None /\ oexcl o = None /\ (2 <= ocls o)%N /\
  exists local m c' rn, In (local, (m, c', rn)) l /\ cls_of classes m c' = Some (ocls o) /\
    okey o = fold_name rn /\ oname o = rn /\ rget R (ocls o) rn = None /\ In (local, j) imps.

Lemma eval_imports_spec classes l : forall R R1 imps, eval_imports classes l R = Some (R1, imps) ->
  (exists pl, objs R1 = objs R ++ pl) /\ defs R1 = defs R /\ map fst imps = map fst l /\
  (forall j o, nth_error (objs R1) j = Some o -> length (objs R) <= j -> placeholder classes l R imps j o).
Proof.
  induction l as [|[local [[m c'] rn]] r IH]; intros R R1 imps H; simpl in H.
  - inversion H; subst. split; [exists []; rewrite app_nil_r; reflexivity|]. split; [reflexivity|].
    split; [reflexivity|]. intros j o Hj Hle. exfalso.
    assert (j < length (objs R1)) by (apply nth_error_Some; rewrite Hj; discriminate). lia.
  - destruct (cls_of classes m c') as [sc|] eqn:Ec; [|discriminate].
    destruct (rnew R sc rn) as [Ra n] eqn:En.
    destruct (eval_imports classes r Ra) as [[R2 l2]|] eqn:Er; [|discriminate].
    inversion H; subst R1 imps; clear H.
    destruct (IH _ _ _ Er) as ((pl2 & HO2) & HD2 & HM2 & HP2).
    assert (HA : exists x, objs Ra = objs R ++ x /\ defs Ra = defs R).
    { destruct (rnew_ext _ _ _ _ _ En) as (x & A & _ & B & _). exists x; auto. }
    destruct HA as (x & HOa & HDa).
    split; [exists (x ++ pl2); rewrite HO2, HOa, app_assoc; reflexivity|].
    split; [congruence|]. split; [simpl; rewrite HM2; reflexivity|].
    intros j o Hj Hle. destruct (Nat.lt_ge_cases j (length (objs Ra))) as [L|L].
    + (* created by this very rnew *)
      unfold rnew in En. destruct (rget R sc rn) as [k|] eqn:Eg.
      * inversion En; subst Ra. lia.
      * inversion En; subst Ra n; clear En. simpl in L, HO2. rewrite app_length in L. simpl in L.
        assert (j = length (objs R)) by lia. subst j.
        rewrite HO2, nth_error_app1 in Hj by (rewrite app_length; simpl; lia).
        rewrite nth_error_app2, Nat.sub_diag in Hj by lia. simpl in Hj. inversion Hj; subst o; clear Hj.
        simpl. split; [reflexivity|]. split; [reflexivity|]. split; [eapply cls_of_ge2; eauto|].
        exists local, m, c', rn. split; [left; reflexivity|]. split; [exact Ec|].
        split; [reflexivity|]. split; [reflexivity|]. split; [exact Eg|left; reflexivity].
    + destruct (HP2 j o Hj L) as (P1 & P2 & P3 & lo & m0 & c0 & rn0 & Q1 & Q2 & Q3 & Q4 & Q5 & Q6).
      split; [exact P1|]. split; [exact P2|]. split; [exact P3|]. exists lo, m0, c0, rn0.
      split; [right; exact Q1|]. split; [exact Q2|]. split; [exact Q3|]. split; [exact Q4|].
      split; [eapply rget_none_prefix; eauto|right; exact Q6].
Qed.

(* a successful apply_imports found a definition in every source object it did not itself define *)
Lemma apply_imports_defined c imps : forall R R3, apply_imports c imps R = Some R3 ->
  forall local n o, In (local, n) imps -> nth_error (objs R) n = Some o -> ocls o <> c -> ocls o <> 0%N ->
  odef o <> None.
Proof.
  induction imps as [|[local0 n0] r IH]; intros R R3 H local n o Hin Hn Hc H0; simpl in H; [contradiction|].
  destruct (import_rule c local0 n0 R) as [Ra|] eqn:E; [|discriminate].
  destruct Hin as [Hin|Hin].
  - inversion Hin; subst local0 n0. unfold import_rule in E. rewrite Hn in E.
    destruct (odef o); [discriminate|discriminate E].
  - apply (IH Ra R3 H local n o Hin); auto.
    destruct (import_rule_cframe _ _ _ _ _ E) as (M & _ & _).
    destruct (M n o Hn) as (o' & Hn' & _ & [->|[T|[T _]]]); [exact Hn'|contradiction|contradiction].
Qed.

(* ------------------------------------------------------------------------------------------ *)
(* D. one class                                                                                *)
(* ------------------------------------------------------------------------------------------ *)
Lemma load_class_unfold classes g R :
  load_class classes g R =
  match cls_of classes (gmod g) (gcls g) with
  | None => None
  | Some c =>
    match eval_imports classes (gimports g) R with
    | None => None
    | Some (R1, imps) =>
      match own_load c g R1 with
      | None => None
      | Some R2 => match apply_imports c imps R2 with
                   | None => None
                   | Some R3 => apply_flags classes c (gflags g) R3
                   end
      end
    end
  end.
Proof. reflexivity. Qed.

Lemma load_class_phases classes g R R' : load_class classes g R = Some R' ->
  exists c R1 imps R2 R3 l, cls_of classes (gmod g) (gcls g) = Some c /\
    eval_imports classes (gimports g) R = Some (R1, imps) /\
    own_rules g = Some l /\ define_rules c l R1 = Some R2 /\
    apply_imports c imps R2 = Some R3 /\ apply_flags classes c (gflags g) R3 = Some R'.
Proof.
  rewrite load_class_unfold. destruct (cls_of classes (gmod g) (gcls g)) as [c|]; [|discriminate].
  destruct (eval_imports classes (gimports g) R) as [[R1 imps]|]; [|discriminate].
  destruct (own_load c g R1) as [R2|] eqn:E2; [|discriminate].
  destruct (apply_imports c imps R2) as [R3|] eqn:E3; [|discriminate]. intros H.
  destruct (own_load_rules _ _ _ _ E2) as (l & Hl & Hd).
  exists c, R1, imps, R2, R3, l. auto 10.
Qed.

Definition all_names (g : gclass) (l : list arule) : list str :=
  map aname l ++ map fst (gimports g) ++ flag_names (gflags g).

Definition defs_mod (c : cls) (names : list str) (R R' : reg) : Prop :=
  length (defs R) <= length (defs R') /\
  forall d e, nth_error (defs R) d = Some e ->
    exists e', nth_error (defs R') d = Some e' /\ flag_eq e e' /\
      (e' = e \/ exists j o, nth_error (objs R') j = Some o /\ touched c names o /\ odef o = Some d).

Lemma prefix_mod c names R R1 pl : objs R1 = objs R ++ pl -> mod_objs c names R R1.
Proof.
  intros HO j o Hj. exists o. split; [|split; [apply sbd_refl|left; reflexivity]].
  rewrite HO, nth_error_app1; [exact Hj|]. apply nth_error_Some. rewrite Hj. discriminate.
Qed.
Lemma fframe_objs c names n2 R R' : fframe c names R R' -> mod_objs c n2 R R' /\ new_cls c R R'.
Proof.
  intros ((l & HO & HF) & _). split; [eapply prefix_mod; eauto|].
  intros j o' Hj Hle. rewrite HO, nth_error_app2 in Hj by exact Hle.
  apply nth_error_In in Hj. rewrite Forall_forall in HF. apply (HF _ Hj).
Qed.

(* THE FRAME THEOREM, unconditional form: whatever the registry, a successful load of class c
   - leaves every object in place and can only change the definition index of a touched object
     (class c, or a core object whose key is one of the names the class defines, imports under or flags),
   - appends only objects of class c,
   - only appends definitions, except for the top-level flag of definitions of touched objects (flag names). *)
Theorem load_class_frame_gen classes g R R' c l :
  load_class classes g R = Some R' -> cls_of classes (gmod g) (gcls g) = Some c -> own_rules g = Some l ->
  mod_objs c (all_names g l) R R' /\ new_cls c R R' /\ defs_mod c (flag_names (gflags g)) R R'.
Proof.
  intros H Hc Hl. destruct (load_class_phases _ _ _ _ H) as (c0 & R1 & imps & R2 & R3 & l0 & Hc0 & E1 & Hl0 & E2 & E3 & E4).
  assert (c0 = c) by congruence. subst c0. assert (l0 = l) by congruence. subst l0.
  destruct (eval_imports_spec _ _ _ _ _ E1) as ((pl & HO1) & HD1 & HM1 & HP1).
  pose proof (define_rules_cframe _ _ _ _ E2) as (M2 & N2 & K2).
  pose proof (apply_imports_cframe _ _ _ _ E3) as (M3 & N3 & K3). rewrite HM1 in M3.
  pose proof (apply_flags_fframe _ _ _ _ _ E4) as F4.
  destruct (fframe_objs c _ (all_names g l) _ _ F4) as (M4 & N4).
  assert (I1 : incl (map aname l) (all_names g l)) by (intros x Hx; apply in_or_app; left; exact Hx).
  assert (I2 : incl (map fst (gimports g)) (all_names g l))
    by (intros x Hx; apply in_or_app; right; apply in_or_app; left; exact Hx).
  assert (M13 : mod_objs c (all_names g l) R1 R3).
  { apply (mod_objs_trans c _ R1 R2 R3); [exact (mod_objs_mono c _ _ R1 R2 I1 M2)|exact (mod_objs_mono c _ _ R2 R3 I2 M3)]. }
  assert (M1' : mod_objs c (all_names g l) R1 R') by (eapply mod_objs_trans; eauto).
  assert (N1' : new_cls c R1 R').
  { eapply new_cls_trans; [exact M4| |exact N4]. eapply new_cls_trans; [exact M3|exact N2|exact N3]. }
  split; [|split].
  - eapply mod_objs_trans; [eapply prefix_mod; eauto|exact M1'].
  - intros j o' Hj Hle. destruct (Nat.lt_ge_cases j (length (objs R1))) as [L|L]; [|eapply N1'; eauto].
    destruct (nth_error (objs R1) j) as [p|] eqn:Ep; [|apply nth_error_None in Ep; lia].
    destruct (HP1 j p Ep Hle) as (P1 & _ & P3 & lo & _ & _ & _ & _ & _ & _ & _ & _ & Q6).
    destruct (M1' j p Ep) as (o2 & Ho2 & (S1 & _) & _). rewrite Hj in Ho2. inversion Ho2; subst o2.
    rewrite S1. destruct (N.eq_dec (ocls p) c) as [Ec|Ec]; [exact Ec|exfalso].
    assert (E0 : ocls p <> 0%N) by lia.
    destruct (M2 j p Ep) as (p2 & Hp2 & _ & [->|[T|[T _]]]); [|contradiction|contradiction].
    exact (apply_imports_defined _ _ _ _ E3 lo j p Q6 Hp2 Ec E0 P1).
  - destruct F4 as ((l4 & HO4 & HF4) & L4 & D4).
    assert (K13 : keep_defs R R3).
    { intros d e Hd. apply K3, K2. rewrite HD1. exact Hd. }
    split; [rewrite L4; apply keep_defs_len; exact K13|].
    intros d e Hd. destruct (D4 d e (K13 d e Hd)) as (e' & A & B & C). exists e'.
    split; [exact A|]. split; [exact B|]. destruct C as [C|(j & o & C1 & C2 & C3)]; [left; exact C|right].
    exists j, o. split; [|auto]. rewrite HO4, nth_error_app1; [exact C1|].
    apply nth_error_Some. rewrite C1. discriminate.
Qed.

Lemma load_class_own_rules classes g R R' : load_class classes g R = Some R' ->
  exists c l, cls_of classes (gmod g) (gcls g) = Some c /\ own_rules g = Some l.
Proof.
  intros H. destruct (load_class_phases _ _ _ _ H) as (c & _ & _ & _ & _ & l & A & _ & B & _). eauto.
Qed.

(* no core rule carries one of the names *)
Definition no_core_names (R : reg) (names : list str) : Prop :=
  forall o, In o (objs R) -> ocls o = 0%N -> ~ In (okey o) (map fold_name names).
Lemma no_core_names_incl R n1 n2 : incl n1 n2 -> no_core_names R n2 -> no_core_names R n1.
Proof.
  intros Hi H o Ho Hc Hin. apply (H o Ho Hc). apply in_map_iff in Hin. destruct Hin as (x & Hx & Hin).
  apply in_map_iff. exists x; auto.
Qed.

(* THE FRAME THEOREM under the one side condition "no name the class defines, imports under or flags is a core
   rule name": nothing outside class c is created or changed, and a definition of R is only changed (in its
   top-level flag) if some object of class c has it as its definition after the load. *)
Theorem load_class_frame classes g R R' c :
  load_class classes g R = Some R' -> cls_of classes (gmod g) (gcls g) = Some c ->
  (forall l, own_rules g = Some l -> no_core_names R (all_names g l)) ->
  (forall j o, nth_error (objs R) j = Some o -> ocls o <> c -> nth_error (objs R') j = Some o) /\
  (forall j o, nth_error (objs R) j = Some o -> exists o', nth_error (objs R') j = Some o' /\ sbd o o') /\
  new_cls c R R' /\
  length (defs R) <= length (defs R') /\
  (forall d e, nth_error (defs R) d = Some e ->
     exists e', nth_error (defs R') d = Some e' /\ flag_eq e e' /\
       (e' = e \/ exists j o, nth_error (objs R') j = Some o /\ ocls o = c /\ odef o = Some d)).
Proof.
  intros H Hc Hn. destruct (load_class_own_rules _ _ _ _ H) as (c0 & l & Hc0 & Hl).
  assert (c0 = c) by congruence. subst c0. specialize (Hn l Hl).
  destruct (load_class_frame_gen _ _ _ _ _ _ H Hc Hl) as (M & N & (DL & D)).
  pose proof (cls_of_ge2 _ _ _ _ Hc) as Hge.
  split; [|split; [|split; [exact N|split; [exact DL|]]]].
  - intros j o Hj Hoc. destruct (M j o Hj) as (o' & Hj' & _ & [->|[T|[T1 T2]]]); [exact Hj'|contradiction|].
    exfalso. exact (Hn o (nth_error_In _ _ Hj) T1 T2).
  - intros j o Hj. destruct (M j o Hj) as (o' & Hj' & S & _). eauto.
  - intros d e Hd. destruct (D d e Hd) as (e' & A & B & C). exists e'. split; [exact A|]. split; [exact B|].
    destruct C as [C|(j & o & C1 & [C2|[C2 C2']] & C3)]; [left; exact C|right; eauto|exfalso].
    destruct (Nat.lt_ge_cases j (length (objs R))) as [L|L].
    + destruct (nth_error (objs R) j) as [o0|] eqn:E0; [|apply nth_error_None in E0; lia].
      destruct (M j o0 E0) as (o' & Hj' & (S1 & S2 & _) & _). rewrite C1 in Hj'. inversion Hj'; subst o'.
      apply (Hn o0 (nth_error_In _ _ E0)); [congruence|]. rewrite <- S2.
      apply in_map_iff in C2'. destruct C2' as (x & Hx & Hin). apply in_map_iff. exists x. split; [exact Hx|].
      apply in_or_app; right; apply in_or_app; right; exact Hin.
    + pose proof (N j o C1 L). lia.
Qed.

(* ------------------------------------------------------------------------------------------ *)
(* E. invariants                                                                               *)
(* ------------------------------------------------------------------------------------------ *)
Lemma eval_imports_ok classes l : forall R R1 imps, eval_imports classes l R = Some (R1, imps) ->
  reg_ok R -> reg_ok R1.
Proof.
  induction l as [|[local [[m c'] rn]] r IH]; intros R R1 imps H Hok; simpl in H.
  - inversion H; subst; exact Hok.
  - destruct (cls_of classes m c') as [sc|]; [|discriminate].
    destruct (rnew R sc rn) as [Ra n] eqn:En.
    destruct (eval_imports classes r Ra) as [[R2 l2]|] eqn:Er; [|discriminate].
    inversion H; subst. eapply IH; eauto. eapply rnew_ok; eauto.
Qed.
Lemma apply_imports_ok c imps : forall R R', apply_imports c imps R = Some R' -> reg_ok R -> reg_ok R'.
Proof.
  induction imps as [|[local n] r IH]; intros R R' H Hok; simpl in H.
  - inversion H; subst; exact Hok.
  - destruct (import_rule c local n R) as [Ra|] eqn:E; [|discriminate].
    eapply IH; eauto. eapply import_rule_ok; eauto.
Qed.
Lemma set_flags_ok l v : forall R R', set_flags l v R = Some R' -> reg_ok R -> reg_ok R'.
Proof.
  induction l as [|n r IH]; intros R R' H Hok; simpl in H.
  - inversion H; subst; exact Hok.
  - destruct (set_flag n v R) as [Ra|] eqn:E; [|discriminate]. eapply IH; eauto. eapply set_flag_ok; eauto.
Qed.
Lemma own_loop_ok src v l : forall R R', own_loop src v l R = Some R' -> reg_ok R -> reg_ok R'.
Proof.
  induction l as [|n r IH]; intros R R' H Hok; simpl in H.
  - inversion H; subst; exact Hok.
  - destruct (odef_of R n) as [d|]; [|discriminate].
    destruct (match rget R src (oname_of R n) with
              | Some k => match odef_of R k with Some d' => Nat.eqb d d' | None => false end
              | None => false end); [eapply IH; eauto|].
    destruct (set_flag n v R) as [Ra|] eqn:E; [|discriminate]. eapply IH; eauto. eapply set_flag_ok; eauto.
Qed.
Lemma apply_flag_ok classes c f R R' : apply_flag classes c f R = Some R' -> reg_ok R -> reg_ok R'.
Proof.
  destruct f as [name v|v|m sc v].
  - simpl. destruct (rnew R c name) as [R1 n] eqn:E1. intros H Hok.
    eapply set_flag_ok; eauto. eapply rnew_ok; eauto.
  - simpl. apply set_flags_ok.
  - rewrite apply_flag_own. destruct (cls_of classes m sc); [|discriminate]. apply own_loop_ok.
Qed.
Lemma apply_flags_ok classes c l : forall R R', apply_flags classes c l R = Some R' -> reg_ok R -> reg_ok R'.
Proof.
  induction l as [|f r IH]; intros R R' H Hok; simpl in H.
  - inversion H; subst; exact Hok.
  - destruct (apply_flag classes c f R) as [Ra|] eqn:E; [|discriminate].
    eapply IH; eauto. eapply apply_flag_ok; eauto.
Qed.
Theorem load_class_ok classes g R R' : load_class classes g R = Some R' -> reg_ok R -> reg_ok R'.
Proof.
  intros H Hok. destruct (load_class_phases _ _ _ _ H) as (c & R1 & imps & R2 & R3 & l & _ & E1 & _ & E2 & E3 & E4).
  eapply apply_flags_ok; eauto. eapply apply_imports_ok; eauto. eapply define_rules_ok; eauto.
  eapply eval_imports_ok; eauto.
Qed.
Theorem load_classes_ok classes L : forall R R', load_classes classes L R = Some R' -> reg_ok R -> reg_ok R'.
Proof.
  induction L as [|g r IH]; intros R R' H Hok; simpl in H.
  - inversion H; subst; exact Hok.
  - destruct (load_class classes g R) as [Ra|] eqn:E; [|discriminate].
    eapply IH; eauto. eapply load_class_ok; eauto.
Qed.

(* ------------------------------------------------------------------------------------------ *)
(* F. a list of classes                                                                        *)
(* ------------------------------------------------------------------------------------------ *)
Definition gnames (g : gclass) : list str :=
  match own_rules g with Some l => all_names g l | None => [] end.
Definition in_classes (classes L : list gclass) (x : cls) : Prop :=
  exists g, In g L /\ cls_of classes (gmod g) (gcls g) = Some x.

Lemma no_core_names_step c names R R' n2 :
  (2 <= c)%N -> mod_objs c names R R' -> new_cls c R R' -> no_core_names R n2 -> no_core_names R' n2.
Proof.
  intros Hge M N H o' Ho' Hc Hin. apply In_nth_error in Ho'. destruct Ho' as [j Hj].
  destruct (Nat.lt_ge_cases j (length (objs R))) as [L|L].
  - destruct (nth_error (objs R) j) as [o|] eqn:E0; [|apply nth_error_None in E0; lia].
    destruct (M j o E0) as (o2 & Hj2 & (S1 & S2 & _) & _). rewrite Hj in Hj2. inversion Hj2; subst o2.
    apply (H o (nth_error_In _ _ E0)); congruence.
  - pose proof (N j o' Hj L). lia.
Qed.

Theorem load_classes_frame classes L : forall R R', load_classes classes L R = Some R' ->
  no_core_names R (flat_map gnames L) ->
  (forall j o, nth_error (objs R) j = Some o -> ~ in_classes classes L (ocls o) ->
               nth_error (objs R') j = Some o) /\
  (forall j o, nth_error (objs R) j = Some o -> exists o', nth_error (objs R') j = Some o' /\ sbd o o') /\
  (forall j o', nth_error (objs R') j = Some o' -> length (objs R) <= j -> in_classes classes L (ocls o')) /\
  length (defs R) <= length (defs R') /\
  (forall d e, nth_error (defs R) d = Some e -> exists e', nth_error (defs R') d = Some e' /\ flag_eq e e').
Proof.
  induction L as [|g r IH]; intros R R' H Hn; simpl in H.
  - inversion H; subst R'. split; [auto|]. split; [intros j o Hj; exists o; split; [exact Hj|apply sbd_refl]|].
    split; [|split; [lia|intros d e Hd; exists e; split; [exact Hd|apply flag_eq_refl]]].
    intros j o' Hj Hle. exfalso.
    assert (j < length (objs R)) by (apply nth_error_Some; rewrite Hj; discriminate). lia.
  - destruct (load_class classes g R) as [Ra|] eqn:E; [|discriminate].
    destruct (load_class_own_rules _ _ _ _ E) as (c & l & Hc & Hl).
    assert (Hg : gnames g = all_names g l) by (unfold gnames; rewrite Hl; reflexivity).
    assert (Hn1 : forall l0, own_rules g = Some l0 -> no_core_names R (all_names g l0)).
    { intros l0 Hl0. assert (l0 = l) by congruence. subst l0. rewrite <- Hg.
      eapply no_core_names_incl; [|exact Hn]. simpl. intros x Hx. apply in_or_app; left; exact Hx. }
    destruct (load_class_frame_gen _ _ _ _ _ _ E Hc Hl) as (M & N & _).
    destruct (load_class_frame _ _ _ _ _ E Hc Hn1) as (A1 & A2 & A3 & A4 & A5).
    assert (Hn2 : no_core_names Ra (flat_map gnames r)).
    { eapply no_core_names_step; [eapply cls_of_ge2; eauto|exact M|exact N|].
      eapply no_core_names_incl; [|exact Hn]. simpl. intros x Hx. apply in_or_app; right; exact Hx. }
    destruct (IH Ra R' H Hn2) as (B1 & B2 & B3 & B4 & B5).
    assert (Hin : forall x, in_classes classes r x -> in_classes classes (g :: r) x).
    { intros x (g0 & G1 & G2). exists g0. split; [right; exact G1|exact G2]. }
    split; [|split; [|split; [|split; [lia|]]]].
    + intros j o Hj Hni. apply B1; [apply A1; [exact Hj|]|].
      * intros Ec. apply Hni. exists g. split; [left; reflexivity|congruence].
      * intros Hi. apply Hni, Hin, Hi.
    + intros j o Hj. destruct (A2 j o Hj) as (o1 & Hj1 & S1). destruct (B2 j o1 Hj1) as (o2 & Hj2 & S2).
      exists o2. split; [exact Hj2|eapply sbd_trans; eauto].
    + intros j o' Hj Hle. destruct (Nat.lt_ge_cases j (length (objs Ra))) as [Lt|Ge].
      * destruct (nth_error (objs Ra) j) as [oa|] eqn:Ea; [|apply nth_error_None in Ea; lia].
        destruct (B2 j oa Ea) as (o2 & Hj2 & (S1 & _)). rewrite Hj in Hj2. inversion Hj2; subst o2.
        exists g. split; [left; reflexivity|]. rewrite S1, (A3 j oa Ea Hle). exact Hc.
      * apply Hin. eapply B3; eauto.
    + intros d e Hd. destruct (A5 d e Hd) as (e1 & Hd1 & F1 & _). destruct (B5 d e1 Hd1) as (e2 & Hd2 & F2).
      exists e2. split; [exact Hd2|eapply flag_eq_trans; eauto].
Qed.

Print Assumptions load_class_frame_gen.
Print Assumptions load_class_frame.
Print Assumptions load_class_ok.
Print Assumptions load_classes_frame.
