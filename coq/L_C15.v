(* L_C15.v — the ABNF reader and the bundled ABNF-of-ABNF agree.  R15 = a process that imported rfc7405 (hence rfc5234):
   loader model on the GENERATED texts. *)
From Coq Require Import String List NArith Arith Bool.
Import ListNotations.
From ABNF Require Import Base Engine Spec Wf Checks WfCheck Cert LangEq Restrict Schema
     AbnfRead Registry GenTypes Loader GenBundled Bundled RfcSpec Tables L_C05.
Open Scope string_scope.

Definition R15 : reg := match r_only (s_of "rfc7405") with Some R => R | None => reg0 end.
Definition l15 : list (rid * rule) := grammar_list R15.
Definition cls15 (m : string) : cls := match cls_of bundled (s_of m) (s_of "Rule") with Some c => c | None => 4000000%N end.

(* (i) every meta rule vs the rule of the same name in rfc7405.Rule *)
Definition pairs_7405 : list (rid * rid) := pairs_by_name R15 [1%N] R15 (cls15 "rfc7405").
Definition keep_meta : list rid := reach l15 60 (map fst pairs_7405).
Definition keep_7405 : list rid := reach l15 60 (map snd pairs_7405).
(* (ii) every rule of rfc5234.Rule vs the RFC 5234 text (original char-val) *)
Definition R_rfc5234 : reg := match r_rfc5234 tt with Some R => R | None => reg0 end.
Definition l_rfc5234 : list (rid * rule) := grammar_list R_rfc5234.
Definition pairs_5234 : list (rid * rid) := pairs_by_name R15 [cls15 "rfc5234"] R_rfc5234 2%N.
Definition keep_5234 : list rid := reach l15 60 (map fst pairs_5234).
Definition keep_rfc5234 : list rid := reach l_rfc5234 60 (map snd pairs_5234).

Lemma loaded15 : match r_only (s_of "rfc7405") with Some _ => true | None => false end = true.
Proof. vm_cast_no_check (eq_refl true). Qed.
Lemma counts15 : (List.length pairs_7405, List.length pairs_5234) = (24, 21).
Proof. vm_compute. reflexivity. Qed.
Lemma ok_meta : sub_ok 40 l15 keep_meta = true. Proof. vm_cast_no_check (eq_refl true). Qed.
Lemma ok_7405 : sub_ok 40 l15 keep_7405 = true. Proof. vm_cast_no_check (eq_refl true). Qed.
Lemma ok_5234 : sub_ok 40 l15 keep_5234 = true. Proof. vm_cast_no_check (eq_refl true). Qed.
Lemma ok_rfc5234 : sub_ok 40 l_rfc5234 keep_rfc5234 = true. Proof. vm_cast_no_check (eq_refl true). Qed.
Lemma pairs_ok_7405 : pairs_ok l15 l15 keep_meta keep_7405 pairs_7405 = true. Proof. vm_cast_no_check (eq_refl true). Qed.
Lemma pairs_ok_5234 : pairs_ok l15 l_rfc5234 keep_5234 keep_rfc5234 pairs_5234 = true. Proof. vm_cast_no_check (eq_refl true). Qed.
Lemma eq_7405 : lang_eq_check (of_list l15) (of_list l15) pairs_7405 60 = true. Proof. vm_cast_no_check (eq_refl true). Qed.
Lemma eq_5234 : lang_eq_check (of_list l15) (of_list l_rfc5234) pairs_5234 60 = true. Proof. vm_cast_no_check (eq_refl true). Qed.

Opaque l15 l_rfc5234 pairs_7405 pairs_5234 keep_meta keep_7405 keep_5234 keep_rfc5234.

Lemma c15_rfc7405 : forall a b, In (a, b) pairs_7405 -> forall sh, perm_oracle sh ->
  (forall s, accepts sh (of_list l15) a s <-> accepts sh (of_list l15) b s) /\
  (forall s i j, M (of_list l15) s (ERef a) i j <-> M (of_list l15) s (ERef b) i j) /\
  (forall s i, i <= List.length s -> exists f, forall f', f <= f' -> forall j,
      In j (ends (lparse sh (of_list l15) f' (ERef a) s i)) <-> In j (ends (lparse sh (of_list l15) f' (ERef b) s i))).
Proof. exact (pair_schema 40 l15 l15 keep_meta keep_7405 pairs_7405 60 ok_meta ok_7405 pairs_ok_7405 eq_7405). Qed.

Lemma c15_rfc5234 : forall a b, In (a, b) pairs_5234 -> forall sh, perm_oracle sh ->
  (forall s, accepts sh (of_list l15) a s <-> accepts sh (of_list l_rfc5234) b s) /\
  (forall s i j, M (of_list l15) s (ERef a) i j <-> M (of_list l_rfc5234) s (ERef b) i j) /\
  (forall s i, i <= List.length s -> exists f, forall f', f <= f' -> forall j,
      In j (ends (lparse sh (of_list l15) f' (ERef a) s i)) <-> In j (ends (lparse sh (of_list l_rfc5234) f' (ERef b) s i))).
Proof. exact (pair_schema 40 l15 l_rfc5234 keep_5234 keep_rfc5234 pairs_5234 60 ok_5234 ok_rfc5234 pairs_ok_5234 eq_5234). Qed.
