(* Schema.v — ASSEMBLY theorems: obligations over big concrete grammars (hundreds of rules, some with
   first-match flags or exclusions) are reduced to boolean checks that [vm_compute] can run.
   Everything is generic in the lists [l], [keep], [pairs]: no concrete grammar is ever unfolded here.
   - sub_engine_M  : the match-listing API and whole-string acceptance on the BIG grammar agree with the RFC
                     relation M on the BIG grammar, for every rule of a reachable, plain sub-grammar;
   - pair_schema   : two rules (possibly of two different big grammars) accept the same strings;
   - flagged_schema: with flags / exclusions, the engine's denotation is THE solution of the semantic equations. *)
From Coq Require Import List NArith Arith Bool Lia.
Import ListNotations.
From ABNF Require Import Base Engine Spec Wf Checks WfCheck Cert EngineComplete L_C01 L_C02 LangEq Restrict EngineSem.

(* acceptance of a whole string by the library's parse_all *)
Definition accepts (sh : list mtch -> list mtch) (G : grammar) (r : rid) (s : str) : Prop :=
  exists f m, parse_all sh G f r s = Ok [m].

(* the sub-grammar reachable from some roots is closed under references, well-formed, closed and plain *)
Definition sub_ok (rounds : nat) (l : list (rid * rule)) (keep : list rid) : bool :=
  closed_under_check l keep && auto_wf_n rounds (restrict l keep) && closed_check (restrict l keep) &&
  plain_check (restrict l keep).

Lemma sub_ok_inv rounds l keep : sub_ok rounds l keep = true ->
  closed_under_check l keep = true /\
  (exists nul rank, wf nul rank (of_list (restrict l keep))) /\
  closed (of_list (restrict l keep)) /\ plain (of_list (restrict l keep)).
Proof.
  unfold sub_ok. intros H.
  apply andb_true_iff in H. destruct H as [H Hpl].
  apply andb_true_iff in H. destruct H as [H Hcl].
  apply andb_true_iff in H. destruct H as [Hcu Hwf].
  split; [exact Hcu|]. split; [apply (auto_wf_n_sound rounds); exact Hwf|].
  split; [apply closed_check_sound; exact Hcl|apply plain_check_sound; exact Hpl].
Qed.

Lemma incl_ref_keep r keep : memr r keep = true -> incl (refs (ERef r)) keep.
Proof.
  intros H x Hx. simpl in Hx. destruct Hx as [<-|[]]. apply memr_In. exact H.
Qed.

(* more fuel does not change a successful parse_all ([parse] and [parse_all] are wrappers of [lparse]) *)
Lemma parse_all_mono sh G f f' r s m : parse_all sh G f r s = Ok [m] -> f <= f' ->
  parse_all sh G f' r s = Ok [m].
Proof.
  intros H Hle.
  assert (Hne : lparse sh G f (ERef r) s 0 <> OOF).
  { intros E. unfold parse_all, parse in H. rewrite E in H. discriminate. }
  pose proof (EngineComplete.lparse_mono sh G f f' (ERef r) s 0 _ eq_refl Hne Hle) as Hm.
  unfold parse_all, parse in *. rewrite Hm. exact H.
Qed.

Theorem sub_engine_M rounds l keep : sub_ok rounds l keep = true ->
  forall r, memr r keep = true -> definedb (restrict l keep) r = true ->
  forall sh, perm_oracle sh ->
  (* ends of the match-listing API on the BIG grammar = the RFC relation M on the BIG grammar *)
  (forall s i, i <= length s -> exists f, forall f', f <= f' ->
      lparse sh (of_list l) f' (ERef r) s i <> OOF /\ lparse sh (of_list l) f' (ERef r) s i <> GErr /\
      (forall j, In j (ends (lparse sh (of_list l) f' (ERef r) s i)) <-> M (of_list l) s (ERef r) i j)) /\
  (* whole-string acceptance *)
  (forall s, accepts sh (of_list l) r s <-> M (of_list l) s (ERef r) 0 (length s)).
Proof.
  intros Hok r Hr Hdb sh Hsh.
  destruct (sub_ok_inv rounds l keep Hok) as [Hcu [[nul [rank Hwf]] [Hcl Hpl]]].
  pose proof (definedb_sound _ _ Hdb) as Hdef.
  pose proof (incl_ref_keep r keep Hr) as Hinc.
  pose proof (proj1 (memr_In r keep) Hr) as Hin.
  split.
  - intros s i Hi.
    destruct (c01 sh nul rank (of_list (restrict l keep)) Hsh Hwf Hcl Hpl r s i Hdef Hi) as [f Hf].
    exists f. intros f' Hle. specialize (Hf f' Hle).
    rewrite (restrict_transfer sh l keep Hcu f' (ERef r) s i Hinc).
    destruct Hf as [H1 [H2 H3]]. split; [exact H1|]. split; [exact H2|].
    intros j. rewrite (M_restrict_transfer l keep Hcu s (ERef r) i j Hinc). apply H3.
  - intros s.
    rewrite (M_restrict_transfer l keep Hcu s (ERef r) 0 (length s) Hinc).
    destruct (c02_parse_all sh nul rank (of_list (restrict l keep)) Hsh Hwf Hcl Hpl r s Hdef) as [f0 Hf0].
    split.
    + intros [f [m Hm]].
      rewrite (parse_all_restrict_transfer sh l keep Hcu f r s Hin) in Hm.
      destruct (Hf0 (Nat.max f f0) (Nat.le_max_r _ _)) as [Hiff _].
      apply (proj1 Hiff). exists m.
      apply (parse_all_mono sh _ f (Nat.max f f0) r s m Hm). apply Nat.le_max_l.
    + intros HM. destruct (Hf0 f0 (Nat.le_refl _)) as [Hiff _].
      destruct (proj2 Hiff HM) as [m Hm].
      exists f0, m. rewrite (parse_all_restrict_transfer sh l keep Hcu f0 r s Hin). exact Hm.
Qed.

(* two rules, possibly in two different big grammars, accept the same strings *)
Definition pairs_ok (l1 l2 : list (rid * rule)) (keep1 keep2 : list rid) (pairs : list (rid * rid)) : bool :=
  forallb (fun p => memr (fst p) keep1 && definedb (restrict l1 keep1) (fst p) &&
                    memr (snd p) keep2 && definedb (restrict l2 keep2) (snd p)) pairs.

Theorem pair_schema rounds l1 l2 keep1 keep2 pairs fuel :
  sub_ok rounds l1 keep1 = true -> sub_ok rounds l2 keep2 = true ->
  pairs_ok l1 l2 keep1 keep2 pairs = true ->
  lang_eq_check (of_list l1) (of_list l2) pairs fuel = true ->
  forall a b, In (a, b) pairs -> forall sh, perm_oracle sh ->
  (forall s, accepts sh (of_list l1) a s <-> accepts sh (of_list l2) b s) /\
  (forall s i j, M (of_list l1) s (ERef a) i j <-> M (of_list l2) s (ERef b) i j) /\
  (forall s i, i <= length s -> exists f, forall f', f <= f' -> forall j,
      In j (ends (lparse sh (of_list l1) f' (ERef a) s i)) <-> In j (ends (lparse sh (of_list l2) f' (ERef b) s i))).
Proof.
  intros Hok1 Hok2 Hpairs Hle a b Hin sh Hsh.
  unfold pairs_ok in Hpairs. rewrite forallb_forall in Hpairs.
  specialize (Hpairs (a, b) Hin). cbn [fst snd] in Hpairs.
  apply andb_true_iff in Hpairs. destruct Hpairs as [Hp Hdb].
  apply andb_true_iff in Hp. destruct Hp as [Hp Hb].
  apply andb_true_iff in Hp. destruct Hp as [Ha Hda].
  destruct (sub_engine_M rounds l1 keep1 Hok1 a Ha Hda sh Hsh) as [HE1 HA1].
  destruct (sub_engine_M rounds l2 keep2 Hok2 b Hb Hdb sh Hsh) as [HE2 HA2].
  pose proof (lang_eq_sound (of_list l1) (of_list l2) pairs fuel Hle a b Hin) as HM.
  split; [|split].
  - intros s. rewrite (HA1 s), (HA2 s). apply HM.
  - exact HM.
  - intros s i Hi. destruct (HE1 s i Hi) as [f1 Hf1]. destruct (HE2 s i Hi) as [f2 Hf2].
    exists (Nat.max f1 f2). intros f' Hf' j.
    destruct (Hf1 f' (Nat.le_trans _ _ _ (Nat.le_max_l f1 f2) Hf')) as [_ [_ H1]].
    destruct (Hf2 f' (Nat.le_trans _ _ _ (Nat.le_max_r f1 f2) Hf')) as [_ [_ H2]].
    rewrite (H1 j), (H2 j). apply HM.
Qed.

(* grammars WITH flags / exclusions: the engine's denotation is THE solution of the semantic equations *)
Theorem flagged_schema rounds l : auto_wf_n rounds l = true -> closed_check l = true ->
  forall sh, perm_oracle sh ->
  Sem (of_list l) (den sh (of_list l)) /\
  (forall d, Sem (of_list l) d -> forall e s i j, WB e -> closed_expr (of_list l) e -> i <= length s ->
     (d e s i j <-> den sh (of_list l) e s i j)).
Proof.
  intros Hwfb Hclb sh Hsh.
  destruct (auto_wf_n_sound rounds l Hwfb) as [nul [rank Hwf]].
  pose proof (closed_check_sound l Hclb) as Hcl.
  split.
  - exact (den_Sem sh nul rank (of_list l) Hsh Hwf Hcl).
  - intros d Hd. exact (sem_is_den sh nul rank (of_list l) d Hsh Hwf Hcl Hd).
Qed.

Print Assumptions sub_engine_M.
Print Assumptions pair_schema.
Print Assumptions flagged_schema.
