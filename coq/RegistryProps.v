(* RegistryProps.v — proofs about the registry model of Registry.v:
   A. lookup (case-insensitive, own-or-core, lookup-or-create is idempotent),
   B. first-match flag setter (last one wins, only the top constructor changes, non-alternations ignore it),
   C. every public mutation bumps the cache epoch (C13),
   D. isolation between grammar classes (C10, partial) and the refutation of the unconditional claim.
   Invariant [reg_ok]: every definition index stored in a rule object is a valid index of [defs];
   it holds for [reg0] and is preserved by every operation of Registry.v. *)
From Coq Require Import List NArith Arith Bool Lia.
Import ListNotations.
From ABNF Require Import Base Engine AbnfRead Registry EngineSound.

(* ------------------------------------------------------------------------------------------ *)
(* generic list helpers                                                                        *)
(* ------------------------------------------------------------------------------------------ *)
Lemma str_eqb_refl (a : str) : str_eqb a a = true.
Proof. apply (proj2 (str_eqb_eq a a)). reflexivity. Qed.

Lemma upd_nth_length {A} (l : list A) n f : length (upd_nth l n f) = length l.
Proof.
  revert n. induction l as [|x r IH]; intros n; simpl; [reflexivity|].
  destruct n; simpl; [reflexivity|]. rewrite IH. reflexivity.
Qed.

Lemma nth_error_upd_nth_same {A} (l : list A) n f :
  nth_error (upd_nth l n f) n = option_map f (nth_error l n).
Proof.
  revert n. induction l as [|x r IH]; intros n; simpl.
  - destruct n; reflexivity.
  - destruct n; simpl; [reflexivity|]. apply IH.
Qed.

Lemma nth_error_upd_nth_other {A} (l : list A) n j f :
  j <> n -> nth_error (upd_nth l n f) j = nth_error l j.
Proof.
  revert n j. induction l as [|x r IH]; intros n j Hne; simpl.
  - reflexivity.
  - destruct n, j; simpl; try reflexivity.
    + exfalso; apply Hne; reflexivity.
    + apply IH. intros E; apply Hne; rewrite E; reflexivity.
Qed.

Lemma nth_error_upd_nth_inv {A} (l : list A) n j f y :
  nth_error (upd_nth l n f) j = Some y ->
  exists x, nth_error l j = Some x /\ (y = x \/ y = f x).
Proof.
  intros H. destruct (Nat.eq_dec j n) as [E|E].
  - subst j. rewrite nth_error_upd_nth_same in H.
    destruct (nth_error l n) as [x|]; simpl in H; [|discriminate].
    inversion H; subst. exists x; split; [reflexivity|right; reflexivity].
  - rewrite nth_error_upd_nth_other in H by exact E. exists y; split; [exact H|left; reflexivity].
Qed.

Lemma Forall_upd_nth {A} (P : A -> Prop) (l : list A) n f :
  Forall P l -> (forall x, P x -> P (f x)) -> Forall P (upd_nth l n f).
Proof.
  intros HF Hf. revert n. induction HF as [|x r Hx Hr IH]; intros n; simpl; [constructor|].
  destruct n; constructor; auto.
Qed.

(* ------------------------------------------------------------------------------------------ *)
(* find_obj                                                                                    *)
(* ------------------------------------------------------------------------------------------ *)
Lemma find_obj_spec c k l n m : find_obj c k l n = Some m ->
  n <= m /\ exists o, nth_error l (m - n) = Some o /\ ocls o = c /\ okey o = k.
Proof.
  revert n. induction l as [|o r IH]; intros n H; simpl in H; [discriminate|].
  destruct (N.eqb (ocls o) c && str_eqb (okey o) k) eqn:E.
  - inversion H; subst. split; [lia|]. rewrite Nat.sub_diag. exists o; simpl.
    apply andb_true_iff in E. destruct E as [E1 E2].
    apply N.eqb_eq in E1. apply (proj1 (str_eqb_eq _ _)) in E2. auto.
  - apply IH in H. destruct H as [Hle (o' & Hn & Hc & Hk)]. split; [lia|].
    exists o'. replace (m - n) with (S (m - S n)) by lia. simpl. auto.
Qed.

Lemma find_obj_lt c k l n m : find_obj c k l n = Some m -> m < n + length l.
Proof.
  intros H. apply find_obj_spec in H. destruct H as [Hle (o & Hn & _)].
  assert (m - n < length l) by (apply nth_error_Some; rewrite Hn; discriminate). lia.
Qed.

Lemma find_obj_app c k l l' n :
  find_obj c k (l ++ l') n =
  match find_obj c k l n with Some m => Some m | None => find_obj c k l' (n + length l) end.
Proof.
  revert n. induction l as [|o r IH]; intros n; simpl.
  - rewrite Nat.add_0_r. reflexivity.
  - destruct (N.eqb (ocls o) c && str_eqb (okey o) k); [reflexivity|].
    rewrite IH. replace (S n + length r) with (n + S (length r)) by lia. reflexivity.
Qed.

(* ------------------------------------------------------------------------------------------ *)
(* A. lookup                                                                                   *)
(* ------------------------------------------------------------------------------------------ *)
Theorem rget_case : forall R c n1 n2, fold_name n1 = fold_name n2 -> rget R c n1 = rget R c n2.
Proof. intros R c n1 n2 H. unfold rget. rewrite H. reflexivity. Qed.

Theorem rget_own_or_core : forall R c n k, rget R c n = Some k ->
  exists o, nth_error (objs R) k = Some o /\ okey o = fold_name n /\ (ocls o = c \/ ocls o = 0%N).
Proof.
  intros R c n k H. unfold rget in H.
  destruct (find_obj c (fold_name n) (objs R) 0) as [m|] eqn:E.
  - inversion H; subst. apply find_obj_spec in E. destruct E as [_ (o & Hn & Hc & Hk)].
    rewrite Nat.sub_0_r in Hn. exists o; auto.
  - apply find_obj_spec in H. destruct H as [_ (o & Hn & Hc & Hk)].
    rewrite Nat.sub_0_r in Hn. exists o; auto.
Qed.

Lemma rget_lt R c n k : rget R c n = Some k -> k < length (objs R).
Proof.
  intros H. apply rget_own_or_core in H. destruct H as (o & Hn & _).
  apply nth_error_Some. rewrite Hn. discriminate.
Qed.

Theorem rnew_idem : forall R c n R1 k n', rnew R c n = (R1, k) -> fold_name n' = fold_name n ->
  rnew R1 c n' = (R1, k).
Proof.
  intros R c n R1 k n' H Hf. unfold rnew in H. destruct (rget R c n) as [m|] eqn:E.
  - inversion H; subst. unfold rnew. rewrite (rget_case _ _ n' n Hf), E. reflexivity.
  - inversion H; subst; clear H. unfold rnew.
    match goal with |- match ?X with _ => _ end = _ => assert (HX : X = Some (length (objs R))) end.
    { unfold rget; simpl. rewrite Hf. unfold rget in E.
      destruct (find_obj c (fold_name n) (objs R) 0) eqn:E1; [discriminate|].
      rewrite find_obj_app, E1. simpl. rewrite N.eqb_refl, str_eqb_refl. reflexivity. }
    rewrite HX. reflexivity.
Qed.

Theorem rnew_keeps : forall R c n R1 k, rnew R c n = (R1, k) ->
  (forall j o, nth_error (objs R) j = Some o -> nth_error (objs R1) j = Some o) /\
  defs R1 = defs R /\ epoch R1 = epoch R /\ k < length (objs R1).
Proof.
  intros R c n R1 k H. unfold rnew in H. destruct (rget R c n) as [m|] eqn:E.
  - inversion H; subst. repeat split; auto. eapply rget_lt; eauto.
  - inversion H; subst; clear H. simpl. repeat split.
    + intros j o Hj. rewrite nth_error_app1; [exact Hj|].
      apply nth_error_Some. rewrite Hj. discriminate.
    + rewrite app_length. simpl. lia.
Qed.

(* ------------------------------------------------------------------------------------------ *)
(* extension: what rnew / compile may do to a registry (append undefined objects of class c)   *)
(* ------------------------------------------------------------------------------------------ *)
Definition ext (c : cls) (R R1 : reg) : Prop :=
  exists l, objs R1 = objs R ++ l /\ Forall (fun o => ocls o = c /\ odef o = None) l /\
            defs R1 = defs R /\ epoch R1 = epoch R.

Lemma ext_refl c R : ext c R R.
Proof. exists []. rewrite app_nil_r. auto. Qed.

Lemma ext_trans c R1 R2 R3 : ext c R1 R2 -> ext c R2 R3 -> ext c R1 R3.
Proof.
  intros (l1 & H1 & F1 & D1 & E1) (l2 & H2 & F2 & D2 & E2). exists (l1 ++ l2).
  rewrite H2, H1, app_assoc. repeat split; try congruence. apply Forall_app; auto.
Qed.

Lemma rnew_ext R c n R1 k : rnew R c n = (R1, k) -> ext c R R1.
Proof.
  unfold rnew. destruct (rget R c n); intros H; inversion H; subst.
  - apply ext_refl.
  - eexists; simpl; repeat split. constructor; [|constructor]. simpl; auto.
Qed.

Section AInd.
  Variable P : aexpr -> Prop.
  Hypothesis Hlit : forall cs v, P (ALit cs v).
  Hypothesis Hrange : forall lo hi, P (ARange lo hi).
  Hypothesis Halt : forall es, Forall P es -> P (AAlt es).
  Hypothesis Hcat : forall es, Forall P es -> P (ACat es).
  Hypothesis Hrep : forall mn mx e, P e -> P (ARep mn mx e).
  Hypothesis Hopt : forall e, P e -> P (AOpt e).
  Hypothesis Hprose : forall v, P (AProse v).
  Hypothesis Href : forall n, P (ARef n).
  Fixpoint aexpr_ind2 (a : aexpr) : P a :=
    match a with
    | ALit cs v => Hlit cs v
    | ARange lo hi => Hrange lo hi
    | AAlt es => Halt es ((fix go (l : list aexpr) : Forall P l :=
        match l with [] => Forall_nil P | x :: r => Forall_cons x (aexpr_ind2 x) (go r) end) es)
    | ACat es => Hcat es ((fix go (l : list aexpr) : Forall P l :=
        match l with [] => Forall_nil P | x :: r => Forall_cons x (aexpr_ind2 x) (go r) end) es)
    | ARep mn mx e => Hrep mn mx e (aexpr_ind2 e)
    | AOpt e => Hopt e (aexpr_ind2 e)
    | AProse v => Hprose v
    | ARef n => Href n
    end.
End AInd.

Section CList.
  Variable c : cls.
  Fixpoint clist (l : list aexpr) (R0 : reg) : reg * list expr :=
    match l with
    | [] => (R0, [])
    | x :: r => let '(R1, e1) := compile c x R0 in
                let '(R2, r2) := clist r R1 in (R2, e1 :: r2)
    end.
End CList.

Lemma compile_alt c es R :
  compile c (AAlt es) R = let '(R', es') := clist c es R in (R', EAlt false es').
Proof. reflexivity. Qed.
Lemma compile_cat c es R :
  compile c (ACat es) R = let '(R', es') := clist c es R in (R', ECat es').
Proof. reflexivity. Qed.

Lemma clist_ext c es :
  Forall (fun a => forall R R1 e, compile c a R = (R1, e) -> ext c R R1) es ->
  forall R R1 l, clist c es R = (R1, l) -> ext c R R1.
Proof.
  induction 1 as [|x r Hx Hr IH]; intros R R1 l H; simpl in H.
  - inversion H; subst. apply ext_refl.
  - destruct (compile c x R) as [Ra ea] eqn:Ea. destruct (clist c r Ra) as [Rb rb] eqn:Eb.
    inversion H; subst. eapply ext_trans; [eapply Hx; eauto|eapply IH; eauto].
Qed.

Lemma compile_ext c a : forall R R1 e, compile c a R = (R1, e) -> ext c R R1.
Proof.
  induction a as [cs v|lo hi|es IH|es IH|mn mx a IH|a IH|v|nm] using aexpr_ind2; intros R R1 e0 H.
  - simpl in H. inversion H; subst. apply ext_refl.
  - simpl in H. inversion H; subst. apply ext_refl.
  - rewrite compile_alt in H. destruct (clist c es R) as [Ra la] eqn:E. inversion H; subst.
    eapply clist_ext; eauto.
  - rewrite compile_cat in H. destruct (clist c es R) as [Ra la] eqn:E. inversion H; subst.
    eapply clist_ext; eauto.
  - simpl in H. destruct (compile c a R) as [Ra ea] eqn:E. inversion H; subst.
    apply IH in E. destruct E as (l & H1 & H2 & H3 & H4). exists l; simpl; auto.
  - simpl in H. destruct (compile c a R) as [Ra ea] eqn:E. inversion H; subst.
    apply IH in E. destruct E as (l & H1 & H2 & H3 & H4). exists l; simpl; auto.
  - simpl in H. inversion H; subst. apply ext_refl.
  - simpl in H. destruct (rnew R c nm) as [Ra k] eqn:E. inversion H; subst.
    eapply rnew_ext; eauto.
Qed.

(* shape of define_rule *)
Lemma define_rule_shape c a R R' : define_rule c a R = Some R' ->
  exists R1 n R2 e e', rnew R c (aname a) = (R1, n) /\ compile c (adef a) R1 = (R2, e) /\
                       R' = set_def_new R2 n e'.
Proof.
  unfold define_rule. destruct (rnew R c (aname a)) as [R1 n] eqn:E1.
  destruct (compile c (adef a) R1) as [R2 e] eqn:E2. intros H.
  destruct (aincr a).
  - destruct (def_of R2 n) as [old|]; [|discriminate]. inversion H; subst.
    exists R1, n, R2, e, (EAlt false [old; e]). auto.
  - inversion H; subst. exists R1, n, R2, e, e. auto.
Qed.

(* ------------------------------------------------------------------------------------------ *)
(* reg_ok: every odef index is a valid index of defs                                           *)
(* ------------------------------------------------------------------------------------------ *)
Definition obj_ok (nd : nat) (o : robj) : Prop := forall d, odef o = Some d -> d < nd.
Definition reg_ok (R : reg) : Prop := Forall (obj_ok (length (defs R))) (objs R).

Lemma reg_ok_nth R j o d : reg_ok R -> nth_error (objs R) j = Some o -> odef o = Some d ->
  d < length (defs R).
Proof.
  intros Hok Hj Hd. unfold reg_ok in Hok. rewrite Forall_forall in Hok.
  apply (Hok o (nth_error_In _ _ Hj) d Hd).
Qed.

Lemma reg0_ok : reg_ok reg0.
Proof. constructor. Qed.

Lemma ext_ok c R R1 : ext c R R1 -> reg_ok R -> reg_ok R1.
Proof.
  intros (l & H1 & H2 & H3 & H4) Hok. unfold reg_ok. rewrite H1, H3. apply Forall_app. split.
  - exact Hok.
  - eapply Forall_impl; [|exact H2]. intros o [_ Hd] d Hd'. congruence.
Qed.

Lemma rnew_ok R c n R1 k : rnew R c n = (R1, k) -> reg_ok R -> reg_ok R1.
Proof. intros H. eapply ext_ok. eapply rnew_ext; eauto. Qed.

Lemma compile_ok c a R R1 e : compile c a R = (R1, e) -> reg_ok R -> reg_ok R1.
Proof. intros H. eapply ext_ok. eapply compile_ext; eauto. Qed.

Lemma set_def_idx_ok R n d : d < length (defs R) -> reg_ok R -> reg_ok (set_def_idx R n d).
Proof.
  intros Hd Hok. unfold reg_ok, set_def_idx; simpl. apply Forall_upd_nth; [exact Hok|].
  intros o _ d' H'. simpl in H'. inversion H'; subst. exact Hd.
Qed.

Lemma set_def_new_ok R n e : reg_ok R -> reg_ok (set_def_new R n e).
Proof.
  intros Hok. unfold set_def_new. apply set_def_idx_ok.
  - simpl. rewrite app_length. simpl. lia.
  - unfold reg_ok in *; simpl. rewrite app_length; simpl.
    eapply Forall_impl; [|exact Hok]. intros o Ho d Hd. specialize (Ho d Hd). lia.
Qed.

Lemma define_rule_ok c a R R' : define_rule c a R = Some R' -> reg_ok R -> reg_ok R'.
Proof.
  intros H Hok. apply define_rule_shape in H.
  destruct H as (R1 & n & R2 & e & e' & H1 & H2 & ->).
  apply set_def_new_ok. eapply compile_ok; eauto. eapply rnew_ok; eauto.
Qed.

Lemma define_rules_ok c l : forall R R', define_rules c l R = Some R' -> reg_ok R -> reg_ok R'.
Proof.
  induction l as [|a r IH]; intros R R' H Hok; simpl in H.
  - inversion H; subst; exact Hok.
  - destruct (define_rule c a R) as [Ra|] eqn:E; [|discriminate].
    eapply IH; eauto. eapply define_rule_ok; eauto.
Qed.

Lemma create_ok c t R R' : create c t R = Some R' -> reg_ok R -> reg_ok R'.
Proof.
  unfold create. destruct (read_rule (ensure_crlf t)) as [[a [|x s]]|]; try discriminate.
  apply define_rule_ok.
Qed.

Lemma load_grammar_ok c t s R R' : load_grammar c t s R = Some R' -> reg_ok R -> reg_ok R'.
Proof.
  unfold load_grammar. destruct (read_rulelist _) as [l|]; [|discriminate]. apply define_rules_ok.
Qed.

Lemma create_all_ok c ts : forall R R', create_all c ts R = Some R' -> reg_ok R -> reg_ok R'.
Proof.
  induction ts as [|t r IH]; intros R R' H Hok; simpl in H.
  - inversion H; subst; exact Hok.
  - destruct (create c t R) as [Ra|] eqn:E; [|discriminate].
    eapply IH; eauto. eapply create_ok; eauto.
Qed.

Lemma import_rule_ok c nm src R R' : import_rule c nm src R = Some R' -> reg_ok R -> reg_ok R'.
Proof.
  unfold import_rule. destruct (nth_error (objs R) src) as [o|] eqn:Eo; [|discriminate].
  destruct (odef o) as [d|] eqn:Ed; [|discriminate].
  destruct (rnew R c nm) as [R1 n] eqn:E1. intros H Hok. inversion H; subst.
  pose proof (reg_ok_nth _ _ _ _ Hok Eo Ed) as Hd.
  pose proof (rnew_keeps _ _ _ _ _ E1) as (_ & HD & _).
  apply set_def_idx_ok; [rewrite HD; exact Hd|]. eapply rnew_ok; eauto.
Qed.

Lemma set_flag_ok n v R R' : set_flag n v R = Some R' -> reg_ok R -> reg_ok R'.
Proof.
  unfold set_flag. destruct (nth_error (objs R) n) as [o|]; [|discriminate].
  destruct (odef o) as [d|]; [|discriminate].
  destruct (nth_error (defs R) d) as [e|]; [|discriminate].
  intros H Hok.
  destruct e; inversion H; subst; try exact Hok.
  unfold reg_ok; simpl. rewrite upd_nth_length. exact Hok.
Qed.

Lemma set_excl_ok n x R : reg_ok R -> reg_ok (set_excl n x R).
Proof.
  intros Hok. unfold reg_ok, set_excl; simpl. apply Forall_upd_nth; [exact Hok|].
  intros o Ho d Hd. simpl in Hd. apply Ho; exact Hd.
Qed.

(* every registry reachable from reg0 by the operations of Registry.v *)
Inductive reachable : reg -> Prop :=
| r_zero : reachable reg0
| r_rnew R c n R1 k : reachable R -> rnew R c n = (R1, k) -> reachable R1
| r_compile R c a R1 e : reachable R -> compile c a R = (R1, e) -> reachable R1
| r_set_def_new R n e : reachable R -> reachable (set_def_new R n e)
| r_define_rule R c a R' : reachable R -> define_rule c a R = Some R' -> reachable R'
| r_define_rules R c l R' : reachable R -> define_rules c l R = Some R' -> reachable R'
| r_create R c t R' : reachable R -> create c t R = Some R' -> reachable R'
| r_create_all R c ts R' : reachable R -> create_all c ts R = Some R' -> reachable R'
| r_load R c t s R' : reachable R -> load_grammar c t s R = Some R' -> reachable R'
| r_import R c nm src R' : reachable R -> import_rule c nm src R = Some R' -> reachable R'
| r_flag R n v R' : reachable R -> set_flag n v R = Some R' -> reachable R'
| r_excl R n x : reachable R -> reachable (set_excl n x R).

Theorem reachable_ok : forall R, reachable R -> reg_ok R.
Proof.
  induction 1.
  - apply reg0_ok.
  - eapply rnew_ok; eauto.
  - eapply compile_ok; eauto.
  - apply set_def_new_ok; auto.
  - eapply define_rule_ok; eauto.
  - eapply define_rules_ok; eauto.
  - eapply create_ok; eauto.
  - eapply create_all_ok; eauto.
  - eapply load_grammar_ok; eauto.
  - eapply import_rule_ok; eauto.
  - eapply set_flag_ok; eauto.
  - apply set_excl_ok; auto.
Qed.

(* ------------------------------------------------------------------------------------------ *)
(* B. flags                                                                                    *)
(* ------------------------------------------------------------------------------------------ *)
Lemma set_flag_alt_eq R n v fm es : def_of R n = Some (EAlt fm es) ->
  exists o d, nth_error (objs R) n = Some o /\ odef o = Some d /\
              nth_error (defs R) d = Some (EAlt fm es) /\
              set_flag n v R =
              Some (mkr (objs R) (upd_nth (defs R) d (fun _ => EAlt v es)) (nextid R) (S (epoch R))).
Proof.
  unfold def_of, set_flag. destruct (nth_error (objs R) n) as [o|]; [|discriminate].
  destruct (odef o) as [d|] eqn:Ed; [|discriminate]. intros H. rewrite H. exists o, d.
  split; [reflexivity|]. split; [exact Ed|]. split; [exact H|]. reflexivity.
Qed.

Theorem set_flag_alt : forall R n v R' fm es, def_of R n = Some (EAlt fm es) ->
  set_flag n v R = Some R' -> def_of R' n = Some (EAlt v es) /\ get_flag n R' = v.
Proof.
  intros R n v R' fm es Hd Hs.
  destruct (set_flag_alt_eq R n v fm es Hd) as (o & d & Ho & Hod & Hdd & Heq).
  rewrite Heq in Hs. inversion Hs; subst; clear Hs.
  assert (HD : def_of (mkr (objs R) (upd_nth (defs R) d (fun _ => EAlt v es)) (nextid R) (S (epoch R))) n
               = Some (EAlt v es)).
  { unfold def_of; simpl. rewrite Ho, Hod, nth_error_upd_nth_same, Hdd. reflexivity. }
  split; [exact HD|]. unfold get_flag. rewrite HD. reflexivity.
Qed.

Theorem set_flag_nonalt : forall R n v R' d, def_of R n = Some d ->
  (forall fm es, d <> EAlt fm es) -> set_flag n v R = Some R' -> R' = R.
Proof.
  intros R n v R' d Hd Hna. unfold def_of in Hd. unfold set_flag.
  destruct (nth_error (objs R) n) as [o|]; [|discriminate].
  destruct (odef o) as [k|]; [|discriminate]. rewrite Hd.
  destruct d; intros H; inversion H; subst; try reflexivity.
  exfalso. eapply Hna. reflexivity.
Qed.

Lemma set_flag_nonalt_flag : forall R n v R' d, def_of R n = Some d ->
  (forall fm es, d <> EAlt fm es) -> set_flag n v R = Some R' -> get_flag n R' = false.
Proof.
  intros R n v R' d Hd Hna Hs. rewrite (set_flag_nonalt _ _ _ _ _ Hd Hna Hs).
  unfold get_flag. rewrite Hd. destruct d; try reflexivity. exfalso; eapply Hna; reflexivity.
Qed.

(* GrammarError.  No side condition is needed in the model: set_flag itself answers None when the
   definition index is dangling.  Under [reg_ok] (which holds for every reachable registry, see
   [reachable_ok]) "def_of R n = None" means exactly "no such object or no definition yet", see
   [def_of_none_ok] below. *)
Theorem set_flag_undefined : forall R n v, def_of R n = None -> set_flag n v R = None.
Proof.
  intros R n v. unfold def_of, set_flag.
  destruct (nth_error (objs R) n) as [o|]; [|reflexivity].
  destruct (odef o) as [d|]; [|reflexivity].
  intros H; rewrite H. reflexivity.
Qed.

Lemma def_of_none_ok R n : reg_ok R ->
  (def_of R n = None <->
   nth_error (objs R) n = None \/ exists o, nth_error (objs R) n = Some o /\ odef o = None).
Proof.
  intros Hok. unfold def_of. destruct (nth_error (objs R) n) as [o|] eqn:Eo.
  - destruct (odef o) as [d|] eqn:Ed.
    + split.
      * intros H. exfalso. pose proof (reg_ok_nth _ _ _ _ Hok Eo Ed) as Hlt.
        apply nth_error_Some in Hlt. apply Hlt; exact H.
      * intros [H|(o' & H1 & H2)]; [discriminate|]. inversion H1; subst. congruence.
    + split; [|reflexivity]. intros _. right. exists o; auto.
  - split; [|reflexivity]. intros _. left; reflexivity.
Qed.

Definition flag_step (n : nat) (acc : option reg) (x : bool) : option reg :=
  match acc with Some r => set_flag n x r | None => None end.

Lemma fold_flag_none n vs : fold_left (flag_step n) vs None = None.
Proof. induction vs; simpl; auto. Qed.

Lemma fold_flag_alt n vs : forall R R' fm es, def_of R n = Some (EAlt fm es) ->
  fold_left (flag_step n) vs (Some R) = Some R' -> exists fm', def_of R' n = Some (EAlt fm' es).
Proof.
  induction vs as [|x r IH]; intros R R' fm es Hd H; simpl in H.
  - inversion H; subst. eauto.
  - destruct (set_flag n x R) as [Ra|] eqn:E.
    + destruct (set_flag_alt _ _ _ _ _ _ Hd E) as [Hd' _]. eapply IH; eauto.
    + rewrite fold_flag_none in H. discriminate.
Qed.

Theorem toggle_last : forall R n vs v R' fm es, def_of R n = Some (EAlt fm es) ->
  fold_left (fun acc x => match acc with Some r => set_flag n x r | None => None end)
            (vs ++ [v]) (Some R) = Some R' ->
  get_flag n R' = v /\ def_of R' n = Some (EAlt v es).
Proof.
  intros R n vs v R' fm es Hd H. change (fold_left (flag_step n) (vs ++ [v]) (Some R) = Some R') in H.
  rewrite fold_left_app in H. simpl in H.
  destruct (fold_left (flag_step n) vs (Some R)) as [Ra|] eqn:E; [|discriminate]. simpl in H.
  destruct (fold_flag_alt _ _ _ _ _ _ Hd E) as [fm' Hd'].
  destruct (set_flag_alt _ _ _ _ _ _ Hd' H). auto.
Qed.

(* ------------------------------------------------------------------------------------------ *)
(* C. epochs                                                                                   *)
(* ------------------------------------------------------------------------------------------ *)
Theorem set_def_new_epoch : forall R n e, epoch (set_def_new R n e) = S (epoch R).
Proof. reflexivity. Qed.

Lemma define_rule_epoch_eq c a R R' : define_rule c a R = Some R' -> epoch R' = S (epoch R).
Proof.
  intros H. apply define_rule_shape in H. destruct H as (R1 & n & R2 & e & e' & H1 & H2 & ->).
  rewrite set_def_new_epoch. apply compile_ext in H2. apply rnew_ext in H1.
  destruct H1 as (? & _ & _ & _ & E1). destruct H2 as (? & _ & _ & _ & E2). congruence.
Qed.

Theorem define_rule_epoch : forall c a R R', define_rule c a R = Some R' -> epoch R < epoch R'.
Proof. intros c a R R' H. rewrite (define_rule_epoch_eq _ _ _ _ H). lia. Qed.

Lemma import_rule_epoch_eq c nm src R R' : import_rule c nm src R = Some R' -> epoch R' = S (epoch R).
Proof.
  unfold import_rule. destruct (nth_error (objs R) src) as [o|]; [|discriminate].
  destruct (odef o) as [d|]; [|discriminate].
  destruct (rnew R c nm) as [R1 n] eqn:E1. intros H. inversion H; subst. simpl.
  pose proof (rnew_keeps _ _ _ _ _ E1) as (_ & _ & HE & _). rewrite HE. reflexivity.
Qed.

Theorem import_rule_epoch : forall c nm src R R', import_rule c nm src R = Some R' -> epoch R < epoch R'.
Proof. intros c nm src R R' H. rewrite (import_rule_epoch_eq _ _ _ _ _ H). lia. Qed.

Theorem set_flag_epoch : forall R n v R' fm es, def_of R n = Some (EAlt fm es) ->
  set_flag n v R = Some R' -> epoch R' = S (epoch R).
Proof.
  intros R n v R' fm es Hd Hs.
  destruct (set_flag_alt_eq R n v fm es Hd) as (o & d & _ & _ & _ & Heq).
  rewrite Heq in Hs. inversion Hs; subst. reflexivity.
Qed.

Theorem set_excl_epoch : forall n x R, epoch (set_excl n x R) = S (epoch R).
Proof. reflexivity. Qed.

Lemma define_rules_epoch_eq c l : forall R R', define_rules c l R = Some R' ->
  epoch R' = epoch R + length l.
Proof.
  induction l as [|a r IH]; intros R R' H; simpl in H.
  - inversion H; subst. simpl. lia.
  - destruct (define_rule c a R) as [Ra|] eqn:E; [|discriminate].
    apply IH in H. rewrite H, (define_rule_epoch_eq _ _ _ _ E). simpl. lia.
Qed.

Lemma create_epoch_eq c t R R' : create c t R = Some R' -> epoch R' = S (epoch R).
Proof.
  unfold create. destruct (read_rule (ensure_crlf t)) as [[a [|x s]]|]; try discriminate.
  apply define_rule_epoch_eq.
Qed.

Lemma create_all_epoch_eq c ts : forall R R', create_all c ts R = Some R' ->
  epoch R' = epoch R + length ts.
Proof.
  induction ts as [|t r IH]; intros R R' H; simpl in H.
  - inversion H; subst. simpl. lia.
  - destruct (create c t R) as [Ra|] eqn:E; [|discriminate].
    apply IH in H. rewrite H, (create_epoch_eq _ _ _ _ E). simpl. lia.
Qed.

(* define_rules / create / create_all / load_grammar never decrease the epoch and increase it as soon
   as they define at least one rule (in fact: by exactly the number of rules defined). *)
Theorem epoch_mono :
  (forall c l R R', define_rules c l R = Some R' ->
      epoch R <= epoch R' /\ (l <> [] -> epoch R < epoch R') /\ epoch R' = epoch R + length l) /\
  (forall c t R R', create c t R = Some R' -> epoch R < epoch R') /\
  (forall c ts R R', create_all c ts R = Some R' ->
      epoch R <= epoch R' /\ (ts <> [] -> epoch R < epoch R')) /\
  (forall c t s R R', load_grammar c t s R = Some R' ->
      epoch R <= epoch R' /\
      exists l, read_rulelist (if s then normalise t else t) = Some l /\
                epoch R' = epoch R + length l /\ (l <> [] -> epoch R < epoch R')).
Proof.
  assert (HL : forall A (l : list A), l <> [] -> 0 < length l).
  { intros A [|x l] H; [congruence|simpl; lia]. }
  split; [|split; [|split]].
  - intros c l R R' H. apply define_rules_epoch_eq in H. repeat split; try lia.
    intros Hl. apply HL in Hl. lia.
  - intros c t R R' H. apply create_epoch_eq in H. lia.
  - intros c ts R R' H. apply create_all_epoch_eq in H. split; [lia|].
    intros Hl. apply HL in Hl. lia.
  - intros c t s R R'. unfold load_grammar.
    destruct (read_rulelist (if s then normalise t else t)) as [l|]; [|discriminate].
    intros H. apply define_rules_epoch_eq in H. split; [lia|]. exists l. repeat split; try lia.
    intros Hl. apply HL in Hl. lia.
Qed.

(* ------------------------------------------------------------------------------------------ *)
(* D. isolation                                                                                *)
(* ------------------------------------------------------------------------------------------ *)
Theorem define_rule_isolated : forall c a R R', c <> 0%N -> define_rule c a R = Some R' ->
  (forall k o, rget R c (aname a) = Some k -> nth_error (objs R) k = Some o -> ocls o = c) ->
  (forall j o, nth_error (objs R) j = Some o -> ocls o <> c -> nth_error (objs R') j = Some o) /\
  (forall d e, nth_error (defs R) d = Some e -> nth_error (defs R') d = Some e).
Proof.
  intros c a R R' _ H Hown. apply define_rule_shape in H.
  destruct H as (R1 & n & R2 & e & e' & H1 & H2 & ->).
  pose proof (ext_trans _ _ _ _ (rnew_ext _ _ _ _ _ H1) (compile_ext _ _ _ _ _ H2))
    as (l & HO & _ & HD & _).
  split.
  - intros j o Hj Hc.
    assert (Hlt : j < length (objs R)) by (apply nth_error_Some; rewrite Hj; discriminate).
    assert (Hne : j <> n).
    { unfold rnew in H1. destruct (rget R c (aname a)) as [k|] eqn:Eg.
      - inversion H1; subst. intros ->. apply Hc. eapply Hown; eauto.
      - inversion H1; subst. lia. }
    unfold set_def_new, set_def_idx; simpl. rewrite nth_error_upd_nth_other by exact Hne.
    rewrite HO, nth_error_app1 by exact Hlt. exact Hj.
  - intros d x Hd. unfold set_def_new, set_def_idx; simpl. rewrite HD.
    rewrite nth_error_app1; [exact Hd|]. apply nth_error_Some. rewrite Hd. discriminate.
Qed.

(* unconditional: an object of R' is an object of R at the same position with the same class and
   key, or it belongs to class c *)
Lemma define_rule_objs c a R R' : define_rule c a R = Some R' ->
  forall j o', nth_error (objs R') j = Some o' ->
  (exists o, nth_error (objs R) j = Some o /\ ocls o = ocls o' /\ okey o = okey o') \/ ocls o' = c.
Proof.
  intros H j o' Hj. apply define_rule_shape in H.
  destruct H as (R1 & n & R2 & e & e' & H1 & H2 & ->).
  pose proof (ext_trans _ _ _ _ (rnew_ext _ _ _ _ _ H1) (compile_ext _ _ _ _ _ H2))
    as (l & HO & HF & _ & _).
  unfold set_def_new, set_def_idx in Hj; simpl in Hj.
  apply nth_error_upd_nth_inv in Hj. destruct Hj as (x & Hx & Hy).
  assert (Hck : ocls x = ocls o' /\ okey x = okey o') by (destruct Hy; subst; simpl; auto).
  destruct Hck as [Hc Hk]. rewrite HO in Hx.
  destruct (Nat.lt_ge_cases j (length (objs R))) as [Hlt|Hge].
  - rewrite nth_error_app1 in Hx by exact Hlt. left. exists x; auto.
  - rewrite nth_error_app2 in Hx by exact Hge. right. apply nth_error_In in Hx.
    rewrite Forall_forall in HF. rewrite <- Hc. apply (HF x Hx).
Qed.

(* "no defined name falls back to the base class": no class-0 object carries the folded name of a
   rule of the list *)
Definition no_core_clash (R : reg) (l : list arule) : Prop :=
  forall o a, In o (objs R) -> In a l -> ocls o = 0%N -> okey o <> fold_name (aname a).

Lemma no_core_clash_own c a l R : no_core_clash R l -> In a l ->
  forall k o, rget R c (aname a) = Some k -> nth_error (objs R) k = Some o -> ocls o = c.
Proof.
  intros Hn Hin k o Hg Hk. apply rget_own_or_core in Hg. destruct Hg as (o' & Hk' & Hkey & [Hc|Hc]).
  - congruence.
  - exfalso. rewrite Hk in Hk'. inversion Hk'; subst o'.
    apply (Hn o a (nth_error_In _ _ Hk) Hin Hc Hkey).
Qed.

Theorem define_rules_isolated : forall c l R R', c <> 0%N -> define_rules c l R = Some R' ->
  no_core_clash R l ->
  (forall j o, nth_error (objs R) j = Some o -> ocls o <> c -> nth_error (objs R') j = Some o) /\
  (forall d e, nth_error (defs R) d = Some e -> nth_error (defs R') d = Some e).
Proof.
  intros c l. induction l as [|a r IH]; intros R R' Hc H Hn; simpl in H.
  - inversion H; subst. auto.
  - destruct (define_rule c a R) as [Ra|] eqn:E; [|discriminate].
    destruct (define_rule_isolated c a R Ra Hc E
                (no_core_clash_own c a (a :: r) R Hn (or_introl eq_refl))) as [I1 I2].
    assert (Hn' : no_core_clash Ra r).
    { intros o b Ho Hb Ho0 Hkey. apply In_nth_error in Ho. destruct Ho as [j Hj].
      destruct (define_rule_objs _ _ _ _ E j o Hj) as [(o0 & Hj0 & Hc0 & Hk0)|Hcc].
      - apply (Hn o0 b (nth_error_In _ _ Hj0) (or_intror Hb)); congruence.
      - apply Hc. congruence. }
    destruct (IH Ra R' Hc H Hn') as [J1 J2]. split.
    + intros j o Hj Hoc. apply J1; auto.
    + intros d e Hd. apply J2; auto.
Qed.

Theorem create_isolated : forall c t R R' a, c <> 0%N -> create c t R = Some R' ->
  read_rule (ensure_crlf t) = Some (a, []) -> no_core_clash R [a] ->
  (forall j o, nth_error (objs R) j = Some o -> ocls o <> c -> nth_error (objs R') j = Some o) /\
  (forall d e, nth_error (defs R) d = Some e -> nth_error (defs R') d = Some e).
Proof.
  intros c t R R' a Hc H Hr Hn. unfold create in H. rewrite Hr in H.
  apply (define_rule_isolated c a R R' Hc H).
  apply (no_core_clash_own c a [a] R Hn (or_introl eq_refl)).
Qed.

Theorem load_grammar_isolated : forall c t s R R' l, c <> 0%N -> load_grammar c t s R = Some R' ->
  read_rulelist (if s then normalise t else t) = Some l -> no_core_clash R l ->
  (forall j o, nth_error (objs R) j = Some o -> ocls o <> c -> nth_error (objs R') j = Some o) /\
  (forall d e, nth_error (defs R) d = Some e -> nth_error (defs R') d = Some e).
Proof.
  intros c t s R R' l Hc H Hr Hn. unfold load_grammar in H. rewrite Hr in H.
  eapply define_rules_isolated; eauto.
Qed.

(* the unconditional claim is false: defining DIGIT in class 2 rebinds the core rule DIGIT *)
Definition s_DIGIT : str := [68; 73; 71; 73; 84]%N.
Definition R_core : reg :=
  match define_rule 0%N {| aname := s_DIGIT; aincr := false; adef := ARange 48 57 |} reg0 with
  | Some r => r | None => reg0 end.
Definition a_digit_x : arule := {| aname := s_DIGIT; aincr := false; adef := ALit false [120%N] |}.
Definition R_clobbered : reg :=
  match define_rule 2%N a_digit_x R_core with Some r => r | None => reg0 end.

Theorem define_rule_refuted : exists c a R R' j o o', c <> 0%N /\ define_rule c a R = Some R' /\
  nth_error (objs R) j = Some o /\ ocls o = 0%N /\ nth_error (objs R') j = Some o' /\ odef o' <> odef o.
Proof.
  exists 2%N, a_digit_x, R_core, R_clobbered, 0,
    (mko 0%N (fold_name s_DIGIT) s_DIGIT (Some 0) None),
    (mko 0%N (fold_name s_DIGIT) s_DIGIT (Some 1) None).
  split; [discriminate|]. split; [vm_compute; reflexivity|]. split; [vm_compute; reflexivity|].
  split; [reflexivity|]. split; [vm_compute; reflexivity|]. simpl. discriminate.
Qed.

Print Assumptions rget_case.
Print Assumptions rget_own_or_core.
Print Assumptions rnew_idem.
Print Assumptions rnew_keeps.
Print Assumptions reachable_ok.
Print Assumptions set_flag_alt.
Print Assumptions set_flag_nonalt.
Print Assumptions set_flag_undefined.
Print Assumptions toggle_last.
Print Assumptions set_def_new_epoch.
Print Assumptions define_rule_epoch.
Print Assumptions import_rule_epoch.
Print Assumptions set_flag_epoch.
Print Assumptions set_excl_epoch.
Print Assumptions epoch_mono.
Print Assumptions define_rule_isolated.
Print Assumptions define_rules_isolated.
Print Assumptions create_isolated.
Print Assumptions load_grammar_isolated.
Print Assumptions define_rule_refuted.
