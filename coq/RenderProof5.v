(* RenderProof5.v — [normal] describes EXACTLY the trees the reader can return:
   the reader returns only normal trees ([reader_normal_elements], [reader_normal_rule],
   [reader_normal_rulelist]), and every normal tree is returned for some text (RenderProof4.v), so
   [normal_exact], [normal_rules_exact]. *)
From Coq Require Import String Ascii List NArith Arith Bool Lia.
From ABNF Require Import Base AbnfRead RenderSpec RenderProof1 RenderProof2 RenderProof3 RenderProof4.
Import ListNotations.

Lemma span__split p : forall (s acc v r : str), span_ p acc s = (v, r) ->
  exists v', v = rev acc ++ v' /\ Forall (fun c => p c = true) v'.
Proof.
  induction s as [|c s IH]; intros acc v r; cbn [span_].
  - rewrite rev'_rev. intros H; injection H as <- <-. exists []. rewrite app_nil_r. auto.
  - destruct (p c) eqn:E.
    + intros H. destruct (IH _ _ _ H) as (v' & -> & Hv'). exists (c :: v'). cbn [rev].
      rewrite <- app_assoc. split; [reflexivity|]. constructor; assumption.
    + rewrite rev'_rev. intros H; injection H as <- <-. exists []. rewrite app_nil_r. auto.
Qed.
Lemma span_all p (s v r : str) : span p s = (v, r) -> Forall (fun c => p c = true) v.
Proof. intros H. destruct (span__split p s [] v r H) as (v' & -> & Hv'). exact Hv'. Qed.
Lemma Forall_prop {A} (p : A -> bool) (P : A -> Prop) l :
  (forall c, p c = true -> P c) -> Forall (fun c => p c = true) l -> Forall P l.
Proof. intros HP H. induction H; constructor; auto. Qed.

Lemma read_name_rulename (s n r : str) : read_name s = Some (n, r) -> r_rulename n.
Proof.
  destruct s as [|c s]; [discriminate|]. cbn [read_name]. destruct (is_alpha c) eqn:Ea; [|discriminate].
  destruct (span is_namechar s) as [v r1] eqn:E. intros H; injection H as <- <-.
  constructor; [apply alpha_iff; exact Ea|].
  apply (Forall_prop is_namechar); [intros c0; apply namechar_iff|]. exact (span_all _ _ _ _ E).
Qed.
Lemma quoted_qchar (s v r : str) : quoted s = Some (v, r) -> Forall QCHAR v.
Proof.
  unfold quoted. destruct (eat DQUOTE s) as [s0|]; [|discriminate].
  destruct (span is_qchar s0) as [v0 r1] eqn:E. destruct (eat DQUOTE r1); [|discriminate].
  intros H; injection H as <- <-.
  apply (Forall_prop is_qchar); [intros c0; apply qchar_iff|]. exact (span_all _ _ _ _ E).
Qed.
Lemma num_val_normal f base (s : str) e r : num_val f base s = Some (e, r) -> normal e.
Proof.
  unfold num_val. destruct (number base s) as [[n r0]|]; [|discriminate].
  destruct (eat (ch "-") r0) as [s0|].
  - destruct (number base s0) as [[m r2]|]; [|discriminate]. intros H; injection H as <- <-. constructor.
  - destruct (series f base [n] r0) as [[vs r2]|]; [|discriminate]. intros H; injection H as <- <-. constructor.
Qed.

Lemma terminal_normal f (s : str) e r : terminal f s = Some (e, r) -> normal e.
Proof.
  destruct s as [|c s]; [discriminate|]. unfold terminal.
  destruct (is_alpha c).
  { destruct (read_name (c :: s)) as [[n r1]|] eqn:E; [|discriminate].
    intros H; injection H as <- <-. apply N_ref. exact (read_name_rulename _ _ _ E). }
  destruct (is DQUOTE c).
  { destruct (quoted (c :: s)) as [[v r1]|] eqn:E; [|discriminate].
    intros H; injection H as <- <-. apply N_lit_ci. exact (quoted_qchar _ _ _ E). }
  destruct (is (ch "<") c).
  { destruct (span is_pchar s) as [v r1] eqn:E. destruct (eat (ch ">") r1); [|discriminate].
    intros H; injection H as <- <-. destruct (is_rulename v) eqn:Er.
    - apply N_ref, is_rulename_iff. exact Er.
    - apply N_prose.
      + apply (Forall_prop is_pchar); [intros c0; apply pchar_iff|]. exact (span_all _ _ _ _ E).
      + intros Hr. apply is_rulename_iff in Hr. congruence. }
  destruct (is (ch "%") c); [|discriminate].
  destruct (eat_ci (ch "i") s) as [s0|].
  { destruct (quoted s0) as [[v r2]|] eqn:E; [|discriminate].
    intros H; injection H as <- <-. apply N_lit_ci. exact (quoted_qchar _ _ _ E). }
  destruct (eat_ci (ch "s") s) as [s0|].
  { destruct (quoted s0) as [[v r2]|] eqn:E; [|discriminate].
    intros H; injection H as <- <-. apply N_lit_cs. }
  destruct (eat_ci (ch "b") s); [apply num_val_normal|].
  destruct (eat_ci (ch "d") s); [apply num_val_normal|].
  destruct (eat_ci (ch "x") s); [apply num_val_normal|discriminate].
Qed.

Lemma mk_cat_normal l : l <> [] -> Forall normal l -> normal (mk_cat l).
Proof.
  intros Hne Hl. destruct l as [|a [|b l]]; [contradiction|inversion Hl; assumption|].
  unfold mk_cat. rewrite rev'_rev. apply N_cat.
  - rewrite rev_length. cbn [length]. lia.
  - apply Forall_rev. exact Hl.
Qed.
Lemma mk_alt_normal l : l <> [] -> Forall normal l -> normal (mk_alt l).
Proof.
  intros Hne Hl. destruct l as [|a [|b l]]; [contradiction|inversion Hl; assumption|].
  unfold mk_alt. rewrite rev'_rev. apply N_alt.
  - rewrite rev_length. cbn [length]. lia.
  - apply Forall_rev. exact Hl.
Qed.

Lemma alt_f_normal f : forall alts cur (s : str) e r, Forall normal alts -> Forall normal cur ->
  alt_f f alts cur s = Some (e, r) -> normal e.
Proof.
  induction f as [|f IH]; intros alts cur s e r Ha Hc H; [discriminate|].
  rewrite alt_f_S in H. destruct (read_repeat s) as [rp s1].
  destruct (elem_f f s1) as [[e2 s2]|] eqn:E1; [|discriminate].
  assert (N2 : normal e2).
  { unfold elem_f in E1. destruct (eat (ch "(") s1) as [r0|].
    - destruct (alt_f f [] [] (c_wsps f r0)) as [[e1 r1]|] eqn:Eb; [|discriminate].
      destruct (eat (ch ")") r1); [|discriminate]. injection E1 as <- <-.
      exact (IH [] [] _ _ _ (Forall_nil _) (Forall_nil _) Eb).
    - destruct (eat (ch "[") s1) as [r0|].
      + destruct (alt_f f [] [] (c_wsps f r0)) as [[e1 r1]|] eqn:Eb; [|discriminate].
        destruct (eat (ch "]") r1); [|discriminate]. injection E1 as <- <-.
        apply N_opt. exact (IH [] [] _ _ _ (Forall_nil _) (Forall_nil _) Eb).
      + exact (terminal_normal _ _ _ _ E1). }
  assert (Ncur : Forall normal (with_repeat rp e2 :: cur)).
  { constructor; [|exact Hc]. destruct rp as [[mn mx]|]; cbn [with_repeat]; [constructor|]; exact N2. }
  unfold post in H. cbv zeta in H.
  destruct (eat (ch "/") (c_wsps f s2)) as [r0|].
  - refine (IH _ _ _ _ _ _ (Forall_nil _) H). constructor; [|exact Ha].
    apply mk_cat_normal; [discriminate|exact Ncur].
  - destruct (starts_repetition (c_wsps f s2) && is_some (c_wsp s2)).
    + exact (IH _ _ _ _ _ Ha Ncur H).
    + assert (Nr : normal (mk_alt (mk_cat (with_repeat rp e2 :: cur) :: alts))).
      { apply mk_alt_normal; [discriminate|].
        constructor; [|exact Ha]. apply mk_cat_normal; [discriminate|exact Ncur]. }
      injection H as <- <-. exact Nr.
Qed.

Theorem reader_normal_elements : forall s e r, read_elements s = Some (e, r) -> normal e.
Proof. intros s e r H. exact (alt_f_normal _ [] [] s e r (Forall_nil _) (Forall_nil _) H). Qed.

Lemma rule_f_normal f (s : str) a r : rule_f f s = Some (a, r) -> normal_rule a.
Proof.
  unfold rule_f. destruct (read_name s) as [[n s1]|] eqn:E1; [|discriminate].
  destruct (eat (ch "=") (c_wsps f s1)) as [s2|]; [|discriminate].
  destruct (match eat (ch "/") s2 with Some r0 => (true, r0) | None => (false, s2) end) as [incr s3].
  destruct (alt_f f [] [] (c_wsps f s3)) as [[e s4]|] eqn:E5; [|discriminate].
  destruct (c_nl s4); [|discriminate]. intros H; injection H as <- <-.
  split; cbn [aname adef].
  - exact (read_name_rulename _ _ _ E1).
  - exact (alt_f_normal _ [] [] _ _ _ (Forall_nil _) (Forall_nil _) E5).
Qed.
Theorem reader_normal_rule : forall s a r, read_rule s = Some (a, r) -> normal_rule a.
Proof. intros s a r. apply rule_f_normal. Qed.

Lemma rulelist_f_normal : forall f acc (s : str) rs, Forall normal_rule acc ->
  rulelist_f f acc s = Some rs -> Forall normal_rule rs.
Proof.
  induction f as [|f IH]; intros acc s rs Hacc.
  - destruct s; cbn [rulelist_f]; [|discriminate]. rewrite rev'_rev. intros H; injection H as <-.
    apply Forall_rev. exact Hacc.
  - destruct s as [|c s']; cbn [rulelist_f].
    + rewrite rev'_rev. intros H; injection H as <-. apply Forall_rev. exact Hacc.
    + destruct (is_alpha c).
      * destruct (read_rule (c :: s')) as [[a s1]|] eqn:E; [|discriminate].
        apply IH. constructor; [exact (reader_normal_rule _ _ _ E)|exact Hacc].
      * destruct (c_nl (c_wsps (S f) (c :: s'))); [|discriminate]. apply IH. exact Hacc.
Qed.
Theorem reader_normal_rulelist : forall s rs, read_rulelist s = Some rs -> Forall normal_rule rs.
Proof.
  intros s rs. unfold read_rulelist. destruct s; [discriminate|]. apply rulelist_f_normal. constructor.
Qed.

(* [normal] = what the reader can return *)
Theorem normal_exact : forall e, normal e <-> exists s, read_elements s = Some (e, []).
Proof.
  intros e. split.
  - intros H. exists (print_expr e). apply read_print_expr. exact H.
  - intros [s H]. exact (reader_normal_elements _ _ _ H).
Qed.
Theorem normal_rules_exact : forall rs, Forall normal_rule rs <-> exists s, read_rulelist s = Some rs.
Proof.
  intros rs. split.
  - intros H. exists (print_rulelist rs). apply read_print_rulelist. exact H.
  - intros [s H]. exact (reader_normal_rulelist _ _ H).
Qed.
(* the rendering relation is total on the reader's range *)
Corollary reader_range_has_rendering : forall s rs, read_rulelist s = Some rs ->
  exists s', renders_rulelist rs s'.
Proof.
  intros s rs H. exists (print_rulelist rs). apply print_rulelist_renders. exact (reader_normal_rulelist _ _ H).
Qed.

Print Assumptions reader_normal_elements.
Print Assumptions reader_normal_rulelist.
Print Assumptions normal_exact.
Print Assumptions normal_rules_exact.
Print Assumptions reader_range_has_rendering.
