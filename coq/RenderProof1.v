(* RenderProof1.v — the reader's small readers on renderings: characters, layout (c-nl, c-wsp,
   greedy *c-wsp), numbers, repeats, and the elements without sub-expressions.
   Each lemma has the shape: if the text is a rendering followed by [x], and [x] does not start
   with a character that would extend the rendering, then the reader returns the denoted value
   and [x]. *)
From Coq Require Import String Ascii List NArith Arith Bool Lia.
From ABNF Require Import Base AbnfRead RenderSpec.
Import ListNotations.

Lemma rev'_rev {A} (l : list A) : rev' l = rev l.
Proof. unfold rev'. rewrite <- rev_alt. reflexivity. Qed.

(* ------------------------------------------------------------------------------------------ *)
(** * Characters: the reader's tests decide the classes of the specification *)
Ltac chs :=
  change (ch ";") with 59%N in *; change (ch "*") with 42%N in *; change (ch "(") with 40%N in *;
  change (ch "[") with 91%N in *; change (ch ")") with 41%N in *; change (ch "]") with 93%N in *;
  change (ch "/") with 47%N in *; change (ch "=") with 61%N in *; change (ch ".") with 46%N in *;
  change (ch "-") with 45%N in *; change (ch "<") with 60%N in *; change (ch ">") with 62%N in *;
  change (ch "%") with 37%N in *; change DQUOTE with 34%N in *.

Ltac bool_cases :=
  unfold is_namechar in *; unfold is_alpha, is_digit, is_wsp, is_vchar, is_qchar, is_pchar in *; chs;
  unfold between, is in *;
  repeat match goal with
  | |- context [N.leb ?a ?b] => destruct (N.leb_spec a b)
  | |- context [N.eqb ?a ?b] => destruct (N.eqb_spec a b)
  end; cbn [andb orb]; try reflexivity; try discriminate; try lia.

Lemma wsp_true c : WSP c -> is_wsp c = true.
Proof. unfold WSP. intros H. bool_cases. Qed.
Lemma wsp_iff c : is_wsp c = true <-> WSP c.
Proof. split; [|apply wsp_true]. unfold WSP. bool_cases; intros _; lia. Qed.
Lemma wv_true c : WSP c \/ VCHAR c -> (is_wsp c || is_vchar c) = true.
Proof. unfold WSP, VCHAR. intros H. bool_cases. Qed.
Lemma alpha_true c : ALPHA c -> is_alpha c = true.
Proof. unfold ALPHA. intros H. bool_cases. Qed.
Lemma alpha_iff c : is_alpha c = true <-> ALPHA c.
Proof. split; [|apply alpha_true]. unfold ALPHA. bool_cases; intros _; lia. Qed.
Lemma digit_iff c : is_digit c = true <-> DIGIT c.
Proof. unfold DIGIT. split; bool_cases; intros _; lia. Qed.
Lemma namechar_true c : NAMECHAR c -> is_namechar c = true.
Proof. unfold NAMECHAR, ALPHA, DIGIT. intros H. bool_cases. Qed.
Lemma namechar_iff c : is_namechar c = true <-> NAMECHAR c.
Proof. split; [|apply namechar_true]. unfold NAMECHAR, ALPHA, DIGIT. bool_cases; intros _; lia. Qed.
Lemma qchar_true c : QCHAR c -> is_qchar c = true.
Proof. unfold QCHAR. intros H. bool_cases. Qed.
Lemma qchar_iff c : is_qchar c = true <-> QCHAR c.
Proof. split; [|apply qchar_true]. unfold QCHAR. bool_cases; intros _; lia. Qed.
Lemma pchar_true c : PCHAR c -> is_pchar c = true.
Proof. unfold PCHAR. intros H. bool_cases. Qed.
Lemma pchar_iff c : is_pchar c = true <-> PCHAR c.
Proof. split; [|apply pchar_true]. unfold PCHAR. bool_cases; intros _; lia. Qed.

Lemma forallb_Forall {A} (p : A -> bool) (P : A -> Prop) l :
  (forall c, p c = true <-> P c) -> forallb p l = true <-> Forall P l.
Proof.
  intros HP. induction l as [|c l IH]; cbn [forallb].
  - split; auto.
  - rewrite andb_true_iff, IH, HP. split; [intros [? ?]; constructor; auto|].
    intros H; inversion H; auto.
Qed.
Lemma Forall_true {A} (p : A -> bool) (P : A -> Prop) l :
  (forall c, P c -> p c = true) -> Forall P l -> Forall (fun c => p c = true) l.
Proof. intros HP H. induction H; constructor; auto. Qed.

Lemma is_rulename_iff v : is_rulename v = true <-> r_rulename v.
Proof.
  destruct v as [|c r]; cbn [is_rulename].
  - split; [discriminate|]. intros H; inversion H.
  - rewrite andb_true_iff, alpha_iff, (forallb_Forall _ NAMECHAR r namechar_iff).
    split; [intros [? ?]; constructor; auto|]. intros H; inversion H; auto.
Qed.
Lemma is_rulename_false v : ~ r_rulename v -> is_rulename v = false.
Proof. intros H. destruct (is_rulename v) eqn:E; [|reflexivity]. apply is_rulename_iff in E. contradiction. Qed.

(* ------------------------------------------------------------------------------------------ *)
(** * What may follow an element: WSP, ";", CR (the start of a c-wsp / c-nl), "/", ")", "]", or the
   end of the text *)
Definition folc (c : cp) : Prop :=
  (c = 32 \/ c = 9 \/ c = 59 \/ c = 13 \/ c = 47 \/ c = 41 \/ c = 93)%N.
Definition fol (x : str) : Prop := match x with [] => True | c :: _ => folc c end.
Ltac folc_cases H := destruct H as [H|[H|[H|[H|[H|[H|H]]]]]]; subst.

Definition nofirst (p : cp -> bool) (x : str) : Prop :=
  match x with c :: _ => p c = false | [] => True end.
Lemma fol_nofirst p x : (forall c, folc c -> p c = false) -> fol x -> nofirst p x.
Proof. intros Hp. destruct x as [|c x]; cbn; [trivial|]. apply Hp. Qed.

(* ------------------------------------------------------------------------------------------ *)
(** * span *)
Lemma span__app p (vs x : str) : Forall (fun c => p c = true) vs -> nofirst p x ->
  forall acc, span_ p acc (vs ++ x) = (rev acc ++ vs, x).
Proof.
  intros HF Hx. induction HF as [|c vs Hc _ IH]; intros acc.
  - cbn [app]. rewrite app_nil_r. destruct x as [|c x]; cbn [span_].
    + rewrite rev'_rev. reflexivity.
    + cbn in Hx. rewrite Hx, rev'_rev. reflexivity.
  - cbn [app span_]. rewrite Hc, IH. cbn [rev]. rewrite <- app_assoc. reflexivity.
Qed.
Lemma span_app p (vs x : str) : Forall (fun c => p c = true) vs -> nofirst p x -> span p (vs ++ x) = (vs, x).
Proof. intros HF Hx. unfold span. rewrite (span__app p vs x HF Hx []). reflexivity. Qed.

(* ------------------------------------------------------------------------------------------ *)
(** * Layout *)
(* greedy *c-wsp with exactly enough fuel *)
Definition cw (s : str) : str := c_wsps (length s) s.

Lemma c_wsps_fuel : forall f g s, length s <= f -> length s <= g -> c_wsps f s = c_wsps g s.
Proof.
  induction f as [|f IH]; intros g s Hf Hg.
  - destruct s; [|cbn in Hf; lia]. destruct g; reflexivity.
  - destruct g as [|g].
    + destruct s; [|cbn in Hg; lia]. reflexivity.
    + cbn [c_wsps]. destruct (c_wsp s) as [r|] eqn:E; [|reflexivity].
      apply c_wsp_len in E. apply IH; lia.
Qed.
Lemma c_wsps_cw f s : length s <= f -> c_wsps f s = cw s.
Proof. intros H. apply c_wsps_fuel; [assumption|lia]. Qed.
Lemma cw_step s r : c_wsp s = Some r -> cw s = cw r.
Proof.
  intros H. unfold cw at 1. pose proof (c_wsp_len _ _ H) as L.
  destruct (length s) as [|n] eqn:E; [lia|]. cbn [c_wsps]. rewrite H. apply c_wsps_cw. lia.
Qed.
Lemma cw_stop s : c_wsp s = None -> cw s = s.
Proof. intros H. unfold cw. destruct (length s); cbn [c_wsps]; [reflexivity|]. rewrite H. reflexivity. Qed.
Lemma cw_nil : cw [] = [].
Proof. reflexivity. Qed.

Lemma comment_body_app (body x : str) : Forall (fun c => WSP c \/ VCHAR c) body ->
  comment_body (body ++ CR :: LF :: x) = Some x.
Proof.
  induction 1 as [|c body Hc _ IH]; cbn [app comment_body].
  - reflexivity.
  - rewrite (wv_true c Hc). exact IH.
Qed.
Lemma c_nl_app (nl x : str) : r_cnl nl -> c_nl (nl ++ x) = Some x.
Proof.
  intros [s [body Hb]|].
  - cbn [app]. rewrite <- app_assoc. cbn [app]. unfold c_nl. chs. cbn [eat].
    change (is 59 59) with true. cbv iota. apply comment_body_app. exact Hb.
  - reflexivity.
Qed.
(* a c-nl starts with ";" or CR *)
Lemma cnl_head nl : r_cnl nl -> exists h t, nl = h :: t /\ (h = 59 \/ h = 13)%N.
Proof. intros [s [body Hb]|]; do 2 eexists; (split; [reflexivity|]); auto. Qed.
Lemma c_wsp_nonwsp (h : cp) (t : str) : is_wsp h = false ->
  c_wsp (h :: t) = match c_nl (h :: t) with
                   | Some (w :: r2) => if is_wsp w then Some r2 else None
                   | _ => None
                   end.
Proof. intros H. cbn [c_wsp]. rewrite H. destruct (c_nl (h :: t)) as [[|w r2]|]; reflexivity. Qed.

Lemma c_wsp_app (a x : str) : r_cwsp a -> c_wsp (a ++ x) = Some x.
Proof.
  intros [c Hc|nl c Hnl Hc].
  - cbn [app c_wsp]. rewrite (wsp_true c Hc). reflexivity.
  - rewrite <- app_assoc. cbn [app].
    destruct (cnl_head nl Hnl) as (h & t & E & Hh).
    assert (Hw : is_wsp h = false) by (destruct Hh; subst h; reflexivity).
    pose proof (c_nl_app nl (c :: x) Hnl) as N. rewrite E in *. cbn [app] in *.
    rewrite (c_wsp_nonwsp h _ Hw), N, (wsp_true c Hc). reflexivity.
Qed.
Lemma cw_app (w x : str) : r_cwsps w -> cw (w ++ x) = cw x.
Proof.
  induction 1 as [|a w Ha _ IH]; [reflexivity|].
  rewrite <- app_assoc, (cw_step _ _ (c_wsp_app a (w ++ x) Ha)). exact IH.
Qed.
Lemma cwsps1_cwsps w : r_cwsps1 w -> r_cwsps w.
Proof. intros [a w' Ha Hw]. constructor; assumption. Qed.
Lemma c_wsp_app1 (w x : str) : r_cwsps1 w -> is_some (c_wsp (w ++ x)) = true.
Proof. intros [a w' Ha Hw]. rewrite <- app_assoc, (c_wsp_app a _ Ha). reflexivity. Qed.

(* where *c-wsp stops: the end of the text, or a character other than WSP, ";", CR *)
Lemma c_wsp_none (c : cp) (t : str) : c <> 32%N -> c <> 9%N -> c <> 59%N -> c <> 13%N -> c_wsp (c :: t) = None.
Proof.
  intros H1 H2 H3 H4.
  assert (Hw : is_wsp c = false) by bool_cases.
  rewrite (c_wsp_nonwsp c t Hw). unfold c_nl, crlf. chs. cbn [eat].
  assert (E1 : is 59 c = false) by bool_cases.
  assert (E2 : is 13 c = false) by bool_cases.
  rewrite E1, E2. reflexivity.
Qed.
(* a c-nl that is not followed by WSP is not white space *)
Definition nowsp (x : str) : Prop := match x with [] => True | c :: _ => is_wsp c = false end.
Lemma c_wsp_nl_stop (nl x : str) : r_cnl nl -> nowsp x -> c_wsp (nl ++ x) = None.
Proof.
  intros Hnl Hx. destruct (cnl_head nl Hnl) as (h & t & E & Hh).
  assert (Hw : is_wsp h = false) by (destruct Hh; subst h; reflexivity).
  pose proof (c_nl_app nl x Hnl) as N. rewrite E in *. cbn [app] in *.
  rewrite (c_wsp_nonwsp h _ Hw), N. destruct x as [|c x]; [reflexivity|]. cbn in Hx. rewrite Hx. reflexivity.
Qed.

(* the first character of white space *)
Definition wsc (c : cp) : Prop := (c = 32 \/ c = 9 \/ c = 59 \/ c = 13)%N.
Lemma wsc_folc c : wsc c -> folc c.
Proof. unfold wsc, folc. intuition. Qed.
Lemma cwsp_head a : r_cwsp a -> exists h t, a = h :: t /\ wsc h.
Proof.
  intros [c [Hc|Hc]|nl c Hnl Hc]; try (do 2 eexists; split; [reflexivity|]; unfold wsc; auto; fail).
  destruct (cnl_head nl Hnl) as (h & t & E & Hh). subst nl. exists h, (t ++ [c]). split; [reflexivity|].
  unfold wsc. destruct Hh; auto.
Qed.
Lemma cwsps1_head w : r_cwsps1 w -> exists h t, w = h :: t /\ wsc h.
Proof.
  intros [a w' Ha _]. destruct (cwsp_head a Ha) as (h & t & E & Hh). subst a.
  exists h, (t ++ w'). split; [reflexivity|assumption].
Qed.
Lemma cwsps_head w : r_cwsps w -> w = [] \/ exists h t, w = h :: t /\ wsc h.
Proof.
  intros [|a w' Ha Hw]; [left; reflexivity|right]. apply cwsps1_head. constructor; assumption.
Qed.

(* ------------------------------------------------------------------------------------------ *)
(** * Numbers *)
Lemma digit_val_digit base d c : r_digit base d c -> digit_val base c = Some d.
Proof.
  intros [d' H1 H2|d' H1 H2 H3|d' H1 H2 H3]; unfold digit_val.
  - assert (E : is_digit (48 + d')%N = true) by bool_cases. rewrite E.
    replace (48 + d' - 48)%N with d' by lia.
    destruct (N.ltb_spec d' base); [reflexivity|lia].
  - assert (E : is_digit (65 + (d' - 10))%N = false) by bool_cases. rewrite E.
    assert (E2 : between 65 70 (65 + (d' - 10))%N = true) by bool_cases. rewrite E2.
    replace (65 + (d' - 10) - 65 + 10)%N with d' by lia.
    destruct (N.ltb_spec d' base); [reflexivity|lia].
  - assert (E : is_digit (97 + (d' - 10))%N = false) by bool_cases. rewrite E.
    assert (E2 : between 65 70 (97 + (d' - 10))%N = false) by bool_cases. rewrite E2.
    assert (E3 : between 97 102 (97 + (d' - 10))%N = true) by bool_cases. rewrite E3.
    replace (97 + (d' - 10) - 97 + 10)%N with d' by lia.
    destruct (N.ltb_spec d' base); [reflexivity|lia].
Qed.

Definition nodigit (base : N) (x : str) : Prop :=
  match x with c :: _ => digit_val base c = None | [] => True end.

Lemma number__spec base dvs (ds x : str) : Forall2 (r_digit base) dvs ds -> nodigit base x ->
  forall acc, number_ base acc (ds ++ x) = (fold_left (fun a d => a * base + d)%N dvs acc, x).
Proof.
  intros HF Hx. induction HF as [|d c dvs ds Hd _ IH]; intros acc.
  - cbn [app fold_left]. destruct x as [|c x]; cbn [number_]; [reflexivity|].
    cbn in Hx. rewrite Hx. reflexivity.
  - cbn [app number_ fold_left]. rewrite (digit_val_digit base d c Hd). apply IH.
Qed.
Lemma number_spec base n (ds x : str) : r_number base n ds -> nodigit base x ->
  number base (ds ++ x) = Some (n, x).
Proof.
  intros [dvs ds' Hne HF] Hx. destruct HF as [|d c dvs ds' Hd HF]; [contradiction|].
  cbn [app number]. rewrite (digit_val_digit base d c Hd), (number__spec base dvs ds' x HF Hx).
  unfold horner. cbn [fold_left]. replace (0 * base + d)%N with d by lia. reflexivity.
Qed.
Lemma number_none base (x : str) : nodigit base x -> number base x = None.
Proof. destruct x as [|c x]; cbn; [reflexivity|]. intros ->. reflexivity. Qed.
Lemma number_nonempty base n ds : r_number base n ds -> ds <> [].
Proof. intros [dvs ds' Hne HF]. destruct HF; [contradiction|discriminate]. Qed.

Lemma folc_nodigit base c : folc c -> digit_val base c = None.
Proof. intros H. folc_cases H; reflexivity. Qed.
Lemma fol_nodigit base x : fol x -> nodigit base x.
Proof. destruct x as [|c x]; cbn; [trivial|]. apply folc_nodigit. Qed.

Lemma digit10_none c : ~ DIGIT c -> digit_val 10 c = None.
Proof.
  unfold DIGIT. intros H. unfold digit_val, is_digit, between.
  repeat match goal with
  | |- context [N.leb ?a ?b] => destruct (N.leb_spec a b)
  end; cbn [andb]; try reflexivity; try lia;
  match goal with |- context [N.ltb ?a ?b] => destruct (N.ltb_spec a b) end; try reflexivity; lia.
Qed.

(* ------------------------------------------------------------------------------------------ *)
(** * repeat *)
Lemma opt_count_some n (ds x : str) : r_count n ds -> nodigit 10 x -> opt_count (ds ++ x) = (Some n, x).
Proof. intros [k ds' Hk] Hx. unfold opt_count. rewrite (number_spec 10 k ds' x Hk Hx). reflexivity. Qed.
Lemma opt_count_none (x : str) : nodigit 10 x -> opt_count x = (None, x).
Proof. intros Hx. unfold opt_count. rewrite (number_none 10 x Hx). reflexivity. Qed.

(* [x] starts neither with a digit nor with "*" *)
Definition norepeat (x : str) : Prop := nodigit 10 x /\ eat 42 x = None.

Lemma read_repeat_spec mn mx (rp x : str) : r_repeat mn mx rp -> norepeat x ->
  read_repeat (rp ++ x) = (Some (mn, mx), x).
Proof.
  intros H [Hd Hs]. unfold read_repeat. chs.
  destruct H as [n ds Hn|a da b db Ha Hb|a da Ha|b db Hb|].
  - rewrite (opt_count_some n ds x Hn Hd), Hs. reflexivity.
  - rewrite <- app_assoc. cbn [app].
    rewrite (opt_count_some a da _ Ha) by reflexivity. cbn [eat].
    change (is 42 42) with true. cbv iota.
    rewrite (opt_count_some b db x Hb Hd). reflexivity.
  - rewrite <- app_assoc. cbn [app].
    rewrite (opt_count_some a da _ Ha) by reflexivity. cbn [eat].
    change (is 42 42) with true. cbv iota.
    rewrite (opt_count_none x Hd). reflexivity.
  - cbn [app]. rewrite opt_count_none by reflexivity. cbn [eat].
    change (is 42 42) with true. cbv iota.
    rewrite (opt_count_some b db x Hb Hd). reflexivity.
  - cbn [app]. rewrite opt_count_none by reflexivity. cbn [eat].
    change (is 42 42) with true. cbv iota.
    rewrite (opt_count_none x Hd). reflexivity.
Qed.
Lemma read_repeat_none (x : str) : norepeat x -> read_repeat x = (None, x).
Proof. intros [Hd Hs]. unfold read_repeat. chs. rewrite (opt_count_none x Hd), Hs. reflexivity. Qed.

(* ------------------------------------------------------------------------------------------ *)
(** * Elements without sub-expressions *)
Lemma folc_namechar c : folc c -> is_namechar c = false.
Proof. intros H. folc_cases H; reflexivity. Qed.

Lemma read_name_spec (n x : str) : r_rulename n -> nofirst is_namechar x -> read_name (n ++ x) = Some (n, x).
Proof.
  intros [c r Hc Hr] Hx. cbn [app read_name]. rewrite (alpha_true c Hc).
  rewrite (span_app is_namechar r x (Forall_true _ _ r namechar_true Hr) Hx). reflexivity.
Qed.

Lemma quoted_spec (v x : str) : Forall QCHAR v -> quoted (34%N :: v ++ 34%N :: x) = Some (v, x).
Proof.
  intros Hv. unfold quoted. chs. cbn [eat]. change (is 34 34) with true. cbv iota.
  rewrite (span_app is_qchar v _ (Forall_true _ _ v qchar_true Hv)) by reflexivity.
  cbn [eat]. change (is 34 34) with true. reflexivity.
Qed.

Lemma series_spec base vs t : r_dotted base vs t ->
  forall acc (x : str) f, fol x -> length (t ++ x) < f ->
  series f base acc (t ++ x) = Some (rev acc ++ vs, x).
Proof.
  induction 1 as [|n ds vs t Hn Hd IH]; intros acc x f Hx Hf.
  - cbn [app] in *. destruct f as [|f]; [lia|]. cbn [series]. chs.
    assert (E : eat 46 x = None).
    { destruct x as [|c x]; [reflexivity|]. cbn in Hx. cbn [eat]. folc_cases Hx; reflexivity. }
    rewrite E, rev'_rev, app_nil_r. reflexivity.
  - destruct f as [|f]; [lia|]. cbn [app series]. chs. cbn [eat]. change (is 46 46) with true. cbv iota.
    rewrite <- app_assoc.
    assert (Hnd : nodigit base (t ++ x)).
    { destruct Hd as [|n' ds' vs' t' _ _]; [cbn [app]; apply fol_nodigit; exact Hx|reflexivity]. }
    rewrite (number_spec base n ds (t ++ x) Hn Hnd).
    rewrite IH; [|exact Hx|cbn [app length] in Hf; rewrite !app_length in *; lia].
    cbn [rev]. rewrite <- app_assoc. reflexivity.
Qed.

Lemma folc_not45 (x : str) : fol x -> eat 45 x = None.
Proof. destruct x as [|c x]; [reflexivity|]. cbn [fol eat]. intros H. folc_cases H; reflexivity. Qed.

Lemma num_val_series base n (ds : str) vs (t x : str) f : r_number base n ds -> r_dotted base vs t -> fol x ->
  length (t ++ x) < f -> num_val f base ((ds ++ t) ++ x) = Some (ALit true (n :: vs), x).
Proof.
  intros Hn Hd Hx Hf. unfold num_val. rewrite <- app_assoc.
  assert (Hnd : nodigit base (t ++ x)).
  { destruct Hd; [cbn [app]; apply fol_nodigit; exact Hx|reflexivity]. }
  rewrite (number_spec base n ds (t ++ x) Hn Hnd). chs.
  assert (E : eat 45 (t ++ x) = None).
  { destruct Hd; [cbn [app]; apply folc_not45; exact Hx|reflexivity]. }
  rewrite E, (series_spec base vs t Hd [n] x f Hx Hf). reflexivity.
Qed.
Lemma num_val_range base lo (dlo : str) hi (dhi x : str) f : r_number base lo dlo -> r_number base hi dhi -> fol x ->
  num_val f base ((dlo ++ 45%N :: dhi) ++ x) = Some (ARange lo hi, x).
Proof.
  intros Hlo Hhi Hx. unfold num_val. rewrite <- app_assoc. cbn [app].
  rewrite (number_spec base lo dlo _ Hlo) by reflexivity. chs. cbn [eat].
  change (is 45 45) with true. cbv iota.
  rewrite (number_spec base hi dhi x Hhi (fol_nodigit base x Hx)). reflexivity.
Qed.

(* the dispatch of [terminal] on the first characters *)
Lemma terminal_q f (r : str) : terminal f (34%N :: r) =
  match quoted (34%N :: r) with Some (v, r1) => Some (ALit false v, r1) | None => None end.
Proof. reflexivity. Qed.
Lemma terminal_i f (m : cp) (r : str) : letter 105 m -> terminal f (37%N :: m :: r) =
  match quoted r with Some (v, r2) => Some (ALit false v, r2) | None => None end.
Proof. intros [-> | ->]; reflexivity. Qed.
Lemma terminal_s f (m : cp) (r : str) : letter 115 m -> terminal f (37%N :: m :: r) =
  match quoted r with Some (v, r2) => Some (ALit true v, r2) | None => None end.
Proof. intros [-> | ->]; reflexivity. Qed.
Lemma terminal_num f (m : cp) base (r : str) : r_base m base -> terminal f (37%N :: m :: r) = num_val f base r.
Proof. intros [c [-> | ->]|c [-> | ->]|c [-> | ->]]; reflexivity. Qed.
Lemma terminal_lt f (r : str) : terminal f (60%N :: r) =
  let (v, r1) := span is_pchar r in
  match eat 62 r1 with
  | Some r2 => Some (if is_rulename v then ARef v else AProse v, r2)
  | None => None
  end.
Proof. reflexivity. Qed.

Theorem terminal_spec e s : renders_term e s ->
  forall (x : str) f, fol x -> length (s ++ x) <= f -> terminal f (s ++ x) = Some (e, x).
Proof.
  intros H x f Hx Hf.
  destruct H as [n Hn|v Hv|m v Hm Hv|m v Hm Hv|m base n ds vs t Hb Hn Hd|m base lo dlo hi dhi Hb Hlo Hhi
                 |v Hv Hnr|n Hn].
  - pose proof (read_name_spec n x Hn (fol_nofirst _ x folc_namechar Hx)) as E.
    destruct Hn as [c r Hc Hr]. cbn [app] in *. unfold terminal. rewrite (alpha_true c Hc), E. reflexivity.
  - cbn [app]. rewrite <- app_assoc. cbn [app]. rewrite terminal_q, quoted_spec by exact Hv. reflexivity.
  - cbn [app]. rewrite <- app_assoc. cbn [app]. rewrite (terminal_i f m _ Hm), quoted_spec by exact Hv. reflexivity.
  - cbn [app]. rewrite <- app_assoc. cbn [app]. rewrite (terminal_s f m _ Hm), quoted_spec by exact Hv. reflexivity.
  - cbn [app]. rewrite (terminal_num f m base _ Hb).
    apply num_val_series; try assumption.
    cbn [app length] in Hf. rewrite !app_length in *. pose proof (number_nonempty _ _ _ Hn).
    destruct ds; [contradiction|]. cbn [length] in Hf. lia.
  - cbn [app]. rewrite (terminal_num f m base _ Hb). apply num_val_range; assumption.
  - cbn [app]. rewrite <- app_assoc. cbn [app]. rewrite terminal_lt.
    rewrite (span_app is_pchar v _ (Forall_true _ _ v pchar_true Hv)) by reflexivity.
    cbn [eat]. change (is 62 62) with true. cbv iota. rewrite (is_rulename_false v Hnr). reflexivity.
  - cbn [app]. rewrite <- app_assoc. cbn [app]. rewrite terminal_lt.
    assert (Hp : Forall PCHAR n).
    { destruct Hn as [c r Hc Hr]. constructor.
      - unfold PCHAR, ALPHA in *. lia.
      - eapply Forall_impl; [|exact Hr]. unfold NAMECHAR, PCHAR, ALPHA, DIGIT. intros a Ha. lia. }
    rewrite (span_app is_pchar n _ (Forall_true _ _ n pchar_true Hp)) by reflexivity.
    cbn [eat]. change (is 62 62) with true. cbv iota.
    rewrite (proj2 (is_rulename_iff n) Hn). reflexivity.
Qed.

(* the first character of a terminal *)
Definition termc (c : cp) : Prop := ALPHA c \/ (c = 34 \/ c = 37 \/ c = 60)%N.
Lemma term_head e s : renders_term e s -> exists c t, s = c :: t /\ termc c.
Proof.
  intros [n [c r Hc Hr]|v Hv|m v Hm Hv|m v Hm Hv|m base n ds vs t Hb Hn Hd|m base lo dlo hi dhi Hb Hlo Hhi
         |v Hv Hnr|n Hn]; do 2 eexists; (split; [reflexivity|]); unfold termc; auto.
Qed.

Print Assumptions terminal_spec.
Print Assumptions read_repeat_spec.
Print Assumptions cw_app.
