(* LoadSim3.v — C14, stage 3e: the concrete loader simulates the abstract one, part 3: imports, flag statements,
   and the theorem for a whole class:
     under static side conditions on the class description g (no core name defined/imported/flagged; every
     import comes from another class; [flags_local]) and for every registry R that is well formed, has no object
     of the class c of g yet,
        load_class classes g R   and   aload classes g (snapshots of R)
     succeed or fail together, and on success the new snapshot of c IS the abstract result, every other class
     keeps its snapshot, and nothing but objects of class c and new definitions are appended. *)
From Coq Require Import List NArith Arith Bool Lia.
Import ListNotations.
From ABNF Require Import Base Engine AbnfRead Registry EngineSound Checks RegistryProps GenTypes Loader
     GenBundled Bundled TablesAll LoadFrame1 LoadWf LoadFrame2 LoadUq LoadAbs LoadSim1 LoadSim2.

(* static condition on the flag statements of a class description:
   - Rule('x').first_match_alternation: x is not the local name of an import;
   - the loop over all rules: the class imports nothing;
   - the guarded loop of rfc3987: the class named in the guard is another class, and every import comes from it,
     under its own name *)
Definition flag_local (classes : list gclass) (g : gclass) (f : flagstmt) : bool :=
  match f with
  | FlagRule name _ => negb (existsb (str_eqb (fold_name name)) (import_keys g))
  | FlagAll _ => match gimports g with [] => true | _ => false end
  | FlagOwnNotSharedWith m sc _ =>
    match cls_of classes m sc, cls_of classes (gmod g) (gcls g) with
    | Some src, Some cg =>
      negb (N.eqb src cg) &&
      forallb (fun i => match i with (local, (m', c', rn)) =>
                 match cls_of classes m' c' with Some s' => N.eqb s' src | None => false end &&
                 str_eqb (fold_name local) (fold_name rn) end) (gimports g)
    | _, _ => false
    end
  end.
Definition flags_local (classes : list gclass) (g : gclass) : bool :=
  forallb (flag_local classes g) (gflags g).

Lemma Forall2_impl' {A B} (P Q : A -> B -> Prop) l l' :
  (forall a b, P a b -> Q a b) -> Forall2 P l l' -> Forall2 Q l l'.
Proof. intros H. induction 1; constructor; auto. Qed.

Lemma rules_keys_gen c (l : list robj) : forall st,
  Forall2 (fun n k => st <= n /\ exists o, nth_error l (n - st) = Some o /\ ck o = (c, k))
          (map fst (filter (fun p => N.eqb (ocls (snd p)) c) (combine (seq st (length l)) l)))
          (map okey (filter (isc c) l)).
Proof.
  induction l as [|a r IH]; intros st; simpl; [constructor|].
  assert (T : Forall2 (fun n k => st <= n /\ exists o, nth_error (a :: r) (n - st) = Some o /\ ck o = (c, k))
                      (map fst (filter (fun p => N.eqb (ocls (snd p)) c) (combine (seq (S st) (length r)) r)))
                      (map okey (filter (isc c) r))).
  { eapply Forall2_impl'; [|exact (IH (S st))]. intros n k (Hle & o & Ho & Hck). split; [lia|].
    exists o. replace (n - st) with (S (n - S st)) by lia. simpl. auto. }
  change (isc c a) with (N.eqb (ocls a) c). destruct (N.eqb (ocls a) c) eqn:E; simpl; [|exact T].
  constructor; [|exact T]. split; [lia|]. exists a. rewrite Nat.sub_diag. split; [reflexivity|].
  apply N.eqb_eq in E. unfold ck. congruence.
Qed.
Lemma rules_keys c X :
  Forall2 (fun n k => exists o, nth_error (objs X) n = Some o /\ ck o = (c, k))
          (rules_of c X) (map ekey (class_snapshot X c)).
Proof.
  rewrite class_snapshot_eq, map_map. unfold rules_of.
  eapply Forall2_impl'; [|exact (rules_keys_gen c (objs X) 0)].
  intros n k (_ & o & Ho & Hck). rewrite Nat.sub_0_r in Ho. eauto.
Qed.

Section Sim3.
  Variables (classes : list gclass) (g : gclass) (c : cls) (R : reg).
  Hypotheses (WR : wf R) (UR : uq R) (Hc2 : (2 <= c)%N) (HE : forall o, In o (objs R) -> ocls o <> c).
  Hypothesis foreign : forall local m c' rn sc,
      In (local, (m, c', rn)) (gimports g) -> cls_of classes m c' = Some sc -> sc <> c.

  Local Notation base := (LoadSim2.base c R).
  Local Notation fk := (LoadSim2.fk classes g c R).
  Local Notation res3 := (LoadSim2.res3 classes g c R).
  Local Notation lite := (LoadSim1.lite c (s0 R)).
  Local Notation corefree := (LoadSim2.corefree R).
  Let Hc0 : c <> 0%N := LoadSim2.Hc0 c Hc2.

  Definition sigR (c' : cls) : list entry := class_snapshot R c'.

  (* ---- imports ---- *)
  Definition imprel (imp : str * nat) (src : str * option texpr) : Prop :=
    fst imp = fst src /\ exists o, nth_error (objs R) (snd imp) = Some o /\ ocls o <> c /\
      snd src = edef (snap_obj R o) /\
      exists m c' rn sc, In (fst imp, (m, c', rn)) (gimports g) /\ cls_of classes m c' = Some sc /\
                         rget R sc rn = Some (snd imp).

  Lemma sim_import X own done local n src :
    lite X own -> base X -> fk done X -> corefree local -> imprel (local, n) (local, src) ->
    res3 (done ++ [local]) (import_rule c local n X) (aimport c (s0 R) local src own).
  Proof.
    intros L B F Hcf (_ & o & Ho & Hoc & Hsrc & m & c' & rn & sc & I1 & I2 & I3). simpl in *.
    unfold import_rule. rewrite (base_prefix c R X n o B Ho). rewrite edef_snap in Hsrc.
    destruct (odef o) as [d|] eqn:Ed; [|subst src; exact I].
    pose proof (reg_ok_nth _ _ _ _ (wf_ok _ WR) Ho Ed) as Hlt.
    destruct (nth_error (defs R) d) as [e|] eqn:Ee; [|apply nth_error_None in Ee; lia].
    simpl in Hsrc. subst src. unfold aimport.
    destruct (rnew X c local) as [X1 n1] eqn:E1. destruct (arnew c (s0 R) own local) as [o1 ref] eqn:A1.
    destruct (sim_rnew_own c R Hc2 _ _ _ _ _ _ _ L B Hcf E1 A1) as (L1 & B1 & X1e & F1).
    simpl. apply (step_set_def_idx classes g c R WR Hc2 HE X1 o1 (fold_name local) n1 d e done local); auto.
    - eapply fk_ext2; eauto.
    - intros o' Ho'. split; [exact Hlt|]. exists local, m, c', rn, sc, n.
      pose proof (find_obj_spec _ _ _ _ _ F1) as (_ & o2 & Ho2 & _ & Hk2). rewrite Nat.sub_0_r in Ho2.
      rewrite Ho' in Ho2. inversion Ho2; subst o2. repeat split; auto.
      unfold odef_of. rewrite Ho. exact Ed.
  Qed.

  Lemma sim_imports imps srcs : Forall2 imprel imps srcs ->
    (forall imp, In imp imps -> corefree (fst imp)) ->
    forall done X own, lite X own -> base X -> fk done X ->
    res3 (done ++ map fst imps) (apply_imports c imps X) (aimports c (s0 R) srcs own).
  Proof.
    induction 1 as [|[local n] [local' src] imps srcs Hrel Hr IH]; intros Hcf done X own L B F; simpl.
    - rewrite app_nil_r. auto.
    - assert (local' = local) by (destruct Hrel as [E _]; simpl in E; congruence). subst local'.
      pose proof (sim_import X own done local n src L B F (Hcf (local, n) (or_introl eq_refl)) Hrel) as H.
      destruct (import_rule c local n X) as [X'|], (aimport c (s0 R) local src own) as [own'|]; simpl in H;
        try contradiction; [|exact I].
      destruct H as (L' & B' & F').
      replace (done ++ local :: map fst imps) with ((done ++ [local]) ++ map fst imps)
        by (rewrite <- app_assoc; reflexivity).
      apply IH; auto. intros imp Hi. apply Hcf. right; exact Hi.
  Qed.

  (* ---- evaluation of the import list against resolution in the snapshots ---- *)
  Lemma rget_asrc sc rn :
    match rget R sc rn with
    | Some n => exists o, nth_error (objs R) n = Some o /\ asrc sigR sc rn = Some (snap_obj R o)
    | None => asrc sigR sc rn = None
    end.
  Proof.
    unfold rget, asrc, sigR.
    pose proof (afind_map (snap_obj R) sc (fold_name rn) (objs R) (fun o => eq_refl) 0) as F1.
    pose proof (afind_map (snap_obj R) 0%N (fold_name rn) (objs R) (fun o => eq_refl) 0) as F0.
    rewrite <- class_snapshot_eq in F1, F0.
    destruct (find_obj sc (fold_name rn) (objs R) 0) as [m|].
    - destruct F1 as (_ & o & Ho & _ & Hf). rewrite Nat.sub_0_r in Ho. rewrite Hf. eauto.
    - rewrite F1. destruct (find_obj 0%N (fold_name rn) (objs R) 0) as [m|].
      + destruct F0 as (_ & o & Ho & _ & Hf). rewrite Nat.sub_0_r in Ho. rewrite Hf. eauto.
      + exact F0.
  Qed.

  Lemma resolve_sim l : incl l (gimports g) ->
    match aresolve classes sigR l with
    | Some srcs => exists imps, eval_imports classes l R = Some (R, imps) /\ Forall2 imprel imps srcs
    | None => forall R1 imps, eval_imports classes l R = Some (R1, imps) -> length (objs R) < length (objs R1)
    end.
  Proof.
    induction l as [|[local [[m c'] rn]] r IH]; intros Hi; simpl.
    - exists []. split; [reflexivity|constructor].
    - assert (Hi' : incl r (gimports g)) by (intros x Hx; apply Hi; right; exact Hx).
      specialize (IH Hi'). destruct (cls_of classes m c') as [sc|] eqn:Ec; [|intros R1 imps H; discriminate].
      pose proof (rget_asrc sc rn) as HA. unfold rnew. destruct (rget R sc rn) as [n|] eqn:Eg.
      + destruct HA as (o & Ho & Ha). rewrite Ha.
        destruct (aresolve classes sigR r) as [l'|].
        * destruct IH as (imps & Hev & HF). exists ((local, n) :: imps). rewrite Hev. split; [reflexivity|].
          constructor; [|exact HF]. split; [reflexivity|]. exists o. simpl. split; [exact Ho|]. split.
          -- destruct (rget_own_or_core _ _ _ _ Eg) as (o' & Ho' & _ & Hcl). rewrite Ho in Ho'.
             inversion Ho'; subst o'. destruct Hcl as [Hcl|Hcl]; rewrite Hcl; [|auto].
             eapply foreign; [apply Hi; left; reflexivity|exact Ec].
          -- split; [reflexivity|]. exists m, c', rn, sc. split; [apply Hi; left; reflexivity|auto].
        * intros R1 imps H. destruct (eval_imports classes r R) as [[R2 l2]|] eqn:Ev; [|discriminate].
          inversion H; subst. eapply IH; eauto.
      + rewrite HA. intros R1 imps H.
        match type of H with context [eval_imports classes r ?Ra] =>
          destruct (eval_imports classes r Ra) as [[R2 l2]|] eqn:Ev; [|discriminate] end.
        inversion H; subst. destruct (eval_imports_spec _ _ _ _ _ Ev) as ((pl & HO) & _).
        rewrite HO. simpl. rewrite !app_length. simpl. lia.
  Qed.

  (* ---- flags ---- *)
  Lemma rget_base X sc rn n : base X -> sc <> c -> rget R sc rn = Some n -> rget X sc rn = Some n.
  Proof.
    intros [(l & HO & HF) _ _] Hsc. unfold rget. rewrite HO, !find_obj_app.
    assert (Hnone : forall st, find_obj sc (fold_name rn) l st = None).
    { apply find_obj_none_cls. intros o Ho. rewrite Forall_forall in HF. rewrite (HF o Ho). auto. }
    destruct (find_obj sc (fold_name rn) (objs R) 0); [auto|]. rewrite Hnone.
    destruct (find_obj 0%N (fold_name rn) (objs R) 0); [auto|discriminate].
  Qed.

  Definition done_all : list str := map fst (gimports g).
  Lemma done_keys : map fold_name done_all = import_keys g.
  Proof. unfold done_all, import_keys. apply map_map. Qed.

  Lemma fresh_guard X n d src : base X -> src <> c -> nd R <= d ->
    match rget X src (oname_of X n) with
    | Some k => match odef_of X k with Some d' => Nat.eqb d d' | None => false end
    | None => false
    end = false.
  Proof.
    intros B Hsrc Hle. destruct (rget X src (oname_of X n)) as [k|] eqn:Eg; [|reflexivity].
    unfold odef_of. destruct (rget_own_or_core _ _ _ _ Eg) as (ok & Hok & _ & Hcl). rewrite Hok.
    destruct (odef ok) as [d'|] eqn:Ed'; [|reflexivity]. apply Nat.eqb_neq.
    assert (Ec : ocls ok <> c).
    { destruct Hcl as [H|H]; rewrite H; [exact Hsrc|]. intros E. apply Hc0. symmetry; exact E. }
    pose proof (base_old_def c R WR X k ok d' B Hok Ec Ed'). lia.
  Qed.

  Lemma imported_guard X n o d src : wf X -> base X -> src <> c -> nth_error (objs X) n = Some o ->
    imported classes g R o d ->
    (forall local m' c' rn, In (local, (m', c', rn)) (gimports g) ->
                            cls_of classes m' c' = Some src /\ fold_name local = fold_name rn) ->
    match rget X src (oname_of X n) with
    | Some k => match odef_of X k with Some d' => Nat.eqb d d' | None => false end
    | None => false
    end = true.
  Proof.
    intros W B Hsrc Ho (Hd & lo & m & c' & rn & sc & ns & I1 & I2 & I3 & I4 & I5) Hst.
    destruct (Hst _ _ _ _ I1) as [J1 J2]. assert (sc = src) by congruence. subst sc.
    assert (Hnm : okey o = fold_name (oname o)).
    { pose proof (wf_name _ W) as FN. rewrite Forall_forall in FN. apply (FN o (nth_error_In _ _ Ho)). }
    assert (Hon : oname_of X n = oname o) by (unfold oname_of; rewrite Ho; reflexivity).
    rewrite Hon. rewrite (rget_case X src (oname o) rn) by congruence.
    rewrite (rget_base X src rn ns B Hsrc I3).
    destruct (rget_own_or_core _ _ _ _ I3) as (oo & Hoo & _).
    unfold odef_of in *. rewrite Hoo in I5. rewrite (base_prefix c R X ns oo B Hoo), I5.
    apply Nat.eqb_refl.
  Qed.

  Definition keyrel (ol : list robj) (n : nat) (k : str) : Prop :=
    exists o, nth_error ol n = Some o /\ ck o = (c, k).

  Lemma sim_own_loop src v ol : src <> c ->
    (forall local m' c' rn, In (local, (m', c', rn)) (gimports g) ->
                            cls_of classes m' c' = Some src /\ fold_name local = fold_name rn) ->
    forall ns ks, Forall2 (keyrel ol) ns ks ->
    forall X own, objs X = ol -> lite X own -> base X -> fk done_all X ->
    res3 done_all (own_loop src v ns X)
         (aloop (fun k => existsb (str_eqb k) (import_keys g)) v ks own).
  Proof.
    intros Hsrc Hst. induction 1 as [|n k ns ks (o & Ho & Hck) Hr IH]; intros X own HO L B F; simpl; [auto|].
    rewrite <- HO in Ho.
    pose proof (find_obj_uq X c k n o (l_uq _ _ _ _ L) Ho Hck) as Hf.
    destruct (entry_at c R X own k n L Hf) as (o' & Ho' & _ & Hent). rewrite Ho in Ho'. inversion Ho'; subst o'.
    rewrite Hent, edef_snap.
    assert (Hod : odef_of X n = odef o) by (unfold odef_of; rewrite Ho; reflexivity). rewrite Hod.
    destruct (odef o) as [d|] eqn:Ed; [|exact I].
    pose proof (reg_ok_nth _ _ _ _ (wf_ok _ (l_wf _ _ _ _ L)) Ho Ed) as Hlt.
    destruct (nth_error (defs X) d) as [e|] eqn:Ee; [|apply nth_error_None in Ee; lia]. simpl.
    assert (Hoc : ocls o = c) by (unfold ck in Hck; congruence).
    assert (Hok : okey o = k) by (unfold ck in Hck; congruence).
    pose proof (F n o d Ho Hoc Ed) as Hfk. rewrite done_keys, Hok in Hfk.
    destruct (existsb (str_eqb k) (import_keys g)) eqn:Eim.
    - rewrite (imported_guard X n o d src (l_wf _ _ _ _ L) B Hsrc Ho Hfk Hst). apply IH; auto.
    - rewrite (fresh_guard X n d src B Hsrc Hfk).
      destruct (step_set_flag classes g c R Hc2 X own k n v o d done_all L B F Hf Ho Ed Hfk)
        as (e' & X' & He' & HS & L' & B' & F' & HO').
      rewrite HS. rewrite Ee in He'. inversion He'; subst e'. apply IH; auto. congruence.
  Qed.

  Lemma sim_all_loop v ol : gimports g = [] ->
    forall ns ks, Forall2 (keyrel ol) ns ks ->
    forall X own, objs X = ol -> lite X own -> base X -> fk done_all X ->
    res3 done_all (set_flags ns v X) (aloop (fun _ => false) v ks own).
  Proof.
    intros Hni. induction 1 as [|n k ns ks (o & Ho & Hck) Hr IH]; intros X own HO L B F; simpl; [auto|].
    rewrite <- HO in Ho.
    pose proof (find_obj_uq X c k n o (l_uq _ _ _ _ L) Ho Hck) as Hf.
    destruct (entry_at c R X own k n L Hf) as (o' & Ho' & _ & Hent). rewrite Ho in Ho'. inversion Ho'; subst o'.
    rewrite Hent, edef_snap.
    destruct (odef o) as [d|] eqn:Ed.
    2:{ unfold set_flag. rewrite Ho, Ed. exact I. }
    pose proof (reg_ok_nth _ _ _ _ (wf_ok _ (l_wf _ _ _ _ L)) Ho Ed) as Hlt.
    destruct (nth_error (defs X) d) as [e|] eqn:Ee; [|apply nth_error_None in Ee; lia]. simpl.
    assert (Hoc : ocls o = c) by (unfold ck in Hck; congruence).
    assert (Hok : okey o = k) by (unfold ck in Hck; congruence).
    pose proof (F n o d Ho Hoc Ed) as Hfk. rewrite done_keys in Hfk. unfold import_keys in Hfk.
    rewrite Hni in Hfk. simpl in Hfk.
    destruct (step_set_flag classes g c R Hc2 X own k n v o d done_all L B F Hf Ho Ed Hfk)
      as (e' & X' & He' & HS & L' & B' & F' & HO').
    rewrite HS. rewrite Ee in He'. inversion He'; subst e'. apply IH; auto. congruence.
  Qed.

  Lemma sim_flag f X own :
    cls_of classes (gmod g) (gcls g) = Some c -> flag_local classes g f = true ->
    (forall name v, f = FlagRule name v -> corefree name) ->
    lite X own -> base X -> fk done_all X ->
    res3 done_all (apply_flag classes c f X) (aflag c (s0 R) (import_keys g) f own).
  Proof.
    intros Hcg Hfl Hcf L B F. destruct f as [name v|v|m sc v].
    - simpl. simpl in Hfl. apply negb_true_iff in Hfl.
      destruct (rnew X c name) as [X1 n] eqn:E1. destruct (arnew c (s0 R) own name) as [o1 ref] eqn:A1.
      destruct (sim_rnew_own c R Hc2 _ _ _ _ _ _ _ L B (Hcf name v eq_refl) E1 A1) as (L1 & B1 & X1e & F1).
      pose proof (fk_ext2 classes g c R _ _ _ F X1e) as Fk1.
      destruct (entry_at c R X1 o1 _ n L1 F1) as (o & Ho & Hck & Hent). rewrite Hent, edef_snap.
      destruct (odef o) as [d|] eqn:Ed.
      2:{ unfold set_flag. rewrite Ho, Ed. exact I. }
      pose proof (reg_ok_nth _ _ _ _ (wf_ok _ (l_wf _ _ _ _ L1)) Ho Ed) as Hlt.
      destruct (nth_error (defs X1) d) as [e|] eqn:Ee; [|apply nth_error_None in Ee; lia]. simpl.
      assert (Hoc : ocls o = c) by (unfold ck in Hck; congruence).
      assert (Hok : okey o = fold_name name) by (unfold ck in Hck; congruence).
      pose proof (Fk1 n o d Ho Hoc Ed) as Hfk. rewrite done_keys, Hok, Hfl in Hfk.
      destruct (step_set_flag classes g c R Hc2 X1 o1 _ n v o d done_all L1 B1 Fk1 F1 Ho Ed Hfk)
        as (e' & X' & He' & HS & L' & B' & F' & HO').
      rewrite HS. rewrite Ee in He'. inversion He'; subst e'. simpl. auto.
    - simpl. simpl in Hfl. destruct (gimports g) as [|i r] eqn:Hni; [|discriminate].
      apply (sim_all_loop v (objs X) Hni (rules_of c X) (map ekey own)); auto.
      rewrite <- (l_own _ _ _ _ L). apply rules_keys.
    - rewrite apply_flag_own. simpl. simpl in Hfl. rewrite Hcg in Hfl.
      destruct (cls_of classes m sc) as [src|]; [|discriminate].
      apply andb_true_iff in Hfl. destruct Hfl as [Hne Hall]. apply negb_true_iff in Hne. apply N.eqb_neq in Hne.
      apply (sim_own_loop src v (objs X) Hne); auto.
      + intros local m' c' rn Hin. rewrite forallb_forall in Hall. specialize (Hall _ Hin). simpl in Hall.
        apply andb_true_iff in Hall. destruct Hall as [H1 H2].
        destruct (cls_of classes m' c') as [s'|]; [|discriminate]. apply N.eqb_eq in H1. subst s'.
        split; [reflexivity|]. apply (proj1 (str_eqb_eq _ _)). exact H2.
      + rewrite <- (l_own _ _ _ _ L). apply rules_keys.
  Qed.

  Lemma sim_flags fl : cls_of classes (gmod g) (gcls g) = Some c ->
    forallb (flag_local classes g) fl = true ->
    (forall nm, In nm (flag_names fl) -> corefree nm) ->
    forall X own, lite X own -> base X -> fk done_all X ->
    res3 done_all (apply_flags classes c fl X) (aflags c (s0 R) (import_keys g) fl own).
  Proof.
    intros Hcg. induction fl as [|f r IH]; intros Hfl Hcf X own L B F; simpl; [auto|].
    simpl in Hfl. apply andb_true_iff in Hfl. destruct Hfl as [Hf1 Hf2].
    assert (H : res3 done_all (apply_flag classes c f X) (aflag c (s0 R) (import_keys g) f own)).
    { apply sim_flag; auto. intros name v ->. apply Hcf. simpl. left; reflexivity. }
    destruct (apply_flag classes c f X) as [X'|], (aflag c (s0 R) (import_keys g) f own) as [own'|];
      simpl in H; try contradiction; [|exact I].
    destruct H as (L' & B' & F'). apply IH; auto.
    intros nm Hnm. apply Hcf. unfold flag_names. simpl. apply in_or_app. right; exact Hnm.
  Qed.

  (* ---- the whole class ---- *)
  Lemma create_all_eq ts : forall l X, read_all ts = Some l -> create_all c ts X = define_rules c l X.
  Proof.
    induction ts as [|t r IH]; intros l X H; simpl in H.
    - inversion H; subst. reflexivity.
    - simpl. unfold create. destruct (read_rule (ensure_crlf t)) as [[a [|x s]]|]; try discriminate.
      destruct (read_all r) as [l'|] eqn:El; [|discriminate]. inversion H; subst. simpl.
      destruct (define_rule c a X) as [Xa|]; [|reflexivity]. apply IH. reflexivity.
  Qed.
  Lemma own_load_eq l X : own_rules g = Some l -> own_load c g X = define_rules c l X.
  Proof.
    unfold own_rules, own_load. destruct (gkind_list g); [apply create_all_eq|].
    destruct (gtexts g) as [|t [|t2 r]]; try discriminate. intros H. unfold load_grammar. rewrite H. reflexivity.
  Qed.

  Lemma lite_R : lite R [].
  Proof.
    constructor; [exact WR|exact UR|reflexivity|].
    unfold class_snapshot. rewrite (filter_none c (objs R)); [reflexivity|].
    intros j o Hj. apply HE. eapply nth_error_In; eauto.
  Qed.

  Theorem load_class_sim l :
    cls_of classes (gmod g) (gcls g) = Some c -> own_rules g = Some l ->
    (forall nm, In nm (all_names g l) -> corefree nm) -> flags_local classes g = true ->
    match load_class classes g R, aload classes g sigR with
    | Some R', Some s => lite R' s /\ base R'
    | None, None => True
    | _, _ => False
    end.
  Proof.
    intros Hcg Hl Hcf Hfl. unfold aload. rewrite Hcg, Hl.
    pose proof (resolve_sim (gimports g) (incl_refl _)) as HR.
    destruct (aresolve classes sigR (gimports g)) as [srcs|].
    - destruct HR as (imps & Hev & HF2). rewrite load_class_unfold, Hcg, Hev, (own_load_eq l R Hl).
      destruct (eval_imports_spec _ _ _ _ _ Hev) as (_ & _ & HM & _).
      change (sigR 0%N) with (s0 R).
      assert (H1 : res3 [] (define_rules c l R) (adefine_rules c (s0 R) l [])).
      { apply (sim_define_rules classes g c R Hc2 HE); [|exact lite_R|exact (base_R c R WR Hc2)|
                                                      exact (fk_R classes g c R HE [])].
        intros a Ha. apply Hcf. apply in_or_app. left. apply in_map. exact Ha. }
      destruct (define_rules c l R) as [X2|], (adefine_rules c (s0 R) l []) as [o2|]; simpl in H1;
        try contradiction; [|exact I].
      destruct H1 as (L2 & B2 & F2).
      assert (H2 : res3 ([] ++ map fst imps) (apply_imports c imps X2) (aimports c (s0 R) srcs o2)).
      { apply sim_imports; auto. intros imp Hi. apply Hcf. apply in_or_app. right. apply in_or_app. left.
        rewrite <- HM. apply in_map. exact Hi. }
      simpl in H2. rewrite HM in H2.
      destruct (apply_imports c imps X2) as [X3|], (aimports c (s0 R) srcs o2) as [o3|]; simpl in H2;
        try contradiction; [|exact I].
      destruct H2 as (L3 & B3 & F3).
      assert (H3 : res3 done_all (apply_flags classes c (gflags g) X3)
                        (aflags c (s0 R) (import_keys g) (gflags g) o3)).
      { apply sim_flags; auto. intros nm Hnm. apply Hcf. apply in_or_app. right. apply in_or_app. right. exact Hnm. }
      destruct (apply_flags classes c (gflags g) X3) as [X4|],
               (aflags c (s0 R) (import_keys g) (gflags g) o3) as [o4|]; simpl in H3; try contradiction; [|exact I].
      destruct H3 as (L4 & B4 & _). auto.
    - destruct (load_class classes g R) as [R'|] eqn:E; [exfalso|exact I].
      destruct (load_class_phases _ _ _ _ E) as (c0 & R1 & imps & R2 & R3 & l0 & Hc0' & E1 & Hl0 & E2 & E3 & E4).
      assert (c0 = c) by congruence. subst c0.
      specialize (HR R1 imps E1).
      destruct (eval_imports_spec _ _ _ _ _ E1) as (_ & _ & _ & HP).
      destruct (nth_error (objs R1) (length (objs R))) as [p|] eqn:Ep; [|apply nth_error_None in Ep; lia].
      destruct (HP _ p Ep (le_n _)) as (_ & _ & _ & lo & m & c' & rn & Q1 & Q2 & _).
      pose proof (foreign _ _ _ _ _ Q1 Q2) as Hpc.
      destruct (define_rules_cframe _ _ _ _ E2) as (M2 & _).
      destruct (apply_imports_cframe _ _ _ _ E3) as (M3 & _).
      destruct (fframe_objs c _ [] _ _ (apply_flags_fframe _ _ _ _ _ E4)) as (M4 & _).
      destruct (M2 _ _ Ep) as (p2 & Hp2 & (S2 & _) & _).
      destruct (M3 _ _ Hp2) as (p3 & Hp3 & (S3 & _) & _).
      destruct (M4 _ _ Hp3) as (p4 & Hp4 & (S4 & _) & _).
      destruct (load_class_frame_gen _ _ _ _ _ _ E Hcg Hl) as (_ & N & _).
      pose proof (N _ p4 Hp4 (le_n _)). congruence.
  Qed.

  (* the form used for order independence *)
  Corollary load_class_abs l :
    cls_of classes (gmod g) (gcls g) = Some c -> own_rules g = Some l ->
    (forall nm, In nm (all_names g l) -> corefree nm) -> flags_local classes g = true ->
    match aload classes g sigR with
    | Some s => exists R', load_class classes g R = Some R' /\ wf R' /\ uq R' /\
                  class_snapshot R' c = s /\
                  (forall c', c' <> c -> class_snapshot R' c' = class_snapshot R c') /\
                  (forall o, In o (objs R') -> In o (objs R) \/ ocls o = c)
    | None => load_class classes g R = None
    end.
  Proof.
    intros Hcg Hl Hcf Hfl. pose proof (load_class_sim l Hcg Hl Hcf Hfl) as H.
    destruct (load_class classes g R) as [R'|], (aload classes g sigR) as [s|]; try contradiction; [|reflexivity].
    destruct H as (L & B). exists R'. split; [reflexivity|]. split; [exact (l_wf _ _ _ _ L)|].
    split; [exact (l_uq _ _ _ _ L)|]. split; [exact (l_own _ _ _ _ L)|]. split.
    - intros c' Hne. apply snapshot_frame; auto.
      + apply (base_keys c R). exact B.
      + intros j o Hj _. eapply base_prefix; eauto.
      + intros j o' Hj Hle Hc'. apply Hne. rewrite <- Hc'. destruct B as [(ol & HO & HF) _ _].
        rewrite HO, nth_error_app2 in Hj by exact Hle. apply nth_error_In in Hj.
        rewrite Forall_forall in HF. apply (HF _ Hj).
      + intros o d Hin _ Hd. apply (base_def_old c R R' d B). apply In_nth_error in Hin. destruct Hin as [j Hj].
        eapply reg_ok_nth; [exact (wf_ok _ WR)|exact Hj|exact Hd].
    - intros o Hin. destruct B as [(ol & HO & HF) _ _]. rewrite HO in Hin. apply in_app_or in Hin.
      destruct Hin as [Hin|Hin]; [left; exact Hin|right]. rewrite Forall_forall in HF. apply (HF _ Hin).
  Qed.
End Sim3.

Print Assumptions load_class_sim.
Print Assumptions load_class_abs.
