(* ReaderDeriv2.v — C04 gap, part 2: core rules as character classes and the TERMINAL lemmas:
   every derivation of rulename / repeat / quoted-string / char-val / num-val / prose-val
   agrees with the spec reader of AbnfRead.v (given the reader's one-character lookahead). *)
From Coq Require Import String Ascii List NArith Arith Bool Lia.
Import ListNotations.
From ABNF Require Import Base Engine Spec EngineSound AbnfRead Registry GenTypes Loader Bundled RfcSpec
     Tables Visit Visitor VisitorProps ReaderDeriv1.
Local Open Scope list_scope.
Opaque l_meta r_boot G.
Arguments ERef r%N.
Arguments ERange (lo hi)%N.
Arguments ELit cs v%N.
Arguments fold_cp c%N.

Section Core.
  Variable s : str.
  Notation sk := (sk s).

  (* an expression that matches exactly one character of class p *)
  Definition chr_expr (e : expr) (p : cp -> bool) : Prop :=
    forall i ns j, D G s e i ns j ->
      exists c, j = i + 1 /\ sk i = c :: sk j /\ nsvalue ns = [c] /\ p c = true.

  Lemma DI_chr e p : chr_expr e p -> forall n i ns j, DI G s e n i ns j ->
    exists vs, sk i = vs ++ sk j /\ nsvalue ns = vs /\ Forall (fun c => p c = true) vs /\ length vs = n.
  Proof.
    intros He. induction n as [|n IH]; intros i ns j H.
    - apply DI_0_inv in H. destruct H as [-> ->]. exists []. repeat split; constructor.
    - apply DI_S_inv in H. destruct H as (k & n1 & n2 & -> & H1 & H2).
      destruct (He _ _ _ H1) as (c & -> & E & V & Pc).
      destruct (IH _ _ _ H2) as (vs & E2 & V2 & F2 & L2).
      exists (c :: vs). rewrite nsvalue_app, V, V2, E, E2. repeat split; cbn; auto.
  Qed.

  Lemma chr_range lo hi : chr_expr (ERange lo hi) (between lo hi).
  Proof.
    intros i ns j H. apply D_range_inv in H. destruct H as (c & -> & -> & E & A & B).
    exists c. repeat split; auto. unfold between. apply andb_true_iff. split; apply N.leb_le; assumption.
  Qed.
  Lemma chr_weaken e (p q : cp -> bool) : (forall c, p c = true -> q c = true) -> chr_expr e p -> chr_expr e q.
  Proof.
    intros Hpq He i ns j H. destruct (He _ _ _ H) as (c & A & B & C & E). exists c. auto.
  Qed.
  Lemma chr_ref r nm d p : G r = mkrule nm d -> chr_expr d p -> chr_expr (ERef r) p.
  Proof.
    intros HG Hd i ns j H. destruct (D_ref_inv s _ _ _ _ _ _ HG H) as (ch & -> & H').
    destruct (Hd _ _ _ H') as (c & A & B & C & E). exists c. repeat split; auto.
    rewrite nsvalue_one, nvalue_Nd. exact C.
  Qed.
  Lemma chr_alt fm es p : Forall (fun e => chr_expr e p) es -> chr_expr (EAlt fm es) p.
  Proof.
    intros HF i ns j H. apply D_alt_inv in H. destruct H as (e & Hin & H).
    rewrite Forall_forall in HF. exact (HF e Hin _ _ _ H).
  Qed.
  Lemma chr_lit cs k : chr_expr (ELit cs [k]) (fun c => if cs then N.eqb c k else N.eqb (fold_cp c) (fold_cp k)).
  Proof.
    intros i ns j H. apply D_lit1_inv in H. destruct H as (c & -> & -> & E & Hc).
    exists c. repeat split; auto. destruct cs; apply N.eqb_eq; exact Hc.
  Qed.

  (* the core rules *)
  Lemma chr_DIGIT : chr_expr (ERef 2) is_digit.
  Proof. apply (chr_ref _ _ _ _ def_DIGIT). apply chr_range. Qed.
  Lemma chr_ALPHA : chr_expr (ERef 7) is_alpha.
  Proof.
    apply (chr_ref _ _ _ _ def_ALPHA). apply chr_alt. repeat constructor.
    - apply (chr_weaken _ _ _ (fun c H => proj2 (orb_true_iff _ _) (or_introl H)) (chr_range 65%N 90%N)).
    - apply (chr_weaken _ _ _ (fun c H => proj2 (orb_true_iff _ _) (or_intror H)) (chr_range 97%N 122%N)).
  Qed.
  Lemma chr_SP : chr_expr (ERef 5) (N.eqb 32).
  Proof.
    apply (chr_ref _ _ _ _ def_SP). apply (chr_weaken _ _ _) with (2 := chr_lit true 32%N).
    intros c H. cbn in H. rewrite N.eqb_sym. exact H.
  Qed.
  Lemma chr_HTAB : chr_expr (ERef 6) (N.eqb 9).
  Proof.
    apply (chr_ref _ _ _ _ def_HTAB). apply (chr_weaken _ _ _) with (2 := chr_lit true 9%N).
    intros c H. cbn in H. rewrite N.eqb_sym. exact H.
  Qed.
  Lemma chr_WSP : chr_expr (ERef 3) is_wsp.
  Proof.
    apply (chr_ref _ _ _ _ def_WSP). apply chr_alt. repeat constructor.
    - apply (chr_weaken _ _ _) with (2 := chr_SP). intros c H. unfold is_wsp, is. rewrite H. reflexivity.
    - apply (chr_weaken _ _ _) with (2 := chr_HTAB). intros c H. unfold is_wsp, is. rewrite H. apply orb_true_r.
  Qed.
  Lemma chr_VCHAR : chr_expr (ERef 15) is_vchar.
  Proof. apply (chr_ref _ _ _ _ def_VCHAR). apply chr_range. Qed.
  Lemma chr_DQUOTE : chr_expr (ERef 11) (N.eqb 34).
  Proof.
    apply (chr_ref _ _ _ _ def_DQUOTE). apply (chr_weaken _ _ _) with (2 := chr_lit true 34%N).
    intros c H. cbn in H. rewrite N.eqb_sym. exact H.
  Qed.
  Lemma chr_CR : chr_expr (ERef 0) (N.eqb 13).
  Proof.
    apply (chr_ref _ _ _ _ def_CR). apply (chr_weaken _ _ _) with (2 := chr_lit true 13%N).
    intros c H. cbn in H. rewrite N.eqb_sym. exact H.
  Qed.
  Lemma chr_LF : chr_expr (ERef 1) (N.eqb 10).
  Proof.
    apply (chr_ref _ _ _ _ def_LF). apply (chr_weaken _ _ _) with (2 := chr_lit true 10%N).
    intros c H. cbn in H. rewrite N.eqb_sym. exact H.
  Qed.

  Lemma D_CRLF i ns j : D G s (ERef 4) i ns j -> j = i + 2 /\ sk i = 13%N :: 10%N :: sk j.
  Proof.
    intros H. destruct (D_ref_inv s _ _ _ _ _ _ def_CRLF H) as (ch & -> & H').
    apply D_cat2_inv in H'. destruct H' as (k & n1 & n2 & -> & H1 & H2).
    destruct (chr_CR _ _ _ H1) as (c1 & -> & E1 & _ & C1).
    destruct (chr_LF _ _ _ H2) as (c2 & -> & E2 & _ & C2).
    apply N.eqb_eq in C1. apply N.eqb_eq in C2. subst. split; [lia|]. rewrite E1, E2. reflexivity.
  Qed.

  (* the character classes inside the terminals *)
  Lemma chr_namechar : chr_expr (EAlt false [ERef 7; ERef 2; ELit false [45%N]]) is_namechar.
  Proof.
    apply chr_alt. repeat constructor.
    - apply (chr_weaken _ _ _) with (2 := chr_ALPHA). intros c H. unfold is_namechar. rewrite H. reflexivity.
    - apply (chr_weaken _ _ _) with (2 := chr_DIGIT). intros c H. unfold is_namechar. rewrite H.
      rewrite orb_true_r. reflexivity.
    - apply (chr_weaken _ _ _) with (2 := chr_lit false 45%N). intros c H. cbn beta iota in H.
      apply N.eqb_eq in H. change (fold_cp 45%N) with 45%N in H.
      apply fold_cp_nonletter in H; [|reflexivity]. subst c. reflexivity.
  Qed.
  Lemma chr_qchar : chr_expr (EAlt false [ERange 32 33; ERange 35 126]) is_qchar.
  Proof.
    apply chr_alt. repeat constructor.
    - apply (chr_weaken _ _ _) with (2 := chr_range 32%N 33%N). intros c H. unfold is_qchar. rewrite H. reflexivity.
    - apply (chr_weaken _ _ _) with (2 := chr_range 35%N 126%N). intros c H. unfold is_qchar. rewrite H.
      apply orb_true_r.
  Qed.
  Lemma chr_pchar : chr_expr (EAlt false [ERange 32 61; ERange 63 126]) is_pchar.
  Proof.
    apply chr_alt. repeat constructor.
    - apply (chr_weaken _ _ _) with (2 := chr_range 32%N 61%N). intros c H. unfold is_pchar. rewrite H. reflexivity.
    - apply (chr_weaken _ _ _) with (2 := chr_range 63%N 126%N). intros c H. unfold is_pchar. rewrite H.
      apply orb_true_r.
  Qed.
  Lemma chr_cchar : chr_expr (EAlt false [ERef 3; ERef 15]) (fun c => is_wsp c || is_vchar c).
  Proof.
    apply chr_alt. repeat constructor.
    - apply (chr_weaken _ _ _) with (2 := chr_WSP). intros c H. rewrite H. reflexivity.
    - apply (chr_weaken _ _ _) with (2 := chr_VCHAR). intros c H. rewrite H. apply orb_true_r.
  Qed.
End Core.

Lemma nvalue_Nd' nm ch : nvalue (Nd nm ch) = nsvalue ch.
Proof. reflexivity. Qed.

(* ------------------------------------------------------------------------------------------ *)
(** * rulename *)
Section Terminals.
  Variable s : str.
  Notation sk := (sk s).

  Lemma rulename_ok i ns j : D G s (ERef 19) i ns j -> nofirst is_namechar (sk j) ->
    exists t, ns = [t] /\ key_is t "rulename" = true /\ ast_of t = Some (ARef (nvalue t)) /\
      read_name (sk i) = Some (nvalue t, sk j) /\ exists c r, sk i = c :: r /\ is_alpha c = true.
  Proof.
    intros H Hf. destruct (D_ref_inv s _ _ _ _ _ _ def_rulename H) as (ch & -> & H').
    apply D_cat2_inv in H'. destruct H' as (k & n1 & n2 & -> & H1 & H2).
    destruct (chr_ALPHA s _ _ _ H1) as (c & -> & E1 & V1 & A1).
    apply D_rep_inv in H2. destruct H2 as (n & H2 & _ & _).
    destruct (DI_chr s _ _ (chr_namechar s) _ _ _ _ H2) as (vs & E2 & V2 & F2 & _).
    eexists. split; [reflexivity|]. split; [reflexivity|]. split; [|split].
    - rewrite ast_of_Nd. cbv zeta.
      change (key_is (Nd (s_of "rulename") (n1 ++ n2)) "rulename") with true. reflexivity.
    - rewrite nvalue_Nd', nsvalue_app, V1, V2, E1, E2. cbn [app read_name]. rewrite A1.
      rewrite (span_app is_namechar vs (sk j) F2 Hf). reflexivity.
    - exists c, (sk (i + 1)). split; assumption.
  Qed.

  (* ---- digits ---- *)
  Definition dig_rule (r : rid) (nm : string) (b : N) : Prop :=
    forall i ns j, D G s (ERef r) i ns j ->
      exists x d, ns = [x] /\ j = i + 1 /\ sk i = d :: sk j /\ digit_node nm b x d.
  Arguments dig_rule r%N nm b%N.

  Lemma DI_dig r nm b : dig_rule r nm b -> forall n i ns j, DI G s (ERef r) n i ns j ->
    exists ds, digit_nodes nm b ns ds /\ sk i = ds ++ sk j /\ length ds = n.
  Proof.
    intros Hr. induction n as [|n IH]; intros i ns j H.
    - apply DI_0_inv in H. destruct H as [-> ->]. exists []. repeat split. constructor.
    - apply DI_S_inv in H. destruct H as (k & n1 & n2 & -> & H1 & H2).
      destruct (Hr _ _ _ H1) as (x & d & -> & -> & E & Hx).
      destruct (IH _ _ _ H2) as (ds & F2 & E2 & L2).
      exists (d :: ds). split; [|split].
      + constructor; assumption.
      + rewrite E, E2. reflexivity.
      + cbn. rewrite L2. reflexivity.
  Qed.

  Lemma dig_DIGIT : dig_rule 2 "DIGIT" 10.
  Proof.
    intros i ns j H. destruct (D_ref_inv s _ _ _ _ _ _ def_DIGIT H) as (ch & -> & H').
    apply D_range_inv in H'. destruct H' as (c & -> & -> & E & A & B).
    eexists _, c. split; [reflexivity|]. split; [reflexivity|]. split; [exact E|].
    split; [reflexivity|]. split; [reflexivity|].
    unfold digit_ok, is_dec. cbn [N.eqb Pos.eqb]. apply andb_true_iff. split; apply N.leb_le; assumption.
  Qed.
  Lemma dig_BIT : dig_rule 8 "BIT" 2.
  Proof.
    intros i ns j H. destruct (D_ref_inv s _ _ _ _ _ _ def_BIT H) as (ch & -> & H').
    apply D_alt_inv in H'. destruct H' as (e & Hin & H').
    destruct Hin as [<-|[<-|[]]]; apply D_sym_inv in H'; try reflexivity; destruct H' as (-> & -> & E);
      eexists _, _; (split; [reflexivity|]); (split; [reflexivity|]); (split; [exact E|]);
      repeat split.
  Qed.
  Lemma dig_HEXDIG : dig_rule 12 "HEXDIG" 16.
  Proof.
    intros i ns j H. destruct (D_ref_inv s _ _ _ _ _ _ def_HEXDIG H) as (ch & -> & H').
    apply D_alt_inv in H'. destruct H' as (e & Hin & H').
    destruct Hin as [<-|Hin].
    { destruct (dig_DIGIT _ _ _ H') as (x & d & -> & -> & E & (Hn & Hv & Hd)).
      eexists _, d. split; [reflexivity|]. split; [reflexivity|]. split; [exact E|].
      split; [reflexivity|]. split.
      - rewrite nvalue_Nd', nsvalue_one. exact Hv.
      - unfold digit_ok in *. cbn [N.eqb Pos.eqb] in *. unfold is_hex. rewrite Hd. reflexivity. }
    assert (exists k, (97 <= k)%N /\ (k <= 102)%N /\ D G s (ELit false [(k - 32)%N]) i ch j) as (k & K1 & K2 & HD).
    { destruct Hin as [<-|[<-|[<-|[<-|[<-|[<-|[]]]]]]];
        [exists 97%N|exists 98%N|exists 99%N|exists 100%N|exists 101%N|exists 102%N];
        (split; [lia|split; [lia|exact H']]). }
    apply D_lit1_inv in HD. destruct HD as (c & -> & -> & E & Hc).
    assert (Hf : fold_cp (k - 32)%N = k).
    { unfold fold_cp. destruct (N.leb_spec 65 (k - 32)); destruct (N.leb_spec (k - 32) 90); cbn [andb]; lia. }
    rewrite Hf in Hc.
    eexists _, c. split; [reflexivity|]. split; [reflexivity|]. split; [exact E|].
    split; [reflexivity|]. split; [reflexivity|].
    unfold digit_ok. cbn [N.eqb Pos.eqb]. unfold is_hex, is_dec.
    destruct (fold_cp_inv c k Hc) as [->|(_ & _ & ->)]; cmp_cases; try reflexivity; lia.
  Qed.

  Lemma digit_ok10 d : digit_ok 10 d = is_digit d.
  Proof. reflexivity. Qed.
  Lemma nodigit10 r : nofirst is_digit r -> nodigit 10 r.
  Proof. destruct r as [|c r]; cbn; [trivial|]. apply rd_digit10_none. Qed.

  (* ---- repeat ---- *)
  Lemma repeat_ok i ns j : D G s (ERef 26) i ns j -> nofirst (fun c => is_digit c || is 42 c) (sk j) ->
    exists t rp, ns = [t] /\ name_is t "repeat" = true /\ produces_expr t = false /\
      v_repeat t = Some rp /\ read_repeat (sk i) = (Some rp, sk j) /\
      exists c r, sk i = c :: r /\ (is_digit c || is 42 c) = true.
  Proof.
    intros H Hf. destruct (D_ref_inv s _ _ _ _ _ _ def_repeat H) as (ch & -> & H').
    assert (Hf1 : nofirst is_digit (sk j)).
    { destruct (sk j) as [|c r]; cbn in *; [trivial|]. apply orb_false_iff in Hf. tauto. }
    assert (Hf2 : eat (AbnfRead.ch "*") (sk j) = None).
    { destruct (sk j) as [|c r]; cbn in *; [reflexivity|]. apply orb_false_iff in Hf. destruct Hf as [_ ->].
      reflexivity. }
    apply D_alt_inv in H'. destruct H' as (e & Hin & H'). destruct Hin as [<-|[<-|[]]].
    - apply D_cat3_inv in H'. destruct H' as (j1 & j2 & n1 & n2 & n3 & -> & H1 & H2 & H3).
      apply D_rep_inv in H1. destruct H1 as (m1 & H1 & _ & _).
      apply D_rep_inv in H3. destruct H3 as (m3 & H3 & _ & _).
      destruct (DI_dig _ _ _ dig_DIGIT _ _ _ _ H1) as (ds1 & F1 & E1 & _).
      destruct (DI_dig _ _ _ dig_DIGIT _ _ _ _ H3) as (ds2 & F3 & E3 & _).
      apply D_sym_inv in H2; [|reflexivity]. destruct H2 as (-> & -> & E2).
      eexists _, _. split; [reflexivity|]. split; [reflexivity|]. split; [reflexivity|]. split; [|split].
      + apply (proj2 (v_repeat_spec (Nd (s_of "repeat") (n1 ++ [Leaf [42%N] j1 1] ++ n3))
                        n1 ds1 n3 ds2 (Leaf [42%N] j1 1) F1 F3 (ex_intro _ j1 (ex_intro _ 1 eq_refl)))).
        reflexivity.
      + rewrite E1, E2, E3. unfold read_repeat.
        rewrite (opt_count_spec ds1 (42%N :: ds2 ++ sk j) (digit_nodes_ok _ _ _ _ F1)) by reflexivity.
        change (eat (AbnfRead.ch "*") (42%N :: ds2 ++ sk j)) with (Some (ds2 ++ sk j)). cbv iota beta.
        rewrite (opt_count_spec ds2 (sk j) (digit_nodes_ok _ _ _ _ F3) (nodigit10 _ Hf1)).
        destruct ds1; reflexivity.
      + rewrite E1, E2. destruct ds1 as [|d ds1].
        * exists 42%N. eexists. split; reflexivity.
        * exists d. eexists. split; [reflexivity|].
          pose proof (digit_nodes_ok _ _ _ _ F1) as Hd. inversion Hd as [|x0 l0 Hd1 Hd2]; subst.
          rewrite <- digit_ok10. rewrite Hd1. reflexivity.
    - apply D_rep_inv in H'. destruct H' as (m1 & H1 & Hm & _).
      destruct (DI_dig _ _ _ dig_DIGIT _ _ _ _ H1) as (ds1 & F1 & E1 & L1).
      assert (Hne : ds1 <> []) by (intros ->; cbn in L1; lia).
      eexists _, _. split; [reflexivity|]. split; [reflexivity|]. split; [reflexivity|]. split; [|split].
      + apply (proj1 (v_repeat_spec (Nd (s_of "repeat") ch) ch ds1 [] [] (Leaf (s_of "*") 0 0) F1
                        (Forall2_nil _) (ex_intro _ 0 (ex_intro _ 0 eq_refl))) eq_refl Hne).
      + rewrite E1. unfold read_repeat.
        rewrite (opt_count_spec ds1 (sk j) (digit_nodes_ok _ _ _ _ F1) (nodigit10 _ Hf1)).
        rewrite Hf2. destruct ds1; [contradiction|]. reflexivity.
      + rewrite E1. destruct ds1 as [|d ds1]; [contradiction|].
        exists d. eexists. split; [reflexivity|].
        pose proof (digit_nodes_ok _ _ _ _ F1) as Hd. inversion Hd as [|x0 l0 Hd1 Hd2]; subst.
        rewrite <- digit_ok10. rewrite Hd1. reflexivity.
  Qed.
End Terminals.

Section Terminals2.
  Variable s : str.
  Notation sk := (sk s).

  (* ---- quoted-string, char-val ---- *)
  Lemma quoted_ok i ns j : D G s (ERef 38) i ns j ->
    exists q t, ns = [q] /\ key_is q "quoted_string" = true /\ nvalue q = 34%N :: t ++ [34%N] /\
      quoted (sk i) = Some (t, sk j) /\ sk i = 34%N :: t ++ 34%N :: sk j.
  Proof.
    intros H. destruct (D_ref_inv s _ _ _ _ _ _ def_quoted_string H) as (ch & -> & H').
    apply D_cat3_inv in H'. destruct H' as (j1 & j2 & n1 & n2 & n3 & -> & H1 & H2 & H3).
    destruct (chr_DQUOTE s _ _ _ H1) as (c1 & -> & E1 & V1 & C1). apply N.eqb_eq in C1. subst c1.
    destruct (chr_DQUOTE s _ _ _ H3) as (c3 & -> & E3 & V3 & C3). apply N.eqb_eq in C3. subst c3.
    apply D_rep_inv in H2. destruct H2 as (n & H2 & _ & _).
    destruct (DI_chr s _ _ (chr_qchar s) _ _ _ _ H2) as (t & E2 & V2 & F2 & _).
    assert (E : sk i = 34%N :: t ++ 34%N :: sk (j2 + 1)) by (rewrite E1, E2, E3; reflexivity).
    eexists _, t. split; [reflexivity|]. split; [reflexivity|]. split; [|split].
    - rewrite nvalue_Nd', !nsvalue_app, V1, V2, V3. reflexivity.
    - rewrite E. unfold quoted. cbn [eat]. change (is DQUOTE 34%N) with true. cbv iota.
      rewrite (span_app is_qchar t (34%N :: sk (j2 + 1)) F2) by reflexivity.
      cbn [eat]. change (is DQUOTE 34%N) with true. reflexivity.
    - exact E.
  Qed.

  Lemma terminal_dq f r : terminal f (34%N :: r) =
    match quoted (34%N :: r) with Some (v, r1) => Some (ALit false v, r1) | None => None end.
  Proof. reflexivity. Qed.
  Lemma terminal_pct f r : terminal f (37%N :: r) =
    match eat_ci (ch "i") r, eat_ci (ch "s") r with
    | Some r1, _ => match quoted r1 with Some (v, r2) => Some (ALit false v, r2) | None => None end
    | _, Some r1 => match quoted r1 with Some (v, r2) => Some (ALit true v, r2) | None => None end
    | None, None =>
      match eat_ci (ch "b") r, eat_ci (ch "d") r, eat_ci (ch "x") r with
      | Some r1, _, _ => num_val f 2 r1
      | _, Some r1, _ => num_val f 10 r1
      | _, _, Some r1 => num_val f 16 r1
      | _, _, _ => None
      end
    end.
  Proof. reflexivity. Qed.
  Lemma eat_ci_eq k c r : eat_ci k (c :: r) = if N.eqb k (fold_cp c) then Some r else None.
  Proof. reflexivity. Qed.

  Lemma v_char_val_cs nm nm1 pre q t :
    Forall (fun y => exists v o l, y = Leaf v o l) pre ->
    key_is q "quoted_string" = true -> nvalue q = 34%N :: t ++ [34%N] ->
    key_is (Nd nm1 (pre ++ [q])) "case_sensitive_string" = true ->
    v_char_val (Nd nm [Nd nm1 (pre ++ [q])]) = Some (ELit true t).
  Proof.
    intros Hpre Kq Vq K.
    exact (proj2 (v_char_val_gen (Nd nm [Nd nm1 (pre ++ [q])]) (Nd nm1 (pre ++ [q])) [] pre q t
                    eq_refl eq_refl Hpre Kq Vq) K).
  Qed.

  Lemma char_val_ok i ns j : D G s (ERef 30) i ns j ->
    exists t cs v, ns = [t] /\ produces_expr t = true /\ ast_of t = Some (ALit cs v) /\
      (forall f, terminal f (sk i) = Some (ALit cs v, sk j)) /\
      exists c r, sk i = c :: r /\ (is 34 c || is 37 c) = true.
  Proof.
    intros H. destruct (D_ref_inv s _ _ _ _ _ _ def_char_val H) as (ch & -> & H').
    apply D_alt_inv in H'. destruct H' as (e & Hin & H'). destruct Hin as [<-|[<-|[]]].
    - destruct (D_ref_inv s _ _ _ _ _ _ def_ci_string H') as (ch' & -> & H2).
      apply D_cat2_inv in H2. destruct H2 as (j1 & pre & n2 & -> & H2 & H3).
      destruct (quoted_ok _ _ _ H3) as (q & v & -> & Kq & Vq & Rq & Eq).
      assert (Hpre : Forall (fun y => exists v o l, y = Leaf v o l) pre /\
                     forall f, terminal f (sk i) = Some (ALit false v, sk j) /\
                     exists c r, sk i = c :: r /\ (is 34 c || is 37 c) = true).
      { apply D_opt_inv in H2. destruct H2 as [[-> ->]|H2].
        - split; [constructor|]. intros f. split.
          + rewrite Eq at 1. rewrite terminal_dq, <- Eq, Rq. reflexivity.
          + eexists _, _. split; [exact Eq|reflexivity].
        - apply D_lit2_inv in H2. destruct H2 as (c1 & c2 & -> & -> & E & F1 & F2).
          split; [repeat constructor; eauto|].
          change (fold_cp 37) with 37%N in F1. apply fold_cp_nonletter in F1; [|reflexivity]. subst c1.
          intros f. split.
          + rewrite E, terminal_pct, eat_ci_eq, F2. change (ch "i" =? fold_cp 105)%N with true.
            cbv iota. rewrite Rq. reflexivity.
          + eexists _, _. split; [exact E|reflexivity]. }
      destruct Hpre as [Hpre Hterm].
      eexists _, false, v. split; [reflexivity|]. split; [reflexivity|]. split; [|split].
      + rewrite ast_of_Nd. cbv zeta.
        change (key_is (Nd (s_of "char-val") [Nd (s_of "case-insensitive-string") (pre ++ [q])]) "rulename")
          with false.
        change (key_is (Nd (s_of "char-val") [Nd (s_of "case-insensitive-string") (pre ++ [q])]) "char_val")
          with true. cbv iota.
        rewrite (proj1 (v_char_val_gen (Nd (s_of "char-val") [Nd (s_of "case-insensitive-string") (pre ++ [q])])
                          (Nd (s_of "case-insensitive-string") (pre ++ [q])) [] pre q v
                          eq_refl eq_refl Hpre Kq Vq) eq_refl). reflexivity.
      + intros f. apply (Hterm f).
      + apply (Hterm 0).
    - destruct (D_ref_inv s _ _ _ _ _ _ def_cs_string H') as (ch' & -> & H2).
      apply D_cat2_inv in H2. destruct H2 as (j1 & pre & n2 & -> & H2 & H3).
      destruct (quoted_ok _ _ _ H3) as (q & v & -> & Kq & Vq & Rq & Eq).
      apply D_lit2_inv in H2. destruct H2 as (c1 & c2 & -> & -> & E & F1 & F2).
      change (fold_cp 37) with 37%N in F1. apply fold_cp_nonletter in F1; [|reflexivity]. subst c1.
      eexists _, true, v. split; [reflexivity|]. split; [reflexivity|]. split; [|split].
      + rewrite ast_of_Nd. cbv zeta.
        change (key_is (Nd (s_of "char-val") [Nd (s_of "case-sensitive-string") ([Leaf [37%N; c2] i 2] ++ [q])])
                       "rulename") with false.
        change (key_is (Nd (s_of "char-val") [Nd (s_of "case-sensitive-string") ([Leaf [37%N; c2] i 2] ++ [q])])
                       "char_val") with true. cbv iota.
        erewrite v_char_val_cs; [reflexivity| |exact Kq|exact Vq|reflexivity].
        repeat constructor. eauto.
      + intros f. rewrite E, terminal_pct, !eat_ci_eq, F2.
        change (ch "i" =? fold_cp 115)%N with false. change (ch "s" =? fold_cp 115)%N with true.
        cbv iota. rewrite Rq. reflexivity.
      + eexists _, _. split; [exact E|reflexivity].
  Qed.

  (* ---- prose-val ---- *)
  Lemma terminal_lt f r : terminal f (60%N :: r) =
    let (v, r1) := span is_pchar r in
    match eat (ch ">") r1 with
    | Some r2 => Some (if is_rulename v then ARef v else AProse v, r2)
    | None => None
    end.
  Proof. reflexivity. Qed.

  Lemma prose_ok i ns j : D G s (ERef 32) i ns j ->
    exists t a, ns = [t] /\ produces_expr t = true /\ ast_of t = Some a /\
      (forall f, terminal f (sk i) = Some (a, sk j)) /\ exists r, sk i = 60%N :: r.
  Proof.
    intros H. destruct (D_ref_inv s _ _ _ _ _ _ def_prose_val H) as (ch & -> & H').
    apply D_cat3_inv in H'. destruct H' as (j1 & j2 & n1 & n2 & n3 & -> & H1 & H2 & H3).
    apply D_sym_inv in H1; [|reflexivity]. destruct H1 as (-> & -> & E1).
    apply D_sym_inv in H3; [|reflexivity]. destruct H3 as (-> & -> & E3).
    apply D_rep_inv in H2. destruct H2 as (n & H2 & _ & _).
    destruct (DI_chr s _ _ (chr_pchar s) _ _ _ _ H2) as (t & E2 & V2 & F2 & _).
    assert (E : sk i = 60%N :: t ++ 62%N :: sk (j2 + 1)) by (rewrite E1, E2, E3; reflexivity).
    assert (V : nvalue (Nd (s_of "prose-val") ([Leaf [60%N] i 1] ++ n2 ++ [Leaf [62%N] j2 1]))
                = 60%N :: t ++ [62%N]).
    { rewrite nvalue_Nd', !nsvalue_app, V2. reflexivity. }
    eexists _, _. split; [reflexivity|]. split; [reflexivity|]. split; [|split].
    - refine (proj1 (prose_spec 0%N (s_of "prose-val") ([Leaf [60%N] i 1] ++ n2 ++ [Leaf [62%N] j2 1])
                                reg0 t _ V)). reflexivity.
    - intros f. rewrite E, terminal_lt.
      rewrite (span_app is_pchar t (62%N :: sk (j2 + 1)) F2) by reflexivity.
      reflexivity.
    - eexists. exact E.
  Qed.
End Terminals2.

(* ------------------------------------------------------------------------------------------ *)
(** * num-val *)
Definition numfol (r : str) : Prop := nofirst (fun c => is_hexch c || is 46 c || is 45 c) r.

Lemma numfol_parts r : numfol r ->
  (forall b, nodigit b r) /\ eat (ch ".") r = None /\ eat (ch "-") r = None.
Proof.
  destruct r as [|c r]; cbn; [auto|]. intros H. apply orb_false_iff in H. destruct H as [H H3].
  apply orb_false_iff in H. destruct H as [H1 H2]. split; [|split].
  - intros b. apply rd_digit_none. exact H1.
  - change (ch ".") with 46%N. rewrite H2. reflexivity.
  - change (ch "-") with 45%N. rewrite H3. reflexivity.
Qed.

Section Val.
  Variable s : str.
  Notation sk := (sk s).
  Variables (r : rid) (nm : string) (b : N).
  Hypothesis Hk : digit_kind nm b.
  Hypothesis Hdig : dig_rule s r nm b.

  Lemma kind_base : (b = 2 \/ b = 10 \/ b = 16)%N.
  Proof. destruct Hk as [[_ ->]|[[_ ->]|[_ ->]]]; auto. Qed.

  Lemma digits_run id i ns j : D G s (ERep id 1 None (ERef r)) i ns j ->
    exists ds, digit_nodes nm b ns ds /\ ds <> [] /\ sk i = ds ++ sk j /\ 1 <= length ds.
  Proof.
    intros H. apply D_rep_inv in H. destruct H as (n & H & Hn & _).
    destruct (DI_dig s _ _ _ Hdig _ _ _ _ H) as (ds & F & E & L).
    exists ds. repeat split; auto; [|lia]. intros ->. cbn in L. lia.
  Qed.

  Definition dot_item (id : N) : expr := ECat [ELit false [46%N]; ERep id 1 None (ERef r)].

  Lemma dots_ok id : forall m i ns j, DI G s (dot_item id) m i ns j -> numfol (sk j) ->
    exists dss,
      (forall xs ds, digit_nodes nm b xs ds -> ds <> [] -> dotted nm b (xs ++ ns) (ds :: dss)) /\
      (forall f acc, length (sk i) < f ->
         AbnfRead.series f b acc (sk i) = Some (rev acc ++ map (pos_val b) dss, sk j)) /\
      nodigit b (sk i) /\ eat (ch "-") (sk i) = None.
  Proof.
    induction m as [|m IH]; intros i ns j H Hf.
    - apply DI_0_inv in H. destruct H as [-> ->]. exists [].
      destruct (numfol_parts _ Hf) as (N1 & N2 & N3). split; [|split; [|split]].
      + intros xs ds Hx Hne. rewrite app_nil_r. apply dotted_one; assumption.
      + intros f acc Hlen. destruct f as [|f]; [lia|]. cbn [AbnfRead.series]. rewrite N2.
        rewrite rev'_rev, app_nil_r. reflexivity.
      + apply N1.
      + exact N3.
    - apply DI_S_inv in H. destruct H as (k & n1 & n2 & -> & H1 & H2).
      unfold dot_item in H1. apply D_cat2_inv in H1. destruct H1 as (k1 & a1 & a2 & -> & H1 & H1').
      apply D_sym_inv in H1; [|reflexivity]. destruct H1 as (-> & -> & E1).
      destruct (digits_run _ _ _ _ H1') as (ds2 & F2 & Hne2 & E2 & L2).
      destruct (IH _ _ _ H2 Hf) as (dss & Hdot & Hser & Hnd & Hdash).
      exists (ds2 :: dss). split; [|split; [|split]].
      + intros xs ds Hx Hne. rewrite <- app_assoc. cbn [app].
        apply dotted_more; auto. eexists _, _. reflexivity.
      + intros f acc Hlen. destruct f as [|f]; [lia|]. cbn [AbnfRead.series]. rewrite E1.
        change (eat (ch ".") (46%N :: sk (i + 1))) with (Some (sk (i + 1))). cbv iota.
        rewrite E2, (number_spec b ds2 (sk k) kind_base (digit_nodes_ok _ _ _ _ F2) Hne2 Hnd).
        rewrite Hser.
        * cbn [rev map]. rewrite <- app_assoc. reflexivity.
        * rewrite E1, E2 in Hlen. cbn [length] in Hlen. rewrite app_length in Hlen. lia.
      + rewrite E1. apply rd_digit_none. reflexivity.
      + rewrite E1. reflexivity.
  Qed.

  Lemma val_ok l a b1 c d e i ch0 j : D G s (val_body l a b1 c d e r) i ch0 j -> numfol (sk j) ->
    exists m lst ex ax c0, ch0 = m :: lst /\ (exists o k, m = Leaf [c0] o k) /\ fold_cp c0 = fold_cp l /\
      sk i = c0 :: sk (i + 1) /\ read_value nm b lst = Some ex /\ unexpr ex = Some ax /\
      forall f, length (sk (i + 1)) < f -> num_val f b (sk (i + 1)) = Some (ax, sk j).
  Proof.
    intros H Hf. unfold val_body in H.
    apply D_cat2_inv in H. destruct H as (j1 & n1 & n2 & -> & H1 & H2).
    apply D_lit1_inv in H1. destruct H1 as (c0 & -> & -> & E0 & F0).
    apply D_cat2_inv in H2. destruct H2 as (k & xs1 & n3 & -> & H2 & H3).
    destruct (digits_run _ _ _ _ H2) as (ds1 & F1 & Hne1 & E1 & L1).
    destruct (read_value_spec nm b Hk) as [RV1 RV2].
    destruct (numfol_parts _ Hf) as (N1 & N2 & N3).
    assert (Hk_le : k <= length s) by (apply D_bounds in H2; lia).
    assert (Hdots : forall m ns, DI G s (dot_item b1) m k ns j ->
      exists ex ax, read_value nm b (xs1 ++ ns) = Some ex /\ unexpr ex = Some ax /\
        forall f, length (sk (i + 1)) < f -> num_val f b (sk (i + 1)) = Some (ax, sk j)).
    { intros m ns HD. destruct (dots_ok b1 _ _ _ _ HD Hf) as (dss & Hdot & Hser & Hnd & Hdash).
      eexists _, _. split; [apply (RV1 _ _ (Hdot _ _ F1 Hne1))|]. split; [reflexivity|].
      intros f Hlen. unfold num_val.
      rewrite E1, (number_spec b ds1 (sk k) kind_base (digit_nodes_ok _ _ _ _ F1) Hne1 Hnd).
      rewrite Hdash, Hser.
      - reflexivity.
      - rewrite E1, app_length in Hlen. lia. }
    apply D_opt_inv in H3. destruct H3 as [[-> ->]|H3].
    - destruct (Hdots 0 [] (DI_0 G s _ _ Hk_le)) as (ex & ax & A1 & A2 & A3).
      exists (Leaf [c0] i 1), (xs1 ++ []), ex, ax, c0. repeat split; eauto.
    - apply D_alt_inv in H3. destruct H3 as (e0 & Hin & H3). destruct Hin as [<-|[<-|[]]].
      + apply D_rep_inv in H3. destruct H3 as (m & H3 & _ & _).
        destruct (Hdots m n3 H3) as (ex & ax & A1 & A2 & A3).
        exists (Leaf [c0] i 1), (xs1 ++ n3), ex, ax, c0. repeat split; eauto.
      + apply D_cat2_inv in H3. destruct H3 as (k1 & a1 & xs2 & -> & H3 & H4).
        apply D_sym_inv in H3; [|reflexivity]. destruct H3 as (-> & -> & E3).
        destruct (digits_run _ _ _ _ H4) as (ds2 & F2 & Hne2 & E2 & L2).
        exists (Leaf [c0] i 1), (xs1 ++ [Leaf [45%N] k 1] ++ xs2). eexists _, _, c0.
        split; [reflexivity|]. split; [eauto|]. split; [exact F0|]. split; [exact E0|].
        split; [|split].
        * apply (RV2 xs1 ds1 (Leaf [45%N] k 1) xs2 ds2 F1 Hne1 (ex_intro _ _ (ex_intro _ _ eq_refl)) F2 Hne2).
        * reflexivity.
        * intros f Hlen. unfold num_val.
          rewrite E1, E3, (number_spec b ds1 (45%N :: sk (k + 1)) kind_base (digit_nodes_ok _ _ _ _ F1) Hne1)
            by (apply rd_digit_none; reflexivity).
          change (eat (ch "-") (45%N :: sk (k + 1))) with (Some (sk (k + 1))). cbv iota.
          rewrite E2, (number_spec b ds2 (sk j) kind_base (digit_nodes_ok _ _ _ _ F2) Hne2 (N1 b)).
          reflexivity.
  Qed.
End Val.

Section NumVal.
  Variable s : str.
  Notation sk := (sk s).

  Lemma num_val_ok i ns j : D G s (ERef 31) i ns j -> numfol (sk j) ->
    exists t a, ns = [t] /\ produces_expr t = true /\ ast_of t = Some a /\
      (forall f, length (sk i) <= f -> terminal f (sk i) = Some (a, sk j)) /\
      exists r, sk i = 37%N :: r.
  Proof.
    intros H Hf. destruct (D_ref_inv s _ _ _ _ _ _ def_num_val H) as (ch & -> & H').
    apply D_cat2_inv in H'. destruct H' as (j1 & n1 & n2 & -> & H1 & H2).
    apply D_sym_inv in H1; [|reflexivity]. destruct H1 as (-> & -> & E0).
    apply D_alt_inv in H2. destruct H2 as (e0 & Hin & H2).
    assert (Hast : forall nmv m lst ex ax, 
      (key_is (Nd nmv (m :: lst)) "bin_val" = true /\ read_value "BIT" 2 lst = Some ex \/
       key_is (Nd nmv (m :: lst)) "dec_val" = true /\ read_value "DIGIT" 10 lst = Some ex \/
       key_is (Nd nmv (m :: lst)) "hex_val" = true /\ read_value "HEXDIG" 16 lst = Some ex) ->
      unexpr ex = Some ax ->
      ast_of (Nd (s_of "num-val") ([Leaf [37%N] i 1] ++ [Nd nmv (m :: lst)])) = Some ax).
    { intros nmv m lst ex ax Hcase Hun. rewrite ast_of_Nd. cbv zeta.
      change (key_is (Nd (s_of "num-val") ([Leaf [37%N] i 1] ++ [Nd nmv (m :: lst)])) "rulename") with false.
      change (key_is (Nd (s_of "num-val") ([Leaf [37%N] i 1] ++ [Nd nmv (m :: lst)])) "char_val") with false.
      change (key_is (Nd (s_of "num-val") ([Leaf [37%N] i 1] ++ [Nd nmv (m :: lst)])) "num_val") with true.
      cbv iota.
      destruct (v_num_val_spec (s_of "num-val") (Leaf [37%N] i 1) nmv m lst
                  (ex_intro _ _ (ex_intro _ _ (ex_intro _ _ eq_refl)))) as (S1 & S2 & S3).
      cbn [app]. destruct Hcase as [[K R]|[[K R]|[K R]]].
      - rewrite (S1 K), R. exact Hun.
      - rewrite (S2 K), R. exact Hun.
      - rewrite (S3 K), R. exact Hun. }
    destruct Hin as [<-|[<-|[<-|[]]]].
    - destruct (D_ref_inv s _ _ _ _ _ _ def_bin_val H2) as (ch' & -> & H3).
      destruct (val_ok s 8%N "BIT" 2%N (or_introl (conj eq_refl eq_refl)) (dig_BIT s) _ _ _ _ _ _ _ _ _ H3 Hf)
        as (m & lst & ex & ax & c0 & -> & Hm & F0 & E1 & RV & Hun & Hrd).
      eexists _, ax. split; [reflexivity|]. split; [reflexivity|]. split; [|split].
      + apply (Hast _ m lst ex ax); [left; split; [reflexivity|exact RV]|exact Hun].
      + intros f Hlen. rewrite E0, E1, terminal_pct, !eat_ci_eq, F0.
        change (ch "i" =? fold_cp 98)%N with false. change (ch "s" =? fold_cp 98)%N with false.
        change (ch "b" =? fold_cp 98)%N with true. cbv iota. apply Hrd.
        rewrite E0, E1 in Hlen. cbn [length] in Hlen. lia.
      + eexists. exact E0.
    - destruct (D_ref_inv s _ _ _ _ _ _ def_dec_val H2) as (ch' & -> & H3).
      destruct (val_ok s 2%N "DIGIT" 10%N (or_intror (or_introl (conj eq_refl eq_refl))) (dig_DIGIT s)
                  _ _ _ _ _ _ _ _ _ H3 Hf)
        as (m & lst & ex & ax & c0 & -> & Hm & F0 & E1 & RV & Hun & Hrd).
      eexists _, ax. split; [reflexivity|]. split; [reflexivity|]. split; [|split].
      + apply (Hast _ m lst ex ax); [right; left; split; [reflexivity|exact RV]|exact Hun].
      + intros f Hlen. rewrite E0, E1, terminal_pct, !eat_ci_eq, F0.
        change (ch "i" =? fold_cp 100)%N with false. change (ch "s" =? fold_cp 100)%N with false.
        change (ch "b" =? fold_cp 100)%N with false. change (ch "d" =? fold_cp 100)%N with true.
        cbv iota. apply Hrd.
        rewrite E0, E1 in Hlen. cbn [length] in Hlen. lia.
      + eexists. exact E0.
    - destruct (D_ref_inv s _ _ _ _ _ _ def_hex_val H2) as (ch' & -> & H3).
      destruct (val_ok s 12%N "HEXDIG" 16%N (or_intror (or_intror (conj eq_refl eq_refl))) (dig_HEXDIG s)
                  _ _ _ _ _ _ _ _ _ H3 Hf)
        as (m & lst & ex & ax & c0 & -> & Hm & F0 & E1 & RV & Hun & Hrd).
      eexists _, ax. split; [reflexivity|]. split; [reflexivity|]. split; [|split].
      + apply (Hast _ m lst ex ax); [right; right; split; [reflexivity|exact RV]|exact Hun].
      + intros f Hlen. rewrite E0, E1, terminal_pct, !eat_ci_eq, F0.
        change (ch "i" =? fold_cp 120)%N with false. change (ch "s" =? fold_cp 120)%N with false.
        change (ch "b" =? fold_cp 120)%N with false. change (ch "d" =? fold_cp 120)%N with false.
        change (ch "x" =? fold_cp 120)%N with true.
        cbv iota. apply Hrd.
        rewrite E0, E1 in Hlen. cbn [length] in Hlen. lia.
      + eexists. exact E0.
  Qed.
End NumVal.

Print Assumptions rulename_ok.
Print Assumptions repeat_ok.
Print Assumptions char_val_ok.
Print Assumptions num_val_ok.
Print Assumptions prose_ok.
