(* Wf.v — the VALID DOMAIN of grammars as a checkable certificate (specification, no engine proofs):
   closed, repeat bounds min<=max, and no left recursion, also through nullable prefixes.
   A certificate is a pair (nul, rank): [nul] over-approximates "can match the empty string",
   [rank] strictly decreases along every reference in LEFT position (reachable without consuming
   input, using [nul] for prefixes) and along every exclusion. *)
From Coq Require Import List NArith Arith Bool Lia.
Import ListNotations.
From ABNF Require Import Base Engine Spec.

Section Cert.
  Variable nul : rid -> bool.
  Variable rank : rid -> nat.

  Fixpoint enull (e : expr) : bool :=
    match e with
    | ELit _ v => match v with [] => true | _ => false end
    | ERange _ _ => false
    | EAlt _ es => existsb enull es
    | ECat es => forallb enull es
    | ERep _ mn _ e' => Nat.eqb mn 0 || enull e'
    | EProse => false
    | ERef r => nul r
    end.

  (* 1 + the largest rank of a rule referenced in left position; 0 if there is none *)
  Fixpoint erank (e : expr) : nat :=
    match e with
    | ERef r => S (rank r)
    | EAlt _ es => fold_right (fun x acc => Nat.max (erank x) acc) 0 es
    | ECat es =>
      (fix go (l : list expr) : nat :=
         match l with
         | [] => 0
         | x :: r => if enull x then Nat.max (erank x) (go r) else erank x
         end) es
    | ERep _ _ _ e' => erank e'
    | _ => 0
    end.

  Definition wf (G : grammar) : Prop :=
    WBG G /\
    forall r ru, G r = Some ru ->
      (forall x, rexcl ru = Some x -> rank x < rank r) /\
      (forall d, rdef ru = Some d ->
         (enull d = true -> nul r = true) /\ erank d <= rank r).
End Cert.

(* every rule mentioned anywhere has a definition *)
Fixpoint refs (e : expr) : list rid :=
  match e with
  | ERef r => [r]
  | EAlt _ es => flat_map refs es
  | ECat es => flat_map refs es
  | ERep _ _ _ e' => refs e'
  | _ => []
  end.
Definition defined (G : grammar) (r : rid) : Prop := exists ru d, G r = Some ru /\ rdef ru = Some d.
Definition closed (G : grammar) : Prop :=
  forall r ru, G r = Some ru ->
    (forall x, rexcl ru = Some x -> defined G x) /\
    (forall d, rdef ru = Some d -> forall x, In x (refs d) -> defined G x).
Definition closed_expr (G : grammar) (e : expr) : Prop := forall x, In x (refs e) -> defined G x.
