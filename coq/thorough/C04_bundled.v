(* thorough/C04_bundled.v — kernel-checked translation validation on the shipped texts (THOROUGH tier only: ~17 min).
   For every bundled grammar class: loading its own texts through the LIBRARY ROUTE (engine model on the meta-grammar
   translated from parser.py, then the visitor model) gives exactly the registry content that the SPEC ROUTE (independent
   spec reader + registry model) gives.  Not part of the default build (compiled by ./check C04 --tier thorough). *)
From Coq Require Import String List NArith Bool.
Import ListNotations.
From ABNF Require Import Base Engine AbnfRead Registry GenTypes Loader GenBundled Bundled TablesAll Visitor Compile.

Definition lib_texts (fuel : nat) (c : cls) (g : gclass) (R : reg) : option reg :=
  if gkind_list g then
    (fix go (l : list str) (R0 : reg) : option reg :=
       match l with
       | [] => Some R0
       | t :: r => match lib_create fuel c t R0 with LOk R1 => go r R1 | _ => None end
       end) (gtexts g) R
  else match gtexts g with
       | [t] => match lib_load_grammar fuel c t true R with LOk R1 => Some R1 | _ => None end
       | _ => None
       end.
Definition spec_texts (c : cls) (g : gclass) (R : reg) : option reg :=
  if gkind_list g then create_all c (gtexts g) R
  else match gtexts g with [t] => load_grammar c t true R | _ => None end.
Definition same_routes (fuel : nat) (g : gclass) : bool :=
  match cls_of bundled (gmod g) (gcls g) with
  | Some c => match lib_texts fuel c g (r_boot tt), spec_texts c g (r_boot tt) with
              | Some R1, Some R2 => same_class R1 R2 c && Nat.eqb (List.length (objs R1)) (List.length (objs R2))
              | _, _ => false
              end
  | None => false
  end.

Theorem C04_bundled_texts_library_route_equals_spec_route : forallb (same_routes 4000) bundled = true.
Proof. vm_cast_no_check (eq_refl true). Qed.
Print Assumptions C04_bundled_texts_library_route_equals_spec_route.
