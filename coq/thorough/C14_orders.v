(* thorough/C14_orders.v — more import configurations for C14, evaluated by the kernel (THOROUGH tier only: ~8 min).
   (1) EVERY ordered pair of bundled modules (25 x 25, each with its dependencies first, as Python imports them);
   (2) for every module m: m imported FIRST, m imported LAST after all others, and m last after all others in reverse:
   every class of every module involved, and the core and meta classes, has exactly the configuration (names,
   definitions with their first-match flags, exclusions) it has when every module is imported in the standard order
   (which L_C14.c14_alone_vs_all shows equal to the module imported alone).
   Not part of the default build (compiled by ./check C14 --tier thorough). *)
From Coq Require Import String List NArith Arith Bool.
Import ListNotations.
From ABNF Require Import Base Engine AbnfRead Registry GenTypes Loader GenBundled Bundled TablesAll L_C14.

Definition all_pairs_with (A : reg) : bool :=
  forallb (fun m1 => forallb (fun m2 =>
     match r_order [m1; m2] with
     | Some R1 => same_module R1 A m1 && same_module R1 A m2 && same_class R1 A 0%N && same_class R1 A 1%N
     | None => false
     end) module_names) module_names.
Definition without (m : str) : list str := filter (fun x => negb (str_eqb x m)) module_names.
Definition first_last_with (A : reg) : bool :=
  forallb (fun m =>
     match r_order (m :: without m), r_order (without m ++ [m]), r_order (rev (without m) ++ [m]) with
     | Some R1, Some R2, Some R3 =>
       forallb (fun R => forallb (same_module R A) module_names && same_class R A 0%N && same_class R A 1%N) [R1; R2; R3]
     | _, _, _ => false
     end) module_names.

Lemma modules_counted : List.length module_names = 25 /\ (forall m, In m module_names -> List.length (without m) = 24).
Proof. split; [vm_compute; reflexivity|].
  assert (H : forallb (fun m => Nat.eqb (List.length (without m)) 24) module_names = true) by (vm_compute; reflexivity).
  rewrite forallb_forall in H. intros m Hm. apply Nat.eqb_eq. exact (H m Hm). Qed.

Theorem C14_every_ordered_pair : all_pairs_with R_all = true.
Proof. vm_cast_no_check (eq_refl true). Qed.
Theorem C14_first_and_last : first_last_with R_all = true.
Proof. vm_cast_no_check (eq_refl true). Qed.
Print Assumptions C14_every_ordered_pair.
Print Assumptions C14_first_and_last.
