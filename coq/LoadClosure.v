(* LoadClosure.v — C14, stage 4a: the import order Python produces.  Generic in the list of class descriptions:
   [gclosure] (= Bundled.dep_closure: dependencies first, post-order, with fuel) returns, when the fuel suffices, a
   duplicate-free list of modules in which every module comes after its dependencies ([closure_spec]); the
   classes of such a module list form a duplicate-free dependency-respecting class list ([dep_ok_cmods]),
   given static facts about the descriptions that LoadBundled.v checks by computation. *)
From Coq Require Import List NArith Arith Bool Lia.
Import ListNotations.
From ABNF Require Import Base Engine AbnfRead Registry EngineSound RegistryProps GenTypes Loader
     LoadFrame1 LoadAbs LoadUq LoadOrder.

Lemma mem_in m acc : existsb (str_eqb m) acc = true <-> In m acc.
Proof.
  rewrite existsb_exists. split.
  - intros (x & Hx & E). apply (proj1 (str_eqb_eq _ _)) in E. subst. exact Hx.
  - intros H. exists m. split; [exact H|apply str_eqb_refl].
Qed.
Lemma mem_not_in m acc : existsb (str_eqb m) acc = false -> ~ In m acc.
Proof. intros H Hin. apply mem_in in Hin. congruence. Qed.

Lemma NoDup_app_intro {A} (l1 l2 : list A) :
  NoDup l1 -> NoDup l2 -> (forall x, In x l1 -> ~ In x l2) -> NoDup (l1 ++ l2).
Proof.
  induction 1 as [|x r Hx Hr IH]; intros H2 Hd; simpl; [exact H2|].
  constructor.
  - intros Hin. apply in_app_or in Hin. destruct Hin as [Hin|Hin]; [exact (Hx Hin)|].
    exact (Hd x (or_introl eq_refl) Hin).
  - apply IH; [exact H2|]. intros y Hy. apply Hd. right; exact Hy.
Qed.
Lemma NoDup_map_filter {A B} (f : A -> B) (P : A -> bool) l : NoDup (map f l) -> NoDup (map f (filter P l)).
Proof.
  induction l as [|x r IH]; simpl; intros H; [constructor|]. inversion H as [|? ? Hx Hr]; subst.
  destruct (P x); simpl; [|auto]. constructor; [|auto].
  intros Hin. apply Hx. apply in_map_iff in Hin. destruct Hin as (y & Hy & Hin).
  apply filter_In in Hin. apply in_map_iff. exists y. tauto.
Qed.
Lemma NoDup_map_inj {A B} (f : A -> B) l a b : NoDup (map f l) -> In a l -> In b l -> f a = f b -> a = b.
Proof.
  induction l as [|x r IH]; simpl; intros H Ha Hb E; [contradiction|].
  inversion H as [|? ? Hx Hr]; subst. destruct Ha as [->|Ha], Hb as [->|Hb]; auto.
  - exfalso. apply Hx. rewrite E. apply in_map. exact Hb.
  - exfalso. apply Hx. rewrite <- E. apply in_map. exact Ha.
Qed.

Section Closure.
  Variable classes : list gclass.
  Definition CM (m : str) : list gclass := filter (fun g => str_eqb (gmod g) m) classes.
  Definition deps (m : str) : list str := flat_map gdeps (CM m).
  Definition cmods (ms : list str) : list gclass := flat_map CM ms.

  Fixpoint gclosure (fuel : nat) (todo : list str) (acc : list str) : list str :=
    match fuel with
    | 0 => acc
    | S f =>
      match todo with
      | [] => acc
      | m :: r =>
        if existsb (str_eqb m) acc then gclosure f r acc
        else
          let ds := deps m in
          let acc1 := gclosure f ds acc in
          gclosure f r (if existsb (str_eqb m) acc1 then acc1 else acc1 ++ [m])
      end
    end.

  (* ---- module level ---- *)
  Variables (names : list str) (rank : str -> nat) (Dmax : nat).
  Hypothesis Hdeps : forall m, In m names ->
      length (deps m) <= Dmax /\ forall d, In d (deps m) -> In d names /\ rank d < rank m.

  Definition before (acc : list str) : Prop :=
    forall i m, nth_error acc i = Some m -> forall d, In d (deps m) -> In d (firstn i acc).
  Record minv (acc : list str) : Prop := mkminv {
    m_nodup : NoDup acc;
    m_names : forall m, In m acc -> In m names;
    m_before : before acc }.

  Lemma minv_nil : minv [].
  Proof. constructor; [constructor|intros m []|intros i m H; destruct i; discriminate]. Qed.

  Lemma minv_snoc acc m : minv acc -> ~ In m acc -> In m names -> (forall d, In d (deps m) -> In d acc) ->
    minv (acc ++ [m]).
  Proof.
    intros [N1 N2 N3] Hn Hm Hd. constructor.
    - apply NoDup_snoc; assumption.
    - intros x Hx. apply in_app_or in Hx. destruct Hx as [Hx|[<-|[]]]; auto.
    - intros i x Hi d Hdx. destruct (Nat.lt_ge_cases i (length acc)) as [L|L].
      + rewrite nth_error_app1 in Hi by exact L. rewrite firstn_app.
        apply in_or_app. left. eapply N3; eauto.
      + rewrite nth_error_app2 in Hi by exact L. destruct (i - length acc) as [|k] eqn:E; simpl in Hi.
        * inversion Hi; subst x. rewrite firstn_app. apply in_or_app. left.
          rewrite firstn_all2 by lia. apply Hd. exact Hdx.
        * destruct k; discriminate.
  Qed.

  Lemma closure_spec : forall f k todo acc,
    (forall m, In m todo -> In m names /\ rank m < k) -> length todo + Dmax * k <= f -> minv acc ->
    minv (gclosure f todo acc) /\ (exists e, gclosure f todo acc = acc ++ e) /\
    (forall m, In m todo -> In m (gclosure f todo acc)).
  Proof.
    induction f as [|f IH]; intros k todo acc Ht Hf I.
    - simpl. destruct todo; [|simpl in Hf; lia]. split; [exact I|]. split; [exists []; rewrite app_nil_r; auto|].
      intros m [].
    - destruct todo as [|m r]; simpl.
      + split; [exact I|]. split; [exists []; rewrite app_nil_r; auto|]. intros m [].
      + assert (Htr : forall x, In x r -> In x names /\ rank x < k) by (intros x Hx; apply Ht; right; exact Hx).
        destruct (Ht m (or_introl eq_refl)) as [Hmn Hmk]. simpl in Hf.
        destruct (existsb (str_eqb m) acc) eqn:Em.
        * destruct (IH k r acc Htr) as (I1 & (e & P1) & S1); [lia|exact I|].
          split; [exact I1|]. split; [exists e; exact P1|].
          intros x [<-|Hx]; [|apply S1; exact Hx]. rewrite P1. apply in_or_app. left. apply mem_in. exact Em.
        * destruct (Hdeps m Hmn) as [Hlen Hds].
          destruct (IH (k - 1) (deps m) acc) as (I1 & (e1 & P1) & S1); [| |exact I|].
          { intros d Hd. destruct (Hds d Hd). split; [assumption|lia]. }
          { assert (Dmax * (k - 1) + Dmax <= Dmax * k) by (destruct k; [lia|]; nia). lia. }
          set (acc1 := gclosure f (deps m) acc) in *.
          assert (I2 : minv (if existsb (str_eqb m) acc1 then acc1 else acc1 ++ [m])).
          { destruct (existsb (str_eqb m) acc1) eqn:Em1; [exact I1|].
            apply minv_snoc; auto. apply mem_not_in. exact Em1. }
          assert (M2 : In m (if existsb (str_eqb m) acc1 then acc1 else acc1 ++ [m])).
          { destruct (existsb (str_eqb m) acc1) eqn:Em1; [apply mem_in; exact Em1|].
            apply in_or_app. right. left. reflexivity. }
          assert (P2 : exists e, (if existsb (str_eqb m) acc1 then acc1 else acc1 ++ [m]) = acc ++ e).
          { destruct (existsb (str_eqb m) acc1); [exists e1; exact P1|].
            exists (e1 ++ [m]). rewrite P1, app_assoc. reflexivity. }
          set (acc2 := if existsb (str_eqb m) acc1 then acc1 else acc1 ++ [m]) in *.
          destruct (IH k r acc2 Htr) as (I3 & (e3 & P3) & S3); [lia|exact I2|].
          split; [exact I3|]. split.
          -- destruct P2 as (e2 & P2). exists (e2 ++ e3). rewrite P3, P2, app_assoc. reflexivity.
          -- intros x [<-|Hx]; [|apply S3; exact Hx]. rewrite P3. apply in_or_app. left. exact M2.
  Qed.

  (* ---- class level ---- *)
  Definition cn (g : gclass) : option cls := cls_of classes (gmod g) (gcls g).
  Hypothesis Hcn_some : forall g, In g classes -> cn g <> None.
  Hypothesis Hcn_nodup : NoDup (map cn classes).

  Fixpoint imports_ok (loaded : list cls) (L : list gclass) : Prop :=
    match L with
    | [] => True
    | g :: r => incl (import_classes classes g) loaded /\
                imports_ok (match cn g with Some c => c :: loaded | None => loaded end) r
    end.
  Lemma imports_ok_mono L : forall l1 l2, incl l1 l2 -> imports_ok l1 L -> imports_ok l2 L.
  Proof.
    induction L as [|g r IH]; intros l1 l2 Hi H; simpl in *; [exact I|]. destruct H as [H1 H2]. split.
    - intros x Hx. apply Hi, H1, Hx.
    - eapply IH; [|exact H2]. destruct (cn g); [|exact Hi]. intros x [<-|Hx]; [left; reflexivity|right; apply Hi, Hx].
  Qed.
  Lemma imports_ok_app L1 : forall L2 loaded,
    imports_ok loaded L1 -> imports_ok (after classes loaded L1) L2 -> imports_ok loaded (L1 ++ L2).
  Proof.
    induction L1 as [|g r IH]; intros L2 loaded H1 H2; simpl in *; [exact H2|].
    destruct H1 as [A B]. split; [exact A|]. apply IH; [exact B|].
    unfold cn. unfold cnum in H2. destruct (cls_of classes (gmod g) (gcls g)); exact H2.
  Qed.

  (* what is checked per module: the imports of its classes come from its declared dependencies or from
     earlier classes of the module itself *)
  Definition lc (ms : list str) : list cls := after classes [] (cmods ms).
  Hypothesis Hmod : forall m, In m names -> imports_ok (lc (deps m)) (CM m).

  Lemma lc_in ms c : In c (lc ms) <-> exists m g, In m ms /\ In g (CM m) /\ cn g = Some c.
  Proof.
    unfold lc. rewrite after_in. split.
    - intros [[]|(g & Hg & Hc)]. unfold cmods in Hg. apply in_flat_map in Hg. destruct Hg as (m & Hm & Hg).
      exists m, g. split; [exact Hm|]. split; [exact Hg|exact Hc].
    - intros (m & g & Hm & Hg & Hc). right. exists g. split; [|exact Hc]. unfold cmods. apply in_flat_map.
      exists m. split; assumption.
  Qed.

  Lemma imports_ok_cmods : forall rest done_mods loaded,
    (forall m, In m rest -> In m names) ->
    (forall i m, nth_error rest i = Some m -> forall d, In d (deps m) -> In d done_mods \/ In d (firstn i rest)) ->
    (forall c, In c (lc done_mods) -> In c loaded) ->
    imports_ok loaded (cmods rest).
  Proof.
    induction rest as [|m r IH]; intros done_mods loaded Hn Hb Hl; simpl; [exact I|].
    apply imports_ok_app.
    - eapply imports_ok_mono; [|apply Hmod; apply Hn; left; reflexivity].
      intros c Hc. apply Hl. apply lc_in in Hc. destruct Hc as (d & g & Hd & Hg & Hc).
      apply lc_in. exists d, g. split; [|auto].
      destruct (Hb 0 m eq_refl d Hd) as [H|[]]. exact H.
    - apply (IH (m :: done_mods)).
      + intros x Hx. apply Hn. right; exact Hx.
      + intros i x Hi d Hd. destruct (Hb (S i) x Hi d Hd) as [H|H]; [left; right; exact H|].
        simpl in H. destruct H as [<-|H]; [left; left; reflexivity|right; exact H].
      + intros c Hc. apply after_in. apply lc_in in Hc. destruct Hc as (d & g & [<-|Hd] & Hg & Hc).
        * right. exists g. auto.
        * left. apply Hl. apply lc_in. eauto.
  Qed.

  Lemma CM_in m g : In g (CM m) <-> In g classes /\ gmod g = m.
  Proof.
    unfold CM. rewrite filter_In. split; intros [A B]; (split; [exact A|]).
    - apply (proj1 (str_eqb_eq _ _)). exact B.
    - apply (proj2 (str_eqb_eq _ _)). exact B.
  Qed.

  Lemma nodup_cmods ms : NoDup ms -> NoDup (map cn (cmods ms)).
  Proof.
    induction 1 as [|m r Hm Hr IH]; simpl; [constructor|]. rewrite map_app.
    apply NoDup_app_intro; [apply NoDup_map_filter; exact Hcn_nodup|exact IH|].
    intros x Hx Hx'. apply in_map_iff in Hx. destruct Hx as (g & <- & Hg).
    apply in_map_iff in Hx'. destruct Hx' as (g' & E & Hg'). unfold cmods in Hg'. apply in_flat_map in Hg'.
    destruct Hg' as (m' & Hm' & Hg'). apply CM_in in Hg. apply CM_in in Hg'.
    destruct Hg as [G1 G2], Hg' as [G1' G2'].
    assert (g' = g) by exact (NoDup_map_inj cn classes g' g Hcn_nodup G1' G1 E). subst g'. apply Hm. congruence.
  Qed.

  Lemma dep_ok_intro L : forall loaded,
    (forall g, In g L -> cn g <> None) -> NoDup (map cn L) ->
    (forall g c, In g L -> cn g = Some c -> ~ In c loaded) -> imports_ok loaded L ->
    dep_ok classes loaded L.
  Proof.
    induction L as [|g r IH]; intros loaded Hs Hnd Hnl Hi; simpl; [exact I|].
    simpl in Hi. destruct Hi as [Hi1 Hi2]. unfold cnum. fold (cn g).
    destruct (cn g) as [c|] eqn:Ec; [|exact (Hs g (or_introl eq_refl) Ec)].
    inversion Hnd as [|? ? Hx Hr]; subst.
    split; [apply (Hnl g c); [left; reflexivity|exact Ec]|]. split; [exact Hi1|].
    apply IH; auto.
    - intros g' Hg'. apply Hs. right; exact Hg'.
    - intros g' c' Hg' Hc' [<-|Hin].
      + apply Hx. rewrite Ec, <- Hc'. apply in_map. exact Hg'.
      + exact (Hnl g' c' (or_intror Hg') Hc' Hin).
  Qed.

  Theorem dep_ok_cmods acc : minv acc -> dep_ok classes [] (cmods acc) /\ forall g, In g (cmods acc) -> In g classes.
  Proof.
    intros [N1 N2 N3]. split.
    - apply dep_ok_intro.
      + intros g Hg. apply Hcn_some. unfold cmods in Hg. apply in_flat_map in Hg. destruct Hg as (m & _ & Hg).
        apply CM_in in Hg. tauto.
      + apply nodup_cmods. exact N1.
      + intros g c _ _ [].
      + apply (imports_ok_cmods acc [] []).
        * exact N2.
        * intros i m Hi d Hd. right. eapply N3; eauto.
        * intros c Hc. apply lc_in in Hc. destruct Hc as (m & _ & [] & _).
    - intros g Hg. unfold cmods in Hg. apply in_flat_map in Hg. destruct Hg as (m & _ & Hg).
      apply CM_in in Hg. tauto.
  Qed.

  (* boolean form of the per-module check *)
  Fixpoint imports_okb (loaded : list cls) (L : list gclass) : bool :=
    match L with
    | [] => true
    | g :: r => forallb (fun sc => existsb (N.eqb sc) loaded) (import_classes classes g) &&
                imports_okb (match cn g with Some c => c :: loaded | None => loaded end) r
    end.
  Lemma imports_okb_sound L : forall loaded, imports_okb loaded L = true -> imports_ok loaded L.
  Proof.
    induction L as [|g r IH]; intros loaded H; simpl in *; [exact I|].
    apply andb_true_iff in H. destruct H as [H1 H2]. split; [|apply IH; exact H2].
    intros sc Hsc. rewrite forallb_forall in H1. apply (existsb_Neqb sc loaded). apply H1. exact Hsc.
  Qed.
End Closure.

Print Assumptions closure_spec.
Print Assumptions dep_ok_cmods.
