(* LoadOrder.v — C14, stage 3f: ORDER INDEPENDENCE.
   Given a reference assignment sigma of snapshots to classes that is a fixed point of every abstract class
   loader ([static_ok]: aload g sigma = sigma (class of g), plus the static side conditions), EVERY
   duplicate-free, dependency-respecting sequence of class loads from a start registry that agrees with sigma on
   the core class and has no object of a loadable class succeeds, and gives every loaded class exactly the
   snapshot sigma assigns to it.  Hence two such sequences agree on every class they have in common. *)
From Coq Require Import List NArith Arith Bool Lia.
Import ListNotations.
From ABNF Require Import Base Engine AbnfRead Registry EngineSound Checks RegistryProps GenTypes Loader
     GenBundled Bundled TablesAll LoadFrame1 LoadWf LoadFrame2 LoadUq LoadAbs LoadSim1 LoadSim2 LoadSim3.

Section Order.
  Variables (classes : list gclass) (sigma : cls -> list entry).
  Definition cnum (g : gclass) : option cls := cls_of classes (gmod g) (gcls g).

  (* the static side conditions of one class description, and the fixed-point property of sigma *)
  Definition static_ok (g : gclass) : Prop :=
    exists c l, cnum g = Some c /\ own_rules g = Some l /\ flags_local classes g = true /\
      (forall sc, In sc (import_classes classes g) -> sc <> c) /\
      (forall nm, In nm (all_names g l) -> ~ In (fold_name nm) (map ekey (sigma 0%N))) /\
      aload classes g sigma = Some (sigma c).
  Definition static_okb (g : gclass) : bool :=
    match cnum g, own_rules g with
    | Some c, Some l =>
      flags_local classes g &&
      forallb (fun sc => negb (N.eqb sc c)) (import_classes classes g) &&
      forallb (fun nm => negb (existsb (str_eqb (fold_name nm)) (map ekey (sigma 0%N)))) (all_names g l) &&
      match aload classes g sigma with Some s => list_eqb snap_eqb s (sigma c) | None => false end
    | _, _ => false
    end.
  Lemma static_okb_sound g : static_okb g = true -> static_ok g.
  Proof.
    unfold static_okb, static_ok. destruct (cnum g) as [c|]; [|discriminate].
    destruct (own_rules g) as [l|]; [|discriminate]. intros H.
    apply andb_true_iff in H. destruct H as [H H4]. apply andb_true_iff in H. destruct H as [H H3].
    apply andb_true_iff in H. destruct H as [H1 H2]. exists c, l. split; [reflexivity|]. split; [reflexivity|].
    split; [exact H1|]. split; [|split].
    - intros sc Hsc. rewrite forallb_forall in H2. specialize (H2 sc Hsc). apply negb_true_iff in H2.
      apply N.eqb_neq. exact H2.
    - intros nm Hnm Hin. rewrite forallb_forall in H3. specialize (H3 nm Hnm). apply negb_true_iff in H3.
      assert (X : existsb (str_eqb (fold_name nm)) (map ekey (sigma 0%N)) = true).
      { apply existsb_exists. exists (fold_name nm). split; [exact Hin|apply str_eqb_refl]. }
      congruence.
    - destruct (aload classes g sigma) as [s|]; [|discriminate]. f_equal.
      apply (list_eqb_sound snap_eqb s); [|exact H4]. apply Forall_forall. intros a _ b. apply snap_eqb_sound.
  Qed.

  (* duplicate-free and dependency-respecting, relative to the classes already loaded *)
  Fixpoint dep_ok (loaded : list cls) (L : list gclass) : Prop :=
    match L with
    | [] => True
    | g :: r => match cnum g with
                | Some c => ~ In c loaded /\ incl (import_classes classes g) loaded /\ dep_ok (c :: loaded) r
                | None => False
                end
    end.
  Fixpoint after (loaded : list cls) (L : list gclass) : list cls :=
    match L with
    | [] => loaded
    | g :: r => match cnum g with Some c => after (c :: loaded) r | None => after loaded r end
    end.
  Lemma after_in loaded L c : In c (after loaded L) <-> In c loaded \/ exists g, In g L /\ cnum g = Some c.
  Proof.
    revert loaded. induction L as [|g r IH]; intros loaded; simpl.
    - split; [auto|]. intros [H|(g & [] & _)]; exact H.
    - destruct (cnum g) as [cg|] eqn:E.
      + rewrite IH. simpl. split.
        * intros [[<-|H]|(g' & G1 & G2)]; [right; exists g; auto|left; exact H|right; exists g'; auto].
        * intros [H|(g' & [<-|G1] & G2)]; [left; right; exact H| |right; exists g'; auto].
          left; left. congruence.
      + rewrite IH. split.
        * intros [H|(g' & G1 & G2)]; [left; exact H|right; exists g'; auto].
        * intros [H|(g' & [<-|G1] & G2)]; [left; exact H|congruence|right; exists g'; auto].
  Qed.

  Record inv (R : reg) (loaded : list cls) : Prop := mkinv {
    i_wf : wf R; i_uq : uq R;
    i_core : class_snapshot R 0%N = sigma 0%N;
    i_snap : forall c, In c loaded -> class_snapshot R c = sigma c;
    i_objs : forall o, In o (objs R) -> (ocls o < 2)%N \/ In (ocls o) loaded }.

  Lemma core_keys R o : In o (objs R) -> ocls o = 0%N -> In (okey o) (map ekey (class_snapshot R 0%N)).
  Proof.
    intros Hin Hc. unfold class_snapshot. rewrite map_map. simpl.
    apply (in_map okey). apply filter_In. split; [exact Hin|]. rewrite Hc. reflexivity.
  Qed.

  Lemma step g R loaded : inv R loaded -> static_ok g ->
    (forall c, cnum g = Some c -> ~ In c loaded) -> incl (import_classes classes g) loaded ->
    exists c R', cnum g = Some c /\ load_class classes g R = Some R' /\ inv R' (c :: loaded).
  Proof.
    intros [W U HC HS HO] (c & l & Hc & Hl & Hfl & Hfor & Hcf & Hfix) Hnl Hinc.
    specialize (Hnl c Hc).
    assert (Hc2 : (2 <= c)%N) by (eapply cls_of_ge2; exact Hc).
    assert (HE : forall o, In o (objs R) -> ocls o <> c).
    { intros o Ho Ec. destruct (HO o Ho) as [H|H]; [lia|]. apply Hnl. rewrite <- Ec. exact H. }
    assert (Hfor' : forall local m c' rn sc, In (local, (m, c', rn)) (gimports g) ->
                                             cls_of classes m c' = Some sc -> sc <> c).
    { intros local m c' rn sc Hin Hsc. apply Hfor. unfold import_classes. apply in_flat_map.
      exists (local, (m, c', rn)). split; [exact Hin|]. rewrite Hsc. left; reflexivity. }
    assert (Hcf' : forall nm, In nm (all_names g l) -> corefree R nm).
    { intros nm Hnm o Ho Hc0 Hk. apply (Hcf nm Hnm). rewrite <- Hk, <- HC. apply core_keys; assumption. }
    pose proof (load_class_abs classes g c R W U Hc2 HE Hfor' l Hc Hl Hcf' Hfl) as H.
    assert (Hext : aload classes g (sigR R) = aload classes g sigma).
    { apply aload_ext; [exact HC|]. intros sc Hsc. apply HS. apply Hinc. exact Hsc. }
    rewrite Hext, Hfix in H. destruct H as (R' & HL & W' & U' & S' & O' & B').
    exists c, R'. split; [exact Hc|]. split; [exact HL|]. constructor; auto.
    - rewrite O'; [exact HC|]. lia.
    - intros c' [<-|Hin]; [exact S'|]. rewrite O'; [apply HS; exact Hin|]. intros ->. exact (Hnl Hin).
    - intros o Ho. destruct (B' o Ho) as [H|H]; [|right; left; auto].
      destruct (HO o H) as [H1|H1]; [left; exact H1|right; right; exact H1].
  Qed.

  (* EVERY duplicate-free dependency-respecting sequence of loads succeeds and realises sigma *)
  Theorem run_ok L : forall loaded R, inv R loaded -> (forall g, In g L -> static_ok g) -> dep_ok loaded L ->
    exists R', load_classes classes L R = Some R' /\ inv R' (after loaded L).
  Proof.
    induction L as [|g r IH]; intros loaded R I Hst Hd; simpl.
    - exists R. auto.
    - simpl in Hd. destruct (cnum g) as [c|] eqn:Ec; [|contradiction]. destruct Hd as (Hn & Hi & Hd).
      destruct (step g R loaded I (Hst g (or_introl eq_refl))) as (c' & R' & Hc' & HL & I'); auto.
      { intros c0 H0. assert (c0 = c) by congruence. subst c0. exact Hn. }
      assert (c' = c) by congruence. subst c'. rewrite HL.
      apply (IH (c :: loaded) R' I'); auto. intros g' Hg'. apply Hst. right; exact Hg'.
  Qed.

  (* ORDER INDEPENDENCE: two such sequences give the same snapshot to every class they both load *)
  Theorem order_independent R0 L1 L2 : inv R0 [] ->
    (forall g, In g L1 -> static_ok g) -> (forall g, In g L2 -> static_ok g) ->
    dep_ok [] L1 -> dep_ok [] L2 ->
    exists R1 R2, load_classes classes L1 R0 = Some R1 /\ load_classes classes L2 R0 = Some R2 /\
      same_class R1 R2 0%N = true /\
      forall g c, In g L1 -> In g L2 -> cnum g = Some c -> same_class R1 R2 c = true.
  Proof.
    intros I H1 H2 D1 D2.
    destruct (run_ok L1 [] R0 I H1 D1) as (R1 & E1 & I1).
    destruct (run_ok L2 [] R0 I H2 D2) as (R2 & E2 & I2).
    exists R1, R2. split; [exact E1|]. split; [exact E2|]. split.
    - apply same_class_iff. rewrite (i_core _ _ I1), (i_core _ _ I2). reflexivity.
    - intros g c G1 G2 Hc. apply same_class_iff.
      rewrite (i_snap _ _ I1 c), (i_snap _ _ I2 c); [reflexivity| |]; apply after_in; right; exists g; auto.
  Qed.

  (* boolean form of dep_ok *)
  Fixpoint dep_okb (loaded : list cls) (L : list gclass) : bool :=
    match L with
    | [] => true
    | g :: r => match cnum g with
                | Some c => negb (existsb (N.eqb c) loaded) &&
                            forallb (fun sc => existsb (N.eqb sc) loaded) (import_classes classes g) &&
                            dep_okb (c :: loaded) r
                | None => false
                end
    end.
  Lemma existsb_Neqb c l : existsb (N.eqb c) l = true <-> In c l.
  Proof.
    rewrite existsb_exists. split.
    - intros (x & Hx & E). apply N.eqb_eq in E. subst. exact Hx.
    - intros H. exists c. split; [exact H|apply N.eqb_refl].
  Qed.
  Lemma dep_okb_sound L : forall loaded, dep_okb loaded L = true -> dep_ok loaded L.
  Proof.
    induction L as [|g r IH]; intros loaded H; simpl in *; [exact I|].
    destruct (cnum g) as [c|]; [|discriminate].
    apply andb_true_iff in H. destruct H as [H H3]. apply andb_true_iff in H. destruct H as [H1 H2].
    split; [|split; [|apply IH; exact H3]].
    - intros Hin. apply existsb_Neqb in Hin. rewrite Hin in H1. discriminate.
    - intros sc Hsc. rewrite forallb_forall in H2. apply existsb_Neqb. apply H2. exact Hsc.
  Qed.
End Order.

Print Assumptions run_ok.
Print Assumptions order_independent.
