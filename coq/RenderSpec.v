(* RenderSpec.v — SPECIFICATION (declarative side): which texts are *renderings* of an ABNF
   abstract syntax tree.

   The relations below are written from the grammar of RFC 5234 section 4 (as updated by
   RFC 7405: "%s" / "%i" strings), one relation per grammar rule, the grammar rule quoted next to
   it.  They do not mention the reader of AbnfRead.v (only its abstract syntax [aexpr]/[arule]);
   there is no greediness, no lookahead and no fuel here: a text is a rendering if it can be
   *split* in the way the grammar rule says.  RenderProof*.v prove that the reader inverts every
   rendering ([read_render_rulelist] etc.).

   Where the relation follows a convention of the reader that is NOT in the RFC text this is said
   in a comment marked "READER CONVENTION". *)
From Coq Require Import List NArith Arith Bool Lia Decimal.
From ABNF Require Import Base AbnfRead.
Import ListNotations.

(* ------------------------------------------------------------------------------------------ *)
(** * Core rules (RFC 5234 appendix B.1) *)
Section Chars.
Local Open Scope N_scope.
Definition WSP (c : cp) : Prop := c = 32 \/ c = 9.                            (* SP / HTAB *)
Definition VCHAR (c : cp) : Prop := 33 <= c /\ c <= 126.                       (* %x21-7E *)
Definition ALPHA (c : cp) : Prop := (65 <= c /\ c <= 90) \/ (97 <= c /\ c <= 122).  (* %x41-5A / %x61-7A *)
Definition DIGIT (c : cp) : Prop := 48 <= c /\ c <= 57.                        (* %x30-39 *)
(* the characters of a rulename after the first: ALPHA / DIGIT / "-" *)
Definition NAMECHAR (c : cp) : Prop := ALPHA c \/ DIGIT c \/ c = 45.
(* inside a quoted-string: %x20-21 / %x23-7E *)
Definition QCHAR (c : cp) : Prop := (32 <= c /\ c <= 33) \/ (35 <= c /\ c <= 126).
(* inside a prose-val: %x20-3D / %x3F-7E *)
Definition PCHAR (c : cp) : Prop := (32 <= c /\ c <= 61) \/ (63 <= c /\ c <= 126).

(* [r_digit base d c]: the character [c] is a digit of value [d] in [base]
   BIT = "0" / "1"; DIGIT = %x30-39; HEXDIG = DIGIT / "A" / ... / "F" -- the literals "A".."F" are
   case-insensitive strings (RFC 5234 2.3), so "a".."f" are HEXDIGs too *)
Inductive r_digit (base : N) : N -> cp -> Prop :=
| RD_dec d : d < 10 -> d < base -> r_digit base d (48 + d)
| RD_upper d : 10 <= d -> d < 16 -> d < base -> r_digit base d (65 + (d - 10))
| RD_lower d : 10 <= d -> d < 16 -> d < base -> r_digit base d (97 + (d - 10)).

(* the value of a digit string, most significant digit first; leading zeros are just digits *)
Definition horner (base : N) (dvs : list N) : N := fold_left (fun a d => a * base + d) dvs 0.
(* 1*BIT / 1*DIGIT / 1*HEXDIG denoting [n] *)
Inductive r_number (base : N) : N -> str -> Prop :=
| RNumber dvs ds : dvs <> [] -> Forall2 (r_digit base) dvs ds -> r_number base (horner base dvs) ds.
End Chars.

(* rulename = ALPHA *(ALPHA / DIGIT / "-") *)
Inductive r_rulename : str -> Prop :=
| RName c r : ALPHA c -> Forall NAMECHAR r -> r_rulename (c :: r).

(* ------------------------------------------------------------------------------------------ *)
(** * Layout *)
Definition CR : cp := 13%N.
Definition LF : cp := 10%N.
(* comment = ";" *(WSP / VCHAR) CRLF *)
Inductive r_comment : str -> Prop :=
| RComment body : Forall (fun c => WSP c \/ VCHAR c) body -> r_comment (59%N :: body ++ [CR; LF]).
(* c-nl = comment / CRLF *)
Inductive r_cnl : str -> Prop :=
| RCnl_comment s : r_comment s -> r_cnl s
| RCnl_crlf : r_cnl [CR; LF].
(* c-wsp = WSP / (c-nl WSP)         (c-nl WSP = a continuation line) *)
Inductive r_cwsp : str -> Prop :=
| RCwsp_wsp c : WSP c -> r_cwsp [c]
| RCwsp_cont nl c : r_cnl nl -> WSP c -> r_cwsp (nl ++ [c]).
(* *c-wsp *)
Inductive r_cwsps : str -> Prop :=
| RCwsps_nil : r_cwsps []
| RCwsps_cons a w : r_cwsp a -> r_cwsps w -> r_cwsps (a ++ w).
(* 1*c-wsp *)
Inductive r_cwsps1 : str -> Prop :=
| RCwsps1 a w : r_cwsp a -> r_cwsps w -> r_cwsps1 (a ++ w).

(* ------------------------------------------------------------------------------------------ *)
(** * Elements without sub-expressions *)
(* a letter of the grammar in either case: "%x" etc. are case-insensitive strings (RFC 5234 2.3) *)
Definition letter (lower c : cp) : Prop := c = lower \/ c = (lower - 32)%N.
Arguments letter (lower c)%N.

(* "b" / "d" / "x" and the base it announces *)
Inductive r_base : cp -> N -> Prop :=
| RB_b c : letter 98 c -> r_base c 2%N
| RB_d c : letter 100 c -> r_base c 10%N
| RB_x c : letter 120 c -> r_base c 16%N.

(* *("." 1*digit) *)
Inductive r_dotted (base : N) : list N -> str -> Prop :=
| RDot_nil : r_dotted base [] []
| RDot_cons n ds vs t : r_number base n ds -> r_dotted base vs t ->
    r_dotted base (n :: vs) (46%N :: ds ++ t).

(* rulename / char-val / num-val / prose-val *)
Inductive renders_term : aexpr -> str -> Prop :=
(* rulename *)
| RT_ref n : r_rulename n -> renders_term (ARef n) n
(* char-val = case-insensitive-string / case-sensitive-string
   case-insensitive-string = [ "%i" ] quoted-string
   case-sensitive-string = "%s" quoted-string
   quoted-string = DQUOTE *(%x20-21 / %x23-7E) DQUOTE *)
| RT_quoted v : Forall QCHAR v -> renders_term (ALit false v) (34%N :: v ++ [34%N])
| RT_quoted_i m v : letter 105 m -> Forall QCHAR v ->
    renders_term (ALit false v) (37%N :: m :: 34%N :: v ++ [34%N])
| RT_quoted_s m v : letter 115 m -> Forall QCHAR v ->
    renders_term (ALit true v) (37%N :: m :: 34%N :: v ++ [34%N])
(* num-val = "%" (bin-val / dec-val / hex-val)
   bin-val = "b" 1*BIT [ 1*("." 1*BIT) / ("-" 1*BIT) ]      likewise dec-val, hex-val
   one value and a dotted series are the same form: the first number, then *("." number) *)
| RT_series m base n ds vs t : r_base m base -> r_number base n ds -> r_dotted base vs t ->
    renders_term (ALit true (n :: vs)) (37%N :: m :: ds ++ t)
| RT_range m base lo dlo hi dhi : r_base m base -> r_number base lo dlo -> r_number base hi dhi ->
    renders_term (ARange lo hi) (37%N :: m :: dlo ++ 45%N :: dhi)
(* prose-val = "<" *(%x20-3D / %x3F-7E) ">"
   READER CONVENTION (not in the RFC, where every prose-val is prose): a prose-val whose content is
   a rulename denotes that rule ([ARef]); every other prose-val denotes prose ([AProse]).  The side
   condition [~ r_rulename v] of [RT_prose] is needed: see [prose_rulename_refuted]. *)
| RT_prose v : Forall PCHAR v -> ~ r_rulename v -> renders_term (AProse v) (60%N :: v ++ [62%N])
| RT_angle_ref n : r_rulename n -> renders_term (ARef n) (60%N :: n ++ [62%N]).

(* *DIGIT / 1*DIGIT as a count: a decimal number of any length, leading zeros allowed *)
Inductive r_count : nat -> str -> Prop :=
| RCount k ds : r_number 10 k ds -> r_count (N.to_nat k) ds.
(* repeat = 1*DIGIT / ( *DIGIT "*" *DIGIT );  the [ARep] bounds each form denotes (RFC 5234 3.6, 3.7) *)
Inductive r_repeat : nat -> option nat -> str -> Prop :=
| RR_n n ds : r_count n ds -> r_repeat n (Some n) ds                               (* <n>element *)
| RR_ab a da b db : r_count a da -> r_count b db -> r_repeat a (Some b) (da ++ 42%N :: db)  (* <a>*<b> *)
| RR_a a da : r_count a da -> r_repeat a None (da ++ [42%N])                       (* <a>* *)
| RR_b b db : r_count b db -> r_repeat 0 (Some b) (42%N :: db)                     (* *<b> *)
| RR_any : r_repeat 0 None [42%N].                                                 (* * *)

(* ------------------------------------------------------------------------------------------ *)
(** * Expressions
   alternation   = concatenation *( *c-wsp "/" *c-wsp concatenation )
   concatenation = repetition *( 1*c-wsp repetition )
   repetition    = [repeat] element
   element       = rulename / group / option / char-val / num-val / prose-val
   group         = "(" *c-wsp alternation *c-wsp ")"
   option        = "[" *c-wsp alternation *c-wsp "]"

   The abstract syntax has no node for a group, and none for an alternation / concatenation of one
   member: a group denotes what its alternation denotes ([RE_group] keeps [e]), an alternation of
   one concatenation denotes that concatenation ([RA_one]), a concatenation of one repetition
   denotes that repetition ([RC_one]), a repetition without repeat denotes its element ([RP_plain]).
   [AAlt] / [ACat] appear exactly when there are two or more members. *)
Inductive renders_elem : aexpr -> str -> Prop :=
| RE_term e s : renders_term e s -> renders_elem e s
| RE_group e w1 s w2 : r_cwsps w1 -> renders_alt e s -> r_cwsps w2 ->
    renders_elem e (40%N :: w1 ++ s ++ w2 ++ [41%N])
| RE_option e w1 s w2 : r_cwsps w1 -> renders_alt e s -> r_cwsps w2 ->
    renders_elem (AOpt e) (91%N :: w1 ++ s ++ w2 ++ [93%N])
with renders_rep : aexpr -> str -> Prop :=
| RP_plain e s : renders_elem e s -> renders_rep e s
| RP_repeat mn mx rp e s : r_repeat mn mx rp -> renders_elem e s ->
    renders_rep (ARep mn mx e) (rp ++ s)
with renders_cat : aexpr -> str -> Prop :=
| RC_one e s : renders_rep e s -> renders_cat e s
| RC_many e s es t : renders_rep e s -> renders_cat_tail es t -> es <> [] ->
    renders_cat (ACat (e :: es)) (s ++ t)
(* *( 1*c-wsp repetition ) *)
with renders_cat_tail : list aexpr -> str -> Prop :=
| RCT_nil : renders_cat_tail [] []
| RCT_cons w e s es t : r_cwsps1 w -> renders_rep e s -> renders_cat_tail es t ->
    renders_cat_tail (e :: es) (w ++ s ++ t)
with renders_alt : aexpr -> str -> Prop :=
| RA_one e s : renders_cat e s -> renders_alt e s
| RA_many e s es t : renders_cat e s -> renders_alt_tail es t -> es <> [] ->
    renders_alt (AAlt (e :: es)) (s ++ t)
(* *( *c-wsp "/" *c-wsp concatenation ) *)
with renders_alt_tail : list aexpr -> str -> Prop :=
| RAT_nil : renders_alt_tail [] []
| RAT_cons w1 w2 e s es t : r_cwsps w1 -> r_cwsps w2 -> renders_cat e s -> renders_alt_tail es t ->
    renders_alt_tail (e :: es) (w1 ++ 47%N :: w2 ++ s ++ t).

Scheme renders_elem_mind := Minimality for renders_elem Sort Prop
  with renders_rep_mind := Minimality for renders_rep Sort Prop
  with renders_cat_mind := Minimality for renders_cat Sort Prop
  with renders_cat_tail_mind := Minimality for renders_cat_tail Sort Prop
  with renders_alt_mind := Minimality for renders_alt Sort Prop
  with renders_alt_tail_mind := Minimality for renders_alt_tail Sort Prop.
Combined Scheme renders_mutind from renders_elem_mind, renders_rep_mind, renders_cat_mind,
  renders_cat_tail_mind, renders_alt_mind, renders_alt_tail_mind.

(* ------------------------------------------------------------------------------------------ *)
(** * Rules and rule lists *)
(* elements = alternation *c-wsp
   (RFC 5234 as published; an erratum reported against it (Errata ID 2968) proposes *WSP here.
   The reader implements the published text, and so does this relation: continuation lines that
   hold only white space or a comment may follow the alternation.  Consequence: when a white line
   follows a rule, the text can be split in two ways, see [read_rule_then_exact_refuted].) *)
Inductive renders_elements : aexpr -> str -> Prop :=
| RElements e s w : renders_alt e s -> r_cwsps w -> renders_elements e (s ++ w).
(* defined-as = *c-wsp ("=" / "=/") *c-wsp;  [true] for "=/" *)
Inductive r_defined_as : bool -> str -> Prop :=
| RDef_eq w1 w2 : r_cwsps w1 -> r_cwsps w2 -> r_defined_as false (w1 ++ 61%N :: w2)
| RDef_incr w1 w2 : r_cwsps w1 -> r_cwsps w2 -> r_defined_as true (w1 ++ 61%N :: 47%N :: w2).
(* rule = rulename defined-as elements c-nl *)
Inductive renders_rule : arule -> str -> Prop :=
| RRule n incr d e s nl : r_rulename n -> r_defined_as incr d -> renders_elements e s -> r_cnl nl ->
    renders_rule {| aname := n; aincr := incr; adef := e |} (n ++ d ++ s ++ nl).

(* one member of the rulelist: rule / ( *c-wsp c-nl );  [Some a]: a rule, [None]: filler *)
Inductive r_entry : option arule -> str -> Prop :=
| REntry_rule a s : renders_rule a s -> r_entry (Some a) s
| REntry_blank w nl : r_cwsps w -> r_cnl nl -> r_entry None (w ++ nl).
Definition opt_cons {A} (o : option A) (l : list A) : list A :=
  match o with Some a => a :: l | None => l end.
(* *( rule / ( *c-wsp c-nl) ) *)
Inductive r_entries : list arule -> str -> Prop :=
| REntries_nil : r_entries [] []
| REntries_cons o s rs t : r_entry o s -> r_entries rs t -> r_entries (opt_cons o rs) (s ++ t).
(* rulelist = 1*( rule / ( *c-wsp c-nl) ) *)
Inductive renders_rulelist : list arule -> str -> Prop :=
| RRulelist o s rs t : r_entry o s -> r_entries rs t -> renders_rulelist (opt_cons o rs) (s ++ t).

(* ------------------------------------------------------------------------------------------ *)
(** * Normal form: the abstract syntax trees that have a rendering = that the reader can return
   ([renders_normal], [print_expr_renders] in RenderProof4.v; [reader_normal_elements],
   [normal_exact], [normal_rules_exact] in RenderProof5.v) *)
Inductive normal : aexpr -> Prop :=
| N_lit_ci v : Forall QCHAR v -> normal (ALit false v)     (* only quoted strings are case-insensitive *)
| N_lit_cs v : normal (ALit true v)                        (* %s"..." (also empty) or a num-val series *)
| N_range lo hi : normal (ARange lo hi)
| N_alt es : (2 <= length es)%nat -> Forall normal es -> normal (AAlt es)
| N_cat es : (2 <= length es)%nat -> Forall normal es -> normal (ACat es)
| N_rep mn mx e : normal e -> normal (ARep mn mx e)
| N_opt e : normal e -> normal (AOpt e)
| N_prose v : Forall PCHAR v -> ~ r_rulename v -> normal (AProse v)
| N_ref n : r_rulename n -> normal (ARef n).
Definition normal_rule (a : arule) : Prop := r_rulename (aname a) /\ normal (adef a).

(* ------------------------------------------------------------------------------------------ *)
(** * A canonical printer (used to show that every normal tree has a rendering) *)
Fixpoint pos_bits (p : positive) : str :=
  match p with
  | xH => [49%N]
  | xO p => pos_bits p ++ [48%N]
  | xI p => pos_bits p ++ [49%N]
  end.
Definition print_bin (n : N) : str := match n with N0 => [48%N] | Npos p => pos_bits p end.

Fixpoint uint_chars (d : Decimal.uint) : str :=
  match d with
  | Nil => []
  | D0 d => 48%N :: uint_chars d | D1 d => 49%N :: uint_chars d | D2 d => 50%N :: uint_chars d
  | D3 d => 51%N :: uint_chars d | D4 d => 52%N :: uint_chars d | D5 d => 53%N :: uint_chars d
  | D6 d => 54%N :: uint_chars d | D7 d => 55%N :: uint_chars d | D8 d => 56%N :: uint_chars d
  | D9 d => 57%N :: uint_chars d
  end.
Definition print_dec (n : nat) : str := uint_chars (Nat.to_uint n).
(* always the form <a>*<b> or <a>* *)
Definition print_repeat (mn : nat) (mx : option nat) : str :=
  print_dec mn ++ 42%N :: match mx with Some b => print_dec b | None => [] end.

Definition join (sep : str) (l : list str) : str :=
  match l with [] => [] | x :: r => x ++ flat_map (fun y => sep ++ y) r end.

(* as an element: compound expressions in parentheses *)
Fixpoint print_elem (e : aexpr) : str :=
  match e with
  | ALit false v => 34%N :: v ++ [34%N]
  | ALit true [] => [37; 115; 34; 34]%N
  | ALit true (n :: vs) => 37%N :: 98%N :: print_bin n ++ flat_map (fun v => 46%N :: print_bin v) vs
  | ARange lo hi => 37%N :: 98%N :: print_bin lo ++ 45%N :: print_bin hi
  | AAlt es => 40%N :: join [32; 47; 32]%N (map print_elem es) ++ [41%N]
  | ACat es => 40%N :: join [32%N] (map print_elem es) ++ [41%N]
  | ARep mn mx e' => 40%N :: (print_repeat mn mx ++ print_elem e') ++ [41%N]
  | AOpt e' => 91%N :: print_elem e' ++ [93%N]
  | AProse v => 60%N :: v ++ [62%N]
  | ARef n => n
  end.
(* as an alternation: the outermost parentheses are not needed *)
Definition print_expr (e : aexpr) : str :=
  match e with
  | AAlt es => join [32; 47; 32]%N (map print_elem es)
  | ACat es => join [32%N] (map print_elem es)
  | ARep mn mx e' => print_repeat mn mx ++ print_elem e'
  | _ => print_elem e
  end.
Definition print_rule (a : arule) : str :=
  aname a ++ [32; 61]%N ++ (if aincr a then [47%N] else []) ++ [32%N] ++ print_expr (adef a) ++ [CR; LF].
(* the empty list of rules is a rulelist too: one empty line *)
Definition print_rulelist (rs : list arule) : str :=
  match rs with [] => [CR; LF] | _ => flat_map print_rule rs end.
