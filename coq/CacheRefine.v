(* CacheRefine.v — CACHING IS INVISIBLE (C08, C13, C17).
   The engine written as a program over cache events (EngineProg.v), run against the model caches of
   Cache.v (LRU order, size limit with eviction, epoch stamp), returns exactly what the pure engine
   (Engine.v) returns, whatever the caches contain as long as every entry is a correct memo, whatever
   the limits; stale-epoch caches behave as empty; and any interleaving of several requests at the
   granularity of single cache operations gives every completed request its sequential result.

   Contents
     1. bridge:     run_pure (lparse_p ..) = lparse ..                     (run_pure_lparse, _parse, _parse_all)
     2. invariant:  good_val, cache_inv, good; lparse_p_good, parse_p_good, parse_all_p_good
     3. C08:        run_cached_correct, cache_inv_empty/_clear/_setmax, history_correct
     4. C13:        the epoch discipline (ep_ok: run_cached_ep, ep_ok_clear, ep_ok_setmax, ep_ok_bump)
     5. C17:        sched_correct, sched_completed, sched_requests
     4'. C13:       cache_inv_after_invalidate, run_cached_after_invalidate, history_inval_correct
                    (histories of requests, clears, limit changes AND grammar changes)
     3'. the lookup form: run_cached_correct_partial (true with duplicate-free caches),
                    run_cached_correct_lookup_form_false (the counterexample without)
     4''. stale = empty, literally: run_cached_vis_eq, stale_as_empty, run_cached_stale_as_empty
     6. non-vacuity examples (vm_compute): eviction at limit 1, hit on the second run, an interleaving,
        a grammar change

   DEVIATION (documented): [cache_inv] quantifies over ALL entries of a cache ([In (k, v) entries]),
   not over the results of [lookup].  The lookup form is implied ([cache_inv_lookup]) and, for caches
   without duplicate keys, equivalent ([cache_inv_of_lookup]); but on its own the lookup form is NOT
   preserved by [cget] when the entry list contains the same key twice (an unreachable state of an
   OrderedDict): the hit moves the first binding to the end and uncovers the second one
   (see [lookup_form_not_preserved]); [run_cached_correct_lookup_form_false] turns this into a request
   that returns a wrong answer from such a state.  [cache_inv_lk] is the lookup form;
   [run_cached_correct_partial] is C08 for it under [nodup_keys] (which every operation preserves and
   fresh caches satisfy). *)
From Coq Require Import List NArith Arith Bool Lia.
Import ListNotations.
From ABNF Require Import Base Engine Cache EngineProg.
From ABNF Require EngineSound EngineComplete Checks CacheProps.

Local Notation centries := (entries ckey cval).
Local Notation ccep := (cep ckey cval).
Local Notation cdrop := (drop_stale ckey cval).
Local Notation clookup := (lookup ckey cval ckey_eqb).
Local Notation cremove := (remove ckey cval ckey_eqb).
Local Notation cassign := (assign ckey cval ckey_eqb).
Local Notation live g c := (entries ckey cval (drop_stale ckey cval g c)).

(* ========================================================================================== *)
(* 1. bridge: the program with no cache is the pure engine                                     *)
(* ========================================================================================== *)
Lemma run_pure_bind {A B : Type} (p : prog A) (f : A -> prog B) :
  run_pure (bind p f) = run_pure (f (run_pure p)).
Proof. induction p as [a|id k c IH|id k v c IH]; simpl; auto. Qed.

Section Bridge.
  Variable sh : list mtch -> list mtch.
  Variable G : grammar.

  Section BStep.
    Variable rec_p : expr -> str -> nat -> prog res.
    Variable rec : expr -> str -> nat -> res.
    Hypothesis Hrec : forall e s i, run_pure (rec_p e s i) = rec e s i.

    Lemma rp_alt fm s i : forall es acc,
      run_pure (alt_loop_p rec_p fm es s i acc) = alt_loop rec fm es s i acc.
    Proof.
      induction es as [|e es IH]; intros acc; simpl; [reflexivity|].
      rewrite run_pure_bind, Hrec. destruct (rec e s i); simpl; auto. destruct fm; simpl; auto.
    Qed.

    Lemma rp_extend e s : forall ms, run_pure (extend_p rec_p e s ms) = extend rec e s ms.
    Proof.
      induction ms as [|m ms IH]; simpl; [reflexivity|].
      rewrite run_pure_bind, Hrec. destruct (rec e s (mend m)); simpl; auto.
      rewrite run_pure_bind, IH. destruct (extend rec e s ms); reflexivity.
    Qed.

    Lemma rp_cat_loop s : forall es cur, run_pure (cat_loop_p rec_p es s cur) = cat_loop rec es s cur.
    Proof.
      induction es as [|e es IH]; intros cur; simpl; [reflexivity|].
      rewrite run_pure_bind, rp_extend. destruct (extend rec e s cur) as [[|m l]| | |]; simpl; auto.
    Qed.

    Lemma rp_cat es s i : run_pure (cat_p rec_p es s i) = cat rec es s i.
    Proof.
      unfold cat_p, cat. rewrite run_pure_bind, rp_cat_loop.
      destruct (cat_loop rec es s [mk [] i]); reflexivity.
    Qed.

    Lemma rp_rep_loop id e mx s i : forall k count mset last,
      run_pure (rep_loop_p sh rec_p id k e mx s i count mset last)
      = rep_loop sh rec k e mx s count mset last.
    Proof.
      induction k as [|k IH]; intros count mset last; cbn [rep_loop_p rep_loop]; [reflexivity|].
      destruct (match mx with Some m => Nat.eqb count m | None => false end); [reflexivity|].
      rewrite run_pure_bind, rp_extend.
      destruct (extend rec e s (sort_desc (sh last))); cbn [run_pure]; auto.
      cbv zeta. destruct (subset (set_of ms) mset); cbn [run_pure]; auto.
    Qed.

    Lemma rp_rep id k mn mx e s i :
      run_pure (rep_p sh rec_p id k mn mx e s i) = rep sh rec k mn mx e s i.
    Proof.
      unfold rep_p, rep. cbn [run_pure]. destruct mn as [|mn]; [apply rp_rep_loop|].
      rewrite run_pure_bind, rp_cat.
      destruct (cat rec (repeat e (S mn)) s i); cbn [run_pure]; auto. apply rp_rep_loop.
    Qed.

    Lemma rp_excluded x m : run_pure (excluded_p sh rec_p x m) = excluded sh rec x m.
    Proof.
      unfold excluded_p, excluded. destruct x as [r|]; [|reflexivity]. cbv zeta.
      rewrite run_pure_bind, Hrec. destruct (rec (ERef r) (nsvalue (nodes m)) 0); try reflexivity.
      destruct (next_longest sh (set_of ms)); reflexivity.
    Qed.

    Lemma rp_filter_excl x : forall ms, run_pure (filter_excl_p sh rec_p x ms) = filter_excl sh rec x ms.
    Proof.
      induction ms as [|m ms IH]; simpl; [reflexivity|].
      rewrite run_pure_bind, rp_excluded. destruct (excluded sh rec x m); try reflexivity.
      rewrite run_pure_bind, IH. destruct (filter_excl sh rec x ms); reflexivity.
    Qed.

    Lemma rp_ref r s i : run_pure (ref_p sh G rec_p r s i) = ref sh G rec r s i.
    Proof.
      unfold ref_p, ref. destruct (G r) as [ru|]; [|reflexivity].
      destruct (rdef ru) as [d|]; [|reflexivity].
      rewrite run_pure_bind, Hrec. destruct (rec d s i); try reflexivity.
      rewrite run_pure_bind, rp_filter_excl. destruct (filter_excl sh rec (rexcl ru) ms); try reflexivity.
      destruct (set_of ms0); reflexivity.
    Qed.

    Lemma rp_step k e s i : run_pure (step_p sh G rec_p k e s i) = step sh G rec k e s i.
    Proof.
      destruct e as [cs v|lo hi|fm es|es|id mn mx e| |r]; cbn [step_p step run_pure]; try reflexivity.
      - apply rp_alt.
      - apply rp_cat.
      - apply rp_rep.
      - apply rp_ref.
    Qed.
  End BStep.

  Theorem run_pure_lparse : forall f e s i, run_pure (lparse_p sh G f e s i) = lparse sh G f e s i.
  Proof.
    induction f as [|f IH]; intros e s i; [reflexivity|].
    cbn [lparse_p lparse]. apply rp_step. exact IH.
  Qed.

  Theorem run_pure_parse : forall f r s i, run_pure (parse_p sh G f r s i) = parse sh G f r s i.
  Proof.
    intros f r s i. unfold parse_p, parse. rewrite run_pure_bind, run_pure_lparse.
    destruct (lparse sh G f (ERef r) s i); try reflexivity.
    destruct (next_longest sh (set_of ms)); reflexivity.
  Qed.

  Theorem run_pure_parse_all : forall f r s, run_pure (parse_all_p sh G f r s) = parse_all sh G f r s.
  Proof.
    intros f r s. unfold parse_all_p, parse_all. rewrite run_pure_bind, run_pure_parse.
    destruct (parse sh G f r s 0) as [[|m l]| | |]; try reflexivity.
    destruct (Nat.ltb (mend m) (length s)); reflexivity.
  Qed.
End Bridge.

(* ========================================================================================== *)
(* 2. what a correct memo is                                                                   *)
(* ========================================================================================== *)
(* the repetition of Engine.v, returning the raw match set (what the code stores) instead of
   [next_longest] of it (what the code yields) *)
Inductive rawres := RSet (ms : list mtch) | RFail (r : res).

Fixpoint rep_loop_raw (sh : list mtch -> list mtch) (rec : expr -> str -> nat -> res)
         (k : nat) (e : expr) (mx : option nat) (s : str)
         (count : nat) (mset last : list mtch) : rawres :=
  match k with
  | 0 => RFail OOF
  | S k' =>
    if match mx with Some m => Nat.eqb count m | None => false end then RSet mset
    else
      match extend rec e s (sort_desc (sh last)) with
      | Ok new =>
        let new := set_of new in
        if subset new mset then RSet mset
        else rep_loop_raw sh rec k' e mx s (S count) (union mset (sh new)) new
      | r => RFail r
      end
  end.

Definition rep_raw (sh : list mtch -> list mtch) (rec : expr -> str -> nat -> res)
           (k : nat) (mn : nat) (mx : option nat) (e : expr) (s : str) (i : nat) : rawres :=
  match mn with
  | 0 => rep_loop_raw sh rec k e mx s 0 [mk [] i] [mk [] i]
  | _ =>
    match cat rec (repeat e mn) s i with
    | Ok ms => let st := set_of ms in rep_loop_raw sh rec k e mx s mn st (set_of (sh st))
    | r => RFail r
    end
  end.

(* what the generator yields after the store *)
Definition fin (sh : list mtch -> list mtch) (x : rawres) : res :=
  match x with RSet ms => Ok (next_longest sh ms) | RFail r => r end.
(* the raw outcome that a cached value stands for *)
Definition cv (v : cval) : rawres := match v with CSet ms => RSet ms | CErr => RFail PErr end.

Lemma rep_loop_fin sh rec e mx s : forall k count mset last,
  rep_loop sh rec k e mx s count mset last = fin sh (rep_loop_raw sh rec k e mx s count mset last).
Proof.
  induction k as [|k IH]; intros count mset last; cbn [rep_loop rep_loop_raw]; [reflexivity|].
  destruct (match mx with Some m => Nat.eqb count m | None => false end); [reflexivity|].
  destruct (extend rec e s (sort_desc (sh last))); try reflexivity.
  cbv zeta. destruct (subset (set_of ms) mset); [reflexivity|]. apply IH.
Qed.

(* Engine.rep = yield of the raw repetition: [rep = Ok (next_longest sh mset)] iff [rep_raw = RSet mset]
   up to [next_longest], and [rep_raw = RFail r] iff [rep = r] *)
Lemma rep_fin sh rec k mn mx e s i :
  rep sh rec k mn mx e s i = fin sh (rep_raw sh rec k mn mx e s i).
Proof.
  unfold rep, rep_raw. destruct mn as [|mn]; [apply rep_loop_fin|].
  destruct (cat rec (repeat e (S mn)) s i); try reflexivity. apply rep_loop_fin.
Qed.

(* fuel monotonicity of the raw repetition (both the recursion and the loop fuel) *)
Section RawMono.
  Variable sh : list mtch -> list mtch.
  Variables rec rec' : expr -> str -> nat -> res.
  Hypothesis Hle : EngineComplete.le_rec rec rec'.

  Lemma rep_loop_raw_mono e mx s : forall k k' count mset last, k <= k' ->
    rep_loop_raw sh rec k e mx s count mset last <> RFail OOF ->
    rep_loop_raw sh rec' k' e mx s count mset last = rep_loop_raw sh rec k e mx s count mset last.
  Proof.
    induction k as [|k IH]; intros k' count mset last Hk Hg; cbn [rep_loop_raw] in Hg; [congruence|].
    destruct k' as [|k']; [lia|]. cbn [rep_loop_raw].
    destruct (match mx with Some m => Nat.eqb count m | None => false end); [reflexivity|].
    pose proof (EngineComplete.extend_mono rec rec' Hle e s (sort_desc (sh last))) as H1.
    destruct (extend rec e s (sort_desc (sh last))) as [new| | |] eqn:Hx.
    - rewrite H1 by discriminate. cbv zeta in *.
      destruct (subset (set_of new) mset); [reflexivity|]. apply IH; [lia|exact Hg].
    - rewrite H1 by discriminate. reflexivity.
    - rewrite H1 by discriminate. reflexivity.
    - congruence.
  Qed.

  Lemma rep_raw_mono k k' mn mx e s i : k <= k' ->
    rep_raw sh rec k mn mx e s i <> RFail OOF ->
    rep_raw sh rec' k' mn mx e s i = rep_raw sh rec k mn mx e s i.
  Proof.
    intros Hk. unfold rep_raw. destruct mn as [|m].
    - apply rep_loop_raw_mono; exact Hk.
    - intros Hg. pose proof (EngineComplete.cat_mono rec rec' Hle (repeat e (S m)) s i) as H1.
      destruct (cat rec (repeat e (S m)) s i) as [ms| | |] eqn:Hc.
      + rewrite H1 by discriminate. apply rep_loop_raw_mono; [exact Hk|exact Hg].
      + rewrite H1 by discriminate. reflexivity.
      + rewrite H1 by discriminate. reflexivity.
      + congruence.
  Qed.
End RawMono.

(* "eventually, in the fuel": the pure computation [P], as a function of the fuel, answers [r] from some
   fuel on (unless r is the out-of-fuel answer, about which nothing is claimed) *)
Definition evg {R : Type} (bad : R) (P : nat -> R) (r : R) : Prop :=
  r <> bad -> exists F, forall F', F <= F' -> P F' = r.
Definition ev2 (P : nat -> nat -> res) (r : res) : Prop :=
  r <> OOF -> exists F, forall F' K', F <= F' -> F <= K' -> P F' K' = r.
Local Notation ev := (evg OOF).

Lemma evg_bad {R} (bad : R) P : evg bad P bad.
Proof. intros H. congruence. Qed.

Lemma evg_ret {R1 R : Type} {bad : R} {P1 : nat -> R1} {r1 : R1} {P : nat -> R} {r : R} :
  (exists F1, forall F', F1 <= F' -> P1 F' = r1) ->
  (forall F', P1 F' = r1 -> P F' = r) -> evg bad P r.
Proof.
  intros [F1 H1] Hc _. exists F1. intros F' HF. apply Hc. apply H1. exact HF.
Qed.

Lemma evg_chain {R1 R : Type} {bad : R} {P1 : nat -> R1} {r1 : R1} {P2 P : nat -> R} {r : R} :
  (exists F1, forall F', F1 <= F' -> P1 F' = r1) -> evg bad P2 r ->
  (forall F', P1 F' = r1 -> P F' = P2 F') -> evg bad P r.
Proof.
  intros [F1 H1] Hev Hc Hne. destruct (Hev Hne) as [F2 H2]. exists (max F1 F2). intros F' HF.
  rewrite Hc by (apply H1; lia). apply H2. lia.
Qed.

Lemma evg_const {R} (bad : R) (P : nat -> R) r : (forall F, P F = r) -> evg bad P r.
Proof. intros H _. exists 0. intros F' _. apply H. Qed.

(* keys: ckey_eqb decides equality *)
Lemma ckey_eqb_eq a b : ckey_eqb a b = true <-> a = b.
Proof.
  destruct a as [s i], b as [t j]. unfold ckey_eqb. cbn [fst snd]. split.
  - intros H. apply andb_true_iff in H. destruct H as [H1 H2].
    apply (proj1 (EngineSound.str_eqb_eq _ _)) in H1. apply Nat.eqb_eq in H2. subst. reflexivity.
  - intros H. inversion H; subst. apply andb_true_iff. split.
    + apply (proj2 (EngineSound.str_eqb_eq _ _)). reflexivity.
    + apply Nat.eqb_refl.
Qed.

Section Refine.
  Variable sh : list mtch -> list mtch.
  Variable G : grammar.
  (* every cache id denotes ONE repetition *)
  Variable rep_of : N -> option (nat * option nat * expr).

  Fixpoint ids_ok_e (e : expr) : Prop :=
    match e with
    | EAlt _ es => (fix go (l : list expr) : Prop :=
                      match l with [] => True | x :: r => ids_ok_e x /\ go r end) es
    | ECat es => (fix go (l : list expr) : Prop :=
                    match l with [] => True | x :: r => ids_ok_e x /\ go r end) es
    | ERep id mn mx e' => rep_of id = Some (mn, mx, e') /\ ids_ok_e e'
    | _ => True
    end.
  Definition ids_ok_G : Prop :=
    forall r ru d, G r = Some ru -> rdef ru = Some d -> ids_ok_e d.
  (* the grammar and the queried expression *)
  Definition ids_ok (e : expr) : Prop := ids_ok_G /\ ids_ok_e e.

  Lemma ids_ok_list (es : list expr) :
    (fix go (l : list expr) : Prop :=
       match l with [] => True | x :: r => ids_ok_e x /\ go r end) es <-> Forall ids_ok_e es.
  Proof.
    induction es as [|e es IH]; split; intros H.
    - constructor.
    - exact I.
    - destruct H as [H1 H2]. constructor; [exact H1|]. apply (proj1 IH). exact H2.
    - inversion H; subst. split; [assumption|]. apply (proj2 IH). assumption.
  Qed.
  Lemma ids_ok_alt fm es : ids_ok_e (EAlt fm es) -> Forall ids_ok_e es.
  Proof. intros H. apply (proj1 (ids_ok_list es)). exact H. Qed.
  Lemma ids_ok_cat es : ids_ok_e (ECat es) -> Forall ids_ok_e es.
  Proof. intros H. apply (proj1 (ids_ok_list es)). exact H. Qed.

  (* a correct memo for key (s, i) of repetition [id]: the pure engine's repetition, at some fuel, ends by
     storing exactly this value (CSet mset: the raw set before next_longest; CErr: the min-fold failed) *)
  Definition good_val (id : N) (k : ckey) (v : cval) : Prop :=
    forall mn mx e, rep_of id = Some (mn, mx, e) ->
      exists f, rep_raw sh (lparse sh G f) f mn mx e (fst k) (snd k) = cv v.

  Lemma cv_not_oof v : cv v <> RFail OOF.
  Proof. destruct v; discriminate. Qed.

  Lemma good_val_strong id s i v mn mx e : good_val id (s, i) v -> rep_of id = Some (mn, mx, e) ->
    exists F, forall F' K', F <= F' -> F <= K' -> rep_raw sh (lparse sh G F') K' mn mx e s i = cv v.
  Proof.
    intros Hv Hid. destruct (Hv mn mx e Hid) as [f Hf]. cbn [fst snd] in Hf.
    exists f. intros F' K' HF HK. rewrite <- Hf. apply rep_raw_mono.
    - apply EngineComplete.lparse_le. exact HF.
    - exact HK.
    - rewrite Hf. apply cv_not_oof.
  Qed.

  (* what a hit then yields is the pure engine's answer *)
  Lemma good_val_hit id s i v mn mx e : good_val id (s, i) v -> rep_of id = Some (mn, mx, e) ->
    exists F, forall F' K', F <= F' -> F <= K' ->
      rep sh (lparse sh G F') K' mn mx e s i = fin sh (cv v).
  Proof.
    intros Hv Hid. destruct (good_val_strong id s i v mn mx e Hv Hid) as [F HF].
    exists F. intros F' K' H1 H2. rewrite rep_fin, (HF F' K' H1 H2). reflexivity.
  Qed.

  (* programs are good: every Store carries a good value, every continuation is good for any
     good-or-absent lookup answer, and the result satisfies Q *)
  Inductive good {A : Type} (Q : A -> Prop) : prog A -> Prop :=
  | good_ret a : Q a -> good Q (Ret a)
  | good_lookup id k c :
      (forall o, (o = None \/ exists v, o = Some v /\ good_val id k v) -> good Q (c o)) ->
      good Q (Lookup id k c)
  | good_store id k v c : good_val id k v -> good Q c -> good Q (Store id k v c).

  Lemma good_bind {A B : Type} (Q' : A -> Prop) (Q : B -> Prop) (p : prog A) (f : A -> prog B) :
    good Q' p -> (forall a, Q' a -> good Q (f a)) -> good Q (bind p f).
  Proof.
    intros Hp Hf. induction Hp as [a Ha|id k c Hc IH|id k v c Hv Hc IH]; cbn [bind].
    - apply Hf. exact Ha.
    - apply good_lookup. intros o Ho. apply IH. exact Ho.
    - apply good_store; [exact Hv|exact IH].
  Qed.

  Lemma good_mono {A : Type} (Q Q' : A -> Prop) (p : prog A) :
    good Q p -> (forall a, Q a -> Q' a) -> good Q' p.
  Proof.
    intros Hp HQ. induction Hp as [a Ha|id k c Hc IH|id k v c Hv Hc IH].
    - apply good_ret. apply HQ. exact Ha.
    - apply good_lookup. intros o Ho. apply IH. exact Ho.
    - apply good_store; [exact Hv|exact IH].
  Qed.

  Local Notation L := (lparse sh G).

  (* ---- one level of the engine, for any [rec_p] that is good for "eventually = the pure engine" ---- *)
  Section GStep.
    Variable rec_p : expr -> str -> nat -> prog res.
    Hypothesis Hrec : forall e s i, ids_ok_e e -> good (ev (fun F => L F e s i)) (rec_p e s i).
    Hypothesis HG : ids_ok_G.

    Lemma alt_loop_p_good fm s i : forall es acc, Forall ids_ok_e es ->
      good (ev (fun F => alt_loop (L F) fm es s i acc)) (alt_loop_p rec_p fm es s i acc).
    Proof.
      induction es as [|e es IH]; intros acc Hes.
      - apply good_ret. apply evg_const. reflexivity.
      - inversion Hes as [|x xs He Hes']; subst. cbn [alt_loop_p].
        eapply good_bind; [apply Hrec; exact He|]. intros r Hr. cbv beta.
        destruct r as [ms| | |].
        + pose proof (Hr ltac:(discriminate)) as H1. destruct fm.
          * apply good_ret. apply (evg_ret H1). intros F' E. cbn [alt_loop]. rewrite E. reflexivity.
          * eapply good_mono; [apply IH; exact Hes'|]. intros r0 Hr0.
            apply (evg_chain H1 Hr0). intros F' E. cbn [alt_loop]. rewrite E. reflexivity.
        + pose proof (Hr ltac:(discriminate)) as H1.
          eapply good_mono; [apply IH; exact Hes'|]. intros r0 Hr0.
          apply (evg_chain H1 Hr0). intros F' E. cbn [alt_loop]. rewrite E. reflexivity.
        + pose proof (Hr ltac:(discriminate)) as H1.
          apply good_ret. apply (evg_ret H1). intros F' E. cbn [alt_loop]. rewrite E. reflexivity.
        + apply good_ret. apply evg_bad.
    Qed.

    Lemma extend_p_good e s : ids_ok_e e -> forall ms,
      good (ev (fun F => extend (L F) e s ms)) (extend_p rec_p e s ms).
    Proof.
      intros He. induction ms as [|m ms IH].
      - apply good_ret. apply evg_const. reflexivity.
      - cbn [extend_p]. eapply good_bind; [apply Hrec; exact He|]. intros r Hr. cbv beta.
        destruct r as [xs| | |].
        + pose proof (Hr ltac:(discriminate)) as H1.
          eapply good_bind; [exact IH|]. intros r2 Hr2. cbv beta.
          assert (Hgoal : ev (fun F => extend (L F) e s (m :: ms))
                             (match r2 with
                              | Ok ys => Ok (map (fun x => mk (nodes m ++ nodes x) (mend x)) xs ++ ys)
                              | r' => r' end)).
          { destruct r2 as [ys| | |].
            - pose proof (Hr2 ltac:(discriminate)) as H2.
              refine (evg_chain H1 (evg_ret H2 (P := fun F => match extend (L F) e s ms with
                        | Ok ys => Ok (map (fun x => mk (nodes m ++ nodes x) (mend x)) xs ++ ys)
                        | r => r end) _) _).
              + intros F' E. rewrite E. reflexivity.
              + intros F' E. cbn [extend]. rewrite E. reflexivity.
            - pose proof (Hr2 ltac:(discriminate)) as H2.
              refine (evg_chain H1 (evg_ret H2 (P := fun F => match extend (L F) e s ms with
                        | Ok ys => Ok (map (fun x => mk (nodes m ++ nodes x) (mend x)) xs ++ ys)
                        | r => r end) _) _).
              + intros F' E. rewrite E. reflexivity.
              + intros F' E. cbn [extend]. rewrite E. reflexivity.
            - pose proof (Hr2 ltac:(discriminate)) as H2.
              refine (evg_chain H1 (evg_ret H2 (P := fun F => match extend (L F) e s ms with
                        | Ok ys => Ok (map (fun x => mk (nodes m ++ nodes x) (mend x)) xs ++ ys)
                        | r => r end) _) _).
              + intros F' E. rewrite E. reflexivity.
              + intros F' E. cbn [extend]. rewrite E. reflexivity.
            - apply evg_bad. }
          destruct r2; apply good_ret; exact Hgoal.
        + pose proof (Hr ltac:(discriminate)) as H1.
          eapply good_mono; [exact IH|]. intros r0 Hr0.
          apply (evg_chain H1 Hr0). intros F' E. cbn [extend]. rewrite E. reflexivity.
        + pose proof (Hr ltac:(discriminate)) as H1.
          apply good_ret. apply (evg_ret H1). intros F' E. cbn [extend]. rewrite E. reflexivity.
        + apply good_ret. apply evg_bad.
    Qed.

    Lemma cat_loop_p_good s : forall es cur, Forall ids_ok_e es ->
      good (ev (fun F => cat_loop (L F) es s cur)) (cat_loop_p rec_p es s cur).
    Proof.
      induction es as [|e es IH]; intros cur Hes.
      - apply good_ret. apply evg_const. reflexivity.
      - inversion Hes as [|x xs He Hes']; subst. cbn [cat_loop_p].
        eapply good_bind; [apply extend_p_good; exact He|]. intros r Hr. cbv beta.
        destruct r as [[|m1 nxt]| | |].
        + pose proof (Hr ltac:(discriminate)) as H1.
          apply good_ret. apply (evg_ret H1). intros F' E. cbn [cat_loop]. rewrite E. reflexivity.
        + pose proof (Hr ltac:(discriminate)) as H1.
          eapply good_mono; [apply IH; exact Hes'|]. intros r0 Hr0.
          apply (evg_chain H1 Hr0). intros F' E. cbn [cat_loop]. rewrite E. reflexivity.
        + pose proof (Hr ltac:(discriminate)) as H1.
          apply good_ret. apply (evg_ret H1). intros F' E. cbn [cat_loop]. rewrite E. reflexivity.
        + pose proof (Hr ltac:(discriminate)) as H1.
          apply good_ret. apply (evg_ret H1). intros F' E. cbn [cat_loop]. rewrite E. reflexivity.
        + apply good_ret. apply evg_bad.
    Qed.

    Lemma cat_p_good es s i : Forall ids_ok_e es ->
      good (ev (fun F => cat (L F) es s i)) (cat_p rec_p es s i).
    Proof.
      intros Hes. unfold cat_p. eapply good_bind; [apply cat_loop_p_good; exact Hes|].
      intros r Hr. cbv beta. destruct r as [ms| | |].
      - pose proof (Hr ltac:(discriminate)) as H1.
        apply good_ret. apply (evg_ret H1). intros F' E. unfold cat. rewrite E. reflexivity.
      - pose proof (Hr ltac:(discriminate)) as H1.
        apply good_ret. apply (evg_ret H1). intros F' E. unfold cat. rewrite E. reflexivity.
      - pose proof (Hr ltac:(discriminate)) as H1.
        apply good_ret. apply (evg_ret H1). intros F' E. unfold cat. rewrite E. reflexivity.
      - apply good_ret. apply evg_bad.
    Qed.

    (* the repetition loop: every value it stores is what the raw loop returns from the current state *)
    Lemma rep_loop_p_good id e mx s i : ids_ok_e e -> forall k count mset last,
      (forall v, (exists F, forall F' K', F <= F' -> F <= K' ->
                    rep_loop_raw sh (L F') K' e mx s count mset last = cv v) -> good_val id (s, i) v) ->
      good (ev2 (fun F K => rep_loop sh (L F) K e mx s count mset last))
           (rep_loop_p sh rec_p id k e mx s i count mset last).
    Proof.
      intros He. induction k as [|k IH]; intros count mset last Hst.
      - apply good_ret. intros H. congruence.
      - cbn [rep_loop_p].
        destruct (match mx with Some m => Nat.eqb count m | None => false end) eqn:Ec.
        + apply good_store.
          * apply Hst. exists 1. intros F' K' _ HK. destruct K' as [|K']; [lia|].
            cbn [rep_loop_raw]. rewrite Ec. reflexivity.
          * apply good_ret. intros _. exists 1. intros F' K' _ HK. destruct K' as [|K']; [lia|].
            cbn [rep_loop]. rewrite Ec. reflexivity.
        + eapply good_bind; [apply extend_p_good; exact He|]. intros r Hr. cbv beta.
          destruct r as [new| | |].
          * destruct (Hr ltac:(discriminate)) as [F1 H1]. cbv zeta.
            destruct (subset (set_of new) mset) eqn:Es.
            -- apply good_store.
               ++ apply Hst. exists (S F1). intros F' K' HF HK. destruct K' as [|K']; [lia|].
                  cbn [rep_loop_raw]. rewrite Ec, H1 by lia. cbv zeta. rewrite Es. reflexivity.
               ++ apply good_ret. intros _. exists (S F1). intros F' K' HF HK.
                  destruct K' as [|K']; [lia|].
                  cbn [rep_loop]. rewrite Ec, H1 by lia. cbv zeta. rewrite Es. reflexivity.
            -- eapply good_mono; [apply IH|].
               ++ intros v [F HF]. apply Hst. exists (S (max F1 F)). intros F' K' HF' HK'.
                  destruct K' as [|K']; [lia|].
                  cbn [rep_loop_raw]. rewrite Ec, H1 by lia. cbv zeta. rewrite Es. apply HF; lia.
               ++ intros r0 Hr0 Hne. destruct (Hr0 Hne) as [F HF]. exists (S (max F1 F)).
                  intros F' K' HF' HK'. destruct K' as [|K']; [lia|].
                  cbn [rep_loop]. rewrite Ec, H1 by lia. cbv zeta. rewrite Es. apply HF; lia.
          * destruct (Hr ltac:(discriminate)) as [F1 H1].
            apply good_ret. intros _. exists (S F1). intros F' K' HF HK. destruct K' as [|K']; [lia|].
            cbn [rep_loop]. rewrite Ec, H1 by lia. reflexivity.
          * destruct (Hr ltac:(discriminate)) as [F1 H1].
            apply good_ret. intros _. exists (S F1). intros F' K' HF HK. destruct K' as [|K']; [lia|].
            cbn [rep_loop]. rewrite Ec, H1 by lia. reflexivity.
          * apply good_ret. intros H. congruence.
    Qed.

    Lemma repeat_Forall {A} (P : A -> Prop) a n : P a -> Forall P (repeat a n).
    Proof. intros H. induction n as [|n IH]; simpl; constructor; assumption. Qed.

    Lemma rep_p_good id k mn mx e s i : rep_of id = Some (mn, mx, e) -> ids_ok_e e ->
      good (ev2 (fun F K => rep sh (L F) K mn mx e s i)) (rep_p sh rec_p id k mn mx e s i).
    Proof.
      intros Hid He. unfold rep_p. apply good_lookup. intros o [->|[v [-> Hv]]].
      - (* miss *)
        destruct mn as [|mn].
        + unfold rep. apply rep_loop_p_good; [exact He|].
          intros v [F HF] mn' mx' e' Hid'. rewrite Hid in Hid'. inversion Hid'; subst mn' mx' e'.
          exists F. cbn [fst snd]. unfold rep_raw. apply HF; lia.
        + eapply good_bind; [apply cat_p_good; apply repeat_Forall; exact He|].
          intros r Hr. cbv beta. destruct r as [ms| | |].
          * destruct (Hr ltac:(discriminate)) as [F1 H1]. cbv zeta.
            eapply good_mono; [apply rep_loop_p_good; [exact He|]|].
            -- intros v [F HF] mn' mx' e' Hid'. rewrite Hid in Hid'. inversion Hid'; subst mn' mx' e'.
               exists (max F1 F). cbn [fst snd]. unfold rep_raw. rewrite H1 by lia. cbv zeta.
               apply HF; lia.
            -- intros r0 Hr0 Hne. destruct (Hr0 Hne) as [F HF]. exists (max F1 F).
               intros F' K' HF' HK'. unfold rep. rewrite H1 by lia. cbv zeta. apply HF; lia.
          * destruct (Hr ltac:(discriminate)) as [F1 H1]. apply good_store.
            -- intros mn' mx' e' Hid'. rewrite Hid in Hid'. inversion Hid'; subst mn' mx' e'.
               exists F1. cbn [fst snd]. unfold rep_raw. rewrite H1 by lia. reflexivity.
            -- apply good_ret. intros _. exists F1. intros F' K' HF' _.
               unfold rep. rewrite H1 by lia. reflexivity.
          * destruct (Hr ltac:(discriminate)) as [F1 H1].
            apply good_ret. intros _. exists F1. intros F' K' HF' _.
            unfold rep. rewrite H1 by lia. reflexivity.
          * apply good_ret. intros H. congruence.
      - (* hit *)
        destruct (good_val_hit id s i v mn mx e Hv Hid) as [F HF].
        destruct v as [ms|]; apply good_ret; intros _; exists F; exact HF.
    Qed.

    Lemma excluded_p_good x m :
      good (evg XO (fun F => excluded sh (L F) x m)) (excluded_p sh rec_p x m).
    Proof.
      unfold excluded_p. destruct x as [r|].
      - cbv zeta. eapply good_bind; [apply Hrec; exact I|]. intros r0 Hr0. cbv beta.
        destruct r0 as [ms| | |].
        + pose proof (Hr0 ltac:(discriminate)) as H1.
          destruct (next_longest sh (set_of ms)) as [|m0 l] eqn:En; apply good_ret; apply (evg_ret H1);
            intros F' E; unfold excluded; cbv zeta; rewrite E, En; reflexivity.
        + pose proof (Hr0 ltac:(discriminate)) as H1.
          apply good_ret. apply (evg_ret H1). intros F' E. unfold excluded. cbv zeta. rewrite E. reflexivity.
        + pose proof (Hr0 ltac:(discriminate)) as H1.
          apply good_ret. apply (evg_ret H1). intros F' E. unfold excluded. cbv zeta. rewrite E. reflexivity.
        + apply good_ret. apply evg_bad.
      - apply good_ret. apply evg_const. reflexivity.
    Qed.

    Lemma filter_excl_p_good x : forall ms,
      good (ev (fun F => filter_excl sh (L F) x ms)) (filter_excl_p sh rec_p x ms).
    Proof.
      induction ms as [|m ms IH].
      - apply good_ret. apply evg_const. reflexivity.
      - cbn [filter_excl_p]. eapply good_bind; [apply excluded_p_good|]. intros b Hb. cbv beta.
        destruct b as [b| |].
        + pose proof (Hb ltac:(discriminate)) as H1.
          eapply good_bind; [exact IH|]. intros r2 Hr2. cbv beta.
          assert (Hgoal : ev (fun F => filter_excl sh (L F) x (m :: ms))
                             (match r2 with Ok l => Ok (if b then l else m :: l) | r' => r' end)).
          { destruct r2 as [l| | |]; [| | |apply evg_bad];
              pose proof (Hr2 ltac:(discriminate)) as H2;
              (refine (evg_chain H1 (evg_ret H2 (P := fun F => match filter_excl sh (L F) x ms with
                          | Ok r => Ok (if b then r else m :: r) | e => e end) _) _);
               [intros F' E; rewrite E; reflexivity
               |intros F' E; cbn [filter_excl]; rewrite E; reflexivity]). }
          destruct r2; apply good_ret; exact Hgoal.
        + pose proof (Hb ltac:(discriminate)) as H1.
          apply good_ret. apply (evg_ret H1). intros F' E. cbn [filter_excl]. rewrite E. reflexivity.
        + apply good_ret. apply evg_bad.
    Qed.

    Lemma ref_p_good r s i : good (ev (fun F => ref sh G (L F) r s i)) (ref_p sh G rec_p r s i).
    Proof.
      unfold ref_p. destruct (G r) as [ru|] eqn:EG.
      2:{ apply good_ret. apply evg_const. intros F. unfold ref. rewrite EG. reflexivity. }
      destruct (rdef ru) as [d|] eqn:Ed.
      2:{ apply good_ret. apply evg_const. intros F. unfold ref. rewrite EG, Ed. reflexivity. }
      eapply good_bind; [apply Hrec; exact (HG r ru d EG Ed)|]. intros r0 Hr0. cbv beta.
      destruct r0 as [ms| | |].
      - pose proof (Hr0 ltac:(discriminate)) as H1.
        eapply good_bind; [apply filter_excl_p_good|]. intros r1 Hr1. cbv beta.
        assert (Hgoal : ev (fun F => ref sh G (L F) r s i)
                  (match r1 with
                   | Ok ms' => match set_of ms' with
                               | [] => PErr
                               | st => Ok (map (fun m => mk [Nd (rname ru) (nodes m)] (mend m))
                                               (sort_desc (sh st)))
                               end
                   | r' => r' end)).
        { destruct r1 as [ms'| | |]; [| | |apply evg_bad];
            pose proof (Hr1 ltac:(discriminate)) as H2;
            (refine (evg_chain H1 (evg_ret H2 (P := fun F =>
                       match filter_excl sh (L F) (rexcl ru) ms with
                       | Ok ms' => match set_of ms' with
                                   | [] => PErr
                                   | st => Ok (map (fun m => mk [Nd (rname ru) (nodes m)] (mend m))
                                                   (sort_desc (sh st)))
                                   end
                       | e => e end) _) _);
             [intros F' E; rewrite E; reflexivity
             |intros F' E; unfold ref; rewrite EG, Ed, E; reflexivity]). }
        destruct r1 as [ms'| | |]; try (apply good_ret; exact Hgoal).
        destruct (set_of ms'); apply good_ret; exact Hgoal.
      - pose proof (Hr0 ltac:(discriminate)) as H1.
        apply good_ret. apply (evg_ret H1). intros F' E. unfold ref. rewrite EG, Ed, E. reflexivity.
      - pose proof (Hr0 ltac:(discriminate)) as H1.
        apply good_ret. apply (evg_ret H1). intros F' E. unfold ref. rewrite EG, Ed, E. reflexivity.
      - apply good_ret. apply evg_bad.
    Qed.

    Lemma step_p_good k e s i : ids_ok_e e ->
      good (ev (fun F => step sh G (L F) F e s i)) (step_p sh G rec_p k e s i).
    Proof.
      intros He. destruct e as [cs v|lo hi|fm es|es|id mn mx e| |r]; cbn [step_p step].
      - apply good_ret. apply evg_const. reflexivity.
      - apply good_ret. apply evg_const. reflexivity.
      - apply alt_loop_p_good. exact (ids_ok_alt fm es He).
      - apply cat_p_good. exact (ids_ok_cat es He).
      - destruct He as [Hid He]. eapply good_mono; [apply rep_p_good; [exact Hid|exact He]|].
        intros r0 Hr0 Hne. destruct (Hr0 Hne) as [F HF]. exists F. intros F' HF'. apply HF; exact HF'.
      - apply good_ret. apply evg_const. reflexivity.
      - apply ref_p_good.
    Qed.
  End GStep.

  Lemma lparse_p_ev : ids_ok_G -> forall f e s i, ids_ok_e e ->
    good (ev (fun F => L F e s i)) (lparse_p sh G f e s i).
  Proof.
    intros HG. induction f as [|f IH]; intros e s i He.
    - apply good_ret. apply evg_bad.
    - cbn [lparse_p]. eapply good_mono; [apply (step_p_good (lparse_p sh G f) IH HG f e s i He)|].
      intros r Hr Hne. destruct (Hr Hne) as [F HF]. exists (S F). intros F' HF'.
      destruct F' as [|F']; [lia|]. cbn [lparse]. apply HF. lia.
  Qed.

  Lemma ev_exists (P : nat -> res) r : ev P r -> r <> OOF -> exists f', P f' = r.
  Proof. intros H Hne. destruct (H Hne) as [F HF]. exists F. apply HF. lia. Qed.

  Theorem lparse_p_good : forall e, ids_ok e -> forall f s i,
    good (fun r => r <> OOF -> exists f', lparse sh G f' e s i = r) (lparse_p sh G f e s i).
  Proof.
    intros e [HG He] f s i. eapply good_mono; [apply lparse_p_ev; [exact HG|exact He]|].
    intros r Hr. exact (ev_exists _ r Hr).
  Qed.

  Lemma parse_p_ev : ids_ok_G -> forall f r s i,
    good (ev (fun F => parse sh G F r s i)) (parse_p sh G f r s i).
  Proof.
    intros HG f r s i. unfold parse_p.
    eapply good_bind; [apply lparse_p_ev; [exact HG|exact I]|]. intros r0 Hr0. cbv beta.
    destruct r0 as [ms| | |].
    - pose proof (Hr0 ltac:(discriminate)) as H1.
      destruct (next_longest sh (set_of ms)) as [|m l] eqn:En; apply good_ret; apply (evg_ret H1);
        intros F' E; unfold parse; rewrite E, En; reflexivity.
    - pose proof (Hr0 ltac:(discriminate)) as H1.
      apply good_ret. apply (evg_ret H1). intros F' E. unfold parse. rewrite E. reflexivity.
    - pose proof (Hr0 ltac:(discriminate)) as H1.
      apply good_ret. apply (evg_ret H1). intros F' E. unfold parse. rewrite E. reflexivity.
    - apply good_ret. apply evg_bad.
  Qed.

  Lemma parse_all_p_ev : ids_ok_G -> forall f r s,
    good (ev (fun F => parse_all sh G F r s)) (parse_all_p sh G f r s).
  Proof.
    intros HG f r s. unfold parse_all_p.
    eapply good_bind; [apply parse_p_ev; exact HG|]. intros r0 Hr0. cbv beta.
    destruct r0 as [[|m l]| | |].
    - pose proof (Hr0 ltac:(discriminate)) as H1.
      apply good_ret. apply (evg_ret H1). intros F' E. unfold parse_all. rewrite E. reflexivity.
    - pose proof (Hr0 ltac:(discriminate)) as H1.
      destruct (Nat.ltb (mend m) (length s)) eqn:El; apply good_ret; apply (evg_ret H1);
        intros F' E; unfold parse_all; rewrite E, El; reflexivity.
    - pose proof (Hr0 ltac:(discriminate)) as H1.
      apply good_ret. apply (evg_ret H1). intros F' E. unfold parse_all. rewrite E. reflexivity.
    - pose proof (Hr0 ltac:(discriminate)) as H1.
      apply good_ret. apply (evg_ret H1). intros F' E. unfold parse_all. rewrite E. reflexivity.
    - apply good_ret. apply evg_bad.
  Qed.

  Theorem parse_p_good : ids_ok_G -> forall f r s i,
    good (fun x => x <> OOF -> exists f', parse sh G f' r s i = x) (parse_p sh G f r s i).
  Proof.
    intros HG f r s i. eapply good_mono; [apply parse_p_ev; exact HG|].
    intros x Hx. exact (ev_exists _ x Hx).
  Qed.

  Theorem parse_all_p_good : ids_ok_G -> forall f r s,
    good (fun x => x <> OOF -> exists f', parse_all sh G f' r s = x) (parse_all_p sh G f r s).
  Proof.
    intros HG f r s. eapply good_mono; [apply parse_all_p_ev; exact HG|].
    intros x Hx. exact (ev_exists _ x Hx).
  Qed.

  (* ======================================================================================== *)
  (* 3. C08: a cached run = the pure engine                                                    *)
  (* ======================================================================================== *)
  (* the single invariant: every entry visible at epoch g is a correct memo *)
  Definition cache_inv (g : nat) (st : cstate) : Prop :=
    forall id k v, In (k, v) (live g (st id)) -> good_val id k v.

  (* ---- the model cache, entry-wise ---- *)
  Lemma lookup_In k v : forall E, clookup k E = Some v -> In (k, v) E.
  Proof.
    induction E as [|[k' v'] E IH]; cbn [lookup]; [discriminate|].
    destruct (ckey_eqb k k') eqn:Ek.
    - intros H. inversion H; subst. left.
      apply (proj1 (ckey_eqb_eq _ _)) in Ek. subst. reflexivity.
    - intros H. right. exact (IH H).
  Qed.

  Lemma In_lookup k v : forall E, NoDup (map fst E) -> In (k, v) E -> clookup k E = Some v.
  Proof.
    induction E as [|[k' v'] E IH]; cbn [lookup map fst]; intros Hnd Hin; [destruct Hin|].
    inversion Hnd as [|x xs Hn Hd]; subst.
    destruct Hin as [H|H].
    - inversion H; subst. rewrite (proj2 (ckey_eqb_eq k k) eq_refl). reflexivity.
    - destruct (ckey_eqb k k') eqn:Ek.
      + apply (proj1 (ckey_eqb_eq _ _)) in Ek. subst k'. exfalso. apply Hn.
        apply in_map_iff. exists (k, v). split; [reflexivity|exact H].
      + exact (IH Hd H).
  Qed.

  Lemma In_remove k x : forall E, In x (cremove k E) -> In x E.
  Proof.
    induction E as [|[k' v'] E IH]; cbn [remove]; [auto|].
    destruct (ckey_eqb k k'); cbn [In]; intros H.
    - right. exact H.
    - destruct H as [H|H]; [left; exact H|right; exact (IH H)].
  Qed.

  Lemma In_assign k v x : forall E, In x (cassign k v E) -> x = (k, v) \/ In x E.
  Proof.
    induction E as [|[k' v'] E IH]; cbn [assign].
    - intros [H|[]]. left. symmetry. exact H.
    - destruct (ckey_eqb k k') eqn:Ek; cbn [In].
      + intros [H|H]; [left|right; right; exact H].
        apply (proj1 (ckey_eqb_eq _ _)) in Ek. subst k'. symmetry. exact H.
      + intros [H|H]; [right; left; exact H|].
        destruct (IH H) as [H'|H']; [left; exact H'|right; right; exact H'].
  Qed.

  Lemma In_tl {A : Type} (x : A) l : In x (tl l) -> In x l.
  Proof. destruct l; cbn [tl In]; auto. Qed.

  Lemma drop_stale_cep g c : ccep (cdrop g c) = g.
  Proof.
    unfold drop_stale. destruct (Nat.eqb (ccep c) g) eqn:E; [apply Nat.eqb_eq; exact E|reflexivity].
  Qed.
  Lemma drop_stale_id g c : ccep c = g -> cdrop g c = c.
  Proof. intros H. unfold drop_stale. rewrite H, Nat.eqb_refl. reflexivity. Qed.
  Lemma drop_stale_stale g c : ccep c <> g -> live g c = [].
  Proof.
    intros H. unfold drop_stale. destruct (Nat.eqb (ccep c) g) eqn:E; [|reflexivity].
    apply Nat.eqb_eq in E. contradiction.
  Qed.

  (* a lookup answers a miss or an entry; it adds no entry; it brings the cache to epoch g *)
  Lemma cget_spec g k c o c' : cget ckey cval ckey_eqb g k c = (o, c') ->
    (o = None \/ exists v, o = Some v /\ In (k, v) (live g c)) /\
    (forall x, In x (live g c') -> In x (live g c)) /\ ccep c' = g.
  Proof.
    unfold cget. pose proof (drop_stale_cep g c) as Hc. remember (cdrop g c) as c1 eqn:E1. cbv zeta.
    destruct (clookup k (centries c1)) as [v|] eqn:El; intros H; inversion H; subst o c'; clear H.
    - split; [right; exists v; split; [reflexivity|apply lookup_In; exact El]|].
      split; [|exact Hc]. intros x. rewrite drop_stale_id by exact Hc. cbn [entries].
      intros Hx. apply in_app_or in Hx. destruct Hx as [Hx|[Hx|[]]].
      + exact (In_remove k x _ Hx).
      + subst x. apply lookup_In. exact El.
    - split; [left; reflexivity|]. split; [|exact Hc].
      intros x. rewrite drop_stale_id by exact Hc. cbn [entries]. auto.
  Qed.

  (* a store adds that binding only (and may evict others); it brings the cache to epoch g *)
  Lemma cset_spec g k v c :
    (forall x, In x (live g (cset ckey cval ckey_eqb g k v c)) -> x = (k, v) \/ In x (live g c)) /\
    ccep (cset ckey cval ckey_eqb g k v c) = g.
  Proof.
    unfold cset. pose proof (drop_stale_cep g c) as Hc. remember (cdrop g c) as c1 eqn:E1. cbv zeta.
    split; [|exact Hc]. intros x. rewrite drop_stale_id by exact Hc. cbn [entries].
    intros Hx. apply In_assign.
    destruct (limit_exceeded (maxsz ckey cval c1) (length (cassign k v (centries c1))));
      [apply In_tl; exact Hx|exact Hx].
  Qed.

  Lemma upd_same st id c : upd st id c id = c.
  Proof. unfold upd. rewrite N.eqb_refl. reflexivity. Qed.
  Lemma upd_other st id c id' : id' <> id -> upd st id c id' = st id'.
  Proof. intros H. unfold upd. destruct (N.eqb id' id) eqn:E; [|reflexivity]. apply N.eqb_eq in E. contradiction. Qed.

  Lemma cache_inv_upd g st id c : cache_inv g st ->
    (forall k v, In (k, v) (live g c) -> good_val id k v) -> cache_inv g (upd st id c).
  Proof.
    intros Hinv Hc id' k v. destruct (N.eq_dec id' id) as [->|Hne].
    - rewrite upd_same. apply Hc.
    - rewrite (upd_other st id c id' Hne). apply Hinv.
  Qed.

  (* the form with [lookup]: implied; equivalent when no key occurs twice *)
  Lemma cache_inv_lookup g st : cache_inv g st ->
    forall id k v, clookup k (live g (st id)) = Some v -> good_val id k v.
  Proof. intros Hinv id k v H. apply (Hinv id k v). apply lookup_In. exact H. Qed.
  Lemma cache_inv_of_lookup g st : (forall id, NoDup (map fst (live g (st id)))) ->
    (forall id k v, clookup k (live g (st id)) = Some v -> good_val id k v) -> cache_inv g st.
  Proof. intros Hnd H id k v Hin. apply (H id k v). apply In_lookup; [apply Hnd|exact Hin]. Qed.

  (* one cache primitive keeps the invariant and the goodness of the suspended request *)
  Lemma pstep_good {A : Type} (Q : A -> Prop) g st p p' st' :
    cache_inv g st -> good Q p -> pstep g st p = (p', st') -> cache_inv g st' /\ good Q p'.
  Proof.
    intros Hinv Hp. destruct Hp as [a Ha|id k c Hc|id k v c Hv Hc]; cbn [pstep].
    - intros H. inversion H; subst. split; [exact Hinv|apply good_ret; exact Ha].
    - destruct (cget ckey cval ckey_eqb g k (st id)) as [o c'] eqn:Eg.
      intros H. inversion H; subst p' st'; clear H.
      destruct (cget_spec g k (st id) o c' Eg) as [Ho [Hsub _]]. split.
      + apply cache_inv_upd; [exact Hinv|]. intros k0 v0 Hin. apply (Hinv id k0 v0). apply Hsub. exact Hin.
      + apply Hc. destruct Ho as [->|[v [-> Hin]]]; [left; reflexivity|].
        right. exists v. split; [reflexivity|]. exact (Hinv id k v Hin).
    - intros H. inversion H; subst p' st'; clear H.
      destruct (cset_spec g k v (st id)) as [Hsub _]. split; [|exact Hc].
      apply cache_inv_upd; [exact Hinv|]. intros k0 v0 Hin.
      destruct (Hsub _ Hin) as [E|Hin']; [inversion E; subst; exact Hv|exact (Hinv id k0 v0 Hin')].
  Qed.

  Lemma run_cached_good {A : Type} (Q : A -> Prop) g p : good Q p -> forall st r st',
    cache_inv g st -> run_cached g st p = (r, st') -> Q r /\ cache_inv g st'.
  Proof.
    intros Hp. induction Hp as [a Ha|id k c Hc IH|id k v c Hv Hc IH]; intros st r st' Hinv; cbn [run_cached].
    - intros H. inversion H; subst. split; assumption.
    - destruct (pstep g st (Lookup id k c)) as [p1 st1] eqn:Ep.
      destruct (pstep_good Q g st _ p1 st1 Hinv (good_lookup Q id k c Hc) Ep) as [Hinv1 _].
      cbn [pstep] in Ep. destruct (cget ckey cval ckey_eqb g k (st id)) as [o c'] eqn:Eg.
      inversion Ep; subst p1 st1; clear Ep.
      destruct (cget_spec g k (st id) o c' Eg) as [Ho _].
      apply IH; [|exact Hinv1].
      destruct Ho as [->|[v [-> Hin]]]; [left; reflexivity|].
      right. exists v. split; [reflexivity|exact (Hinv id k v Hin)].
    - apply IH.
      destruct (pstep_good Q g st (Store id k v c) _ _ Hinv (good_store Q id k v c Hv Hc) eq_refl)
        as [Hinv1 _]. exact Hinv1.
  Qed.

  Theorem run_cached_correct : forall e, ids_ok e -> forall g st f s i r st',
    cache_inv g st -> run_cached g st (lparse_p sh G f e s i) = (r, st') -> r <> OOF ->
    (exists f', lparse sh G f' e s i = r) /\ cache_inv g st'.
  Proof.
    intros e He g st f s i r st' Hinv Hrun Hne.
    destruct (run_cached_good _ g _ (lparse_p_good e He f s i) st r st' Hinv Hrun) as [HQ Hinv'].
    split; [exact (HQ Hne)|exact Hinv'].
  Qed.

  (* the invariant is kept even when the request runs out of fuel *)
  Theorem run_cached_inv : forall e, ids_ok e -> forall g st f s i r st',
    cache_inv g st -> run_cached g st (lparse_p sh G f e s i) = (r, st') -> cache_inv g st'.
  Proof.
    intros e He g st f s i r st' Hinv Hrun.
    exact (proj2 (run_cached_good _ g _ (lparse_p_good e He f s i) st r st' Hinv Hrun)).
  Qed.

  Theorem run_cached_parse_correct : ids_ok_G -> forall g st f r0 s i r st',
    cache_inv g st -> run_cached g st (parse_p sh G f r0 s i) = (r, st') -> r <> OOF ->
    (exists f', parse sh G f' r0 s i = r) /\ cache_inv g st'.
  Proof.
    intros HG g st f r0 s i r st' Hinv Hrun Hne.
    destruct (run_cached_good _ g _ (parse_p_good HG f r0 s i) st r st' Hinv Hrun) as [HQ Hinv'].
    split; [exact (HQ Hne)|exact Hinv'].
  Qed.

  Theorem run_cached_parse_all_correct : ids_ok_G -> forall g st f r0 s r st',
    cache_inv g st -> run_cached g st (parse_all_p sh G f r0 s) = (r, st') -> r <> OOF ->
    (exists f', parse_all sh G f' r0 s = r) /\ cache_inv g st'.
  Proof.
    intros HG g st f r0 s r st' Hinv Hrun Hne.
    destruct (run_cached_good _ g _ (parse_all_p_good HG f r0 s) st r st' Hinv Hrun) as [HQ Hinv'].
    split; [exact (HQ Hne)|exact Hinv'].
  Qed.

  (* fresh caches (any default, any limit, created at any epoch) *)
  Theorem cache_inv_empty : forall g (mk_cache : N -> option nat * option nat * nat),
    cache_inv g (fun id => let '(dflt, arg, g0) := mk_cache id in cnew ckey cval dflt arg g0).
  Proof.
    intros g mkc0 id k v. cbv beta. destruct (mkc0 id) as [[dflt arg] g0].
    unfold cnew, drop_stale. cbn [cep entries]. destruct (Nat.eqb g0 g); cbn [entries]; intros [].
  Qed.

  (* ParseCache.clear_caches *)
  Theorem cache_inv_clear : forall g st, cache_inv g st -> cache_inv g (fun id => cclear ckey cval (st id)).
  Proof.
    intros g st _ id k v. cbv beta. unfold cclear, drop_stale. cbn [cep entries].
    destruct (Nat.eqb (ccep (st id)) g); cbn [entries]; intros [].
  Qed.

  (* assignment to the limit of one cache *)
  Theorem cache_inv_setmax : forall g st id m,
    cache_inv g st -> cache_inv g (upd st id (csetmax ckey cval m (st id))).
  Proof.
    intros g st id m Hinv. apply cache_inv_upd; [exact Hinv|]. intros k v.
    unfold csetmax, drop_stale. cbn [cep entries]. intros Hin. apply (Hinv id k v).
    unfold drop_stale. destruct (Nat.eqb (ccep (st id)) g); cbn [entries] in *; exact Hin.
  Qed.
  (* ... and to the limit of every cache (the class default) *)
  Theorem cache_inv_setmax_all : forall g st m,
    cache_inv g st -> cache_inv g (fun id => csetmax ckey cval (m id) (st id)).
  Proof.
    intros g st m Hinv id k v. cbv beta.
    unfold csetmax, drop_stale. cbn [cep entries]. intros Hin. apply (Hinv id k v).
    unfold drop_stale. destruct (Nat.eqb (ccep (st id)) g); cbn [entries] in *; exact Hin.
  Qed.

  (* ---- histories: requests, clears, limit changes, in any order ---- *)
  Inductive hop :=
  | HReq (f : nat) (e : expr) (s : str) (i : nat)        (* node.lparse(s, i) *)
  | HParse (f : nat) (r : rid) (s : str) (i : nat)       (* rule.parse(s, i) *)
  | HParseAll (f : nat) (r : rid) (s : str)              (* rule.parse_all(s) *)
  | HClear                                               (* ParseCache.clear_caches() *)
  | HSetmax (id : N) (m : option nat).                   (* cache.max_size = m *)

  Definition hstep (g : nat) (st : cstate) (o : hop) : option res * cstate :=
    match o with
    | HReq f e s i => let (r, st') := run_cached g st (lparse_p sh G f e s i) in (Some r, st')
    | HParse f r0 s i => let (r, st') := run_cached g st (parse_p sh G f r0 s i) in (Some r, st')
    | HParseAll f r0 s => let (r, st') := run_cached g st (parse_all_p sh G f r0 s) in (Some r, st')
    | HClear => (None, fun id => cclear ckey cval (st id))
    | HSetmax id m => (None, upd st id (csetmax ckey cval m (st id)))
    end.
  Fixpoint hrun (g : nat) (st : cstate) (ops : list hop) : list (option res) * cstate :=
    match ops with
    | [] => ([], st)
    | o :: ops' =>
      let (a, st1) := hstep g st o in
      let (l, st2) := hrun g st1 ops' in (a :: l, st2)
    end.
  (* what the answer of an operation must be: the pure engine's answer, unless out of fuel *)
  Definition hspec (o : hop) (a : option res) : Prop :=
    match o, a with
    | HReq f e s i, Some r => r <> OOF -> exists f', lparse sh G f' e s i = r
    | HParse f r0 s i, Some r => r <> OOF -> exists f', parse sh G f' r0 s i = r
    | HParseAll f r0 s, Some r => r <> OOF -> exists f', parse_all sh G f' r0 s = r
    | HClear, None => True
    | HSetmax _ _, None => True
    | _, _ => False
    end.
  Definition hop_ok (o : hop) : Prop := match o with HReq _ e _ _ => ids_ok_e e | _ => True end.

  Lemma hstep_correct : ids_ok_G -> forall g st o a st', hop_ok o -> cache_inv g st ->
    hstep g st o = (a, st') -> hspec o a /\ cache_inv g st'.
  Proof.
    intros HG g st o a st' Hok Hinv. destruct o as [f e s i|f r0 s i|f r0 s| |id m]; cbn [hstep].
    - destruct (run_cached g st (lparse_p sh G f e s i)) as [r st1] eqn:Er.
      intros H. inversion H; subst a st'; clear H.
      exact (run_cached_good _ g _ (lparse_p_good e (conj HG Hok) f s i) st r st1 Hinv Er).
    - destruct (run_cached g st (parse_p sh G f r0 s i)) as [r st1] eqn:Er.
      intros H. inversion H; subst a st'; clear H.
      exact (run_cached_good _ g _ (parse_p_good HG f r0 s i) st r st1 Hinv Er).
    - destruct (run_cached g st (parse_all_p sh G f r0 s)) as [r st1] eqn:Er.
      intros H. inversion H; subst a st'; clear H.
      exact (run_cached_good _ g _ (parse_all_p_good HG f r0 s) st r st1 Hinv Er).
    - intros H. inversion H; subst a st'; clear H. split; [exact I|apply cache_inv_clear; exact Hinv].
    - intros H. inversion H; subst a st'; clear H. split; [exact I|apply cache_inv_setmax; exact Hinv].
  Qed.

  Theorem history_correct : ids_ok_G -> forall g ops st outs st',
    cache_inv g st -> Forall hop_ok ops -> hrun g st ops = (outs, st') ->
    Forall2 hspec ops outs /\ cache_inv g st'.
  Proof.
    intros HG g. induction ops as [|o ops IH]; intros st outs st' Hinv Hok; cbn [hrun].
    - intros H. inversion H; subst. split; [constructor|exact Hinv].
    - inversion Hok as [|x xs Ho Hops]; subst.
      destruct (hstep g st o) as [a st1] eqn:Es.
      destruct (hrun g st1 ops) as [l st2] eqn:Er.
      intros H. inversion H; subst outs st'; clear H.
      destruct (hstep_correct HG g st o a st1 Ho Hinv Es) as [Hsp Hinv1].
      destruct (IH st1 l st2 Hinv1 Hops Er) as [Hl Hinv2].
      split; [constructor; assumption|exact Hinv2].
  Qed.

  (* ======================================================================================== *)
  (* 4. the epoch discipline: no cache is ahead of the global epoch                            *)
  (* ======================================================================================== *)
  Definition ep_ok (g : nat) (st : cstate) : Prop := forall id, ccep (st id) <= g.

  Lemma ep_ok_upd g st id c : ep_ok g st -> ccep c <= g -> ep_ok g (upd st id c).
  Proof.
    intros H Hc id'. destruct (N.eq_dec id' id) as [->|Hne].
    - rewrite upd_same. exact Hc.
    - rewrite (upd_other st id c id' Hne). apply H.
  Qed.

  Lemma pstep_ep {A : Type} g st (p p' : prog A) st' :
    ep_ok g st -> pstep g st p = (p', st') -> ep_ok g st'.
  Proof.
    intros Hep. destruct p as [a|id k c|id k v c]; cbn [pstep].
    - intros H. inversion H; subst. exact Hep.
    - destruct (cget ckey cval ckey_eqb g k (st id)) as [o c'] eqn:Eg.
      intros H. inversion H; subst p' st'; clear H.
      destruct (cget_spec g k (st id) o c' Eg) as [_ [_ Hc]]. apply ep_ok_upd; [exact Hep|lia].
    - intros H. inversion H; subst p' st'; clear H.
      destruct (cset_spec g k v (st id)) as [_ Hc]. apply ep_ok_upd; [exact Hep|lia].
  Qed.

  Theorem run_cached_ep {A : Type} g (p : prog A) : forall st r st',
    ep_ok g st -> run_cached g st p = (r, st') -> ep_ok g st'.
  Proof.
    induction p as [a|id k c IH|id k v c IH]; intros st r st' Hep; cbn [run_cached].
    - intros H. inversion H; subst. exact Hep.
    - destruct (cget ckey cval ckey_eqb g k (st id)) as [o c'] eqn:Eg.
      apply IH. destruct (cget_spec g k (st id) o c' Eg) as [_ [_ Hc]]. apply ep_ok_upd; [exact Hep|lia].
    - apply IH. destruct (cset_spec g k v (st id)) as [_ Hc]. apply ep_ok_upd; [exact Hep|lia].
  Qed.
  Theorem ep_ok_clear g st : ep_ok g st -> ep_ok g (fun id => cclear ckey cval (st id)).
  Proof. intros H id. exact (H id). Qed.
  Theorem ep_ok_setmax g st id m : ep_ok g st -> ep_ok g (upd st id (csetmax ckey cval m (st id))).
  Proof. intros H. apply ep_ok_upd; [exact H|exact (H id)]. Qed.
  Theorem ep_ok_bump g st : ep_ok g st -> ep_ok (S g) st.
  Proof. intros H id. specialize (H id). lia. Qed.
  Theorem ep_ok_empty g (mk_cache : N -> option nat * option nat) :
    ep_ok g (fun id => let '(dflt, arg) := mk_cache id in cnew ckey cval dflt arg g).
  Proof. intros id. cbv beta. destruct (mk_cache id) as [dflt arg]. cbn [cnew cep]. lia. Qed.

  Lemma hstep_ep g st o a st' : ep_ok g st -> hstep g st o = (a, st') -> ep_ok g st'.
  Proof.
    intros Hep Es. destruct o as [f e s i|f r0 s i|f r0 s| |id m]; cbn [hstep] in Es.
    - destruct (run_cached g st (lparse_p sh G f e s i)) as [r st0] eqn:E0.
      inversion Es; subst. exact (run_cached_ep g _ st r st' Hep E0).
    - destruct (run_cached g st (parse_p sh G f r0 s i)) as [r st0] eqn:E0.
      inversion Es; subst. exact (run_cached_ep g _ st r st' Hep E0).
    - destruct (run_cached g st (parse_all_p sh G f r0 s)) as [r st0] eqn:E0.
      inversion Es; subst. exact (run_cached_ep g _ st r st' Hep E0).
    - inversion Es; subst. apply ep_ok_clear. exact Hep.
    - inversion Es; subst. apply ep_ok_setmax. exact Hep.
  Qed.

  Lemma hrun_ep g : forall ops st outs st', ep_ok g st -> hrun g st ops = (outs, st') -> ep_ok g st'.
  Proof.
    induction ops as [|o ops IH]; intros st outs st' Hep; cbn [hrun].
    - intros H. inversion H; subst. exact Hep.
    - destruct (hstep g st o) as [a st1] eqn:Es. destruct (hrun g st1 ops) as [l st2] eqn:Er.
      intros H. inversion H; subst outs st'; clear H. apply (IH st1 l st2); [|exact Er].
      exact (hstep_ep g st o a st1 Hep Es).
  Qed.

  (* ======================================================================================== *)
  (* 5. C17: any interleaving at the granularity of single cache operations                    *)
  (* ======================================================================================== *)
  Lemma Forall2_nth {A B : Type} (R : A -> B -> Prop) : forall l1 l2 n b,
    Forall2 R l1 l2 -> nth_error l2 n = Some b -> exists a, nth_error l1 n = Some a /\ R a b.
  Proof.
    intros l1 l2 n b H. revert n. induction H as [|x y l1 l2 Hxy H IH]; intros n Hn.
    - destruct n; discriminate.
    - destruct n as [|n]; cbn [nth_error] in *.
      + inversion Hn; subst. exists x. split; [reflexivity|exact Hxy].
      + exact (IH n Hn).
  Qed.

  Lemma Forall2_nth_upd {A B : Type} (R : A -> B -> Prop) : forall l1 l2 n a b,
    Forall2 R l1 l2 -> nth_error l1 n = Some a -> R a b -> Forall2 R l1 (nth_upd l2 n b).
  Proof.
    intros l1 l2 n a b H. revert n. induction H as [|x y l1 l2 Hxy H IH]; intros n Hn Hab.
    - destruct n; discriminate.
    - destruct n as [|n]; cbn [nth_error nth_upd] in *.
      + inversion Hn; subst. constructor; assumption.
      + constructor; [exact Hxy|exact (IH n Hn Hab)].
  Qed.

  Theorem sched_correct {A : Type} (Qs : list (A -> Prop)) : forall g sched st pool pool' st',
    cache_inv g st -> Forall2 (fun Q p => good Q p) Qs pool ->
    run_sched g st pool sched = (pool', st') ->
    cache_inv g st' /\ Forall2 (fun Q p => good Q p) Qs pool'.
  Proof.
    intros g. induction sched as [|t sched IH]; intros st pool pool' st' Hinv Hpool; cbn [run_sched].
    - intros H. inversion H; subst. split; assumption.
    - destruct (nth_error pool t) as [p|] eqn:En; [|apply IH; assumption].
      destruct (Forall2_nth _ Qs pool t p Hpool En) as [Q [EQ HQ]].
      destruct (pstep g st p) as [p1 st1] eqn:Ep.
      destruct (pstep_good Q g st p p1 st1 Hinv HQ Ep) as [Hinv1 HQ1].
      apply IH; [exact Hinv1|]. exact (Forall2_nth_upd _ Qs pool t Q p1 Hpool EQ HQ1).
  Qed.

  (* hence a request that has completed has its post-condition *)
  Corollary sched_completed {A : Type} (Qs : list (A -> Prop)) : forall g sched st pool pool' st' t Q r,
    cache_inv g st -> Forall2 (fun Q p => good Q p) Qs pool ->
    run_sched g st pool sched = (pool', st') ->
    nth_error Qs t = Some Q -> nth_error pool' t = Some (Ret r) -> Q r.
  Proof.
    intros g sched st pool pool' st' t Q r Hinv Hpool Hrun HQ Hr.
    destruct (sched_correct Qs g sched st pool pool' st' Hinv Hpool Hrun) as [_ Hpool'].
    destruct (Forall2_nth _ Qs pool' t (Ret r) Hpool' Hr) as [Q' [EQ' Hg]].
    rewrite HQ in EQ'. inversion EQ'; subst Q'. inversion Hg; subst. assumption.
  Qed.

  (* the pool of lparse requests: every completed request has its sequential (pure) result *)
  Definition req := (nat * expr * str * nat)%type.
  Definition req_prog (q : req) : prog res := let '(f, e, s, i) := q in lparse_p sh G f e s i.
  Definition req_post (q : req) : res -> Prop :=
    let '(f, e, s, i) := q in fun r => r <> OOF -> exists f', lparse sh G f' e s i = r.
  Definition req_ok (q : req) : Prop := let '(f, e, s, i) := q in ids_ok_e e.

  Lemma req_pool_good : ids_ok_G -> forall reqs, Forall req_ok reqs ->
    Forall2 (fun Q p => good Q p) (map req_post reqs) (map req_prog reqs).
  Proof.
    intros HG. induction reqs as [|q reqs IH]; intros H; cbn [map]; [constructor|].
    inversion H as [|x xs Hq Hreqs]; subst. constructor; [|exact (IH Hreqs)].
    destruct q as [[[f e] s] i]. exact (lparse_p_good e (conj HG Hq) f s i).
  Qed.

  Theorem sched_requests : ids_ok_G -> forall g sched st reqs pool' st',
    cache_inv g st -> Forall req_ok reqs ->
    run_sched g st (map req_prog reqs) sched = (pool', st') ->
    cache_inv g st' /\
    forall t f e s i r, nth_error reqs t = Some (f, e, s, i) -> nth_error pool' t = Some (Ret r) ->
      r <> OOF -> exists f', lparse sh G f' e s i = r.
  Proof.
    intros HG g sched st reqs pool' st' Hinv Hreqs Hrun.
    pose proof (req_pool_good HG reqs Hreqs) as Hpool. split.
    - exact (proj1 (sched_correct _ g sched st _ pool' st' Hinv Hpool Hrun)).
    - intros t f e s i r Hq Hr.
      assert (HQ : nth_error (map req_post reqs) t = Some (req_post (f, e, s, i))).
      { rewrite nth_error_map, Hq. reflexivity. }
      exact (sched_completed _ g sched st _ pool' st' t _ r Hinv Hpool Hrun HQ Hr).
  Qed.
End Refine.

(* ========================================================================================== *)
(* 4'. C13: after an invalidation the invariant holds for ANY grammar (and oracle, and id table),
       whatever the caches contained: every cache is at an epoch <= g, so at epoch S g every entry is
       stale and [drop_stale] makes the cache empty                                            *)
(* ========================================================================================== *)
Theorem cache_inv_after_invalidate : forall g st, (forall id, ccep (st id) <= g) ->
  forall sh' G' rep_of', cache_inv sh' G' rep_of' (S g) st.
Proof.
  intros g st Hep sh' G' rep_of' id k v. rewrite drop_stale_stale; [intros []|].
  specialize (Hep id). lia.
Qed.

(* stale caches behave as empty: a cached run at the new epoch is step for step the run on empty
   caches as far as the results are concerned; in particular (with the theorem above and
   run_cached_correct) it returns the pure answer of the NEW grammar *)
Corollary run_cached_after_invalidate : forall sh G' rep_of' g st e f s i r st',
  (forall id, ccep (st id) <= g) -> ids_ok G' rep_of' e ->
  run_cached (S g) st (lparse_p sh G' f e s i) = (r, st') -> r <> OOF ->
  (exists f', lparse sh G' f' e s i = r) /\ cache_inv sh G' rep_of' (S g) st' /\
  (forall id, ccep (st' id) <= S g).
Proof.
  intros sh G' rep_of' g st e f s i r st' Hep He Hrun Hne.
  destruct (run_cached_correct sh G' rep_of' e He (S g) st f s i r st'
              (cache_inv_after_invalidate g st Hep sh G' rep_of') Hrun Hne) as [H1 H2].
  split; [exact H1|]. split; [exact H2|].
  refine (run_cached_ep (S g) _ st r st' _ Hrun). apply ep_ok_bump. exact Hep.
Qed.

(* ---- histories with grammar changes: requests, clears, limit changes AND invalidations ---- *)
Record world := mkw {
  w_g : nat;                                            (* the global epoch *)
  w_G : grammar;                                        (* the current grammar *)
  w_rep : N -> option (nat * option nat * expr);        (* its repetition table *)
  w_st : cstate }.
Inductive gop :=
| GOp (o : hop)
| GInval (G' : grammar) (rep_of' : N -> option (nat * option nat * expr)).  (* mutate the grammar; epoch += 1 *)

Section Worlds.
  Variable sh : list mtch -> list mtch.

  Definition gstep (w : world) (o : gop) : option res * world :=
    match o with
    | GOp o => let (a, st') := hstep sh (w_G w) (w_g w) (w_st w) o in
               (a, mkw (w_g w) (w_G w) (w_rep w) st')
    | GInval G' rep' => (None, mkw (S (w_g w)) G' rep' (w_st w))
    end.
  Fixpoint grun (w : world) (ops : list gop) : list (option res) * world :=
    match ops with
    | [] => ([], w)
    | o :: ops' =>
      let (a, w1) := gstep w o in
      let (l, w2) := grun w1 ops' in (a :: l, w2)
    end.
  (* the answer of an operation is the pure engine's answer under the grammar current at that time *)
  Definition gspec (w : world) (o : gop) (a : option res) : Prop :=
    match o with GOp o => hspec sh (w_G w) o a | GInval _ _ => a = None end.
  Definition gop_ok (w : world) (o : gop) : Prop :=
    match o with GOp o => hop_ok (w_rep w) o | GInval G' rep' => ids_ok_G G' rep' end.
  Fixpoint gtrace (P : world -> gop -> option res -> Prop) (w : world) (ops : list gop)
           (outs : list (option res)) : Prop :=
    match ops, outs with
    | [], [] => True
    | o :: ops', a :: outs' => P w o a /\ gtrace P (snd (gstep w o)) ops' outs'
    | _, _ => False
    end.
  Fixpoint gops_ok (w : world) (ops : list gop) : Prop :=
    match ops with
    | [] => True
    | o :: ops' => gop_ok w o /\ gops_ok (snd (gstep w o)) ops'
    end.
  Definition winv (w : world) : Prop :=
    ids_ok_G (w_G w) (w_rep w) /\ cache_inv sh (w_G w) (w_rep w) (w_g w) (w_st w) /\ ep_ok (w_g w) (w_st w).

  Lemma gstep_correct w o a w' : winv w -> gop_ok w o -> gstep w o = (a, w') -> gspec w o a /\ winv w'.
  Proof.
    intros [HG [Hinv Hep]] Hok. destruct o as [o|G' rep']; cbn [gstep gspec gop_ok] in *.
    - destruct (hstep sh (w_G w) (w_g w) (w_st w) o) as [a0 st'] eqn:Es.
      intros H. inversion H; subst a w'; clear H.
      destruct (hstep_correct sh (w_G w) (w_rep w) HG (w_g w) (w_st w) o a0 st' Hok Hinv Es) as [H1 H2].
      split; [exact H1|]. split; [exact HG|]. split; [exact H2|].
      exact (hstep_ep sh (w_G w) (w_g w) (w_st w) o a0 st' Hep Es).
    - intros H. inversion H; subst a w'; clear H. split; [reflexivity|].
      split; [exact Hok|]. cbn [w_G w_rep w_g w_st]. split.
      + apply cache_inv_after_invalidate. exact Hep.
      + apply ep_ok_bump. exact Hep.
  Qed.

  Theorem history_inval_correct : forall ops w outs w',
    winv w -> gops_ok w ops -> grun w ops = (outs, w') -> gtrace gspec w ops outs /\ winv w'.
  Proof.
    induction ops as [|o ops IH]; intros w outs w' Hw Hok; cbn [grun].
    - intros H. inversion H; subst. split; [exact I|exact Hw].
    - destruct Hok as [Ho Hops].
      destruct (gstep w o) as [a w1] eqn:Es. destruct (grun w1 ops) as [l w2] eqn:Er.
      intros H. inversion H; subst outs w'; clear H.
      destruct (gstep_correct w o a w1 Hw Ho Es) as [Hsp Hw1]. cbn [snd] in Hops.
      destruct (IH w1 l w2 Hw1 Hops Er) as [Hl Hw2].
      split; [|exact Hw2]. cbn [gtrace]. rewrite Es. cbn [snd]. split; assumption.
  Qed.
End Worlds.

(* why [cache_inv] is stated over entries and not over [lookup]: with the same key twice in the entry
   list (impossible in an OrderedDict) a hit uncovers the second binding *)
Example lookup_form_not_preserved :
  let k : ckey := ([], 0) in
  let c := mkc ckey cval [(k, CErr); (k, CSet [])] None 0 0 0 in
  clookup k (live 0 c) = Some CErr /\
  clookup k (live 0 (snd (cget ckey cval ckey_eqb 0 k c))) = Some (CSet []).
Proof. vm_compute. split; reflexivity. Qed.

(* ========================================================================================== *)
(* 3'. the LOOKUP form of the invariant (the form in which C08 was first stated)               *)
(* ========================================================================================== *)
Definition cache_inv_lk (sh : list mtch -> list mtch) (G : grammar)
           (rep_of : N -> option (nat * option nat * expr)) (g : nat) (st : cstate) : Prop :=
  forall id k v, clookup k (live g (st id)) = Some v -> good_val sh G rep_of id k v.
(* no key twice among the visible entries (always true of an OrderedDict) *)
Definition nodup_keys (g : nat) (st : cstate) : Prop := forall id, NoDup (map fst (live g (st id))).

Lemma remove_keys_sub k x : forall E, In x (map fst (cremove k E)) -> In x (map fst E).
Proof.
  induction E as [|[k' v'] E IH]; cbn [remove map fst]; [auto|].
  destruct (ckey_eqb k k'); cbn [map fst In]; intros H.
  - right. exact H.
  - destruct H as [H|H]; [left; exact H|right; exact (IH H)].
Qed.

Lemma remove_keys_nodup k : forall E, NoDup (map fst E) ->
  NoDup (map fst (cremove k E)) /\ ~ In k (map fst (cremove k E)).
Proof.
  induction E as [|[k' v'] E IH]; cbn [remove map fst]; intros Hnd.
  - split; [constructor|intros []].
  - inversion Hnd as [|x xs Hn Hd]; subst. destruct (ckey_eqb k k') eqn:Ek.
    + apply (proj1 (ckey_eqb_eq _ _)) in Ek. subst k'. split; assumption.
    + destruct (IH Hd) as [H1 H2]. cbn [map fst]. split.
      * constructor; [|exact H1]. intros H. apply Hn. exact (remove_keys_sub k k' E H).
      * intros [H|H]; [|exact (H2 H)]. subst k'.
        rewrite (proj2 (ckey_eqb_eq k k) eq_refl) in Ek. discriminate.
Qed.

Lemma nodup_snoc {A : Type} (x : A) : forall l, NoDup l -> ~ In x l -> NoDup (l ++ [x]).
Proof.
  induction l as [|a l IH]; cbn [app]; intros Hnd Hx.
  - constructor; [intros []|constructor].
  - inversion Hnd as [|y ys Hn Hd]; subst. constructor.
    + intros H. apply in_app_or in H. destruct H as [H|[H|[]]]; [exact (Hn H)|].
      subst. apply Hx. left. reflexivity.
    + apply IH; [exact Hd|]. intros H. apply Hx. right. exact H.
Qed.

Lemma cget_nodup g k c o c' : cget ckey cval ckey_eqb g k c = (o, c') ->
  NoDup (map fst (live g c)) -> NoDup (map fst (live g c')).
Proof.
  unfold cget. pose proof (drop_stale_cep g c) as Hc. remember (cdrop g c) as c1 eqn:E1. cbv zeta.
  destruct (clookup k (centries c1)) as [v|] eqn:El; intros H Hnd; inversion H; subst o c'; clear H;
    rewrite drop_stale_id by exact Hc; cbn [entries]; [|exact Hnd].
  destruct (remove_keys_nodup k _ Hnd) as [H1 H2].
  rewrite map_app. cbn [map fst]. apply nodup_snoc; assumption.
Qed.

Lemma cset_nodup g k v c :
  NoDup (map fst (live g c)) -> NoDup (map fst (live g (cset ckey cval ckey_eqb g k v c))).
Proof.
  unfold cset. pose proof (drop_stale_cep g c) as Hc. remember (cdrop g c) as c1 eqn:E1. cbv zeta.
  intros Hnd. rewrite drop_stale_id by exact Hc. cbn [entries].
  pose proof (CacheProps.assign_keys_nodup ckey cval ckey_eqb ckey_eqb_eq k v _ Hnd) as Ha.
  destruct (limit_exceeded (maxsz ckey cval c1) (length (cassign k v (centries c1)))); [|exact Ha].
  destruct (cassign k v (centries c1)) as [|a l]; cbn [tl map] in *; [constructor|].
  inversion Ha; assumption.
Qed.

Lemma nodup_keys_upd g st id c : nodup_keys g st -> NoDup (map fst (live g c)) ->
  nodup_keys g (upd st id c).
Proof.
  intros H Hc id'. destruct (N.eq_dec id' id) as [->|Hne].
  - rewrite upd_same. exact Hc.
  - rewrite (upd_other st id c id' Hne). apply H.
Qed.

Lemma run_cached_nodup {A : Type} g (p : prog A) : forall st r st',
  nodup_keys g st -> run_cached g st p = (r, st') -> nodup_keys g st'.
Proof.
  induction p as [a|id k c IH|id k v c IH]; intros st r st' Hnd; cbn [run_cached].
  - intros H. inversion H; subst. exact Hnd.
  - destruct (cget ckey cval ckey_eqb g k (st id)) as [o c'] eqn:Eg.
    apply IH. apply nodup_keys_upd; [exact Hnd|]. exact (cget_nodup g k (st id) o c' Eg (Hnd id)).
  - apply IH. apply nodup_keys_upd; [exact Hnd|]. apply cset_nodup. exact (Hnd id).
Qed.

Lemma nodup_keys_empty g (mk_cache : N -> option nat * option nat * nat) :
  nodup_keys g (fun id => let '(dflt, arg, g0) := mk_cache id in cnew ckey cval dflt arg g0).
Proof.
  intros id. cbv beta. destruct (mk_cache id) as [[dflt arg] g0].
  unfold cnew, drop_stale. cbn [cep entries]. destruct (Nat.eqb g0 g); cbn [entries map]; constructor.
Qed.

(* C08 in the lookup form: TRUE for duplicate-free caches (and these stay duplicate-free) ... *)
Theorem run_cached_correct_partial : forall sh G rep_of e, ids_ok G rep_of e -> forall g st f s i r st',
  nodup_keys g st -> cache_inv_lk sh G rep_of g st ->
  run_cached g st (lparse_p sh G f e s i) = (r, st') -> r <> OOF ->
  (exists f', lparse sh G f' e s i = r) /\ cache_inv_lk sh G rep_of g st' /\ nodup_keys g st'.
Proof.
  intros sh G rep_of e He g st f s i r st' Hnd Hlk Hrun Hne.
  destruct (run_cached_correct sh G rep_of e He g st f s i r st'
              (cache_inv_of_lookup sh G rep_of g st Hnd Hlk) Hrun Hne) as [H1 H2].
  split; [exact H1|]. split.
  - exact (cache_inv_lookup sh G rep_of g st' H2).
  - exact (run_cached_nodup g _ st r st' Hnd Hrun).
Qed.

(* ... and FALSE without that side condition.  Counterexample: the empty grammar, the expression
   ALT[ REP 'a' , REP 'a' ] whose two repetitions are the same repetition (cache 0), source 'a', and a cache 0 whose
   entry list holds the key ('a', 0) TWICE: first with the correct memo, then with the wrong memo
   CSet [].  Every LOOKUP returns the correct memo, so the lookup form of the invariant holds; but the
   first hit moves the first binding to the end, the second repetition then hits the wrong one, and the
   request returns 2 matches where the pure engine returns 4. *)
Definition cx_rep : expr := ERep 0%N 0 None (ELit true [97%N]).
Definition cx_e : expr := EAlt false [cx_rep; cx_rep].
Definition cx_G : grammar := fun _ => None.
Definition cx_rep_of (id : N) : option (nat * option nat * expr) :=
  if N.eqb id 0 then Some (0, None, ELit true [97%N]) else None.
Definition cx_key : ckey := ([97%N], 0).
Definition cx_good : cval :=
  match rep_raw sh_id (lparse sh_id cx_G 5) 5 0 None (ELit true [97%N]) [97%N] 0 with
  | RSet ms => CSet ms | RFail _ => CErr end.
Definition cx_st : cstate := fun _ => mkc ckey cval [(cx_key, cx_good); (cx_key, CSet [])] None 0 0 0.

Theorem run_cached_correct_lookup_form_false :
  ids_ok cx_G cx_rep_of cx_e /\ cache_inv_lk sh_id cx_G cx_rep_of 0 cx_st /\
  exists r st', run_cached 0 cx_st (lparse_p sh_id cx_G 5 cx_e [97%N] 0) = (r, st') /\ r <> OOF /\
                forall f', lparse sh_id cx_G f' cx_e [97%N] 0 <> r.
Proof.
  split; [|split].
  - split; [intros r ru d H; discriminate H|]. cbn. auto.
  - intros id k v Hl mn mx e Hid. unfold cx_rep_of in Hid.
    destruct (N.eqb id 0); [|discriminate]. inversion Hid; subst mn mx e. exists 5.
    cbn [cx_st drop_stale cep entries Nat.eqb lookup] in Hl.
    destruct (ckey_eqb k cx_key) eqn:Ek; [|discriminate].
    apply (proj1 (ckey_eqb_eq _ _)) in Ek. inversion Hl; subst k v. vm_compute. reflexivity.
  - destruct (run_cached 0 cx_st (lparse_p sh_id cx_G 5 cx_e [97%N] 0)) as [r st'] eqn:Er.
    exists r, st'. split; [reflexivity|].
    assert (Hr : r = fst (run_cached 0 cx_st (lparse_p sh_id cx_G 5 cx_e [97%N] 0))) by (rewrite Er; reflexivity).
    clear Er. vm_compute in Hr. subst r. split; [discriminate|].
    intros f' H.
    assert (H5 : lparse sh_id cx_G 5 cx_e [97%N] 0 <> OOF) by (vm_compute; discriminate).
    destruct (Nat.le_ge_cases f' 5) as [Hle|Hle].
    + pose proof (EngineComplete.lparse_mono sh_id cx_G f' 5 cx_e [97%N] 0 _ H ltac:(discriminate) Hle) as H'.
      vm_compute in H'. discriminate H'.
    + pose proof (EngineComplete.lparse_mono sh_id cx_G 5 f' cx_e [97%N] 0 _ eq_refl H5 Hle) as H'.
      rewrite H in H'. vm_compute in H'. discriminate H'.
Qed.

(* ========================================================================================== *)
(* 4''. stale caches behave as empty, literally: runs from two states with the same visible entries
        and limits give the same results (the hit/miss counters and the hidden stale entries do not
        matter)                                                                                 *)
(* ========================================================================================== *)
Definition vis_eq (g : nat) (st1 st2 : cstate) : Prop :=
  forall id, live g (st1 id) = live g (st2 id) /\ maxsz ckey cval (st1 id) = maxsz ckey cval (st2 id).

Lemma drop_stale_maxsz g c : maxsz ckey cval (cdrop g c) = maxsz ckey cval c.
Proof. unfold drop_stale. destruct (Nat.eqb (ccep c) g); reflexivity. Qed.

Lemma live_mk_g g e m h mi : live g (mkc ckey cval e m h mi g) = e.
Proof. rewrite drop_stale_id by reflexivity. reflexivity. Qed.

Lemma vis_eq_upd g st1 st2 id c1 c2 : vis_eq g st1 st2 ->
  live g c1 = live g c2 -> maxsz ckey cval c1 = maxsz ckey cval c2 -> vis_eq g (upd st1 id c1) (upd st2 id c2).
Proof.
  intros H H1 H2 id'. destruct (N.eq_dec id' id) as [->|Hne].
  - rewrite !upd_same. split; assumption.
  - rewrite (upd_other st1 id c1 id' Hne), (upd_other st2 id c2 id' Hne). apply H.
Qed.

Lemma cget_vis g k c1 c2 : live g c1 = live g c2 -> maxsz ckey cval c1 = maxsz ckey cval c2 ->
  fst (cget ckey cval ckey_eqb g k c1) = fst (cget ckey cval ckey_eqb g k c2) /\
  live g (snd (cget ckey cval ckey_eqb g k c1)) = live g (snd (cget ckey cval ckey_eqb g k c2)) /\
  maxsz ckey cval (snd (cget ckey cval ckey_eqb g k c1)) = maxsz ckey cval (snd (cget ckey cval ckey_eqb g k c2)).
Proof.
  intros He Hm. unfold cget. cbv zeta. rewrite <- He.
  pose proof (drop_stale_cep g c1) as Hc1. pose proof (drop_stale_cep g c2) as Hc2.
  pose proof (drop_stale_maxsz g c1) as Hm1. pose proof (drop_stale_maxsz g c2) as Hm2.
  destruct (clookup k (live g c1)) as [v|]; cbn [fst snd];
    (split; [reflexivity|]); rewrite Hc1, Hc2, !live_mk_g; cbn [maxsz];
    (split; [reflexivity|congruence]).
Qed.

Lemma cset_vis g k v c1 c2 : live g c1 = live g c2 -> maxsz ckey cval c1 = maxsz ckey cval c2 ->
  live g (cset ckey cval ckey_eqb g k v c1) = live g (cset ckey cval ckey_eqb g k v c2) /\
  maxsz ckey cval (cset ckey cval ckey_eqb g k v c1) = maxsz ckey cval (cset ckey cval ckey_eqb g k v c2).
Proof.
  intros He Hm. unfold cset. cbv zeta. rewrite <- He.
  pose proof (drop_stale_cep g c1) as Hc1. pose proof (drop_stale_cep g c2) as Hc2.
  pose proof (drop_stale_maxsz g c1) as Hm1. pose proof (drop_stale_maxsz g c2) as Hm2.
  rewrite Hc1, Hc2, !live_mk_g. cbn [maxsz].
  rewrite Hm1, Hm2, Hm. split; reflexivity.
Qed.

Theorem run_cached_vis_eq {A : Type} g (p : prog A) : forall st1 st2, vis_eq g st1 st2 ->
  fst (run_cached g st1 p) = fst (run_cached g st2 p) /\
  vis_eq g (snd (run_cached g st1 p)) (snd (run_cached g st2 p)).
Proof.
  induction p as [a|id k c IH|id k v c IH]; intros st1 st2 Hv; cbn [run_cached].
  - split; [reflexivity|exact Hv].
  - destruct (Hv id) as [He Hm]. destruct (cget_vis g k (st1 id) (st2 id) He Hm) as [H1 [H2 H3]].
    destruct (cget ckey cval ckey_eqb g k (st1 id)) as [o1 c1].
    destruct (cget ckey cval ckey_eqb g k (st2 id)) as [o2 c2]. cbn [fst snd] in *. subst o2.
    apply IH. apply vis_eq_upd; assumption.
  - destruct (Hv id) as [He Hm]. destruct (cset_vis g k v (st1 id) (st2 id) He Hm) as [H2 H3].
    apply IH. apply vis_eq_upd; assumption.
Qed.

(* after an invalidation every cache is indistinguishable from a fresh one with the same limit *)
Theorem stale_as_empty : forall g st, (forall id, ccep (st id) <= g) ->
  vis_eq (S g) st (fun id => cnew ckey cval (maxsz ckey cval (st id)) None (S g)).
Proof.
  intros g st Hep id. cbv beta. split; [|reflexivity].
  rewrite drop_stale_stale by (specialize (Hep id); lia).
  rewrite drop_stale_id by reflexivity. reflexivity.
Qed.

Corollary run_cached_stale_as_empty {A : Type} : forall g st (p : prog A), (forall id, ccep (st id) <= g) ->
  fst (run_cached (S g) st p)
  = fst (run_cached (S g) (fun id => cnew ckey cval (maxsz ckey cval (st id)) None (S g)) p).
Proof.
  intros g st p Hep. exact (proj1 (run_cached_vis_eq (S g) p _ _ (stale_as_empty g st Hep))).
Qed.

(* ========================================================================================== *)
(* 6. non-vacuity: a concrete grammar, limit 1 on every cache                                  *)
(*      s = *x        (cache 0)                                                                *)
(*      x = "a" / 2"a" (cache 1)                                                               *)
(* ========================================================================================== *)
Definition ex_s : rule :=
  {| rname := [115%N]; rdef := Some (ERep 0%N 0 None (ERef 1%N)); rexcl := None |}.
Definition ex_x : rule :=
  {| rname := [120%N];
     rdef := Some (EAlt false [ELit true [97%N]; ERep 1%N 2 (Some 2) (ELit true [97%N])]);
     rexcl := None |}.
Definition ex_G : grammar := of_list [(0%N, ex_s); (1%N, ex_x)].
Definition ex_rep_of (id : N) : option (nat * option nat * expr) :=
  if N.eqb id 0 then Some (0, None, ERef 1%N)
  else if N.eqb id 1 then Some (2, Some 2, ELit true [97%N]) else None.
Definition ex_st0 : cstate := fun _ => cnew ckey cval None (Some 1) 0.   (* every cache: max_size 1 *)
Definition ex_src : str := [97%N; 97%N; 97%N].
Definition ex_p : prog res := lparse_p sh_id ex_G 20 (ERef 0%N) ex_src 0.

Example ex_ids_ok : ids_ok ex_G ex_rep_of (ERef 0%N).
Proof.
  split; [|exact I]. intros r ru d HG Hd. apply Checks.of_list_In in HG.
  destruct HG as [H|[H|[]]]; inversion H; subst; cbn in Hd; inversion Hd; subst; cbn; auto.
Qed.

(* the theorem applies to this run (its hypotheses are satisfiable) *)
Example ex_applies : forall r st', run_cached 0 ex_st0 ex_p = (r, st') -> r <> OOF ->
  (exists f', lparse sh_id ex_G f' (ERef 0%N) ex_src 0 = r) /\ cache_inv sh_id ex_G ex_rep_of 0 st'.
Proof.
  intros r st'.
  apply (run_cached_correct sh_id ex_G ex_rep_of (ERef 0%N) ex_ids_ok 0 ex_st0 20 ex_src 0 r st').
  exact (cache_inv_empty sh_id ex_G ex_rep_of 0 (fun _ => (None, Some 1, 0))).
Qed.

(* first run: all misses; key ("aaa", 2) of cache 1 is computed, EVICTED (limit 1), missed and computed
   again; second run of the same request: one hit on cache 0; both return the pure engine's answer *)
Example ex_twice :
  let '(r1, st1, tr1) := run_traced 0 ex_st0 ex_p [] in
  let '(r2, st2, tr2) := run_traced 0 st1 ex_p [] in
  r1 = lparse sh_id ex_G 20 (ERef 0%N) ex_src 0 /\ r2 = r1 /\
  map mend (match r1 with Ok ms => ms | _ => [] end) = [3; 2; 1; 0] /\
  tr1 = [EMiss 0 (ex_src, 0); EMiss 1 (ex_src, 0); ESet 1 (ex_src, 0) false;
         EMiss 1 (ex_src, 2); ESet 1 (ex_src, 2) true; EMiss 1 (ex_src, 1); ESet 1 (ex_src, 1) false;
         EMiss 1 (ex_src, 3); ESet 1 (ex_src, 3) true; EMiss 1 (ex_src, 2); ESet 1 (ex_src, 2) true;
         ESet 0 (ex_src, 0) false] /\
  tr2 = [EHit 0 (ex_src, 0)] /\
  length (centries (st2 0%N)) = 1 /\ length (centries (st2 1%N)) = 1.
Proof. vm_compute. repeat split; reflexivity. Qed.

Example ex_twice_cached :
  let '(r1, st1) := run_cached 0 ex_st0 ex_p in
  let '(r2, _) := run_cached 0 st1 ex_p in
  r1 = lparse sh_id ex_G 20 (ERef 0%N) ex_src 0 /\ r2 = lparse sh_id ex_G 20 (ERef 0%N) ex_src 0.
Proof. vm_compute. split; reflexivity. Qed.

(* two copies of the request interleaved one cache operation at a time: both complete with the pure answer *)
Example ex_sched :
  let '(pool', _) := run_sched 0 ex_st0 [ex_p; ex_p] (flat_map (fun _ => [0; 1]) (seq 0 20)) in
  pool' = [Ret (lparse sh_id ex_G 20 (ERef 0%N) ex_src 0); Ret (lparse sh_id ex_G 20 (ERef 0%N) ex_src 0)].
Proof. vm_compute. reflexivity. Qed.

(* grammar change x = "a" only, epoch bump: the old entries are invisible, the answer is the new grammar's *)
Definition ex_x2 : rule := {| rname := [120%N]; rdef := Some (ELit true [97%N]); rexcl := None |}.
Definition ex_G2 : grammar := of_list [(0%N, ex_s); (1%N, ex_x2)].
Example ex_invalidate :
  let '(r1, st1) := run_cached 0 ex_st0 ex_p in
  let '(r2, _, tr2) := run_traced 1 st1 (lparse_p sh_id ex_G2 20 (ERef 0%N) ex_src 0) [] in
  r2 = lparse sh_id ex_G2 20 (ERef 0%N) ex_src 0 /\ r2 <> r1 /\ hd_error tr2 = Some (EMiss 0 (ex_src, 0)).
Proof. vm_compute. repeat split; try reflexivity. intros H. discriminate H. Qed.

Print Assumptions run_pure_lparse.
Print Assumptions run_pure_parse.
Print Assumptions run_pure_parse_all.
Print Assumptions lparse_p_good.
Print Assumptions parse_p_good.
Print Assumptions parse_all_p_good.
Print Assumptions run_cached_correct.
Print Assumptions run_cached_parse_correct.
Print Assumptions run_cached_parse_all_correct.
Print Assumptions cache_inv_empty.
Print Assumptions cache_inv_clear.
Print Assumptions cache_inv_setmax.
Print Assumptions history_correct.
Print Assumptions cache_inv_after_invalidate.
Print Assumptions run_cached_after_invalidate.
Print Assumptions run_cached_ep.
Print Assumptions ep_ok_clear.
Print Assumptions ep_ok_setmax.
Print Assumptions history_inval_correct.
Print Assumptions sched_correct.
Print Assumptions sched_completed.
Print Assumptions sched_requests.
Print Assumptions run_cached_correct_partial.
Print Assumptions run_cached_correct_lookup_form_false.
Print Assumptions run_cached_vis_eq.
Print Assumptions stale_as_empty.
Print Assumptions run_cached_stale_as_empty.
Print Assumptions cache_inv_lookup.
Print Assumptions cache_inv_of_lookup.
Print Assumptions ex_twice.
Print Assumptions ex_sched.
