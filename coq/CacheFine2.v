(* CacheFine2.v — [CacheFine.v with a second switch, guarded_pop, for the repaired __setitem__]
    ParseCache at the granularity of SINGLE SHARED-MEMORY ACCESSES (C17, fine model).
   Cache.v models every ParseCache method as one atomic function.  Here a method is a sequence of
   micro-steps, each containing exactly one access to shared mutable state (an attribute of the
   ParseCache object, or one C-level operation on one OrderedDict object), so that a thread can be
   pre-empted between any two of them.  MODEL ONLY: no proofs here.

   src/abnf/parser.py                                            micro-steps (type [pc])
     def _drop_stale(self):
       if self.dict_epoch != ParseCache.epoch:                   D1  read self.dict_epoch, compare
         self.dict = OrderedDict()                               D2  write self.dict := a NEW empty object
         self.dict_epoch = ParseCache.epoch                      D3  write self.dict_epoch := epoch
     def __getitem__(self, key):
       self._drop_stale()
       try: value = self.dict[key]                               G1a read self.dict into a temporary d
                                                                 G1b d[key]  (BINARY_SUBSCR on the object d)
       except KeyError: self.misses = self.misses + 1; raise     G2a read self.misses; G2b write; raise KeyError
       else: self.hits = self.hits + 1                           G3a read self.hits;   G3b write
             self.dict.move_to_end(key)                          G4a read self.dict AGAIN into d'
                                                                 G4b d'.move_to_end(key): KeyError when absent
             return value
     def __setitem__(self, key, value):
       self._drop_stale()
       self.dict[key] = value                                    S1a read self.dict into d; S1b d[key] = value
       if self.max_size and len(self.dict) > self.max_size:      S2a (max_size falsy: return) read self.dict into d
                                                                 S2b len(d) > max_size
         self.dict.popitem(last=False)                           S3a read self.dict into d
                                                                 S3b d.popitem(last=False): KeyError when EMPTY

   Modelling decisions
   * A dict OBJECT has an identity: the cache owns a growing list [fobjs] of objects (everything
     [self.dict] has ever pointed to); [fcur] is the index [self.dict] currently holds.  Objects of
     different caches are disjoint (every ParseCache creates its own OrderedDicts).  A thread that has
     read [self.dict] keeps the INDEX in its program counter and later operates on that object,
     whether or not it is still the current one (LOAD_ATTR and BINARY_SUBSCR/STORE_SUBSCR/CALL are
     different bytecodes).
   * One operation on one dict object (d[key], d[key] = v, len(d), move_to_end, popitem) is atomic:
     OrderedDict is implemented in C, the keys are (str, int) tuples whose hash/eq run no Python code,
     so the GIL (or, in a free-threaded build, the per-object lock) is held throughout.
   * [ParseCache.epoch] and [self.max_size] are constant during the runs considered (the grammar and
     the limits are fixed while requests run); reading them is therefore merged with the next access.
     Allocating [OrderedDict()] touches no shared state and is merged with the store D2.
   * The racy counters hits/misses ARE modelled (read into a temporary, then write temporary+1: lost
     updates are possible); no result depends on them.
   * A method ends with [Return o] or [RaiseKeyError].  What the CALLER (Repetition.lparse) does:
     a KeyError from __getitem__ (also the one raised by move_to_end at G4b, after [hits] has been
     incremented) is caught by its [except KeyError: pass] and treated as a miss; a KeyError from
     __setitem__ (popitem on an empty dict at S3b) is NOT caught anywhere: the request dies with it
     ([TCrash]).
   * [stamp_first = true] is the seeded mutation: D3 before D2.
   * [guarded_pop]: false = the code BEFORE the repair (S3b on an empty dict object raises KeyError, which
     nobody catches: TCrash); true = the REPAIRED code
         try: self.dict.popitem(last=False)
         except KeyError: pass          # another thread emptied the dictionary between the test and the eviction
     S3b on an empty object is a no-op and __setitem__ returns normally.  Nothing else changes: self.dict
     is still re-read at S1a, S2a and S3a.
   The repaired library is [stamp_first = false, guarded_pop = true]. *)
From Coq Require Import List NArith Arith Bool.
Import ListNotations.
From ABNF Require Import Base Engine Cache EngineProg.

Section Fine.
  Variables K V : Type.
  Variable keqb : K -> K -> bool.

  Record fcache := mkf {
    fobjs : list (list (K * V));   (* the dict objects, by identity (index) *)
    fcur : nat;                    (* self.dict *)
    fmax : option nat;             (* self.max_size *)
    fhits : nat; fmisses : nat;
    fep : nat                      (* self.dict_epoch *)
  }.

  (* the object with identity d *)
  Definition obj (c : fcache) (d : nat) : list (K * V) := nth d (fobjs c) [].
  Definition set_obj (c : fcache) (d : nat) (o : list (K * V)) : fcache :=
    mkf (nth_upd (fobjs c) d o) (fcur c) (fmax c) (fhits c) (fmisses c) (fep c).
  (* what the coarse model sees *)
  Definition fabs (c : fcache) : cache K V :=
    mkc K V (obj c (fcur c)) (fmax c) (fhits c) (fmisses c) (fep c).
  (* a coarse cache as a fine one with a single object *)
  Definition fconc (a : cache K V) : fcache :=
    mkf [entries K V a] 0 (maxsz K V a) (hits K V a) (misses K V a) (cep K V a).
  Definition fwf (c : fcache) : Prop := fcur c < length (fobjs c).

  Inductive mop := MGet (k : K) | MSet (k : K) (v : V).

  Inductive pc :=
  | D1 | D2 | D3
  | G1a | G1b (d : nat) | G2a | G2b (n : nat) | G3a (v : V) | G3b (v : V) (n : nat)
  | G4a (v : V) | G4b (v : V) (d : nat)
  | S1a | S1b (d : nat) | S2a | S2b (d : nat) | S3a | S3b (d : nat).

  Inductive outcome := Cont (q : pc) | Return (o : option V) | RaiseKeyError.

  Variable stamp_first : bool.      (* false: the code as written; true: D3 before D2 *)
  Variable guarded_pop : bool.      (* true: popitem wrapped in try/except KeyError (the repair) *)

  Definition after_drop (op : mop) : pc := match op with MGet _ => G1a | MSet _ _ => S1a end.

  (* ONE micro-step of a thread executing method [op] at [q] on cache [c], global epoch g *)
  Definition mstep (g : nat) (op : mop) (q : pc) (c : fcache) : outcome * fcache :=
    match q with
    | D1 => if Nat.eqb (fep c) g then (Cont (after_drop op), c)
            else (Cont (if stamp_first then D3 else D2), c)
    | D2 => (Cont (if stamp_first then after_drop op else D3),
             mkf (fobjs c ++ [[]]) (length (fobjs c)) (fmax c) (fhits c) (fmisses c) (fep c))
    | D3 => (Cont (if stamp_first then D2 else after_drop op),
             mkf (fobjs c) (fcur c) (fmax c) (fhits c) (fmisses c) g)
    | G1a => (Cont (G1b (fcur c)), c)
    | G1b d =>
      match op with
      | MGet k => match lookup K V keqb k (obj c d) with
                  | Some v => (Cont (G3a v), c)
                  | None => (Cont G2a, c)
                  end
      | MSet _ _ => (RaiseKeyError, c)          (* not a state of __setitem__ *)
      end
    | G2a => (Cont (G2b (fmisses c)), c)
    | G2b n => (RaiseKeyError, mkf (fobjs c) (fcur c) (fmax c) (fhits c) (S n) (fep c))
    | G3a v => (Cont (G3b v (fhits c)), c)
    | G3b v n => (Cont (G4a v), mkf (fobjs c) (fcur c) (fmax c) (S n) (fmisses c) (fep c))
    | G4a v => (Cont (G4b v (fcur c)), c)
    | G4b v d =>
      match op with
      | MGet k => match lookup K V keqb k (obj c d) with
                  | Some v' => (Return (Some v), set_obj c d (remove K V keqb k (obj c d) ++ [(k, v')]))
                  | None => (RaiseKeyError, c)  (* move_to_end: the key is gone *)
                  end
      | MSet _ _ => (RaiseKeyError, c)
      end
    | S1a => (Cont (S1b (fcur c)), c)
    | S1b d =>
      match op with
      | MSet k v => (Cont S2a, set_obj c d (assign K V keqb k v (obj c d)))
      | MGet _ => (RaiseKeyError, c)            (* not a state of __getitem__ *)
      end
    | S2a => match fmax c with
             | Some (S _) => (Cont (S2b (fcur c)), c)
             | _ => (Return None, c)
             end
    | S2b d => if limit_exceeded (fmax c) (length (obj c d)) then (Cont S3a, c) else (Return None, c)
    | S3a => (Cont (S3b (fcur c)), c)
    | S3b d => match obj c d with
               | [] => if guarded_pop then (Return None, c)   (* except KeyError: pass *)
                       else (RaiseKeyError, c)           (* popitem(): 'dictionary is empty' *)
               | _ :: r => (Return None, set_obj c d r)
               end
    end.

  (* a method run WITHOUT interleaving: micro-steps until it returns or raises *)
  Fixpoint mrun (fuel : nat) (g : nat) (op : mop) (q : pc) (c : fcache) : outcome * fcache :=
    match fuel with
    | 0 => (Cont q, c)
    | S f => match mstep g op q c with
             | (Cont q', c') => mrun f g op q' c'
             | r => r
             end
    end.
End Fine.

Arguments D1 {V}. Arguments D2 {V}. Arguments D3 {V}.
Arguments G1a {V}. Arguments G1b {V} d. Arguments G2a {V}. Arguments G2b {V} n.
Arguments G3a {V} v. Arguments G3b {V} v n. Arguments G4a {V} v. Arguments G4b {V} v d.
Arguments S1a {V}. Arguments S1b {V} d. Arguments S2a {V}. Arguments S2b {V} d.
Arguments S3a {V}. Arguments S3b {V} d.
Arguments Cont {V} q. Arguments Return {V} o. Arguments RaiseKeyError {V}.
Arguments MGet {K V} k. Arguments MSet {K V} k v.

(* ---- threads: a suspended request is a program plus the program counter inside the cache method
        its head operation is executing (D1 = about to enter it) ---- *)
Inductive thread (A : Type) : Type :=
| TRun (p : prog A) (q : pc cval)
| TCrash.                                   (* died with the KeyError of __setitem__ (unrepaired code only) *)
Arguments TRun {A} p q.
Arguments TCrash {A}.

Definition fstate := N -> fcache ckey cval.
Definition fupd (st : fstate) (id : N) (c : fcache ckey cval) : fstate :=
  fun x => if N.eqb x id then c else st x.
Definition fabs_st (st : fstate) : cstate := fun id => fabs ckey cval (st id).
Definition fconc_st (st : cstate) : fstate := fun id => fconc ckey cval (st id).

Definition tstep {A : Type} (mut grd : bool) (g : nat) (st : fstate) (t : thread A) : thread A * fstate :=
  match t with
  | TCrash => (TCrash, st)
  | TRun (Ret a) q => (TRun (Ret a) q, st)
  | TRun (Lookup id k c) q =>
    let (out, c') := mstep ckey cval ckey_eqb mut grd g (MGet k) q (st id) in
    (match out with
     | Cont q' => TRun (Lookup id k c) q'
     | Return o => TRun (c o) D1
     | RaiseKeyError => TRun (c None) D1    (* Repetition.lparse: except KeyError: pass *)
     end, fupd st id c')
  | TRun (Store id k v c) q =>
    let (out, c') := mstep ckey cval ckey_eqb mut grd g (MSet k v) q (st id) in
    (match out with
     | Cont q' => TRun (Store id k v c) q'
     | Return _ => TRun c D1
     | RaiseKeyError => TCrash              (* nobody catches it *)
     end, fupd st id c')
  end.

(* a schedule is a list of thread indices; one scheduled step = one micro-step of that thread; a thread
   that is never scheduled again is an abandoned request (at ANY micro-step) *)
Fixpoint run_fine {A : Type} (mut grd : bool) (g : nat) (st : fstate) (pool : list (thread A))
         (sched : list nat) : list (thread A) * fstate :=
  match sched with
  | [] => (pool, st)
  | t :: sched' =>
    match nth_error pool t with
    | None => run_fine mut grd g st pool sched'
    | Some th => let (th', st') := tstep mut grd g st th in run_fine mut grd g st' (nth_upd pool t th') sched'
    end
  end.

Definition start {A : Type} (p : prog A) : thread A := TRun p D1.
Definition prog_of {A : Type} (dflt : prog A) (t : thread A) : prog A :=
  match t with TRun p _ => p | TCrash => dflt end.
Definition at_boundary {A : Type} (t : thread A) : Prop :=
  match t with TRun _ D1 => True | _ => False end.
