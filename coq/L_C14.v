(* L_C14.v — importing one bundled grammar never changes another: obligations over the loader model on the
   GENERATED module descriptions.   PARTIAL: kernel-checked for the import sets/orders below, not for all. *)
From Coq Require Import String List NArith Arith Bool.
Import ListNotations.
From ABNF Require Import Base Engine AbnfRead Registry GenTypes Loader GenBundled Bundled TablesAll.

(* every module imported ALONE (with its dependencies, as Python does) has, for each of its classes and for the core
   and meta classes, exactly the configuration (names, definitions with their first-match flags, exclusions) it has
   when EVERY module is imported *)
Definition alone_vs_all : bool :=
  forallb (fun m => match r_only m with
                    | Some R => same_module R R_all m && same_class R R_all 0%N && same_class R R_all 1%N
                    | None => false
                    end) module_names.
Lemma c14_alone_vs_all : alone_vs_all = true. Proof. vm_cast_no_check (eq_refl true). Qed.

(* other import orders of ALL modules: reversed, rotated, interleaved *)
Definition rotate {A} (n : nat) (l : list A) : list A := skipn n l ++ firstn n l.
Definition evens_odds {A} (l : list A) : list A :=
  (fix ev (x : list A) : list A := match x with a :: _ :: r => a :: ev r | [a] => [a] | [] => [] end) l ++
  (fix od (x : list A) : list A := match x with _ :: b :: r => b :: od r | _ => [] end) l.
Definition orders : list (list str) :=
  [rev module_names; rotate 7 module_names; rotate 13 (rev module_names); evens_odds module_names].
Definition orders_vs_all : bool :=
  forallb (fun ms => match r_order ms with
                     | Some R => forallb (same_module R R_all) module_names && same_class R R_all 0%N && same_class R R_all 1%N
                     | None => false
                     end) orders.
Lemma c14_orders_vs_all : orders_vs_all = true. Proof. vm_cast_no_check (eq_refl true). Qed.

(* pairs of modules in both orders *)
Definition pair_orders_ok : bool :=
  forallb (fun m1 => forallb (fun m2 =>
     match r_order [m1; m2], r_order [m2; m1] with
     | Some R1, Some R2 => same_module R1 R_all m1 && same_module R1 R_all m2 && same_module R2 R_all m1 && same_module R2 R_all m2
     | _, _ => false
     end) (firstn 6 (rev module_names))) (firstn 6 module_names).
Lemma c14_pairs : pair_orders_ok = true. Proof. vm_cast_no_check (eq_refl true). Qed.
