(* LoadDet.v — C14, stage 3g: DETERMINACY UP TO RENAMING, without any reference run, for an arbitrary universe of
   class descriptions.
   (1) [load_class_determinate]: the snapshot a class gets when it is loaded depends only on the snapshots of the
       core class and of the classes it imports from (two arbitrary registries that agree on those).
   (2) [two_orders_generic]: two duplicate-free dependency-respecting class lists, both loaded successfully from
       the same start registry, give the same snapshot to every class description they have in common. *)
From Coq Require Import List NArith Arith Bool Lia.
Import ListNotations.
From ABNF Require Import Base Engine AbnfRead Registry EngineSound Checks RegistryProps GenTypes Loader
     GenBundled Bundled TablesAll LoadFrame1 LoadWf LoadFrame2 LoadUq LoadAbs LoadSim1 LoadSim2 LoadSim3 LoadOrder.

Lemma core_keys_inv R k : In k (map ekey (class_snapshot R 0%N)) ->
  exists o, In o (objs R) /\ ocls o = 0%N /\ okey o = k.
Proof.
  unfold class_snapshot. rewrite map_map. simpl. intros H. apply in_map_iff in H. destruct H as (o & Hk & Ho).
  apply filter_In in Ho. destruct Ho as [Hin Hc]. apply N.eqb_eq in Hc. eauto.
Qed.
Lemma corefree_keys R nm : corefree R nm <-> ~ In (fold_name nm) (map ekey (class_snapshot R 0%N)).
Proof.
  split.
  - intros H Hin. apply core_keys_inv in Hin. destruct Hin as (o & Ho & Hc & Hk). exact (H o Ho Hc Hk).
  - intros H o Ho Hc Hk. apply H. rewrite <- Hk. apply core_keys; assumption.
Qed.

Theorem load_class_determinate classes g c l R1 R2 :
  cls_of classes (gmod g) (gcls g) = Some c -> own_rules g = Some l -> flags_local classes g = true ->
  (forall sc, In sc (import_classes classes g) -> sc <> c) ->
  wf R1 -> uq R1 -> wf R2 -> uq R2 ->
  (forall o, In o (objs R1) -> ocls o <> c) -> (forall o, In o (objs R2) -> ocls o <> c) ->
  (forall nm, In nm (all_names g l) -> corefree R1 nm) ->
  class_snapshot R1 0%N = class_snapshot R2 0%N ->
  (forall sc, In sc (import_classes classes g) -> class_snapshot R1 sc = class_snapshot R2 sc) ->
  match load_class classes g R1, load_class classes g R2 with
  | Some R1', Some R2' => class_snapshot R1' c = class_snapshot R2' c
  | None, None => True
  | _, _ => False
  end.
Proof.
  intros Hc Hl Hfl Hfor W1 U1 W2 U2 E1 E2 Hcf H0 Hs.
  assert (Hc2 : (2 <= c)%N) by (eapply cls_of_ge2; exact Hc).
  assert (Hfor' : forall local m c' rn sc, In (local, (m, c', rn)) (gimports g) ->
                                           cls_of classes m c' = Some sc -> sc <> c).
  { intros local m c' rn sc Hin Hsc. apply Hfor. unfold import_classes. apply in_flat_map.
    exists (local, (m, c', rn)). split; [exact Hin|]. rewrite Hsc. left; reflexivity. }
  assert (Hcf2 : forall nm, In nm (all_names g l) -> corefree R2 nm).
  { intros nm Hnm. apply corefree_keys. rewrite <- H0. apply corefree_keys. apply Hcf. exact Hnm. }
  pose proof (load_class_sim classes g c R1 W1 U1 Hc2 E1 Hfor' l Hc Hl Hcf Hfl) as S1.
  pose proof (load_class_sim classes g c R2 W2 U2 Hc2 E2 Hfor' l Hc Hl Hcf2 Hfl) as S2.
  assert (Hext : aload classes g (sigR R1) = aload classes g (sigR R2)) by (apply aload_ext; assumption).
  rewrite Hext in S1.
  destruct (load_class classes g R1) as [R1'|], (load_class classes g R2) as [R2'|],
           (aload classes g (sigR R2)) as [s|]; try contradiction; auto.
  destruct S1 as [L1 _], S2 as [L2 _]. rewrite (l_own _ _ _ _ L1), (l_own _ _ _ _ L2). reflexivity.
Qed.

Section TwoOrders.
  Variables (classes : list gclass) (R0 : reg).
  Local Notation cnum := (cnum classes).

  (* static side conditions of one class description (relative to the core keys of the start registry) *)
  Definition gstatic (g : gclass) : Prop :=
    exists c l, cnum g = Some c /\ own_rules g = Some l /\ flags_local classes g = true /\
      (forall sc, In sc (import_classes classes g) -> sc <> c) /\
      (forall nm, In nm (all_names g l) -> ~ In (fold_name nm) (map ekey (class_snapshot R0 0%N))).

  Record inv0 (R : reg) (loaded : list cls) : Prop := mkinv0 {
    j_wf : wf R; j_uq : uq R;
    j_core : class_snapshot R 0%N = class_snapshot R0 0%N;
    j_objs : forall o, In o (objs R) -> (ocls o < 2)%N \/ In (ocls o) loaded }.

  Lemma step0 g R loaded Ra : inv0 R loaded -> gstatic g ->
    (forall c, cnum g = Some c -> ~ In c loaded) -> load_class classes g R = Some Ra ->
    exists c s, cnum g = Some c /\ aload classes g (sigR R) = Some s /\ inv0 Ra (c :: loaded) /\
      class_snapshot Ra c = s /\ (forall c', c' <> c -> class_snapshot Ra c' = class_snapshot R c') /\
      (forall sc, In sc (import_classes classes g) -> sc <> c).
  Proof.
    intros [W U HC HO] (c & l & Hc & Hl & Hfl & Hfor & Hcf) Hnl HL. specialize (Hnl c Hc).
    assert (Hc2 : (2 <= c)%N) by (eapply cls_of_ge2; exact Hc).
    assert (HE : forall o, In o (objs R) -> ocls o <> c).
    { intros o Ho Ec. destruct (HO o Ho) as [H|H]; [lia|]. apply Hnl. rewrite <- Ec. exact H. }
    assert (Hfor' : forall local m c' rn sc, In (local, (m, c', rn)) (gimports g) ->
                                             cls_of classes m c' = Some sc -> sc <> c).
    { intros local m c' rn sc Hin Hsc. apply Hfor. unfold import_classes. apply in_flat_map.
      exists (local, (m, c', rn)). split; [exact Hin|]. rewrite Hsc. left; reflexivity. }
    assert (Hcf' : forall nm, In nm (all_names g l) -> corefree R nm).
    { intros nm Hnm. apply corefree_keys. rewrite HC. apply Hcf. exact Hnm. }
    pose proof (load_class_abs classes g c R W U Hc2 HE Hfor' l Hc Hl Hcf' Hfl) as H.
    destruct (aload classes g (sigR R)) as [s|]; [|congruence].
    destruct H as (R' & HL' & W' & U' & S' & O' & B'). assert (R' = Ra) by congruence. subst R'.
    exists c, s. split; [exact Hc|]. split; [reflexivity|]. split; [|auto].
    constructor; auto.
    - rewrite O'; [exact HC|lia].
    - intros o Ho. destruct (B' o Ho) as [H|H]; [|right; left; auto].
      destruct (HO o H) as [H1|H1]; [left; exact H1|right; right; exact H1].
  Qed.

  (* a successful run leaves behind a registry whose snapshots are a fixed point of the abstract loader of every
     class it loaded; classes loaded before the run keep their snapshots *)
  Lemma run_fp L : forall loaded R R', inv0 R loaded -> (forall g, In g L -> gstatic g) ->
    dep_ok classes loaded L -> load_classes classes L R = Some R' ->
    inv0 R' (after classes loaded L) /\
    (forall c', In c' loaded -> class_snapshot R' c' = class_snapshot R c') /\
    (forall g c, In g L -> cnum g = Some c -> aload classes g (sigR R') = Some (class_snapshot R' c)).
  Proof.
    induction L as [|g r IH]; intros loaded R R' I Hst Hd HL; simpl in HL.
    - inversion HL; subst R'. simpl. split; [exact I|]. split; [auto|]. intros g c [].
    - destruct (load_class classes g R) as [Ra|] eqn:E; [|discriminate]. simpl in Hd.
      destruct (LoadOrder.cnum classes g) as [c|] eqn:Ec; [|contradiction]. destruct Hd as (Hn & Hi & Hd).
      destruct (step0 g R loaded Ra I (Hst g (or_introl eq_refl))) as (c0 & s & Hc0 & Ha & Ia & Sa & Oa & Hfor); auto.
      { intros c1 H1. assert (c1 = c) by congruence. subst c1. exact Hn. }
      assert (c0 = c) by congruence. subst c0.
      destruct (IH (c :: loaded) Ra R' Ia (fun g' Hg' => Hst g' (or_intror Hg')) Hd HL) as (I' & F' & P').
      simpl. rewrite Ec. split; [exact I'|]. split.
      + intros c' Hc'. rewrite (F' c' (or_intror Hc')). apply Oa. intros ->. exact (Hn Hc').
      + intros g' c' [<-|Hg'] Hcn.
        * assert (c' = c) by congruence. subst c'.
          rewrite (F' c (or_introl eq_refl)), Sa. transitivity (aload classes g (sigR R)); [|exact Ha].
          apply aload_ext.
          -- unfold sigR. rewrite (j_core _ _ I'), (j_core _ _ I). reflexivity.
          -- intros sc Hsc. unfold sigR. rewrite (F' sc (or_intror (Hi sc Hsc))). apply Oa. apply Hfor. exact Hsc.
        * apply P'; assumption.
  Qed.

  Lemma dep_ok_app A : forall B loaded, dep_ok classes loaded (A ++ B) ->
    dep_ok classes loaded A /\ dep_ok classes (after classes loaded A) B.
  Proof.
    induction A as [|g r IH]; intros B loaded H; simpl in *; [auto|].
    destruct (LoadOrder.cnum classes g) as [c|]; [|contradiction]. destruct H as (H1 & H2 & H3).
    destruct (IH B (c :: loaded) H3) as [A1 A2]. auto.
  Qed.
  (* in a dependency-respecting list every import source of a member is the class of an earlier member *)
  Lemma dep_ok_source L g sc : dep_ok classes [] L -> In g L -> In sc (import_classes classes g) ->
    exists A B g', L = A ++ g :: B /\ In g' A /\ cnum g' = Some sc.
  Proof.
    intros HD Hg Hsc. apply in_split in Hg. destruct Hg as (A & B & ->).
    destruct (dep_ok_app A (g :: B) [] HD) as [_ H]. simpl in H.
    destruct (LoadOrder.cnum classes g) as [c|]; [|contradiction]. destruct H as (_ & Hi & _).
    specialize (Hi sc Hsc). apply after_in in Hi. destruct Hi as [[]|(g' & G1 & G2)].
    exists A, B, g'. auto.
  Qed.

  (* TWO ORDERS: whatever else each of them loads, and in whatever order *)
  Theorem two_orders_generic L1 L2 R1 R2 :
    inv0 R0 [] ->
    (forall g, In g L1 -> gstatic g) -> (forall g, In g L2 -> gstatic g) ->
    (forall a b, In a (L1 ++ L2) -> In b (L1 ++ L2) -> cnum a = cnum b -> a = b) ->
    dep_ok classes [] L1 -> dep_ok classes [] L2 ->
    load_classes classes L1 R0 = Some R1 -> load_classes classes L2 R0 = Some R2 ->
    same_class R1 R2 0%N = true /\
    forall g c, In g L1 -> In g L2 -> cnum g = Some c -> same_class R1 R2 c = true.
  Proof.
    intros I0 S1 S2 Hinj D1 D2 E1 E2.
    destruct (run_fp L1 [] R0 R1 I0 S1 D1 E1) as (I1 & _ & P1).
    destruct (run_fp L2 [] R0 R2 I0 S2 D2 E2) as (I2 & _ & P2).
    split; [apply same_class_iff; rewrite (j_core _ _ I1), (j_core _ _ I2); reflexivity|].
    assert (Hmain : forall P, (exists rest, L1 = P ++ rest) ->
              forall g c, In g P -> In g L2 -> cnum g = Some c -> class_snapshot R1 c = class_snapshot R2 c).
    { induction P as [|g0 P' IHP] using rev_ind; intros (rest & HL1) g c Hg Hg2 Hc; [destruct Hg|].
      assert (Hpre : exists rest', L1 = P' ++ rest') by (exists (g0 :: rest); rewrite HL1, <- app_assoc; reflexivity).
      apply in_app_or in Hg. destruct Hg as [Hg|[<-|[]]]; [exact (IHP Hpre g c Hg Hg2 Hc)|].
      assert (Hg1 : In g0 L1) by (rewrite HL1; apply in_or_app; left; apply in_or_app; right; left; reflexivity).
      assert (HA : aload classes g0 (sigR R1) = aload classes g0 (sigR R2)).
      { apply aload_ext.
        - unfold sigR. rewrite (j_core _ _ I1), (j_core _ _ I2). reflexivity.
        - intros sc Hsc. unfold sigR.
          (* the source is an earlier member of L1 ... *)
          assert (D1' : dep_ok classes [] ((P' ++ [g0]) ++ rest)) by (rewrite <- HL1; exact D1).
          rewrite <- app_assoc in D1'. simpl in D1'.
          destruct (dep_ok_app P' (g0 :: rest) [] D1') as [_ H]. simpl in H.
          destruct (LoadOrder.cnum classes g0) as [c0|]; [|contradiction]. destruct H as (_ & Hi & _).
          specialize (Hi sc Hsc). apply after_in in Hi. destruct Hi as [[]|(g1 & G1 & G1c)].
          (* ... and a member of L2 *)
          destruct (dep_ok_source L2 g0 sc D2 Hg2 Hsc) as (A2 & B2 & g2 & HL2 & G2 & G2c).
          assert (Hg2L : In g2 L2) by (rewrite HL2; apply in_or_app; left; exact G2).
          assert (Hg1L : In g1 L1) by (destruct Hpre as (r' & ->); apply in_or_app; left; exact G1).
          assert (g1 = g2).
          { apply Hinj; [apply in_or_app; left; exact Hg1L|apply in_or_app; right; exact Hg2L|congruence]. }
          subst g2. exact (IHP Hpre g1 sc G1 Hg2L G1c). }
      rewrite (P1 g0 c Hg1 Hc), (P2 g0 c Hg2 Hc) in HA. congruence. }
    intros g c G1 G2 Hc. apply same_class_iff.
    apply (Hmain L1 (ex_intro _ [] (eq_sym (app_nil_r L1))) g c G1 G2 Hc).
  Qed.
End TwoOrders.

Print Assumptions load_class_determinate.
Print Assumptions two_orders_generic.
