(* Cache.v — executable model of class ParseCache (src/abnf/parser.py): an OrderedDict with
   move-to-end on hit and pop-oldest on overflow, hit/miss counters, and the epoch stamp that
   makes entries stored before a grammar change invisible.  MODEL ONLY: no proofs here. *)
From Coq Require Import List Arith Bool.
Import ListNotations.

Section Cache.
  Variables K V : Type.
  Variable keqb : K -> K -> bool.

  Record cache := mkc {
    entries : list (K * V);     (* OrderedDict, oldest first *)
    maxsz : option nat;         (* max_size: None or 0 = unlimited *)
    hits : nat; misses : nat;
    cep : nat                   (* dict_epoch *)
  }.

  (* ParseCache(max_size) with class default [dflt] = ParseCache.max_cache_size, at epoch g *)
  Definition cnew (dflt arg : option nat) (g : nat) : cache :=
    mkc [] (match arg with Some n => Some n | None => dflt end) 0 0 g.

  (* _drop_stale *)
  Definition drop_stale (g : nat) (c : cache) : cache :=
    if Nat.eqb (cep c) g then c else mkc [] (maxsz c) (hits c) (misses c) g.

  Fixpoint lookup (k : K) (l : list (K * V)) : option V :=
    match l with
    | [] => None
    | (k', v) :: r => if keqb k k' then Some v else lookup k r
    end.
  Fixpoint remove (k : K) (l : list (K * V)) : list (K * V) :=
    match l with
    | [] => []
    | (k', v) :: r => if keqb k k' then r else (k', v) :: remove k r
    end.
  (* dict[k] = v: an existing key keeps its position *)
  Fixpoint assign (k : K) (v : V) (l : list (K * V)) : list (K * V) :=
    match l with
    | [] => [(k, v)]
    | (k', v') :: r => if keqb k k' then (k', v) :: r else (k', v') :: assign k v r
    end.

  (* __getitem__: None = KeyError *)
  Definition cget (g : nat) (k : K) (c0 : cache) : option V * cache :=
    let c := drop_stale g c0 in
    match lookup k (entries c) with
    | Some v => (Some v, mkc (remove k (entries c) ++ [(k, v)]) (maxsz c) (S (hits c)) (misses c) (cep c))
    | None => (None, mkc (entries c) (maxsz c) (hits c) (S (misses c)) (cep c))
    end.

  Definition limit_exceeded (m : option nat) (n : nat) : bool :=
    match m with Some (S p) => Nat.ltb (S p) n | _ => false end.

  (* __setitem__ *)
  Definition cset (g : nat) (k : K) (v : V) (c0 : cache) : cache :=
    let c := drop_stale g c0 in
    let l := assign k v (entries c) in
    mkc (if limit_exceeded (maxsz c) (length l) then tl l else l) (maxsz c) (hits c) (misses c) (cep c).

  (* __delitem__: None = KeyError (the stale entries are dropped even then) *)
  Definition cdel (g : nat) (k : K) (c0 : cache) : bool * cache :=
    let c := drop_stale g c0 in
    match lookup k (entries c) with
    | Some _ => (true, mkc (remove k (entries c)) (maxsz c) (hits c) (misses c) (cep c))
    | None => (false, c)
    end.

  Definition clen (g : nat) (c0 : cache) : nat * cache :=
    let c := drop_stale g c0 in (length (entries c), c).
  Definition citer (g : nat) (c0 : cache) : list K * cache :=
    let c := drop_stale g c0 in (map fst (entries c), c).

  (* what ParseCache.clear_caches does to each live cache *)
  Definition cclear (c : cache) : cache := mkc [] (maxsz c) 0 0 (cep c).
  (* assignment to .max_size on a live cache *)
  Definition csetmax (m : option nat) (c : cache) : cache :=
    mkc (entries c) m (hits c) (misses c) (cep c).
End Cache.
