(* Visit.v — model of parser.py Node.__eq__, LiteralNode.__eq__ and NodeVisitor.
   MODEL ONLY: definitions, no proofs. *)
From Coq Require Import List NArith Arith Bool.
From ABNF Require Import Base.
Import ListNotations.

(* node.name.replace("-", "_").casefold(), for ASCII names: "-" (45) -> "_" (95), then A-Z -> a-z *)
Definition dispatch_key (name : str) : str :=
  map (fun c => fold_cp (if N.eqb c 45 then 95%N else c)) name.

(* node.name: LiteralNode.name is always "literal" *)
Definition node_name (n : node) : str :=
  match n with
  | Leaf _ _ _ => [108;105;116;101;114;97;108]%N (* "literal" *)
  | Nd nm _ => nm
  end.

(* a visitor object = its method table _node_method_cache:
   (suffix after "visit_", handler identifier); dict semantics: unique keys *)
Definition visitor := list (str * N).

(* outcome of visit(node): the handler h is invoked with exactly this node and its result
   returned | _skip_visit: None *)
Inductive vres := Called (h : N) (arg : node) | RNone.

(* self._node_method_cache.get(key, self._skip_visit)(node) *)
Definition visit (v : visitor) (n : node) : vres :=
  match find (fun p => str_eqb (fst p) (dispatch_key (node_name n))) v with
  | Some p => Called (snd p) n
  | None => RNone
  end.

(* Node.__eq__ / LiteralNode.__eq__: different classes -> false;
   Node: name and children (list equality: same length, pairwise ==);
   LiteralNode: value, offset, length *)
Fixpoint node_eqb (a b : node) : bool :=
  match a, b with
  | Leaf v o l, Leaf v' o' l' => str_eqb v v' && Nat.eqb o o' && Nat.eqb l l'
  | Nd nm ch, Nd nm' ch' =>
      str_eqb nm nm' &&
      (fix go (l1 l2 : list node) {struct l1} : bool :=
         match l1, l2 with
         | [], [] => true
         | x :: r, y :: r' => node_eqb x y && go r r'
         | _, _ => false
         end) ch ch'
  | _, _ => false
  end.
