(* IsolateBehave.v — C10 (isolation of grammar classes) lifted to BEHAVIOUR and to HISTORIES, with exactly the guards
   under which it is true.
   S is a set of classes closed under reference ([closedb R S]: definitions and exclusions of objects of classes in
   S mention only objects of classes in S), c a class NOT in S.  Defining / extending / redefining rules of c
   (create, load_grammar, "=/"), flagging and excluding rules of c leave lparse / parse / parse_all of every rule
   object of a class in S unchanged — for every oracle, fuel, text, offset — PROVIDED
     (G1) if the core class 0 is in S: no defined name is the (folded) name of a core rule   [known finding: a rule
          named like a core rule is assigned on the shared core object];
     (G2) a flagged rule's definition object is not the definition of any object of a class in S   [known finding:
          flags on imported rules leak through shared definition objects];
     (G3) an excluded rule (the receiver of exclude_rule) is not an object of a class in S.
   (c) shows that (G1) is needed: defining DIGIT in class 2 changes what the core rule DIGIT accepts. *)
From Coq Require Import String List NArith Arith Bool Lia.
Import ListNotations.
From ABNF Require Import Base Engine AbnfRead Registry EngineSound Checks RegistryProps GenTypes Loader Bundled
     LoadFrame1 LoadWf LoadBehave.

(* ------------------------------------------------------------------------------------------ *)
(* A. frames that keep a class set, and what they preserve                                     *)
(* ------------------------------------------------------------------------------------------ *)
Definition sframe (S : list cls) (R R' : reg) : Prop :=
  (forall j o, nth_error (objs R) j = Some o ->
     exists o', nth_error (objs R') j = Some o' /\ ocls o' = ocls o /\ (inS S (ocls o) = true -> o' = o)) /\
  (forall j o', nth_error (objs R') j = Some o' -> length (objs R) <= j -> inS S (ocls o') = false) /\
  (forall j o d, nth_error (objs R) j = Some o -> inS S (ocls o) = true -> odef o = Some d ->
                 nth_error (defs R') d = nth_error (defs R) d).

Lemma sframe_refl S R : sframe S R R.
Proof.
  split; [|split].
  - intros j o Hj. exists o. auto.
  - intros j o' Hj Hle. exfalso.
    assert (j < length (objs R)) by (apply nth_error_Some; rewrite Hj; discriminate). lia.
  - reflexivity.
Qed.
Lemma sframe_len S R R' : sframe S R R' -> length (objs R) <= length (objs R').
Proof.
  intros (A & _). destruct (Nat.le_gt_cases (length (objs R)) (length (objs R'))) as [L|L]; [exact L|exfalso].
  destruct (nth_error (objs R) (length (objs R'))) as [o|] eqn:E.
  - destruct (A _ _ E) as (o' & Ho' & _).
    assert (length (objs R') < length (objs R')) by (apply nth_error_Some; rewrite Ho'; discriminate). lia.
  - apply nth_error_None in E. lia.
Qed.
Lemma sframe_trans S R1 R2 R3 : sframe S R1 R2 -> sframe S R2 R3 -> sframe S R1 R3.
Proof.
  intros F12 F23. pose proof (sframe_len _ _ _ F12) as L12.
  destruct F12 as (A1 & B1 & C1), F23 as (A2 & B2 & C2). split; [|split].
  - intros j o Hj. destruct (A1 j o Hj) as (o2 & H2 & K2 & E2). destruct (A2 j o2 H2) as (o3 & H3 & K3 & E3).
    exists o3. split; [exact H3|]. split; [congruence|]. intros Hin. rewrite <- (E2 Hin). apply E3.
    rewrite K2. exact Hin.
  - intros j o3 Hj Hle. destruct (Nat.lt_ge_cases j (length (objs R2))) as [Lt|Ge]; [|eapply B2; eauto].
    destruct (nth_error (objs R2) j) as [o2|] eqn:E; [|apply nth_error_None in E; lia].
    destruct (A2 j o2 E) as (o3' & H3 & K3 & _). rewrite Hj in H3. inversion H3; subst o3'.
    rewrite K3. eapply B1; eauto.
  - intros j o d Hj Hin Hd. destruct (A1 j o Hj) as (o2 & H2 & K2 & E2). rewrite (E2 Hin) in H2.
    rewrite (C2 j o d H2 Hin Hd). exact (C1 j o d Hj Hin Hd).
Qed.

Definition idrel (R : reg) (S : list cls) (r1 r2 : rid) : Prop :=
  r1 = r2 /\ exists o, nth_error (objs R) (N.to_nat r1) = Some o /\ inS S (ocls o) = true.

Lemma erel_refl_in R S e : refs_inb R S e = true -> erel (idrel R S) e e.
Proof.
  induction e as [cs v|lo hi|fm es IH|es IH|id mn mx e IH| |r] using expr_ind2; simpl; intros H; auto.
  - apply (proj2 (erel_alt _ fm es fm es)). split; [reflexivity|].
    induction IH as [|x r Hx Hr IHr]; [constructor|]. simpl in H. apply andb_true_iff in H. destruct H.
    constructor; auto.
  - apply (proj2 (erel_cat _ es es)).
    induction IH as [|x r Hx Hr IHr]; [constructor|]. simpl in H. apply andb_true_iff in H. destruct H.
    constructor; auto.
  - split; [reflexivity|]. destruct (nth_error (objs R) (N.to_nat r)) as [o|]; [|discriminate]. eauto.
Qed.

Lemma refs_inb_frame S R R' e : sframe S R R' -> refs_inb R S e = true -> refs_inb R' S e = true.
Proof.
  intros (A & _). induction e as [cs v|lo hi|fm es IH|es IH|id mn mx e IH| |r] using expr_ind2; simpl; intros H;
    auto.
  - rewrite forallb_forall in *. rewrite Forall_forall in IH. auto.
  - rewrite forallb_forall in *. rewrite Forall_forall in IH. auto.
  - destruct (nth_error (objs R) (N.to_nat r)) as [o|] eqn:E; [|discriminate].
    destruct (A _ _ E) as (o' & Ho' & _ & Eq). rewrite Ho', (Eq H). exact H.
Qed.

Lemma closedb_obj R S o : closedb R S = true -> In o (objs R) -> inS S (ocls o) = true ->
  (forall d e, odef o = Some d -> nth_error (defs R) d = Some e -> refs_inb R S e = true) /\
  (forall x, oexcl o = Some x -> exists ox, nth_error (objs R) (N.to_nat x) = Some ox /\ inS S (ocls ox) = true).
Proof.
  intros HC Hin HS. unfold closedb in HC. rewrite forallb_forall in HC. specialize (HC o Hin). rewrite HS in HC.
  apply andb_true_iff in HC. destruct HC as [C1 C2]. split.
  - intros d e Hd He. rewrite Hd, He in C1. exact C1.
  - intros x Hx. rewrite Hx in C2. destruct (nth_error (objs R) (N.to_nat x)) as [ox|]; [eauto|discriminate].
Qed.

Lemma closedb_sframe S R R' : closedb R S = true -> sframe S R R' -> closedb R' S = true.
Proof.
  intros HC F. pose proof F as (A & B & C). unfold closedb. apply forallb_forall. intros o' Hin'.
  destruct (inS S (ocls o')) eqn:HS; [|reflexivity].
  apply In_nth_error in Hin'. destruct Hin' as [j Hj].
  destruct (Nat.lt_ge_cases j (length (objs R))) as [Lt|Ge]; [|rewrite (B j o' Hj Ge) in HS; discriminate].
  destruct (nth_error (objs R) j) as [o|] eqn:E; [|apply nth_error_None in E; lia].
  destruct (A j o E) as (o2 & H2 & K2 & E2). rewrite Hj in H2. inversion H2; subst o2.
  rewrite K2 in HS. specialize (E2 HS). subst o'.
  destruct (closedb_obj R S o HC (nth_error_In _ _ E) HS) as [D X]. apply andb_true_iff. split.
  - destruct (odef o) as [d|] eqn:Ed; [|reflexivity]. rewrite (C j o d E HS Ed).
    destruct (nth_error (defs R) d) as [e|] eqn:Ee; [|reflexivity]. eapply refs_inb_frame; eauto.
  - destruct (oexcl o) as [x|] eqn:Ex; [|reflexivity]. destruct (X x eq_refl) as (ox & Hox & Sox).
    destruct (A _ _ Hox) as (ox' & Hox' & _ & Eq). rewrite Hox', (Eq Sox). exact Sox.
Qed.

(* the three engine entry points agree on rule k in two registries *)
Definition same_beh (R R' : reg) (k : nat) : Prop :=
  forall sh f s i,
    lparse sh (grammar_of R') f (ERef (N.of_nat k)) s i = lparse sh (grammar_of R) f (ERef (N.of_nat k)) s i /\
    parse sh (grammar_of R') f (N.of_nat k) s i = parse sh (grammar_of R) f (N.of_nat k) s i /\
    parse_all sh (grammar_of R') f (N.of_nat k) s = parse_all sh (grammar_of R) f (N.of_nat k) s.

Theorem frame_behaviour S R R' : sframe S R R' -> closedb R S = true ->
  forall k o, nth_error (objs R) k = Some o -> inS S (ocls o) = true -> same_beh R R' k.
Proof.
  intros (A & B & C) HC.
  assert (HP : forall r1 r2, idrel R S r1 r2 -> orel (rrel (idrel R S)) (grammar_of R r1) (grammar_of R' r2)).
  { intros r1 r2 (<- & o & Ho & HS). unfold grammar_of. destruct (A _ _ Ho) as (o' & Ho' & _ & Eq).
    rewrite (Eq HS) in Ho'. rewrite Ho, Ho'. simpl.
    destruct (closedb_obj R S o HC (nth_error_In _ _ Ho) HS) as [D X].
    split; [reflexivity|]. split; simpl.
    - destruct (odef o) as [d|] eqn:Ed; [|exact I]. rewrite (C _ o d Ho HS Ed).
      destruct (nth_error (defs R) d) as [e|] eqn:Ee; [|exact I]. simpl. apply erel_refl_in. eapply D; eauto.
    - destruct (oexcl o) as [x|] eqn:Ex; [|exact I]. simpl. split; [reflexivity|]. apply X. reflexivity. }
  intros k o Hk HS sh f s i.
  assert (HR : idrel R S (N.of_nat k) (N.of_nat k)).
  { split; [reflexivity|]. exists o. rewrite Nat2N.id. auto. }
  split; [|split]; symmetry.
  - apply (lparse_rel sh _ _ (idrel R S) HP f (ERef (N.of_nat k)) (ERef (N.of_nat k))). exact HR.
  - apply (parse_rel sh _ _ (idrel R S) HP). exact HR.
  - apply (parse_all_rel sh _ _ (idrel R S) HP). exact HR.
Qed.

(* ------------------------------------------------------------------------------------------ *)
(* B. the operations                                                                           *)
(* ------------------------------------------------------------------------------------------ *)
Definition core_free (S : list cls) (R : reg) (names : list str) : Prop :=
  inS S 0%N = true -> no_core_names R names.

Lemma cframe_sframe S c names R R' : cframe c names R R' -> inS S c = false -> core_free S R names ->
  reg_ok R -> sframe S R R'.
Proof.
  intros (M & N & K) Hc Hcf Hok. split; [|split].
  - intros j o Hj. destruct (M j o Hj) as (o' & Ho' & (S1 & _) & T). exists o'. split; [exact Ho'|].
    split; [exact S1|]. intros HS. destruct T as [T|[T|[T1 T2]]]; [exact T| |]; exfalso.
    + rewrite T in HS. congruence.
    + rewrite T1 in HS. exact (Hcf HS o (nth_error_In _ _ Hj) T1 T2).
  - intros j o' Hj Hle. rewrite (N j o' Hj Hle). exact Hc.
  - intros j o d Hj _ Hd. pose proof (reg_ok_nth _ _ _ _ Hok Hj Hd) as Hlt.
    destruct (nth_error (defs R) d) as [e|] eqn:E; [|apply nth_error_None in E; lia]. apply K. exact E.
Qed.

Lemma clash_names R l : no_core_clash R l <-> no_core_names R (map aname l).
Proof.
  unfold no_core_clash, no_core_names. split.
  - intros H o Ho Hc Hin. rewrite map_map in Hin. apply in_map_iff in Hin. destruct Hin as (a & Ha & Hin).
    exact (H o a Ho Hin Hc (eq_sym Ha)).
  - intros H o a Ho Ha Hc Hk. apply (H o Ho Hc). rewrite map_map. apply in_map_iff. exists a. auto.
Qed.

Lemma define_rules_sframe S c l R R' : define_rules c l R = Some R' -> inS S c = false ->
  (inS S 0%N = true -> no_core_clash R l) -> reg_ok R -> sframe S R R'.
Proof.
  intros H Hc Hcf Hok. eapply cframe_sframe; [eapply define_rules_cframe; eauto|exact Hc| |exact Hok].
  intros H0. apply clash_names. auto.
Qed.

(* the definition object of rule n is not the definition of any object of a class in S *)
Definition private (S : list cls) (R : reg) (n : nat) : Prop :=
  forall o d, nth_error (objs R) n = Some o -> odef o = Some d ->
  forall j o', nth_error (objs R) j = Some o' -> inS S (ocls o') = true -> odef o' <> Some d.

Lemma set_flag_sframe S n v R R' : set_flag n v R = Some R' -> private S R n -> sframe S R R'.
Proof.
  intros H Hp. destruct (set_flag_shape _ _ _ _ H) as (o & d & e & Ho & Hd & He & HO & HR).
  destruct HR as [->|(fm & es & -> & HD)]; [apply sframe_refl|]. split; [|split].
  - intros j x Hj. exists x. rewrite HO. auto.
  - intros j x Hj Hle. exfalso. rewrite HO in Hj.
    assert (j < length (objs R)) by (apply nth_error_Some; rewrite Hj; discriminate). lia.
  - intros j x dx Hj HS Hdx. rewrite HD. apply nth_error_upd_nth_other. intros ->.
    exact (Hp o d Ho Hd j x Hj HS Hdx).
Qed.

Lemma set_excl_sframe S n x R : (forall o, nth_error (objs R) n = Some o -> inS S (ocls o) = false) ->
  sframe S R (set_excl n x R).
Proof.
  intros Hn. split; [|split].
  - intros j o Hj. unfold set_excl; simpl. destruct (Nat.eq_dec j n) as [->|Hne].
    + rewrite nth_error_upd_nth_same, Hj. simpl. eexists. split; [reflexivity|]. split; [reflexivity|].
      intros HS. rewrite (Hn o Hj) in HS. discriminate.
    + rewrite nth_error_upd_nth_other by exact Hne. exists o. auto.
  - intros j o' Hj Hle. exfalso. unfold set_excl in Hj; simpl in Hj.
    assert (j < length (upd_nth (objs R) n (fun o => mko (ocls o) (okey o) (oname o) (odef o) (Some (N.of_nat x)))))
      by (apply nth_error_Some; rewrite Hj; discriminate).
    rewrite upd_nth_length in H. lia.
  - reflexivity.
Qed.

Lemma rnew_sframe S c nm R R1 k : rnew R c nm = (R1, k) -> inS S c = false -> reg_ok R -> sframe S R R1.
Proof.
  intros H Hc Hok. eapply (cframe_sframe S c []); [apply ext_cframe; eapply rnew_ext; eauto|exact Hc| |exact Hok].
  intros _ o _ _ [].
Qed.

(* ---- (a) single operations ---- *)
Theorem define_rules_behaviour S c l R R' :
  define_rules c l R = Some R' -> reg_ok R -> inS S c = false -> closedb R S = true ->
  (inS S 0%N = true -> no_core_clash R l) ->
  forall k o, nth_error (objs R) k = Some o -> inS S (ocls o) = true -> same_beh R R' k.
Proof. intros H Hok Hc HC Hcf. eapply frame_behaviour; [eapply define_rules_sframe; eauto|exact HC]. Qed.

Theorem create_behaviour S c t a R R' :
  create c t R = Some R' -> read_rule (ensure_crlf t) = Some (a, []) ->
  reg_ok R -> inS S c = false -> closedb R S = true -> (inS S 0%N = true -> no_core_clash R [a]) ->
  forall k o, nth_error (objs R) k = Some o -> inS S (ocls o) = true -> same_beh R R' k.
Proof.
  intros H Hr Hok Hc HC Hcf. unfold create in H. rewrite Hr in H.
  apply (define_rules_behaviour S c [a] R R'); auto. simpl. rewrite H. reflexivity.
Qed.

Theorem load_grammar_behaviour S c t strict l R R' :
  load_grammar c t strict R = Some R' -> read_rulelist (if strict then normalise t else t) = Some l ->
  reg_ok R -> inS S c = false -> closedb R S = true -> (inS S 0%N = true -> no_core_clash R l) ->
  forall k o, nth_error (objs R) k = Some o -> inS S (ocls o) = true -> same_beh R R' k.
Proof.
  intros H Hr Hok Hc HC Hcf. unfold load_grammar in H. rewrite Hr in H.
  apply (define_rules_behaviour S c l R R'); auto.
Qed.

Theorem set_flag_behaviour S n v R R' :
  set_flag n v R = Some R' -> closedb R S = true -> private S R n ->
  forall k o, nth_error (objs R) k = Some o -> inS S (ocls o) = true -> same_beh R R' k.
Proof. intros H HC Hp. eapply frame_behaviour; [eapply set_flag_sframe; eauto|exact HC]. Qed.

(* the guard in the form "not shared with an object of another class": if rule n belongs to class c (not in S)
   and no object of a class other than c has the same definition object, the rule is private for S *)
Lemma private_of_unshared S c R n : inS S c = false ->
  (forall o d j o', nth_error (objs R) n = Some o -> odef o = Some d ->
                    nth_error (objs R) j = Some o' -> odef o' = Some d -> ocls o' = c) ->
  private S R n.
Proof.
  intros Hc H o d Ho Hd j o' Hj HS Hd'. rewrite (H o d j o' Ho Hd Hj Hd') in HS. congruence.
Qed.

(* ------------------------------------------------------------------------------------------ *)
(* C. histories                                                                                *)
(* ------------------------------------------------------------------------------------------ *)
Inductive op :=
| OCreate (text : str)                       (* cls.create(text): one rule, "=" or "=/" *)
| OLoad (text : str) (strict : bool)         (* cls.load_grammar(text, strict) *)
| OFlag (name : str) (v : bool)              (* cls(name).first_match_alternation = v *)
| OExcl (name other : str).                  (* cls(name).exclude_rule(cls(other)) *)

Definition run_op (c : cls) (x : op) (R : reg) : option reg :=
  match x with
  | OCreate t => create c t R
  | OLoad t st => load_grammar c t st R
  | OFlag name v => let '(R1, n) := rnew R c name in set_flag n v R1
  | OExcl a b => let '(R1, n) := rnew R c a in let '(R2, x) := rnew R1 c b in Some (set_excl n x R2)
  end.
Fixpoint run_ops (c : cls) (ops : list op) (R : reg) : option reg :=
  match ops with
  | [] => Some R
  | x :: r => match run_op c x R with Some R1 => run_ops c r R1 | None => None end
  end.

(* the guards, as boolean checks on the state in which the operation runs *)
Definition core_freeb (S : list cls) (R : reg) (names : list str) : bool :=
  negb (inS S 0%N) ||
  forallb (fun o => negb (N.eqb (ocls o) 0) || negb (existsb (str_eqb (okey o)) (map fold_name names))) (objs R).
Definition privateb (S : list cls) (R : reg) (n : nat) : bool :=
  match nth_error (objs R) n with
  | Some o => match odef o with
              | Some d => forallb (fun o' => negb (inS S (ocls o')) ||
                                             match odef o' with Some d' => negb (Nat.eqb d d') | None => true end)
                                  (objs R)
              | None => true
              end
  | None => true
  end.
Definition guardb (S : list cls) (c : cls) (x : op) (R : reg) : bool :=
  match x with
  | OCreate t => match read_rule (ensure_crlf t) with Some (a, []) => core_freeb S R [aname a] | _ => true end
  | OLoad t st => match read_rulelist (if st then normalise t else t) with
                  | Some l => core_freeb S R (map aname l) | None => true end
  | OFlag name v => let '(R1, n) := rnew R c name in privateb S R1 n
  | OExcl a b => let '(R1, n) := rnew R c a in
                 match nth_error (objs R1) n with Some o => negb (inS S (ocls o)) | None => true end
  end.
Fixpoint guardsb (S : list cls) (c : cls) (ops : list op) (R : reg) : bool :=
  match ops with
  | [] => true
  | x :: r => guardb S c x R && match run_op c x R with Some R1 => guardsb S c r R1 | None => true end
  end.

Lemma core_freeb_sound S R names : core_freeb S R names = true -> core_free S R names.
Proof.
  unfold core_freeb, core_free. intros H H0. rewrite H0 in H. simpl in H. rewrite forallb_forall in H.
  intros o Ho Hc Hin. specialize (H o Ho). rewrite Hc in H. simpl in H. apply negb_true_iff in H.
  assert (X : existsb (str_eqb (okey o)) (map fold_name names) = true).
  { apply existsb_exists. exists (okey o). split; [exact Hin|apply str_eqb_refl]. }
  congruence.
Qed.
Lemma privateb_sound S R n : privateb S R n = true -> private S R n.
Proof.
  unfold privateb, private. intros H o d Ho Hd j o' Hj HS Hd'. rewrite Ho, Hd in H.
  rewrite forallb_forall in H. specialize (H o' (nth_error_In _ _ Hj)). rewrite HS, Hd' in H. simpl in H.
  rewrite Nat.eqb_refl in H. discriminate.
Qed.

Lemma run_op_sframe S c x R R' : run_op c x R = Some R' -> inS S c = false -> reg_ok R ->
  guardb S c x R = true -> sframe S R R' /\ reg_ok R'.
Proof.
  intros H Hc Hok Hg. destruct x as [t|t st|name v|a b]; simpl in H, Hg.
  - split; [|eapply create_ok; eauto]. unfold create in H.
    destruct (read_rule (ensure_crlf t)) as [[ar [|y s]]|]; try discriminate.
    eapply (cframe_sframe S c [aname ar]); [eapply define_rule_cframe; eauto|exact Hc| |exact Hok].
    apply core_freeb_sound. exact Hg.
  - split; [|eapply load_grammar_ok; eauto]. unfold load_grammar in H.
    destruct (read_rulelist (if st then normalise t else t)) as [l|]; [|discriminate].
    eapply (cframe_sframe S c (map aname l)); [eapply define_rules_cframe; eauto|exact Hc| |exact Hok].
    apply core_freeb_sound. exact Hg.
  - destruct (rnew R c name) as [R1 n] eqn:E1. pose proof (rnew_ok _ _ _ _ _ E1 Hok) as Hok1. split.
    + eapply sframe_trans; [eapply rnew_sframe; eauto|]. eapply set_flag_sframe; [exact H|].
      apply privateb_sound. exact Hg.
    + eapply set_flag_ok; eauto.
  - destruct (rnew R c a) as [R1 n] eqn:E1. destruct (rnew R1 c b) as [R2 y] eqn:E2. inversion H; subst R'.
    pose proof (rnew_ok _ _ _ _ _ E1 Hok) as Hok1. pose proof (rnew_ok _ _ _ _ _ E2 Hok1) as Hok2. split.
    + eapply sframe_trans; [eapply rnew_sframe; eauto|]. eapply sframe_trans; [eapply rnew_sframe; eauto|].
      apply set_excl_sframe. intros o Ho.
      destruct (nth_error (objs R1) n) as [o1|] eqn:En.
      * rewrite (ext_prefix _ _ _ _ _ (rnew_ext _ _ _ _ _ E2) En) in Ho. inversion Ho; subst o1.
        apply negb_true_iff. exact Hg.
      * pose proof (rnew_keeps _ _ _ _ _ E1) as (_ & _ & _ & Hlt). apply nth_error_None in En. lia.
    + apply set_excl_ok. exact Hok2.
Qed.

Lemma run_ops_sframe S c ops : forall R R', run_ops c ops R = Some R' -> inS S c = false -> reg_ok R ->
  guardsb S c ops R = true -> sframe S R R' /\ reg_ok R'.
Proof.
  induction ops as [|x r IH]; intros R R' H Hc Hok Hg; simpl in H, Hg.
  - inversion H; subst. split; [apply sframe_refl|exact Hok].
  - destruct (run_op c x R) as [R1|] eqn:E; [|discriminate]. apply andb_true_iff in Hg. destruct Hg as [G1 G2].
    destruct (run_op_sframe S c x R R1 E Hc Hok G1) as [F1 Hok1].
    destruct (IH R1 R' H Hc Hok1 G2) as [F2 Hok2]. split; [eapply sframe_trans; eauto|exact Hok2].
Qed.

(* (b) HISTORY FORM: along ANY history of operations of class c whose steps pass the guards, every rule of every
   class of a reference-closed set S that does not contain c behaves as before *)
Theorem run_ops_behaviour S c ops R R' :
  run_ops c ops R = Some R' -> reg_ok R -> inS S c = false -> closedb R S = true -> guardsb S c ops R = true ->
  (forall k o, nth_error (objs R) k = Some o -> inS S (ocls o) = true -> same_beh R R' k) /\
  closedb R' S = true /\ reg_ok R'.
Proof.
  intros H Hok Hc HC Hg. destruct (run_ops_sframe S c ops R R' H Hc Hok Hg) as [F Hok'].
  split; [eapply frame_behaviour; eauto|]. split; [eapply closedb_sframe; eauto|exact Hok'].
Qed.

(* the core rules, and the library's own ABNF reader *)
Corollary run_ops_core c ops R R' : c <> 0%N ->
  run_ops c ops R = Some R' -> reg_ok R -> closedb R [0%N] = true -> guardsb [0%N] c ops R = true ->
  forall k o, nth_error (objs R) k = Some o -> ocls o = 0%N -> same_beh R R' k.
Proof.
  intros Hc H Hok HC Hg k o Hk Ho.
  assert (HcS : inS [0%N] c = false).
  { unfold inS. simpl. rewrite orb_false_r. apply N.eqb_neq. exact Hc. }
  apply (proj1 (run_ops_behaviour [0%N] c ops R R' H Hok HcS HC Hg) k o Hk). rewrite Ho. reflexivity.
Qed.
Corollary run_ops_reader c ops R R' : (2 <= c)%N ->
  run_ops c ops R = Some R' -> reg_ok R -> closedb R [0%N; 1%N] = true -> guardsb [0%N; 1%N] c ops R = true ->
  forall k o, nth_error (objs R) k = Some o -> (ocls o = 0%N \/ ocls o = 1%N) -> same_beh R R' k.
Proof.
  intros Hc H Hok HC Hg k o Hk Ho.
  assert (HcS : inS [0%N; 1%N] c = false).
  { unfold inS. simpl. rewrite orb_false_r. apply orb_false_iff. split; apply N.eqb_neq; lia. }
  apply (proj1 (run_ops_behaviour [0%N; 1%N] c ops R R' H Hok HcS HC Hg) k o Hk).
  destruct Ho as [-> | ->]; reflexivity.
Qed.

(* ------------------------------------------------------------------------------------------ *)
(* D. non-vacuity: a history on the boot registry                                              *)
(* ------------------------------------------------------------------------------------------ *)
Open Scope string_scope.
Definition ex_ops : list op :=
  [OCreate (s_of "foo = 1*DIGIT bar");
   OCreate (s_of "bar = ""x"" / ALPHA");
   OCreate (s_of "bar =/ ""y"" foo");
   OFlag (s_of "bar") true;
   OExcl (s_of "foo") (s_of "bar")].
Close Scope string_scope.
Definition ex_R : reg := match run_ops 2%N ex_ops (r_boot tt) with Some R => R | None => reg0 end.

Definition is_some {A} (x : option A) : bool := match x with Some _ => true | None => false end.
Lemma some_get (x : option reg) : is_some x = true -> x = Some (match x with Some R => R | None => reg0 end).
Proof. destruct x; [reflexivity|discriminate]. Qed.

Definition ex_checks : bool :=
  is_some (run_ops 2%N ex_ops (r_boot tt)) && wfb (r_boot tt) &&
  closedb (r_boot tt) [0%N; 1%N] && guardsb [0%N; 1%N] 2%N ex_ops (r_boot tt) &&
  (* the history did something: 3 new definition objects, and "bar" is now first-match *)
  Nat.eqb (length (defs ex_R)) (3 + length (defs (r_boot tt))) &&
  match rget ex_R 2%N [98; 97; 114]%N with Some n => get_flag n ex_R | None => false end.
Lemma ex_checks_ok : ex_checks = true.
Proof. vm_cast_no_check (eq_refl true). Qed.

(* generic wrapper, so that no tactic looks inside the computed registries *)
Lemma example_gen (R0 : reg) (ops : list op) (c : cls) :
  (2 <= c)%N ->
  is_some (run_ops c ops R0) && wfb R0 && closedb R0 [0%N; 1%N] && guardsb [0%N; 1%N] c ops R0 = true ->
  exists R', run_ops c ops R0 = Some R' /\
    forall k o, nth_error (objs R0) k = Some o -> (ocls o = 0%N \/ ocls o = 1%N) -> same_beh R0 R' k.
Proof.
  intros Hc H. apply andb_true_iff in H. destruct H as [H G]. apply andb_true_iff in H. destruct H as [H C].
  apply andb_true_iff in H. destruct H as [S W].
  exists (match run_ops c ops R0 with Some R => R | None => reg0 end). split; [apply some_get; exact S|].
  apply (run_ops_reader c ops R0 _ Hc (some_get _ S) (wf_ok _ (wfb_sound _ W)) C G).
Qed.

Example history_on_boot :
  exists R', run_ops 2%N ex_ops (r_boot tt) = Some R' /\
    forall k o, nth_error (objs (r_boot tt)) k = Some o -> (ocls o = 0%N \/ ocls o = 1%N) ->
                same_beh (r_boot tt) R' k.
Proof.
  apply example_gen; [lia|].
  pose proof ex_checks_ok as H. unfold ex_checks in H.
  apply andb_true_iff in H. destruct H as [H _]. apply andb_true_iff in H. destruct H as [H _]. exact H.
Qed.

(* ------------------------------------------------------------------------------------------ *)
(* E. the guard is needed: defining DIGIT in a grammar class changes the core rule DIGIT       *)
(* ------------------------------------------------------------------------------------------ *)
Open Scope string_scope.
Definition bad_op : op := OCreate (s_of "DIGIT = ""x""").
Close Scope string_scope.
Definition s_DIGIT' : str := [68; 73; 71; 73; 84]%N.
Definition res_ok (r : res) : bool := match r with Ok (_ :: _) => true | _ => false end.
Definition res_perr (r : res) : bool := match r with PErr => true | _ => false end.
Definition bad_reg (bop : op) (R0 : reg) : reg := match run_op 2%N bop R0 with Some R => R | None => reg0 end.
Definition k_digit (R0 : reg) : nat := match rget R0 0%N s_DIGIT' with Some k => k | None => 0 end.

Definition refute_chk (bop : op) (R0 : reg) : bool :=
  is_some (run_op 2%N bop R0) &&
  negb (guardb [0%N] 2%N bop R0) &&                                                   (* the guard fails *)
  match nth_error (objs R0) (k_digit R0) with Some o => N.eqb (ocls o) 0 | None => false end &&
  closedb R0 [0%N] && wfb R0 &&                                                       (* everything else holds *)
  (* the core rule DIGIT accepted "7" and rejected "x"; afterwards it rejects "7" and accepts "x" *)
  res_ok (parse_all sh_id (grammar_of R0) 50 (N.of_nat (k_digit R0)) [55%N]) &&
  res_perr (parse_all sh_id (grammar_of R0) 50 (N.of_nat (k_digit R0)) [120%N]) &&
  res_perr (parse_all sh_id (grammar_of (bad_reg bop R0)) 50 (N.of_nat (k_digit R0)) [55%N]) &&
  res_ok (parse_all sh_id (grammar_of (bad_reg bop R0)) 50 (N.of_nat (k_digit R0)) [120%N]).

Theorem core_clash_behaviour_refuted : refute_chk bad_op (r_boot tt) = true.
Proof. vm_cast_no_check (eq_refl true). Qed.

Lemma differ_gen R R' k x :
  res_ok (parse_all sh_id (grammar_of R) 50 (N.of_nat k) x) = true ->
  res_perr (parse_all sh_id (grammar_of R') 50 (N.of_nat k) x) = true -> ~ same_beh R R' k.
Proof.
  intros A B Hb. destruct (Hb sh_id 50 x 0) as (_ & _ & E). rewrite E in B.
  destruct (parse_all sh_id (grammar_of R) 50 (N.of_nat k) x) as [[|m ms]| | |]; simpl in A, B; discriminate.
Qed.

Lemma refute_gen bop R0 : refute_chk bop R0 = true ->
  exists c ops R' k o, c <> 0%N /\ run_ops c ops R0 = Some R' /\ reg_ok R0 /\ closedb R0 [0%N] = true /\
    guardsb [0%N] c ops R0 = false /\
    nth_error (objs R0) k = Some o /\ ocls o = 0%N /\ ~ same_beh R0 R' k.
Proof.
  unfold refute_chk. intros H.
  apply andb_true_iff in H. destruct H as [H X9]. apply andb_true_iff in H. destruct H as [H X8].
  apply andb_true_iff in H. destruct H as [H X7]. apply andb_true_iff in H. destruct H as [H X6].
  apply andb_true_iff in H. destruct H as [H X5]. apply andb_true_iff in H. destruct H as [H X4].
  apply andb_true_iff in H. destruct H as [H X3]. apply andb_true_iff in H. destruct H as [X1 X2].
  exists 2%N, [bop], (bad_reg bop R0), (k_digit R0).
  destruct (nth_error (objs R0) (k_digit R0)) as [o|] eqn:Eo; [|discriminate X3].
  exists o. split; [discriminate|]. split.
  - simpl. unfold bad_reg. destruct (run_op 2%N bop R0); [reflexivity|discriminate X1].
  - split; [exact (wf_ok _ (wfb_sound _ X5))|]. split; [exact X4|]. split.
    + simpl. apply negb_true_iff in X2. rewrite X2. reflexivity.
    + split; [reflexivity|]. split; [apply N.eqb_eq; exact X3|].
      exact (differ_gen R0 (bad_reg bop R0) (k_digit R0) [55%N] X6 X8).
Qed.

(* in the form of a failed conclusion of run_ops_core: all its hypotheses but the guard hold *)
Corollary isolation_without_guard_refuted :
  exists c ops R' k o, c <> 0%N /\ run_ops c ops (r_boot tt) = Some R' /\ reg_ok (r_boot tt) /\
    closedb (r_boot tt) [0%N] = true /\ guardsb [0%N] c ops (r_boot tt) = false /\
    nth_error (objs (r_boot tt)) k = Some o /\ ocls o = 0%N /\ ~ same_beh (r_boot tt) R' k.
Proof. exact (refute_gen bad_op (r_boot tt) core_clash_behaviour_refuted). Qed.

Print Assumptions frame_behaviour.
Print Assumptions define_rules_behaviour.
Print Assumptions create_behaviour.
Print Assumptions load_grammar_behaviour.
Print Assumptions set_flag_behaviour.
Print Assumptions run_ops_behaviour.
Print Assumptions run_ops_core.
Print Assumptions run_ops_reader.
Print Assumptions history_on_boot.
Print Assumptions core_clash_behaviour_refuted.
Print Assumptions isolation_without_guard_refuted.
