(* TablesAll.v — every bundled grammar class loaded (loader model on the GENERATED texts), as an association list. *)
From Coq Require Import String List NArith Arith Bool.
Import ListNotations.
From ABNF Require Import Base Engine AbnfRead Registry GenTypes Loader GenBundled Bundled.

Definition R_all : reg := match r_all tt with Some R => R | None => reg0 end.
Definition l_all : list (rid * rule) := grammar_list R_all.

(* canonical, rid-independent form of a definition: references by (class, folded name), cache ids dropped *)
Fixpoint canon (R : reg) (e : expr) : texpr :=
  match e with
  | ELit cs v => TLit cs v
  | ERange lo hi => TRange lo hi
  | EAlt fm es => TAlt fm (map (canon R) es)
  | ECat es => TCat (map (canon R) es)
  | ERep _ mn mx e' => TRep mn mx (canon R e')
  | EProse => TProse
  | ERef r => match nth_error (objs R) (N.to_nat r) with
              | Some o => TRef (ocls o) (okey o)
              | None => TRef 4000000%N []
              end
  end.
Fixpoint texpr_eqb (a b : texpr) {struct a} : bool :=
  match a, b with
  | TLit c1 v1, TLit c2 v2 => Bool.eqb c1 c2 && str_eqb v1 v2
  | TRange l1 h1, TRange l2 h2 => N.eqb l1 l2 && N.eqb h1 h2
  | TAlt f1 e1, TAlt f2 e2 =>
    Bool.eqb f1 f2 && (fix go (x y : list texpr) : bool :=
                         match x, y with
                         | [], [] => true
                         | p :: x', q :: y' => texpr_eqb p q && go x' y'
                         | _, _ => false
                         end) e1 e2
  | TCat e1, TCat e2 =>
    (fix go (x y : list texpr) : bool :=
       match x, y with
       | [], [] => true
       | p :: x', q :: y' => texpr_eqb p q && go x' y'
       | _, _ => false
       end) e1 e2
  | TRep m1 x1 e1, TRep m2 x2 e2 =>
    Nat.eqb m1 m2 && match x1, x2 with Some p, Some q => Nat.eqb p q | None, None => true | _, _ => false end &&
    texpr_eqb e1 e2
  | TOpt e1, TOpt e2 => texpr_eqb e1 e2
  | TProse, TProse => true
  | TRef c1 n1, TRef c2 n2 => N.eqb c1 c2 && str_eqb n1 n2
  | _, _ => false
  end.

(* observable configuration of one rule object: spelling, definition (canonical, with its flags), exclusion *)
Definition snap_obj (R : reg) (o : robj) : str * str * option texpr * option (cls * str) :=
  (okey o, oname o,
   match odef o with Some d => match nth_error (defs R) d with Some e => Some (canon R e) | None => None end | None => None end,
   match oexcl o with
   | Some x => match nth_error (objs R) (N.to_nat x) with Some o' => Some (ocls o', okey o') | None => None end
   | None => None
   end).
Definition snap_eqb (a b : str * str * option texpr * option (cls * str)) : bool :=
  let '(k1, n1, d1, x1) := a in let '(k2, n2, d2, x2) := b in
  str_eqb k1 k2 && str_eqb n1 n2 &&
  match d1, d2 with Some p, Some q => texpr_eqb p q | None, None => true | _, _ => false end &&
  match x1, x2 with Some (c1, s1), Some (c2, s2) => N.eqb c1 c2 && str_eqb s1 s2 | None, None => true | _, _ => false end.
Definition class_snapshot (R : reg) (c : cls) := map (snap_obj R) (filter (fun o => N.eqb (ocls o) c) (objs R)).
Fixpoint list_eqb {A : Type} (f : A -> A -> bool) (x y : list A) : bool :=
  match x, y with
  | [], [] => true
  | a :: x', b :: y' => f a b && list_eqb f x' y'
  | _, _ => false
  end.
Definition same_class (R1 R2 : reg) (c : cls) : bool := list_eqb snap_eqb (class_snapshot R1 c) (class_snapshot R2 c).

(* the import of a list of modules in the given order (Python imports the dependencies of each first) *)
Definition r_order (ms : list str) : option reg :=
  load_classes bundled (classes_of_modules (dep_closure 400 ms [])) (r_boot tt).
Definition module_names : list str :=
  (fix dedup (l : list str) (acc : list str) : list str :=
     match l with
     | [] => rev acc
     | m :: r => if existsb (str_eqb m) acc then dedup r acc else dedup r (m :: acc)
     end) (map gmod bundled) [].
Definition classes_of (m : str) : list cls :=
  flat_map (fun g => if str_eqb (gmod g) m then match cls_of bundled (gmod g) (gcls g) with Some c => [c] | None => [] end else [])
           bundled.
(* every class of module m (and the core and meta classes) looks the same in R1 and R2 *)
Definition same_module (R1 R2 : reg) (m : str) : bool :=
  forallb (same_class R1 R2) (classes_of m).
