(* L_C05.v — the ABNF reader accepts exactly RFC 5234 + RFC 7405 ABNF: C01 instantiated on the GENERATED
   meta/core tables (wf, closed, plain by verified checkers under vm_compute) composed with the verified
   language-equivalence check against the grammar read from the RFC text. *)
From Coq Require Import String List NArith Arith Bool Lia.
Import ListNotations.
From ABNF Require Import Base Engine Spec Wf Checks WfCheck Cert LangEq L_C01
     AbnfRead Registry GenTypes Loader Bundled RfcSpec Tables.

Definition all_defined (l : list (rid * rule)) (pairs : list (rid * rid)) : bool :=
  forallb (fun p => definedb l (fst p)) pairs.

(* general schema: any two grammars given as lists *)
Lemma eq_schema l1 l2 pairs fuel :
  auto_wf l1 = true -> closed_check l1 = true -> plain_check l1 = true ->
  all_defined l1 pairs = true ->
  lang_eq_check (of_list l1) (of_list l2) pairs fuel = true ->
  forall a b, In (a, b) pairs ->
  forall sh, perm_oracle sh -> forall s i, i <= List.length s ->
  exists f, forall f', f <= f' ->
    lparse sh (of_list l1) f' (ERef a) s i <> OOF /\ lparse sh (of_list l1) f' (ERef a) s i <> GErr /\
    (forall j, In j (ends (lparse sh (of_list l1) f' (ERef a) s i)) <-> M (of_list l2) s (ERef b) i j).
Proof.
  intros Hwf Hcl Hpl Hdef Heq a b Hab sh Hsh s i Hi.
  destruct (auto_wf_sound l1 Hwf) as [nul [rank Hw]].
  assert (Hd : defined (of_list l1) a).
  { apply definedb_sound. unfold all_defined in Hdef. rewrite forallb_forall in Hdef.
    exact (Hdef (a, b) Hab). }
  destruct (c01 sh nul rank (of_list l1) Hsh Hw (closed_check_sound l1 Hcl) (plain_check_sound l1 Hpl)
                a s i Hd Hi) as [f Hf].
  exists f. intros f' Hle. destruct (Hf f' Hle) as [H1 [H2 H3]].
  split; [exact H1|]. split; [exact H2|].
  intros j. rewrite H3. apply (lang_eq_sound _ _ _ _ Heq a b Hab).
Qed.

(* the obligations over the generated tables: closed by kernel evaluation of verified checkers *)
Lemma meta_wf : auto_wf l_meta = true. Proof. vm_cast_no_check (eq_refl true). Qed.
Lemma meta_closed : closed_check l_meta = true. Proof. vm_cast_no_check (eq_refl true). Qed.
Lemma meta_plain : plain_check l_meta = true. Proof. vm_cast_no_check (eq_refl true). Qed.
Lemma meta_pairs_count : List.length meta_pairs = 40. Proof. vm_compute. reflexivity. Qed.
Lemma meta_pairs_defined : all_defined l_meta meta_pairs = true. Proof. vm_cast_no_check (eq_refl true). Qed.
Lemma meta_eq_rfc : lang_eq_check (of_list l_meta) (of_list l_rfc) meta_pairs 60 = true.
Proof. vm_cast_no_check (eq_refl true). Qed.
Lemma rfc_text_reads : match r_rfc tt with Some R => List.length (objs R) = 40 | None => False end.
Proof. vm_compute. reflexivity. Qed.

Lemma c05 : forall a b, In (a, b) meta_pairs ->
  forall sh, perm_oracle sh -> forall s i, i <= List.length s ->
  exists f, forall f', f <= f' ->
    lparse sh (of_list l_meta) f' (ERef a) s i <> OOF /\ lparse sh (of_list l_meta) f' (ERef a) s i <> GErr /\
    (forall j, In j (ends (lparse sh (of_list l_meta) f' (ERef a) s i)) <-> M (of_list l_rfc) s (ERef b) i j).
Proof.
  exact (eq_schema l_meta l_rfc meta_pairs 60 meta_wf meta_closed meta_plain meta_pairs_defined meta_eq_rfc).
Qed.

(* every one of the 24 meta rules and 16 core rules is among the pairs, under its own name *)
Definition names24 : list string :=
  ["rulelist"; "rule"; "rulename"; "defined-as"; "elements"; "c-wsp"; "c-nl"; "comment"; "alternation";
   "concatenation"; "repetition"; "repeat"; "element"; "group"; "option"; "char-val"; "num-val"; "bin-val";
   "dec-val"; "hex-val"; "prose-val"; "case-insensitive-string"; "case-sensitive-string"; "quoted-string"].
Definition names16 : list string :=
  ["ALPHA"; "BIT"; "CHAR"; "CR"; "CRLF"; "CTL"; "DIGIT"; "DQUOTE"; "HEXDIG"; "HTAB"; "LF"; "LWSP"; "OCTET";
   "SP"; "VCHAR"; "WSP"].
Definition pair_named (c : cls) (nm : string) : bool :=
  match rid_of (r_boot tt) c nm, rid_of R_rfc 2%N nm with
  | Some a, Some b => existsb (fun p => N.eqb (fst p) a && N.eqb (snd p) b) meta_pairs
  | _, _ => false
  end.
Lemma all_40_rules_paired :
  forallb (pair_named 1%N) names24 = true /\ forallb (pair_named 0%N) names16 = true.
Proof. split; vm_compute; reflexivity. Qed.
