(* L_C06.v — the core rules (GENERATED from parser.py) are exactly RFC 5234 Appendix B.1. *)
From Coq Require Import String List NArith Arith Bool Lia.
Import ListNotations.
From ABNF Require Import Base Engine Spec Wf Checks WfCheck Cert LangEq L_C01 L_C05
     AbnfRead Registry GenTypes Loader Bundled RfcSpec Tables TablesAll.

Definition G_meta : grammar := of_list l_meta.

Definition class_ok2 (nm : string) (cls : list (N * N)) : bool :=
  match rid_of (r_boot tt) 0%N nm with
  | Some a => match charclass G_meta 20 (ERef a) with Some l => cc_eqb l cls | None => false end && definedb l_meta a
  | None => false
  end.
Opaque l_meta r_boot l_rfc R_rfc meta_pairs.
(* generic in the grammar and the rule id: nothing big is ever unfolded in this proof *)
Lemma class_sound_gen (G : grammar) (l0 : list (rid * rule)) (ra : option rid) (cls : list (N * N)) :
  match ra with
  | Some a => match charclass G 20 (ERef a) with Some l => cc_eqb l cls | None => false end && definedb l0 a
  | None => false
  end = true ->
  exists a, ra = Some a /\ definedb l0 a = true /\
    forall s i j, M G s (ERef a) i j <->
      (j = i + 1 /\ exists c, nth_error s i = Some c /\ in_cc c cls = true).
Proof.
  destruct ra as [a|]; [|discriminate].
  intros H. apply andb_true_iff in H. destruct H as [H Hd].
  destruct (charclass G 20 (ERef a)) as [l|] eqn:E; [|discriminate].
  exists a. split; [reflexivity|]. split; [exact Hd|]. intros s i j.
  rewrite (charclass_sound _ _ _ _ E s i j).
  split; intros [Hj [c [Hc Hm]]]; (split; [exact Hj|]); exists c; (split; [exact Hc|]).
  - rewrite <- (cc_eqb_sound _ _ H c). exact Hm.
  - rewrite (cc_eqb_sound _ _ H c). exact Hm.
Qed.
Lemma class_ok2_sound nm cls : class_ok2 nm cls = true ->
  exists a, rid_of (r_boot tt) 0%N nm = Some a /\ defined G_meta a /\
    forall s i j, M G_meta s (ERef a) i j <->
      (j = i + 1 /\ exists c, nth_error s i = Some c /\ in_cc c cls = true).
Proof.
  unfold class_ok2. intros H.
  destruct (class_sound_gen G_meta l_meta (rid_of (r_boot tt) 0%N nm) cls H) as [a [Ha [Hd Hs]]].
  exists a. split; [exact Ha|]. split; [exact (definedb_sound l_meta a Hd)|exact Hs].
Qed.
Lemma b1_classes_ok : forallb (fun p => class_ok2 (fst p) (snd p)) b1_classes = true.
Proof. vm_cast_no_check (eq_refl true). Qed.

(* for EVERY natural number c (not only c <= 0x10FFFF) and every string/offset: the rule matches exactly one
   character, and exactly the characters B.1 lists *)
Lemma c06_single nm cls : In (nm, cls) b1_classes ->
  exists a, rid_of (r_boot tt) 0%N nm = Some a /\ defined G_meta a /\
    forall s i j, M G_meta s (ERef a) i j <->
      (j = i + 1 /\ exists c, nth_error s i = Some c /\ in_cc c cls = true).
Proof.
  intros Hin. pose proof b1_classes_ok as H. rewrite forallb_forall in H.
  exact (class_ok2_sound nm cls (H (nm, cls) Hin)).
Qed.

(* the engine on a one-character string: accepts iff the character is listed *)
Lemma c06_engine nm cls : In (nm, cls) b1_classes ->
  exists a, rid_of (r_boot tt) 0%N nm = Some a /\
    forall sh, perm_oracle sh -> forall c : N,
    exists f, forall f', f <= f' ->
      (In 1 (ends (lparse sh G_meta f' (ERef a) [c] 0)) <-> in_cc c cls = true) /\
      (forall j, In j (ends (lparse sh G_meta f' (ERef a) [c] 0)) -> j = 1).
Proof.
  intros Hin. destruct (c06_single nm cls Hin) as [a [Ha [Hd Hspec]]]. exists a. split; [exact Ha|].
  intros sh Hsh c.
  destruct (auto_wf_sound l_meta meta_wf) as [nul [rank Hw]].
  destruct (c01 sh nul rank G_meta Hsh Hw (closed_check_sound _ meta_closed) (plain_check_sound _ meta_plain)
                a [c] 0 Hd (Nat.le_0_l _)) as [f Hf].
  exists f. intros f' Hle. destruct (Hf f' Hle) as [_ [_ H3]]. split.
  - rewrite H3, Hspec. split.
    + intros [_ [c' [Hc' Hm]]]. cbn [nth_error] in Hc'. inversion Hc'; subst. exact Hm.
    + intros Hm. split; [reflexivity|]. exists c. split; [reflexivity|exact Hm].
  - intros j Hj. apply (proj1 (H3 j)) in Hj. apply (proj1 (Hspec _ _ _)) in Hj. destruct Hj as [Hj _]. exact Hj.
Qed.

(* CRLF accepts exactly CR LF *)
Definition crlf_shape (G : grammar) (a cr lf : rid) : bool :=
  match G a with
  | Some ru => match rdef ru with
               | Some (ECat [ERef x; ERef y]) => N.eqb x cr && N.eqb y lf
               | _ => false
               end
  | None => false
  end.

Lemma crlf_gen (G : grammar) (a cr lf : rid) : crlf_shape G a cr lf = true ->
  (forall s i j, M G s (ERef cr) i j <-> (j = i + 1 /\ exists c, nth_error s i = Some c /\ in_cc c [(13, 13)]%N = true)) ->
  (forall s i j, M G s (ERef lf) i j <-> (j = i + 1 /\ exists c, nth_error s i = Some c /\ in_cc c [(10, 10)]%N = true)) ->
  forall s i j, M G s (ERef a) i j <->
    (j = i + 2 /\ nth_error s i = Some 13%N /\ nth_error s (i + 1) = Some 10%N).
Proof.
  unfold crlf_shape. intros H Scr Slf.
  destruct (G a) as [ru|] eqn:EG; [|discriminate H].
  destruct (rdef ru) as [d|] eqn:Ed; [|discriminate H].
  destruct d as [| | |es| | |]; try discriminate H.
  destruct es as [|e1 es]; try discriminate H. destruct e1 as [| | | | | |x]; try discriminate H.
  destruct es as [|e2 es]; try discriminate H. destruct e2 as [| | | | | |y]; try discriminate H.
  destruct es; try discriminate H.
  apply andb_true_iff in H. destruct H as [Hx Hy]. apply N.eqb_eq in Hx. apply N.eqb_eq in Hy. subst x y.
  intros s i j. split.
  - intros HM. inversion HM as [| | | | | |r ru' d' i' j' HG Hd HMd]; subst.
    rewrite EG in HG. inversion HG; subst ru'. rewrite Ed in Hd. inversion Hd; subst d'.
    inversion HMd as [| | | |e es i0 j0 k0 H1 H2| |]; subst.
    inversion H2 as [| | | |e' es' i1 j1 k1 H3 H4| |]; subst.
    inversion H4; subst.
    apply (proj1 (Scr _ _ _)) in H1. apply (proj1 (Slf _ _ _)) in H3.
    destruct H1 as [-> [c1 [Hc1 Hm1]]]. destruct H3 as [-> [c2 [Hc2 Hm2]]].
    unfold in_cc in Hm1, Hm2. cbn [existsb fst snd] in Hm1, Hm2. rewrite orb_false_r in Hm1, Hm2.
    apply andb_true_iff in Hm1. apply andb_true_iff in Hm2.
    destruct Hm1 as [A1 A2]. destruct Hm2 as [B1 B2].
    apply N.leb_le in A1. apply N.leb_le in A2. apply N.leb_le in B1. apply N.leb_le in B2.
    assert (c1 = 13%N) by lia. assert (c2 = 10%N) by lia. subst.
    repeat split; auto; lia.
  - intros [-> [H1 H2]].
    econstructor; [exact EG|exact Ed|].
    econstructor; [apply (proj2 (Scr _ _ _)); split; [reflexivity|exists 13%N; split; [exact H1|reflexivity]]|].
    replace (i + 2) with (i + 1 + 1) by lia.
    econstructor; [apply (proj2 (Slf _ _ _)); split; [reflexivity|exists 10%N; split; [exact H2|reflexivity]]|].
    constructor.
    assert (i + 1 < List.length s) by (apply nth_error_Some; congruence). lia.
Qed.

Definition crlf_def_ok : bool :=
  match rid_of (r_boot tt) 0%N "CRLF", rid_of (r_boot tt) 0%N "CR", rid_of (r_boot tt) 0%N "LF" with
  | Some a, Some cr, Some lf => crlf_shape G_meta a cr lf
  | _, _, _ => false
  end.
Lemma crlf_def : crlf_def_ok = true. Proof. vm_cast_no_check (eq_refl true). Qed.

Lemma c06_crlf : exists a, rid_of (r_boot tt) 0%N "CRLF" = Some a /\
  forall s i j, M G_meta s (ERef a) i j <->
    (j = i + 2 /\ nth_error s i = Some 13%N /\ nth_error s (i + 1) = Some 10%N).
Proof.
  pose proof crlf_def as H. unfold crlf_def_ok in H.
  destruct (c06_single "CR" [(13, 13)]%N) as [cr' [Hcr' [_ Scr]]]; [do 3 right; left; reflexivity|].
  destruct (c06_single "LF" [(10, 10)]%N) as [lf' [Hlf' [_ Slf]]]; [do 9 right; left; reflexivity|].
  rewrite Hcr', Hlf' in H.
  destruct (rid_of (r_boot tt) 0%N "CRLF") as [a|]; [|discriminate H].
  exists a. split; [reflexivity|]. exact (crlf_gen G_meta a cr' lf' H Scr Slf).
Qed.

(* LWSP (and every other core rule) has the language of its B.1 text *)
Lemma c06_as_text : forall nm, In nm names16 ->
  exists a b, rid_of (r_boot tt) 0%N nm = Some a /\ rid_of R_rfc 2%N nm = Some b /\
    forall s i j, M G_meta s (ERef a) i j <-> M (of_list l_rfc) s (ERef b) i j.
Proof.
  intros nm Hin. destruct all_40_rules_paired as [_ H16]. rewrite forallb_forall in H16.
  specialize (H16 _ Hin). unfold pair_named in H16.
  destruct (rid_of (r_boot tt) 0%N nm) as [a|]; [|discriminate].
  destruct (rid_of R_rfc 2%N nm) as [b|]; [|discriminate].
  exists a, b. split; [reflexivity|]. split; [reflexivity|]. intros s i j.
  apply existsb_exists in H16. destruct H16 as [[a' b'] [Hp Heq]]. cbn [fst snd] in Heq.
  apply andb_true_iff in Heq. destruct Heq as [E1 E2]. apply N.eqb_eq in E1. apply N.eqb_eq in E2. subst.
  unfold G_meta. exact (lang_eq_sound (of_list l_meta) (of_list l_rfc) meta_pairs 60 meta_eq_rfc a b Hp s i j).
Qed.
(* loading EVERY bundled module leaves the core class (and the meta class) exactly as `import abnf.parser` made them:
   no bundled grammar text redefines a core or meta rule (obligation over the translated module descriptions) *)
Lemma core_unchanged_by_bundled_modules :
  same_class (r_boot tt) R_all 0%N && same_class (r_boot tt) R_all 1%N = true.
Proof. vm_cast_no_check (eq_refl true). Qed.

(* as seen from any grammar class: a class without a rule of that name resolves it to the core rule object *)
Lemma core_seen_from_any_class R c name :
  find_obj c (fold_name name) (objs R) 0 = None -> rget R c name = find_obj 0%N (fold_name name) (objs R) 0.
Proof. intros H. unfold rget. rewrite H. reflexivity. Qed.
