(* Compile.v — the library's way of reading ABNF text, as a model: run the engine on the hand-written
   meta-grammar (as translated from parser.py) to get a parse tree, then the visitor model.
   [lib_create] / [lib_load_grammar] are the counterparts of Registry.create / Registry.load_grammar,
   which use the independent spec reader AbnfRead.   MODEL ONLY: no proofs here. *)
From Coq Require Import List NArith Arith Bool String.
Import ListNotations.
From ABNF Require Import Base Engine AbnfRead Registry GenTypes Visit Visitor.

Inductive lres := LOk (R : reg) | LParseError | LOther | LOOF.   (* LOther = another exception (visitor) *)

Definition meta_rule (R : reg) (name : string) : option nat := find_obj 1%N (fold_name (s_of name)) (objs R) 0.

(* Rule.create: parse with ABNFGrammarRule("rule"), reject a partial match, then visit *)
Definition lib_create (fuel : nat) (c : cls) (text : str) (R : reg) : lres :=
  let src := ensure_crlf text in
  match meta_rule R "rule" with
  | None => LOther
  | Some r =>
    match parse sh_id (grammar_of R) fuel (N.of_nat r) src 0 with
    | Ok (m :: _) =>
      if Nat.ltb (mend m) (List.length src) then LParseError
      else match nodes m with
           | [t] => match v_rule c t R with Some R' => LOk R' | None => LOther end
           | _ => LOther
           end
    | Ok [] => LOther
    | PErr => LParseError
    | GErr => LOther
    | OOF => LOOF
    end
  end.

(* Rule.load_grammar / load_grammar_rulelist: parse_all with ABNFGrammarRule("rulelist"), then visit *)
Definition lib_load_grammar (fuel : nat) (c : cls) (text : str) (strict : bool) (R : reg) : lres :=
  let src := if strict then normalise text else text in
  match meta_rule R "rulelist" with
  | None => LOther
  | Some r =>
    match parse_all sh_id (grammar_of R) fuel (N.of_nat r) src with
    | Ok (m :: _) =>
      match nodes m with
      | [t] => match v_rulelist c t R with Some R' => LOk R' | None => LOther end
      | _ => LOther
      end
    | Ok [] => LOther
    | PErr => LParseError
    | GErr => LOther
    | OOF => LOOF
    end
  end.
