(* LoadBundled2.v — C14, strengthened real-data theorems:
   (1) C14_all_orders' / C14_class_orders': as in LoadBundled.v, plus the library's own reader class
       (class 1 = ABNFGrammarRule) keeps its configuration;
   (2) C14_behaviour: from configuration to BEHAVIOUR — for every import list, every module imported, every rule
       of its classes (looked up by class and name): lparse / parse / parse_all give the same results in the
       registry of that import as in R_all, for every oracle, fuel, text and offset;
       C14_behaviour_core: the same for the core class and the reader class. *)
From Coq Require Import List NArith Arith Bool Lia.
Import ListNotations.
From ABNF Require Import Base Engine AbnfRead Registry EngineSound RegistryProps GenTypes Loader
     GenBundled Bundled TablesAll LoadFrame1 LoadWf LoadFrame2 LoadUq LoadAbs LoadOrder LoadClosure
     LoadBundled LoadBehave.

Lemma dep_ok_weaken classes L : forall l1 l2, dep_ok classes l1 L -> incl l1 l2 ->
  (forall c, In c l2 -> ~ In c l1 -> forall g, In g L -> cnum classes g <> Some c) -> dep_ok classes l2 L.
Proof.
  induction L as [|g r IH]; intros l1 l2 H Hi Hn; simpl in *; [exact I|].
  destruct (cnum classes g) as [c|] eqn:Ec; [|contradiction]. destruct H as (H1 & H2 & H3).
  split; [|split].
  - intros Hc. destruct (in_dec N.eq_dec c l1) as [Hl|Hl]; [exact (H1 Hl)|].
    exact (Hn c Hc Hl g (or_introl eq_refl) Ec).
  - intros x Hx. apply Hi, H2, Hx.
  - apply (IH (c :: l1) (c :: l2) H3).
    + intros x [<-|Hx]; [left; reflexivity|right; apply Hi, Hx].
    + intros c' [<-|Hc'] Hnc g' Hg'; [exfalso; apply Hnc; left; reflexivity|].
      apply (Hn c' Hc'); [|right; exact Hg']. intros Hl. apply Hnc. right; exact Hl.
Qed.

Lemma gclosure_sub classes A : (forall m, In m A -> forall d, In d (deps classes m) -> In d A) ->
  forall f todo acc0, incl todo A -> incl acc0 A -> incl (gclosure classes f todo acc0) A.
Proof.
  intros HA. induction f as [|f IH]; intros todo acc0 Ht Ha; simpl; [exact Ha|].
  destruct todo as [|m r]; [exact Ha|].
  assert (Hm : In m A) by (apply Ht; left; reflexivity).
  assert (Hr : incl r A) by (intros x Hx; apply Ht; right; exact Hx).
  destruct (existsb (str_eqb m) acc0); [apply IH; assumption|].
  assert (H1 : incl (gclosure classes f (deps classes m) acc0) A).
  { apply IH; [|exact Ha]. intros d Hd. exact (HA m Hm d Hd). }
  apply IH; [exact Hr|].
  destruct (existsb (str_eqb m) (gclosure classes f (deps classes m) acc0)); [exact H1|].
  intros x Hx. apply in_app_or in Hx. destruct Hx as [Hx|[<-|[]]]; [apply H1, Hx|exact Hm].
Qed.

Section Generic2.
  Variables (classes : list gclass) (names : list str) (R0 Rref : reg) (fuel : nat).
  Hypotheses (H1 : chk_boot R0 Rref = true) (H2 : chk_static classes Rref = true)
             (H3 : chk_deps classes names = true) (H4 : chk_cn classes = true)
             (H5 : chk_mod classes names = true).
  Definition chk_boot1 : bool := same_class R0 Rref 1%N.
  Definition chk_ref : bool := wfb Rref && uqb Rref.
  Definition Sm (m : str) : list cls := 0%N :: lc classes (gclosure classes fuel [m] []).
  Definition chk_closed : bool := forallb (fun m => closedb Rref (Sm m)) names && closedb Rref [0%N; 1%N].
  Hypotheses (H6 : chk_boot1 = true) (H7 : chk_ref = true) (H8 : chk_closed = true).
  Hypothesis Hfuel : 1 + Dm * S (length names) <= fuel.

  Local Notation sigr := (sig Rref).

  Lemma inv_start1 : inv sigr R0 [1%N].
  Proof.
    destruct (inv_start R0 Rref H1) as [W U C _ O]. constructor; auto.
    - intros c [<-|[]]. apply same_class_iff. exact H6.
    - intros o Ho. destruct (O o Ho) as [H|[]]. left; exact H.
  Qed.

  Theorem generic_class_order1 L :
    (forall g, In g L -> In g classes) -> dep_ok classes [] L ->
    exists R, load_classes classes L R0 = Some R /\ inv sigr R (after classes [1%N] L).
  Proof.
    intros HL HD.
    apply (run_ok classes sigr L [1%N] R0 inv_start1 (fun g Hg => all_static classes Rref H2 g (HL g Hg))).
    apply (dep_ok_weaken classes L [] [1%N] HD); [intros x []|].
    intros c [<-|[]] _ g Hg Hc. unfold cnum in Hc. apply cls_of_ge2 in Hc. lia.
  Qed.

  Theorem generic_module_order1 ms :
    (forall m, In m ms -> In m names) -> length ms + Dm * S (length names) <= fuel ->
    exists R, load_classes classes (cmods classes (gclosure classes fuel ms [])) R0 = Some R /\
              inv sigr R (after classes [1%N] (cmods classes (gclosure classes fuel ms []))) /\
              minv classes names (gclosure classes fuel ms []).
  Proof.
    intros Hms Hf.
    destruct (closure_spec classes names (rank names) Dm (deps_ok classes names H3) fuel (S (length names)) ms [])
      as (MI & _ & _).
    - intros m Hm. split; [apply Hms; exact Hm|]. unfold rank. pose proof (idx_le m names). lia.
    - exact Hf.
    - apply minv_nil.
    - destruct (dep_ok_cmods classes names (cn_some classes H4) (cn_nodup classes H4)
                             (mod_ok classes names H5) _ MI) as (DO & HIn).
      destruct (generic_class_order1 _ HIn DO) as (R & E & I). exists R. auto.
  Qed.

  (* the snapshots the invariant gives *)
  Lemma inv_core R loaded : inv sigr R loaded -> class_snapshot R 0%N = class_snapshot Rref 0%N.
  Proof. intros I. exact (i_core _ _ _ I). Qed.
  Lemma inv_class R L g c : inv sigr R (after classes [1%N] L) -> In g L -> cn classes g = Some c ->
    class_snapshot R c = class_snapshot Rref c.
  Proof.
    intros I Hg Hc. apply (i_snap _ _ _ I c). apply after_in. right. exists g. split; [exact Hg|exact Hc].
  Qed.
  Lemma inv_one R L : inv sigr R (after classes [1%N] L) -> class_snapshot R 1%N = class_snapshot Rref 1%N.
  Proof. intros I. apply (i_snap _ _ _ I 1%N). apply after_in. left. left. reflexivity. Qed.

  Lemma ref_wf : wf Rref /\ uq Rref.
  Proof.
    unfold chk_ref in H7. apply andb_true_iff in H7. destruct H7 as [A B].
    split; [apply wfb_sound; exact A|apply uqb_sound; exact B].
  Qed.

  (* behaviour of the rules of a class c in a set S closed under reference whose snapshots agree *)
  Definition beh_eq (R : reg) (c : cls) (name : str) : Prop :=
    match rget R c name, rget Rref c name with
    | Some k1, Some k2 =>
      forall sh f s i,
        lparse sh (grammar_of R) f (ERef (N.of_nat k1)) s i =
        lparse sh (grammar_of Rref) f (ERef (N.of_nat k2)) s i /\
        parse sh (grammar_of R) f (N.of_nat k1) s i = parse sh (grammar_of Rref) f (N.of_nat k2) s i /\
        parse_all sh (grammar_of R) f (N.of_nat k1) s = parse_all sh (grammar_of Rref) f (N.of_nat k2) s
    | None, None => True
    | _, _ => False
    end.

  Lemma beh_S R S c name : wf R -> uq R -> closedb Rref S = true -> In 0%N S -> In c S ->
    (forall c', In c' S -> class_snapshot Rref c' = class_snapshot R c') -> beh_eq R c name.
  Proof.
    intros W U HC H0 Hc HS. destruct ref_wf as [Wr Ur]. unfold beh_eq.
    pose proof (rget_rel Rref R S HS c name Hc H0) as HR.
    destruct (rget Rref c name) as [k2|], (rget R c name) as [k1|]; try contradiction; [|exact I].
    intros sh f s i.
    destruct (behaviour_eq Rref R S W Ur U HS HC sh f (N.of_nat k2) (N.of_nat k1) s i HR) as (A & B & C).
    auto.
  Qed.

  Theorem generic_behaviour ms :
    (forall m, In m ms -> In m names) -> length ms + Dm * S (length names) <= fuel ->
    exists R, load_classes classes (cmods classes (gclosure classes fuel ms [])) R0 = Some R /\
      (forall m g c name, In m (gclosure classes fuel ms []) -> In g classes -> gmod g = m ->
                          cn classes g = Some c -> beh_eq R c name) /\
      (forall name, beh_eq R 0%N name) /\ (forall name, beh_eq R 1%N name).
  Proof.
    intros Hms Hf. destruct (generic_module_order1 ms Hms Hf) as (R & E & I & MI).
    exists R. split; [exact E|].
    unfold chk_closed in H8. apply andb_true_iff in H8. destruct H8 as [C1 C2]. rewrite forallb_forall in C1.
    set (acc := gclosure classes fuel ms []) in *.
    assert (Hclosed : forall m, In m acc -> forall d, In d (deps classes m) -> In d acc).
    { intros m Hm d Hd. apply In_nth_error in Hm. destruct Hm as [j Hj].
      pose proof (m_before _ _ _ MI j m Hj d Hd) as Hin.
      rewrite <- (firstn_skipn j acc). apply in_or_app. left. exact Hin. }
    split; [|split].
    - intros m g c name Hm Hg Hgm Hc.
      assert (Hmn : In m names) by (apply (m_names _ _ _ MI); exact Hm).
      apply (beh_S R (Sm m) c name (i_wf _ _ _ I) (i_uq _ _ _ I) (C1 m Hmn)); [left; reflexivity| |].
      + right. apply lc_in. exists m, g. split; [|split; [apply CM_in; auto|exact Hc]].
        destruct (closure_spec classes names (rank names) Dm (deps_ok classes names H3) fuel (S (length names)) [m] [])
          as (_ & _ & Sub).
        * intros x [<-|[]]. split; [exact Hmn|]. unfold rank. pose proof (idx_le m names). lia.
        * exact Hfuel.
        * apply minv_nil.
        * apply Sub. left; reflexivity.
      + intros c' [<-|Hc']; [symmetry; apply (inv_core R _ I)|].
        apply lc_in in Hc'. destruct Hc' as (m' & g' & Hm' & Hg' & Hcn').
        symmetry. apply (inv_class R _ g' c' I); [|exact Hcn'].
        unfold cmods. apply in_flat_map. exists m'. split; [|exact Hg'].
        apply (gclosure_sub classes acc Hclosed fuel [m] []); [intros x [<-|[]]; exact Hm|intros x []|exact Hm'].
    - intros name. apply (beh_S R [0%N; 1%N] 0%N name (i_wf _ _ _ I) (i_uq _ _ _ I) C2);
        [left; reflexivity|left; reflexivity|].
      intros c' [<-|[<-|[]]]; symmetry; [apply (inv_core R _ I)|apply (inv_one R _ I)].
    - intros name. apply (beh_S R [0%N; 1%N] 1%N name (i_wf _ _ _ I) (i_uq _ _ _ I) C2);
        [left; reflexivity|right; left; reflexivity|].
      intros c' [<-|[<-|[]]]; symmetry; [apply (inv_core R _ I)|apply (inv_one R _ I)].
  Qed.
End Generic2.

(* ------------------------------------------------------------------------------------------ *)
(* the real data                                                                               *)
(* ------------------------------------------------------------------------------------------ *)
Opaque bundled.

Lemma b_boot1 : chk_boot1 (r_boot tt) R_all = true.
Proof. vm_cast_no_check (eq_refl true). Qed.
Lemma b_ref : chk_ref R_all = true.
Proof. vm_cast_no_check (eq_refl true). Qed.
Lemma b_closed : chk_closed bundled module_names R_all 400 = true.
Proof. vm_cast_no_check (eq_refl true). Qed.
Lemma b_fuel : 1 + Dm * S (length module_names) <= 400.
Proof. rewrite b_len. unfold Dm. lia. Qed.

Theorem C14_class_orders' L :
  (forall g, In g L -> In g bundled) -> dep_ok bundled [] L ->
  exists R, load_classes bundled L (r_boot tt) = Some R /\
            same_class R R_all 0%N = true /\ same_class R R_all 1%N = true /\
            forall g c, In g L -> cls_of bundled (gmod g) (gcls g) = Some c -> same_class R R_all c = true.
Proof.
  intros HL HD.
  destruct (generic_class_order1 bundled module_names (r_boot tt) R_all 400 b_boot b_static b_boot1 b_fuel L HL HD)
    as (R & E & I).
  exists R. split; [exact E|]. split; [|split].
  - apply same_class_iff. exact (inv_core R_all R _ I).
  - apply same_class_iff. exact (inv_one bundled R_all R L I).
  - intros g c Hg Hc. apply same_class_iff. exact (inv_class bundled R_all R L g c I Hg Hc).
Qed.

Theorem C14_all_orders' ms :
  (forall m, In m ms -> In m module_names) -> length ms <= 192 ->
  exists R, r_order ms = Some R /\ same_class R R_all 0%N = true /\ same_class R R_all 1%N = true /\
            forall m, In m (dep_closure 400 ms []) -> same_module R R_all m = true.
Proof.
  intros Hms Hlen.
  destruct (generic_module_order1 bundled module_names (r_boot tt) R_all 400 b_boot b_static b_deps b_cn b_mod
                                  b_boot1 b_fuel ms Hms) as (R & E & I & MI).
  { rewrite b_len. unfold Dm. lia. }
  exists R. split; [|split; [|split]].
  - unfold r_order. rewrite closure_eq, cm_eq. exact E.
  - apply same_class_iff. exact (inv_core R_all R _ I).
  - apply same_class_iff. exact (inv_one bundled R_all R _ I).
  - intros m Hm. unfold same_module. apply forallb_forall. intros c Hc.
    rewrite classes_of_eq in Hc. destruct (gclasses_of_in bundled m c Hc) as (g & Hg & Hgm & Hcn).
    apply same_class_iff. apply (inv_class bundled R_all R _ g c I); [|exact Hcn].
    unfold cmods. apply in_flat_map. exists m. split; [rewrite <- closure_eq; exact Hm|].
    apply CM_in. split; [exact Hg|exact Hgm].
Qed.

(* BEHAVIOUR: whatever is imported and in whatever order, every rule of every imported module, of the core class
   and of the reader class parses every text exactly as it does when all bundled modules are imported *)
Theorem C14_behaviour ms :
  (forall m, In m ms -> In m module_names) -> length ms <= 192 ->
  exists R, r_order ms = Some R /\
    (forall m g c name, In m (dep_closure 400 ms []) -> In g bundled -> gmod g = m ->
        cls_of bundled (gmod g) (gcls g) = Some c -> beh_eq R_all R c name) /\
    (forall name, beh_eq R_all R 0%N name) /\ (forall name, beh_eq R_all R 1%N name).
Proof.
  intros Hms Hlen.
  destruct (generic_behaviour bundled module_names (r_boot tt) R_all 400 b_boot b_static b_deps b_cn b_mod
                              b_boot1 b_ref b_closed b_fuel ms Hms) as (R & E & B1 & B0 & B01).
  { rewrite b_len. unfold Dm. lia. }
  exists R. split; [unfold r_order; rewrite closure_eq, cm_eq; exact E|]. split; [|split; assumption].
  intros m g c name Hm Hg Hgm Hc. apply (B1 m g c name); [rewrite <- closure_eq; exact Hm|exact Hg|exact Hgm|exact Hc].
Qed.

Print Assumptions C14_class_orders'.
Print Assumptions C14_all_orders'.
Print Assumptions C14_behaviour.
