(* RenderProof4.v — the rendering relation is total on normal trees:
   the canonical printer of RenderSpec.v produces a rendering of every normal expression, rule and
   rule list ([print_expr_renders], [print_rule_renders], [print_rulelist_renders],
   [normal_has_rendering]); conversely only normal trees have renderings ([renders_normal]).
   Hence reading what was printed gives the tree back ([read_print_rulelist]). *)
From Coq Require Import String Ascii List NArith Arith Bool Lia Decimal DecimalFacts DecimalNat.
From ABNF Require Import Base AbnfRead RenderSpec RenderProof1 RenderProof2 RenderProof3.
Import ListNotations.

(* ------------------------------------------------------------------------------------------ *)
(** * Numbers *)
Lemma horner_snoc base l d : horner base (l ++ [d]) = (horner base l * base + d)%N.
Proof. unfold horner. rewrite fold_left_app. reflexivity. Qed.

Fixpoint pos_dvs (p : positive) : list N :=
  match p with xH => [1%N] | xO p => pos_dvs p ++ [0%N] | xI p => pos_dvs p ++ [1%N] end.
Lemma pos_dvs_digits p : Forall2 (r_digit 2) (pos_dvs p) (pos_bits p).
Proof.
  assert (D0 : r_digit 2 0 48%N) by (apply (RD_dec 2 0); lia).
  assert (D1 : r_digit 2 1 49%N) by (apply (RD_dec 2 1); lia).
  induction p as [p IH|p IH|]; cbn [pos_dvs pos_bits].
  - apply Forall2_app; [exact IH|]. constructor; [exact D1|constructor].
  - apply Forall2_app; [exact IH|]. constructor; [exact D0|constructor].
  - constructor; [exact D1|constructor].
Qed.
Lemma pos_dvs_val p : horner 2 (pos_dvs p) = Npos p.
Proof.
  induction p as [p IH|p IH|]; cbn [pos_dvs]; rewrite ?horner_snoc, ?IH; [lia|lia|reflexivity].
Qed.
Lemma pos_dvs_ne p : pos_dvs p <> [].
Proof. destruct p; cbn [pos_dvs]; try discriminate; intros H; apply app_eq_nil in H; destruct H; discriminate. Qed.

Lemma print_bin_number n : r_number 2 n (print_bin n).
Proof.
  destruct n as [|p]; cbn [print_bin].
  - apply (RNumber 2 [0%N]); [discriminate|]. constructor; [apply (RD_dec 2 0); lia|constructor].
  - rewrite <- (pos_dvs_val p). constructor; [apply pos_dvs_ne|apply pos_dvs_digits].
Qed.

Fixpoint uint_dvs (d : Decimal.uint) : list N :=
  match d with
  | Nil => []
  | D0 d => 0 :: uint_dvs d | D1 d => 1 :: uint_dvs d | D2 d => 2 :: uint_dvs d
  | D3 d => 3 :: uint_dvs d | D4 d => 4 :: uint_dvs d | D5 d => 5 :: uint_dvs d
  | D6 d => 6 :: uint_dvs d | D7 d => 7 :: uint_dvs d | D8 d => 8 :: uint_dvs d
  | D9 d => 9 :: uint_dvs d
  end%N.
Lemma uint_dvs_digits d : Forall2 (r_digit 10) (uint_dvs d) (uint_chars d).
Proof.
  induction d; cbn [uint_dvs uint_chars]; constructor; try assumption;
    match goal with |- r_digit 10 ?k _ => apply (RD_dec 10 k); lia end.
Qed.
Lemma uint_dvs_val d : forall acc,
  N.to_nat (fold_left (fun a d => a * 10 + d)%N (uint_dvs d) acc) = Nat.of_uint_acc d (N.to_nat acc).
Proof.
  induction d; intros acc; cbn [uint_dvs fold_left Nat.of_uint_acc]; [reflexivity|..];
    rewrite IHd, Nat.tail_mul_spec; f_equal; lia.
Qed.
Lemma to_uint_nonnil n : Nat.to_uint n <> Nil.
Proof.
  rewrite <- (DecimalNat.Unsigned.of_to n) at 1. rewrite DecimalNat.Unsigned.to_of. apply unorm_nonnil.
Qed.
Lemma print_dec_count n : r_count n (print_dec n).
Proof.
  unfold print_dec.
  assert (E : N.to_nat (horner 10 (uint_dvs (Nat.to_uint n))) = n).
  { unfold horner. rewrite uint_dvs_val. exact (DecimalNat.Unsigned.of_to n). }
  rewrite <- E at 1. constructor. constructor; [|apply uint_dvs_digits].
  pose proof (to_uint_nonnil n) as H. destruct (Nat.to_uint n); try contradiction; discriminate.
Qed.
Lemma print_repeat_renders mn mx : r_repeat mn mx (print_repeat mn mx).
Proof.
  unfold print_repeat. destruct mx as [b|].
  - apply RR_ab; apply print_dec_count.
  - apply (RR_a mn (print_dec mn)). apply print_dec_count.
Qed.

(* ------------------------------------------------------------------------------------------ *)
(** * Derived rules *)
Lemma elem_rep e s : renders_elem e s -> renders_rep e s.  Proof. apply RP_plain. Qed.
Lemma elem_cat e s : renders_elem e s -> renders_cat e s.  Proof. intros H. apply RC_one, RP_plain, H. Qed.
Lemma elem_alt e s : renders_elem e s -> renders_alt e s.  Proof. intros H. apply RA_one, elem_cat, H. Qed.
Lemma group_plain e s : renders_alt e s -> renders_elem e (40%N :: s ++ [41%N]).
Proof. intros H. exact (RE_group e [] s [] RCwsps_nil H RCwsps_nil). Qed.
Lemma option_plain e s : renders_alt e s -> renders_elem (AOpt e) (91%N :: s ++ [93%N]).
Proof. intros H. exact (RE_option e [] s [] RCwsps_nil H RCwsps_nil). Qed.
Lemma cwsp_sp : r_cwsp [32%N].
Proof. apply RCwsp_wsp. left. reflexivity. Qed.
Lemma cwsps_sp : r_cwsps [32%N].
Proof. exact (RCwsps_cons [32%N] [] cwsp_sp RCwsps_nil). Qed.
Lemma cwsps1_sp : r_cwsps1 [32%N].
Proof. exact (RCwsps1 [32%N] [] cwsp_sp RCwsps_nil). Qed.

(* an induction principle for [aexpr] that reaches the members of [AAlt] / [ACat] *)
Section AexprInd.
  Variable P : aexpr -> Prop.
  Hypothesis Hlit : forall cs v, P (ALit cs v).
  Hypothesis Hrange : forall lo hi, P (ARange lo hi).
  Hypothesis Halt : forall es, Forall P es -> P (AAlt es).
  Hypothesis Hcat : forall es, Forall P es -> P (ACat es).
  Hypothesis Hrep : forall mn mx e, P e -> P (ARep mn mx e).
  Hypothesis Hopt : forall e, P e -> P (AOpt e).
  Hypothesis Hprose : forall v, P (AProse v).
  Hypothesis Href : forall n, P (ARef n).
  Fixpoint aexpr_rind (a : aexpr) : P a :=
    match a with
    | ALit cs v => Hlit cs v
    | ARange lo hi => Hrange lo hi
    | AAlt es => Halt es ((fix go (l : list aexpr) : Forall P l :=
        match l with [] => Forall_nil P | x :: r => Forall_cons x (aexpr_rind x) (go r) end) es)
    | ACat es => Hcat es ((fix go (l : list aexpr) : Forall P l :=
        match l with [] => Forall_nil P | x :: r => Forall_cons x (aexpr_rind x) (go r) end) es)
    | ARep mn mx e => Hrep mn mx e (aexpr_rind e)
    | AOpt e => Hopt e (aexpr_rind e)
    | AProse v => Hprose v
    | ARef n => Href n
    end.
End AexprInd.

(* ------------------------------------------------------------------------------------------ *)
(** * The printer produces renderings *)
Lemma dotted_print vs : r_dotted 2 vs (flat_map (fun v => 46%N :: print_bin v) vs).
Proof.
  induction vs as [|v vs IH]; cbn [flat_map]; [constructor|].
  cbn [app]. constructor; [apply print_bin_number|exact IH].
Qed.
Lemma alt_tail_print es : Forall (fun e => renders_elem e (print_elem e)) es ->
  renders_alt_tail es (flat_map (fun y => [32; 47; 32]%N ++ y) (map print_elem es)).
Proof.
  induction 1 as [|e es He _ IH]; cbn [map flat_map]; [constructor|].
  exact (RAT_cons [32%N] [32%N] e (print_elem e) es _ cwsps_sp cwsps_sp (elem_cat _ _ He) IH).
Qed.
Lemma cat_tail_print es : Forall (fun e => renders_elem e (print_elem e)) es ->
  renders_cat_tail es (flat_map (fun y => [32%N] ++ y) (map print_elem es)).
Proof.
  induction 1 as [|e es He _ IH]; cbn [map flat_map]; [constructor|].
  exact (RCT_cons [32%N] e (print_elem e) es _ cwsps1_sp (elem_rep _ _ He) IH).
Qed.

Lemma print_renders : forall e, normal e ->
  renders_elem e (print_elem e) /\ renders_alt e (print_expr e).
Proof.
  assert (Both : forall e, renders_elem e (print_elem e) ->
                           renders_elem e (print_elem e) /\ renders_alt e (print_elem e)).
  { intros e H. split; [exact H|apply elem_alt; exact H]. }
  assert (Sub : forall es, Forall (fun e => normal e -> renders_elem e (print_elem e) /\ renders_alt e (print_expr e)) es ->
                           Forall normal es -> Forall (fun e => renders_elem e (print_elem e)) es).
  { intros es IH Hn. induction IH as [|e es He _ IHes]; constructor; inversion Hn; subst; auto.
    apply He. assumption. }
  induction e as [cs v|lo hi|es IH|es IH|mn mx e IH|e IH|v|n] using aexpr_rind; intros Hn.
  - (* ALit *)
    change (print_expr (ALit cs v)) with (print_elem (ALit cs v)). apply Both. apply RE_term.
    destruct cs.
    + destruct v as [|n vs]; cbn [print_elem].
      * exact (RT_quoted_s 115%N [] (or_introl eq_refl) (Forall_nil _)).
      * apply (RT_series 98%N 2%N); [apply RB_b; left; reflexivity|apply print_bin_number|apply dotted_print].
    + inversion Hn; subst. apply RT_quoted. assumption.
  - (* ARange *)
    change (print_expr (ARange lo hi)) with (print_elem (ARange lo hi)). apply Both. apply RE_term.
    apply (RT_range 98%N 2%N); [apply RB_b; left; reflexivity|apply print_bin_number|apply print_bin_number].
  - (* AAlt *)
    inversion Hn as [| | |es' Hlen Hes| | | | |]; subst.
    assert (A : renders_alt (AAlt es) (print_expr (AAlt es))).
    { pose proof (Sub es IH Hes) as Hr. destruct Hr as [|e1 es1 H1 Hr1]; [cbn in Hlen; lia|].
      cbn [print_expr map join]. apply RA_many.
      - apply elem_cat. exact H1.
      - apply alt_tail_print. exact Hr1.
      - destruct es1; [cbn in Hlen; lia|discriminate]. }
    split; [|exact A]. exact (group_plain _ _ A).
  - (* ACat *)
    inversion Hn as [| | | |es' Hlen Hes| | | |]; subst.
    assert (A : renders_cat (ACat es) (print_expr (ACat es))).
    { pose proof (Sub es IH Hes) as Hr. destruct Hr as [|e1 es1 H1 Hr1]; [cbn in Hlen; lia|].
      cbn [print_expr map join]. apply RC_many.
      - apply elem_rep. exact H1.
      - apply cat_tail_print. exact Hr1.
      - destruct es1; [cbn in Hlen; lia|discriminate]. }
    split; [|apply RA_one; exact A]. exact (group_plain _ _ (RA_one _ _ A)).
  - (* ARep *)
    inversion Hn; subst.
    assert (A : renders_alt (ARep mn mx e) (print_expr (ARep mn mx e))).
    { cbn [print_expr]. apply RA_one, RC_one, RP_repeat; [apply print_repeat_renders|].
      apply IH. assumption. }
    split; [|exact A]. exact (group_plain _ _ A).
  - (* AOpt *)
    inversion Hn; subst.
    change (print_expr (AOpt e)) with (print_elem (AOpt e)). apply Both. cbn [print_elem].
    apply option_plain, elem_alt, IH. assumption.
  - (* AProse *)
    inversion Hn; subst.
    change (print_expr (AProse v)) with (print_elem (AProse v)). apply Both. apply RE_term, RT_prose; assumption.
  - (* ARef *)
    inversion Hn; subst.
    change (print_expr (ARef n)) with (print_elem (ARef n)). apply Both. apply RE_term, RT_ref; assumption.
Qed.

Theorem print_expr_renders : forall e, normal e -> renders_alt e (print_expr e).
Proof. intros e H. exact (proj2 (print_renders e H)). Qed.

Lemma rule_intro a (s s' : str) : renders_rule a s' -> s = s' -> renders_rule a s.
Proof. intros H ->. exact H. Qed.

Theorem print_rule_renders : forall a, normal_rule a -> renders_rule a (print_rule a).
Proof.
  intros [n incr e] [Hn He]. cbn [aname adef] in *. unfold print_rule. cbn [aname aincr adef].
  pose proof (print_expr_renders e He) as A.
  assert (El : renders_elements e (print_expr e ++ [])) by (constructor; [exact A|constructor]).
  destruct incr; cbv iota.
  - apply (rule_intro _ _ (n ++ ([32%N] ++ 61%N :: 47%N :: [32%N]) ++ (print_expr e ++ []) ++ [CR; LF])).
    + constructor; [exact Hn|constructor; apply cwsps_sp|exact El|apply RCnl_crlf].
    + rewrite List.app_nil_r. reflexivity.
  - apply (rule_intro _ _ (n ++ ([32%N] ++ 61%N :: [32%N]) ++ (print_expr e ++ []) ++ [CR; LF])).
    + constructor; [exact Hn|constructor; apply cwsps_sp|exact El|apply RCnl_crlf].
    + rewrite List.app_nil_r. reflexivity.
Qed.

Lemma print_entries rs : Forall normal_rule rs -> r_entries rs (flat_map print_rule rs).
Proof.
  induction 1 as [|a rs Ha _ IH]; cbn [flat_map]; [constructor|].
  exact (REntries_cons (Some a) _ rs _ (REntry_rule a _ (print_rule_renders a Ha)) IH).
Qed.
Theorem print_rulelist_renders : forall rs, Forall normal_rule rs -> renders_rulelist rs (print_rulelist rs).
Proof.
  intros rs H. destruct H as [|a rs Ha Hrs].
  - exact (RRulelist None _ [] [] (REntry_blank [] [CR; LF] RCwsps_nil RCnl_crlf) REntries_nil).
  - cbn [print_rulelist flat_map].
    exact (RRulelist (Some a) _ rs _ (REntry_rule a _ (print_rule_renders a Ha)) (print_entries rs Hrs)).
Qed.

(* existence of a rendering, in the form asked for (the hypothesis [rs <> []] is not needed) *)
Corollary normal_has_rendering : forall rs, Forall normal_rule rs -> rs <> [] ->
  exists s, renders_rulelist rs s.
Proof. intros rs H _. exists (print_rulelist rs). apply print_rulelist_renders. exact H. Qed.

(* print, then read: the same rules *)
Corollary read_print_rulelist : forall rs, Forall normal_rule rs -> read_rulelist (print_rulelist rs) = Some rs.
Proof. intros rs H. apply read_render_rulelist, print_rulelist_renders, H. Qed.
Corollary read_print_expr : forall e, normal e -> read_elements (print_expr e) = Some (e, []).
Proof.
  intros e H. rewrite <- (List.app_nil_r (print_expr e)). apply read_render_elements.
  constructor; [apply print_expr_renders; exact H|constructor].
Qed.

(* ------------------------------------------------------------------------------------------ *)
(** * Only normal trees have renderings *)
Lemma term_normal e s : renders_term e s -> normal e.
Proof. intros H. destruct H; constructor; assumption. Qed.

Lemma renders_normal_all :
  (forall e s, renders_elem e s -> normal e) /\
  (forall e s, renders_rep e s -> normal e) /\
  (forall e s, renders_cat e s -> normal e) /\
  (forall es t, renders_cat_tail es t -> Forall normal es) /\
  (forall e s, renders_alt e s -> normal e) /\
  (forall es t, renders_alt_tail es t -> Forall normal es).
Proof.
  apply renders_mutind; intros; try (constructor; assumption); try assumption.
  - eapply term_normal; eassumption.
  - apply N_cat; [|constructor; assumption]. destruct es; [contradiction|cbn; lia].
  - apply N_alt; [|constructor; assumption]. destruct es; [contradiction|cbn; lia].
Qed.
Theorem renders_normal : forall e s, renders_alt e s -> normal e.
Proof. exact (proj1 (proj2 (proj2 (proj2 (proj2 renders_normal_all))))). Qed.
Theorem renders_rule_normal : forall a s, renders_rule a s -> normal_rule a.
Proof.
  intros a s [n incr d e s' nl Hn _ [e' s0 w He _] _]. split; [exact Hn|]. exact (renders_normal _ _ He).
Qed.

Print Assumptions print_expr_renders.
Print Assumptions print_rulelist_renders.
Print Assumptions normal_has_rendering.
Print Assumptions read_print_rulelist.
Print Assumptions renders_normal.
